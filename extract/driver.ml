(* Driver for the extracted models: reads lines "<fn> <sexp>", prints the result sexp. *)
module M = Model

let rec z_of_int (n : int) : M.z =
  if n = 0 then M.Z0 else if n > 0 then M.Zpos (pos_of_int n) else M.Zneg (pos_of_int (-n))
and pos_of_int (n : int) : M.positive =
  if n = 1 then M.XH else if n land 1 = 0 then M.XO (pos_of_int (n lsr 1)) else M.XI (pos_of_int (n lsr 1))

(* arbitrary-size decimal strings -> Z, through repeated *10 + d on the extracted Z *)
let z_of_string (s : string) : M.z =
  let neg = String.length s > 0 && s.[0] = '-' in
  let start = if neg then 1 else 0 in
  let ten = z_of_int 10 in
  let acc = ref M.Z0 in
  for i = start to String.length s - 1 do
    acc := M.Z.add (M.Z.mul !acc ten) (z_of_int (Char.code s.[i] - 48))
  done;
  if neg then M.Z.opp !acc else !acc

let rec string_of_pos (p : M.positive) : string =
  (* convert via repeated division by 10 on extracted Z *)
  string_of_z (M.Zpos p)
and string_of_z (z : M.z) : string =
  match z with
  | M.Z0 -> "0"
  | M.Zneg p -> "-" ^ string_of_z (M.Zpos p)
  | M.Zpos _ ->
    let ten = z_of_int 10 in
    let buf = Buffer.create 16 in
    let rec go z acc =
      match z with
      | M.Z0 -> acc
      | _ ->
        let q = M.Z.div z ten and r = M.Z.modulo z ten in
        let d = (match r with M.Z0 -> 0 | M.Zpos p -> int_of_pos p | M.Zneg _ -> 0) in
        go q (Char.chr (48 + d) :: acc)
    in
    List.iter (Buffer.add_char buf) (go z []);
    Buffer.contents buf
and int_of_pos (p : M.positive) : int =
  match p with M.XH -> 1 | M.XO q -> 2 * int_of_pos q | M.XI q -> 2 * int_of_pos q + 1

let parse (s : string) : M.sexp =
  let n = String.length s in
  let pos = ref 0 in
  let rec skip () = while !pos < n && (s.[!pos] = ' ' || s.[!pos] = '\t') do incr pos done
  and item () : M.sexp =
    skip ();
    if !pos >= n then failwith "eof"
    else if s.[!pos] = '(' then begin
      incr pos;
      let items = ref [] in
      let continue = ref true in
      while !continue do
        skip ();
        if !pos >= n then failwith "unclosed"
        else if s.[!pos] = ')' then (incr pos; continue := false)
        else items := item () :: !items
      done;
      M.L (List.rev !items)
    end else begin
      let st = !pos in
      while !pos < n && s.[!pos] <> ' ' && s.[!pos] <> '(' && s.[!pos] <> ')' do incr pos done;
      M.A (z_of_string (String.sub s st (!pos - st)))
    end
  in
  item ()

let rec print (b : Buffer.t) (x : M.sexp) : unit =
  match x with
  | M.A z -> Buffer.add_string b (string_of_z z)
  | M.L l ->
    Buffer.add_char b '(';
    List.iteri (fun i y -> if i > 0 then Buffer.add_char b ' '; print b y) l;
    Buffer.add_char b ')'

let () =
  try
    while true do
      let line = input_line stdin in
      if String.length line > 0 then begin
        let sp = String.index line ' ' in
        let fn = z_of_string (String.sub line 0 sp) in
        let arg = parse (String.sub line (sp + 1) (String.length line - sp - 1)) in
        let res = (try M.run fn arg with Stack_overflow -> L [M.A (z_of_int (-2))]) in
        let b = Buffer.create 256 in
        print b res;
        print_endline (Buffer.contents b)
      end
    done
  with End_of_file -> ()
