(* Units as exponent vectors.

   A unit is a finite formal product  Π g^e  of generators g with rational exponents e.
   Generators are integers:  g > 1   a prime p        (the SI scale is  Π p^e)
                             g < 0   a base dimension (-1..-7 the SI ones, below that user base units)
   The list is NOT kept canonical: multiplication is concatenation, and everything is read
   through [get], the total exponent of a generator.  This keeps every algebraic law a
   two-line proof and still gives a decidable, executable equivalence [ueqb].

   This file is the specification-level model of the part of pint cellmlmanip relies on
   (exact arithmetic instead of binary floating point).  No proofs here. *)
From Coq Require Import List ZArith QArith Bool.
Import ListNotations.
Open Scope Z_scope.

Definition uvec := list (Z * Q).

Definition uone : uvec := [].
Definition umul (a b : uvec) : uvec := a ++ b.
Definition upow (a : uvec) (q : Q) : uvec := map (fun ke => (fst ke, (snd ke * q)%Q)) a.
Definition uinv (a : uvec) : uvec := upow a (-1 # 1)%Q.
Definition udiv (a b : uvec) : uvec := umul a (uinv b).

Fixpoint get (a : uvec) (k : Z) : Q :=
  match a with
  | [] => 0%Q
  | (k', e) :: r => if Z.eqb k k' then (e + get r k)%Q else get r k
  end.

Definition keys (a : uvec) : list Z := map fst a.

(* equality of the exponent of every generator mentioned in either *)
Definition ueqb (a b : uvec) : bool :=
  forallb (fun k => Qeq_bool (get a k) (get b k)) (keys a ++ keys b).

Definition ueq (a b : uvec) : Prop := forall k, (get a k == get b k)%Q.

(* projections.  Generator -8 is pint's "radian = []": a base unit WITHOUT a dimension.  It takes
   no part in convertibility, scale or equivalence (radian converts to dimensionless with factor 1 and,
   since the fix: commit for the radian finding, is_equivalent compares dimensionalities, not base units). *)
Definition angle_gen : Z := -8.
Definition is_dim (k : Z) : bool := Z.ltb k 0 && negb (Z.eqb k angle_gen).
Definition is_scale (k : Z) : bool := Z.ltb 0 k.
Definition dims (a : uvec) : uvec := filter (fun ke => is_dim (fst ke)) a.
Definition scale (a : uvec) : uvec := filter (fun ke => is_scale (fst ke)) a.
Definition angle (a : uvec) : uvec := filter (fun ke => negb (is_dim (fst ke)) && negb (is_scale (fst ke))) a.

Definition dimensionless_b (a : uvec) : bool := ueqb (dims a) uone.
Definition same_dims (a b : uvec) : bool := ueqb (dims a) (dims b).

(* conversion factor from a to b, as an exponent vector over the primes: multiply a magnitude
   in unit a by  Π p^e  to obtain the magnitude in unit b.  None = dimension mismatch. *)
Definition conv (a b : uvec) : option uvec :=
  if same_dims a b then Some (scale (udiv a b)) else None.

Definition is_one (c : uvec) : bool := ueqb c uone.

(* is_equivalent: same dimensions and same scale *)
Definition equivb (a b : uvec) : bool := same_dims a b && ueqb (scale a) (scale b).

(* A canonical printable form for the bridge: merged exponents of the distinct keys, zero
   entries dropped, in order of first occurrence. *)
Fixpoint nodup_keys (l : list Z) (seen : list Z) : list Z :=
  match l with
  | [] => []
  | k :: r => if existsb (Z.eqb k) seen then nodup_keys r seen else k :: nodup_keys r (k :: seen)
  end.

Definition canon (a : uvec) : uvec :=
  filter (fun ke => negb (Qeq_bool (snd ke) 0))
         (map (fun k => (k, Qred (get a k))) (nodup_keys (keys a) [])).
