(* Integer s-expressions: the only data that crosses the Coq / Python boundary. *)
From Coq Require Export List ZArith QArith Bool.
Export ListNotations.
Open Scope Z_scope.

Inductive sexp := A (z : Z) | L (l : list sexp).

(* Error marker: (-1 code ...) *)
Definition serr (code : Z) : sexp := L [A (-1); A code].
Definition sok (x : sexp) : sexp := L [A 0; x].

Definition sZ (x : sexp) : Z := match x with A z => z | L _ => 0 end.
Definition sL (x : sexp) : list sexp := match x with A _ => [] | L l => l end.
Definition sbool (b : bool) : sexp := A (if b then 1 else 0).
Definition sQ (q : Q) : sexp := L [A (Qnum q); A (Zpos (Qden q))].
Definition Q_of_sexp (x : sexp) : Q :=
  match x with
  | L [A n; A (Zpos d)] => Qmake n d
  | A n => Qmake n 1
  | _ => 0%Q
  end.
Definition bool_of_sexp (x : sexp) : bool := negb (Z.eqb (sZ x) 0).
Definition nat_of_sexp (x : sexp) : nat := Z.to_nat (sZ x).
Definition snat (n : nat) : sexp := A (Z.of_nat n).
Definition slist {T} (f : T -> sexp) (l : list T) : sexp := L (map f l).
Definition sopt {T} (f : T -> sexp) (o : option T) : sexp :=
  match o with None => L [] | Some x => L [f x] end.
Definition opt_of_sexp {T} (f : sexp -> T) (x : sexp) : option T :=
  match x with L [y] => Some (f y) | _ => None end.
