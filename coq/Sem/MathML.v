(* Specification: the value MathML 2 (section 4.4, appendix C) assigns to a content tree, written directly on
   MathML trees.  No reference to what the transpiler builds.
   Choices where MathML 2 is not decisive (DESIGN.md section 5, C02): real powers as in Eval.pow_sem (no real
   root of a negative number with a non-integer exponent), max/min/rem/rounding/transcendental functions are the
   abstract [fsem] shared with Eval (max and min of one operand are that operand), a derivative has a value only
   for  diff(bvar(ci t), ci y)  (the atom dsem y t), n-ary operators need at least one operand here, <otherwise>
   must be the last child of <piecewise>, an <apply> with one child that is not an operator is that child (the
   implementation's test-suite relies on it).  Numbers: the decimal digit reader is the one of the model
   (Transpile.signed_number) restricted to the MathML alphabet [0-9.+-]. *)
From Coq Require Import List ZArith QArith Bool Reals Qreals String.
From Verif Require Import Sexp UnitAlg UStore Expr Eval Transpile.
Import ListNotations.
Open Scope Z_scope.

Inductive skind :=
| SNaryR (w : Z)      (* 0 plus, 1 times *)
| SMaxMin (f : Z)
| SNaryB (op : Z)     (* 0 and, 1 or, 2 xor *)
| SNot | SMinus | SDivide | SPower | SRem | SRoot | SLog | SDiff
| SUnary (f : Z)
| SRelN (r : Z)       (* n-ary, chained: eq lt gt leq geq *)
| SRel2 (r : Z).      (* binary: neq *)

Inductive srole :=
| RCi | RCn | RApply | RPiecewise | RPiece | ROtherwise | RDegree | RLogbase | RBvar | RMath
| ROp (k : skind) | RConstR (c : Z) | RConstB (b : bool).

Open Scope string_scope.
Definition role_table : list (name * srole) := [
  (N "ci", RCi); (N "cn", RCn); (N "apply", RApply); (N "piecewise", RPiecewise); (N "piece", RPiece);
  (N "otherwise", ROtherwise); (N "degree", RDegree); (N "logbase", RLogbase); (N "bvar", RBvar); (N "math", RMath);
  (N "plus", ROp (SNaryR 0)); (N "times", ROp (SNaryR 1)); (N "max", ROp (SMaxMin fn_max)); (N "min", ROp (SMaxMin fn_min));
  (N "and", ROp (SNaryB 0)); (N "or", ROp (SNaryB 1)); (N "xor", ROp (SNaryB 2)); (N "not", ROp SNot);
  (N "minus", ROp SMinus); (N "divide", ROp SDivide); (N "power", ROp SPower); (N "rem", ROp SRem);
  (N "root", ROp SRoot); (N "log", ROp SLog); (N "diff", ROp SDiff);
  (N "eq", ROp (SRelN 0)); (N "neq", ROp (SRel2 1)); (N "lt", ROp (SRelN 2)); (N "leq", ROp (SRelN 3));
  (N "gt", ROp (SRelN 4)); (N "geq", ROp (SRelN 5));
  (N "exp", ROp (SUnary fn_exp)); (N "ln", ROp (SUnary fn_log)); (N "abs", ROp (SUnary fn_abs));
  (N "floor", ROp (SUnary fn_floor)); (N "ceiling", ROp (SUnary fn_ceiling));
  (N "sin", ROp (SUnary fn_sin)); (N "cos", ROp (SUnary fn_cos)); (N "tan", ROp (SUnary fn_tan));
  (N "sec", ROp (SUnary fn_sec)); (N "csc", ROp (SUnary fn_csc)); (N "cot", ROp (SUnary fn_cot));
  (N "sinh", ROp (SUnary fn_sinh)); (N "cosh", ROp (SUnary fn_cosh)); (N "tanh", ROp (SUnary fn_tanh));
  (N "sech", ROp (SUnary fn_sech)); (N "csch", ROp (SUnary fn_csch)); (N "coth", ROp (SUnary fn_coth));
  (N "arcsin", ROp (SUnary fn_asin)); (N "arccos", ROp (SUnary fn_acos)); (N "arctan", ROp (SUnary fn_atan));
  (N "arcsec", ROp (SUnary fn_asec)); (N "arccsc", ROp (SUnary fn_acsc)); (N "arccot", ROp (SUnary fn_acot));
  (N "arcsinh", ROp (SUnary fn_asinh)); (N "arccosh", ROp (SUnary fn_acosh)); (N "arctanh", ROp (SUnary fn_atanh));
  (N "arcsech", ROp (SUnary fn_asech)); (N "arccsch", ROp (SUnary fn_acsch)); (N "arccoth", ROp (SUnary fn_acoth));
  (N "pi", RConstR 0); (N "exponentiale", RConstR 1); (N "infinity", RConstR 2); (N "notanumber", RConstR 4);
  (N "true", RConstB true); (N "false", RConstB false)
].
Definition sep_name : name := N "sep".
Open Scope Z_scope.

Definition role (tag : name) : option srole := alookup tag role_table.

(* ---- numbers ---------------------------------------------------------------------------------- *)
Definition real_char (c : Z) : bool := is_digit c || (c =? 46) || (c =? 43) || (c =? 45).
Definition int_char (c : Z) : bool := is_digit c || (c =? 43) || (c =? 45).

(* [sign] digits [. digits]: the integer of all digits and the number of fractional digits *)
Definition mathml_real (s : list Z) : option (Z * Z) :=
  if forallb real_char s then
    match signed_number s with Some (v, k, []) => Some (v, k) | _ => None end
  else None.

(* a plain <cn>: a decimal with an optional decimal exponent "1.5e-3" (choice in favour of CellML practice) *)
Definition number_char (c : Z) : bool := real_char c || (c =? 101) || (c =? 69).
Definition mathml_number (s : list Z) : option Q :=
  if forallb number_char s then py_real s else None.

Definition mathml_int (s : list Z) : option Z :=
  if forallb int_char (strip s) then py_int s else None.

(* ---- operators on values ---------------------------------------------------------------------- *)
Open Scope R_scope.

Fixpoint pairwise (r : Z) (a : R) (l : list R) : option bool :=
  match l with
  | [] => Some true
  | b :: rest => match rel_sem r a b, pairwise r b rest with
                 | Some x, Some y => Some (x && y)
                 | _, _ => None
                 end
  end.

Section Spec.
  Variable fsem : Z -> list R -> option R.
  Variable csem : Z -> option R.
  Variable vsem : Z -> option R.
  Variable dsem : Z -> Z -> option R.

  Definition sem_op (k : skind) (vs : list value) : option value :=
    match k with
    | SNaryR w =>
        match vs, reals vs with
        | _ :: _, Some rs => if (w =? 0)%Z then Some (VR (fold_right Rplus 0 rs))
                             else if (w =? 1)%Z then Some (VR (fold_right Rmult 1 rs)) else None
        | _, _ => None
        end
    | SMaxMin f =>
        match vs, reals vs with
        | [_], Some [x] => Some (VR x)
        | _ :: _ :: _, Some rs => option_map VR (fsem f rs)
        | _, _ => None
        end
    | SNaryB op =>
        match vs, bools vs with
        | _ :: _, Some bs => if (0 <=? op)%Z && (op <=? 2)%Z then option_map VB (bool_sem op bs) else None
        | _, _ => None
        end
    | SNot => match vs with [VB b] => Some (VB (negb b)) | _ => None end
    | SMinus => match vs with
                | [VR x] => Some (VR (- x))
                | [VR x; VR y] => Some (VR (x - y))
                | _ => None
                end
    | SDivide => match vs with
                 | [VR x; VR y] => if Req_EM_T y 0 then None else Some (VR (x / y))
                 | _ => None
                 end
    | SPower => match vs with [VR x; VR y] => option_map VR (pow_sem x y) | _ => None end
    | SRem => match vs with [VR x; VR y] => option_map VR (fsem fn_mod [x; y]) | _ => None end
    | SUnary f => match vs with [VR x] => option_map VR (fsem f [x]) | _ => None end
    | SRelN r => match reals vs with
                 | Some (a :: ((_ :: _) as rest)) => option_map VB (pairwise r a rest)
                 | _ => None
                 end
    | SRel2 r => match vs with [VR x; VR y] => option_map VB (rel_sem r x y) | _ => None end
    | SRoot | SLog | SDiff => None          (* take qualifiers: see [msem] *)
    end.

  (* root(x) of degree d = x^(1/d) *)
  Definition sem_root (x d : option value) : option value :=
    match x, d with
    | Some (VR rx), Some (VR rd) => if Req_EM_T rd 0 then None else option_map VR (pow_sem rx (/ rd))
    | _, _ => None
    end.

  (* log_b x = ln x / ln b *)
  Definition sem_log (x b : option value) : option value :=
    match x, b with
    | Some (VR rx), Some (VR rb) =>
        match fsem fn_log [rx], fsem fn_log [rb] with
        | Some lx, Some lb => if Req_EM_T lb 0 then None else Some (VR (lx / lb))
        | _, _ => None
        end
    | _, _ => None
    end.

  Definition sem_ci (text : list Z) : option value :=
    match text with [] => None | _ => option_map VR (vsem (encode (strip text))) end.

  Definition is_role (tag : name) (r : srole) : bool :=
    match role tag, r with
    | Some RPiece, RPiece | Some ROtherwise, ROtherwise | Some RDegree, RDegree | Some RLogbase, RLogbase
    | Some RBvar, RBvar | Some RCi, RCi => true
    | _, _ => false
    end.

  Definition sem_cn (ty : Z) (text : list Z) (ch : list mtree) : option value :=
    if (ty =? 0)%Z then
      match text, ch with
      | _ :: _, [] => match mathml_number (strip text) with
                      | Some q => Some (VR (Q2R q))
                      | None => None
                      end
      | _, _ => None
      end
    else if (ty =? 1)%Z then
      match text, ch with
      | _ :: _, [MElem stag _ _ ((_ :: _) as stail) []] =>
          if name_eqb stag sep_name then
            match mathml_real (strip text), mathml_int stail with
            | Some (v, k), Some e => Some (VR (Q2R (q10 v (e - k))))     (* mantissa * 10^e *)
            | _, _ => None
            end
          else None
      | _, _ => None
      end
    else None.

  Definition msems_of (rec : mtree -> option value) : list mtree -> option (list value) :=
    fix go (l : list mtree) : option (list value) :=
      match l with
      | [] => Some []
      | x :: r => match rec x, go r with
                  | Some v, Some vs => Some (v :: vs)
                  | _, _ => None
                  end
      end.

  (* children of <piecewise>: the first <piece> whose condition holds, <otherwise> (last) if none does *)
  Definition mpw_of (rec : mtree -> option value) : list mtree -> option value :=
    fix go (l : list mtree) : option value :=
      match l with
      | [] => None
      | MElem ptag _ _ _ pch :: r =>
          if is_role ptag RPiece then
            match pch with
            | [x; c] => match rec c with
                        | Some (VB true) => rec x
                        | Some (VB false) => go r
                        | _ => None
                        end
            | _ => None
            end
          else if is_role ptag ROtherwise then
            match pch, r with
            | [x], [] => rec x
            | _, _ => None
            end
          else None
      end.

  Definition sem_apply (rec : mtree -> option value) (k : skind) (args : list mtree) : option value :=
    match k with
    | SRoot =>
        match args with
        | [x] => sem_root (rec x) (Some (VR 2))
        | [q; x] => match q with
                    | MElem qtag _ _ _ [d] => if is_role qtag RDegree then sem_root (rec x) (rec d) else None
                    | _ => None
                    end
        | _ => None
        end
    | SLog =>
        match args with
        | [x] => sem_log (rec x) (Some (VR 10))
        | [q; x] => match q with
                    | MElem qtag _ _ _ [b] => if is_role qtag RLogbase then sem_log (rec x) (rec b) else None
                    | _ => None
                    end
        | _ => None
        end
    | SDiff =>
        match args with
        | [b; y] =>
            match b, y with
            | MElem btag _ _ _ [MElem ttag _ ((_ :: _) as ttext) _ _], MElem ytag _ ((_ :: _) as ytext) _ _ =>
                if is_role btag RBvar && is_role ttag RCi && is_role ytag RCi
                then option_map VR (dsem (encode (strip ytext)) (encode (strip ttext)))
                else None
            | _, _ => None
            end
        | _ => None
        end
    | _ => match msems_of rec args with
           | Some vs => sem_op k vs
           | None => None
           end
    end.

  Definition msem_body (rec : mtree -> option value) (tag : name) (ty : Z) (text : list Z) (ch : list mtree)
    : option value :=
    match role tag with
    | Some RCi => sem_ci text
    | Some RCn => sem_cn ty text ch
    | Some (RConstR c) => option_map VR (csem c)
    | Some (RConstB b) => Some (VB b)
    | Some RPiecewise => mpw_of rec ch
    | Some RApply =>
        match ch with
        | x :: args =>
            match role (mtag x), args with
            | Some (ROp k), _ => sem_apply rec k args
            | _, [] => rec x           (* an <apply> around a single value is that value *)
            | _, _ => None
            end
        | [] => None
        end
    | _ => None           (* operators, qualifiers, <math> have no value of their own *)
    end.

  Fixpoint msem (t : mtree) : option value :=
    match t with
    | MElem tag ty text tail ch => msem_body msem tag ty text ch
    end.

  Definition msems : list mtree -> option (list value) := msems_of msem.
  Definition mpw : list mtree -> option value := mpw_of msem.
End Spec.
