(* Denotation of SymPy-shaped trees over the reals (DESIGN.md section 3.2).
   Function symbols, powers, constants and the leaves are Section variables: theorems hold for
   every interpretation; the laws a theorem needs become explicit premises. *)
From Coq Require Import List ZArith QArith Bool Reals Qreals.
From Verif Require Import Sexp Expr.
Import ListNotations.
Open Scope R_scope.

Inductive value := VR (r : R) | VB (b : bool).

Definition Rltb (x y : R) : bool := if Rlt_dec x y then true else false.
Definition Rleb (x y : R) : bool := if Rle_dec x y then true else false.
Definition Reqb (x y : R) : bool := if Req_EM_T x y then true else false.

Definition rel_sem (r : Z) (x y : R) : option bool :=
  match r with
  | 0%Z => Some (Reqb x y)
  | 1%Z => Some (negb (Reqb x y))
  | 2%Z => Some (Rltb x y)
  | 3%Z => Some (Rleb x y)
  | 4%Z => Some (Rltb y x)
  | 5%Z => Some (Rleb y x)
  | _ => None
  end.

Fixpoint reals (l : list value) : option (list R) :=
  match l with
  | [] => Some []
  | VR r :: t => match reals t with Some rs => Some (r :: rs) | None => None end
  | VB _ :: _ => None
  end.

Fixpoint bools (l : list value) : option (list bool) :=
  match l with
  | [] => Some []
  | VB b :: t => match bools t with Some bs => Some (b :: bs) | None => None end
  | VR _ :: _ => None
  end.

Definition bool_sem (op : Z) (bs : list bool) : option bool :=
  match op with
  | 0%Z => Some (fold_right andb true bs)
  | 1%Z => Some (fold_right orb false bs)
  | 2%Z => Some (fold_right xorb false bs)
  | 3%Z => match bs with [b] => Some (negb b) | _ => None end
  | _ => None
  end.

Section Eval.
  Variable fsem : Z -> list R -> option R.   (* exp, log, sin, ..., floor, Max, Mod *)
  Variable psem : R -> R -> option R.        (* power; None where undefined over the reals *)
  Variable csem : Z -> option R.             (* pi, E *)
  Variable qsem : Z -> Q -> Z -> option R.   (* quantity leaf: id, value, unit index *)
  Variable vsem : Z -> option R.             (* variable leaf *)
  Variable dsem : Z -> Z -> option R.        (* derivative atom d(var y)/d(var t) *)

  Fixpoint eval (e : expr) : option value :=
    let fix evals (l : list expr) : option (list value) :=
      match l with
      | [] => Some []
      | x :: r => match eval x, evals r with
                  | Some v, Some vs => Some (v :: vs)
                  | _, _ => None
                  end
      end in
    let fix evalpw (l : list (expr * expr)) : option value :=
      match l with
      | [] => None
      | (x, c) :: r => match eval c with
                       | Some (VB true) => eval x
                       | Some (VB false) => evalpw r
                       | _ => None
                       end
      end in
    match e with
    | ENum _ q => Some (VR (Q2R q))
    | EConst c => option_map VR (csem c)
    | EQty id q u => option_map VR (qsem id q u)
    | EVar v => option_map VR (vsem v)
    | EAdd l => match evals l with
                | Some vs => option_map (fun rs => VR (fold_right Rplus 0 rs)) (reals vs)
                | None => None
                end
    | EMul l => match evals l with
                | Some vs => option_map (fun rs => VR (fold_right Rmult 1 rs)) (reals vs)
                | None => None
                end
    | EPow b x => match eval b, eval x with
                  | Some (VR rb), Some (VR rx) => option_map VR (psem rb rx)
                  | _, _ => None
                  end
    | EFn f l => match evals l with
                 | Some vs => match reals vs with
                              | Some rs => option_map VR (fsem f rs)
                              | None => None
                              end
                 | None => None
                 end
    | EDeriv (EVar y) (EVar t) 1 => option_map VR (dsem y t)
    | EDeriv _ _ _ => None
    | ERel r a b => match eval a, eval b with
                    | Some (VR ra), Some (VR rb) => option_map VB (rel_sem r ra rb)
                    | _, _ => None
                    end
    | EBool op l => match evals l with
                    | Some vs => match bools vs with
                                 | Some bs => option_map VB (bool_sem op bs)
                                 | None => None
                                 end
                    | None => None
                    end
    | ETrue => Some (VB true)
    | EFalse => Some (VB false)
    | EPw l => evalpw l
    end.

  (* the list helpers as top-level functions, with unfolding lemmas proved in Proofs/EvalP.v *)
  Fixpoint evals (l : list expr) : option (list value) :=
    match l with
    | [] => Some []
    | x :: r => match eval x, evals r with
                | Some v, Some vs => Some (v :: vs)
                | _, _ => None
                end
    end.

  Fixpoint evalpw (l : list (expr * expr)) : option value :=
    match l with
    | [] => None
    | (x, c) :: r => match eval c with
                     | Some (VB true) => eval x
                     | Some (VB false) => evalpw r
                     | _ => None
                     end
    end.
End Eval.

(* a concrete power: positive base any exponent; any base with integer exponent (0^negative undefined) *)
Definition pow_sem (x y : R) : option R :=
  if Rlt_dec 0 x then Some (Rpower x y)
  else if Req_EM_T (IZR (Int_part y)) y
       then (if Req_EM_T x 0
             then (if Rlt_dec 0 y then Some 0 else if Req_EM_T y 0 then Some 1 else None)
             else Some (powerRZ x (Int_part y)))
       else None.
