(* One expression language for SymPy trees (DESIGN.md section 3.1).  SymPy-shaped on purpose:
   tools/bridge.py reifies a real SymPy object node by node (expr.args in SymPy's own order). *)
From Coq Require Import List ZArith QArith Bool.
From Verif Require Import Sexp.
Import ListNotations.
Open Scope Z_scope.

Inductive expr :=
| ENum (k : Z) (q : Q)          (* k = 0 Integer, 1 Rational, 2 Float (exact value of the double) *)
| EConst (c : Z)                (* 0 pi, 1 E, 2 oo, 3 -oo, 4 nan, 5 zoo *)
| EQty (id : Z) (q : Q) (u : Z) (* model.Quantity: identity, value, unit = index into the case's unit table;
                                   -1 = units is a bare string, -2 = units is None *)
| EVar (v : Z)                  (* model.Variable / Symbol: index into the case's variable table *)
| EAdd (l : list expr)
| EMul (l : list expr)
| EPow (b e : expr)
| EFn (f : Z) (l : list expr)   (* function ids: see fn_* below *)
| EDeriv (y t : expr) (n : Z)   (* Derivative(y, (t, n)) *)
| ERel (r : Z) (a b : expr)     (* 0 Eq, 1 Ne, 2 Lt, 3 Le, 4 Gt, 5 Ge *)
| EBool (op : Z) (l : list expr)(* 0 And, 1 Or, 2 Xor, 3 Not *)
| ETrue
| EFalse
| EPw (l : list (expr * expr)). (* Piecewise((e, c), ...) *)

(* function ids (tools/bridge.py FN_IDS is the same table) *)
Definition fn_exp := 0. Definition fn_log := 1. Definition fn_abs := 2.
Definition fn_floor := 3. Definition fn_ceiling := 4.
Definition fn_sin := 10. Definition fn_cos := 11. Definition fn_tan := 12.
Definition fn_sec := 13. Definition fn_csc := 14. Definition fn_cot := 15.
Definition fn_sinh := 16. Definition fn_cosh := 17. Definition fn_tanh := 18.
Definition fn_sech := 19. Definition fn_csch := 20. Definition fn_coth := 21.
Definition fn_asin := 22. Definition fn_acos := 23. Definition fn_atan := 24.
Definition fn_asec := 25. Definition fn_acsc := 26. Definition fn_acot := 27.
Definition fn_asinh := 28. Definition fn_acosh := 29. Definition fn_atanh := 30.
Definition fn_asech := 31. Definition fn_acsch := 32. Definition fn_acoth := 33.
Definition fn_max := 40. Definition fn_min := 41. Definition fn_mod := 42. Definition fn_factorial := 43.

(* nested induction principle *)
Section ExprInd.
  Variable P : expr -> Prop.
  Hypothesis HNum : forall k q, P (ENum k q).
  Hypothesis HConst : forall c, P (EConst c).
  Hypothesis HQty : forall id q u, P (EQty id q u).
  Hypothesis HVar : forall v, P (EVar v).
  Hypothesis HAdd : forall l, Forall P l -> P (EAdd l).
  Hypothesis HMul : forall l, Forall P l -> P (EMul l).
  Hypothesis HPow : forall b e, P b -> P e -> P (EPow b e).
  Hypothesis HFn : forall f l, Forall P l -> P (EFn f l).
  Hypothesis HDeriv : forall y t n, P y -> P t -> P (EDeriv y t n).
  Hypothesis HRel : forall r a b, P a -> P b -> P (ERel r a b).
  Hypothesis HBool : forall op l, Forall P l -> P (EBool op l).
  Hypothesis HTrue : P ETrue.
  Hypothesis HFalse : P EFalse.
  Hypothesis HPw : forall l, Forall (fun ec => P (fst ec) /\ P (snd ec)) l -> P (EPw l).

  Fixpoint expr_ind' (e : expr) : P e :=
    let fix go (l : list expr) : Forall P l :=
      match l with
      | [] => Forall_nil P
      | x :: r => Forall_cons x (expr_ind' x) (go r)
      end in
    let fix gop (l : list (expr * expr)) : Forall (fun ec => P (fst ec) /\ P (snd ec)) l :=
      match l with
      | [] => Forall_nil _
      | x :: r => Forall_cons x (conj (expr_ind' (fst x)) (expr_ind' (snd x))) (gop r)
      end in
    match e with
    | ENum k q => HNum k q
    | EConst c => HConst c
    | EQty id q u => HQty id q u
    | EVar v => HVar v
    | EAdd l => HAdd l (go l)
    | EMul l => HMul l (go l)
    | EPow b x => HPow b x (expr_ind' b) (expr_ind' x)
    | EFn f l => HFn f l (go l)
    | EDeriv y t n => HDeriv y t n (expr_ind' y) (expr_ind' t)
    | ERel r a b => HRel r a b (expr_ind' a) (expr_ind' b)
    | EBool op l => HBool op l (go l)
    | ETrue => HTrue
    | EFalse => HFalse
    | EPw l => HPw l (gop l)
    end.
End ExprInd.

(* ---- bridge: (tag args...) ------------------------------------------------------------------ *)
Fixpoint expr_of_sexp (x : sexp) : expr :=
  match x with
  | L [A 0; k; q] => ENum (sZ k) (Q_of_sexp q)
  | L [A 1; c] => EConst (sZ c)
  | L [A 2; id; q; u] => EQty (sZ id) (Q_of_sexp q) (sZ u)
  | L [A 3; v] => EVar (sZ v)
  | L (A 4 :: l) => EAdd (map expr_of_sexp l)
  | L (A 5 :: l) => EMul (map expr_of_sexp l)
  | L [A 6; b; e] => EPow (expr_of_sexp b) (expr_of_sexp e)
  | L (A 7 :: f :: l) => EFn (sZ f) (map expr_of_sexp l)
  | L [A 8; y; t; n] => EDeriv (expr_of_sexp y) (expr_of_sexp t) (sZ n)
  | L [A 9; r; a; b] => ERel (sZ r) (expr_of_sexp a) (expr_of_sexp b)
  | L (A 10 :: op :: l) => EBool (sZ op) (map expr_of_sexp l)
  | L [A 11] => ETrue
  | L [A 12] => EFalse
  | L (A 13 :: l) =>
      EPw (map (fun p => match p with
                         | L [e; c] => (expr_of_sexp e, expr_of_sexp c)
                         | _ => (ETrue, ETrue)
                         end) l)
  | _ => EConst 4
  end.

Fixpoint sexp_of_expr (e : expr) : sexp :=
  match e with
  | ENum k q => L [A 0; A k; sQ q]
  | EConst c => L [A 1; A c]
  | EQty id q u => L [A 2; A id; sQ q; A u]
  | EVar v => L [A 3; A v]
  | EAdd l => L (A 4 :: map sexp_of_expr l)
  | EMul l => L (A 5 :: map sexp_of_expr l)
  | EPow b x => L [A 6; sexp_of_expr b; sexp_of_expr x]
  | EFn f l => L (A 7 :: A f :: map sexp_of_expr l)
  | EDeriv y t n => L [A 8; sexp_of_expr y; sexp_of_expr t; A n]
  | ERel r a b => L [A 9; A r; sexp_of_expr a; sexp_of_expr b]
  | EBool op l => L (A 10 :: A op :: map sexp_of_expr l)
  | ETrue => L [A 11]
  | EFalse => L [A 12]
  | EPw l => L (A 13 :: map (fun ec => L [sexp_of_expr (fst ec); sexp_of_expr (snd ec)]) l)
  end.
