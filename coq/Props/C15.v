(* C15 -- the same document always yields the same model.
   Statements only (proofs: Proofs/C15P.v).  `load` (Model/Loader.v) is a Gallina function: the same document gives
   the same flat model, with every iteration order the code takes from Python containers made explicit
   (insertion order of dicts, document order of findall; the code after the fix: commits cb3fd7e (F11), 9e0bca6 and 3781b42).  What needs a
   proof is that the ORDER of the order-free parts of a document does not matter.  Quantified over all documents
   and all permutations.

   rel_res R a b : both loads succeed with R-related models, or both fail.
   flat_equiv    : same variables in the same order (names, units, initial values, cmeta ids, assigned_to) and
                   the same SET of equations and of mapping entries (Permutation).
   Not a theorem here: hash randomisation of CPython (run under 4 hash seeds by tools/props/c15.py); permutations of
   <units> are the C03 theorems about Model/UnitsLoader.v (the loader model receives the resulting table). *)
From Coq Require Import List ZArith QArith Bool Permutation.
From Verif Require Import Sexp UnitAlg Expr Loader LoaderP C17P C15P.
Import ListNotations.

(* the heart: the rotating work-list reaches the same final state (assigned_to, cmeta ids; mapping and conversion
   equations as sets) from every order of its items, and fails for every order if it fails for one *)
Theorem C15_worklist_order_free : forall vars n q q' st s1,
  wfs n st -> (forall x, In x q -> inr n x) -> Permutation q q' ->
  connect vars (conn_fuel q) q 0 st = OK s1 ->
  exists s2, connect vars (conn_fuel q') q' 0 st = OK s2 /\ cs_equiv s2 s1.
Proof. exact connect_perm. Qed.
Print Assumptions C15_worklist_order_free.

Theorem C15_connections_permutation : forall mc ue us cs gs ks ks', Permutation ks ks' ->
  rel_res flat_equiv (load (mkDoc mc ue us cs gs ks)) (load (mkDoc mc ue us cs gs ks')).
Proof. exact connections_permutation. Qed.
Print Assumptions C15_connections_permutation.

Theorem C15_map_variables_permutation : forall mc ue us cs gs l1 c1 c2 ms ms' l2, Permutation ms ms' ->
  rel_res flat_equiv (load (mkDoc mc ue us cs gs (l1 ++ mkConn c1 c2 ms :: l2)))
                     (load (mkDoc mc ue us cs gs (l1 ++ mkConn c1 c2 ms' :: l2))).
Proof. exact map_variables_permutation. Qed.
Print Assumptions C15_map_variables_permutation.

(* any regrouping of the same map_variables over connection elements *)
Theorem C15_pairs_permutation : forall mc ue us cs gs ks ks',
  Permutation (all_pairs ks) (all_pairs ks') -> (forall c, In c (conn_comps ks) <-> In c (conn_comps ks')) ->
  rel_res flat_equiv (load (mkDoc mc ue us cs gs ks)) (load (mkDoc mc ue us cs gs ks')).
Proof. exact pairs_permutation. Qed.
Print Assumptions C15_pairs_permutation.

Theorem C15_groups_permutation : forall mc ue us cs gs gs' ks, Permutation gs gs' ->
  rel_res eq (load (mkDoc mc ue us cs gs ks)) (load (mkDoc mc ue us cs gs' ks)).
Proof. exact groups_permutation. Qed.
Print Assumptions C15_groups_permutation.

(* FULL STRENGTH: for every document, writing a connection with component_1 / component_2 and variable_1 / variable_2
   exchanged gives the identical result -- the same error or the identical model.  The direction decision is
   symmetric unless two components are each other's parent (C15_direction_symmetric), and a hierarchy that passes
   the forest check of _add_relationships (fix: commit 3781b42) has no such pair (C15_forest_no_mutual_parents). *)
Theorem C15_connection_ends_swap : forall mc ue us cs gs l1 k l2,
  load (mkDoc mc ue us cs gs (l1 ++ swap_conn k :: l2)) = load (mkDoc mc ue us cs gs (l1 ++ k :: l2)).
Proof. exact ends_swap. Qed.
Print Assumptions C15_connection_ends_swap.

Theorem C15_direction_symmetric : forall vars names ps c1 v1 c2 v2, mutual_b names ps c1 c2 = false ->
  direction vars names ps c2 v2 c1 v1 = direction vars names ps c1 v1 c2 v2.
Proof. exact direction_sym. Qed.
Print Assumptions C15_direction_symmetric.

Theorem C15_forest_no_mutual_parents : forall names gs ps c1 c2,
  add_relationships names gs = OK ps -> mutual_b names ps c1 c2 = false.
Proof. exact forest_no_mutual. Qed.
Print Assumptions C15_forest_no_mutual_parents.

(* equations inside a <math> element, <math> elements inside a component, and moving equations between the <math>
   elements of a component: components keep name, variables and flags (same_shell), the multiset of
   (component, equation) pairs is the same *)
Theorem C15_math_permutation : forall mc ue us cs cs' gs ks, Forall2 same_shell cs cs' ->
  Permutation (flat_map comp_ceqs cs) (flat_map comp_ceqs cs') ->
  rel_res flat_equiv (load (mkDoc mc ue us cs gs ks)) (load (mkDoc mc ue us cs' gs ks)).
Proof. exact maths_permutation. Qed.
Print Assumptions C15_math_permutation.

(* documented order: order_added follows the components and their variables as written *)
Theorem C15_component_order : forall d f, load d = OK f -> f_vars f = flat_map (comp_vars d) (d_comps d).
Proof. exact component_order. Qed.
Print Assumptions C15_component_order.
