(* C10 -- variable roles and initial-state values follow from the equations alone.
   Statements only (proofs: Proofs/C10P.v) over Model/ModelSM.v + Model/ModelValue.v, for every equation pool, every
   coherent state (C08: every reachable state is coherent) and every variable. *)
From Coq Require Import List ZArith QArith Bool.
From Verif Require Import Sexp Expr ModelSM ModelValue C08P C10P.
Import ListNotations.

(* state variables = exactly the variables defined by an ODE of the model, in order_added order *)
Theorem C10_states_are_ode_lhs : forall pool s, Coherent pool s ->
  (forall v, In v (get_state_variables s) <->
             exists e t o n, In e (eqs s) /\ eq_lhs pool e = LDeriv v t o n) /\
  sorted (vars s) (get_state_variables s).
Proof. exact states_are_ode_lhs. Qed.
Print Assumptions C10_states_are_ode_lhs.

(* the free variable: an error iff there is no ODE; when all ODEs differentiate by t0, it is t0 *)
Theorem C10_free_variable : forall pool s, Coherent pool s ->
  (odef s = [] <-> get_free_variable pool s = MErr EValue) /\
  (forall t0, (forall e v t o n, In e (eqs s) -> eq_lhs pool e = LDeriv v t o n -> t = t0) ->
              odef s <> [] -> get_free_variable pool s = MOk t0).
Proof. exact free_variable_spec. Qed.
Print Assumptions C10_free_variable.

Theorem C10_constant_iff_no_variable_in_definition : forall pool s v, Coherent pool s ->
  (is_constant pool s v = true <->
   exists e q, In e (eqs s) /\ eq_lhs pool e = LVar v /\ nth_error pool e = Some q /\ e_atoms q = []).
Proof. exact constant_iff_no_variable. Qed.
Print Assumptions C10_constant_iff_no_variable_in_definition.

(* none of this depends on how the model was reached: equal (variables, equations) => equal answers *)
Theorem C10_history_independent : forall pool s1 s2, Coherent pool s1 -> Coherent pool s2 ->
  eqs s1 = eqs s2 -> vars s1 = vars s2 ->
  get_state_variables s1 = get_state_variables s2 /\ get_free_variable pool s1 = get_free_variable pool s2 /\
  (forall v, is_constant pool s1 v = is_constant pool s2 v) /\
  (forall v, get_definition s1 v = get_definition s2 v) /\
  build_graph pool s1 = build_graph pool s2.
Proof. exact roles_history_independent. Qed.
Print Assumptions C10_history_independent.

(* get_value: whenever it returns a number, that number is the value of the definition evaluated recursively with
   states at their initial values and the free variable at zero, a derivative atom d y/d t standing for the value of the
   right-hand side of the ODE of y (ValueSpec / RhsSpec / DerivSpec, Proofs/C10P.v) -- the full statement of the property,
   "including definitions that mention a derivative" (finding F9 was repaired in /repo; the model follows the repair). *)
Theorem C10_get_value_sound : forall pool rhs fuel s v x,
  get_value pool rhs fuel s v = VOk x -> ValueSpec pool rhs s v x.
Proof. exact get_value_sound. Qed.
Print Assumptions C10_get_value_sound.

(* non-vacuity: a definition that mentions a derivative is evaluated (d x/d t = 1, y = d x/d t: get_value y = 1) *)
Theorem C10_get_value_derivative_example :
  exists pool rhs s v fuel, get_value pool rhs fuel s v = VOk 1%Q /\
    exists e x, dget Nat.eqb (vdef s) v = Some e /\ nth_error rhs e = Some x /\ has_deriv x = true.
Proof. exact get_value_derivative_example. Qed.
Print Assumptions C10_get_value_derivative_example.
