(* C07 -- conversion factors obey unit algebra for every pair of units.
   Statements only; proofs are in Proofs/C07P.v and Proofs/UnitAlgP.v.
   Quantified over ALL exponent vectors (any number of generators, any rational exponents):
   products, quotients, rational powers and scalings of built-in, user and new base units. *)
From Coq Require Import List ZArith QArith Reals Qreals.
From Verif Require Import UnitAlg UnitAlgP UStore C07P.
Open Scope R_scope.

Theorem C07_cf_refl : forall a, cfR a a = Some 1.
Proof. exact cfR_refl. Qed.
Print Assumptions C07_cf_refl.

Theorem C07_cf_inverse : forall a b x, cfR a b = Some x -> exists y, cfR b a = Some y /\ x * y = 1.
Proof. exact cfR_inverse. Qed.
Print Assumptions C07_cf_inverse.

Theorem C07_cf_trans : forall a b c x y,
  cfR a b = Some x -> cfR b c = Some y -> cfR a c = Some (x * y).
Proof. exact cfR_trans. Qed.
Print Assumptions C07_cf_trans.

Theorem C07_cf_is_scale_ratio : forall a b x, cfR a b = Some x -> x = scaleR a / scaleR b.
Proof. exact cfR_ratio. Qed.
Print Assumptions C07_cf_is_scale_ratio.

Theorem C07_dim_mismatch_is_error : forall a b e,
  conversion_factor a b = Err e <-> (e = EDimension /\ ~ ueq (dims a) (dims b)).
Proof. exact conversion_factor_error. Qed.
Print Assumptions C07_dim_mismatch_is_error.

(* is_equivalent is exactly "the conversion factor is 1", for all units (full statement; the radian finding -- pint's
   "radian = []" is a base unit without a dimension, and is_equivalent used to compare base-unit expansions -- was repaired
   in /repo: dimensionalities are compared, and the model follows). *)
Theorem C07_factor_one_iff_equivalent : forall a b,
  conversion_factor a b = Ok (inl tt) <-> is_equivalent a b = true.
Proof. exact conversion_factor_one_iff. Qed.
Print Assumptions C07_factor_one_iff_equivalent.

Theorem C07_equivalent_implies_factor_one : forall a b,
  is_equivalent a b = true -> conversion_factor a b = Ok (inl tt).
Proof. exact equivalent_implies_factor_one. Qed.
Print Assumptions C07_equivalent_implies_factor_one.

(* regression of the former refutation witness: radian and dimensionless, lumen-like and candela-like vectors *)
Theorem C07_radian_equivalent_to_dimensionless :
  conversion_factor ((angle_gen, 1%Q) :: nil) nil = Ok (inl tt) /\ is_equivalent ((angle_gen, 1%Q) :: nil) nil = true /\
  is_equivalent ((angle_gen, 2%Q) :: ((-7)%Z, 1%Q) :: nil) (((-7)%Z, 1%Q) :: nil) = true.
Proof. exact radian_equivalent_to_dimensionless. Qed.
Print Assumptions C07_radian_equivalent_to_dimensionless.

Theorem C07_factor_value : forall a b c,
  conversion_factor a b = Ok (inr c) -> scaleR c = scaleR a / scaleR b /\ is_equivalent a b = false.
Proof. exact conversion_factor_value. Qed.
Print Assumptions C07_factor_value.

Theorem C07_convert_magnitude : forall q a b q' c u,
  convert q a b = Ok (q', c, u) ->
  q' = q /\ u = b /\ scaleR c = scaleR a / scaleR b /\ ueq (dims a) (dims b).
Proof. exact convert_spec. Qed.
Print Assumptions C07_convert_magnitude.

Theorem C07_convert_error : forall q a b e,
  convert q a b = Err e <-> (e = EDimension /\ ~ ueq (dims a) (dims b)).
Proof. exact convert_error. Qed.
Print Assumptions C07_convert_error.

Theorem C07_equiv_refl : forall a, is_equivalent a a = true.
Proof. exact is_equivalent_refl. Qed.
Print Assumptions C07_equiv_refl.

Theorem C07_equiv_sym : forall a b, is_equivalent a b = is_equivalent b a.
Proof. exact is_equivalent_sym. Qed.
Print Assumptions C07_equiv_sym.

Theorem C07_equiv_trans : forall a b c,
  is_equivalent a b = true -> is_equivalent b c = true -> is_equivalent a c = true.
Proof. exact is_equivalent_trans. Qed.
Print Assumptions C07_equiv_trans.

Theorem C07_equiv_same_scale_and_dims : forall a b,
  is_equivalent a b = true -> scaleR a = scaleR b /\ ueq (dims a) (dims b).
Proof. exact is_equivalent_scale_dims. Qed.
Print Assumptions C07_equiv_same_scale_and_dims.

Theorem C07_scale_of_product : forall a b, scaleR (umul a b) = scaleR a * scaleR b.
Proof. exact scaleR_umul. Qed.
Print Assumptions C07_scale_of_product.

Theorem C07_scale_of_power : forall a q, scaleR (upow a q) = Rpower (scaleR a) (Q2R q).
Proof. exact scaleR_upow. Qed.
Print Assumptions C07_scale_of_power.
