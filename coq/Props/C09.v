(* C09 -- requested equations come back complete, minimal and in evaluable order.
   Statements only (proofs: Proofs/C09P.v) about get_equations_for as modelled in Model/ModelSM.v
   (lex_topo = specification of networkx.lexicographical_topological_sort(key=str), ancestors = nx.ancestors,
   number_graph = graph_with_sympy_numbers).  Quantified over ALL graphs, request lists and states;
   [eq_owner] / [nodes_unique] are the well-formedness of a dependency graph (each node's equation has that node as
   its left-hand side; one node per left-hand side) -- the correspondence check compares the graphs the code builds. *)
From Coq Require Import List ZArith QArith Bool.
From Verif Require Import Sexp ModelSM C09P C09GraphP.
Import ListNotations.

Theorem C09_no_duplicates : forall pool s g req recurse out, eq_owner pool g ->
  equations_for s g req recurse = MOk out -> NoDup (map fst out).
Proof. exact out_no_duplicates. Qed.
Print Assumptions C09_no_duplicates.

(* exactly the equations of the requested nodes and of everything they depend on (recurse) / of their direct
   predecessors only (not recurse) -- nothing else, nothing missing *)
Theorem C09_exact_set : forall s g req recurse out, nodes_unique g ->
  equations_for s g req recurse = MOk out ->
  forall x, In x out <->
    exists r, node_eq g r = Some x /\
      (In r req \/ (if recurse then exists q, In q req /\ reaches g r q
                    else exists q, In q req /\ In (r, q) (edges g))).
Proof. exact out_exact_set. Qed.
Print Assumptions C09_exact_set.

(* every dependency of a returned equation is an equation-less node (state / free variable) or was returned EARLIER *)
Theorem C09_evaluable_order : forall pool s g req out, eq_owner pool g ->
  equations_for s g req true = MOk out ->
  forall o1 x o2, out = o1 ++ x :: o2 -> forall r, node_eq g r = Some x ->
  forall p, In (p, r) (edges g) ->
    match node_eq g p with Some y => In y o1 | None => True end.
Proof. exact out_evaluable_order. Qed.
Print Assumptions C09_evaluable_order.

Theorem C09_cyclic_is_error : forall s g req recurse out, nodes_unique g ->
  (forall a b, In (a, b) (edges g) -> In b (node_refs g)) ->
  equations_for s g req recurse = MOk out -> forall a, ~ reaches g a a.
Proof. exact out_means_acyclic. Qed.
Print Assumptions C09_cyclic_is_error.

(* determinism / tie-break: each step emits, among the nodes whose predecessors are all emitted, one with the least
   string key (keys of distinct nodes are distinct, so the order is unique and the same on every call) *)
Theorem C09_tie_break : forall s g fuel done r,
  least s (filter (ready g done) (node_refs g)) None = Some r ->
  lex_topo (S fuel) s g done = lex_topo fuel s g (done ++ [r]) /\
  ready g done r = true /\
  forall c, In c (node_refs g) -> ready g done c = true -> str_ltb (node_key s c) (node_key s r) = false.
Proof. exact lex_topo_step_least. Qed.
Print Assumptions C09_tie_break.

Theorem C09_ancestors_exact : forall g r S, ancestors g r = Some S -> forall x, In x S <-> reaches g x r.
Proof.
  intros g r S H x. split; [apply (ancestors_sound g r S H)|apply (ancestors_complete g r S H)].
Qed.
Print Assumptions C09_ancestors_exact.

(* the unit-stripped graph: same nodes and equations, edges a subset, and an edge is dropped only when the source no
   longer occurs in the number-substituted right-hand side *)
Theorem C09_stripped_same_nodes : forall pool g,
  map n_ref (nodes (number_graph pool g)) = map n_ref (nodes g) /\
  map n_eq (nodes (number_graph pool g)) = map n_eq (nodes g).
Proof. exact number_graph_same_nodes. Qed.
Print Assumptions C09_stripped_same_nodes.

Theorem C09_stripped_edges_subset : forall pool g ed, In ed (edges (number_graph pool g)) -> In ed (edges g).
Proof. exact number_graph_edges_subset. Qed.
Print Assumptions C09_stripped_edges_subset.

Theorem C09_stripped_omits_only_vanished : forall pool g a b,
  In (a, b) (edges g) -> ~ In (a, b) (edges (number_graph pool g)) ->
  exists n e q, In n (nodes g) /\ n_ref n = b /\ n_eq n = Some e /\ nth_error pool e = Some q /\
                e_hasqty q = true /\ ~ In a (e_refs_num q).
Proof. exact number_graph_omits_only_vanished. Qed.
Print Assumptions C09_stripped_omits_only_vanished.

(* the graphs the model builds are well-formed: the hypotheses above hold for every graph returned by build_graph,
   and every reference on a right-hand side has its dependency edge *)
Theorem C09_built_graph_wellformed : forall pool s g, build_graph pool s = MOk g ->
  eq_owner pool g /\ nodes_unique g /\
  (forall a b, In (a, b) (edges g) -> In b (node_refs g)) /\
  (forall e q lr r, In e (eqs s) -> nth_error pool e = Some q -> lhs_ref (e_lhs q) = Some lr -> In r (e_refs q) ->
     In (r, lr) (edges g)).
Proof. exact build_graph_wf. Qed.
Print Assumptions C09_built_graph_wellformed.

Theorem C09_stripped_graph_wellformed : forall pool g, eq_owner pool g -> nodes_unique g ->
  eq_owner pool (number_graph pool g) /\ nodes_unique (number_graph pool g).
Proof. exact number_graph_wf. Qed.
Print Assumptions C09_stripped_graph_wellformed.

(* the order theorem on the equations themselves: everything referenced on the right-hand side of a returned
   equation has no equation of its own (state / free variable) or was returned earlier *)
Theorem C09_evaluable_order_refs : forall pool s g req out, build_graph pool s = MOk g ->
  equations_for s g req true = MOk out ->
  forall o1 x o2, out = o1 ++ x :: o2 -> In (fst x) (eqs s) ->
  forall q, nth_error pool (fst x) = Some q ->
  forall r, In r (e_refs q) -> match node_eq g r with Some y => In y o1 | None => True end.
Proof. exact evaluable_order_refs. Qed.
Print Assumptions C09_evaluable_order_refs.
