(* C06 -- changing the units of a model variable never changes what the model computes.
   Statements only (proofs: Proofs/C06EvalP.v, C06P.v, C06ShapeP.v, C06MainP.v, C06SeqP.v, C06WfP.v) over Model/ConvertVar.v.
   Sat nu dl l: every equation of l holds under the valuation nu of variables and dl of derivative atoms
   (real semantics of Sem/Eval.v, ANY interpretation of the function symbols; the only law assumed of powers is
   x ** -1 = 1/x, proved for the concrete power in C06_power_law_instance).
   FULL STATEMENT (property text): for OUTPUT and INPUT conversions of a state variable, the free variable, a constant
   or a computed variable, and any sequence of them.  PROVED for all models, valuations and factors: OUTPUT (any variable),
   INPUT of a constant / computed variable, INPUT of a state variable (ODE moved to a new variable, new ODE for the
   converted state, derivative references replaced), INPUT of the free variable (every ODE  d y/d v = R  moved to  w = R,
   new ODE  d y/d n = w / cf, every reference to d y/d v replaced by w: C06_input_free_equiv, through the refinement of the
   imperative fold to the specification-level system, Proofs/C06FoldP.v, and the equivalence of that system,
   C06_input_free_spec_equiv), and ANY SEQUENCE of such conversions (C06_sequence_equiv).
   The theorems named "_partial" carry syntactic premises; all premises of a step are collected in the computable
   predicate step_ok (next variable indices fresh, left-hand sides distinct, indices in range, all ODEs with respect to the
   one free variable: C06_step_ok_meaning).  They are no longer premises of the sequence theorem: the computable
   well-formedness predicate wf_state (every variable defined at most once, by an assignment or an ODE; every index of every
   equation below the number of variables; all ODEs with respect to one variable, which no equation defines) IMPLIES step_ok
   for every variable in range and both directions (C06_wf_implies_step_ok) and is PRESERVED by every successful conversion
   of every kind (C06_wf_preserved), so that ANY sequence of successful conversions starting in a well-formed state preserves
   the solutions (C06_sequence_equiv_from_wf: the only hypotheses are wf_state of the INITIAL state and the law of powers).
   The interpreter evaluates wf_state ONCE, on the initial state of every correspondence case (a false value is reported as
   a broken correspondence); everything after that is proved.  (It still evaluates step_ok before every conversion as a
   cross-check of the extracted model.)  What is not proved: conversions whose factor is irrational (the model returns an
   error for them; the conversion factor is a positive rational in every theorem); that documents accepted by the parser
   yield well-formed states is checked case by case (wf_state of the initial state), not proved. *)
From Coq Require Import List ZArith QArith Bool Reals Qreals.
From Coq Require Import Permutation.
From Verif Require Import Sexp UnitAlg UnitAlgP Expr Eval ModelSM ConvertVar C06EvalP C06P C06ShapeP C06ReplaceP C06StateP C06FreeP C06FoldP C06FreeMainP C06MainP C06SeqP C06WfP.
Import ListNotations.
Open Scope R_scope.

Theorem C06_output_equiv_partial : forall fsem psem csem s v target mv s' n,
  convert_variable s v target DOutput mv = COk (s', n) -> n <> v ->
  fresh_var (length (cvars s)) (ceqs s) = true ->
  exists k, 0 < k /\ forall nu dl,
    (Sat fsem psem csem nu dl (ceqs s) -> Sat fsem psem csem (upd nu n (nu v * k)) dl (ceqs s')) /\
    (Sat fsem psem csem nu dl (ceqs s') -> Sat fsem psem csem nu dl (ceqs s) /\ nu n = nu v * k).
Proof. exact output_conversion. Qed.
Print Assumptions C06_output_equiv_partial.

Theorem C06_input_computed_or_constant_equiv_partial : forall fsem psem csem,
  (forall x, x <> 0 -> psem x (Q2R (-1 # 1)) = Some (/ x)) ->
  forall s v target mv s' n,
  convert_variable s v target DInput mv = COk (s', n) -> n <> v ->
  is_state s v = false -> (forall t, free_var s = Some t -> t <> v) ->
  fresh_var (length (cvars s)) (ceqs s) = true ->
  exists k, 0 < k /\ forall nu dl,
    (Sat fsem psem csem nu dl (ceqs s) -> Sat fsem psem csem (upd nu n (nu v * k)) dl (ceqs s')) /\
    (Sat fsem psem csem nu dl (ceqs s') -> Sat fsem psem csem nu dl (ceqs s) /\ nu n = nu v * k).
Proof. exact input_plain_conversion. Qed.
Print Assumptions C06_input_computed_or_constant_equiv_partial.

(* INPUT of a state variable: every pre-existing variable keeps its value, new = factor x original,
   d new/dt = factor x d original/dt, and the old derivative's value lives on in the new variable S n *)
Theorem C06_input_state_equiv_partial : forall fsem psem csem,
  (forall x, x <> 0 -> psem x (Q2R (-1 # 1)) = Some (/ x)) ->
  forall s v target mv s' n ode t,
  convert_variable s v target DInput mv = COk (s', n) -> n <> v ->
  ode_def s v = Some ode -> q_lhs ode = CLD v t ->
  var_def s v = None -> (forall t0, free_var s = Some t0 -> t0 <> v) ->
  NoDup (map q_lhs (ceqs s)) ->
  fresh_var (length (cvars s)) (ceqs s) = true -> fresh_var (S (length (cvars s))) (ceqs s) = true ->
  fresh_atom (length (cvars s)) t (ceqs s) = true -> (v < length (cvars s))%nat ->
  exists k, 0 < k /\ forall nu dl,
    (Sat fsem psem csem nu dl (ceqs s) ->
     Sat fsem psem csem (upd (upd nu n (nu v * k)) (S n) (dl v t)) (updd dl n t (dl v t * k)) (ceqs s')) /\
    (Sat fsem psem csem nu dl (ceqs s') ->
     Sat fsem psem csem nu (updd dl v t (nu (S n))) (ceqs s) /\ nu n = nu v * k /\ dl n t = nu (S n) * k).
Proof. exact input_state_conversion. Qed.
Print Assumptions C06_input_state_equiv_partial.

(* ANY SEQUENCE of conversions (OUTPUT of anything, INPUT of constants, computed variables, states and the free variable), each succeeding and
   meeting step_ok in the state it is applied to (or returning the variable itself: nothing to convert): every solution of the original system extends to a solution of the final
   system that gives every original variable (and every derivative atom of an original variable) the same value, and
   every solution of the final system is -- with the very same values of all variables -- a solution of the original one. *)
Theorem C06_sequence_equiv : forall fsem psem csem,
  (forall x, x <> 0 -> psem x (Q2R (-1 # 1)) = Some (/ x)) ->
  forall s s'', Steps s s'' ->
  (forall nu dl, Sat fsem psem csem nu dl (ceqs s) -> exists nu' dl', Sat fsem psem csem nu' dl' (ceqs s'') /\
     (forall i, (i < length (cvars s))%nat -> nu' i = nu i) /\
     (forall y t, (y < length (cvars s))%nat -> (t < length (cvars s))%nat -> dl' y t = dl y t)) /\
  (forall nu dl, Sat fsem psem csem nu dl (ceqs s'') -> exists dl0, Sat fsem psem csem nu dl0 (ceqs s)).
Proof. exact sequence_equiv. Qed.
Print Assumptions C06_sequence_equiv.

(* ---- step_ok as an INVARIANT: well-formedness of the initial state is enough ------------------------------------------ *)
(* a well-formed state meets the premises of a conversion of ANY variable in range, in both directions *)
Theorem C06_wf_implies_step_ok : forall s v d,
  wf_state s = true -> (v < length (cvars s))%nat -> step_ok s v d = true.
Proof. exact wf_step_ok. Qed.
Print Assumptions C06_wf_implies_step_ok.

(* every successful conversion (OUTPUT; INPUT of a constant, a computed variable, a state, the free variable; nothing to
   convert) of a well-formed state yields a well-formed state *)
Theorem C06_wf_preserved : forall s v target d mv s' n,
  wf_state s = true -> convert_variable s v target d mv = COk (s', n) -> wf_state s' = true.
Proof. exact wf_preserved. Qed.
Print Assumptions C06_wf_preserved.

(* ANY SEQUENCE of successful conversions (Convs: no side condition on any step) starting in a well-formed state: same
   conclusion as C06_sequence_equiv *)
Theorem C06_sequence_equiv_from_wf : forall fsem psem csem,
  (forall x, x <> 0 -> psem x (Q2R (-1 # 1)) = Some (/ x)) ->
  forall s s'', wf_state s = true -> Convs s s'' ->
  (forall nu dl, Sat fsem psem csem nu dl (ceqs s) -> exists nu' dl', Sat fsem psem csem nu' dl' (ceqs s'') /\
     (forall i, (i < length (cvars s))%nat -> nu' i = nu i) /\
     (forall y t, (y < length (cvars s))%nat -> (t < length (cvars s))%nat -> dl' y t = dl y t)) /\
  (forall nu dl, Sat fsem psem csem nu dl (ceqs s'') -> exists dl0, Sat fsem psem csem nu dl0 (ceqs s)).
Proof. exact sequence_from_wf. Qed.
Print Assumptions C06_sequence_equiv_from_wf.

(* wf_state is satisfiable: a state with an ODE (d x1/d x0), a computed variable and a constant *)
Theorem C06_wf_example :
  wf_state wf_example_state = true /\
  is_state wf_example_state 1 = true /\ free_var wf_example_state = Some 0%nat /\
  (exists q, var_def wf_example_state 2 = Some q) /\ (exists q, var_def wf_example_state 3 = Some q).
Proof. exact wf_example. Qed.
Print Assumptions C06_wf_example.

(* what step_ok demands, spelled out (it is a computable predicate of the state before the step) *)
Theorem C06_step_ok_meaning : forall s v d, step_ok s v d = true ->
  premises_hold s = true /\ (v < length (cvars s))%nat /\
  (d = DInput -> (free_var s = Some v -> is_state s v = false /\ var_def s v = None /\ free_ok s v = true) /\
                 (free_var s <> Some v -> forall ode, ode_def s v = Some ode -> var_def s v = None)).
Proof. exact step_ok_meaning. Qed.
Print Assumptions C06_step_ok_meaning.

(* _replace_references_to_derivatives is, up to the order of the equations, substitution in the equations that mention
   the old derivative *)
(* INPUT conversion of the free variable v into n (n = v * k): the system  plain ++ [d y_i/d v = R_i]  and the system
   free_system (= what convert_variable produces, up to order: free_spec_code) have the same solutions.  Forward: the new
   variables take the values n = v*k, w_i = d y_i/d v and the new atoms d y_i/d n = (d y_i/d v)/k.  Backward: every solution
   of the new system, with d y_i/d v read off w_i, solves the original one and satisfies the same relations. *)
Theorem C06_input_free_spec_equiv : forall fsem psem csem,
  (forall x, x <> 0 -> psem x (Q2R (-1 # 1)) = Some (/ x)) ->
  forall plain os v n id c u nu dl,
  NoDup (ws_of os) -> NoDup (ys_of os) ->
  (forall q, In q (orig_system plain os v) -> fresh_var1 n q = true /\
        (forall w, In w (ws_of os) -> fresh_var1 w q = true) /\ (forall y, In y (ys_of os) -> fresh_atom1 y n q = true)) ->
  Forall (fun q => is_ode q = false) plain ->
  ~ In n (ws_of os) -> ~ In v (ws_of os) -> v <> n -> Q2R c <> 0 ->
  let cf := EQty id c u in
  let k := Q2R c in
  let l := orig_system plain os v in
  let l' := free_system plain os v n cf in
  (Sat fsem psem csem nu dl l ->
   Sat fsem psem csem (upd_ws (upd nu n (nu v * k)) os (fun y => dl y v)) (updd_col dl os n (fun y => dl y v / k)) l') /\
  (Sat fsem psem csem nu dl l' ->
   Sat fsem psem csem nu (updd_col dl os v (fun y => nu (w_of os y))) l /\
   nu n = nu v * k /\ Forall (fun o => dl (fst (fst o)) n = nu (snd o) / k) os).
Proof. exact input_free_equiv. Qed.
Print Assumptions C06_input_free_spec_equiv.

(* INPUT conversion of the FREE variable by convert_variable itself: there are new variables w_y, one per ODE, such that
   every solution of the original system extends to a solution of the new one with n = v * k, w_y = d y/d v and
   d y/d n = (d y/d v) / k, and every solution of the new system is, with d y/d v read off w_y, a solution of the original
   one and satisfies the same relations.  os lists (y, right-hand side of its ODE, w_y). *)
Theorem C06_input_free_equiv : forall fsem psem csem,
  (forall x, x <> 0 -> psem x (Q2R (-1 # 1)) = Some (/ x)) ->
  forall s v target mv s' n,
  convert_variable s v target DInput mv = COk (s', n) -> n <> v ->
  free_var s = Some v -> is_state s v = false -> var_def s v = None -> free_ok s v = true ->
  exists k os, 0 < k /\
    Permutation (ys_of os) (ys_of (odes_of (ceqs s))) /\ ws_of os = seq (S (length (cvars s))) (length os) /\
    n = length (cvars s) /\
    forall nu dl,
    (Sat fsem psem csem nu dl (ceqs s) ->
     Sat fsem psem csem (upd_ws (upd nu n (nu v * k)) os (fun y => dl y v)) (updd_col dl os n (fun y => dl y v / k)) (ceqs s')) /\
    (Sat fsem psem csem nu dl (ceqs s') ->
     Sat fsem psem csem nu (updd_col dl os v (fun y => nu (w_of os y))) (ceqs s) /\
     nu n = nu v * k /\ Forall (fun o => dl (fst (fst o)) n = nu (snd o) / k) os).
Proof. exact input_free_conversion. Qed.
Print Assumptions C06_input_free_equiv.

(* the refinement used above: up to the order of the equations, convert_variable produces the specification system *)
Theorem C06_input_free_refines_spec : forall s v target mv s' n,
  convert_variable s v target DInput mv = COk (s', n) -> n <> v ->
  free_var s = Some v -> is_state s v = false -> var_def s v = None -> free_ok s v = true ->
  exists cfq os,
    (0 < cfq)%Q /\ n = length (cvars s) /\
    let cf := EQty (cqnext s) cfq (Z.of_nat (length (cunits s))) in
    let plain := filter (fun q => negb (is_ode q)) (ceqs s) in
    Permutation (ceqs s) (orig_system plain os v) /\
    Permutation (ceqs s') (free_system plain os v n cf) /\
    ws_of os = seq (S (length (cvars s))) (length os) /\ NoDup (ys_of os) /\
    Permutation (ys_of os) (ys_of (odes_of (ceqs s))) /\ length os = length (odes_of (ceqs s)).
Proof. exact convert_input_free_refines. Qed.
Print Assumptions C06_input_free_refines_spec.

(* the premises are satisfiable: time 0, states 1 and 2 with d y1/dt = y2 * d y2/dt and d y2/dt = -y1, one plain equation *)
Theorem C06_input_free_spec_premises_satisfiable : exists plain os v n,
  os <> [] /\ plain <> [] /\ NoDup (ws_of os) /\ NoDup (ys_of os) /\
  (forall q, In q (orig_system plain os v) -> fresh_var1 n q = true /\
        (forall w, In w (ws_of os) -> fresh_var1 w q = true) /\ (forall y, In y (ys_of os) -> fresh_atom1 y n q = true)) /\
  Forall (fun q => is_ode q = false) plain /\ ~ In n (ws_of os) /\ ~ In v (ws_of os) /\ v <> n.
Proof. exact input_free_premises_example. Qed.
Print Assumptions C06_input_free_spec_premises_satisfiable.

Theorem C06_replace_references_is_substitution : forall m l, NoDup (map q_lhs l) ->
  Permutation (replace_derivs m l) (replaced m l).
Proof. exact replace_derivs_perm. Qed.
Print Assumptions C06_replace_references_is_substitution.

Theorem C06_power_law_instance : forall x, x <> 0 -> pow_sem x (Q2R (-1 # 1)) = Some (/ x).
Proof. exact pow_sem_inv. Qed.
Print Assumptions C06_power_law_instance.

Theorem C06_noop_when_equivalent : forall s v target d mv orig c,
  nth_error (cvars s) v = Some orig -> conv (c_unit orig) target = Some c -> is_one c = true ->
  convert_variable s v target d mv = COk (s, v).
Proof. exact convert_noop. Qed.
Print Assumptions C06_noop_when_equivalent.

Theorem C06_dimension_mismatch_is_error : forall s v target d mv orig,
  nth_error (cvars s) v = Some orig -> conv (c_unit orig) target = None ->
  convert_variable s v target d mv = CErr CDimension.
Proof. exact convert_dimension_error. Qed.
Print Assumptions C06_dimension_mismatch_is_error.

(* what an OUTPUT conversion adds: one equation  new = original x factor  with a positive rational factor, and a new
   variable in the target unit, without initial value, carrying the id exactly when move_annotations asked for it *)
Theorem C06_output_shape : forall s v target mv s' n,
  convert_variable s v target DOutput mv = COk (s', n) ->
  (s' = s /\ n = v) \/
  exists orig cfv cfq,
    nth_error (cvars s) v = Some orig /\ conv (c_unit orig) target = Some cfv /\ is_one cfv = false /\
    vec_to_Q cfv = Some cfq /\ (0 < cfq)%Q /\ n = length (cvars s) /\
    ceqs s' = ceqs s ++ [{| q_lhs := CLV n; q_rhs := emul (var v) (EQty (cqnext s) cfq (Z.of_nat (length (cunits s)))) |}] /\
    exists newv, nth_error (cvars s') n = Some newv /\ c_unit newv = target /\ c_init newv = None /\
      c_cmeta newv = (if (match c_cmeta orig with Some _ => mv | None => false end) then c_cmeta orig else None).
Proof. exact convert_output_shape. Qed.
Print Assumptions C06_output_shape.

(* the two evaluation lemmas the state / free-variable cases rest on *)
Theorem C06_derivative_substitution : forall fsem psem csem y t w nu dl e, nu w = dl y t ->
  ev fsem psem csem nu dl (subst_deriv [((y, t), w)] e) = ev fsem psem csem nu dl e.
Proof. exact ev_subst. Qed.
Print Assumptions C06_derivative_substitution.

Theorem C06_fresh_atom : forall fsem psem csem y t x nu dl e, dfree y t e = true ->
  ev fsem psem csem nu (updd dl y t x) e = ev fsem psem csem nu dl e.
Proof. exact ev_dfree. Qed.
Print Assumptions C06_fresh_atom.
