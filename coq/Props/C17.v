(* C17 -- broken or unsupported documents are refused, never half-loaded.
   Statements only (proofs: Proofs/C17P.v, Proofs/LoaderP.v).  Quantified over EVERY post-validation document
   (Model/Loader.v: any number of components, variables, groups, connections, equations; any unit table).
   `load` mirrors Parser.parse after schema validation; schema-invalid documents are outside the model and are
   only run on the implementation (tools/props/c17.py).  The <units> loader is Model/UnitsLoader.v (C03): its
   verdict enters as d_units_err, so the unit-definition fault classes (cycle, duplicate, built-in override,
   offset, dangling reference) are the single theorem C17_failing_units here and the C03 rejection theorems there.

   st_vars / st_names / st_ps / st_work / st_cs are the results of the successive stages of `load` on the
   document (flat variables, component names, parents, directed connections (source, target), final work-list
   state); semantic fault classes are stated on them. *)
From Coq Require Import List ZArith QArith Bool Permutation.
From Verif Require Import Sexp UnitAlg Expr Loader LoaderP C17P.
Import ListNotations.

(* never hangs: the progress counter of the connection work-list and the length of the mapping chain bound
   every loop, and the walk up the encapsulation hierarchy meets a new component at every step; so the fuel `load`
   computes for itself is always sufficient *)
Theorem C17_total : forall d, load d <> OutOfFuel.
Proof. exact load_total. Qed.
Print Assumptions C17_total.

Theorem C17_units_in_component : forall d,
  (exists c, In c (d_comps d) /\ c_units_inside c = true) -> exists e, load d = Error e.
Proof. exact reject_units_in_component. Qed.
Print Assumptions C17_units_in_component.

Theorem C17_reactions : forall d,
  (exists c, In c (d_comps d) /\ c_reaction c = true) -> exists e, load d = Error e.
Proof. exact reject_reaction. Qed.
Print Assumptions C17_reactions.

(* offset units, undefined / cyclic / duplicate / built-in-overriding unit definitions: whatever makes the
   units loader fail *)
Theorem C17_failing_units : forall d code, d_units_err d = Some code -> exists e, load d = Error e.
Proof. exact reject_failing_units. Qed.
Print Assumptions C17_failing_units.

Theorem C17_duplicate_component : forall d, ~ NoDup (map c_name (d_comps d)) -> exists e, load d = Error e.
Proof. exact reject_duplicate_component. Qed.
Print Assumptions C17_duplicate_component.

Theorem C17_undefined_variable_units : forall d,
  (exists c v, In c (d_comps d) /\ In v (c_vars c) /\ unit_lookup (d_units d) (v_units v) = None) ->
  exists e, load d = Error e.
Proof. exact reject_undefined_variable_units. Qed.
Print Assumptions C17_undefined_variable_units.

Theorem C17_undefined_number_units : forall d,
  (exists cq u, In cq (all_ceqs d) /\ In (LUnit u) (eq_leaves (snd cq)) /\ unit_lookup (d_units d) u = None) ->
  exists e, load d = Error e.
Proof. exact reject_undefined_number_units. Qed.
Print Assumptions C17_undefined_number_units.

Theorem C17_missing_component : forall d,
  (exists k, In k (d_conns d) /\
             (~ In (k_c1 k) (map c_name (d_comps d)) \/ ~ In (k_c2 k) (map c_name (d_comps d)))) ->
  exists e, load d = Error e.
Proof. exact reject_missing_component. Qed.
Print Assumptions C17_missing_component.

Theorem C17_missing_variable : forall d,
  (exists c1 v1 c2 v2, In (c1, v1, c2, v2) (all_pairs (d_conns d)) /\ (~ declared d c1 v1 \/ ~ declared d c2 v2)) ->
  exists e, load d = Error e.
Proof. exact reject_missing_variable. Qed.
Print Assumptions C17_missing_variable.

(* the groups make some component its own ancestor (A{A}; A{B} + B{A}; A{B}, B{C}, C{A}; ...): chain j p is the
   j-th ancestor reached from p in the hierarchy read from the groups (fix: commit 3781b42) *)
Theorem C17_cyclic_encapsulation : forall d,
  (exists ps c j, read_groups (st_names d) (d_groups d) = OK ps /\ In c (st_names d) /\
                  chain (st_names d) ps j (parent_of (st_names d) ps c) = Some c) ->
  exists e, load d = Error e.
Proof. exact reject_cyclic_encapsulation. Qed.
Print Assumptions C17_cyclic_encapsulation.

(* both connected variables are sources (neither has an `in` interface) *)
Theorem C17_both_sources : forall d, both_sources d -> exists e, load d = Error e.
Proof. exact reject_both_sources. Qed.
Print Assumptions C17_both_sources.

(* a well-formed connection whose source end has an `in` interface that no connection feeds (e.g. private `in`
   without a child) *)
Theorem C17_both_receivers_unfed : forall d, receiver_unfed d -> exists e, load d = Error e.
Proof. exact reject_receiver_unfed. Qed.
Print Assumptions C17_both_receivers_unfed.

(* FULL STRENGTH for "both sources, both receivers, no direction" (the code after the fix: commit 9e0bca6): the two
   ends must show each other an (in, out) pair -- public/public for siblings, private of the parent / public of the
   child otherwise; anything else, including components that are neither siblings nor parent and child, is refused *)
Theorem C17_connection_interfaces : forall d,
  (exists c1 v1 c2 v2 i1 i2, In (c1, v1, c2, v2) (all_pairs (d_conns d)) /\
     vidx (st_vars d) c1 v1 = Some i1 /\ vidx (st_vars d) c2 v2 = Some i2 /\
     valid_pair (st_vars d) (st_names d) (st_ps d) c1 c2 i1 i2 = false) ->
  exists e, load d = Error e.
Proof. exact reject_invalid_interfaces. Qed.
Print Assumptions C17_connection_interfaces.

(* the same, stated on the decision function *)
Theorem C17_no_direction : forall d,
  (exists p, In p (all_pairs (d_conns d)) /\ dir_of (st_vars d) (st_names d) (st_ps d) p = Error ENoDirection) ->
  exists e, load d = Error e.
Proof. exact reject_no_direction. Qed.
Print Assumptions C17_no_direction.

Theorem C17_incompatible_connection_units : forall d,
  (exists c1 v1 c2 v2 i1 i2, In (c1, v1, c2, v2) (all_pairs (d_conns d)) /\
     vidx (st_vars d) c1 v1 = Some i1 /\ vidx (st_vars d) c2 v2 = Some i2 /\
     conv (uv_of (st_vars d) i1) (uv_of (st_vars d) i2) = None) ->
  exists e, load d = Error e.
Proof. exact reject_incompatible_connection_units. Qed.
Print Assumptions C17_incompatible_connection_units.

(* a variable is the target of two connections ("Target already assigned") *)
Theorem C17_target_fed_twice : forall d, ~ NoDup (map snd (st_work d)) -> exists e, load d = Error e.
Proof. exact reject_target_fed_twice. Qed.
Print Assumptions C17_target_fed_twice.

(* two equations anywhere in the document whose left-hand sides denote the same flat variable after the
   substitution of connected variables (or have no admissible left-hand side at all) *)
Theorem C17_two_definitions : forall d,
  (exists l1 q1 l2 q2 l3, flat_all d (st_vars d) (cmap (st_cs d)) = l1 ++ q1 :: l2 ++ q2 :: l3 /\
                          feq_var q1 = feq_var q2) ->
  exists e, load d = Error e.
Proof. exact reject_two_definitions. Qed.
Print Assumptions C17_two_definitions.

Theorem C17_two_definitions_direct : forall d,
  (exists cc m1 q1 m2 q2 m3, In cc (d_comps d) /\ concat (c_maths cc) = m1 ++ q1 :: m2 ++ q2 :: m3 /\
                             q_lhs q1 = q_lhs q2) ->
  exists e, load d = Error e.
Proof. exact reject_two_definitions_direct. Qed.
Print Assumptions C17_two_definitions_direct.

Theorem C17_undefined_identifier : forall d,
  (exists cc q n, In cc (d_comps d) /\ In q (concat (c_maths cc)) /\ In (LId n) (eq_leaves q) /\
                  forall v, In v (c_vars cc) -> v_name v <> n) ->
  exists e, load d = Error e.
Proof. exact reject_undefined_identifier. Qed.
Print Assumptions C17_undefined_identifier.

Theorem C17_bad_lhs : forall d,
  (exists cq, In cq (all_ceqs d) /\ lhs_kind (q_lhs (snd cq)) = KBad) -> exists e, load d = Error e.
Proof. exact reject_bad_lhs. Qed.
Print Assumptions C17_bad_lhs.

Theorem C17_higher_order_derivative : forall d,
  (exists cq, In cq (all_ceqs d) /\ In LDeg (eq_leaves (snd cq))) -> exists e, load d = Error e.
Proof. exact reject_higher_order. Qed.
Print Assumptions C17_higher_order_derivative.

(* st_eqs d = Model.equations when transform_constants starts (conversion equations + all component equations);
   a variable is a state when one of them is its ODE after the substitution of connected variables *)
Theorem C17_state_without_initial_value : forall d,
  (exists i x, nth_error (st_vars d) i = Some x /\ finit x = None /\ is_state (st_eqs d) i = true) ->
  exists e, load d = Error e.
Proof. exact reject_state_without_initial_value. Qed.
Print Assumptions C17_state_without_initial_value.

(* two definitions, third form: an initial value on a variable that is not a state and also has an equation *)
Theorem C17_initial_value_and_equation : forall d,
  (exists i x q, nth_error (st_vars d) i = Some x /\ finit x = Some q /\ is_state (st_eqs d) i = false /\
                 defined (st_eqs d) (Z.of_nat i) = true) ->
  exists e, load d = Error e.
Proof. exact reject_initial_value_and_equation. Qed.
Print Assumptions C17_initial_value_and_equation.

(* nothing is silently dropped: every variable is present under its qualified name in document order, every
   component equation is in Model.equations (identifiers replaced by their representatives), every
   map_variables is in the mapping, its target is assigned, and it is either a substitution (factor 1) or
   an inserted conversion equation *)
Theorem C17_no_half_load : forall d f, load d = OK f ->
  f_vars f = expected_vars d /\
  (forall cq, In cq (all_ceqs d) -> In (flat_eq (f_vars f) (rev (f_map f)) (fst cq) (snd cq)) (f_eqs f)) /\
  (forall p, In p (all_pairs (d_conns d)) ->
     exists s t cf, dir_of (f_vars f) (st_names d) (st_ps d) p = OK (s, t) /\ In (t, s) (f_map f) /\
       nth t (f_asg f) None <> None /\ conv (uv_of (f_vars f) s) (uv_of (f_vars f) t) = Some cf /\
       (is_one cf = true \/ exists a, In (FConv t a cf) (f_eqs f))).
Proof. exact no_half_load. Qed.
Print Assumptions C17_no_half_load.
