(* C02 -- MathML -> SymPy transpilation preserves meaning for every supported operator.
   Statements only; proofs are in Proofs/C02P.v.
     tr         Model/Transpile.v   what parser.Transpiler does with one element (faithful, including F13)
     msem       Sem/MathML.v        the value MathML 2 assigns to a content tree
     eval       Sem/Eval.v          the value of a SymPy-shaped expression; psem := pow_sem, the function symbols
                                    fsem, the constants csem, the identifiers vsem and the derivative atoms dsem are
                                    universally quantified and THE SAME on both sides
   Quantified over ALL element trees (unbounded depth and arity), all environments.
   Covered by C02_transpile_sound: ci, cn (plain and e-notation), pi/exponentiale/infinity/notanumber/true/false,
   plus, times, max, min, minus (both arities), divide, power, rem, root/degree, log/logbase, ln, exp, abs, floor,
   ceiling, the 24 trigonometric / hyperbolic functions and inverses (generically, through the generated table),
   eq/lt/leq/gt/geq n-ary and chained, neq, and/or/xor/not, piecewise/piece/otherwise, diff with bvar (first order).
   Excluded (the specification gives no value, so the theorem says nothing): derivatives of order > 1 or of a compound
   expression, n-ary operators without operands, numbers outside [sign] digits [. digits] (exponent spellings),
   the rounding of a decimal to the nearest double (the model keeps the exact decimal). *)
From Coq Require Import List ZArith QArith Reals Qreals String.
From Verif Require Import Sexp UnitAlg UStore Expr Eval TranspileTables_gen Transpile MathML C02P.
Import ListNotations.

(* the generated tables (simple table, n-ary relations, handler keys -> methods) give every tag exactly the
   operator the specification has for it; a tag has a handler iff the specification knows it *)
Theorem C02_table_matches_spec : forall tag,
  tag_kind tag = match role tag with Some r => expected r | None => None end.
Proof. exact table_matches_spec. Qed.
Print Assumptions C02_table_matches_spec.

Theorem C02_transpile_sound : forall fsem csem qsem vsem dsem t e,
  tr t = TOk (TE e) ->
  forall v, msem fsem csem vsem dsem t = Some v -> eval fsem pow_sem csem qsem vsem dsem e = Some v.
Proof. exact transpile_sound. Qed.
Print Assumptions C02_transpile_sound.

(* an n-ary eq / lt / leq / gt / geq is the conjunction of the n-1 relations between adjacent operands
   (pairwise r a [b; c; ...] = rel a b && rel b c && ...) *)
Theorem C02_relation_chain : forall fsem csem qsem vsem dsem tag ty text tail otag oty otext otail och args r a rest e b,
  role tag = Some RApply -> role otag = Some (ROp (SRelN r)) ->
  msems fsem csem vsem dsem args = Some (map VR (a :: rest)) -> rest <> [] ->
  tr (MElem tag ty text tail (MElem otag oty otext otail och :: args)) = TOk (TE e) ->
  pairwise r a rest = Some b ->
  eval fsem pow_sem csem qsem vsem dsem e = Some (VB b).
Proof. exact relation_chain. Qed.
Print Assumptions C02_relation_chain.

(* Error clause.  Full statement: every tree to which MathML assigns no meaning (unsupported element, wrong number
   of operands or children, misplaced qualifier, malformed number) is refused.  It is FALSE of the faithful model and
   of the code (DESIGN section 6, F13; KNOWN_FINDINGS.txt).  Proved: the parts below; refuted: the witnesses. *)
Theorem C02_rejects_partial_unknown_element : forall tag ty text tail ch,
  role tag = None -> tr (MElem tag ty text tail ch) = TErr EValue.
Proof. exact rejects_unknown. Qed.
Print Assumptions C02_rejects_partial_unknown_element.

Theorem C02_rejects_partial_unknown_child : forall tag ty text tail ch r c,
  role tag = Some r -> is_container r = true -> In c ch -> role (mtag c) = None ->
  exists e, tr (MElem tag ty text tail ch) = TErr e.
Proof. exact rejects_unknown_child. Qed.
Print Assumptions C02_rejects_partial_unknown_child.

(* piece: exactly 2 children; otherwise, degree: exactly 1; bvar: 1 or 2; logbase, apply, piecewise: at least 1
   (guard: <logbase> with more than one child is accepted) *)
Theorem C02_rejects_partial_child_count : forall tag ty text tail ch r,
  role tag = Some r -> count_ok r (length ch) = false -> exists e, tr (MElem tag ty text tail ch) = TErr e.
Proof. exact rejects_count. Qed.
Print Assumptions C02_rejects_partial_child_count.

Theorem C02_rejects_partial_cn_type : forall tag text tail ch ty,
  role tag = Some RCn -> ty <> 0%Z -> ty <> 1%Z -> tr (MElem tag ty text tail ch) = TErr EValue.
Proof. exact rejects_cn_type. Qed.
Print Assumptions C02_rejects_partial_cn_type.

(* a wrong number of operands is refused -- guards: there is at least one operand (an operator-only apply returns
   the operator), and the count is not one of the two holes arity_hole (ln with 2, diff with 3 operands) *)
Theorem C02_rejects_partial_arity : forall tag ty text tail otag oty otext otail och args k,
  role tag = Some RApply -> role otag = Some (ROp k) ->
  args <> [] -> arity_ok k (length args) = false -> arity_hole k (length args) = false ->
  exists e, tr (MElem tag ty text tail (MElem otag oty otext otail och :: args)) = TErr e.
Proof. exact rejects_arity. Qed.
Print Assumptions C02_rejects_partial_arity.

Open Scope string_scope.

Theorem C02_rejects_refuted_operator_only :
  exists t, t = el "apply" [el "plus" []] /\ tr t = TOk (TOp KAdd) /\ no_value t.
Proof. exact refuted_operator_only. Qed.
Print Assumptions C02_rejects_refuted_operator_only.

Theorem C02_rejects_refuted_ln_two_operands :
  exists t, t = el "apply" [el "ln" []; ci_ "x"; ci_ "y"] /\
            tr t = TOk (TE (b_log (EVar (encode (N "x"))) (EVar (encode (N "y"))))) /\ no_value t.
Proof. exact refuted_ln_two_operands. Qed.
Print Assumptions C02_rejects_refuted_ln_two_operands.

Theorem C02_rejects_refuted_misplaced_degree :
  exists t, t = el "apply" [el "root" []; ci_ "x"; el "degree" [cn_ "3"]] /\
            tr t = TOk (TE (b_root (ENum 2 (inject_Z 3)) (EVar (encode (N "x"))))) /\ no_value t.
Proof. exact refuted_misplaced_degree. Qed.
Print Assumptions C02_rejects_refuted_misplaced_degree.

Theorem C02_rejects_refuted_foreign_qualifier :
  exists t, t = el "apply" [el "plus" []; el "degree" [cn_ "3"]; ci_ "x"] /\
            tr t = TOk (TE (EAdd [ENum 2 (inject_Z 3); EVar (encode (N "x"))])) /\ no_value t.
Proof. exact refuted_foreign_qualifier. Qed.
Print Assumptions C02_rejects_refuted_foreign_qualifier.

Theorem C02_rejects_refuted_cn_underscore :
  exists t, t = cn_ "1_0" /\ tr t = TOk (TE (ENum 2 (inject_Z 10))) /\ no_value t.
Proof. exact refuted_cn_underscore. Qed.
Print Assumptions C02_rejects_refuted_cn_underscore.

Theorem C02_rejects_refuted_cn_nan : exists t, t = cn_ "nan" /\ tr t = TOk (TE (EConst 4)) /\ no_value t.
Proof. exact refuted_cn_nan. Qed.
Print Assumptions C02_rejects_refuted_cn_nan.

Theorem C02_rejects_refuted_diff_degree_truncated :
  exists t, t = el "apply" [el "diff" []; el "bvar" [ci_ "t"; el "degree" [cn_ "2.7"]]; ci_ "y"] /\
            tr t = TOk (TE (EDeriv (EVar (encode (N "y"))) (EVar (encode (N "t"))) 2)) /\ no_value t.
Proof. exact refuted_diff_degree_truncated. Qed.
Print Assumptions C02_rejects_refuted_diff_degree_truncated.

Theorem C02_rejects_refuted_diff_without_bvar :
  exists t, t = el "apply" [el "diff" []; ci_ "t"; ci_ "y"] /\
            tr t = TOk (TE (EDeriv (EVar (encode (N "y"))) (EVar (encode (N "t"))) 1)) /\ no_value t.
Proof. exact refuted_diff_without_bvar. Qed.
Print Assumptions C02_rejects_refuted_diff_without_bvar.

Theorem C02_rejects_refuted_logbase_two_children :
  exists t, t = el "apply" [el "log" []; el "logbase" [ci_ "b"; ci_ "c"]; ci_ "x"] /\
            tr t = TOk (TE (b_log (EVar (encode (N "x"))) (EVar (encode (N "b"))))) /\ no_value t.
Proof. exact refuted_logbase_two_children. Qed.
Print Assumptions C02_rejects_refuted_logbase_two_children.
