(* placeholder while the proofs are being written *)
From Verif Require Import Transpile.
Theorem C02_placeholder : True.
Proof. exact I. Qed.
Print Assumptions C02_placeholder.
