(* C02 -- MathML -> SymPy transpilation preserves meaning for every supported operator.
   Statements only; proofs are in Proofs/C02P.v.
     tr         Model/Transpile.v   what parser.Transpiler does with one element (faithful; parse_one = parse_tree for one child of <math>)
     msem       Sem/MathML.v        the value MathML 2 assigns to a content tree
     eval       Sem/Eval.v          the value of a SymPy-shaped expression; psem := pow_sem, the function symbols
                                    fsem, the constants csem, the identifiers vsem and the derivative atoms dsem are
                                    universally quantified and THE SAME on both sides
   Quantified over ALL element trees (unbounded depth and arity), all environments.
   Covered by C02_transpile_sound: ci, cn (plain and e-notation), pi/exponentiale/infinity/notanumber/true/false,
   plus, times, max, min, minus (both arities), divide, power, rem, root/degree, log/logbase, ln, exp, abs, floor,
   ceiling, the 24 trigonometric / hyperbolic functions and inverses (generically, through the generated table),
   eq/lt/leq/gt/geq n-ary and chained, neq, and/or/xor/not, piecewise/piece/otherwise, diff with bvar (first order).
   Numbers: [sign] digits [. digits] [e|E [sign] digits] in a plain <cn>, decimal<sep/>integer in e-notation.
   Excluded (the specification gives no value, so the theorem says nothing): derivatives of order > 1 or of a compound
   expression, the rounding of a decimal to the nearest double (the model keeps the exact decimal). *)
From Coq Require Import List ZArith QArith Reals Qreals String.
From Verif Require Import Sexp UnitAlg UStore Expr Eval TranspileTables_gen Transpile MathML C02P.
Import ListNotations.

(* the generated tables (simple table, n-ary relations, handler keys -> methods) give every tag exactly the
   operator the specification has for it; a tag has a handler iff the specification knows it *)
Theorem C02_table_matches_spec : forall tag,
  tag_kind tag = match role tag with Some r => expected r | None => None end.
Proof. exact table_matches_spec. Qed.
Print Assumptions C02_table_matches_spec.

Theorem C02_transpile_sound : forall fsem csem qsem vsem dsem t e,
  tr t = TOk (TE e) ->
  forall v, msem fsem csem vsem dsem t = Some v -> eval fsem pow_sem csem qsem vsem dsem e = Some v.
Proof. exact transpile_sound. Qed.
Print Assumptions C02_transpile_sound.

(* an n-ary eq / lt / leq / gt / geq is the conjunction of the n-1 relations between adjacent operands
   (pairwise r a [b; c; ...] = rel a b && rel b c && ...) *)
Theorem C02_relation_chain : forall fsem csem qsem vsem dsem tag ty text tail otag oty otext otail och args r a rest e b,
  role tag = Some RApply -> role otag = Some (ROp (SRelN r)) ->
  msems fsem csem vsem dsem args = Some (map VR (a :: rest)) -> rest <> [] ->
  tr (MElem tag ty text tail (MElem otag oty otext otail och :: args)) = TOk (TE e) ->
  pairwise r a rest = Some b ->
  eval fsem pow_sem csem qsem vsem dsem e = Some (VB b).
Proof. exact relation_chain. Qed.
Print Assumptions C02_relation_chain.

(* the generated MATHML_CONTAINERS is exactly the set of elements that may have child elements *)
Theorem C02_containers_match_spec : forall tag,
  name_in tag container_tags = match role tag with Some r => may_have_children r | None => false end.
Proof. exact containers_match_spec. Qed.
Print Assumptions C02_containers_match_spec.

(* Error clause.  Full statement: every tree to which MathML assigns no meaning (unsupported element, wrong number
   of operands or children, misplaced qualifier, malformed number) is refused.  After the repairs of the findings
   operator-only-apply, ln-two-operands, cn-python-only-spelling, diff-degree-not-positive-integer and
   ignored-children (fix: commits in /repo) what remains FALSE of the model and of the code is the finding
   qualifier-misuse: a degree / logbase / bvar outside its place is taken as an ordinary operand, a third operand of
   diff is taken as the "evaluate" flag (KNOWN_FINDINGS.txt).  Proved: the theorems C02_rejects_* below (the ones
   named _partial carry a guard for that finding); refuted: the four witnesses at the end. *)
Theorem C02_rejects_unknown_element : forall tag ty text tail ch,
  role tag = None -> tr (MElem tag ty text tail ch) = TErr EValue.
Proof. exact rejects_unknown. Qed.
Print Assumptions C02_rejects_unknown_element.

Theorem C02_rejects_unknown_child : forall tag ty text tail ch r c,
  role tag = Some r -> is_container r = true -> In c ch -> role (mtag c) = None ->
  exists e, tr (MElem tag ty text tail ch) = TErr e.
Proof. exact rejects_unknown_child. Qed.
Print Assumptions C02_rejects_unknown_child.

(* piece: exactly 2 children; otherwise, degree: exactly 1; bvar: 1 or 2; apply, piecewise: at least 1;
   logbase: at least 1 (guard: <logbase> with more than one child is accepted -- qualifier-misuse) *)
Theorem C02_rejects_partial_child_count : forall tag ty text tail ch r,
  role tag = Some r -> count_ok r (length ch) = false -> exists e, tr (MElem tag ty text tail ch) = TErr e.
Proof. exact rejects_count. Qed.
Print Assumptions C02_rejects_partial_child_count.

(* token, operator and constant elements with child elements; a plain <cn> with child elements *)
Theorem C02_rejects_leaf_with_children : forall tag ty text tail ch r,
  role tag = Some r -> may_have_children r = false -> ch <> [] -> tr (MElem tag ty text tail ch) = TErr EValue.
Proof. exact rejects_leaf_children. Qed.
Print Assumptions C02_rejects_leaf_with_children.

Theorem C02_rejects_cn_with_children : forall tag text tail ch,
  role tag = Some RCn -> ch <> [] -> tr (MElem tag 0 text tail ch) = TErr EValue.
Proof. exact rejects_cn_children. Qed.
Print Assumptions C02_rejects_cn_with_children.

Theorem C02_rejects_cn_type : forall tag text tail ch ty,
  role tag = Some RCn -> ty <> 0%Z -> ty <> 1%Z -> tr (MElem tag ty text tail ch) = TErr EValue.
Proof. exact rejects_cn_type. Qed.
Print Assumptions C02_rejects_cn_type.

(* a number with any character outside [0-9.+-eE] (after stripping white space) is refused: 1_0, nan, inf,
   Infinity, non-ASCII digits, ... -- for ALL strings *)
Theorem C02_rejects_malformed_number : forall tag text tail,
  role tag = Some RCn -> forallb number_char (strip text) = false -> tr (MElem tag 0 text tail []) = TErr EValue.
Proof. exact rejects_malformed_number. Qed.
Print Assumptions C02_rejects_malformed_number.

(* a wrong number of operands is refused, an operator without operands included -- guard: arity_hole, the third
   operand of diff (qualifier-misuse) *)
Theorem C02_rejects_partial_arity : forall tag ty text tail otag oty otext otail och args k,
  role tag = Some RApply -> role otag = Some (ROp k) ->
  arity_ok k (length args) = false -> arity_hole k (length args) = false ->
  exists e, tr (MElem tag ty text tail (MElem otag oty otext otail och :: args)) = TErr e.
Proof. exact rejects_arity. Qed.
Print Assumptions C02_rejects_partial_arity.

Theorem C02_rejects_operator_only : forall tag ty text tail otag oty otext otail och k,
  role tag = Some RApply -> role otag = Some (ROp k) ->
  exists e, tr (MElem tag ty text tail [MElem otag oty otext otail och]) = TErr e.
Proof. exact rejects_operator_only. Qed.
Print Assumptions C02_rejects_operator_only.

(* parse_tree returns SymPy objects only; an operator element directly under <math> is refused *)
Theorem C02_parse_tree_returns_expressions : forall t v, parse_one t = TOk v -> is_basic v = true.
Proof. exact parse_one_basic. Qed.
Print Assumptions C02_parse_tree_returns_expressions.

Theorem C02_rejects_toplevel_operator : forall tag ty text tail ch k,
  role tag = Some (ROp k) -> exists e, parse_one (MElem tag ty text tail ch) = TErr e.
Proof. exact rejects_toplevel_operator. Qed.
Print Assumptions C02_rejects_toplevel_operator.

(* the degree of a derivative must be a positive whole number *)
Theorem C02_rejects_diff_degree : forall bv de y,
  (forall n, int_of_expr de = Some n -> is_whole de n = false \/ (n < 1)%Z) ->
  exists e, diff_call (TList [TE bv; TE de]) y = TErr e.
Proof. exact rejects_diff_degree. Qed.
Print Assumptions C02_rejects_diff_degree.

Open Scope string_scope.

(* the former witnesses of the repaired findings are refused *)
Theorem C02_rejects_repaired_witnesses :
  tr (el "apply" [el "plus" []]) = TErr EValue /\
  parse_one (el "plus" []) = TErr EValue /\
  tr (el "apply" [el "ln" []; ci_ "x"; ci_ "y"]) = TErr EType /\
  tr (cn_ "1_0") = TErr EValue /\ tr (cn_ "nan") = TErr EValue /\ tr (cn_ "-Infinity") = TErr EValue /\
  tr (el "apply" [el "diff" []; el "bvar" [ci_ "t"; el "degree" [cn_ "2.7"]]; ci_ "y"]) = TErr EValue /\
  tr (el "apply" [el "diff" []; el "bvar" [ci_ "t"; el "degree" [cn_ "0"]]; ci_ "y"]) = TErr EValue /\
  tr (MElem (N "ci") 0 (N "y") [] [ci_ "x"]) = TErr EValue /\
  tr (el "apply" [el "plus" [el "foo" []]; ci_ "x"; ci_ "y"]) = TErr EValue.
Proof. exact repaired_witnesses. Qed.
Print Assumptions C02_rejects_repaired_witnesses.

Theorem C02_rejects_refuted_misplaced_degree :
  exists t, t = el "apply" [el "root" []; ci_ "x"; el "degree" [cn_ "3"]] /\
            tr t = TOk (TE (b_root (ENum 2 (inject_Z 3)) (EVar (encode (N "x"))))) /\ no_value t.
Proof. exact refuted_misplaced_degree. Qed.
Print Assumptions C02_rejects_refuted_misplaced_degree.

Theorem C02_rejects_refuted_foreign_qualifier :
  exists t, t = el "apply" [el "plus" []; el "degree" [cn_ "3"]; ci_ "x"] /\
            tr t = TOk (TE (EAdd [ENum 2 (inject_Z 3); EVar (encode (N "x"))])) /\ no_value t.
Proof. exact refuted_foreign_qualifier. Qed.
Print Assumptions C02_rejects_refuted_foreign_qualifier.

Theorem C02_rejects_refuted_diff_without_bvar :
  exists t, t = el "apply" [el "diff" []; ci_ "t"; ci_ "y"] /\
            tr t = TOk (TE (EDeriv (EVar (encode (N "y"))) (EVar (encode (N "t"))) 1)) /\ no_value t.
Proof. exact refuted_diff_without_bvar. Qed.
Print Assumptions C02_rejects_refuted_diff_without_bvar.

Theorem C02_rejects_refuted_logbase_two_children :
  exists t, t = el "apply" [el "log" []; el "logbase" [ci_ "b"; ci_ "c"]; ci_ "x"] /\
            tr t = TOk (TE (b_log (EVar (encode (N "x"))) (EVar (encode (N "b"))))) /\ no_value t.
Proof. exact refuted_logbase_two_children. Qed.
Print Assumptions C02_rejects_refuted_logbase_two_children.
