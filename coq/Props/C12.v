(* C12 -- singularity removal only repairs.
   Statements only; proofs are in Proofs/C12P.v, the model is Model/Singularity.v.
   Quantified over ALL real functions f (the equation as a function of V), all bounds and voltages, all affine
   exponent arguments U = a*V + c with a <> 0 of either sign, all outer factors P; for the combinators: all expression
   trees (sums / products / reciprocals of any shape), all results of the pattern search (a Section variable),
   all equation lists, exclusion sets and partial-evaluation functions.
   PARTIAL: completeness of the pattern search (_get_singularity: SymPy match + solveset) has no theorem -- that
   "affine-U equations of the four forms are always repaired" is decided by stage D of tools/props/c12.py only. *)
From Coq Require Import ZArith QArith Reals Qreals List Bool.
From Verif Require Import Sexp Singularity C12P C12MergeP.
Import ListNotations.
Open Scope R_scope.

Theorem C12_outside_window_unchanged : forall f Vmin Vmax V,
  V < lo_of Vmin Vmax \/ hi_of Vmin Vmax < V -> gen_piecewise f Vmin Vmax V = f V.
Proof. exact outside_window_unchanged. Qed.
Print Assumptions C12_outside_window_unchanged.

Theorem C12_window_bounds_are_min_max : forall a b, lo_of a b = Rmin a b /\ hi_of a b = Rmax a b.
Proof. intros a b. split; [exact (lo_of_min a b)|exact (hi_of_max a b)]. Qed.
Print Assumptions C12_window_bounds_are_min_max.

Theorem C12_symbolic_bounds_same_value : forall f Vmin Vmax V,
  gen_piecewise_sym f Vmin Vmax V = gen_piecewise f Vmin Vmax V.
Proof. exact gen_piecewise_sym_eq. Qed.
Print Assumptions C12_symbolic_bounds_same_value.

Theorem C12_window_contains_sp : forall a b d Vmin Vmax sp,
  a <> 0 -> 0 <= d ->
  (a * Vmin + b = d /\ a * Vmax + b = - d) \/ (a * Vmin + b = - d /\ a * Vmax + b = d) ->
  a * sp + b = 0 ->
  lo_of Vmin Vmax <= sp <= hi_of Vmin Vmax.
Proof. exact window_contains_sp. Qed.
Print Assumptions C12_window_contains_sp.

Theorem C12_inside_is_convex_combination : forall f Vmin Vmax V,
  lo_of Vmin Vmax <= V <= hi_of Vmin Vmax ->
  exists t, 0 <= t <= 1 /\
    gen_piecewise f Vmin Vmax V = (1 - t) * f (lo_of Vmin Vmax) + t * f (hi_of Vmin Vmax) /\
    Rmin (f Vmin) (f Vmax) <= gen_piecewise f Vmin Vmax V <= Rmax (f Vmin) (f Vmax).
Proof. exact inside_is_convex_combination. Qed.
Print Assumptions C12_inside_is_convex_combination.

Theorem C12_ghk_endpoints : forall k,
  Rabs (ghk k delta - ghk_limit k) <= 6 / 100000000 /\ Rabs (ghk k (- delta) - ghk_limit k) <= 6 / 100000000.
Proof. exact ghk_endpoints. Qed.
Print Assumptions C12_ghk_endpoints.

Theorem C12_inside_within_bound : forall k P a c Vmin Vmax V,
  a <> 0 ->
  (a * Vmin + c = delta /\ a * Vmax + c = - delta) \/ (a * Vmin + c = - delta /\ a * Vmax + c = delta) ->
  lo_of Vmin Vmax <= V <= hi_of Vmin Vmax ->
  Rabs (gen_piecewise (fun v => P * ghk k (a * v + c)) Vmin Vmax V - P * ghk_limit k) <= 6 / 100000000 * Rabs P.
Proof. exact inside_within_bound. Qed.
Print Assumptions C12_inside_within_bound.

Theorem C12_inside_within_bound_at_sp : forall k P a c Vmin Vmax sp,
  a <> 0 ->
  (a * Vmin + c = delta /\ a * Vmax + c = - delta) \/ (a * Vmin + c = - delta /\ a * Vmax + c = delta) ->
  a * sp + c = 0 ->
  Rabs (gen_piecewise (fun v => P * ghk k (a * v + c)) Vmin Vmax sp - P * ghk_limit k) <= 6 / 100000000 * Rabs P.
Proof. exact inside_within_bound_at_sp. Qed.
Print Assumptions C12_inside_within_bound_at_sp.

Theorem C12_piecewise_Q_is_the_model : forall (f : R -> R) Vmin Vmax V fmin fmax fV,
  ~ (Vmin == Vmax)%Q ->
  f (Q2R Vmin) = Q2R fmin -> f (Q2R Vmax) = Q2R fmax -> f (Q2R V) = Q2R fV ->
  Q2R (snd (piecewise_Q Vmin Vmax V fmin fmax fV)) = gen_piecewise f (Q2R Vmin) (Q2R Vmax) (Q2R V).
Proof. exact piecewise_Q_correct. Qed.
Print Assumptions C12_piecewise_Q_is_the_model.

Theorem C12_fix_only_inserts_piecewise : forall find e, strip (wrap (fixp find e)) = strip e.
Proof. exact strip_fixp. Qed.
Print Assumptions C12_fix_only_inserts_piecewise.

Theorem C12_fix_outside_unchanged : forall atom find e V, windows e = [] ->
  (forall w, In w (windows (snd (remove_singularities find e))) -> outside w V) ->
  seval atom (snd (remove_singularities find e)) V = seval atom e V.
Proof. exact fix_outside_unchanged. Qed.
Print Assumptions C12_fix_outside_unchanged.

Theorem C12_no_pattern_no_change : forall find, (forall e, find e = []) ->
  forall e, remove_singularities find e = (false, e).
Proof. exact no_pattern_no_change. Qed.
Print Assumptions C12_no_pattern_no_change.

Theorem C12_no_pattern_model_unchanged : forall find excluded inline, (forall e, find e = []) ->
  forall eqs u, rfs find excluded inline u eqs = eqs.
Proof. exact no_pattern_model_unchanged. Qed.
Print Assumptions C12_no_pattern_model_unchanged.

Theorem C12_excluded_untouched : forall find excluded inline eqs u i v rhs,
  nth_error eqs i = Some (v, rhs) -> is_pw rhs || excluded v = true ->
  nth_error (rfs find excluded inline u eqs) i = Some (v, rhs).
Proof. exact excluded_untouched. Qed.
Print Assumptions C12_excluded_untouched.

Theorem C12_defined_variables_unchanged : forall find excluded inline eqs u,
  map fst (rfs find excluded inline u eqs) = map fst eqs.
Proof. exact defined_variables_unchanged. Qed.
Print Assumptions C12_defined_variables_unchanged.

Theorem C12_each_equation_same_or_repaired : forall find excluded inline eqs u i v rhs,
  nth_error eqs i = Some (v, rhs) ->
  nth_error (rfs find excluded inline u eqs) i = Some (v, rhs) \/
  exists u', nth_error (rfs find excluded inline u eqs) i = Some (v, snd (remove_singularities find (inline u' rhs)))
             /\ fst (remove_singularities find (inline u' rhs)) = true.
Proof. exact each_equation_same_or_repaired. Qed.
Print Assumptions C12_each_equation_same_or_repaired.

(* the summands of a sum are merged into ONE window only when EVERY summand carries a window with that same singular point *)
Theorem C12_merge_requires_all_windowed : forall (ps : list part) w, merged ps = Some w ->
  Forall (fun p : part => exists w' ex hp, p = (Some w', ex, hp) /\ wsp w' = wsp w) ps.
Proof. exact merge_requires_all_windowed. Qed.
Print Assumptions C12_merge_requires_all_windowed.

(* hence a sum with a summand that has no singularity of its own (but may hold nested repairs, e.g. c / (d + ghk)) is rebuilt
   from the separately repaired summands: nothing repaired inside a summand is thrown away by the merge (seeded change C12-21) *)
Theorem C12_add_with_windowless_summand_keeps_parts : forall find l, has_exp (SAdd l) = true ->
  (exists a, In a l /\ fst (fst (fixp find a)) = None) ->
  fixp find (SAdd l) = (None, SAdd (map wrap (map (fixp find) l)), existsb flag (map (fixp find) l)).
Proof. exact add_with_windowless_summand_keeps_parts. Qed.
Print Assumptions C12_add_with_windowless_summand_keeps_parts.
