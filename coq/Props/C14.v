(* C14 -- every number written in the document reaches the generated code bit for bit.
   Statements only; proofs are in Proofs/C14P.v, the model is Model/Floats.v (Flocq), FLOAT_PRECISION and the
   e-notation format are generated from /repo by tools/translate_precision.py (Gen/Precision_gen.v).
   Quantified over ALL doubles (generic_format radix2 (FLT_exp (-1074) 53): normal and subnormal, any sign),
   all precisions >= 53 bits, all rounding modes, all mantissa/exponent pairs.
   Partial: the conversions decimal text -> double (float()) and double -> shortest text (repr) are CPython's and
   are trusted to be correctly rounded / to round-trip; the model represents them as one rounding / identity. *)
From Coq Require Import ZArith QArith Reals Qreals List.
From Flocq Require Import Core.
From Verif Require Import Sexp Precision_gen Floats C14P.

Theorem C14_prec_suffices : (53 <= dps_to_prec FLOAT_PRECISION)%Z.
Proof. exact prec_suffices. Qed.
Print Assumptions C14_prec_suffices.

Theorem C14_prec_threshold : forall dps, (53 <= dps_to_prec dps <-> 15 <= dps)%Z.
Proof. exact dps_to_prec_threshold. Qed.
Print Assumptions C14_prec_threshold.

Theorem C14_dps_to_prec_margin : forall dps, (1 <= dps <= 200)%Z -> dps_margin_ok dps = true.
Proof. exact dps_to_prec_margin. Qed.
Print Assumptions C14_dps_to_prec_margin.

Theorem C14_evalf_exact : forall p rnd x, Valid_rnd rnd -> (53 <= p)%Z -> is_double x ->
  round radix2 (FLX_exp p) rnd x = x.
Proof. exact evalf_exact. Qed.
Print Assumptions C14_evalf_exact.

Theorem C14_evalf_stage_exact_any_digits : forall dps x, (15 <= dps)%Z -> is_double x -> evalf_stage dps x = x.
Proof. exact evalf_stage_exact_any. Qed.
Print Assumptions C14_evalf_stage_exact_any_digits.

Theorem C14_enotation_single_rounding : forall m e,
  parse_enotation m e = Some (to_float (Q2R (m * (inject_Z 10) ^ e))).
Proof. exact enotation_single_rounding. Qed.
Print Assumptions C14_enotation_single_rounding.

Theorem C14_enotation_two_roundings_differ : exists m e,
  parse_enotation m e <> Some (parse_enotation_two_roundings m e).
Proof. exact enotation_two_roundings_differ. Qed.
Print Assumptions C14_enotation_two_roundings_differ.

Theorem C14_pipeline_identity : forall x, is_double x -> pipeline_value x = x /\ pipeline_code x = x.
Proof. exact pipeline_identity. Qed.
Print Assumptions C14_pipeline_identity.

Theorem C14_parsed_pipeline_identity : forall q,
  pipeline_value (parse_plain q) = parse_plain q /\ pipeline_code (parse_plain q) = parse_plain q.
Proof. exact parsed_pipeline_identity. Qed.
Print Assumptions C14_parsed_pipeline_identity.
