(* C11 -- generated Python code computes exactly what the expression means.
   Statements only; proofs are in Proofs/C11GrammarP.v and Proofs/C11P.v.

   Model/PyPrinter.v mirrors cellmlmanip/printer.py on SymPy-shaped trees (Syntax/Expr.v): [pp fuel e] builds a
   bracketed parse tree (Model/PyGrammar.v), the emitted string is [text] of it, [doprint] = trig rewriting pass
   (for sympy.Expr inputs) followed by [pp].  [derives] is Python's levelled expression grammar for the token set,
   [pyeval] evaluates a parse tree over the same abstract function / power semantics as [eval].

   STATEMENT (full strength since the fixes 2293052 (F10a), da05218 (F10b), a75e9c2 (F17) are mirrored by the model):
     forall e p, doprint e = Ok p -> printable (pre e) = true ->
       wb p /\ derives 0 (toks p) p /\ forall v, eval e = Some v -> pyeval p = Some v.
   [printable] is no defect exclusion any more; it only delimits the property's own scope: the tree is made of the
   supported constructs and is well-sorted (numbers where numbers are expected, truth values where truth values are
   expected; no Quantity / Derivative leaves, which are printed by user hooks; Integer leaves have denominator 1).
   Direction: wherever the expression has a real / truth value the Python text computes the same value
   (Python's short-circuit 'and'/'or'/conditional may succeed where the expression is undefined).
   Not covered by the model (known finding F18, checked per case by the harness): SymPy operations inside the printer
   (optimize/replace, _keep_coeff) that re-evaluate unevaluated input instead of rewriting it plainly.
   Unambiguity of Python's grammar (the parser returns THE derivation) is trusted and sampled by the harness. *)
From Coq Require Import List ZArith QArith Reals Qreals String.
From Verif Require Import Sexp Expr Eval PyGrammar PyPrinter PrinterTables_gen C11GrammarP C11P.
Import ListNotations.
Open Scope list_scope.

(* T1: every well-bracketed parse tree is derived, with exactly that grouping, from its own tokens *)
Theorem C11_grammar_sound : forall p, wb p = true -> derives (lvl p) (toks p) p.
Proof. exact grammar_sound. Qed.
Print Assumptions C11_grammar_sound.

(* T2: for every printable tree, at every depth, the parse tree the printer builds is well-bracketed *)
Theorem C11_print_wellbracketed : forall fuel e p,
  pp fuel e = Ok p -> printable e = true -> wb p = true.
Proof. exact wellbracketed. Qed.
Print Assumptions C11_print_wellbracketed.

(* T3: ... and it evaluates to the value of the expression *)
Theorem C11_print_value :
  forall (fsem : Z -> list R -> option R) (psem : R -> R -> option R) (csem : Z -> option R)
         (qsem : Z -> Q -> Z -> option R) (vsem : Z -> option R) (dsem : Z -> Z -> option R),
  (forall x, psem x 1%R = Some x) ->
  (forall x y, (0 < y)%R -> psem x (- y)%R = inv_opt (psem x y)) ->
  forall fuel e p v, pp fuel e = Ok p -> printable e = true ->
    eval fsem psem csem qsem vsem dsem e = Some v -> pyeval fsem psem csem vsem p = Some v.
Proof. exact print_value. Qed.
Print Assumptions C11_print_value.

(* T1-T3 composed for Printer.doprint: rewriting pass + printer *)
Theorem C11_doprint_correct :
  forall (fsem : Z -> list R -> option R) (psem : R -> R -> option R) (csem : Z -> option R)
         (qsem : Z -> Q -> Z -> option R) (vsem : Z -> option R) (dsem : Z -> Z -> option R),
  (forall x, psem x 1%R = Some x) ->
  (forall x y, (0 < y)%R -> psem x (- y)%R = inv_opt (psem x y)) ->
  (forall f sh g, In (f, sh, g) trig_spec -> trig_law fsem psem f sh g) ->
  forall e p, doprint e = Ok p -> printable (pre e) = true ->
    wb p = true /\ derives 0 (toks p) p /\
    (forall v, eval fsem psem csem qsem vsem dsem e = Some v -> pyeval fsem psem csem vsem p = Some v).
Proof. exact doprint_correct. Qed.
Print Assumptions C11_doprint_correct.

(* regression witnesses of the repaired defects: formerly identical texts are now distinct and well-bracketed *)
Theorem C11_pow_tower_fixed : now_distinct (EPow (EPow v0 v1) v2) (EPow v0 (EPow v1 v2)).
Proof. exact pow_tower_fixed. Qed.
Print Assumptions C11_pow_tower_fixed.

Theorem C11_negated_sum_fixed : now_distinct (EMul [m1; EAdd [v0; v1]]) (EAdd [EMul [m1; v0]; v1]).
Proof. exact negated_sum_fixed. Qed.
Print Assumptions C11_negated_sum_fixed.

Theorem C11_single_denominator_fixed :
  now_distinct (EMul [v0; EPow (EPow v1 m1) m1]) (EMul [EMul [v0; EPow (ENum 0 (1 # 1)) m1]; EPow v1 m1]).
Proof. exact single_denominator_fixed. Qed.
Print Assumptions C11_single_denominator_fixed.

(* T4: the generated tables *)
Theorem C11_function_table : forall s py, In (s, py) function_names ->
  (s = "sqrt"%string /\ spec_fn py = Some MSqrt) \/ (exists f, fn_id s = Some f /\ spec_fn py = Some (MFn f)).
Proof. exact function_table_spec. Qed.
Print Assumptions C11_function_table.

Theorem C11_literal_table : forall k py, In (k, py) literal_names ->
  exists c, lit_key_const k = Some c /\ spec_lit py = Some c.
Proof. exact literal_table_spec. Qed.
Print Assumptions C11_literal_table.

Theorem C11_trig_rewrite_sound :
  forall (fsem : Z -> list R -> option R) (psem : R -> R -> option R) (csem : Z -> option R)
         (qsem : Z -> Q -> Z -> option R) (vsem : Z -> option R) (dsem : Z -> Z -> option R),
  (forall f sh g, In (f, sh, g) trig_spec -> trig_law fsem psem f sh g) ->
  forall e, eval fsem psem csem qsem vsem dsem (rewrite e) = eval fsem psem csem qsem vsem dsem e.
Proof. exact rewrite_sound. Qed.
Print Assumptions C11_trig_rewrite_sound.

Theorem C11_unsupported_raises : forall n,
  (forall c, c <> 0%Z -> c <> 1%Z -> pp (S n) (EConst c) = Err) /\
  (forall l, pp (S n) (EFn fn_max l) = Err) /\ (forall l, pp (S n) (EFn fn_min l) = Err) /\
  (forall op l, op <> 0%Z -> op <> 1%Z -> pp (S n) (EBool op l) = Err) /\
  (forall f s l, fn_name f = Some s -> slookup function_names s = None ->
                 forall ps, collect (map (pp n) l) = Ok ps -> pp (S n) (EFn f l) = Err).
Proof. exact unsupported_raises. Qed.
Print Assumptions C11_unsupported_raises.

(* the premises of T3 / T4 are satisfiable (real powers for positive bases; sec := 1/cos ...) *)
Theorem C11_premises_satisfiable :
  (forall x, psem_ex x 1%R = Some x) /\
  (forall x y, (0 < y)%R -> psem_ex x (- y)%R = inv_opt (psem_ex x y)) /\
  (forall base f sh g, In (f, sh, g) trig_spec -> trig_law (fsem_ex base) psem_ex f sh g).
Proof. exact premises_satisfiable. Qed.
Print Assumptions C11_premises_satisfiable.
