(* C19 -- custom conversion rules apply the same way whatever units sit on either side.
   Statements only (proofs: Proofs/C19P.v) over Model/URules.v, for ALL rule lists, units and rule coefficients. *)
From Coq Require Import List ZArith QArith Bool Reals.
From Verif Require Import Sexp UnitAlg UnitAlgP UStore URules C19P C19ChainP.
Import ListNotations.

(* conversions that do not need a rule are unaffected by any set of registered rules *)
Theorem C19_same_dimension_unaffected : forall rules a b, same_dim a b = true ->
  convert_with_rules rules a b =
  match conv a b with Some c => Ok ({| a_q := 1%Q; a_syms := []; a_unit := a |}, c) | None => Err EDimension end.
Proof. exact same_dimension_unaffected. Qed.
Print Assumptions C19_same_dimension_unaffected.

(* the chain of rules used depends only on the two dimensions, not on the units that spell them *)
Theorem C19_chain_depends_on_dimensions_only : forall fuel rules vis vis' a a' b b',
  same_dim a a' = true -> same_dim b b' = true -> Forall2 (fun x y => same_dim x y = true) vis vis' ->
  shortest fuel rules vis a b = shortest fuel rules vis' a' b'.
Proof. exact shortest_congr. Qed.
Print Assumptions C19_chain_depends_on_dimensions_only.

(* UNIT INDEPENDENCE: for any spellings a', b' of the source / target dimensions the result is the result for (a, b)
   rescaled by exactly the ordinary factors a' -> a and b -> b'; coefficient and symbolic factors are identical.
   Holds for chains of any length (one rule, two rules, ...). *)
Theorem C19_unit_independent : forall rules a b a' b' st c,
  same_dim a' a = true -> same_dim b b' = true ->
  convert_with_rules rules a b = Ok (st, c) ->
  exists st' c' ca cb,
    convert_with_rules rules a' b' = Ok (st', c') /\ conv a' a = Some ca /\ conv b b' = Some cb /\
    a_q st' = a_q st /\ a_syms st' = a_syms st /\ ueq c' (umul ca (umul c cb)).
Proof. exact unit_independent. Qed.
Print Assumptions C19_unit_independent.

Theorem C19_unconnected_still_fails : forall rules a b, same_dim a b = false ->
  forallb (fun r => negb (same_dim (r_from r) a)) rules = true ->
  convert_with_rules rules a b = Err EDimension.
Proof. exact unconnected_still_fails. Qed.
Print Assumptions C19_unconnected_still_fails.

(* the value of a single linear rule: 1 [a]  |->  kq x (symbols) x scale(a) x scale(K)^(+-1) / scale(b)  [b] *)
Theorem C19_single_rule_value : forall r a b st c,
  convert_with_rules [r] a b = Ok (st, c) -> same_dim a b = false ->
  (r_div r = false -> (a_q st == r_kq r)%Q /\ (scaleR c = scaleR a * scaleR (r_kunit r) / scaleR b)%R) /\
  (r_div r = true -> (a_q st == 1 / r_kq r)%Q /\ (scaleR c = scaleR a / scaleR (r_kunit r) / scaleR b)%R).
Proof. exact single_rule_value. Qed.
Print Assumptions C19_single_rule_value.

(* the chain a successful conversion follows is a genuine path: every rule on it was registered, the first leaves the
   dimension of the source unit, each next rule leaves the dimension the previous one arrives in, the last arrives in the
   dimension of the target unit, and it is non-empty exactly when the dimensions differ - no rule is ever applied to a
   quantity that does not have the rule's source dimension *)
Theorem C19_chain_is_registered_path : forall rules a b st c,
  convert_with_rules rules a b = Ok (st, c) ->
  exists path, shortest (S (length rules)) rules [] a b = Some path /\ is_chain rules a path b /\
               (same_dim a b = false -> path <> []).
Proof. exact chain_is_registered_path. Qed.
Print Assumptions C19_chain_is_registered_path.

(* closed form for chains of ANY length (one rule, two rules, ...): the coefficient is the product / quotient of the
   rules' numeric coefficients in chain order, the symbolic factors are the rules' symbols in chain order with exponent
   +1 (q*K) or -1 (q/K), the unit reached is the source unit times a unit that depends on the chain only, and the result
   is finished by the ordinary conversion from that unit to the target unit *)
Theorem C19_chain_value : forall rules a b st c,
  convert_with_rules rules a b = Ok (st, c) ->
  exists path, shortest (S (length rules)) rules [] a b = Some path /\
    a_q st = chain_q path /\ a_syms st = chain_syms path /\
    ueq (a_unit st) (umul a (chain_unit path)) /\ conv (a_unit st) b = Some c.
Proof. exact chain_value. Qed.
Print Assumptions C19_chain_value.
