(* C18 -- every number in every equation keeps a real unit, through every manipulation.
   Statements only (proofs: Proofs/C18P.v).  [EQty id q u]: u >= 0 indexes the model's unit table (a Unit object of
   the model's store); -1 = bare string, -2 = None.  units_invariant s: every quantity of every equation of s carries
   a unit of s's table.  Proved for convert_variable in ALL its cases (OUTPUT, INPUT of computed / constant / state /
   free variable: ODE rewriting, derivative substitution, conversion-factor quantities) and for any sequence of
   conversions.  The singularity helper as coded (F12) is refuted; the repaired hand-back (fix: commit in /repo) is
   proved to restore the invariant.  Loading, API edits and the unit-fix pass are decided by the scan oracle on the
   implementation (tools/props/c18.py). *)
From Coq Require Import List ZArith QArith Bool.
From Verif Require Import Sexp UnitAlg Expr ModelSM ConvertVar QtyUnits C18P.
Import ListNotations.
Open Scope Z_scope.

Theorem C18_units_invariant_convert_variable : forall s v target d mv s' n,
  units_invariant s = true -> convert_variable s v target d mv = COk (s', n) -> units_invariant s' = true.
Proof. exact convert_variable_units_ok. Qed.
Print Assumptions C18_units_invariant_convert_variable.

Theorem C18_units_invariant_history : forall ops s,
  units_invariant s = true -> units_invariant (fold_left cstep ops s) = true.
Proof. exact history_units_ok. Qed.
Print Assumptions C18_units_invariant_history.

(* a rejected conversion leaves the state, hence the invariant, untouched: cstep keeps s on CErr (by definition) *)

Theorem C18_singularity_string_units_refuted :
  exists e N, qty_ok N e = true /\ qty_ok N (float_dummies_as_coded e) = false.
Proof. exact singularity_string_units_refuted. Qed.
Print Assumptions C18_singularity_string_units_refuted.

Theorem C18_singularity_units_restored : forall N d e, 0 <= d < N ->
  only_string_or_ok N e = true -> qty_ok N (restore_units d e) = true.
Proof. exact restore_units_ok. Qed.
Print Assumptions C18_singularity_units_restored.

Theorem C18_bigger_table_keeps_units : forall N M e, N <= M -> qty_ok N e = true -> qty_ok M e = true.
Proof. exact qty_ok_mono. Qed.
Print Assumptions C18_bigger_table_keeps_units.
