(* C18 -- every number in every equation keeps a real unit, through every manipulation.
   Statements only (proofs: Proofs/C18P.v).  [EQty id q u]: u >= 0 indexes the model's unit table (a Unit object of
   the model's store); -1 = bare string, -2 = None.  units_invariant s: every quantity of every equation of s carries
   a unit of s's table.  Proved for convert_variable in ALL its cases (OUTPUT, INPUT of computed / constant / state /
   free variable: ODE rewriting, derivative substitution, conversion-factor quantities) and for any sequence of
   conversions.  The singularity helper as coded (F12) is refuted; the repaired hand-back (fix: commit in /repo) is
   proved to restore the invariant.  LOADING is proved over the loader model (Model/Loader.v, at the end of this file:
   C18_loaded_numbers_have_units -- every number of a component equation carries a defined cellml:units name, every
   inserted conversion factor is the factor between the defined units of the two ends of a document connection, every
   initial-value number carries its variable's unit).  API edits and the unit-fix pass are decided by the scan oracle on
   the implementation (tools/props/c18.py). *)
From Coq Require Import List ZArith QArith Bool.
From Verif Require Import Sexp UnitAlg Expr ModelSM ConvertVar QtyUnits C18P.
Import ListNotations.
Open Scope Z_scope.

Theorem C18_units_invariant_convert_variable : forall s v target d mv s' n,
  units_invariant s = true -> convert_variable s v target d mv = COk (s', n) -> units_invariant s' = true.
Proof. exact convert_variable_units_ok. Qed.
Print Assumptions C18_units_invariant_convert_variable.

Theorem C18_units_invariant_history : forall ops s,
  units_invariant s = true -> units_invariant (fold_left cstep ops s) = true.
Proof. exact history_units_ok. Qed.
Print Assumptions C18_units_invariant_history.

(* a rejected conversion leaves the state, hence the invariant, untouched: cstep keeps s on CErr (by definition) *)

Theorem C18_singularity_string_units_refuted :
  exists e N, qty_ok N e = true /\ qty_ok N (float_dummies_as_coded e) = false.
Proof. exact singularity_string_units_refuted. Qed.
Print Assumptions C18_singularity_string_units_refuted.

Theorem C18_singularity_units_restored : forall N d e, 0 <= d < N ->
  only_string_or_ok N e = true -> qty_ok N (restore_units d e) = true.
Proof. exact restore_units_ok. Qed.
Print Assumptions C18_singularity_units_restored.

Theorem C18_bigger_table_keeps_units : forall N M e, N <= M -> qty_ok N e = true -> qty_ok M e = true.
Proof. exact qty_ok_mono. Qed.
Print Assumptions C18_bigger_table_keeps_units.

(* ---- loading (over Model/Loader.v, the model of Parser.parse; proofs: Proofs/C18LoadP.v) ------------------------
   The import stands here, not at the top, so that the loader's names (result, bind, upd, defined, lookup ...)
   cannot shadow anything the theorems above use.
   Every number of every equation of a loaded model carries a defined unit (eq_numbers_ok):
   - component equation: every quantity leaf [EQty id q u] has a cellml:units name u defined in the document's unit
     table (user definitions and built-ins, as computed by Model/UnitsLoader.v);
   - inserted conversion equation  t = a * cf : cf is the conversion factor between the DEFINED units of the two ends
     of a document connection (s, t), i.e. a number in  unit of t / unit of s;
   - initial-value equation  v = init : the number carries the defined unit of v. *)
From Verif Require Import Loader LoaderP C17P C18LoadP.

Theorem C18_loaded_numbers_have_units : forall d f, load d = OK f ->
  forall q, In q (f_eqs f) -> eq_numbers_ok d (f_vars f) (st_work d) q.
Proof. exact loaded_numbers_have_units. Qed.
Print Assumptions C18_loaded_numbers_have_units.
