(* C08 -- any sequence of edits leaves a coherent model; rejected edits change nothing.
   Statements only (proofs: Proofs/C08P.v).  Quantified over EVERY equation pool, every state and every
   history of API calls (op lists of any length, failing calls and cache-populating queries included).
   The model (Model/ModelSM.v) mirrors model.py after the fix: commits for F8 and F15. *)
From Coq Require Import List ZArith QArith Bool.
From Verif Require Import Sexp ModelSM C08P.
Import ListNotations.

(* Coherent = the two definition maps are exactly the index of Model.equations by left-hand side, no
   variable is defined twice, no equation has an invalid left-hand side, and each cached graph, if
   present, is what building from the current equations gives. *)
Theorem C08_coherent_step : forall pool s o, Coherent pool s -> Coherent pool (fst (step pool s o)).
Proof. exact step_coherent. Qed.
Print Assumptions C08_coherent_step.

Theorem C08_reachable_coherent : forall pool mc ops, Coherent pool (run pool (init_state mc) ops).
Proof. exact reachable_coherent. Qed.
Print Assumptions C08_reachable_coherent.

(* an edit that raises leaves the state -- hence every observable -- exactly as it was *)
Theorem C08_failed_edit_atomic : forall pool s o, snd (step pool s o) = false -> fst (step pool s o) = s.
Proof. exact failed_step_atomic. Qed.
Print Assumptions C08_failed_edit_atomic.

(* every query answers as a freshly built model holding the same variables and equations *)
Theorem C08_refines_fresh : forall pool s,
  Coherent pool s -> first_order pool (eqs s) ->
  eqs (fresh pool s) = eqs s /\ vdef (fresh pool s) = vdef s /\ odef (fresh pool s) = odef s /\
  vars (fresh pool s) = vars s /\
  (forall v, get_definition (fresh pool s) v = get_definition s v) /\
  get_state_variables (fresh pool s) = get_state_variables s /\
  build_graph pool (fresh pool s) = build_graph pool s /\
  (forall g, gcache s = Some g -> build_graph pool (fresh pool s) = MOk g) /\
  (forall g, ncache s = Some g ->
     exists g0, build_graph pool (fresh pool s) = MOk g0 /\ g = number_graph pool g0).
Proof. exact refines_fresh. Qed.
Print Assumptions C08_refines_fresh.

Theorem C08_reachable_refines_fresh : forall pool mc ops,
  let s := run pool (init_state mc) ops in
  eqs (fresh pool s) = eqs s /\ vdef (fresh pool s) = vdef s /\ odef (fresh pool s) = odef s /\
  vars (fresh pool s) = vars s /\
  (forall v, get_definition (fresh pool s) v = get_definition s v) /\
  get_state_variables (fresh pool s) = get_state_variables s /\
  build_graph pool (fresh pool s) = build_graph pool s /\
  (forall g, gcache s = Some g -> build_graph pool (fresh pool s) = MOk g) /\
  (forall g, ncache s = Some g ->
     exists g0, build_graph pool (fresh pool s) = MOk g0 /\ g = number_graph pool g0).
Proof. exact reachable_refines_fresh. Qed.
Print Assumptions C08_reachable_refines_fresh.

(* non-vacuity: a two-equation history reaches a state with a populated cache *)
Example C08_nonvacuous :
  let pool := [ {| e_lhs := LDeriv 0%nat 1%nat 1%Z 1%Z; e_refs := [RVar 0%nat]; e_isqty := false; e_hasqty := false;
                   e_refs_num := [RVar 0%nat]; e_atoms := [0%nat] |} ] in
  exists g, gcache (run pool (init_state None)
                        [OAddVar [120%Z] None None; OAddVar [116%Z] None None; OAddEq 0%nat; OGraph]) = Some g.
Proof. eexists. vm_compute. reflexivity. Qed.
