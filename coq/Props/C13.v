(* C13 -- annotations always point at exactly one live variable.
   Statements only (proofs: Proofs/C13P.v), over Model/ModelSM.v: every history of add_variable (with / without /
   clashing ids), add_cmeta_id, transfer_cmeta_id, remove_variable, equation edits and queries, of any length.
   Calls are made with live variables of this model; handing the model a stale variable is finding F16
   (C13_foreign_variable_refuted).  The LOADER's connection-time transfer is proved over Model/Loader.v at the end of this
   file (C13_load_ids: ids pairwise distinct, every declared id carried by exactly one variable -- the variable its
   declaring variable is directly connected to when that connection changes no unit, the declaring variable otherwise;
   C13_load_both_ids_rejected).  convert_variable(move_annotations) is covered by the harness oracle on the implementation
   (conversion stratum) and by the C06 model's correspondence (which compares cmeta ids after every conversion). *)
From Coq Require Import List ZArith QArith Bool.
From Verif Require Import Sexp ModelSM C08P C13P.
Import ListNotations.

(* CmetaOk: registry entry c |-> v  iff  v is live and carries c (so ids are pairwise distinct and distinct from
   the model's own id), and the name registry lists exactly the live variables. *)
Theorem C13_bijection_step : forall pool s o, CmetaOk s -> CmetaOk (gstep pool s o).
Proof. exact gstep_cmetaok. Qed.
Print Assumptions C13_bijection_step.

Theorem C13_bijection_reachable : forall pool mc ops, CmetaOk (grun pool (init_state mc) ops).
Proof. exact reachable_cmetaok. Qed.
Print Assumptions C13_bijection_reachable.

Theorem C13_lookup_returns_carrier : forall s c v, CmetaOk s ->
  (get_variable_by_cmeta_id s c = MOk v <->
   exists r, nth_error (vars s) v = Some r /\ v_live r = true /\ v_cmeta r = Some c).
Proof. exact lookup_returns_carrier. Qed.
Print Assumptions C13_lookup_returns_carrier.

Theorem C13_one_carrier_per_id : forall s c v w rv rw, CmetaOk s ->
  nth_error (vars s) v = Some rv -> v_live rv = true -> v_cmeta rv = Some c ->
  nth_error (vars s) w = Some rw -> v_live rw = true -> v_cmeta rw = Some c -> v = w.
Proof. exact one_carrier_per_id. Qed.
Print Assumptions C13_one_carrier_per_id.

Theorem C13_model_id_is_not_a_variable_id : forall s c, CmetaOk s -> mcmeta s = Some c ->
  dget str_eqb (cmetas s) c = None.
Proof. intros s c H. exact (ck_model s H c). Qed.
Print Assumptions C13_model_id_is_not_a_variable_id.

Theorem C13_rdf_lookup_returns_carriers : forall s p o vs, CmetaOk s -> get_variables_by_rdf s p o = MOk vs ->
  forall v, In v vs ->
  exists r c, nth_error (vars s) v = Some r /\ v_live r = true /\ v_cmeta r = Some c /\ In (c, p, o) (triples s).
Proof. exact rdf_lookup_returns_carriers. Qed.
Print Assumptions C13_rdf_lookup_returns_carriers.

Theorem C13_remove_removes_annotations : forall pool s v s' r c, CmetaOk s ->
  nth_error (vars s) v = Some r -> v_live r = true -> v_cmeta r = Some c ->
  remove_variable pool s v = MOk s' ->
  get_variable_by_cmeta_id s' c = MErr EKey /\ (forall t, In t (triples s') -> fst (fst t) <> c).
Proof. exact remove_removes_annotations. Qed.
Print Assumptions C13_remove_removes_annotations.

(* without the liveness guard the invariant fails: finding F16 *)
Theorem C13_foreign_variable_refuted :
  exists s v, CmetaOk s /\ ~ CmetaOk (fst (step [] s (ORemoveVar v))).
Proof. exact foreign_variable_refuted. Qed.
Print Assumptions C13_foreign_variable_refuted.

(* ---- loading (over Model/Loader.v, the model of Parser.parse; proofs: Proofs/C13LoadP.v) ------------------------
   The import stands here, not at the top, so that the loader's names cannot shadow anything used above.
   decl vars v      the cmeta id the document declares on variable v;
   carrier vars m v where that id lives after loading: the variable v is directly connected to, when v is the target
                    of a connection without unit change (transfer_cmeta_id(source=target, target=source) moves an id
                    ONE hop, not to the end of the chain); v itself otherwise.
   For every loaded document: the ids of the flat variables are pairwise distinct; every declared id is carried by
   its carrier; every id of the flat model is a declared id sitting on its carrier -- hence each id of the document
   belongs to exactly one variable of the model. *)
From Verif Require Import Loader LoaderP C17P C13LoadP.

Theorem C13_load_ids : forall d f, load d = OK f ->
  let m := rev (f_map f) in
  ids_distinct (f_cmeta f) /\
  (forall v k, decl (f_vars f) v = Some k -> nth (carrier (f_vars f) m v) (f_cmeta f) None = Some k) /\
  (forall j k, nth j (f_cmeta f) None = Some k -> exists v, decl (f_vars f) v = Some k /\ carrier (f_vars f) m v = j).
Proof. exact load_ids. Qed.
Print Assumptions C13_load_ids.

(* both ends of a connection without unit change carry an id (the source end being a pure source): refused *)
Theorem C13_load_both_ids_rejected : forall d,
  (exists s t, In (s, t) (st_work d) /\ one_b (st_vars d) s t = true /\ decl (st_vars d) t <> None /\
               decl (st_vars d) s <> None /\ nth s (asg (init_cs (st_vars d))) None <> None) ->
  exists e, load d = Error e.
Proof. exact load_both_ids_rejected. Qed.
Print Assumptions C13_load_both_ids_rejected.
