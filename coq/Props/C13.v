(* C13 -- annotations always point at exactly one live variable.
   Statements only (proofs: Proofs/C13P.v), over Model/ModelSM.v: every history of add_variable (with / without /
   clashing ids), add_cmeta_id, transfer_cmeta_id, remove_variable, equation edits and queries, of any length.
   Calls are made with live variables of this model; handing the model a stale variable is finding F16
   (C13_foreign_variable_refuted).  Loader transfer and convert_variable(move_annotations) are covered by the
   harness oracle on the implementation (and by C06 / C01 models), not by these theorems. *)
From Coq Require Import List ZArith QArith Bool.
From Verif Require Import Sexp ModelSM C08P C13P.
Import ListNotations.

(* CmetaOk: registry entry c |-> v  iff  v is live and carries c (so ids are pairwise distinct and distinct from
   the model's own id), and the name registry lists exactly the live variables. *)
Theorem C13_bijection_step : forall pool s o, CmetaOk s -> CmetaOk (gstep pool s o).
Proof. exact gstep_cmetaok. Qed.
Print Assumptions C13_bijection_step.

Theorem C13_bijection_reachable : forall pool mc ops, CmetaOk (grun pool (init_state mc) ops).
Proof. exact reachable_cmetaok. Qed.
Print Assumptions C13_bijection_reachable.

Theorem C13_lookup_returns_carrier : forall s c v, CmetaOk s ->
  (get_variable_by_cmeta_id s c = MOk v <->
   exists r, nth_error (vars s) v = Some r /\ v_live r = true /\ v_cmeta r = Some c).
Proof. exact lookup_returns_carrier. Qed.
Print Assumptions C13_lookup_returns_carrier.

Theorem C13_one_carrier_per_id : forall s c v w rv rw, CmetaOk s ->
  nth_error (vars s) v = Some rv -> v_live rv = true -> v_cmeta rv = Some c ->
  nth_error (vars s) w = Some rw -> v_live rw = true -> v_cmeta rw = Some c -> v = w.
Proof. exact one_carrier_per_id. Qed.
Print Assumptions C13_one_carrier_per_id.

Theorem C13_model_id_is_not_a_variable_id : forall s c, CmetaOk s -> mcmeta s = Some c ->
  dget str_eqb (cmetas s) c = None.
Proof. intros s c H. exact (ck_model s H c). Qed.
Print Assumptions C13_model_id_is_not_a_variable_id.

Theorem C13_rdf_lookup_returns_carriers : forall s p o vs, CmetaOk s -> get_variables_by_rdf s p o = MOk vs ->
  forall v, In v vs ->
  exists r c, nth_error (vars s) v = Some r /\ v_live r = true /\ v_cmeta r = Some c /\ In (c, p, o) (triples s).
Proof. exact rdf_lookup_returns_carriers. Qed.
Print Assumptions C13_rdf_lookup_returns_carriers.

Theorem C13_remove_removes_annotations : forall pool s v s' r c, CmetaOk s ->
  nth_error (vars s) v = Some r -> v_live r = true -> v_cmeta r = Some c ->
  remove_variable pool s v = MOk s' ->
  get_variable_by_cmeta_id s' c = MErr EKey /\ (forall t, In t (triples s') -> fst (fst t) <> c).
Proof. exact remove_removes_annotations. Qed.
Print Assumptions C13_remove_removes_annotations.

(* without the liveness guard the invariant fails: finding F16 *)
Theorem C13_foreign_variable_refuted :
  exists s v, CmetaOk s /\ ~ CmetaOk (fst (step [] s (ORemoveVar v))).
Proof. exact foreign_variable_refuted. Qed.
Print Assumptions C13_foreign_variable_refuted.
