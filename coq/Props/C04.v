(* C04 -- unit inference (UnitCalculator.traverse / UnitStore.evaluate_units) is sound.
   Statements only; proofs are in Proofs/C04P.v, Proofs/UnitCalcP.v.  Model: Model/UnitCalc.v [infer].

   Quantified over ALL environments (atoms with any SI vector, any unit table, any variable table with or
   without initial values), ALL expression trees (any depth and arity) and ALL valuations of the variables
   and derivatives.  Two readings of a tree (Proofs/UnitCalcP.v):
     evalN  : a variable is its value in its own unit, a quantity its number;
     evalSI : every leaf is multiplied by the SI scale of its unit (a derivative by scale(y)/scale(t)).
   Function symbols [fsem], constants [csem] are arbitrary; the power [psem] is any function with
   (s x)^q = s^q x^q for s > 0 and Abs is positively homogeneous (both satisfiable: last two theorems).

   FULL STATEMENT (false of the faithful model and of the code, see KNOWN_FINDINGS.txt):
     forall G e n m, infer G e = UOk (n, m) ->
       consistent G e /\ forall nu de, evalSI .. e = option_map (scale_val (scaleR (expand G n))) (evalN .. e).
   PROVED: the statement under the explicit boolean guard [guard G false e] (Model/UnitCalc.v):
     - every exponent is a closed sum / product of numbers and quantities (no variable: traverse substitutes
       the initial value, which is not the value under every valuation; other closed forms -- log(_100) --
       are read correctly by the repaired code but declined by the model).  Compound exponents are INSIDE
       the theorem since the F6 repair (C04_compound_exponent_repaired),
     - floor / ceiling arguments have SI scale 1 (these functions do not commute with rescaling); every other
       function is unary (the code rejects Max/Min/Mod anyway).  Since the scaled-argument repair traverse
       itself demands scale 1 of the arguments of exp, log, trig ...: no guard is needed for them,
     - (operands of sums / piecewise / relations are compared by dimension part and scale: since the radian
       repair a dimension-less base unit such as radian is ignored; a Pow exponent must have no dimension and
       scale 1, whatever the name of its unit)
     - every piecewise condition is well-united: relations compare equivalent units (traverse never visits
       conditions: finding piecewise-conditions-unchecked).
   All constructors are covered (numbers, constants, quantities, variables, Add, Mul, Pow, functions, Abs,
   floor, ceiling, Derivative, Piecewise, relations and And/Or/Not/Xor inside conditions). *)
From Coq Require Import List ZArith QArith Reals Qreals.
From Verif Require Import UnitAlg UnitAlgP Expr Eval UnitCalc UnitCalcP C04P.
Import ListNotations.
Open Scope R_scope.

Theorem C04_infer_sound_partial : forall fsem psem csem, psem_law psem -> abs_law fsem ->
  forall G e n m, infer G e = UOk (n, m) -> guard G false e = true ->
    consistent G e /\
    forall nu de, evalSI G fsem psem csem nu de e =
                  option_map (scale_val (scaleR (expand G n))) (evalN fsem psem csem nu de e).
Proof. exact infer_sound_partial. Qed.
Print Assumptions C04_infer_sound_partial.

Theorem C04_condition_sound : forall fsem psem csem, psem_law psem -> abs_law fsem ->
  forall G c, guard G true c = true ->
    consistent G c /\ forall nu de, evalSI G fsem psem csem nu de c = evalN fsem psem csem nu de c.
Proof. exact condition_sound. Qed.
Print Assumptions C04_condition_sound.

Theorem C04_compound_exponent_repaired :
  exists r r',
    infer G_w (EPow (EVar 0) x_sum) = UOk r /\ infer G_w (EPow (EVar 0) x_lit) = UOk r' /\
    guard G_w false (EPow (EVar 0) x_sum) = true /\ guard G_w false (EPow (EVar 0) x_lit) = true /\
    sem_equiv G_w (fst r) (upow [(0%Z, 1%Q)] 3) = true /\ sem_equiv G_w (fst r) (fst r') = true.
Proof. exact infer_compound_exponent_repaired. Qed.
Print Assumptions C04_compound_exponent_repaired.

Theorem C04_error_kinds :
  (forall G e k, infer G e = UErr k ->
     In k [EUnexpectedMath; EInvalidUnits; EMustBeDimensionless; EMustBeNumber; EBoolean; EConversion]) /\
  (forall G r a b q, infer G (ERel r a b) <> UOk q) /\
  (forall G op l q, infer G (EBool op l) <> UOk q) /\
  (forall G q, infer G ETrue <> UOk q /\ infer G EFalse <> UOk q) /\
  (forall G l rs r0, infers G l = UOk rs -> hd_error rs = Some r0 ->
     forallb (fun r => sem_equiv G (fst r0) (fst r)) rs = false -> infer G (EAdd l) = UErr EInvalidUnits) /\
  (forall G b x rb rx, infer G b = UOk rb -> infer G x = UOk rx -> dim_dimless G (fst rx) = false ->
     infer G (EPow b x) = UErr EMustBeDimensionless).
Proof. exact infer_error_kinds. Qed.
Print Assumptions C04_error_kinds.

Theorem C04_power_law_satisfiable : psem_law pow_sem.
Proof. exact pow_sem_law. Qed.
Print Assumptions C04_power_law_satisfiable.

Theorem C04_abs_law_satisfiable : abs_law fsem_abs_only.
Proof. exact abs_law_sat. Qed.
Print Assumptions C04_abs_law_satisfiable.

(* the guard is satisfiable by a non-trivial tree:  (a[mV] + a) ** _3 *)
Example C04_guard_example :
  guard G_w false (EPow (EAdd [EVar 0; EVar 0]) x_lit) = true /\
  exists r, infer G_w (EPow (EAdd [EVar 0; EVar 0]) x_lit) = UOk r.
Proof. split; [vm_compute; reflexivity | eexists; vm_compute; reflexivity]. Qed.
