(* C16 -- models and unit stores do not leak into one another.
   Statements only (proofs: Proofs/C16P.v) over the world model of Model/UStore.v: a process-wide id counter,
   registries shared or not, per-store name spaces.  Quantified over all tables, worlds, operation histories.
   Python-level sharing (class attributes, lru caches, module state) has no counterpart in a functional model: that
   part of the property is decided by the interleaving oracle on the implementation (tools/props/c16.py). *)
From Coq Require Import List ZArith QArith Bool.
From Verif Require Import Sexp UnitAlg UStore C16P.
Import ListNotations.

Theorem C16_reachable_wellformed : forall T ops, WFW (fold_left (wstep T) ops init_world).
Proof. exact reachable_wf. Qed.
Print Assumptions C16_reachable_wellformed.

Theorem C16_ids_fresh : forall T ops i j si sj, let w := fold_left (wstep T) ops init_world in
  nth_error (stores w) i = Some si -> nth_error (stores w) j = Some sj -> i <> j -> sid si <> sid sj.
Proof. exact ids_pairwise_distinct. Qed.
Print Assumptions C16_ids_fresh.

(* defining a unit in store j -- same registry or not, same user name or not -- leaves what store i sees unchanged *)
Theorem C16_frame_add_unit : forall T w j n e w' i, WFW w -> add_unit T w j n e = Ok w' -> i <> j ->
  store_view w' i = store_view w i /\ forall m, get_unit T w' i m = get_unit T w i m.
Proof. exact add_unit_frame. Qed.
Print Assumptions C16_frame_add_unit.

Theorem C16_frame_add_base_unit : forall T w j n w' i, WFW w -> add_base_unit T w j n = Ok w' -> i <> j ->
  store_view w' i = store_view w i /\ forall m, get_unit T w' i m = get_unit T w i m.
Proof. exact add_base_unit_frame. Qed.
Print Assumptions C16_frame_add_base_unit.

Theorem C16_names_unknown_elsewhere : forall T w j n e w' i si, WFW w -> add_unit T w j n e = Ok w' -> i <> j ->
  nth_error (stores w) i = Some si -> name_in n (known si) = false -> get_unit T w' i n = Err EKey.
Proof. exact add_unit_not_known_elsewhere. Qed.
Print Assumptions C16_names_unknown_elsewhere.

(* whole histories: any interleaving of operations on other stores (and creation of further stores) *)
Theorem C16_frame_history : forall T ops w i, WFW w -> (exists s, nth_error (stores w) i = Some s) ->
  forallb (fun o => negb (touches o i)) ops = true ->
  store_view (fold_left (wstep T) ops w) i = store_view w i /\
  forall m, get_unit T (fold_left (wstep T) ops w) i m = get_unit T w i m.
Proof. exact history_frame. Qed.
Print Assumptions C16_frame_history.

(* "store<digits>_<name>": equal qualified strings come from equal ids and equal names (any names) *)
Theorem C16_prefix_code : forall d1 d2 n1 n2, forallb is_digit d1 = true -> forallb is_digit d2 = true ->
  qualified d1 n1 = qualified d2 n2 -> d1 = d2 /\ n1 = n2.
Proof. exact prefix_code. Qed.
Print Assumptions C16_prefix_code.
