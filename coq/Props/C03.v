(* C03 -- units definitions mean what the CellML specification says, in any order.
   Statements only; proofs are in Proofs/C03P.v (and Proofs/UnitAlgP.v).

   Model: Model/UnitsLoader.v (Parser._add_units, _make_pint_unit_definition on the unit-store model).
   The theorems about the algorithm are quantified over ALL tables T (built-in units) and P (prefixes), ALL
   lists of <units> definitions of any length, any nesting depth of references, any rational exponents,
   multipliers, prefixes, and ALL permutations.  Only the two table theorems are about the generated tables.

   [UnitSpec isb offok ds n u] is the order-free meaning (only [In d ds] is used): n is a built-in unit with
   vector u, or a new base unit, or a definition whose vector is the product over its <unit> children of
   multiplier x (prefix x referenced unit)^exponent, each referenced unit again having a derivation
   (so: no cycle, no dangling reference).  [USpec] = UnitSpec with the CellML decisions (base unit iff
   base_units="yes"; offset acceptable iff zero); the code takes the same decisions (C03_code_takes_cellml_decisions). *)
From Coq Require Import List ZArith QArith Reals Qreals Permutation.
From Verif Require Import Sexp UnitAlg UnitAlgP UStore Builtins_gen Builtins Prefixes_gen UnitsLoader C03P.
Import ListNotations.

(* (a) the generated prefix table is the SI table on every name; the 20 schema names are covered; deca = deka *)
Theorem C03_prefix_table :
  prefix_table_is_si unit_prefixes /\
  (forall n, In n schema_prefix_names ->
     exists k q, nlookup si_prefix_exponents n = Some k /\ nlookup unit_prefixes n = Some q /\ (q == pow10 k)%Q) /\
  nlookup unit_prefixes name_deca = nlookup unit_prefixes name_deka.
Proof. exact prefix_table_statement. Qed.
Print Assumptions C03_prefix_table.

(* (b) every CellML built-in name resolves to the dimension vector and scale of CellML 1.1 table 2, and the
   table lists no other name *)
Theorem C03_builtin_table :
  (forall n, name_in n cellml_units = true -> builtin_entry_ok builtin_table n) /\
  (forall n, In n (map fst si_units) -> name_in n cellml_units = true).
Proof. exact builtin_table_ok. Qed.
Print Assumptions C03_builtin_table.

Theorem C03_builtin_scale : forall n sp v,
  nlookup si_units n = Some sp -> nlookup builtin_table n = Some v -> name_in n cellml_units = true ->
  scaleR v = scaleR (si_vec sp).
Proof. exact builtin_scaleR. Qed.
Print Assumptions C03_builtin_scale.

Theorem C03_named_prefix_is_power_of_ten : forall n q,
  nlookup unit_prefixes n = Some q -> exists k, nlookup si_prefix_exponents n = Some k /\ (q == pow10 k)%Q.
Proof. exact named_prefix_power_of_ten. Qed.
Print Assumptions C03_named_prefix_is_power_of_ten.

(* (c) the progress counter is correct: the fuel (n+1)(n+2)/2+... given to the work-list always suffices *)
Theorem C03_worklist_fuel : forall T P ds, add_units T P ds <> LOutOfFuel.
Proof. exact add_units_fuel. Qed.
Print Assumptions C03_worklist_fuel.

(* (d) Full statement:
     forall ds st, add_units T P ds = LOk st -> forall n u, unit_of T st n = Ok u <-> USpec T P ds n u
   It is FALSE of the faithful model (and of the code) in one region, with its witness below:
     F2  a reference to a name that begins with a digit is not read as that name  (C03_names_refuted)
   (F1 base_units="no" and F3 offset="0.0" were repaired in /repo: the code's decisions [is_base], [offokM] are
   now proved equal to the CellML ones [isbS], [offokS] for every input -- C03_code_takes_cellml_decisions.)
   Proved: the statement in the fragment [in_fragment] = every referenced name begins with a letter or
   underscore.  The direction <- needs the name not to be "celsius" (get_unit refuses it even when it was
   accepted as a new base unit). *)
Theorem C03_resolve_spec_partial : forall T P ds st,
  in_fragment ds = true -> add_units T P ds = LOk st ->
  (forall n u, unit_of T st n = Ok u -> USpec T P ds n u) /\
  (forall n u, USpec T P ds n u -> name_in n (t_unsupported T) = false -> unit_of T st n = Ok u) /\
  names_ok T ds.
Proof. exact resolve_spec_partial. Qed.
Print Assumptions C03_resolve_spec_partial.

Theorem C03_code_takes_cellml_decisions :
  (forall d, is_base d = isbS d) /\ (forall o, offokM o = offokS o).
Proof. exact code_takes_cellml_decisions. Qed.
Print Assumptions C03_code_takes_cellml_decisions.

(* success iff: names unique and not built-in (nor "celsius" for a derived unit), and every definition has a
   derivation, i.e. no cycle, no dangling reference, zero offsets only, multipliers/prefixes the model can
   represent (positive, prime factors below 100), at least one <unit> child.
   Missing for the full statement: the F2 region. *)
Theorem C03_rejects_partial : forall T P ds,
  in_fragment ds = true -> ((exists st, add_units T P ds = LOk st) <-> ResolvableS T P ds).
Proof. exact rejects_partial. Qed.
Print Assumptions C03_rejects_partial.

(* order independence: same success, and EQUAL (Leibniz, hence ueq) vectors for every name.
   Full statement: without the guard.  Missing: references to digit-led names (F2). *)
Theorem C03_order_independent_partial : forall T P ds ds',
  Permutation ds ds' -> in_fragment ds = true ->
  ((exists st, add_units T P ds = LOk st) <-> (exists st', add_units T P ds' = LOk st')) /\
  (forall st st', add_units T P ds = LOk st -> add_units T P ds' = LOk st' ->
     forall n u, unit_of T st n = Ok u <-> unit_of T st' n = Ok u) /\
  (forall n u, USpec T P ds n u <-> USpec T P ds' n u).
Proof. exact order_independent_partial. Qed.
Print Assumptions C03_order_independent_partial.

(* (e) the vector of a definition, read in the reals: SI scale = product over the children of
   multiplier x (prefix x scale of the referenced unit)^exponent, and every dimension exponent = sum over
   the children of exponent x dimension exponent of the referenced unit.
   Guard: F2 (a digit-led reference is not the referenced unit). *)
Theorem C03_definition_meaning_partial : forall T P ds st d,
  refs_wordlike ds = true -> add_units T P ds = LOk st -> In d ds -> isbS d = false ->
  exists u vs,
    unit_of T st (d_name d) = Ok u /\ d_children d <> [] /\
    Forall2 (fun c v => USpec T P ds (c_units c) v /\
                        (name_in (c_units c) (t_unsupported T) = false -> unit_of T st (c_units c) = Ok v))
            (d_children d) vs /\
    scaleR u = def_scaleR P (d_children d) vs /\
    (forall k, is_dim k = true -> (get u k == def_dim (d_children d) vs k)%Q).
Proof. exact definition_meaning_guarded. Qed.
Print Assumptions C03_definition_meaning_partial.

Theorem C03_child_meaning : forall P c v cv,
  child_vec P c v = Some cv ->
  scaleR cv = (multR c * Rpower (scaleR v * prefixR P c) (Q2R (expQ c)))%R /\
  (forall k, is_dim k = true -> (get cv k == get v k * expQ c)%Q).
Proof. exact child_meaning. Qed.
Print Assumptions C03_child_meaning.

Theorem C03_multiplier_is_exact : forall q v, factorQ q = Some v -> scaleR v = Q2R q.
Proof. exact factorQ_scaleR. Qed.
Print Assumptions C03_multiplier_is_exact.

(* new base units: distinct names are distinct dimensions, disjoint from the SI dimensions and the scale *)
Theorem C03_base_units_distinct : forall a b,
  name_chars_ok a -> name_chars_ok b -> base_gen a = base_gen b -> a = b.
Proof. exact base_gen_inj. Qed.
Print Assumptions C03_base_units_distinct.

Theorem C03_base_unit_is_new_dimension : forall n,
  (base_gen n < -100)%Z /\ is_dim (base_gen n) = true /\ is_scale (base_gen n) = false.
Proof. exact base_gen_is_dim. Qed.
Print Assumptions C03_base_unit_is_new_dimension.

(* witnesses on the real tables (vm_compute) *)
Theorem C03_names_refuted :
  exists ds st u u', refs_wordlike ds = false /\
    add_units the_tables unit_prefixes ds = LOk st /\
    unit_of the_tables st (d_name (nth 1 ds (mkDef [] None []))) = Ok u /\
    USpec the_tables unit_prefixes ds (d_name (nth 1 ds (mkDef [] None []))) u' /\ ueqb u u' = false.
Proof. exact names_refuted. Qed.
Print Assumptions C03_names_refuted.

(* the guards are satisfiable and the theorems are about runs that exist *)
Theorem C03_fragment_inhabited :
  exists st, in_fragment ds_good = true /\ add_units the_tables unit_prefixes ds_good = LOk st.
Proof. exact fragment_inhabited. Qed.
Print Assumptions C03_fragment_inhabited.
