(* C05 -- converting an expression to other units preserves its physical value.
   Statements only; proofs are in Proofs/C05P.v, Proofs/UnitCalcP.v.  Model: Model/UnitCalc.v [convert],
   a case-by-case mirror of UnitCalculator.convert_expression_recursively (units.py:656-798).

   Quantified over ALL unit worlds, ALL expression trees (any depth and arity), ALL targets (a unit or none)
   and ALL valuations of variables and derivatives.  evalN / evalSI are the numeric and the SI reading
   (Proofs/UnitCalcP.v); a conversion quantity written by the model is EQty (-d) q (-3) with value q^(1/d)
   (the factor is a product of rational powers of primes).  [fsem], [csem] arbitrary, [psem] any power with
   (s x)^q = s^q x^q for s > 0, Abs positively homogeneous (satisfiable: C04_power_law_satisfiable ...).

   FULL STATEMENT (false of the faithful model and of the code: F7):
     convert G e to = UOk (e', c, u) -> u is the target /\ evalSI e = scale(u) * evalN e'.
   PROVED under the syntactic guard [homog e]: no floor / ceiling anywhere in e, Abs is unary.
   All other constructors are covered: numbers, constants, quantities, variables, Derivative, Add, Mul,
   Pow (exponent value = float(exponent) tracked for sums and products of numbers and quantities; the model
   declines other closed exponents and zero exponents -- then there is no UOk to speak about), Abs, functions
   with dimensionless arguments, Max/Min/Mod, relations, And/Or/Not/Xor, Piecewise with its conditions.
   Clause (b), strict inference accepts the result: C05_result_infers_partial / C05_result_infers below
   (Proofs/C05InferP.v), with the guard explained there and C05_result_infers_refuted for what it excludes.
   Since the mul-rebuild repair a product is rebuilt only when an operand was converted (model: EMul case). *)
From Coq Require Import List ZArith QArith Reals Qreals.
From Verif Require Import UnitAlg UnitAlgP Expr Eval UnitCalc UnitCalcP C04P C05P C05InferP.
Import ListNotations.
Open Scope R_scope.

Theorem C05_convert_preserves_value : forall fsem psem csem, psem_law psem -> abs_law fsem ->
  forall G e to e' c u, convert G e to = UOk (e', c, u) -> homog e = true ->
    (forall t, to = Some t -> ueq u t) /\
    forall nu de, evalSI G fsem psem csem nu de e =
                  option_map (scale_val (scaleR (expand G u))) (evalN fsem psem csem nu de e').
Proof. exact convert_preserves_value. Qed.
Print Assumptions C05_convert_preserves_value.

Theorem C05_identity : forall G e to e' u, convert G e to = UOk (e', false, u) -> e' = e.
Proof. exact convert_identity. Qed.
Print Assumptions C05_identity.

Theorem C05_errors :
  (forall G e to k, convert G e to = UErr k ->
     In k [EUnexpectedMath; EInvalidUnits; EMustBeDimensionless; EMustBeNumber; EBoolean; EConversion]) /\
  (forall G id q u n t, lookup_unit G u = Some n -> conv (expand G n) (expand G t) = None ->
     convert G (EQty id q u) (Some t) = UErr EConversion) /\
  (forall G v u iv n t, nthZ (vtab G) v = Some (u, iv) -> lookup_unit G u = Some n ->
     conv (expand G n) (expand G t) = None -> convert G (EVar v) (Some t) = UErr EConversion) /\
  (forall G r a b t, syn_dimless t = false -> convert G (ERel r a b) (Some t) = UErr EBoolean) /\
  (forall G k q t, syn_dimless t = false -> convert G (ENum k q) (Some t) = UErr EMustBeDimensionless) /\
  (forall G f l t, (f =? fn_abs)%Z || (f =? fn_floor)%Z || (f =? fn_ceiling)%Z = false -> syn_dimless t = false ->
     convert G (EFn f l) (Some t) = UErr EMustBeDimensionless) /\
  (forall G f x to k, (f =? fn_abs)%Z || (f =? fn_floor)%Z || (f =? fn_ceiling)%Z = false ->
     not_dimless_target to = false -> convert G x (Some []) = UErr k -> convert G (EFn f [x]) to = UErr k) /\
  (forall G b x to k, convert G x (Some []) = UErr k -> convert G (EPow b x) to = UErr k) /\
  (forall G b x to x' cx ux, convert G x (Some []) = UOk (x', cx, ux) -> expo_value x' = XSym ->
     convert G (EPow b x) to = UErr EMustBeNumber) /\
  (forall G y t n to, (1 <? n)%Z = true -> convert G (EDeriv (EVar y) (EVar t) n) to = UErr EUnexpectedMath).
Proof. exact convert_errors. Qed.
Print Assumptions C05_errors.

Theorem C05_floor_refuted :
  exists G e t e' cf,
    homog e = false /\
    convert G e (Some t) = UOk (e', true, t) /\
    e = EFn fn_floor [EVar 0] /\ e' = EFn fn_floor [EMul [EQty (-1) cf (-3); EVar 0]] /\
    cf = (1 # 1000)%Q /\
    Qeq_bool (inject_Z (Qfloor (cf * 1500))) (inject_Z (Qfloor 1500) * cf) = false.
Proof. exact convert_floor_refuted. Qed.
Print Assumptions C05_floor_refuted.

(* Clause (b): the converted expression passes strict unit inference.
   The model writes a conversion quantity as EQty (-d) q (-3), "unit to/from, not tabulated"; inference needs
   that unit, so the statement is about a decoration e'' of the output (erase e'' = e'): each conversion quantity
   gets a fresh index into the extended unit table utab G ++ D holding its unit to/from; Th is any further
   extension.  Guard [strictb G e]: real-valued (relations / And / Or only as piecewise conditions); no floor /
   ceiling; every function unary (strict inference has no rule for Max / Min / Mod: C05_result_infers_refuted);
   every exponent a number literal or a quantity whose unit has no dimension and scale 1, whatever its name
   (compound exponents and exponents in scaled units such as percent are tested by the oracle only).
   No condition on the environment any more: since the radian repair "equivalent" is [sem_equiv] = same
   dimension part and same scale, a dimension-less base unit such as radian is ignored.
   Under the guard strict inference NEVER raises a UnitError on the result and any unit it returns is equivalent
   to the returned units; what remains possible is a Python exception from magnitude arithmetic (known finding
   result-fails-strict-inference-magnitude) or a case the model declines: [no_python_exception]. *)
Theorem C05_result_infers_partial : forall G e to e' c u,
  convert G e to = UOk (e', c, u) -> strictb G e = true ->
  exists D e'', erase (tabN G) e'' = e' /\
    forall Th, match infer (ext G (D ++ Th)) e'' with
               | UOk r => sem_equiv G (fst r) u = true
               | UErr _ => False
               | UOther | UUnsupp => True
               end.
Proof. exact result_infers_partial. Qed.
Print Assumptions C05_result_infers_partial.

Theorem C05_result_infers : forall G e to e' c u,
  convert G e to = UOk (e', c, u) -> strictb G e = true ->
  exists D e'', erase (tabN G) e'' = e' /\
    forall Th, no_python_exception (ext G (D ++ Th)) e'' = true ->
      exists r, infer (ext G (D ++ Th)) e'' = UOk r /\ sem_equiv G (fst r) u = true.
Proof. exact result_infers. Qed.
Print Assumptions C05_result_infers.

(* the two counter-examples repaired in /repo (radian next to dimensionless; exponent in a named unit equal to
   dimensionless) are now inside the theorem: *)
Theorem C05_result_infers_repaired :
  (let e := EAdd [EVar 0; EVar 1] in
   convert G_rad e None = UOk (e, false, [(0%Z, 1%Q)]) /\ strictb G_rad e = true /\
   infer G_rad e = UOk ([(0%Z, 1%Q)], MVar)) /\
  (let e := EPow (EVar 0) (EQty 0 2 1) in
   convert G_one e None = UOk (e, false, upow [(1%Z, 1%Q)] 2) /\ strictb G_one e = true /\
   exists r, infer G_one e = UOk r /\ sem_equiv G_one (fst r) (upow [(1%Z, 1%Q)] 2) = true).
Proof. exact result_infers_repaired. Qed.
Print Assumptions C05_result_infers_repaired.

(* still outside the guard and really rejected: Max of two arguments (outside the operators C05 quantifies over) *)
Theorem C05_result_infers_refuted :
  let e := EFn fn_max [EQty 0 1 0; EQty 1 2 0] in
  convert G_one e None = UOk (e, false, []) /\ homog e = true /\ strictb G_one e = false /\
  infer G_one e = UErr EUnexpectedMath.
Proof. exact result_infers_refuted. Qed.
Print Assumptions C05_result_infers_refuted.

(* the hypotheses of C05_result_infers are satisfiable with a real conversion inside a sum inside a product:
   (a[mV] + b[volt]) * a  becomes  (a + _1000[mV/volt] * b) * a  in mV * mV, and strict inference returns mV * mV *)
Example C05_result_infers_example :
  strictb G_x e_x = true /\
  convert G_x e_x None = UOk (e_x', true, u_x) /\
  erase (tabN G_x) e_x'' = e_x' /\ no_python_exception (ext G_x D_x) e_x'' = true /\
  exists r, infer (ext G_x D_x) e_x'' = UOk r /\ sem_equiv G_x (fst r) u_x = true.
Proof. exact result_infers_example. Qed.

(* the guard is satisfiable and a conversion really happens:  Abs(a[mV]) + a  to volt *)
Example C05_homog_example :
  homog (EAdd [EFn fn_abs [EVar 0]; EVar 0]) = true /\
  exists e' u, convert G_f (EAdd [EFn fn_abs [EVar 0]; EVar 0]) (Some [(1%Z, 1%Q)]) = UOk (e', true, u).
Proof. split; [reflexivity | eexists; eexists; vm_compute; reflexivity]. Qed.
