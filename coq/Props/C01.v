(* C01 -- loading a CellML document preserves its mathematics (flattening fidelity).
   Statements only (proofs: Proofs/C01P.v, Proofs/LoaderP.v).  Quantified over ALL post-validation documents the
   loader model accepts (Model/Loader.v: any component tree, any routing through interfaces, any local names, any
   pair of compatible units on the ends of a connection, ODEs, derivatives on right-hand sides, constants), ALL
   interpretations of the function symbols / powers / constants, ALL SI valuations.

   Reading.  The flat equations are statements about physical quantities: a component equation is copied with every
   identifier replaced by the end of its connected_variable_mapping chain -- also across unit-changing connections --
   so it holds in the SI reading (variable = its SI value, number = value x scale of its cellml:units), which is what
   units.convert_expression_recursively(eq, None) turns into a numerically correct equation (C05).  Conversion
   equations and constants are stated in their NUMERIC reading (value in the variable's own unit).

   Proved in full: C01_rep_chain(_invariant), C01_conversion_equation_SI, C01_flatten_sound, C01_flatten_complete:
   the document and the flat model have the same solutions on the document's variables.
   Not proved (tested by tools/props/c01.py only): the composition with C05 (C01_numeric_after_fix: the numeric
   reading after units.convert_expression_recursively), which is where the known finding F14 lives. *)
From Coq Require Import List ZArith QArith Bool Reals Qreals.
From Verif Require Import Sexp UnitAlg UnitAlgP Expr Eval Loader LoaderP C17P C01P.
Import ListNotations.

(* invariant of the connection work-list, step by step (init = assigned_to before the first connection):
   mapping entries (t, s), newest first: t was unassigned and is not mapped by an older entry, s <> t was assigned
   at the start or is the target of an OLDER entry (sources are assigned before targets, so the chain is acyclic);
   mapped variables are assigned; assigned variables are mapped or were assigned at the start *)
Theorem C01_rep_chain_invariant : forall vars init st c st',
  conn_inv init st -> cstep vars st c = ODone st' -> (snd c < length init)%nat -> conn_inv init st'.
Proof. exact conn_inv_step. Qed.
Print Assumptions C01_rep_chain_invariant.

(* for every loaded document: the final mapping satisfies the chain condition, its entries are document
   connections (in the direction the loader resolved), and following the chain from any variable terminates within
   the fuel the model gives it, at a variable that is not a key -- `while str(out) in mapping` terminates *)
Theorem C01_rep_chain : forall d f, load d = OK f ->
  let m := rev (f_map f) in
  chain_ok (init_asg 0 (f_vars f)) m /\
  (forall t s, In (t, s) (f_map f) -> In (s, t) (st_work d)) /\
  (forall i, exists r, rep (length m) m i = Some r /\ lookup m r = None).
Proof. exact rep_chain. Qed.
Print Assumptions C01_rep_chain.

(* the inserted equation  target = source * cf  (numeric values nt, na in the units ut, us of the two ends,
   cf = conversion factor from us to ut) holds iff both ends have the same SI value *)
Theorem C01_conversion_equation_SI : forall us ut cf (nt na : R), conv us ut = Some cf ->
  (nt = na * scaleR cf <-> nt * scaleR ut = na * scaleR us)%R.
Proof. exact conversion_equation_SI. Qed.
Print Assumptions C01_conversion_equation_SI.

(* every SI valuation (nu: value of each variable, de: value of each derivative atom) that satisfies the DOCUMENT --
   each component equation over the component's own variables in SI reading, both ends of every connection one
   physical quantity, every initial value of a non-state variable -- satisfies every equation of the flat model *)
Theorem C01_flatten_sound : forall fsem psem csem nu de d f,
  load d = OK f -> doc_sat fsem psem csem nu de d -> flat_sat fsem psem csem nu de d f.
Proof. exact flatten_sound. Qed.
Print Assumptions C01_flatten_sound.

(* Conversely, every solution (nu, de) of the flat system IS a solution of the document once each variable is read
   through its representative: nu' v = nu (rep_of m v), de' likewise (m = connected_variable_mapping).  nu' satisfies
   every component equation over the component's own variables, makes both ends of every connection one physical
   quantity (derivative atoms included) and gives every non-state its initial value; and nu' differs from nu only on
   the variables that were substituted away: nu' v = nu (assigned_to v) for every variable -- so nu' v = nu v for
   every source and for every target of a unit-changing connection (its conversion equation t = rep(t) * cf forces
   the SI value of rep(t) on it, C01_conversion_equation_SI), and rep_of is the identity on every variable that is
   not a target.  Together with C01_flatten_sound: the two systems have the same solutions on the document's variables.
   init_no_in is not a guard on the code but the input domain of the model: the schema (cellml_1_0.rng, rule
   3.4.3.8) refuses an initial value on a variable with an `in` interface before the loader runs. *)
Theorem C01_flatten_complete : forall fsem psem csem d f nu de, load d = OK f -> init_no_in f ->
  flat_sat fsem psem csem nu de d f ->
  let m := rev (f_map f) in
  doc_sat fsem psem csem (fun i => nu (rep_of m i)) (fun i j => de (rep_of m i) (rep_of m j)) d /\
  (forall v a, nth v (f_asg f) None = Some a -> nu (rep_of m v) = nu a) /\
  (forall i, lookup m i = None -> rep_of m i = i).
Proof. exact flatten_complete. Qed.
Print Assumptions C01_flatten_complete.
