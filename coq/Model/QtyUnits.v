(* C18: the units carried by quantities.  [EQty id q u]: u >= 0 indexes the model's unit table (a Unit object of the
   model's store), u = -1 stands for a bare string, u = -2 for None.  No proofs here. *)
From Coq Require Import List ZArith QArith Bool.
From Verif Require Import Sexp UnitAlg Expr ModelSM ConvertVar.
Import ListNotations.
Open Scope Z_scope.

(* every quantity of e carries a unit of a table with N entries *)
Fixpoint qty_ok (N : Z) (e : expr) : bool :=
  let fix all (l : list expr) : bool := match l with [] => true | x :: r => qty_ok N x && all r end in
  match e with
  | EQty _ _ u => (0 <=? u) && (u <? N)
  | EAdd l | EMul l | EFn _ l | EBool _ l => all l
  | EPow b x => qty_ok N b && qty_ok N x
  | EDeriv y t _ => qty_ok N y && qty_ok N t
  | ERel _ a b => qty_ok N a && qty_ok N b
  | EPw l => (fix allp (l : list (expr * expr)) : bool :=
                match l with [] => true | (x, c) :: r => qty_ok N x && qty_ok N c && allp r end) l
  | _ => true
  end.

Definition all_ok (N : Z) (l : list ceq) : bool := forallb (fun q => qty_ok N (q_rhs q)) l.
Definition units_invariant (s : cstate) : bool := all_ok (Z.of_nat (length (cunits s))) (ceqs s).

(* _singularity_fixes._float_dummies as it is in the code: every Float becomes a Quantity whose units is the STRING
   'dimensionless' (finding F12; repaired in /repo by re-creating such quantities from the model's store) *)
Fixpoint float_dummies_as_coded (e : expr) : expr :=
  let fix go (l : list expr) : list expr := match l with [] => [] | x :: r => float_dummies_as_coded x :: go r end in
  match e with
  | ENum 2 q => EQty 0 q (-1)
  | EAdd l => EAdd (go l)
  | EMul l => EMul (go l)
  | EPow b x => EPow (float_dummies_as_coded b) (float_dummies_as_coded x)
  | EFn f l => EFn f (go l)
  | _ => e
  end.

(* the repair applied when the fixed equation is put back into the model: string units are looked up in the store *)
Fixpoint restore_units (dimensionless_idx : Z) (e : expr) : expr :=
  let fix go (l : list expr) : list expr := match l with [] => [] | x :: r => restore_units dimensionless_idx x :: go r end in
  match e with
  | EQty id q (-1) => EQty id q dimensionless_idx
  | EAdd l => EAdd (go l)
  | EMul l => EMul (go l)
  | EPow b x => EPow (restore_units dimensionless_idx b) (restore_units dimensionless_idx x)
  | EFn f l => EFn f (go l)
  | ERel r a b => ERel r (restore_units dimensionless_idx a) (restore_units dimensionless_idx b)
  | EBool op l => EBool op (go l)
  | EPw l => EPw ((fix gop (l : list (expr * expr)) : list (expr * expr) :=
                     match l with [] => [] | (x, c) :: r => (restore_units dimensionless_idx x, restore_units dimensionless_idx c) :: gop r end) l)
  | _ => e
  end.
