(* The document -> flat-model pipeline of cellmlmanip.parser.Parser.parse AFTER schema validation
   (DESIGN.md 3.4, 5 C01 / C15 / C17).  Executable, total, no proofs inside.

   Names (component, variable, unit, cmeta id) are interned by the harness as integers; the qualified
   name `component$variable` is the pair (fc, fn).  The <units> part is abstracted: the document carries
   the table  unit name -> exponent vector  computed by Model/UnitsLoader.v (C03) and the error code of
   that loader if it fails.  Everything else follows parser.py step by step:

     parse                 load
     _add_components       add_components   (duplicate component, unknown unit, duplicate variable / cmeta id, reaction)
     _add_relationships    add_relationships (only `encapsulation` groups; parent bookkeeping; KeyError on unknown names;
                                              no component may be its own ancestor: fix: commit 3781b42)
     _determine_connection_direction   direction  (sibling test = equal parents, None = None included; siblings need an
                                                   (out, in) pair of public interfaces, otherwise one component must be
                                                   the parent of the other: the code after the fix: commit 9e0bca6)
     _add_connections      directions + connect   (rotating deque with unchanged_loop_count)
     _add_maths            add_maths        (identifier -> end of the connected_variable_mapping chain)
     transform_constants   transform_constants (insertion order: the model of the code AFTER the F11 fix)

   Not modelled (stated once): the `siblings` / `encapsulated` sets of _Component are write-only apart from
   the duplicate test of add_encapsulated, which coincides with "the child already has this parent";
   RDF; a left-hand side that is the derivative of a non-variable. *)
From Coq Require Import List ZArith QArith Bool Lia.
From Verif Require Import Sexp UnitAlg Expr.
Import ListNotations.
Open Scope Z_scope.

(* ---- results ---------------------------------------------------------------------------------- *)
Inductive err :=
| EUnitsInComp | EUnitsFail (code : Z) | EDupComponent | EUnknownUnit | EDupVariable | EDupCmeta | EReaction
| ERelCount | EKeyComp | EParentSet | ECycle | EMissingComp | EMissingVar | ENoDirection
| ETargetAssigned | EConnStuck | EDim | ECmeta | EDefinedTwice
| EUndefinedIdent | EUnknownCnUnit | EHigherOrder | EBadLhs | EStateNoInit.

Inductive result (T : Type) := OK (x : T) | Error (e : err) | OutOfFuel.
Arguments OK {T} x. Arguments Error {T} e. Arguments OutOfFuel {T}.

Definition bind {S T} (r : result S) (f : S -> result T) : result T :=
  match r with OK x => f x | Error e => Error e | OutOfFuel => OutOfFuel end.

Fixpoint foldM {S E} (step : S -> E -> result S) (l : list E) (s : S) : result S :=
  match l with
  | [] => OK s
  | x :: r => bind (step s x) (foldM step r)
  end.

(* ---- documents -------------------------------------------------------------------------------- *)
Inductive iface := INone | IIn | IOut.
Definition is_in (i : iface) : bool := match i with IIn => true | _ => false end.
Definition is_out (i : iface) : bool := match i with IOut => true | _ => false end.

Record dvar := mkDVar { v_name : Z; v_units : Z; v_init : option Q; v_pub : iface; v_priv : iface; v_cmeta : option Z }.
Record ceq := mkCeq { q_lhs : expr; q_rhs : expr }.     (* EVar n = the identifier n of the component *)
Record comp := mkComp { c_name : Z; c_vars : list dvar; c_maths : list (list ceq);
                        c_units_inside : bool; c_reaction : bool }.
Inductive cref := CRef (c : Z) (ch : list cref).
Record group := mkGroup { g_rels : list Z (* 0 = encapsulation *); g_refs : list cref }.
Record conn := mkConn { k_c1 : Z; k_c2 : Z; k_maps : list (Z * Z) }.
Record doc := mkDoc { d_model_cmeta : option Z; d_units_err : option Z; d_units : list (Z * uvec);
                      d_comps : list comp; d_groups : list group; d_conns : list conn }.

(* ---- small list library ----------------------------------------------------------------------- *)
Fixpoint upd {T} (l : list T) (i : nat) (x : T) : list T :=
  match l, i with
  | [], _ => []
  | _ :: r, O => x :: r
  | y :: r, S j => y :: upd r j x
  end.

Fixpoint find_index {T} (f : T -> bool) (l : list T) : option nat :=
  match l with
  | [] => None
  | x :: r => if f x then Some O else option_map S (find_index f r)
  end.

Definition memZ (x : Z) (l : list Z) : bool := existsb (Z.eqb x) l.
Definition optZ_eqb (a b : option Z) : bool :=
  match a, b with Some x, Some y => Z.eqb x y | None, None => true | _, _ => false end.

(* ---- flat variables --------------------------------------------------------------------------- *)
Record fv := mkFv { fc : Z; fn : Z; fu : Z; fuv : uvec; finit : option Q; fpub : iface; fpriv : iface; fcm : option Z }.

Definition unit_lookup (tbl : list (Z * uvec)) (u : Z) : option uvec :=
  option_map snd (find (fun p => Z.eqb (fst p) u) tbl).
Definition is_var (c n : Z) (v : fv) : bool := Z.eqb (fc v) c && Z.eqb (fn v) n.
Definition vidx (vars : list fv) (c n : Z) : option nat := find_index (is_var c n) vars.
Definition cm_used (mc : option Z) (vars : list fv) (id : Z) : bool :=
  optZ_eqb mc (Some id) || existsb (fun v => optZ_eqb (fcm v) (Some id)) vars.

(* Model.add_variable as called from _add_variables: get_unit (KeyError), name clash, cmeta id clash *)
Definition add_var (d : doc) (c : Z) (vars : list fv) (v : dvar) : result (list fv) :=
  match unit_lookup (d_units d) (v_units v) with
  | None => Error EUnknownUnit
  | Some uv =>
      match vidx vars c (v_name v) with
      | Some _ => Error EDupVariable
      | None =>
          if match v_cmeta v with Some id => cm_used (d_model_cmeta d) vars id | None => false end
          then Error EDupCmeta
          else OK (vars ++ [mkFv c (v_name v) (v_units v) uv (v_init v) (v_pub v) (v_priv v) (v_cmeta v)])
      end
  end.

Definition add_comp (d : doc) (st : list Z * list fv) (c : comp) : result (list Z * list fv) :=
  if memZ (c_name c) (fst st) then Error EDupComponent else
  bind (foldM (add_var d (c_name c)) (c_vars c) (snd st)) (fun vars =>
  if c_reaction c then Error EReaction else OK (fst st ++ [c_name c], vars)).

Definition add_components (d : doc) : result (list Z * list fv) := foldM (add_comp d) (d_comps d) ([], []).

(* ---- encapsulation ---------------------------------------------------------------------------- *)
Definition cidx (names : list Z) (c : Z) : option nat := find_index (Z.eqb c) names.

(* (parent, child) pairs in the order _handle_component_ref visits them *)
Fixpoint edges (p : option Z) (r : cref) : list (option Z * Z) :=
  match r with CRef c ch => (p, c) :: flat_map (edges (Some c)) ch end.

Definition edge_step (names : list Z) (ps : list (option Z)) (e : option Z * Z) : result (list (option Z)) :=
  match fst e with
  | None => OK ps
  | Some p =>
      match cidx names p with
      | None => Error EKeyComp
      | Some _ =>
          match cidx names (snd e) with
          | None => Error EKeyComp
          | Some ci => match nth ci ps None with
                       | Some _ => Error EParentSet
                       | None => OK (upd ps ci (Some p))
                       end
          end
      end
  end.

Definition group_edges (g : group) : list (option Z * Z) := flat_map (edges None) (g_refs g).

Definition group_step (names : list Z) (ps : list (option Z)) (g : group) : result (list (option Z)) :=
  match g_rels g with
  | [r] => if Z.eqb r 0 then foldM (edge_step names) (group_edges g) ps else OK ps
  | _ => Error ERelCount
  end.

Definition read_groups (names : list Z) (gs : list group) : result (list (option Z)) :=
  foldM (group_step names) gs (map (fun _ => None) names).

(* the encapsulation hierarchy must be a forest (fix: commit 3781b42): walk the parent chain of every component,
   `seen` = the names met so far; every step adds a new component name, so #components steps suffice *)
Fixpoint walk (names : list Z) (ps : list (option Z)) (fuel : nat) (seen : list Z) (p : option Z) : result unit :=
  match p with
  | None => OK tt
  | Some q =>
      if memZ q seen then Error ECycle else
      match cidx names q with
      | None => Error EKeyComp
      | Some i => match fuel with
                  | O => OutOfFuel
                  | S f => walk names ps f (q :: seen) (nth i ps None)
                  end
      end
  end.

Definition parent_of (names : list Z) (ps : list (option Z)) (c : Z) : option Z :=
  match cidx names c with Some i => nth i ps None | None => None end.

Definition check_forest (names : list Z) (ps : list (option Z)) : result unit :=
  foldM (fun _ nm => walk names ps (length names) [nm] (parent_of names ps nm)) names tt.

Definition add_relationships (names : list Z) (gs : list group) : result (list (option Z)) :=
  bind (read_groups names gs) (fun ps => bind (check_forest names ps) (fun _ => OK ps)).

(* ---- connection direction --------------------------------------------------------------------- *)
Definition pub_of (vars : list fv) (i : nat) : iface := match nth_error vars i with Some v => fpub v | None => INone end.
Definition priv_of (vars : list fv) (i : nat) : iface := match nth_error vars i with Some v => fpriv v | None => INone end.

(* (source, target) *)
Definition direction (vars : list fv) (names : list Z) (ps : list (option Z)) (c1 v1 c2 v2 : Z) : result (nat * nat) :=
  match vidx vars c1 v1 with
  | None => Error EMissingVar
  | Some i1 =>
      match vidx vars c2 v2 with
      | None => Error EMissingVar
      | Some i2 =>
          if optZ_eqb (parent_of names ps c1) (parent_of names ps c2)
          then (if is_out (pub_of vars i1) && is_in (pub_of vars i2) then OK (i1, i2)
                else if is_out (pub_of vars i2) && is_in (pub_of vars i1) then OK (i2, i1)
                else Error ENoDirection)
          else
            match (if optZ_eqb (Some c1) (parent_of names ps c2) then Some (i1, i2)
                   else if optZ_eqb (Some c2) (parent_of names ps c1) then Some (i2, i1) else None) with
            | None => Error ENoDirection
            | Some pc =>
                let pv := fst pc in let cv := snd pc in
                if is_in (pub_of vars cv) && is_out (priv_of vars pv) then OK (pv, cv)
                else if is_out (pub_of vars cv) && is_in (priv_of vars pv) then OK (cv, pv)
                else Error ENoDirection
            end
      end
  end.

Definition conn_step (vars : list fv) (names : list Z) (ps : list (option Z)) (acc : list (nat * nat)) (k : conn)
  : result (list (nat * nat)) :=
  match cidx names (k_c1 k) with
  | None => Error EMissingComp
  | Some _ =>
      match cidx names (k_c2 k) with
      | None => Error EMissingComp
      | Some _ =>
          foldM (fun a m => bind (direction vars names ps (k_c1 k) (fst m) (k_c2 k) (snd m)) (fun st => OK (a ++ [st])))
                (k_maps k) acc
      end
  end.

Definition directions (vars : list fv) (names : list Z) (ps : list (option Z)) (ks : list conn) : result (list (nat * nat)) :=
  foldM (conn_step vars names ps) ks [].

(* ---- flat equations --------------------------------------------------------------------------- *)
Inductive feq :=
| FMath (lhs rhs : expr)                       (* a component equation, EVar i = flat variable i *)
| FConv (t a : nat) (cf : uvec)                (* t = a * Quantity(cf, unit t / unit of the source) *)
| FConst (v : nat) (q : Q).                    (* v = Quantity(q, unit v) *)

Inductive lhsk := KVar (v : Z) | KDer (y t : Z) | KHigh | KBad.
Definition lhs_kind (e : expr) : lhsk :=
  match e with
  | EVar v => KVar v
  | EDeriv (EVar y) (EVar t) n => if Z.eqb n 1 then KDer y t else KHigh
  | EDeriv _ _ _ => KHigh
  | _ => KBad
  end.
Definition feq_kind (q : feq) : lhsk :=
  match q with
  | FMath l _ => lhs_kind l
  | FConv t _ _ => KVar (Z.of_nat t)
  | FConst v _ => KVar (Z.of_nat v)
  end.
(* the variable an equation defines (key of _var_definition_map / _ode_definition_map) *)
Definition feq_var (q : feq) : option Z :=
  match feq_kind q with KVar v => Some v | KDer y _ => Some y | _ => None end.
Definition defined (eqs : list feq) (v : Z) : bool := existsb (fun q => optZ_eqb (feq_var q) (Some v)) eqs.
Definition is_ode_of (v : Z) (q : feq) : bool := match feq_kind q with KDer y _ => Z.eqb y v | _ => false end.

(* Model.add_equation; equations are kept newest first *)
Definition add_eq (eqs : list feq) (q : feq) : result (list feq) :=
  match feq_kind q with
  | KHigh => Error EHigherOrder
  | KBad => Error EBadLhs
  | KVar v | KDer v _ => if defined eqs v then Error EDefinedTwice else OK (q :: eqs)
  end.

(* ---- the connection work-list ----------------------------------------------------------------- *)
Record cstate := mkCs { asg : list (option nat); cmt : list (option Z);
                        cmap : list (nat * nat)   (* (target, source), newest first *);
                        ceqs : list feq           (* newest first *) }.

Definition has_in (v : fv) : bool := is_in (fpub v) || is_in (fpriv v).
Fixpoint init_asg (k : nat) (vars : list fv) : list (option nat) :=
  match vars with
  | [] => []
  | v :: r => (if has_in v then None else Some k) :: init_asg (S k) r
  end.
Definition init_cs (vars : list fv) : cstate := mkCs (init_asg 0 vars) (map fcm vars) [] [].

Definition uv_of (vars : list fv) (i : nat) : uvec := match nth_error vars i with Some v => fuv v | None => uone end.

Inductive outcome := OErr (e : err) | ODefer | ODone (s : cstate).

(* Model.transfer_cmeta_id(source=target, target=source), only reached when the factor is 1 *)
Definition cm_step (cm : list (option Z)) (s t : nat) : option (list (option Z)) :=
  match nth t cm None with
  | None => Some cm
  | Some id => match nth s cm None with
               | Some _ => None
               | None => Some (upd (upd cm s (Some id)) t None)
               end
  end.

(* one pass of the body of the `while connections_to_process` loop on the connection (s, t) *)
Definition cstep (vars : list fv) (st : cstate) (c : nat * nat) : outcome :=
  let s := fst c in let t := snd c in
  match nth t (asg st) None with
  | Some _ => OErr ETargetAssigned
  | None =>
      match nth s (asg st) None with
      | None => ODefer
      | Some a =>
          match conv (uv_of vars s) (uv_of vars t) with
          | None => OErr EDim
          | Some cf =>
              if is_one cf then
                match cm_step (cmt st) s t with
                | None => OErr ECmeta
                | Some cm' => ODone (mkCs (upd (asg st) t (Some a)) cm' ((t, s) :: cmap st) (ceqs st))
                end
              else
                match add_eq (ceqs st) (FConv t a cf) with
                | OK eqs' => ODone (mkCs (upd (asg st) t (Some t)) (cmt st) ((t, s) :: cmap st) eqs')
                | Error e => OErr e
                | OutOfFuel => OErr EDefinedTwice
                end
          end
      end
  end.

Fixpoint connect (vars : list fv) (fuel : nat) (q : list (nat * nat)) (cnt : nat) (st : cstate) : result cstate :=
  match q with
  | [] => OK st
  | c :: r =>
      match fuel with
      | O => OutOfFuel
      | S f =>
          match cstep vars st c with
          | OErr e => Error e
          | ODefer => if Nat.ltb (length (r ++ [c])) (S cnt) then Error EConnStuck
                      else connect vars f (r ++ [c]) (S cnt) st
          | ODone st' => connect vars f r 0 st'
          end
      end
  end.

Definition conn_fuel (q : list (nat * nat)) : nat := (S (length q) * S (length q))%nat.

(* ---- the end of the connected_variable_mapping chain ------------------------------------------- *)
Definition lookup (m : list (nat * nat)) (i : nat) : option nat :=
  option_map snd (find (fun p => Nat.eqb (fst p) i) m).

Fixpoint rep (fuel : nat) (m : list (nat * nat)) (i : nat) : option nat :=
  match lookup m i with
  | None => Some i
  | Some s => match fuel with O => None | S f => rep f m s end
  end.

(* ---- maths ------------------------------------------------------------------------------------ *)
Inductive leaf := LId (n : Z) | LUnit (u : Z) | LDeg.

(* identifiers and number units in document order (a <bvar> precedes the differentiated variable); a <degree>
   inside the <bvar> makes the transpiler raise TypeError when the derivative is built (the degree is a Quantity) *)
Fixpoint leaves (e : expr) : list leaf :=
  match e with
  | ENum _ _ | EConst _ | ETrue | EFalse => []
  | EQty _ _ u => [LUnit u]
  | EVar v => [LId v]
  | EAdd l | EMul l | EFn _ l | EBool _ l => flat_map leaves l
  | EPow b x => leaves b ++ leaves x
  | EDeriv y t n => leaves t ++ leaves y ++ (if Z.eqb n 1 then [] else [LDeg])
  | ERel _ a b => leaves a ++ leaves b
  | EPw l => flat_map (fun ec => leaves (fst ec) ++ leaves (snd ec)) l
  end.

Fixpoint ren (f : Z -> Z) (e : expr) : expr :=
  match e with
  | EVar v => EVar (f v)
  | EAdd l => EAdd (map (ren f) l)
  | EMul l => EMul (map (ren f) l)
  | EPow b x => EPow (ren f b) (ren f x)
  | EFn g l => EFn g (map (ren f) l)
  | EDeriv y t n => EDeriv (ren f y) (ren f t) n
  | ERel r a b => ERel r (ren f a) (ren f b)
  | EBool op l => EBool op (map (ren f) l)
  | EPw l => EPw (map (fun ec => (ren f (fst ec), ren f (snd ec))) l)
  | _ => e
  end.

Definition resolve (vars : list fv) (m : list (nat * nat)) (c n : Z) : option nat :=
  match vidx vars c n with Some i => rep (length m) m i | None => None end.

(* symbol_generator / number_generator *)
Definition check_leaf (d : doc) (vars : list fv) (m : list (nat * nat)) (c : Z) (_ : unit) (x : leaf) : result unit :=
  match x with
  | LId n => match vidx vars c n with
             | None => Error EUndefinedIdent
             | Some i => match rep (length m) m i with Some _ => OK tt | None => OutOfFuel end
             end
  | LUnit u => match unit_lookup (d_units d) u with Some _ => OK tt | None => Error EUnknownCnUnit end
  | LDeg => Error EHigherOrder
  end.

Definition eq_leaves (q : ceq) : list leaf := leaves (q_lhs q) ++ leaves (q_rhs q).

Definition rename_of (vars : list fv) (m : list (nat * nat)) (c : Z) (n : Z) : Z :=
  match resolve vars m c n with Some i => Z.of_nat i | None => -1 end.

Definition flat_eq (vars : list fv) (m : list (nat * nat)) (c : Z) (q : ceq) : feq :=
  FMath (ren (rename_of vars m c) (q_lhs q)) (ren (rename_of vars m c) (q_rhs q)).

(* one <math> element: transpile everything, then add the equations one by one *)
Definition math_step (d : doc) (vars : list fv) (m : list (nat * nat)) (c : Z) (eqs : list feq) (ml : list ceq)
  : result (list feq) :=
  bind (foldM (check_leaf d vars m c) (flat_map eq_leaves ml) tt) (fun _ =>
  foldM add_eq (map (flat_eq vars m c) ml) eqs).

Definition comp_maths (d : doc) (vars : list fv) (m : list (nat * nat)) (eqs : list feq) (c : comp) : result (list feq) :=
  foldM (math_step d vars m (c_name c)) (c_maths c) eqs.

Definition add_maths (d : doc) (vars : list fv) (m : list (nat * nat)) (eqs : list feq) : result (list feq) :=
  foldM (comp_maths d vars m) (d_comps d) eqs.

(* ---- transform_constants (after the F11 fix: insertion order) --------------------------------- *)
Definition is_state (eqs : list feq) (i : nat) : bool := existsb (is_ode_of (Z.of_nat i)) eqs.

Definition tc_step (states : list bool) (st : list feq * list (option Q)) (i : nat) : result (list feq * list (option Q)) :=
  match nth i (snd st) None with
  | None => if nth i states false then Error EStateNoInit else OK st
  | Some q => if nth i states false then OK st
              else bind (add_eq (fst st) (FConst i q)) (fun eqs => OK (eqs, upd (snd st) i None))
  end.

Definition transform_constants (vars : list fv) (eqs : list feq) : result (list feq * list (option Q)) :=
  foldM (tc_step (map (is_state eqs) (seq 0 (length vars)))) (seq 0 (length vars)) (eqs, map finit vars).

(* ---- the flat model --------------------------------------------------------------------------- *)
Record flat := mkFlat { f_vars : list fv;                 (* order_added = position *)
                        f_cmeta : list (option Z);        (* cmeta ids after the transfers *)
                        f_init : list (option Q);         (* initial values after transform_constants *)
                        f_asg : list (option nat);        (* assigned_to *)
                        f_map : list (nat * nat);         (* connected_variable_mapping, oldest first *)
                        f_eqs : list feq }.               (* Model.equations, in order *)

Definition load (d : doc) : result flat :=
  if existsb c_units_inside (d_comps d) then Error EUnitsInComp else
  match d_units_err d with
  | Some code => Error (EUnitsFail code)
  | None =>
      bind (add_components d) (fun nv =>
      let names := fst nv in let vars := snd nv in
      bind (add_relationships names (d_groups d)) (fun ps =>
      bind (directions vars names ps (d_conns d)) (fun work =>
      bind (connect vars (conn_fuel work) work 0 (init_cs vars)) (fun cs =>
      bind (add_maths d vars (cmap cs) (ceqs cs)) (fun eqs =>
      bind (transform_constants vars eqs) (fun ei =>
      OK (mkFlat vars (cmt cs) (snd ei) (asg cs) (rev (cmap cs)) (rev (fst ei)))))))))
  end.
