(* C14 -- the path of a number from the document to the generated code, over the reals with Flocq.

   A double is an element of generic_format radix2 (FLT_exp (-1074) 53) (finite doubles incl. subnormals; the
   overflow threshold is not part of the format: the harness only uses finite values).
   Stages (what the code does, in order):
     parse_plain      float(text)                        one rounding of the exact decimal value
     parse_enotation  float('%se%d' % (mantissa, exp))   the code CONCATENATES the text and rounds once; the text
                                                         is read through the generated format (Precision_gen.v)
     quantity_store   Quantity(value, units)._value      identity
     to_float         float(quantity) / float(Float)     rounding to double
     evalf_stage      d.evalf(FLOAT_PRECISION)           sympy: p = dps_to_prec(dps); Quantity._eval_evalf(p+4)
                                                         = Float(value, p+4)  [p+4 read as DIGITS: dps_to_prec(p+4) bits],
                                                         then _to_mpmath(p+4) [p+4 bits], then Float._new(.., p) [p bits]
     print_stage      Printer._print_Float: str(float(x)) repr, trusted to round-trip (identity here)
   No proofs in this file. *)
From Coq Require Import ZArith QArith Reals Qreals List.
From Flocq Require Import Core.
From Verif Require Import Sexp Precision_gen.
Import ListNotations.

(* ------------------------------------------------------------------------------------------------
   mpmath.libmp.dps_to_prec(n) = max(1, int(round((int(n)+1)*3.3219280948873626)))
   Integer model: the constant is the rational 33219280948873626 / 10^16 (its decimal literal), `round` is
   round-half-even of the exact product.  Adequacy of the rational for 1..200: proved with a margin in
   C14P.dps_to_prec_margin (the exact product stays further than 10^-9 from any half-integer, while the
   double constant and the double product are within 2^-40 of the exact ones), and CHECKED exhaustively
   against mpmath by the harness (@run 140). *)
Open Scope Z_scope.

Definition log2_10_num : Z := 33219280948873626.
Definition log2_10_den : Z := 10000000000000000.

(* round-half-even of n/d, d > 0 *)
Definition round_half_even (n d : Z) : Z :=
  let q := n / d in
  let r2 := 2 * (n mod d) in
  if r2 <? d then q
  else if d <? r2 then q + 1
  else if Z.even q then q else q + 1.

Definition dps_to_prec (dps : Z) : Z :=
  Z.max 1 (round_half_even ((dps + 1) * log2_10_num) log2_10_den).

(* distance of the exact product from the nearest half-integer, as |2*(n mod d) - d| / (2d) > 10^-9 *)
Definition dps_margin_ok (dps : Z) : bool :=
  let n := (dps + 1) * log2_10_num in
  2 * log2_10_den <? Z.abs (2 * (n mod log2_10_den) - log2_10_den) * 1000000000.

(* the precisions (in bits) a value goes through in d.evalf(dps) *)
Definition evalf_precisions (dps : Z) : list Z :=
  let p := dps_to_prec dps in [dps_to_prec (p + 4); p + 4; p].

(* @run 140 run_dps_to_prec *)
Definition run_dps_to_prec (x : sexp) : sexp :=
  match x with
  | L [A 0; A n] => L [A (dps_to_prec n); sbool (dps_margin_ok n)]
  | L [A 1] => L [A FLOAT_PRECISION; L (map A (evalf_precisions FLOAT_PRECISION))]
  | _ => serr 99
  end.

(* ------------------------------------------------------------------------------------------------
   real-valued stages *)
Open Scope R_scope.

Definition double_exp : Z -> Z := FLT_exp (-1074) 53.
Definition is_double (x : R) : Prop := generic_format radix2 double_exp x.

Definition to_float (x : R) : R := round radix2 double_exp ZnearestE x.
Definition evalf_round (p : Z) (x : R) : R := round radix2 (FLX_exp p) ZnearestE x.

(* the text handed to float() for an e-notation <cn>, read through the format pieces *)
Inductive tok := TMant (m : Q) | TExpMark | TInt (e : Z) | TOther.

Definition tok_of (m : Q) (e : Z) (p : fmt_piece) : tok :=
  match p with
  | FStr => TMant m
  | FInt => TInt e
  | FLit [101%Z] => TExpMark      (* "e" *)
  | FLit [69%Z] => TExpMark       (* "E" *)
  | FLit _ => TOther
  end.

(* value denoted by the text: <plain decimal m> e <integer e>  =  m * 10^e; anything else is not a number
   this model understands *)
Definition text_value (toks : list tok) : option Q :=
  match toks with
  | [TMant m; TExpMark; TInt e] => Some (m * (inject_Z 10) ^ e)%Q
  | _ => None
  end.

Definition enotation_text_value (fmt : list fmt_piece) (m : Q) (e : Z) : option Q :=
  text_value (map (tok_of m e) fmt).

Definition parse_plain (q : Q) : R := to_float (Q2R q).

Definition parse_enotation (m : Q) (e : Z) : option R :=
  match enotation_text_value cn_enotation_format m e with
  | Some q => Some (parse_plain q)
  | None => None
  end.

(* what a two-step conversion (float(m) * 10**e, both rounded) would compute -- NOT what the code does *)
Definition parse_enotation_two_roundings (m : Q) (e : Z) : R :=
  to_float (to_float (Q2R m) * to_float (Q2R ((inject_Z 10) ^ e)%Q)).

Definition quantity_store (x : R) : R := x.

Definition evalf_stage (dps : Z) (x : R) : R :=
  fold_left (fun v p => evalf_round p v) (evalf_precisions dps) x.

Definition print_stage (x : R) : R := x.

(* document literal (already a double after parsing) -> Quantity -> float(quantity) *)
Definition pipeline_value (x : R) : R := to_float (quantity_store x).
(* ... -> graph_with_sympy_numbers (evalf) -> Printer (float(Float), str) *)
Definition pipeline_code (x : R) : R :=
  print_stage (to_float (evalf_stage FLOAT_PRECISION (quantity_store x))).
