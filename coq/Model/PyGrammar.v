(* C11 -- the target side of the printer: bracketed parse trees of Python expressions, their text,
   their tokens, Python's levelled expression grammar for this token set, and a real-valued
   evaluator over the same abstract [fsem]/[psem] as Sem/Eval.v.  No proofs inside.

   Levels (Python reference grammar, "expression" .. "primary"):
     0 expression   : disjunction ['if' disjunction 'else' expression]
     1 disjunction  : conjunction ('or' conjunction)*
     2 conjunction  : inversion ('and' inversion)*
     3 inversion    : comparison                      (the printer never emits 'not')
     4 comparison   : sum [cmp_op sum]                 (chains are never emitted)
     5 sum          : term (('+'|'-') term)*           left-associative
     6 term         : factor (('*'|'/') factor)*       left-associative
     7 factor       : '-' factor | power
     8 power        : primary ['**' factor]            right-associative
     9 primary/atom : NUMBER | NAME | NAME '(' args ')' | '(' expression ')'                         *)
From Coq Require Import List ZArith QArith Bool Reals Qreals String Ascii Arith.
From Verif Require Import Sexp Expr Eval.
Import ListNotations.

Inductive nkind := KSum | KProd | KAnd | KOr.

Inductive ptree :=
| PNum (n : Z)                         (* integer literal, n >= 0 *)
| PFloat (q : Q)                       (* float literal, q >= 0 (text: placeholder replaced by repr(float)) *)
| PVar (v : Z)                         (* v<index> *)
| PLit (s : string)                    (* math.pi, math.e, float('nan') *)
| PBoolLit (b : bool)                  (* True / False *)
| PCall (f : string) (args : list (bool * ptree))   (* the flag is unused *)
| PParen (p : ptree)
| PPow (b e : ptree)
| PNeg (p : ptree)
| PNary (k : nkind) (p0 : ptree) (r : list (bool * ptree))
      (* p0 op1 p1 op2 p2 ...; flag true = '+' / '*', false = '-' / '/' (ignored for and / or) *)
| PCmp (op : Z) (a b : ptree)          (* 0 == 1 != 2 < 3 <= 4 > 5 >= *)
| PIf (b c e : ptree).                 (* b if c else e *)

Section PtreeInd.
  Variable P : ptree -> Prop.
  Hypothesis HNum : forall n, P (PNum n).
  Hypothesis HFloat : forall q, P (PFloat q).
  Hypothesis HVar : forall v, P (PVar v).
  Hypothesis HLit : forall s, P (PLit s).
  Hypothesis HBool : forall b, P (PBoolLit b).
  Hypothesis HCall : forall f l, Forall (fun bp => P (snd bp)) l -> P (PCall f l).
  Hypothesis HParen : forall p, P p -> P (PParen p).
  Hypothesis HPow : forall b e, P b -> P e -> P (PPow b e).
  Hypothesis HNeg : forall p, P p -> P (PNeg p).
  Hypothesis HNary : forall k p0 r, P p0 -> Forall (fun bp => P (snd bp)) r -> P (PNary k p0 r).
  Hypothesis HCmp : forall op a b, P a -> P b -> P (PCmp op a b).
  Hypothesis HIf : forall b c e, P b -> P c -> P e -> P (PIf b c e).

  Fixpoint ptree_ind' (p : ptree) : P p :=
    let fix go (l : list (bool * ptree)) : Forall (fun bp => P (snd bp)) l :=
      match l with
      | [] => Forall_nil _
      | x :: r => Forall_cons x (ptree_ind' (snd x)) (go r)
      end in
    match p with
    | PNum n => HNum n
    | PFloat q => HFloat q
    | PVar v => HVar v
    | PLit s => HLit s
    | PBoolLit b => HBool b
    | PCall f l => HCall f l (go l)
    | PParen q => HParen q (ptree_ind' q)
    | PPow b e => HPow b e (ptree_ind' b) (ptree_ind' e)
    | PNeg q => HNeg q (ptree_ind' q)
    | PNary k p0 r => HNary k p0 r (ptree_ind' p0) (go r)
    | PCmp op a b => HCmp op a b (ptree_ind' a) (ptree_ind' b)
    | PIf b c e => HIf b c e (ptree_ind' b) (ptree_ind' c) (ptree_ind' e)
    end.
End PtreeInd.

(* ---- levels and well-bracketedness ----------------------------------------------------------- *)
Definition klvl (k : nkind) : nat := match k with KSum => 5 | KProd => 6 | KAnd => 2 | KOr => 1 end.
Definition ksub (k : nkind) : nat := match k with KSum => 6 | KProd => 7 | KAnd => 3 | KOr => 2 end.

Definition lvl (p : ptree) : nat :=
  match p with
  | PPow _ _ => 8
  | PNeg _ => 7
  | PNary k _ _ => klvl k
  | PCmp _ _ _ => 4
  | PIf _ _ _ => 0
  | _ => 9
  end.

Definition is_nil {A} (l : list A) : bool := match l with [] => true | _ => false end.
Definition cmp_ok (op : Z) : bool := (0 <=? op)%Z && (op <=? 5)%Z.

(* every child sits at a level its position accepts; anything lower must be inside a PParen *)
Fixpoint wb (p : ptree) : bool :=
  match p with
  | PNum n => (0 <=? n)%Z
  | PFloat q => (0 <=? Qnum q)%Z
  | PVar _ | PLit _ | PBoolLit _ => true
  | PCall _ l => forallb (fun bp => wb (snd bp)) l
  | PParen q => wb q
  | PPow b e => wb b && (Nat.leb 9 (lvl b)) && wb e && (Nat.leb 7 (lvl e))
  | PNeg q => wb q && (Nat.leb 7 (lvl q))
  | PNary k p0 r => negb (is_nil r) && wb p0 && (Nat.leb (ksub k) (lvl p0))
                    && forallb (fun bp => wb (snd bp) && (Nat.leb (ksub k) (lvl (snd bp)))) r
  | PCmp op a b => cmp_ok op && wb a && (Nat.leb 5 (lvl a)) && wb b && (Nat.leb 5 (lvl b))
  | PIf b c e => wb b && (Nat.leb 1 (lvl b)) && wb c && (Nat.leb 1 (lvl c)) && wb e
  end.

(* ---- tokens and text ------------------------------------------------------------------------- *)
Inductive tok :=
| TNum (n : Z) | TFloat (q : Q) | TVar (v : Z) | TName (s : string) | TBool (b : bool)
| TLp | TRp | TComma | TPlus | TMinus | TStar | TSlash | TPowOp | TCmp (op : Z) | TAnd | TOr | TIf | TElse.

Inductive piece := Tk (t : tok) | Sp.

Definition optok (k : nkind) (b : bool) : tok :=
  match k with
  | KSum => if b then TPlus else TMinus
  | KProd => if b then TStar else TSlash
  | KAnd => TAnd
  | KOr => TOr
  end.

Definition sepcat {A} (sep : list A) (l : list (list A)) : list A :=
  match l with
  | [] => []
  | x :: r => x ++ concat (map (fun y => sep ++ y) r)
  end.

Fixpoint flat (p : ptree) : list piece :=
  match p with
  | PNum n => [Tk (TNum n)]
  | PFloat q => [Tk (TFloat q)]
  | PVar v => [Tk (TVar v)]
  | PLit s => [Tk (TName s)]
  | PBoolLit b => [Tk (TBool b)]
  | PCall f l => Tk (TName f) :: Tk TLp :: sepcat [Tk TComma; Sp] (map (fun bp => flat (snd bp)) l) ++ [Tk TRp]
  | PParen q => Tk TLp :: flat q ++ [Tk TRp]
  | PPow b e => flat b ++ Tk TPowOp :: flat e
  | PNeg q => Tk TMinus :: flat q
  | PNary k p0 r => flat p0 ++ concat (map (fun bp => Sp :: Tk (optok k (fst bp)) :: Sp :: flat (snd bp)) r)
  | PCmp op a b => flat a ++ Sp :: Tk (TCmp op) :: Sp :: flat b
  | PIf b c e => flat b ++ Sp :: Tk TIf :: Sp :: flat c ++ Sp :: Tk TElse :: Sp :: flat e
  end.

Fixpoint toks_of (l : list piece) : list tok :=
  match l with
  | [] => []
  | Tk t :: r => t :: toks_of r
  | Sp :: r => toks_of r
  end.

Definition toks (p : ptree) : list tok := toks_of (flat p).

(* characters: [A code]; a float literal is the placeholder [L [A 2; q]] *)
Fixpoint str_codes (s : string) : list sexp :=
  match s with
  | EmptyString => []
  | String c r => A (Z.of_N (N_of_ascii c)) :: str_codes r
  end.

Fixpoint uint_codes (u : Decimal.uint) : list sexp :=
  match u with
  | Decimal.Nil => []
  | Decimal.D0 r => A 48 :: uint_codes r | Decimal.D1 r => A 49 :: uint_codes r
  | Decimal.D2 r => A 50 :: uint_codes r | Decimal.D3 r => A 51 :: uint_codes r
  | Decimal.D4 r => A 52 :: uint_codes r | Decimal.D5 r => A 53 :: uint_codes r
  | Decimal.D6 r => A 54 :: uint_codes r | Decimal.D7 r => A 55 :: uint_codes r
  | Decimal.D8 r => A 56 :: uint_codes r | Decimal.D9 r => A 57 :: uint_codes r
  end.

Definition z_codes (z : Z) : list sexp :=
  match z with
  | Z0 => [A 48]
  | Zpos p => uint_codes (Pos.to_uint p)
  | Zneg p => A 45 :: uint_codes (Pos.to_uint p)
  end.

Definition cmp_codes (op : Z) : list sexp :=
  match op with
  | 0%Z => [A 61; A 61] | 1%Z => [A 33; A 61] | 2%Z => [A 60] | 3%Z => [A 60; A 61]
  | 4%Z => [A 62] | _ => [A 62; A 61]
  end.

Definition render_tok (t : tok) : list sexp :=
  match t with
  | TNum n => z_codes n
  | TFloat q => [L [A 2; sQ q]]
  | TVar v => A 118 :: z_codes v
  | TName s => str_codes s
  | TBool b => str_codes (if b then "True" else "False")
  | TLp => [A 40] | TRp => [A 41] | TComma => [A 44]
  | TPlus => [A 43] | TMinus => [A 45] | TStar => [A 42] | TSlash => [A 47] | TPowOp => [A 42; A 42]
  | TCmp op => cmp_codes op
  | TAnd => str_codes "and" | TOr => str_codes "or" | TIf => str_codes "if" | TElse => str_codes "else"
  end.

Definition render (l : list piece) : list sexp :=
  concat (map (fun x => match x with Tk t => render_tok t | Sp => [A 32] end) l).

Definition text (p : ptree) : list sexp := render (flat p).

(* ---- the grammar as a derivation relation ---------------------------------------------------- *)
Definition nary_toks (k : nkind) (tss : list (list tok)) (r : list (bool * ptree)) : list tok :=
  concat (map (fun x => optok k (fst (snd x)) :: fst x) (combine tss r)).

Inductive derives : nat -> list tok -> ptree -> Prop :=
| D_sub n ts p : (n < 9)%nat -> derives (S n) ts p -> derives n ts p
| D_num n : (0 <= n)%Z -> derives 9 [TNum n] (PNum n)
| D_float q : (0 <= Qnum q)%Z -> derives 9 [TFloat q] (PFloat q)
| D_var v : derives 9 [TVar v] (PVar v)
| D_lit s : derives 9 [TName s] (PLit s)
| D_bool b : derives 9 [TBool b] (PBoolLit b)
| D_call f tss l :
    Forall2 (fun ts bp => derives 0 ts (snd bp)) tss l ->
    derives 9 (TName f :: TLp :: sepcat [TComma] tss ++ [TRp]) (PCall f l)
| D_paren ts p : derives 0 ts p -> derives 9 (TLp :: ts ++ [TRp]) (PParen p)
| D_pow tb te b e : derives 9 tb b -> derives 7 te e -> derives 8 (tb ++ TPowOp :: te) (PPow b e)
| D_neg ts p : derives 7 ts p -> derives 7 (TMinus :: ts) (PNeg p)
| D_nary k t0 p0 tss r :
    r <> [] -> derives (ksub k) t0 p0 ->
    Forall2 (fun ts bp => derives (ksub k) ts (snd bp)) tss r ->
    derives (klvl k) (t0 ++ nary_toks k tss r) (PNary k p0 r)
| D_cmp op ta tb a b : cmp_ok op = true -> derives 5 ta a -> derives 5 tb b ->
    derives 4 (ta ++ TCmp op :: tb) (PCmp op a b)
| D_if tb tc te b c e : derives 1 tb b -> derives 1 tc c -> derives 0 te e ->
    derives 0 (tb ++ TIf :: tc ++ TElse :: te) (PIf b c e).

(* ---- what the Python names mean (specification of the math module, hand-written) -------------- *)
Inductive meaning := MFn (f : Z) | MSqrt.

Definition fn_atan2 := 50%Z. Definition fn_expm1 := 51%Z. Definition fn_log10 := 52%Z.
Definition fn_log1p := 53%Z. Definition fn_log2 := 54%Z.

Open Scope string_scope.
Definition py_fn_spec : list (string * meaning) :=
  [("abs", MFn fn_abs); ("math.acos", MFn fn_acos); ("math.acosh", MFn fn_acosh); ("math.asin", MFn fn_asin);
   ("math.asinh", MFn fn_asinh); ("math.atan", MFn fn_atan); ("math.atan2", MFn fn_atan2);
   ("math.atanh", MFn fn_atanh); ("math.ceil", MFn fn_ceiling); ("math.cos", MFn fn_cos);
   ("math.cosh", MFn fn_cosh); ("math.exp", MFn fn_exp); ("math.expm1", MFn fn_expm1);
   ("math.factorial", MFn fn_factorial); ("math.floor", MFn fn_floor); ("math.log", MFn fn_log);
   ("math.log10", MFn fn_log10); ("math.log1p", MFn fn_log1p); ("math.log2", MFn fn_log2);
   ("math.sin", MFn fn_sin); ("math.sinh", MFn fn_sinh); ("math.sqrt", MSqrt); ("math.tan", MFn fn_tan);
   ("math.tanh", MFn fn_tanh)].

(* constants: ids of Expr.EConst *)
Definition py_lit_spec : list (string * Z) := [("math.pi", 0%Z); ("math.e", 1%Z); ("float('nan')", 4%Z)].
Close Scope string_scope.

Fixpoint slookup {X} (l : list (string * X)) (s : string) : option X :=
  match l with
  | [] => None
  | (k, x) :: r => if String.eqb s k then Some x else slookup r s
  end.

Definition spec_fn (s : string) : option meaning := slookup py_fn_spec s.
Definition spec_lit (s : string) : option Z := slookup py_lit_spec s.

(* ---- evaluation ------------------------------------------------------------------------------ *)
Fixpoint oreals (l : list (option value)) : option (list R) :=
  match l with
  | [] => Some []
  | Some (VR r) :: t => match oreals t with Some rs => Some (r :: rs) | None => None end
  | _ :: _ => None
  end.

Definition sum_step (acc : option value) (sv : bool * option value) : option value :=
  match acc, snd sv with
  | Some (VR a), Some (VR x) => Some (VR (if fst sv then a + x else a - x)%R)
  | _, _ => None
  end.

Definition prod_step (acc : option value) (sv : bool * option value) : option value :=
  match acc, snd sv with
  | Some (VR a), Some (VR x) =>
      if fst sv then Some (VR (a * x)%R)
      else if Req_EM_T x 0 then None else Some (VR (a * / x)%R)
  | _, _ => None
  end.

(* short-circuit: operands after the deciding one are not looked at *)
Fixpoint and_sem (l : list (option value)) : option value :=
  match l with
  | [] => Some (VB true)
  | Some (VB false) :: _ => Some (VB false)
  | Some (VB true) :: r => and_sem r
  | _ :: _ => None
  end.

Fixpoint or_sem (l : list (option value)) : option value :=
  match l with
  | [] => Some (VB false)
  | Some (VB true) :: _ => Some (VB true)
  | Some (VB false) :: r => or_sem r
  | _ :: _ => None
  end.

Definition nary_sem (k : nkind) (v0 : option value) (l : list (bool * option value)) : option value :=
  match k with
  | KSum => fold_left sum_step l v0
  | KProd => fold_left prod_step l v0
  | KAnd => and_sem (v0 :: map snd l)
  | KOr => or_sem (v0 :: map snd l)
  end.

Section PyEval.
  Variable fsem : Z -> list R -> option R.
  Variable psem : R -> R -> option R.
  Variable csem : Z -> option R.
  Variable vsem : Z -> option R.

  Definition meaning_sem (m : meaning) (rs : list R) : option R :=
    match m with
    | MFn f => fsem f rs
    | MSqrt => match rs with [x] => psem x (Q2R (1 # 2)) | _ => None end
    end.

  Fixpoint pyeval (p : ptree) : option value :=
    match p with
    | PNum n => Some (VR (IZR n))
    | PFloat q => Some (VR (Q2R q))
    | PVar v => option_map VR (vsem v)
    | PLit s => match spec_lit s with Some c => option_map VR (csem c) | None => None end
    | PBoolLit b => Some (VB b)
    | PCall f l =>
        match spec_fn f, oreals (map (fun bp => pyeval (snd bp)) l) with
        | Some m, Some rs => option_map VR (meaning_sem m rs)
        | _, _ => None
        end
    | PParen q => pyeval q
    | PPow b e => match pyeval b, pyeval e with
                  | Some (VR x), Some (VR y) => option_map VR (psem x y)
                  | _, _ => None
                  end
    | PNeg q => match pyeval q with Some (VR x) => Some (VR (- x)%R) | _ => None end
    | PNary k p0 r => nary_sem k (pyeval p0) (map (fun bp => (fst bp, pyeval (snd bp))) r)
    | PCmp op a b => match pyeval a, pyeval b with
                     | Some (VR x), Some (VR y) => option_map VB (rel_sem op x y)
                     | _, _ => None
                     end
    | PIf b c e => match pyeval c with
                   | Some (VB true) => pyeval b
                   | Some (VB false) => pyeval e
                   | _ => None
                   end
    end.
End PyEval.

(* ---- bridge: the parse tree as an s-expression (harness compares it with ast.parse) ------------- *)
Definition kcode (k : nkind) : Z := match k with KSum => 0 | KProd => 1 | KAnd => 2 | KOr => 3 end.

Fixpoint sexp_of_ptree (p : ptree) : sexp :=
  match p with
  | PNum n => L [A 0; A n]
  | PFloat q => L [A 1; sQ q]
  | PVar v => L [A 2; A v]
  | PLit s => L [A 3; L (str_codes s)]
  | PBoolLit b => L [A 4; sbool b]
  | PCall f l => L (A 5 :: L (str_codes f) :: map (fun bp => sexp_of_ptree (snd bp)) l)
  | PParen q => L [A 6; sexp_of_ptree q]
  | PPow b e => L [A 7; sexp_of_ptree b; sexp_of_ptree e]
  | PNeg q => L [A 8; sexp_of_ptree q]
  | PNary k p0 r => L (A 9 :: A (kcode k) :: sexp_of_ptree p0
                       :: map (fun bp => L [sbool (fst bp); sexp_of_ptree (snd bp)]) r)
  | PCmp op a b => L [A 10; A op; sexp_of_ptree a; sexp_of_ptree b]
  | PIf b c e => L [A 11; sexp_of_ptree b; sexp_of_ptree c; sexp_of_ptree e]
  end.
