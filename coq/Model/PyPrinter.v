(* C11 -- model of cellmlmanip/printer.py (Printer.doprint) on SymPy-shaped trees.
   Mirrors what the code does (printer.py after the fixes 2293052 / da05218 / a75e9c2 for F10a / F10b / F17).  No proofs inside.
   The printer builds a bracketed parse tree (Model/PyGrammar.v); the emitted string is [text] of it.

   Outcomes:  Ok p  -- the string text(p) is returned
              Err   -- ValueError
              Unm   -- outside the modelled domain (Quantity / Derivative leaves, a negative coefficient
                       that SymPy's _keep_coeff would multiply into another number, missing table key)
              Fuel  -- out of fuel (never happens with the fuel used by [doprint]).
   Modelling assumptions (checked by the harness on every case it uses for correspondence): all symbols are
   commutative; for a product with negative leading coefficient c <> -1, _keep_coeff(-c, rest) is the
   plain product (-c) * rest (no re-evaluation of rest). *)
From Coq Require Import List ZArith QArith Bool String.
From Verif Require Import Sexp Expr PyGrammar PrinterTables_gen.
Import ListNotations.
Open Scope Z_scope.

Inductive res (T : Type) := Ok (a : T) | Err | Unm | Fuel.
Arguments Ok {T} a. Arguments Err {T}. Arguments Unm {T}. Arguments Fuel {T}.

Definition merge {T} (x : res T) (y : res (list T)) : res (list T) :=
  match x, y with
  | Ok a, Ok l => Ok (a :: l)
  | Fuel, _ | _, Fuel => Fuel
  | Unm, _ | _, Unm => Unm
  | _, _ => Err
  end.

Fixpoint collect {T} (l : list (res T)) : res (list T) :=
  match l with
  | [] => Ok []
  | x :: r => merge x (collect r)
  end.

Definition rbind {S T} (x : res S) (f : S -> res T) : res T :=
  match x with Ok a => f a | Err => Err | Unm => Unm | Fuel => Fuel end.

(* ---- SymPy class names of the function ids (tools/bridge.py FN_IDS + the ids 50..54 of c11.py) ---- *)
Open Scope string_scope.
Definition fn_table : list (Z * string) :=
  [(fn_exp, "exp"); (fn_log, "log"); (fn_abs, "Abs"); (fn_floor, "floor"); (fn_ceiling, "ceiling");
   (fn_sin, "sin"); (fn_cos, "cos"); (fn_tan, "tan"); (fn_sec, "sec"); (fn_csc, "csc"); (fn_cot, "cot");
   (fn_sinh, "sinh"); (fn_cosh, "cosh"); (fn_tanh, "tanh"); (fn_sech, "sech"); (fn_csch, "csch");
   (fn_coth, "coth"); (fn_asin, "asin"); (fn_acos, "acos"); (fn_atan, "atan"); (fn_asec, "asec");
   (fn_acsc, "acsc"); (fn_acot, "acot"); (fn_asinh, "asinh"); (fn_acosh, "acosh"); (fn_atanh, "atanh");
   (fn_asech, "asech"); (fn_acsch, "acsch"); (fn_acoth, "acoth");
   (fn_mod, "Mod"); (fn_factorial, "factorial");
   (fn_atan2, "atan2"); (fn_expm1, "expm1"); (fn_log10, "log10"); (fn_log1p, "log1p"); (fn_log2, "log2")].
Close Scope string_scope.

Fixpoint zlookup {X} (l : list (Z * X)) (z : Z) : option X :=
  match l with
  | [] => None
  | (k, x) :: r => if z =? k then Some x else zlookup r z
  end.

Definition fn_name (f : Z) : option string := zlookup fn_table f.

Fixpoint fn_id_in (l : list (Z * string)) (s : string) : option Z :=
  match l with
  | [] => None
  | (k, x) :: r => if String.eqb s x then Some k else fn_id_in r s
  end.
Definition fn_id (s : string) : option Z := fn_id_in fn_table s.

(* ---- sympy.printing.precedence ---------------------------------------------------------------- *)
Definition qneg (q : Q) : bool := Qnum q <? 0.
Definition is_num (e : expr) : bool := match e with ENum _ _ => true | _ => false end.
Definition is_neg_num (e : expr) : bool := match e with ENum _ q => qneg q | _ => false end.
Definition is_ratk (k : Z) : bool := (k =? 0) || (k =? 1).

Definition prec (e : expr) : Z :=
  match e with
  | ENum k q => if qneg q then 40 else if k =? 1 then 50 else 1000
  | EConst c => if c =? 3 then 40 else 1000
  | EQty _ _ _ | EVar _ | EDeriv _ _ _ | ETrue | EFalse => 1000
  | EAdd _ => 40
  | EMul l => match l with x :: _ => if is_neg_num x then 40 else 50 | [] => 50 end
  | EPow _ _ => 60
  | EFn f _ => if f =? fn_mod then 50 else if (f =? fn_max) || (f =? fn_min) then 1000 else 70
  | ERel r _ _ => if (r =? 0) || (r =? 1) then 50 else 35
  | EBool op _ => if op =? 0 then 30 else if op =? 1 then 20 else if op =? 2 then 10 else 100
  | EPw _ => 70
  end.

Definition is_half (e : expr) : bool := match e with ENum 1 q => Qeq_bool q (1 # 2) | _ => false end.
Definition is_neghalf (e : expr) : bool := match e with ENum 1 q => Qeq_bool q (-1 # 2) | _ => false end.
Definition is_negone (e : expr) : bool := match e with ENum 0 q => Qeq_bool q (-1 # 1) | _ => false end.

(* the precedence _bracket() compares with the parent's: x**-1 and x**(-1/2) print as quotients (PRECEDENCE['Mul']) *)
Definition eprec (e : expr) : Z :=
  match e with
  | EPow _ x => if is_neghalf x || is_negone x then 50 else 60
  | _ => prec e
  end.

(* ---- string surgery of _print_Add / _print_Mul, on parse trees --------------------------------- *)
(* does the text start with '-' *)
Fixpoint lead_neg (p : ptree) : bool :=
  match p with
  | PNeg _ => true
  | PNary _ p0 _ => lead_neg p0
  | PPow b _ => lead_neg b
  | PCmp _ a _ => lead_neg a
  | PIf b _ _ => lead_neg b
  | _ => false
  end.

(* t[1:] for a text that starts with '-' *)
Fixpoint strip (p : ptree) : ptree :=
  match p with
  | PNeg q => q
  | PNary k p0 r => PNary k (strip p0) r
  | PPow b e => PPow (strip b) e
  | PCmp o a b => PCmp o (strip a) b
  | PIf b c e => PIf (strip b) c e
  | _ => p
  end.

Definition kind_eqb (a b : nkind) : bool :=
  match a, b with KSum, KSum | KProd, KProd | KAnd, KAnd | KOr, KOr => true | _, _ => false end.

(* appending an operand that is itself an unbracketed chain of the same level continues the chain *)
Definition splice (k : nkind) (s : bool) (u : ptree) : list (bool * ptree) :=
  match u with
  | PNary k' u0 ur => if kind_eqb k k' then (s, u0) :: ur else [(s, u)]
  | _ => [(s, u)]
  end.

Definition mknary (k : nkind) (h : ptree) (r : list (bool * ptree)) : ptree :=
  match r with
  | [] => h
  | _ => match h with
         | PNary k' h0 hr => if kind_eqb k k' then PNary k h0 (hr ++ r) else PNary k h r
         | _ => PNary k h r
         end
  end.

(* ' op '.join(l) for operands of one level *)
Definition join_nary (k : nkind) (l : list ptree) : ptree :=
  match l with
  | [] => PNum 1   (* not used: callers pass non-empty lists *)
  | h :: r => mknary k h (concat (map (splice k true) r))
  end.

Definition add_entry (tp : expr * ptree) : list (bool * ptree) :=
  let '(t, p) := tp in
  let neg := lead_neg p in
  let u := if neg then strip p else p in
  splice KSum (negb neg) (if prec t <? 40 then PParen u else u).

Definition mk_add (l : list (expr * ptree)) : ptree :=
  match l with
  | [] => PNum 0
  | (t, p) :: r =>
      let h := if prec t <? 40 then (if lead_neg p then PNeg (PParen (strip p)) else PParen p) else p in
      mknary KSum h (concat (map add_entry r))
  end.

(* ---- _print_Mul -------------------------------------------------------------------------------- *)
Definition qint (z : Z) : Q := z # 1.

(* sign, Mul.make_args(expr) after the sign has been stripped (operands are always bracketed at PRECEDENCE['Mul']) *)
Definition mul_split (l : list expr) : option (bool * list expr) :=
  match l with
  | ENum k c :: rest =>
      if qneg c then
        if is_negone (ENum k c) then
          match rest with
          | [EMul l'] => Some (true, l')
          | _ => Some (true, rest)
          end
        else
          match rest with
          | [EMul (r1 :: l')] => if is_num r1 then None else Some (true, ENum k (Qopp c) :: r1 :: l')
          | r1 :: rest' => if is_num r1 then None else Some (true, ENum k (Qopp c) :: r1 :: rest')
          | [] => None
          end
      else Some (false, l)
  | _ => Some (false, l)
  end.

(* numerator items, denominator items *)
Definition classify (it : expr) : list expr * list expr :=
  match it with
  | EPow base (ENum k q) =>
      if is_ratk k && qneg q then
        if is_negone (ENum k q) then ([], [base])
        else ([], [EPow base (ENum k (Qopp q))])
      else ([it], [])
  | ENum k q =>
      if is_ratk k then
        ((if Qnum q =? 1 then [] else [ENum 0 (qint (Qnum q))]),
         (if (Qden q =? 1)%positive then [] else [ENum 0 (qint (Zpos (Qden q)))]))
      else ([it], [])
  | _ => ([it], [])
  end.

Definition den_entries (b_str : list ptree) : list (bool * ptree) :=
  match b_str with
  | [] => []
  | [d] => [(false, d)]
  | ds => [(false, PParen (join_nary KProd ds))]
  end.

Definition mk_mul (sign : bool) (a_str b_str : list ptree) : ptree :=
  match concat (map (splice KProd true) a_str) with
  | (_, h0) :: es => mknary KProd (if sign then PNeg h0 else h0) (es ++ den_entries b_str)
  | [] => PNum 1
  end.

(* ---- lookups in the generated tables ----------------------------------------------------------- *)
Definition lit (key : string) : res ptree :=
  match slookup literal_names key with Some s => Ok (PLit s) | None => Unm end.

Definition flag0 (l : list ptree) : list (bool * ptree) := map (fun p => (true, p)) l.

Definition is_boolkind (e : expr) : bool :=
  match e with ERel _ _ _ | EBool _ _ | ETrue | EFalse => true | _ => false end.

Definition pint (z : Z) : ptree := if z <? 0 then PNeg (PNum (- z)) else PNum z.

(* ---- the printer -------------------------------------------------------------------------------- *)
Fixpoint pp (n : nat) (e : expr) : res ptree :=
  match n with
  | O => Fuel
  | S n' =>
    let br := fun (par : Z) (x : expr) =>
      rbind (pp n' x) (fun p => Ok (if eprec x <? par then PParen p else p)) in
    match e with
    | ENum k q =>
        if k =? 0 then Ok (pint (Qnum q))
        else if k =? 1 then Ok (PNary KProd (pint (Qnum q)) [(false, PNum (Zpos (Qden q)))])
        else if k =? 2 then Ok (if qneg q then PNeg (PFloat (Qopp q)) else PFloat q)
        else Unm
    | EConst c => if c =? 0 then lit "pi" else if c =? 1 then lit "e" else Err
    | EQty _ _ _ => Unm
    | EDeriv _ _ _ => Unm
    | EVar v => Ok (PVar v)
    | EAdd l =>
        match l with
        | [] => Unm
        | _ => rbind (collect (map (pp n') l)) (fun ps => Ok (mk_add (combine l ps)))
        end
    | EMul l =>
        match mul_split l with
        | None => Unm
        | Some (sign, items) =>
            let cl := map classify items in
            let a := concat (map fst cl) in
            let b := concat (map snd cl) in
            let a' := match a with [] => [ENum 0 (qint 1)] | _ => a end in
            rbind (collect (map (br 50) a')) (fun a_str =>
            rbind (collect (map (br 51) b)) (fun b_str =>
              Ok (mk_mul sign a_str b_str)))
        end
    | EPow b x =>
        if is_half x then
          match slookup function_names "sqrt" with
          | Some s => rbind (pp n' b) (fun pb => Ok (PCall s [(true, pb)]))
          | None => Unm
          end
        else if is_neghalf x then
          match slookup function_names "sqrt" with
          | Some s => rbind (pp n' b) (fun pb => Ok (PNary KProd (PNum 1) [(false, PCall s [(true, pb)])]))
          | None => Unm
          end
        else if is_negone x then
          rbind (br 60 b) (fun pb => Ok (PNary KProd (PNum 1) [(false, pb)]))
        else
          rbind (br 61 b) (fun pb => rbind (br 60 x) (fun px => Ok (PPow pb px)))
    | EFn f l =>
        if (f =? fn_max) || (f =? fn_min) then Err
        else match fn_name f with
             | None => Unm
             | Some s =>
                 rbind (collect (map (pp n') l)) (fun ps =>
                   match slookup function_names s with
                   | Some py => Ok (PCall py (flag0 ps))
                   | None => Err
                   end)
             end
    | ERel r x y =>
        if cmp_ok r then
          rbind (br (prec e + 1) x) (fun px => rbind (br (prec e + 1) y) (fun py => Ok (PCmp r px py)))
        else Unm
    | EBool op l =>
        if op =? 0 then
          match l with [] => Unm | _ => rbind (collect (map (br 30) l)) (fun ps => Ok (join_nary KAnd ps)) end
        else if op =? 1 then
          match l with [] => Unm | _ => rbind (collect (map (br 20) l)) (fun ps => Ok (join_nary KOr ps)) end
        else Err
    | ETrue => Ok (PBoolLit true)
    | EFalse => Ok (PBoolLit false)
    | EPw l =>
        rbind ((fix pw (l : list (expr * expr)) : res ptree :=
                  match l with
                  | [] => lit "nan"
                  | (x, c) :: r =>
                      match c with
                      | ETrue => pp n' x
                      | _ => rbind (pp n' x) (fun px => rbind (pp n' c) (fun pc => rbind (pw r) (fun pr =>
                               Ok (PIf (PParen px) (PParen pc) (PParen pr)))))
                      end
                  end) l) (fun p => Ok (PParen p))
    end
  end.

(* ---- doprint: the trig rewriting pass (only for sympy.Expr inputs), then the printer ------------ *)
Fixpoint tlookup (l : list (string * Z * string)) (s : string) : option (Z * string) :=
  match l with
  | [] => None
  | (k, sh, g) :: r => if String.eqb s k then Some (sh, g) else tlookup r s
  end.

Definition neg_one : expr := ENum 0 (-1 # 1).

Definition rewrite_fn (f : Z) (l : list expr) : expr :=
  match l, fn_name f with
  | [a], Some s =>
      match tlookup extra_trig s with
      | Some (sh, g) =>
          match fn_id g with
          | Some gi => if sh =? 0 then EPow (EFn gi [a]) neg_one else EFn gi [EPow a neg_one]
          | None => EFn f l
          end
      | None => EFn f l
      end
  | _, _ => EFn f l
  end.

Fixpoint rewrite (e : expr) : expr :=
  match e with
  | EAdd l => EAdd (map rewrite l)
  | EMul l => EMul (map rewrite l)
  | EPow b x => EPow (rewrite b) (rewrite x)
  | EFn f l => rewrite_fn f (map rewrite l)
  | ERel r a b => ERel r (rewrite a) (rewrite b)
  | EBool op l => EBool op (map rewrite l)
  | EPw l => EPw (map (fun ec => (rewrite (fst ec), rewrite (snd ec))) l)
  | _ => e
  end.

Fixpoint esize (e : expr) : nat :=
  match e with
  | EAdd l | EMul l | EFn _ l | EBool _ l => S (fold_right (fun x n => (esize x + n)%nat) O l)
  | EPow a b | ERel _ a b | EDeriv a b _ => S (esize a + esize b)
  | EPw l => S (fold_right (fun ec n => (esize (fst ec) + esize (snd ec) + n)%nat) O l)
  | _ => 1%nat
  end.

Definition pre (e : expr) : expr := if is_boolkind e then e else rewrite e.
Definition doprint (e : expr) : res ptree := let e' := pre e in pp (S (esize e')) e'.

(* ---- the trees the theorems are about: made of the supported constructs, numbers where numbers are expected
   and truth values where truth values are expected (Quantity / Derivative leaves are outside the model) ---- *)
Definition isreal (e : expr) : bool := negb (is_boolkind e).

Fixpoint printable (e : expr) : bool :=
  match e with
  | ENum k q => ((k =? 0) && (Qden q =? 1)%positive) || (k =? 1) || (k =? 2)
  | EConst c => (c =? 0) || (c =? 1)
  | EVar _ => true
  | EQty _ _ _ | EDeriv _ _ _ => false
  | EAdd l => forallb (fun x => isreal x && printable x) l
  | EMul l => forallb (fun x => isreal x && printable x) l
  | EPow b x => isreal b && isreal x && printable b && printable x
  | EFn _ l => forallb (fun x => isreal x && printable x) l
  | ERel _ a b => isreal a && isreal b && printable a && printable b
  | EBool _ l => forallb (fun x => is_boolkind x && printable x) l
  | ETrue | EFalse => true
  | EPw l => forallb (fun ec => isreal (fst ec) && printable (fst ec) && is_boolkind (snd ec) && printable (snd ec)) l
  end.

(* ---- bridge ---------------------------------------------------------------------------------------
   in:  tree                 out: (status text ptree wb printable rewritten-tree)
   status 0 = string, 1 = ValueError, 2 = unmodelled, 3 = out of fuel *)
Definition out_sexp (e' : expr) (r : res ptree) : sexp :=
  let tail := [sbool (printable e'); sexp_of_expr e'] in
  match r with
  | Ok p => L (A 0 :: L (text p) :: sexp_of_ptree p :: sbool (wb p) :: tail)
  | Err => L (A 1 :: L [] :: L [] :: A 0 :: tail)
  | Unm => L (A 2 :: L [] :: L [] :: A 0 :: tail)
  | Fuel => L (A 3 :: L [] :: L [] :: A 0 :: tail)
  end.

(* @run 110 run_print *)
Definition run_print (x : sexp) : sexp := let e := expr_of_sexp x in out_sexp (pre e) (doprint e).

(* the printer proper, without the rewriting pass (input: a tree sympy's optimize() has already rewritten) *)
(* @run 111 run_print_raw *)
Definition run_print_raw (x : sexp) : sexp := let e := expr_of_sexp x in out_sexp e (pp (S (esize e)) e).
