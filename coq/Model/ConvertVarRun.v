(* Interpreter for C06 / C18: sequences of convert_variable calls on a model given as variables, equations, units. *)
From Coq Require Import List ZArith QArith Bool.
From Verif Require Import Sexp UnitAlg UStore Expr ModelSM ModelSMRun ConvertVar QtyUnits.
Import ListNotations.
Open Scope Z_scope.

Definition uvec_of_sexp (x : sexp) : uvec :=
  map (fun p => match p with L [A k; q] => (k, Q_of_sexp q) | _ => (0, 0%Q) end) (sL x).

Definition cvar_of_sexp (x : sexp) : cvar :=
  match x with
  | L [n; u; i; c] => {| c_name := str_of_sexp n; c_unit := uvec_of_sexp u; c_init := opt_of_sexp Q_of_sexp i;
                         c_cmeta := opt_of_sexp str_of_sexp c |}
  | _ => {| c_name := []; c_unit := []; c_init := None; c_cmeta := None |}
  end.

Definition clhs_of_sexp (x : sexp) : clhs :=
  match x with
  | L [A 0; v] => CLV (nat_of_sexp v)
  | L [A 1; v; t] => CLD (nat_of_sexp v) (nat_of_sexp t)
  | _ => CLV 0%nat
  end.
Definition sclhs (l : clhs) : sexp :=
  match l with CLV v => L [A 0; snat v] | CLD v t => L [A 1; snat v; snat t] end.

Definition ceq_of_sexp (x : sexp) : ceq :=
  match x with
  | L [l; r] => {| q_lhs := clhs_of_sexp l; q_rhs := expr_of_sexp r |}
  | _ => {| q_lhs := CLV 0%nat; q_rhs := ETrue |}
  end.

Definition sstate (s : cstate) : sexp :=
  L [L (map (fun c => L [sstr (c_name c); svec (c_unit c); sopt (fun q => sQ (Qred q)) (c_init c); sopt sstr (c_cmeta c)]) (cvars s));
     L (map (fun q => L [sclhs (q_lhs q); sexp_of_expr (q_rhs q)]) (ceqs s));
     L (map svec (cunits s));
     sbool (units_invariant s)].

Fixpoint cv_ops (s : cstate) (ops : list sexp) : list sexp :=
  match ops with
  | [] => []
  | L [v; u; d; mv] :: r =>
      (* premise of the C06 theorems, checked on every case: the next variable index is fresh *)
      if negb (premises_hold s) then serr 11 :: cv_ops s r else
      match convert_variable s (nat_of_sexp v) (uvec_of_sexp u) (if bool_of_sexp d then DInput else DOutput) (bool_of_sexp mv) with
      | COk (s', n) => L [A 0; snat n; sstate s';
                          A (free_spec_code s s' (nat_of_sexp v) n (if bool_of_sexp d then DInput else DOutput));
                          sbool (step_ok s (nat_of_sexp v) (if bool_of_sexp d then DInput else DOutput) || Nat.eqb n (nat_of_sexp v))] :: cv_ops s' r
      | CErr e => serr (cerr_code e) :: cv_ops s r
      end
  | _ :: r => serr 99 :: cv_ops s r
  end.

(* input: (vars eqs units next-quantity-id ops); output: one entry per conversion, then a LAST entry (2 b) with
   b = wf_state of the initial state (the only premise of C06_sequence_equiv_from_wf) *)
(* @run 60 run_convertvar *)
Definition run_convertvar (x : sexp) : sexp :=
  match x with
  | L [vs; es; us; qn; ops] =>
      let s0 := {| cvars := map cvar_of_sexp (sL vs); ceqs := map ceq_of_sexp (sL es);
                   cunits := map uvec_of_sexp (sL us); cqnext := sZ qn |} in
      L (cv_ops s0 (sL ops) ++ [L [A 2; sbool (wf_state s0)]])
  | _ => serr 97
  end.
