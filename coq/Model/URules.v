(* Custom conversion rules (units.py:299-335 add_conversion_rule; 267-297 get_conversion_factor / convert) on top of
   the unit-vector algebra.  Specification-level model of what cellmlmanip relies on in pint's contexts: a rule is an
   edge between two DIMENSIONS carrying a linear transformation  q |-> q * K  or  q |-> q / K  (K a quantity whose
   magnitude may be symbolic); a conversion between different dimensions follows the shortest chain of rules, each rule
   being applied to the quantity in whatever units it has at that point, and finishes with an ordinary conversion.
   No proofs here. *)
From Coq Require Import List ZArith QArith Bool.
From Verif Require Import Sexp UnitAlg UStore.
Import ListNotations.
Open Scope Z_scope.

Record rule := {
  r_from : uvec;          (* a unit of the source dimension (only its dimension matters) *)
  r_to : uvec;            (* a unit of the target dimension *)
  r_div : bool;           (* false: q * K, true: q / K *)
  r_kq : Q;               (* numeric part of K's magnitude *)
  r_ksym : list Z;        (* symbolic factors of K's magnitude (symbol ids) *)
  r_kunit : uvec          (* K's unit *)
}.

(* magnitude factor accumulated along a chain: coefficient, symbols with exponent +1 / -1, and the unit reached *)
Record acc := { a_q : Q; a_syms : list (Z * Z); a_unit : uvec }.

Definition apply_rule (r : rule) (a : acc) : acc :=
  if r_div r
  then {| a_q := (a_q a / r_kq r)%Q; a_syms := a_syms a ++ map (fun s => (s, -1)) (r_ksym r);
          a_unit := udiv (a_unit a) (r_kunit r) |}
  else {| a_q := (a_q a * r_kq r)%Q; a_syms := a_syms a ++ map (fun s => (s, 1)) (r_ksym r);
          a_unit := umul (a_unit a) (r_kunit r) |}.

Definition same_dim (a b : uvec) : bool := same_dims a b.

(* shortest chain of rules from the dimension of [src] to the dimension of [dst]: depth-first over the rule list with
   explicit fuel, never revisiting a dimension on the current path, keeping the first shortest (pint find_shortest_path) *)
Fixpoint shortest (fuel : nat) (rules : list rule) (visited : list uvec) (src dst : uvec) : option (list rule) :=
  match fuel with
  | O => None
  | S f =>
      if same_dim src dst then Some []
      else
        fold_left (fun best r =>
          if same_dim (r_from r) src && negb (existsb (same_dim (r_to r)) (src :: visited))
          then match shortest f rules (src :: visited) (r_to r) dst with
               | Some p => match best with
                           | Some b => if Nat.ltb (S (length p)) (length b) then Some (r :: p) else best
                           | None => Some (r :: p)
                           end
               | None => best
               end
          else best) rules None
  end.

(* convert(q in unit a, b) with rules enabled: magnitude = q * a_q * (symbols) * Π p^e, in unit b *)
Definition convert_with_rules (rules : list rule) (a b : uvec) : res (acc * uvec) :=
  match shortest (S (length rules)) rules [] a b with
  | None => Err EDimension
  | Some path =>
      let st := fold_left (fun st r => apply_rule r st) path {| a_q := 1%Q; a_syms := []; a_unit := a |} in
      match conv (a_unit st) b with
      | Some c => Ok (st, c)
      | None => Err EDimension
      end
  end.

(* ---- bridge: units are given by definitions in one store, then rules, then queries ------------------------- *)
From Verif Require Import Builtins.

Definition rule_of_sexp (w : world) (x : sexp) : option rule :=
  match x with
  | L [ta; tb; dv; kq; ksym; tk] =>
      match teval the_tables w (uterm_of_sexp ta), teval the_tables w (uterm_of_sexp tb), teval the_tables w (uterm_of_sexp tk) with
      | Ok a, Ok b, Ok k => Some {| r_from := a; r_to := b; r_div := bool_of_sexp dv; r_kq := Q_of_sexp kq;
                                    r_ksym := map sZ (sL ksym); r_kunit := k |}
      | _, _, _ => None
      end
  | _ => None
  end.

Fixpoint rules_ops (w : world) (rules : list rule) (ops : list sexp) : list sexp :=
  match ops with
  | [] => []
  | L [A 1; i; n; e] :: r =>
      match add_unit the_tables w (nat_of_sexp i) (name_of_sexp n) (uexpr_of_sexp e) with
      | Ok w' => L [A 0] :: rules_ops w' rules r
      | Err e => serr_of e :: rules_ops w rules r
      end
  | L [A 2; i; n] :: r =>
      match add_base_unit the_tables w (nat_of_sexp i) (name_of_sexp n) with
      | Ok w' => L [A 0] :: rules_ops w' rules r
      | Err e => serr_of e :: rules_ops w rules r
      end
  | L [A 10; rl] :: r =>
      match rule_of_sexp w rl with
      | Some x => L [A 0] :: rules_ops w (rules ++ [x]) r
      | None => serr 5 :: rules_ops w rules r
      end
  | L [A 11; ta; tb] :: r =>
      (match teval the_tables w (uterm_of_sexp ta), teval the_tables w (uterm_of_sexp tb) with
       | Ok a, Ok b =>
           match convert_with_rules rules a b with
           | Ok (st, c) => L [A 0; sQ (Qred (a_q st)); L (map (fun se => L [A (fst se); A (snd se)]) (a_syms st)); svec c]
           | Err e => serr_of e
           end
       | Err e, _ => serr_of e
       | _, Err e => serr_of e
       end) :: rules_ops w rules r
  | _ :: r => serr 99 :: rules_ops w rules r
  end.

(* @run 190 run_urules *)
Definition run_urules (x : sexp) : sexp :=
  match new_store the_tables init_world None with
  | Ok (w, _) => L (rules_ops w [] (sL x))
  | Err e => serr_of e
  end.
