(* cellmlmanip.model.Model as a state machine (model.py:55-736, 870-908), for C08, C09, C10, C13.

   Variable OBJECTS are indices into [vars] (objects outlive their removal from the model);
   equations are indices into a per-case pool [eqrec] that records what the Model code looks at:
   the shape of the left-hand side, the variables / derivatives referenced on the right-hand
   side (find_variables_and_derivatives), whether the right-hand side is a single Quantity, the
   references left after Quantity -> number substitution, and atoms(Variable).
   Python dicts are insertion-ordered association lists.  No proofs here.
   Mirrors /repo AFTER the fix: commits for F8 (append after validation) and F15 (roles are
   recomputed whenever the graph is rebuilt). *)
From Coq Require Import List ZArith QArith Bool.
From Verif Require Import Sexp.
Import ListNotations.
Open Scope Z_scope.

Definition str := list Z.
Fixpoint str_eqb (a b : str) : bool :=
  match a, b with
  | [], [] => true
  | x :: a', y :: b' => Z.eqb x y && str_eqb a' b'
  | _, _ => false
  end.
(* Python's str ordering: lexicographic on code points *)
Fixpoint str_ltb (a b : str) : bool :=
  match a, b with
  | _, [] => false
  | [], _ :: _ => true
  | x :: a', y :: b' => if Z.ltb x y then true else if Z.ltb y x then false else str_ltb a' b'
  end.

(* ---- insertion-ordered dictionaries -------------------------------------------------------- *)
Section Dict.
  Context {K V : Type} (keq : K -> K -> bool).
  Fixpoint dget (d : list (K * V)) (k : K) : option V :=
    match d with
    | [] => None
    | (k', v) :: r => if keq k k' then Some v else dget r k
    end.
  Fixpoint dset (d : list (K * V)) (k : K) (v : V) : list (K * V) :=
    match d with
    | [] => [(k, v)]
    | (k', v') :: r => if keq k k' then (k', v) :: r else (k', v') :: dset r k v
    end.
  Fixpoint ddel (d : list (K * V)) (k : K) : list (K * V) :=
    match d with
    | [] => []
    | (k', v') :: r => if keq k k' then r else (k', v') :: ddel r k
    end.
  Definition dhas (d : list (K * V)) (k : K) : bool :=
    match dget d k with Some _ => true | None => false end.
End Dict.

(* ---- objects ---------------------------------------------------------------------------------- *)
Definition vid := nat.
Definition eid := nat.

Record varrec := {
  v_name : str; v_cmeta : option str; v_order : Z; v_live : bool; v_init : option Q
}.

Inductive lhs := LVar (v : vid) | LDeriv (v t : vid) (order nvars : Z) | LOther.
Inductive ref := RVar (v : vid) | RDer (v t : vid).

Record eqrec := {
  e_lhs : lhs;
  e_refs : list ref;       (* find_variables_and_derivatives([rhs]) *)
  e_isqty : bool;          (* isinstance(rhs, Quantity) *)
  e_hasqty : bool;         (* rhs.atoms(Quantity) non-empty *)
  e_refs_num : list ref;   (* references of the rhs after Quantity -> Float substitution *)
  e_atoms : list vid       (* rhs.atoms(Variable): sees through derivatives *)
}.

Definition ref_eqb (a b : ref) : bool :=
  match a, b with
  | RVar x, RVar y => Nat.eqb x y
  | RDer x s, RDer y t => Nat.eqb x y && Nat.eqb s t
  | _, _ => false
  end.

Record gnode := { n_ref : ref; n_eq : option eid; n_type : option Z; n_sub : bool (* equation had numbers substituted *) }.
Record graph := { nodes : list gnode; edges : list (ref * ref) }.

(* VariableType: 1 STATE, 2 FREE, 3 PARAMETER, 4 COMPUTED *)

Record mstate := {
  vars : list varrec;
  names : list (str * vid);        (* _name_to_variable *)
  cmetas : list (str * vid);       (* _cmeta_id_to_variable *)
  eqs : list eid;                  (* Model.equations *)
  vdef : list (vid * eid);         (* _var_definition_map *)
  odef : list (vid * eid);         (* _ode_definition_map *)
  gcache : option graph;           (* _graph *)
  ncache : option graph;           (* _graph_with_sympy_numbers *)
  mcmeta : option str;             (* the model's own cmeta id *)
  triples : list (str * Z * Z)     (* RDF: subject '#id', predicate, object *)
}.

Inductive merr := EValue | EKey | EAssert | EAttr | EUnfeasible | ENetworkX | EFuel | EBadArg.
Definition merr_code (e : merr) : Z :=
  match e with EValue => 1 | EKey => 2 | EAssert => 3 | EAttr => 4 | EUnfeasible => 5 | ENetworkX => 6 | EFuel => 8 | EBadArg => 9 end.

Inductive mres (T : Type) := MOk (x : T) | MErr (e : merr).
Arguments MOk {T} x. Arguments MErr {T} e.

Definition init_state (mc : option str) : mstate :=
  {| vars := []; names := []; cmetas := []; eqs := []; vdef := []; odef := [];
     gcache := None; ncache := None; mcmeta := mc; triples := [] |}.

Definition invalidate (s : mstate) : mstate :=
  {| vars := vars s; names := names s; cmetas := cmetas s; eqs := eqs s; vdef := vdef s; odef := odef s;
     gcache := None; ncache := None; mcmeta := mcmeta s; triples := triples s |}.

Definition opt_str_eqb (a : option str) (b : str) : bool :=
  match a with Some x => str_eqb x b | None => false end.

(* has_cmeta_id (model.py:306-317) *)
Definition has_cmeta_id (s : mstate) (c : str) : bool :=
  opt_str_eqb (mcmeta s) c || dhas str_eqb (cmetas s) c.

Fixpoint set_nth {X} (l : list X) (i : nat) (x : X) : list X :=
  match l, i with
  | [], _ => []
  | _ :: r, O => x :: r
  | y :: r, S j => y :: set_nth r j x
  end.

Definition upd_var (s : mstate) (v : vid) (f : varrec -> varrec) : list varrec :=
  match nth_error (vars s) v with
  | Some r => set_nth (vars s) v (f r)
  | None => vars s
  end.

(* add_variable (model.py:552-597) *)
Definition add_variable (s : mstate) (n : str) (c : option str) (init : option Q) : mres (mstate * vid) :=
  if dhas str_eqb (names s) n then MErr EValue
  else if (match c with Some c' => has_cmeta_id s c' | None => false end) then MErr EValue
  else
    let v := length (vars s) in
    let r := {| v_name := n; v_cmeta := c; v_order := Z.of_nat (length (names s)); v_live := true; v_init := init |} in
    MOk ({| vars := vars s ++ [r]; names := names s ++ [(n, v)];
            cmetas := match c with Some c' => dset str_eqb (cmetas s) c' v | None => cmetas s end;
            eqs := eqs s; vdef := vdef s; odef := odef s; gcache := None; ncache := None;
            mcmeta := mcmeta s; triples := triples s |}, v).

(* get_definition (model.py:319-329) *)
Definition get_definition (s : mstate) (v : vid) : option eid :=
  match dget Nat.eqb (odef s) v with
  | Some e => Some e
  | None => dget Nat.eqb (vdef s) v
  end.

Fixpoint remove_first (l : list eid) (e : eid) : option (list eid) :=
  match l with
  | [] => None
  | x :: r => if Nat.eqb x e then Some r
              else match remove_first r e with Some r' => Some (x :: r') | None => None end
  end.

Section WithPool.
Variable pool : list eqrec.

Definition eq_lhs (e : eid) : lhs :=
  match nth_error pool e with Some r => e_lhs r | None => LOther end.

(* remove_equation (model.py:656-675) *)
Definition remove_equation (s : mstate) (e : eid) : mres mstate :=
  match remove_first (eqs s) e with
  | None => MErr EKey
  | Some eqs' =>
      match eq_lhs e with
      | LDeriv v _ _ _ =>
          if dhas Nat.eqb (odef s) v
          then MOk {| vars := vars s; names := names s; cmetas := cmetas s; eqs := eqs';
                      vdef := vdef s; odef := ddel Nat.eqb (odef s) v; gcache := None; ncache := None;
                      mcmeta := mcmeta s; triples := triples s |}
          else MErr EKey
      | LVar v =>
          if dhas Nat.eqb (vdef s) v
          then MOk {| vars := vars s; names := names s; cmetas := cmetas s; eqs := eqs';
                      vdef := ddel Nat.eqb (vdef s) v; odef := odef s; gcache := None; ncache := None;
                      mcmeta := mcmeta s; triples := triples s |}
          else MErr EKey
      | LOther => MErr EKey
      end
  end.

Definition defined_twice (s : mstate) (v : vid) : bool :=
  dhas Nat.eqb (odef s) v || dhas Nat.eqb (vdef s) v.

(* add_equation (model.py:624-654, after the F8 fix: the equation is appended after validation) *)
Definition add_equation (s : mstate) (e : eid) (check_dup : bool) : mres mstate :=
  match eq_lhs e with
  | LDeriv v _ order nvars =>
      if (1 <? nvars) || (1 <? order) then MErr EValue
      else if check_dup && defined_twice s v then MErr EValue
      else MOk {| vars := vars s; names := names s; cmetas := cmetas s; eqs := eqs s ++ [e];
                  vdef := vdef s; odef := dset Nat.eqb (odef s) v e; gcache := None; ncache := None;
                  mcmeta := mcmeta s; triples := triples s |}
  | LVar v =>
      if check_dup && defined_twice s v then MErr EValue
      else MOk {| vars := vars s; names := names s; cmetas := cmetas s; eqs := eqs s ++ [e];
                  vdef := dset Nat.eqb (vdef s) v e; odef := odef s; gcache := None; ncache := None;
                  mcmeta := mcmeta s; triples := triples s |}
  | LOther => MErr EValue
  end.

(* remove_variable (model.py:599-622) *)
Definition remove_variable (s : mstate) (v : vid) : mres mstate :=
  match nth_error (vars s) v with
  | None => MErr EBadArg
  | Some r =>
      let s1 := match get_definition s v with
                | Some e => remove_equation s e
                | None => MOk s
                end in
      match s1 with
      | MErr x => MErr x
      | MOk s1 =>
          let tr := match v_cmeta r with
                    | Some c => filter (fun t => negb (str_eqb (fst (fst t)) c)) (triples s1)
                    | None => triples s1
                    end in
          if negb (dhas str_eqb (names s1) (v_name r)) then MErr EKey
          else
            let names' := ddel str_eqb (names s1) (v_name r) in
            match v_cmeta r with
            | Some c =>
                if negb (dhas str_eqb (cmetas s1) c) then MErr EKey
                else MOk {| vars := upd_var s1 v (fun r => {| v_name := v_name r; v_cmeta := v_cmeta r; v_order := v_order r;
                                                               v_live := false; v_init := v_init r |});
                            names := names'; cmetas := ddel str_eqb (cmetas s1) c; eqs := eqs s1; vdef := vdef s1;
                            odef := odef s1; gcache := None; ncache := None; mcmeta := mcmeta s1; triples := tr |}
            | None =>
                MOk {| vars := upd_var s1 v (fun r => {| v_name := v_name r; v_cmeta := v_cmeta r; v_order := v_order r;
                                                          v_live := false; v_init := v_init r |});
                       names := names'; cmetas := cmetas s1; eqs := eqs s1; vdef := vdef s1;
                       odef := odef s1; gcache := None; ncache := None; mcmeta := mcmeta s1; triples := tr |}
            end
      end
  end.

(* ---- cmeta ids (model.py:696-736) ------------------------------------------------------------ *)
Definition dollar : Z := 36.
Definition underscore : Z := 95.
Fixpoint display_name (n : str) : str :=
  match n with
  | [] => []
  | c :: r => if Z.eqb c dollar then underscore :: underscore :: display_name r else c :: display_name r
  end.

Fixpoint fresh_cmeta (fuel : nat) (s : mstate) (c : str) : str :=
  match fuel with
  | O => c
  | S f => if has_cmeta_id s c then fresh_cmeta f s (c ++ [underscore]) else c
  end.

Definition set_cmeta (s : mstate) (v : vid) (c : option str) : list varrec :=
  upd_var s v (fun r => {| v_name := v_name r; v_cmeta := c; v_order := v_order r; v_live := v_live r; v_init := v_init r |}).

(* add_cmeta_id: no ontology annotations are modelled for the display name (the harness gives none) *)
Definition add_cmeta_id (s : mstate) (v : vid) : mres mstate :=
  match nth_error (vars s) v with
  | None => MErr EBadArg
  | Some r =>
      match v_cmeta r with
      | Some _ => MOk s
      | None =>
          let c := fresh_cmeta (S (length (cmetas s))) s (display_name (v_name r)) in
          MOk {| vars := set_cmeta s v (Some c); names := names s; cmetas := dset str_eqb (cmetas s) c v;
                 eqs := eqs s; vdef := vdef s; odef := odef s; gcache := gcache s; ncache := ncache s;
                 mcmeta := mcmeta s; triples := triples s |}
      end
  end.

Definition transfer_cmeta_id (s : mstate) (src tgt : vid) : mres mstate :=
  match nth_error (vars s) src, nth_error (vars s) tgt with
  | Some rs, Some rt =>
      match v_cmeta rs, v_cmeta rt with
      | None, _ => MErr EValue
      | Some _, Some _ => MErr EValue
      | Some c, None =>
          let vs1 := set_cmeta s tgt (Some c) in
          let s1 := {| vars := vs1; names := names s; cmetas := cmetas s; eqs := eqs s; vdef := vdef s; odef := odef s;
                       gcache := gcache s; ncache := ncache s; mcmeta := mcmeta s; triples := triples s |} in
          MOk {| vars := set_cmeta s1 src None; names := names s; cmetas := dset str_eqb (cmetas s) c tgt;
                 eqs := eqs s; vdef := vdef s; odef := odef s; gcache := gcache s; ncache := ncache s;
                 mcmeta := mcmeta s; triples := triples s |}
      end
  | _, _ => MErr EBadArg
  end.

Definition add_triple (s : mstate) (subj : str) (p o : Z) : mstate :=
  {| vars := vars s; names := names s; cmetas := cmetas s; eqs := eqs s; vdef := vdef s; odef := odef s;
     gcache := gcache s; ncache := ncache s; mcmeta := mcmeta s;
     triples := if existsb (fun t => str_eqb (fst (fst t)) subj && Z.eqb (snd (fst t)) p && Z.eqb (snd t) o) (triples s)
                then triples s else triples s ++ [(subj, p, o)] |}.

(* lookups *)
Definition get_variable_by_cmeta_id (s : mstate) (c : str) : mres vid :=
  match dget str_eqb (cmetas s) c with Some v => MOk v | None => MErr EKey end.

Fixpoint insert_by_order (vs : list varrec) (v : vid) (l : list vid) : list vid :=
  match l with
  | [] => [v]
  | w :: r =>
      let ov := match nth_error vs v with Some x => v_order x | None => 0 end in
      let ow := match nth_error vs w with Some x => v_order x | None => 0 end in
      if Z.ltb ov ow then v :: w :: r else w :: insert_by_order vs v r
  end.
Definition sort_by_order (vs : list varrec) (l : list vid) : list vid :=
  fold_left (fun acc v => insert_by_order vs v acc) l [].

(* get_variables_by_rdf(predicate, object): subjects of matching triples, each looked up by id *)
Fixpoint lookup_all (s : mstate) (subs : list str) : mres (list vid) :=
  match subs with
  | [] => MOk []
  | c :: r => match get_variable_by_cmeta_id s c, lookup_all s r with
              | MOk v, MOk vs => MOk (v :: vs)
              | MErr e, _ => MErr e
              | _, MErr e => MErr e
              end
  end.
Definition get_variables_by_rdf (s : mstate) (p o : Z) : mres (list vid) :=
  match lookup_all s (map (fun t => fst (fst t)) (filter (fun t => Z.eqb (snd (fst t)) p && Z.eqb (snd t) o) (triples s))) with
  | MOk vs => MOk (sort_by_order (vars s) vs)
  | MErr e => MErr e
  end.

(* annotations of a variable: objects of triples whose subject is the variable's id *)
Definition annotations_of (s : mstate) (v : vid) : list (Z * Z) :=
  match nth_error (vars s) v with
  | Some r => match v_cmeta r with
              | Some c => map (fun t => (snd (fst t), snd t)) (filter (fun t => str_eqb (fst (fst t)) c) (triples s))
              | None => []
              end
  | None => []
  end.

(* ---- the dependency graph (model.py:418-493) -------------------------------------------------- *)
Definition lhs_ref (l : lhs) : option ref :=
  match l with LVar v => Some (RVar v) | LDeriv v t _ _ => Some (RDer v t) | LOther => None end.

Definition has_node (ns : list gnode) (r : ref) : bool := existsb (fun n => ref_eqb (n_ref n) r) ns.

(* graph.add_node(lhs, equation=eq): updates the attribute of an existing node *)
Fixpoint add_eq_node (ns : list gnode) (r : ref) (e : eid) : list gnode :=
  match ns with
  | [] => [{| n_ref := r; n_eq := Some e; n_type := None; n_sub := false |}]
  | n :: t => if ref_eqb (n_ref n) r
              then {| n_ref := r; n_eq := Some e; n_type := n_type n; n_sub := false |} :: t
              else n :: add_eq_node t r e
  end.

(* roles found while scanning the equations: a dict var -> type, later writes win *)
Definition types := list (vid * Z).

Fixpoint scan_eqs (l : list eid) (ns : list gnode) (ty : types) : list gnode * types :=
  match l with
  | [] => (ns, ty)
  | e :: r =>
      match nth_error pool e with
      | None => scan_eqs r ns ty
      | Some q =>
          match e_lhs q with
          | LDeriv v t _ _ =>
              scan_eqs r (add_eq_node ns (RDer v t) e) (dset Nat.eqb (dset Nat.eqb ty v 1) t 2)
          | LVar v =>
              scan_eqs r (add_eq_node ns (RVar v) e) (dset Nat.eqb ty v (if e_isqty q then 3 else 4))
          | LOther => scan_eqs r ns ty
          end
      end
  end.

Definition add_plain_node (ns : list gnode) (r : ref) (t : option Z) : list gnode :=
  if has_node ns r then ns else ns ++ [{| n_ref := r; n_eq := None; n_type := t; n_sub := false |}].

Definition add_edge (es : list (ref * ref)) (a b : ref) : list (ref * ref) :=
  if existsb (fun e => ref_eqb (fst e) a && ref_eqb (snd e) b) es then es else es ++ [(a, b)].

(* one right-hand-side reference of the equation with left-hand side [l] *)
Definition link_ref (ty : types) (l : ref) (g : mres (list gnode * list (ref * ref))) (r : ref)
  : mres (list gnode * list (ref * ref)) :=
  match g with
  | MErr e => MErr e
  | MOk (ns, es) =>
      if has_node ns r then MOk (ns, add_edge es r l)
      else match r with
           | RDer _ _ => MErr EAttr                    (* a Derivative object has no .type *)
           | RVar v =>
               match dget Nat.eqb ty v with
               | Some 1 => MOk (add_plain_node ns r (Some 1), add_edge es r l)
               | Some 2 => MOk (add_plain_node ns r (Some 2), add_edge es r l)
               | _ => MErr EAssert
               end
           end
  end.

Fixpoint link_eqs (l : list eid) (ty : types) (g : mres (list gnode * list (ref * ref)))
  : mres (list gnode * list (ref * ref)) :=
  match l with
  | [] => g
  | e :: r =>
      match g with
      | MErr x => MErr x
      | MOk _ =>
          match nth_error pool e with
          | None => link_eqs r ty g
          | Some q =>
              match lhs_ref (e_lhs q) with
              | None => link_eqs r ty g
              | Some lr =>
                  let g1 := fold_left (link_ref ty lr) (e_refs q) g in
                  let g2 := match g1, e_lhs q with
                            | MOk (ns, es), LDeriv v t _ _ =>
                                MOk (add_plain_node (add_plain_node ns (RVar t) (dget Nat.eqb ty t)) (RVar v) (dget Nat.eqb ty v), es)
                            | _, _ => g1
                            end in
                  link_eqs r ty g2
              end
          end
      end
  end.

Definition finish_types (ty : types) (ns : list gnode) : mres (list gnode) :=
  fold_right (fun n acc =>
    match acc with
    | MErr e => MErr e
    | MOk l =>
        match n_ref n with
        | RDer _ _ => MOk (n :: l)
        | RVar v => match dget Nat.eqb ty v with
                    | Some t => MOk ({| n_ref := n_ref n; n_eq := n_eq n; n_type := Some t; n_sub := n_sub n |} :: l)
                    | None => MErr EAssert
                    end
        end
    end) (MOk []) ns.

Definition build_graph (s : mstate) : mres graph :=
  let '(ns, ty) := scan_eqs (eqs s) [] [] in
  if negb (Nat.eqb (length ns) (length (eqs s))) then MErr EAssert
  else match link_eqs (eqs s) ty (MOk (ns, [])) with
       | MErr e => MErr e
       | MOk (ns', es) =>
           match finish_types ty ns' with
           | MErr e => MErr e
           | MOk ns'' => MOk {| nodes := ns''; edges := es |}
           end
       end.

(* the `graph` property: cached *)
Definition get_graph (s : mstate) : mres (mstate * graph) :=
  match gcache s with
  | Some g => MOk (s, g)
  | None => match build_graph s with
            | MErr e => MErr e
            | MOk g => MOk ({| vars := vars s; names := names s; cmetas := cmetas s; eqs := eqs s; vdef := vdef s;
                               odef := odef s; gcache := Some g; ncache := ncache s; mcmeta := mcmeta s;
                               triples := triples s |}, g)
            end
  end.

(* graph_with_sympy_numbers (model.py:495-536) *)
Definition strip_node (es : list (ref * ref)) (n : gnode) : list (ref * ref) :=
  match n_eq n with
  | None => es
  | Some e =>
      match nth_error pool e with
      | None => es
      | Some q =>
          if e_hasqty q
          then filter (fun ed => negb (ref_eqb (snd ed) (n_ref n)) || existsb (ref_eqb (fst ed)) (e_refs_num q)) es
          else es
      end
  end.

Definition number_graph (g : graph) : graph :=
  {| nodes := map (fun n => match n_eq n with
                            | Some e => match nth_error pool e with
                                        | Some q => if e_hasqty q
                                                    then {| n_ref := n_ref n; n_eq := n_eq n; n_type := n_type n; n_sub := true |}
                                                    else n
                                        | None => n
                                        end
                            | None => n
                            end) (nodes g);
     edges := fold_left strip_node (nodes g) (edges g) |}.

Definition get_number_graph (s : mstate) : mres (mstate * graph) :=
  match ncache s with
  | Some g => MOk (s, g)
  | None => match get_graph s with
            | MErr e => MErr e
            | MOk (s1, g) =>
                let gn := number_graph g in
                MOk ({| vars := vars s1; names := names s1; cmetas := cmetas s1; eqs := eqs s1; vdef := vdef s1;
                        odef := odef s1; gcache := gcache s1; ncache := Some gn; mcmeta := mcmeta s1;
                        triples := triples s1 |}, gn)
            end
  end.

(* ---- get_equations_for (model.py:372-416) ------------------------------------------------------ *)
Definition var_name (s : mstate) (v : vid) : str :=
  match nth_error (vars s) v with Some r => v_name r | None => [] end.

(* str(node): a Variable prints as its name, a Derivative as "Derivative(_y, _t)" *)
Definition node_key (s : mstate) (r : ref) : str :=
  match r with
  | RVar v => var_name s v
  | RDer v t => [68; 101; 114; 105; 118; 97; 116; 105; 118; 101; 40; 95] ++ var_name s v ++ [44; 32; 95] ++ var_name s t ++ [41]
  end.

Definition preds (g : graph) (r : ref) : list ref :=
  map fst (filter (fun e => ref_eqb (snd e) r) (edges g)).

Definition mem_ref (r : ref) (l : list ref) : bool := existsb (ref_eqb r) l.

(* specification of networkx.lexicographical_topological_sort(key=str): repeatedly emit, among the
   nodes whose predecessors have all been emitted, the one with the least key (ties: insertion order) *)
Definition ready (g : graph) (done : list ref) (r : ref) : bool :=
  negb (mem_ref r done) && forallb (fun p => mem_ref p done) (preds g r).

Fixpoint least (s : mstate) (cands : list ref) (best : option ref) : option ref :=
  match cands with
  | [] => best
  | c :: r => match best with
              | None => least s r (Some c)
              | Some b => if str_ltb (node_key s c) (node_key s b) then least s r (Some c) else least s r best
              end
  end.

Fixpoint lex_topo (fuel : nat) (s : mstate) (g : graph) (done : list ref) : list ref :=
  match fuel with
  | O => done
  | S f =>
      match least s (filter (ready g done) (map n_ref (nodes g))) None with
      | None => done
      | Some r => lex_topo f s g (done ++ [r])
      end
  end.

(* networkx.ancestors: every node with a path to r.  Breadth-first with explicit fuel; None = fuel exhausted
   before the fixpoint (excluded by the theorems, reported as error 8 by the interpreter). *)
Definition add_new (seen : list ref) (cands : list ref) : list ref :=
  fold_left (fun acc r => if mem_ref r acc then acc else acc ++ [r]) cands seen.

Fixpoint ancestors_fuel (fuel : nat) (g : graph) (frontier seen : list ref) : option (list ref) :=
  match fuel with
  | O => None
  | S f =>
      let seen' := add_new seen (flat_map (preds g) frontier) in
      if Nat.eqb (length seen') (length seen) then Some seen
      else ancestors_fuel f g (skipn (length seen) seen') seen'
  end.
Definition ancestors (g : graph) (r : ref) : option (list ref) :=
  ancestors_fuel (S (S (length (nodes g)))) g [r] [].

Definition node_eq (g : graph) (r : ref) : option (eid * bool) :=
  match find (fun n => ref_eqb (n_ref n) r) (nodes g) with
  | Some n => match n_eq n with Some e => Some (e, n_sub n) | None => None end
  | None => None
  end.

Fixpoint all_ancestors (g : graph) (req : list ref) : option (list ref) :=
  match req with
  | [] => Some []
  | r :: t => match ancestors g r, all_ancestors g t with
              | Some a, Some b => Some (a ++ b)
              | _, _ => None
              end
  end.

Definition required_nodes (g : graph) (req : list ref) (recurse : bool) : option (list ref) :=
  if recurse then option_map (app req) (all_ancestors g req)
  else Some (req ++ flat_map (preds g) req).

Definition equations_for (s : mstate) (g : graph) (req : list ref) (recurse : bool) : mres (list (eid * bool)) :=
  if negb (forallb (fun r => has_node (nodes g) r) req) then MErr (if recurse then ENetworkX else EKey)
  else
    match required_nodes g req recurse with
    | None => MErr EFuel
    | Some required =>
        let order := lex_topo (length (nodes g)) s g [] in
        if negb (Nat.eqb (length order) (length (nodes g))) then MErr EUnfeasible
        else MOk (flat_map (fun r => if mem_ref r required
                                     then match node_eq g r with Some x => [x] | None => [] end
                                     else []) order)
    end.

(* ---- role queries (model.py:96-173) --------------------------------------------------------------- *)
Definition get_state_variables (s : mstate) : list vid := sort_by_order (vars s) (map fst (odef s)).

Definition get_free_variable (s : mstate) : mres vid :=
  match odef s with
  | [] => MErr EValue
  | (_, e) :: _ => match eq_lhs e with LDeriv _ t _ _ => MOk t | _ => MErr EBadArg end
  end.

Definition is_constant (s : mstate) (v : vid) : bool :=
  match dget Nat.eqb (vdef s) v with
  | Some e => match nth_error pool e with Some q => match e_atoms q with [] => true | _ => false end | None => false end
  | None => false
  end.

Definition get_derivatives (g : graph) (s : mstate) : list ref :=
  let ds := filter (fun r => match r with RDer _ _ => true | _ => false end) (map n_ref (nodes g)) in
  (* sorted by the state's order_added (stable) *)
  fold_left (fun acc r =>
    (fix ins (l : list ref) : list ref :=
       match l with
       | [] => [r]
       | w :: t =>
           let o x := match x with RDer v _ => match nth_error (vars s) v with Some y => v_order y | None => 0 end | _ => 0 end in
           if Z.ltb (o r) (o w) then r :: w :: t else w :: ins t
       end) acc) ds [].

Definition get_derived_quantities (g : graph) (s : mstate) : list vid :=
  sort_by_order (vars s)
    (flat_map (fun n => match n_ref n with
                        | RVar v => match n_type n with
                                    | Some 1 | Some 2 | Some 3 => []
                                    | _ => [v]
                                    end
                        | RDer _ _ => []
                        end) (nodes g)).

End WithPool.
