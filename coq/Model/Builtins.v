(* Resolution of the generated pint definitions (Gen/Builtins.v) into exponent vectors, and the
   tables the store model consults.  Specification side: which generator each SI dimension is. *)
From Coq Require Import List ZArith QArith Bool String.
From Verif Require Import Sexp UnitAlg UStore Builtins_gen.
Import ListNotations.
Open Scope Z_scope.

Definition dim_table : list (name * Z) :=
  [(N "length", -1); (N "mass", -2); (N "time", -3); (N "current", -4);
   (N "temperature", -5); (N "substance", -6); (N "luminosity", -7)].

Fixpoint nlookup {X} (l : list (name * X)) (n : name) : option X :=
  match l with
  | [] => None
  | (n', x) :: r => if name_eqb n n' then Some x else nlookup r n
  end.

Fixpoint beval (env : list (name * uvec)) (e : uexpr) : option uvec :=
  match e with
  | URef n => nlookup env n
  | UNum q => factorQ q
  | UMul a b => match beval env a, beval env b with Some x, Some y => Some (umul x y) | _, _ => None end
  | UDiv a b => match beval env a, beval env b with Some x, Some y => Some (udiv x y) | _, _ => None end
  | UPow a q => match beval env a with Some x => Some (upow x q) | None => None end
  end.

Definition bdef_eval (env : list (name * uvec)) (d : bdef) : option uvec :=
  match d with
  | BBase dn => match nlookup dim_table dn with Some g => Some [(g, 1%Q)] | None => None end
  | BDimless => Some [(angle_gen, 1%Q)]   (* "radian = []" *)
  | BExpr e => beval env e
  end.

(* one sweep over the definitions: add every definition that can now be evaluated *)
Fixpoint bsweep (defs : list (list name * bdef)) (env : list (name * uvec)) : list (name * uvec) :=
  match defs with
  | [] => env
  | (ns, d) :: r =>
      match ns with
      | n :: _ =>
          match nlookup env n with
          | Some _ => bsweep r env
          | None => match bdef_eval env d with
                    | Some v => bsweep r (map (fun m => (m, v)) ns ++ env)
                    | None => bsweep r env
                    end
          end
      | [] => bsweep r env
      end
  end.

Fixpoint bresolve (fuel : nat) (defs : list (list name * bdef)) (env : list (name * uvec)) :=
  match fuel with
  | O => env
  | S f => bresolve f defs (bsweep defs env)
  end.

Definition builtin_table : list (name * uvec) :=
  bresolve (length builtin_defs) builtin_defs [(N "dimensionless", uone)].

Definition the_tables : tables :=
  {| t_cellml := cellml_units; t_unsupported := unsupported_units; t_builtin := builtin_table |}.
