(* Model of Parser._add_units and Parser._make_pint_unit_definition (parser.py:182-280) on top of the
   unit-store model Model/UStore.v.

   own logic modelled:
     * the first pass over the <units> elements: an element whose base_units attribute equals "yes"
       becomes a new base unit at once, all others (attribute absent or "no") are collected in a deque;
     * the work-list: pop from the right, defer with appendleft when some referenced name is not yet in
       units_found, the [iteration] counter, "raise when iteration > len(definitions_to_add)";
     * the definition string: units, then prefix (table name, else '1e%d' % int(prefix): the model takes the
       integer VALUE, any xsd:integer spelling), then exponent, then multiplier, the offset test
       float(offset) != 0, the parts joined with '*';
     * the duplicate test is_defined(name) and the checks of UnitStore.add_unit / add_base_unit.
   engine modelled at specification level: pint (exponent vectors, exact arithmetic), the definition string is
   the [uexpr] AST.  A new base unit named n is the generator [base_gen n] (pint: the dimension "[storeK_n]"),
   so it is a function of the NAME, not of the order of creation.
   References to names that begin with a digit (finding F2): a name made of digits only is read by pint as
   that number (modelled); any other name beginning with a digit is outside the modelled fragment (the bridge
   answers code 97, the theorems carry the guard [refs_wordlike]).
   No proofs here. *)
From Coq Require Import List ZArith QArith Bool.
From Verif Require Import Sexp UnitAlg UStore Builtins Prefixes_gen.
Import ListNotations.
Open Scope Z_scope.

(* ---- documents after schema validation ----------------------------------------------------- *)
Inductive pfx := PName (n : name) | PInt (z : Z).

(* classes of the offset attribute string: is it a plain unsigned integer, and is its decimal value zero
   (only the value matters to the code since the fix of F3; the spelling classes are kept for the bridge) *)
Inductive offc := OffZeroInt        (* "0", " 0 ", "00"      *)
                | OffNonzeroInt     (* "1", "32"             *)
                | OffZeroOther      (* "0.0", "-0", "0e0"    *)
                | OffNonzeroOther.  (* "1.5", "-273.15"      *)

Record child := mkChild {
  c_units : name;
  c_prefix : option pfx;
  c_exp : option Q;
  c_mult : option Q;
  c_off : option offc }.

(* d_base: None = no base_units attribute, Some true = "yes", Some false = "no" *)
Record udef := mkDef { d_name : name; d_base : option bool; d_children : list child }.

(* 10^z *)
Definition pow10 (z : Z) : Q :=
  if 0 <=? z then inject_Z (10 ^ z) else Qmake 1 (Z.to_pos (10 ^ (- z))).

(* generator of the new base unit called n: injective on names (Proofs/C03P.v: base_gen_inj) *)
Definition gen_radix : Z := 2097152.
Fixpoint name_code (n : name) : Z :=
  match n with
  | [] => 1
  | c :: r => (c mod gen_radix) + gen_radix * name_code r
  end.
Definition base_gen (n : name) : Z := - 100 - name_code n.

(* lexical classes of a referenced name inside the definition string (units.py:66 _WORD, pint's tokenizer) *)
Definition is_digit (c : Z) : bool := (48 <=? c) && (c <=? 57).
Definition wordlike (n : name) : bool :=
  match n with [] => false | c :: _ => negb (is_digit c) end.
Definition all_digits (n : name) : bool :=
  match n with [] => false | _ => forallb is_digit n end.
Definition digits_value (n : name) : Z := fold_left (fun acc c => acc * 10 + (c - 48)) n 0.

Inductive lerr := LValue | LUndefined | LNumber | LAttribute | LStore.
Definition lerr_code (e : lerr) : Z :=
  match e with LValue => 1 | LUndefined => 3 | LNumber => 5 | LAttribute => 8 | LStore => 6 end.
Definition lerr_of (e : err) : lerr :=
  match e with EValue => LValue | EUndefined => LUndefined | ENumber => LNumber | _ => LStore end.

Record lstate := mkL { lw : world; lfound : list name }.
Inductive lres := LOk (st : lstate) | LErr (e : lerr) | LOutOfFuel.

Section WithTables.
Variable T : tables.                 (* _CELLML_UNITS, _UNSUPPORTED_UNITS, resolved cellml_units.txt *)
Variable P : list (name * Q).        (* UNIT_PREFIXES *)

(* `if units_element.get('base_units') == 'yes'` *)
Definition attr_truthy (a : option bool) : bool :=
  match a with Some true => true | _ => false end.
Definition is_base (d : udef) : bool := attr_truthy (d_base d).

(* UNIT_PREFIXES[prefix], on KeyError '1e%d' % int(prefix).  A name missing from the table makes int() raise
   ValueError (not reachable for schema-valid documents while the table is complete: C03_prefix_table). *)
Definition prefix_value (p : pfx) : option Q :=
  match p with
  | PName n => nlookup P n
  | PInt z => Some (pow10 z)
  end.

(* 'offset' in attrib and float(offset) != 0 *)
Definition offset_refused (o : option offc) : bool :=
  match o with
  | Some OffNonzeroInt | Some OffNonzeroOther => true
  | _ => false
  end.

(* the referenced name as pint reads it after _WORD.sub *)
Definition ref_expr (n : name) : uexpr :=
  if all_digits n then UNum (inject_Z (digits_value n)) else URef n.

(* one <unit> element: units, prefix, exponent, multiplier -- in this order *)
Definition child_expr (c : child) : res uexpr :=
  let e0 := ref_expr (c_units c) in
  match (match c_prefix c with
         | None => Ok e0
         | Some p => match prefix_value p with
                     | Some q => Ok (UMul e0 (UNum q))
                     | None => Err EValue
                     end
         end) with
  | Err x => Err x
  | Ok e1 =>
      let e2 := match c_exp c with None => e1 | Some x => UPow e1 x end in
      let e3 := match c_mult c with None => e2 | Some m => UMul (UNum m) e2 end in
      if offset_refused (c_off c) then Err EValue else Ok e3
  end.

(* '*'.join(parts): a left-nested product *)
Fixpoint join_exprs (acc : uexpr) (cs : list child) : res uexpr :=
  match cs with
  | [] => Ok acc
  | c :: r => match child_expr c with
              | Err x => Err x
              | Ok e => join_exprs (UMul acc e) r
              end
  end.

Definition make_definition (cs : list child) : res uexpr :=
  match cs with
  | [] => Ok (UNum 1)       (* not schema-valid: a non-base <units> has at least one <unit> *)
  | c :: r => match child_expr c with
              | Err x => Err x
              | Ok e => join_exprs e r
              end
  end.

(* parse_expression of a string without any unit name returns a bare number: `.units` fails *)
Fixpoint has_ref (e : uexpr) : bool :=
  match e with
  | URef _ => true
  | UNum _ => false
  | UMul a b | UDiv a b => has_ref a || has_ref b
  | UPow a _ => has_ref a
  end.

(* UnitStore.add_base_unit with the name-derived generator *)
Definition add_base_named (w : world) (i : nat) (n : name) : res world :=
  with_store w i (fun s r =>
    if name_in n (t_cellml T) then Err EValue
    else if name_in n (known s) then Err EValue
    else
      let r' := {| entries := (prefix_name T s n, [(base_gen n, 1%Q)]) :: entries r; nbase := nbase r + 1 |} in
      let s' := {| sid := sid s; rid := rid s; known := n :: known s |} in
      Ok {| regs := set_nth (regs w) (rid s) r'; stores := set_nth (stores w) i s'; next_id := next_id w |}).

(* Model(...) creates the store: UnitStore() *)
Definition w0 : world :=
  {| regs := [new_registry T];
     stores := [{| sid := 0; rid := 0; known := t_cellml T |}];
     next_id := 1 |}.

Definition st0 : lstate := {| lw := w0; lfound := t_cellml T |}.

(* The deque is a list whose HEAD IS THE RIGHT END: append = cons, pop() = head, appendleft x = ++ [x]. *)
Fixpoint first_pass (st : lstate) (ds : list udef) (q : list udef) : lres * list udef :=
  match ds with
  | [] => (LOk st, q)
  | d :: r =>
      if is_base d then
        match add_base_named (lw st) 0 (d_name d) with
        | Err x => (LErr (lerr_of x), q)
        | Ok w' => first_pass {| lw := w'; lfound := d_name d :: lfound st |} r q
        end
      else first_pass st r (d :: q)
  end.

Definition refs_found (found : list name) (d : udef) : bool :=
  forallb (fun c => name_in (c_units c) found) (d_children d).

Definition is_defined (w : world) (n : name) : bool :=
  match nth_error (stores w) 0 with Some s => name_in n (known s) | None => false end.

Fixpoint loop (fuel : nat) (st : lstate) (q : list udef) (iteration : nat) : lres :=
  match fuel with
  | O => LOutOfFuel
  | S f =>
      match q with
      | [] => LOk st
      | d :: q' =>
          if refs_found (lfound st) d then
            match make_definition (d_children d) with
            | Err x => LErr (lerr_of x)
            | Ok e =>
                if is_defined (lw st) (d_name d) then LErr LValue
                else match add_unit T (lw st) 0 (d_name d) e with
                     | Err x => LErr (lerr_of x)
                     | Ok w' =>
                         if has_ref e then loop f {| lw := w'; lfound := d_name d :: lfound st |} q' 0
                         else LErr LAttribute
                     end
            end
          else
            let q'' := q' ++ [d] in
            let it := S iteration in
            if (length q'' <? it)%nat then LErr LValue
            else loop f st q'' it
      end
  end.

Fixpoint tri (n : nat) : nat := match n with O => 1%nat | S k => (tri k + k + 3)%nat end.
Definition fuel_for (q : list udef) : nat := S (tri (length q)).

Definition add_units (ds : list udef) : lres :=
  match first_pass st0 ds [] with
  | (LOk st, q) => loop (fuel_for q) st q 0
  | (r, _) => r
  end.

Definition unit_of (st : lstate) (n : name) : res uvec := get_unit T (lw st) 0 n.

End WithTables.

(* the fragment in which the CellML reading and the code agree (twin of the KNOWN_FINDINGS predicate F2) *)
Definition refs_wordlike (ds : list udef) : bool :=
  forallb (fun d => forallb (fun c => wordlike (c_units c)) (d_children d)) ds.
Definition refs_modelled (ds : list udef) : bool :=
  forallb (fun d => forallb (fun c => wordlike (c_units c) || all_digits (c_units c)) (d_children d)) ds.

(* ---- bridge -------------------------------------------------------------------------------- *)
(* definition  = (name base children)      base: 0 absent | 1 "yes" | 2 "no"
   child       = (units prefix exponent multiplier offset)
   prefix      = () | (0 name) | (1 z)     exponent, multiplier = () | ((num den))
   offset      = 0 absent | 1 OffZeroInt | 2 OffNonzeroInt | 3 OffZeroOther | 4 OffNonzeroOther
   result      = (0 ((name vector) ...))  for every definition, in document order
               | (-1 code)    1 ValueError, 3 UndefinedUnitError, 5 number not modelled, 8 AttributeError,
                              96 out of fuel, 97 reference outside the modelled fragment (F2) *)
Definition pfx_of_sexp (x : sexp) : option pfx :=
  match x with
  | L [A 0; n] => Some (PName (name_of_sexp n))
  | L [A 1; A z] => Some (PInt z)
  | _ => None
  end.

Definition offc_of_sexp (x : sexp) : option offc :=
  match sZ x with
  | 1 => Some OffZeroInt | 2 => Some OffNonzeroInt | 3 => Some OffZeroOther | 4 => Some OffNonzeroOther
  | _ => None
  end.

Definition child_of_sexp (x : sexp) : child :=
  match x with
  | L [u; p; e; m; o] =>
      mkChild (name_of_sexp u) (pfx_of_sexp p) (opt_of_sexp Q_of_sexp e) (opt_of_sexp Q_of_sexp m) (offc_of_sexp o)
  | _ => mkChild [] None None None None
  end.

Definition udef_of_sexp (x : sexp) : udef :=
  match x with
  | L [n; b; cs] =>
      mkDef (name_of_sexp n)
            (match sZ b with 1 => Some true | 2 => Some false | _ => None end)
            (map child_of_sexp (sL cs))
  | _ => mkDef [] None []
  end.

Definition sname (n : name) : sexp := L (map A n).

(* @run 30 run_units_loader *)
Definition run_units_loader (x : sexp) : sexp :=
  let ds := map udef_of_sexp (sL x) in
  if negb (refs_modelled ds) then serr 97 else
  match add_units the_tables unit_prefixes ds with
  | LOutOfFuel => serr 96
  | LErr e => serr (lerr_code e)
  | LOk st =>
      L [A 0; L (map (fun d => L [sname (d_name d);
                                  match unit_of the_tables st (d_name d) with
                                  | Ok v => L [A 0; svec (scale v); svec (dims v ++ angle v)]
                                  | Err e => serr_of e
                                  end]) ds)]
  end.
