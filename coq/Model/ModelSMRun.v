(* Interpreter of API-call histories on the Model state machine (C08, C09, C10, C13 correspondence). *)
From Coq Require Import List ZArith QArith Bool.
From Verif Require Import Sexp ModelSM.
Import ListNotations.
Open Scope Z_scope.

Definition str_of_sexp (x : sexp) : str := map sZ (sL x).
Definition sstr (s : str) : sexp := L (map A s).

Definition ref_of_sexp (x : sexp) : ref :=
  match x with
  | L [A 0; v] => RVar (nat_of_sexp v)
  | L [A 1; v; t] => RDer (nat_of_sexp v) (nat_of_sexp t)
  | _ => RVar 0%nat
  end.
Definition sref (r : ref) : sexp :=
  match r with RVar v => L [A 0; snat v] | RDer v t => L [A 1; snat v; snat t] end.

Definition lhs_of_sexp (x : sexp) : lhs :=
  match x with
  | L [A 0; v] => LVar (nat_of_sexp v)
  | L [A 1; v; t; o; n] => LDeriv (nat_of_sexp v) (nat_of_sexp t) (sZ o) (sZ n)
  | _ => LOther
  end.

Definition eqrec_of_sexp (x : sexp) : eqrec :=
  match x with
  | L [l; refs; isq; hasq; refsn; atoms] =>
      {| e_lhs := lhs_of_sexp l; e_refs := map ref_of_sexp (sL refs); e_isqty := bool_of_sexp isq;
         e_hasqty := bool_of_sexp hasq; e_refs_num := map ref_of_sexp (sL refsn);
         e_atoms := map nat_of_sexp (sL atoms) |}
  | _ => {| e_lhs := LOther; e_refs := []; e_isqty := false; e_hasqty := false; e_refs_num := []; e_atoms := [] |}
  end.

Definition smerr (e : merr) : sexp := serr (merr_code e).
Definition sgraph (g : graph) : sexp :=
  L [L (map (fun n => L [sref (n_ref n); sopt snat (n_eq n); sopt A (n_type n); sbool (n_sub n)]) (nodes g));
     L (map (fun e => L [sref (fst e); sref (snd e)]) (edges g))].

(* guards shared with the Python runner: calls that hand the model dead or unknown objects are API
   misuse (finding F16) and are skipped on both sides with code 9 *)
Definition live (s : mstate) (v : vid) : bool :=
  match nth_error (vars s) v with Some r => v_live r | None => false end.
Definition ref_vars (r : ref) : list vid := match r with RVar v => [v] | RDer v t => [v; t] end.
Definition eq_alive (pool : list eqrec) (s : mstate) (e : eid) : bool :=
  match nth_error pool e with
  | None => false
  | Some q => forallb (live s) (match e_lhs q with LVar v => [v] | LDeriv v t _ _ => [v; t] | LOther => [] end
                                ++ flat_map ref_vars (e_refs q) ++ e_atoms q)
  end.

Definition eq_mentions (pool : list eqrec) (v : vid) (e : eid) : bool :=
  match nth_error pool e with
  | None => false
  | Some q => existsb (Nat.eqb v) (match e_lhs q with LVar w => [w] | LDeriv w t _ _ => [w; t] | LOther => [] end
                                   ++ flat_map ref_vars (e_refs q) ++ e_atoms q)
  end.
(* a variable may be removed only if no other equation of the model still mentions it *)
Definition rmvar_ok (pool : list eqrec) (s : mstate) (v : vid) : bool :=
  forallb (fun e => match get_definition s v with
                    | Some d => Nat.eqb d e || negb (eq_mentions pool v e)
                    | None => negb (eq_mentions pool v e)
                    end) (eqs s).

Definition guard_ok (pool : list eqrec) (s : mstate) (x : sexp) : bool :=
  match x with
  | L [A 2; v] => live s (nat_of_sexp v) && rmvar_ok pool s (nat_of_sexp v)
  | L [A 8; v; _] => live s (nat_of_sexp v)
  | L [A 5; v] | L [A 11; v] | L [A 17; v] | L [A 24; v] | L [A 25; v] => live s (nat_of_sexp v)
  | L [A 6; a; b] => live s (nat_of_sexp a) && live s (nat_of_sexp b)
  | L [A 3; e; _] | L [A 4; e] => eq_alive pool s (nat_of_sexp e)
  | L [A 20; req; _; _] => forallb (live s) (flat_map (fun r => ref_vars (ref_of_sexp r)) (sL req))
  | _ => true
  end.

Definition sm_op (pool : list eqrec) (s : mstate) (x : sexp) : mstate * sexp :=
  if negb (guard_ok pool s x) then (s, serr 9) else
  match x with
  | L [A 1; n; c; i] =>
      match add_variable s (str_of_sexp n) (opt_of_sexp str_of_sexp c) (opt_of_sexp Q_of_sexp i) with
      | MOk (s', v) => (s', L [A 0; snat v])
      | MErr e => (s, smerr e)
      end
  | L [A 2; v] => match remove_variable pool s (nat_of_sexp v) with MOk s' => (s', L [A 0]) | MErr e => (s, smerr e) end
  | L [A 3; e; c] => match add_equation pool s (nat_of_sexp e) (bool_of_sexp c) with MOk s' => (s', L [A 0]) | MErr e => (s, smerr e) end
  | L [A 4; e] => match remove_equation pool s (nat_of_sexp e) with MOk s' => (s', L [A 0]) | MErr e => (s, smerr e) end
  | L [A 5; v] => match add_cmeta_id s (nat_of_sexp v) with MOk s' => (s', L [A 0]) | MErr e => (s, smerr e) end
  | L [A 6; a; b] => match transfer_cmeta_id s (nat_of_sexp a) (nat_of_sexp b) with MOk s' => (s', L [A 0]) | MErr e => (s, smerr e) end
  | L [A 7; subj; p; o] => (add_triple s (str_of_sexp subj) (sZ p) (sZ o), L [A 0])
  | L [A 8; v; i] =>   (* variable.initial_value = x  (plain attribute assignment; no cache is involved) *)
      ({| vars := upd_var s (nat_of_sexp v) (fun r => {| v_name := v_name r; v_cmeta := v_cmeta r; v_order := v_order r;
                                                         v_live := v_live r; v_init := opt_of_sexp Q_of_sexp i |});
          names := names s; cmetas := cmetas s; eqs := eqs s; vdef := vdef s; odef := odef s; gcache := gcache s;
          ncache := ncache s; mcmeta := mcmeta s; triples := triples s |}, L [A 0])
  | L [A 10] => (s, L [A 0; L (map snat (eqs s))])
  | L [A 11; v] => (s, L [A 0; sopt snat (get_definition s (nat_of_sexp v))])
  | L [A 12] => (s, L [A 0; L (map snat (get_state_variables s))])
  | L [A 13] => match get_graph pool s with MOk (s', g) => (s', L [A 0; sgraph g]) | MErr e => (s, smerr e) end
  | L [A 14] => match get_number_graph pool s with MOk (s', g) => (s', L [A 0; sgraph g]) | MErr e => (s, smerr e) end
  | L [A 15] => (s, L [A 0; L (map (fun nv => snat (snd nv)) (names s))])
  | L [A 16] => (s, match get_free_variable pool s with MOk v => L [A 0; snat v] | MErr e => smerr e end)
  | L [A 17; v] => (s, L [A 0; sbool (is_constant pool s (nat_of_sexp v))])
  | L [A 18] => match get_graph pool s with
                | MOk (s', g) => (s', L [A 0; L (map sref (get_derivatives g s'))])
                | MErr e => (s, smerr e) end
  | L [A 19] => match get_graph pool s with
                | MOk (s', g) => (s', L [A 0; L (map snat (get_derived_quantities g s'))])
                | MErr e => (s, smerr e) end
  | L [A 20; req; rec; strip] =>
      match (if bool_of_sexp strip then get_number_graph pool s else get_graph pool s) with
      | MErr e => (s, smerr e)
      | MOk (s', g) =>
          (s', match equations_for s' g (map ref_of_sexp (sL req)) (bool_of_sexp rec) with
               | MOk l => L [A 0; L (map (fun eb => L [snat (fst eb); sbool (snd eb)]) l)]
               | MErr e => smerr e
               end)
      end
  | L [A 21; c] => (s, match get_variable_by_cmeta_id s (str_of_sexp c) with MOk v => L [A 0; snat v] | MErr e => smerr e end)
  | L [A 22; p; o] => (s, match get_variables_by_rdf s (sZ p) (sZ o) with MOk l => L [A 0; L (map snat l)] | MErr e => smerr e end)
  | L [A 23; c] => (s, L [A 0; sbool (has_cmeta_id s (str_of_sexp c))])
  | L [A 24; v] => (s, L [A 0; sopt sstr (match nth_error (vars s) (nat_of_sexp v) with Some r => v_cmeta r | None => None end)])
  | L [A 25; v] => (s, L [A 0; L (map (fun po => L [A (fst po); A (snd po)]) (annotations_of s (nat_of_sexp v)))])
  | _ => (s, serr 99)
  end.

Fixpoint sm_ops (pool : list eqrec) (s : mstate) (ops : list sexp) : list sexp :=
  match ops with
  | [] => []
  | o :: r => let sr := sm_op pool s o in snd sr :: sm_ops pool (fst sr) r
  end.

(* input: (model-cmeta-option pool ops) *)
(* @run 80 run_modelsm *)
Definition run_modelsm (x : sexp) : sexp :=
  match x with
  | L [mc; pool; ops] => L (sm_ops (map eqrec_of_sexp (sL pool)) (init_state (opt_of_sexp str_of_sexp mc)) (sL ops))
  | _ => serr 97
  end.
