(* Interpreter for C10: the ModelSM operations plus get_value. *)
From Coq Require Import List ZArith QArith Bool.
From Verif Require Import Sexp Expr ModelSM ModelSMRun ModelValue.
Import ListNotations.
Open Scope Z_scope.

Definition mv_op (pool : list eqrec) (rhs : list expr) (s : mstate) (x : sexp) : mstate * sexp :=
  match x with
  | L [A 30; v] =>
      if negb (live s (nat_of_sexp v)) then (s, serr 9)
      else (s, match get_value pool rhs (2 * (length (vars s) + length (odef s)) + 4) s (nat_of_sexp v) with
               | VOk q => L [A 0; sQ (Qred q)]
               | VErr e => serr (verr_code e)
               end)
  | _ => sm_op pool s x
  end.

Fixpoint mv_ops (pool : list eqrec) (rhs : list expr) (s : mstate) (ops : list sexp) : list sexp :=
  match ops with
  | [] => []
  | o :: r => let sr := mv_op pool rhs s o in snd sr :: mv_ops pool rhs (fst sr) r
  end.

(* input: (model-cmeta-option pool rhs-trees ops) *)
(* @run 100 run_modelvalue *)
Definition run_modelvalue (x : sexp) : sexp :=
  match x with
  | L [mc; pool; rhs; ops] =>
      L (mv_ops (map eqrec_of_sexp (sL pool)) (map expr_of_sexp (sL rhs))
                (init_state (opt_of_sexp str_of_sexp mc)) (sL ops))
  | _ => serr 97
  end.
