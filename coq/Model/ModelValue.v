(* Model.get_value (model.py:331-370) on top of ModelSM: recursive evaluation with memoisation, states at
   their initial values, the free variable at 0.  Right-hand sides are Expr trees; numbers are evaluated exactly
   in Q on the rational fragment (+, *, integer powers of non-zero bases) -- the harness generates only such
   right-hand sides, so the reference value is exact.  A derivative atom on a right-hand side takes the value of the
   right-hand side of its ODE (Model._evaluate, after the fix: commit for finding F9).  No proofs here. *)
From Coq Require Import List ZArith QArith Bool.
From Verif Require Import Sexp Expr ModelSM.
Import ListNotations.
Open Scope Z_scope.

(* exact evaluation on the rational fragment; None = outside the fragment or undefined (0 to a negative power) *)
Definition Qpow (b : Q) (n : Z) : option Q :=
  if Qeq_bool b 0 then (if 0 <? n then Some 0%Q else if n =? 0 then Some 1%Q else None)
  else Some (Qpower b n).

Fixpoint evalQ (env : Z -> option Q) (denv : Z -> Z -> option Q) (e : expr) : option Q :=
  let fix sumQ (l : list expr) : option Q :=
    match l with
    | [] => Some 0%Q
    | x :: r => match evalQ env denv x, sumQ r with Some a, Some b => Some (a + b)%Q | _, _ => None end
    end in
  let fix prodQ (l : list expr) : option Q :=
    match l with
    | [] => Some 1%Q
    | x :: r => match evalQ env denv x, prodQ r with Some a, Some b => Some (a * b)%Q | _, _ => None end
    end in
  match e with
  | ENum _ q => Some q
  | EQty _ q _ => Some q
  | EVar v => env v
  | EDeriv (EVar y) (EVar t) 1 => denv y t
  | EAdd l => sumQ l
  | EMul l => prodQ l
  | EPow b (ENum 0 n) => match evalQ env denv b with
                         | Some x => if Zpos (Qden n) =? 1 then Qpow x (Qnum n) else None
                         | None => None
                         end
  | _ => None
  end.

Fixpoint has_deriv (e : expr) : bool :=
  let fix any (l : list expr) : bool := match l with [] => false | x :: r => has_deriv x || any r end in
  match e with
  | EDeriv _ _ _ => true
  | EAdd l | EMul l | EFn _ l | EBool _ l => any l
  | EPow b x => has_deriv b || has_deriv x
  | ERel _ a b => has_deriv a || has_deriv b
  | EPw l => (fix anyp (l : list (expr * expr)) : bool :=
                match l with [] => false | (x, c) :: r => has_deriv x || has_deriv c || anyp r end) l
  | _ => false
  end.

Inductive verr := VValue | VType | VFuel | VOutside.
Definition verr_code (e : verr) : Z := match e with VValue => 1 | VType => 7 | VFuel => 8 | VOutside => 10 end.
Inductive vres (T : Type) := VOk (x : T) | VErr (e : verr).
Arguments VOk {T} x. Arguments VErr {T} e.

Section WithPool.
Variable pool : list eqrec.
Variable rhs : list expr.          (* right-hand side of pool equation e, variables = EVar (Z.of_nat vid) *)

Definition memo := list (vid * Q).
Definition mget (m : memo) (v : vid) : option Q := dget Nat.eqb m v.
(* the entries of `evaluated` keyed by a Derivative object *)
Definition pair_eqb (a b : vid * vid) : bool := Nat.eqb (fst a) (fst b) && Nat.eqb (snd a) (snd b).
Definition dmemo := list ((vid * vid) * Q).
Definition dmget (m : dmemo) (y t : vid) : option Q := dget pair_eqb m (y, t).

Definition free_of (s : mstate) : option vid :=
  match get_free_variable pool s with MOk t => Some t | MErr _ => None end.

(* the dictionary `evaluated` as first created: every state at its initial value, time at 0.
   A state without initial value makes float(None) raise TypeError in the code: code 7 *)
Definition initial_memo (s : mstate) : memo :=
  (* evaluated[time] = 0 is assigned last and therefore wins over a state entry for the same variable *)
  match free_of s with Some t => [(t, 0%Q)] | None => [] end ++
  flat_map (fun ve => match nth_error (vars s) (fst ve) with
                      | Some r => match v_init r with Some q => [(fst ve, q)] | None => [] end
                      | None => [] end) (odef s).

(* value_of = Model._get_value(variable, evaluated); eval_rhs = Model._evaluate(expr, evaluated) for the right-hand side x
   of pool equation q: first every derivative atom (value of the right-hand side of its ODE), then every variable, then
   the arithmetic *)
Fixpoint value_of (fuel : nat) (s : mstate) (m : memo * dmemo) (v : vid) : vres (Q * (memo * dmemo)) :=
  match fuel with
  | O => VErr VFuel
  | S f =>
      if dhas Nat.eqb (odef s) v then
        match nth_error (vars s) v with
        | Some r => match v_init r with Some q => VOk (q, m) | None => VErr VType end
        | None => VErr VType
        end
      else
        match dget Nat.eqb (vdef s) v with
        | None =>
            match odef s, free_of s with
            | _ :: _, Some t => if Nat.eqb t v then VOk (0%Q, m) else VErr VValue
            | _, _ => VErr VValue
            end
        | Some e =>
            match nth_error pool e, nth_error rhs e with
            | Some q, Some x => eval_rhs f s m q x
            | _, _ => VErr VOutside
            end
        end
  end
with eval_rhs (fuel : nat) (s : mstate) (m : memo * dmemo) (q : eqrec) (x : expr) : vres (Q * (memo * dmemo)) :=
  match fuel with
  | O => VErr VFuel
  | S f =>
      (* for deriv in expr.atoms(Derivative): if deriv not in evaluated: evaluated[deriv] = self._evaluate(ode.rhs, evaluated) *)
      let ders :=
        fold_left (fun acc r =>
          match acc, r with
          | VErr e, _ => VErr e
          | VOk m', RVar _ => VOk m'
          | VOk m', RDer y t =>
              match dmget (snd m') y t with
              | Some _ => VOk m'
              | None =>
                  match dget Nat.eqb (odef s) y with
                  | None => VErr VValue                              (* 'No definition set for Derivative(...)' *)
                  | Some e' =>
                      match nth_error pool e', nth_error rhs e' with
                      | Some q', Some x' =>
                          match e_lhs q' with
                          | LDeriv y' t' _ _ =>
                              if Nat.eqb y' y && Nat.eqb t' t then
                                match eval_rhs f s m' q' x' with
                                | VOk (r0, m'') => VOk (fst m'', dset pair_eqb (snd m'') (y, t) r0)
                                | VErr e => VErr e
                                end
                              else VErr VValue
                          | _ => VErr VValue
                          end
                      | _, _ => VErr VOutside
                      end
                  end
              end
          end) (e_refs q) (VOk m) in
      match ders with
      | VErr e => VErr e
      | VOk m1 =>
          (* for dep in deps: if dep not in evaluated: evaluated[dep] = self._get_value(dep, evaluated) *)
          let deps :=
            fold_left (fun acc d =>
              match acc with
              | VErr e => VErr e
              | VOk m' => match mget (fst m') d with
                          | Some _ => VOk m'
                          | None =>
                              (* every state is a key of `evaluated`, with value None when it has no initial value *)
                              if dhas Nat.eqb (odef s) d then VOk m' else
                                    match value_of f s m' d with
                                    | VOk (x0, m'') => VOk (dset Nat.eqb (fst m'') d x0, snd m'')
                                    | VErr e => VErr e
                                    end
                          end
              end) (e_atoms q) (VOk m1) in
          match deps with
          | VErr e => VErr e
          | VOk m2 =>
              (* xreplace puts None where a state without initial value is read outside a derivative atom: the arithmetic
                 then raises (SympifyError / AttributeError / TypeError) *)
              if existsb (fun r => match r with
                                   | RVar v => dhas Nat.eqb (odef s) v &&
                                               match mget (fst m2) v with Some _ => false | None => true end
                                   | RDer _ _ => false
                                   end) (e_refs q) then VErr VType else
              match evalQ (fun z => mget (fst m2) (Z.to_nat z)) (fun y t => dmget (snd m2) (Z.to_nat y) (Z.to_nat t)) x with
              | Some r => VOk (r, m2)
              | None => VErr VOutside
              end
          end
      end
  end.

(* get_value: the memo dictionary is created on first need; creating it evaluates float(initial_value) lazily in the
   code only through the dict, so a state without initial value only matters when it is used *)
Definition get_value (fuel : nat) (s : mstate) (v : vid) : vres Q :=
  match value_of fuel s (initial_memo s, []) v with
  | VOk (x, _) => VOk x
  | VErr e => VErr e
  end.

End WithPool.
