(* Model of cellmlmanip.units.UnitStore (units.py:72-406) over the exponent-vector algebra.

   own logic modelled:  per-store name prefixing (_prefix_name), known-name sets, the
   redefinition checks of add_unit / add_base_unit, get_unit, is_equivalent,
   get_conversion_factor (isclose -> 1), convert, format(base_units=True), and stores that
   share one registry.
   engine modelled at specification level: pint's registry (a map from qualified names to
   exponent vectors) and its expression parser (the [uexpr] AST; the harness writes the same
   AST as the string handed to pint).  No proofs here. *)
From Coq Require Import List ZArith QArith Bool String Ascii.
From Verif Require Import Sexp UnitAlg.
Import ListNotations.
Open Scope Z_scope.

(* names are lists of character codes *)
Definition name := list Z.
Fixpoint name_eqb (a b : name) : bool :=
  match a, b with
  | [], [] => true
  | x :: a', y :: b' => Z.eqb x y && name_eqb a' b'
  | _, _ => false
  end.
Definition name_in (n : name) (l : list name) : bool := existsb (name_eqb n) l.

(* names written as Coq strings in hand-written tables *)
Definition N (s : String.string) : name :=
  map (fun c => Z.of_N (Ascii.N_of_ascii c)) (String.list_ascii_of_string s).

(* unit expressions, as handed to pint in a string *)
Inductive uexpr :=
| URef (n : name)
| UNum (q : Q)
| UMul (a b : uexpr)
| UDiv (a b : uexpr)
| UPow (a : uexpr) (q : Q).

(* a line of the pint definitions file *)
Inductive bdef := BBase (dim : name) | BDimless | BExpr (e : uexpr).

(* ---- positive rationals as prime-exponent vectors ---------------------------------------- *)
Definition small_primes : list Z :=
  [2; 3; 5; 7; 11; 13; 17; 19; 23; 29; 31; 37; 41; 43; 47; 53; 59; 61; 67; 71; 73; 79; 83; 89; 97].

Fixpoint divcount (fuel : nat) (n p : Z) : Z * Z :=
  match fuel with
  | O => (0, n)
  | S f => if (1 <? n) && (n mod p =? 0)
           then let cr := divcount f (n / p) p in (fst cr + 1, snd cr)
           else (0, n)
  end.

Fixpoint factorZ (ps : list Z) (n : Z) : list (Z * Z) * Z :=
  match ps with
  | [] => ([], n)
  | p :: r => let cr := divcount (S (Z.to_nat (Z.log2 n))) n p in
              let rest := factorZ r (snd cr) in
              (if fst cr =? 0 then fst rest else (p, fst cr) :: fst rest, snd rest)
  end.

Definition factorQ (q : Q) : option uvec :=
  if Qnum q <=? 0 then None else
  let fa := factorZ small_primes (Qnum q) in
  let fb := factorZ small_primes (Zpos (Qden q)) in
  if (snd fa =? 1) && (snd fb =? 1)
  then Some (map (fun pc => (fst pc, inject_Z (snd pc))) (fst fa) ++
             map (fun pc => (fst pc, inject_Z (- snd pc))) (fst fb))
  else None.

(* ---- registries and stores ---------------------------------------------------------------- *)
(* qualified name: store id (-1 for the un-prefixed CellML built-ins) and the user's name *)
Definition qname := (Z * name)%type.
Definition qname_eqb (a b : qname) : bool := Z.eqb (fst a) (fst b) && name_eqb (snd a) (snd b).

Record registry := { entries : list (qname * uvec); nbase : Z }.

Fixpoint rlookup (l : list (qname * uvec)) (q : qname) : option uvec :=
  match l with
  | [] => None
  | (q', v) :: r => if qname_eqb q q' then Some v else rlookup r q
  end.

Record store := { sid : Z; rid : nat; known : list name }.

Record world := { regs : list registry; stores : list store; next_id : Z }.

Inductive err := EValue | EKey | EUndefined | EDimension | ENumber | EBadStore.
Definition err_code (e : err) : Z :=
  match e with EValue => 1 | EKey => 2 | EUndefined => 3 | EDimension => 4 | ENumber => 5 | EBadStore => 6 end.

Inductive res (T : Type) := Ok (x : T) | Err (e : err).
Arguments Ok {T} x. Arguments Err {T} e.

(* tables the store consults; instantiated from the generated Gen/Builtins.v *)
Record tables := { t_cellml : list name; t_unsupported : list name; t_builtin : list (name * uvec) }.

Section WithTables.
Variable T : tables.

Definition prefix_name (s : store) (n : name) : qname :=
  if name_in n (t_cellml T) then (-1, n) else (sid s, n).

Definition builtin_entries : list (qname * uvec) :=
  map (fun nv => ((-1, fst nv), snd nv)) (t_builtin T).

Definition new_registry : registry := {| entries := builtin_entries; nbase := 0 |}.

Definition init_world : world := {| regs := []; stores := []; next_id := 0 |}.

(* UnitStore(store=None | other) *)
Definition new_store (w : world) (share : option nat) : res (world * Z) :=
  match share with
  | None =>
      let s := {| sid := next_id w; rid := length (regs w); known := t_cellml T |} in
      Ok ({| regs := regs w ++ [new_registry]; stores := stores w ++ [s]; next_id := next_id w + 1 |},
          next_id w)
  | Some i =>
      match nth_error (stores w) i with
      | None => Err EBadStore
      | Some o =>
          let s := {| sid := next_id w; rid := rid o; known := t_cellml T |} in
          Ok ({| regs := regs w; stores := stores w ++ [s]; next_id := next_id w + 1 |}, next_id w)
      end
  end.

(* evaluation of a definition string inside store s: every word is prefixed, then looked up *)
Fixpoint ueval (r : registry) (s : store) (e : uexpr) : res uvec :=
  match e with
  | URef n => match rlookup (entries r) (prefix_name s n) with Some v => Ok v | None => Err EUndefined end
  | UNum q => match factorQ q with Some v => Ok v | None => Err ENumber end
  | UMul a b => match ueval r s a, ueval r s b with
                | Ok x, Ok y => Ok (umul x y) | Err e, _ => Err e | _, Err e => Err e end
  | UDiv a b => match ueval r s a, ueval r s b with
                | Ok x, Ok y => Ok (udiv x y) | Err e, _ => Err e | _, Err e => Err e end
  | UPow a q => match ueval r s a with Ok x => Ok (upow x q) | Err e => Err e end
  end.

Fixpoint set_nth {X} (l : list X) (i : nat) (x : X) : list X :=
  match l, i with
  | [], _ => []
  | _ :: r, O => x :: r
  | y :: r, S j => y :: set_nth r j x
  end.

Definition with_store (w : world) (i : nat) {X} (f : store -> registry -> res X) : res X :=
  match nth_error (stores w) i with
  | None => Err EBadStore
  | Some s => match nth_error (regs w) (rid s) with
              | None => Err EBadStore
              | Some r => f s r
              end
  end.

(* add_unit (units.py:143-182) *)
Definition add_unit (w : world) (i : nat) (n : name) (e : uexpr) : res world :=
  with_store w i (fun s r =>
    if name_in n (t_cellml T) then Err EValue
    else if name_in n (known s) then Err EValue
    else if name_in n (t_unsupported T) then Err EValue
    else match ueval r s e with
         | Err x => Err x
         | Ok v =>
             let r' := {| entries := (prefix_name s n, v) :: entries r; nbase := nbase r |} in
             let s' := {| sid := sid s; rid := rid s; known := n :: known s |} in
             Ok {| regs := set_nth (regs w) (rid s) r'; stores := set_nth (stores w) i s'; next_id := next_id w |}
         end).

(* add_base_unit (units.py:184-204): a fresh dimension generator *)
Definition add_base_unit (w : world) (i : nat) (n : name) : res world :=
  with_store w i (fun s r =>
    if name_in n (t_cellml T) then Err EValue
    else if name_in n (known s) then Err EValue
    else
      let g := - 100 - nbase r in
      let r' := {| entries := (prefix_name s n, [(g, 1%Q)]) :: entries r; nbase := nbase r + 1 |} in
      let s' := {| sid := sid s; rid := rid s; known := n :: known s |} in
      Ok {| regs := set_nth (regs w) (rid s) r'; stores := set_nth (stores w) i s'; next_id := next_id w |}).

(* get_unit (units.py:210-222) *)
Definition get_unit (w : world) (i : nat) (n : name) : res uvec :=
  with_store w i (fun s r =>
    if name_in n (t_unsupported T) then Err EKey
    else if negb (name_in n (known s)) then Err EKey
    else match rlookup (entries r) (prefix_name s n) with Some v => Ok v | None => Err EUndefined end).

(* Unit objects built by the caller from get_unit results with *, / and ** *)
Inductive uterm :=
| TGet (i : nat) (n : name)
| TMul (a b : uterm) | TDiv (a b : uterm) | TPow (a : uterm) (q : Q).

Fixpoint teval (w : world) (t : uterm) : res uvec :=
  match t with
  | TGet i n => get_unit w i n
  | TMul a b => match teval w a, teval w b with
                | Ok x, Ok y => Ok (umul x y) | Err e, _ => Err e | _, Err e => Err e end
  | TDiv a b => match teval w a, teval w b with
                | Ok x, Ok y => Ok (udiv x y) | Err e, _ => Err e | _, Err e => Err e end
  | TPow a q => match teval w a with Ok x => Ok (upow x q) | Err e => Err e end
  end.

(* get_conversion_factor (units.py:267-282): [inl tt] is the integer 1 returned after isclose *)
Definition conversion_factor (a b : uvec) : res (unit + uvec) :=
  match conv a b with
  | None => Err EDimension
  | Some c => if is_one c then Ok (inl tt) else Ok (inr c)
  end.

(* convert (units.py:284-297): magnitude q in unit a  |->  magnitude q * Π p^e in unit b *)
Definition convert (q : Q) (a b : uvec) : res (Q * uvec * uvec) :=
  match conv a b with
  | None => Err EDimension
  | Some c => Ok (q, c, b)
  end.

Definition is_equivalent (a b : uvec) : bool := equivb a b.

End WithTables.

(* ---- bridge -------------------------------------------------------------------------------- *)
Definition name_of_sexp (x : sexp) : name := map sZ (sL x).

Fixpoint uexpr_of_sexp (x : sexp) : uexpr :=
  match x with
  | L [A 0; n] => URef (name_of_sexp n)
  | L [A 1; q] => UNum (Q_of_sexp q)
  | L [A 2; a; b] => UMul (uexpr_of_sexp a) (uexpr_of_sexp b)
  | L [A 3; a; b] => UDiv (uexpr_of_sexp a) (uexpr_of_sexp b)
  | L [A 4; a; q] => UPow (uexpr_of_sexp a) (Q_of_sexp q)
  | _ => UNum 1
  end.

Fixpoint uterm_of_sexp (x : sexp) : uterm :=
  match x with
  | L [A 0; i; n] => TGet (nat_of_sexp i) (name_of_sexp n)
  | L [A 2; a; b] => TMul (uterm_of_sexp a) (uterm_of_sexp b)
  | L [A 3; a; b] => TDiv (uterm_of_sexp a) (uterm_of_sexp b)
  | L [A 4; a; q] => TPow (uterm_of_sexp a) (Q_of_sexp q)
  | _ => TGet 0 []
  end.

Definition svec (v : uvec) : sexp :=
  L (map (fun ke => L [A (fst ke); sQ (snd ke)]) (canon v)).

Definition serr_of (e : err) : sexp := serr (err_code e).
