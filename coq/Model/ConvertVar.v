(* Model.convert_variable (model.py:738-868) and its helpers (910-1048) over full expression trees.
   Variables are indices; EVar (Z.of_nat i) refers to variable i; EQty id q u refers to entry u of the unit table.
   Mirrors the order of effects of the code (equations removed and re-appended, new variables appended).
   The conversion factor is numeric (rational): symbolic factors from conversion rules are covered by C19's oracle.
   No proofs here. *)
From Coq Require Import List ZArith QArith Bool.
From Verif Require Import Sexp UnitAlg Expr ModelSM.
Import ListNotations.
Open Scope Z_scope.

Record cvar := { c_name : str; c_unit : uvec; c_init : option Q; c_cmeta : option str }.
Inductive clhs := CLV (v : nat) | CLD (v t : nat).
Record ceq := { q_lhs : clhs; q_rhs : expr }.

Record cstate := {
  cvars : list cvar;
  ceqs : list ceq;
  cunits : list uvec;      (* unit table the quantities index into *)
  cqnext : Z               (* next fresh quantity id *)
}.

Inductive cerr := CDimension | CAssert | CBad | CNotRational.
Definition cerr_code (e : cerr) : Z := match e with CDimension => 4 | CAssert => 3 | CBad => 9 | CNotRational => 5 end.
Inductive cres (T : Type) := COk (x : T) | CErr (e : cerr).
Arguments COk {T} x. Arguments CErr {T} e.

Definition var (i : nat) : expr := EVar (Z.of_nat i).
Definition emul (a b : expr) : expr := EMul [a; b].
Definition ediv (a b : expr) : expr := EMul [a; EPow b (ENum 0 (-1 # 1))].

Definition clhs_eqb (a b : clhs) : bool :=
  match a, b with
  | CLV x, CLV y => Nat.eqb x y
  | CLD x s, CLD y t => Nat.eqb x y && Nat.eqb s t
  | _, _ => false
  end.

(* the rational value of a prime-exponent vector with integral exponents *)
Fixpoint vec_to_Q (v : uvec) : option Q :=
  match v with
  | [] => Some 1%Q
  | (p, e) :: r =>
      match vec_to_Q r with
      | None => None
      | Some x => if Z.eqb (Zpos (Qden (Qred e))) 1
                  then Some (x * Qpower (inject_Z p) (Qnum (Qred e)))%Q
                  else None
      end
  end.

Definition var_def (s : cstate) (v : nat) : option ceq :=
  find (fun q => clhs_eqb (q_lhs q) (CLV v)) (ceqs s).
Definition ode_def (s : cstate) (v : nat) : option ceq :=
  find (fun q => match q_lhs q with CLD y _ => Nat.eqb y v | _ => false end) (ceqs s).
Definition odes (s : cstate) : list ceq :=
  filter (fun q => match q_lhs q with CLD _ _ => true | _ => false end) (ceqs s).
Definition is_state (s : cstate) (v : nat) : bool :=
  match ode_def s v with Some _ => true | None => false end.
(* get_free_variable: the differentiation variable of the first ODE *)
Definition free_var (s : cstate) : option nat :=
  match odes s with q :: _ => match q_lhs q with CLD _ t => Some t | _ => None end | [] => None end.

Definition name_taken (s : cstate) (n : str) : bool := existsb (fun c => str_eqb (c_name c) n) (cvars s).
Fixpoint unique_name (fuel : nat) (s : cstate) (n : str) : str :=
  match fuel with
  | O => n
  | S f => if name_taken s n then unique_name f s (n ++ [95; 97]) else n     (* name + '_a' *)
  end.

Definition remove_eq (l : list ceq) (lhs : clhs) : list ceq :=
  (* remove the first equation with this left-hand side *)
  (fix go (l : list ceq) : list ceq :=
     match l with
     | [] => []
     | q :: r => if clhs_eqb (q_lhs q) lhs then r else q :: go r
     end) l.

Definition set_var (l : list cvar) (i : nat) (f : cvar -> cvar) : list cvar :=
  match nth_error l i with
  | Some c => ModelSM.set_nth l i (f c)
  | None => l
  end.

(* substitution of derivative atoms by variables: xreplace({Derivative(y, t): w}) *)
Fixpoint subst_deriv (m : list ((nat * nat) * nat)) (e : expr) : expr :=
  let fix go (l : list expr) : list expr := match l with [] => [] | x :: r => subst_deriv m x :: go r end in
  match e with
  | EDeriv (EVar y) (EVar t) 1 =>
      match find (fun yw => Nat.eqb (fst (fst yw)) (Z.to_nat y) && Nat.eqb (snd (fst yw)) (Z.to_nat t)) m with
      | Some yw => var (snd yw)
      | None => e
      end
  | EAdd l => EAdd (go l)
  | EMul l => EMul (go l)
  | EPow b x => EPow (subst_deriv m b) (subst_deriv m x)
  | EFn f l => EFn f (go l)
  | ERel r a b => ERel r (subst_deriv m a) (subst_deriv m b)
  | EBool op l => EBool op (go l)
  | EPw l => EPw ((fix gop (l : list (expr * expr)) : list (expr * expr) :=
                     match l with [] => [] | (x, c) :: r => (subst_deriv m x, subst_deriv m c) :: gop r end) l)
  | _ => e
  end.

Fixpoint mentions_deriv (m : list ((nat * nat) * nat)) (e : expr) : bool :=
  let fix any (l : list expr) : bool := match l with [] => false | x :: r => mentions_deriv m x || any r end in
  match e with
  | EDeriv (EVar y) (EVar t) _ =>
      existsb (fun yw => Nat.eqb (fst (fst yw)) (Z.to_nat y) && Nat.eqb (snd (fst yw)) (Z.to_nat t)) m
  | EAdd l | EMul l | EFn _ l | EBool _ l => any l
  | EPow b x => mentions_deriv m b || mentions_deriv m x
  | ERel _ a b => mentions_deriv m a || mentions_deriv m b
  | EPw l => (fix anyp (l : list (expr * expr)) : bool :=
                match l with [] => false | (x, c) :: r => mentions_deriv m x || mentions_deriv m c || anyp r end) l
  | _ => false
  end.

(* _replace_references_to_derivatives: every equation whose rhs mentions an old derivative is removed and re-added
   (at the end) with the derivative replaced *)
Definition replace_derivs (m : list ((nat * nat) * nat)) (l : list ceq) : list ceq :=
  fold_left (fun acc q =>
    if mentions_deriv m (q_rhs q)
    then remove_eq acc (q_lhs q) ++ [{| q_lhs := q_lhs q; q_rhs := subst_deriv m (q_rhs q) |}]
    else acc) l l.

(* _remove_ode_and_assign_rhs_to_new_variable: returns (state, index of the new variable) *)
Definition move_ode_rhs (s : cstate) (ode : ceq) (y t : nat) : cstate * nat :=
  let yname := match nth_error (cvars s) y with Some c => c_name c | None => [] end in
  let yunit := match nth_error (cvars s) y with Some c => c_unit c | None => [] end in
  let tunit := match nth_error (cvars s) t with Some c => c_unit c | None => [] end in
  let w := length (cvars s) in
  let name := unique_name (S (length (cvars s))) s (yname ++ [95; 111; 114; 105; 103; 95; 100; 101; 114; 105; 118]) in (* _orig_deriv *)
  ({| cvars := cvars s ++ [{| c_name := name; c_unit := udiv yunit tunit; c_init := None; c_cmeta := None |}];
      ceqs := remove_eq (ceqs s) (q_lhs ode) ++ [{| q_lhs := CLV w; q_rhs := q_rhs ode |}];
      cunits := cunits s; cqnext := cqnext s |}, w).

(* one step of the free-variable rewriting: the ODE of state y (if it has one, with respect to v) is moved into a new
   variable w, and d y / d n = w / cf is added *)
Definition free_step (v n : nat) (cf : expr) (acc : cstate * list ((nat * nat) * nat)) (y : nat)
  : cstate * list ((nat * nat) * nat) :=
  let '(st, rp) := acc in
  match ode_def st y with
  | Some ode =>
      match q_lhs ode with
      | CLD _ t' =>
          if Nat.eqb t' v then
            let '(s', w) := move_ode_rhs st ode y v in
            ({| cvars := cvars s'; ceqs := ceqs s' ++ [{| q_lhs := CLD y n; q_rhs := ediv (var w) cf |}];
                cunits := cunits s'; cqnext := cqnext s' |}, rp ++ [((y, v), w)])
          else acc
      | _ => acc
      end
  | None => acc
  end.

Inductive direction := DInput | DOutput.

(* convert_variable: returns the new state and the variable to use *)
Definition convert_variable (s : cstate) (v : nat) (target : uvec) (d : direction) (move_annot : bool) : cres (cstate * nat) :=
  match nth_error (cvars s) v with
  | None => CErr CAssert
  | Some orig =>
      match conv (c_unit orig) target with
      | None => CErr CDimension
      | Some cfv =>
          if is_one cfv then COk (s, v)
          else
            match vec_to_Q cfv with
            | None => CErr CNotRational
            | Some cfq =>
                (* cf = create_quantity(cf, units / original_variable.units) *)
                let uidx := Z.of_nat (length (cunits s)) in
                let cf := EQty (cqnext s) cfq uidx in
                let s0 := {| cvars := cvars s; ceqs := ceqs s; cunits := cunits s ++ [udiv target (c_unit orig)];
                             cqnext := cqnext s + 1 |} in
                let was_state := is_state s v in
                let free := free_var s in
                (* _convert_variable_instance *)
                let n := length (cvars s0) in
                let new_name := unique_name (S (length (cvars s0))) s0
                                  (c_name orig ++ [95; 99; 111; 110; 118; 101; 114; 116; 101; 100]) in   (* _converted *)
                let new_init := match d, c_init orig with
                                | DInput, Some i => Some (i * cfq)%Q
                                | _, _ => None
                                end in
                let moved := match c_cmeta orig with Some _ => move_annot | None => false end in
                let newv := {| c_name := new_name; c_unit := target; c_init := new_init;
                               c_cmeta := if moved then c_cmeta orig else None |} in
                let vars1 := cvars s0 ++ [newv] in
                let vars2 := if moved then set_var vars1 v (fun c => {| c_name := c_name c; c_unit := c_unit c;
                                                                         c_init := c_init c; c_cmeta := None |}) else vars1 in
                match d with
                | DOutput =>
                    COk ({| cvars := vars2; ceqs := ceqs s0 ++ [{| q_lhs := CLV n; q_rhs := emul (var v) cf |}];
                            cunits := cunits s0; cqnext := cqnext s0 |}, n)
                | DInput =>
                    let eqs1 := match var_def s0 v with
                                | Some q => remove_eq (ceqs s0) (CLV v) ++ [{| q_lhs := CLV n; q_rhs := emul (q_rhs q) cf |}]
                                | None => ceqs s0
                                end in
                    let vars3 := set_var vars2 v (fun c => {| c_name := c_name c; c_unit := c_unit c; c_init := None;
                                                               c_cmeta := c_cmeta c |}) in
                    let eqs2 := eqs1 ++ [{| q_lhs := CLV v; q_rhs := ediv (var n) cf |}] in
                    let s1 := {| cvars := vars3; ceqs := eqs2; cunits := cunits s0; cqnext := cqnext s0 |} in
                    (* state variable: the converted variable becomes the state *)
                    let '(s2, repl1) :=
                      if was_state then
                        match ode_def s1 v with
                        | Some ode =>
                            match q_lhs ode with
                            | CLD _ t =>
                                let '(s', w) := move_ode_rhs s1 ode v t in
                                ({| cvars := cvars s'; ceqs := ceqs s' ++ [{| q_lhs := CLD n t; q_rhs := emul (var w) cf |}];
                                    cunits := cunits s'; cqnext := cqnext s' |}, [((v, t), w)])
                            | _ => (s1, [])
                            end
                        | None => (s1, [])
                        end
                      else (s1, []) in
                    (* free variable: every ODE is rewritten, in order_added order of the states (= variable index) *)
                    let '(s3, repl2) :=
                      match free with
                      | Some t =>
                          if Nat.eqb t v then
                            fold_left (free_step v n cf) (seq 0 (length (cvars s2))) (s2, repl1)
                          else (s2, repl1)
                      | None => (s2, repl1)
                      end in
                    COk ({| cvars := cvars s3; ceqs := replace_derivs repl2 (ceqs s3); cunits := cunits s3;
                            cqnext := cqnext s3 |}, n)
                end
            end
      end
  end.

(* ---- well-formedness checks used as premises of the C06 theorems and evaluated by the interpreter --------------- *)
(* variable n does not occur (occurrences inside derivative atoms do not count: those read the derivative valuation) *)
Fixpoint vfree (n : nat) (e : expr) : bool :=
  let fix all (l : list expr) : bool := match l with [] => true | x :: r => vfree n x && all r end in
  match e with
  | EVar z => negb (Nat.eqb (Z.to_nat z) n)
  | EAdd l | EMul l | EFn _ l | EBool _ l => all l
  | EPow b x => vfree n b && vfree n x
  | ERel _ a b => vfree n a && vfree n b
  | EPw l => (fix allp (l : list (expr * expr)) : bool :=
                match l with [] => true | (x, c) :: r => vfree n x && vfree n c && allp r end) l
  | _ => true
  end.

(* the derivative atom d y / d t does not occur *)
Fixpoint dfree (y t : nat) (e : expr) : bool :=
  let fix all (l : list expr) : bool := match l with [] => true | x :: r => dfree y t x && all r end in
  match e with
  | EDeriv (EVar a) (EVar b) 1 => negb (Nat.eqb (Z.to_nat a) y && Nat.eqb (Z.to_nat b) t)
  | EAdd l | EMul l | EFn _ l | EBool _ l => all l
  | EPow b x => dfree y t b && dfree y t x
  | ERel _ a b => dfree y t a && dfree y t b
  | EPw l => (fix allp (l : list (expr * expr)) : bool :=
                match l with [] => true | (x, c) :: r => dfree y t x && dfree y t c && allp r end) l
  | _ => true
  end.


(* variable n is new for an equation list: it is no left-hand side and occurs on no right-hand side *)
Definition fresh_var1 (n : nat) (q : ceq) : bool :=
  (match q_lhs q with CLV v => negb (Nat.eqb v n) | CLD _ _ => true end) && vfree n (q_rhs q).
Definition fresh_var (n : nat) (l : list ceq) : bool := forallb (fresh_var1 n) l.
Definition fresh_atom1 (y t : nat) (q : ceq) : bool :=
  (match q_lhs q with CLD a b => negb (Nat.eqb a y && Nat.eqb b t) | CLV _ => true end) && dfree y t (q_rhs q).
Definition fresh_atom (y t : nat) (l : list ceq) : bool := forallb (fresh_atom1 y t) l.

(* the syntactic premises of the C06 theorems for the next conversion, evaluated by the interpreter on every case:
   the next two variable indices and every derivative atom of the next index are fresh; left-hand sides are distinct *)
Fixpoint lhs_nodupb (l : list clhs) : bool :=
  match l with
  | [] => true
  | x :: r => negb (existsb (clhs_eqb x) r) && lhs_nodupb r
  end.
Definition premises_hold (s : cstate) : bool :=
  let n := length (cvars s) in
  fresh_var n (ceqs s) && fresh_var (S n) (ceqs s) && lhs_nodupb (map q_lhs (ceqs s)) &&
  forallb (fun t => fresh_atom n t (ceqs s)) (seq 0 (S n)).

(* ---- the specification-level system for the conversion of the free variable (theorem C06_input_free) ------------------
   The fold above reaches it up to the order of the equations; free_spec_code evaluates that on every case. *)
Definition orec := (nat * expr * nat)%type.    (* state y, right-hand side R of its ODE, new variable w holding d y/d v *)
Definition ws_of (os : list orec) : list nat := map (fun o => snd o) os.
Definition ys_of (os : list orec) : list nat := map (fun o => fst (fst o)) os.
Definition subst_map (os : list orec) (v : nat) : list ((nat * nat) * nat) := map (fun o => ((fst (fst o), v), snd o)) os.
Definition is_ode (q : ceq) : bool := match q_lhs q with CLD _ _ => true | CLV _ => false end.

Definition free_system (plain : list ceq) (os : list orec) (v n : nat) (cf : expr) : list ceq :=
  let m := subst_map os v in
  map (fun q => {| q_lhs := q_lhs q; q_rhs := subst_deriv m (q_rhs q) |}) plain
  ++ [{| q_lhs := CLV v; q_rhs := ediv (var n) cf |}]
  ++ map (fun o => {| q_lhs := CLV (snd o); q_rhs := subst_deriv m (snd (fst o)) |}) os
  ++ map (fun o => {| q_lhs := CLD (fst (fst o)) n; q_rhs := ediv (var (snd o)) cf |}) os.

(* the original system: the plain (non-ODE) equations and one ODE  d y/d v = R  per record *)
Definition orig_system (plain : list ceq) (os : list orec) (v : nat) : list ceq :=
  plain ++ map (fun o => {| q_lhs := CLD (fst (fst o)) v; q_rhs := snd (fst o) |}) os.

Fixpoint sexp_eqb (a b : sexp) : bool :=
  match a, b with
  | A x, A y => Z.eqb x y
  | L l1, L l2 =>
      (fix go (l1 l2 : list sexp) : bool :=
         match l1, l2 with
         | [], [] => true
         | x :: r1, y :: r2 => sexp_eqb x y && go r1 r2
         | _, _ => false
         end) l1 l2
  | _, _ => false
  end.
Definition ceq_eqb (a b : ceq) : bool :=
  clhs_eqb (q_lhs a) (q_lhs b) && sexp_eqb (sexp_of_expr (q_rhs a)) (sexp_of_expr (q_rhs b)).
Fixpoint remove1 (q : ceq) (l : list ceq) : option (list ceq) :=
  match l with
  | [] => None
  | x :: r => if ceq_eqb q x then Some r else match remove1 q r with Some r' => Some (x :: r') | None => None end
  end.
Fixpoint perm_eqb (l1 l2 : list ceq) : bool :=
  match l1 with
  | [] => match l2 with [] => true | _ => false end
  | q :: r => match remove1 q l2 with Some l2' => perm_eqb r l2' | None => false end
  end.
Fixpoint nat_nodupb (l : list nat) : bool :=
  match l with [] => true | x :: r => negb (existsb (Nat.eqb x) r) && nat_nodupb r end.

(* 0: the specification does not apply to this conversion; 1: applies, premises of the theorem hold and the model's result
   is the specification system up to order; 2: applies but differs (reported as a correspondence break) *)
Definition free_spec_code (s s' : cstate) (v n : nat) (d : direction) : Z :=
  match d with
  | DOutput => 0
  | DInput =>
    if negb (Nat.eqb n (length (cvars s))) then 0 else
    match free_var s with
    | None => 0
    | Some t =>
      if negb (Nat.eqb t v) || is_state s v || (match var_def s v with Some _ => true | None => false end)
         || negb (forallb (fun q => match q_lhs q with CLD _ t' => Nat.eqb t' v | _ => true end) (ceqs s)) then 0 else
      match find (fun q => clhs_eqb (q_lhs q) (CLV v)) (ceqs s') with
      | Some {| q_lhs := _; q_rhs := EMul [_; EPow cf' _] |} =>
          let plain := filter (fun q => negb (is_ode q)) (ceqs s) in
          let os := flat_map (fun q =>
                      match q_lhs q with
                      | CLD y _ =>
                          match find (fun q' => clhs_eqb (q_lhs q') (CLD y n)) (ceqs s') with
                          | Some {| q_lhs := _; q_rhs := EMul [EVar w; _] |} => [(y, q_rhs q, Z.to_nat w)]
                          | _ => []
                          end
                      | _ => []
                      end) (ceqs s) in
          if Nat.eqb (length os) (length (filter is_ode (ceqs s)))
             && perm_eqb (ceqs s) (orig_system plain os v)
             && perm_eqb (ceqs s') (free_system plain os v n cf')
             && nat_nodupb (ws_of os) && nat_nodupb (ys_of os)
             && forallb (fun q => fresh_var1 n q && forallb (fun w => fresh_var1 w q) (ws_of os)
                                  && forallb (fun y => fresh_atom1 y n q) (ys_of os)) (ceqs s)
             && negb (existsb (Nat.eqb n) (ws_of os)) && negb (existsb (Nat.eqb v) (ws_of os)) && negb (Nat.eqb v n)
             && (match cf' with EQty _ c _ => negb (Qeq_bool c 0) | _ => false end)
          then 1 else 2
      | _ => 2
      end
    end
  end.

(* ---- the premises of the free-variable theorem (C06_input_free_equiv) as one boolean -------------------------------- *)
Definition odes_of (l : list ceq) : list orec :=
  flat_map (fun q => match q_lhs q with CLD y _ => [(y, q_rhs q, 0%nat)] | CLV _ => [] end) l.

Definition free_ok (s : cstate) (v : nat) : bool :=
  let N := length (cvars s) in
  let rem := odes_of (ceqs s) in
  lhs_nodupb (map q_lhs (ceqs s)) &&
  forallb (fun q => match q_lhs q with CLD y t => Nat.eqb t v && Nat.ltb y N | CLV x => Nat.ltb x N end) (ceqs s) &&
  Nat.ltb v N &&
  forallb (fun q => fresh_var1 N q && forallb (fun w => fresh_var1 w q) (seq (S N) (length rem))
                    && forallb (fun y => fresh_atom1 y N q) (ys_of rem)) (ceqs s).

(* ---- the premises of one step of theorem C06_sequence_equiv, evaluated by the interpreter before every conversion --- *)
Definition step_ok (s : cstate) (v : nat) (d : direction) : bool :=
  premises_hold s && Nat.ltb v (length (cvars s)) &&
  match d with
  | DOutput => true
  | DInput =>
      if (match free_var s with Some t => Nat.eqb t v | None => false end)
      then negb (is_state s v) && (match var_def s v with None => true | Some _ => false end) && free_ok s v
      else
      match ode_def s v with
      | None => true
      | Some ode => match q_lhs ode with
                    | CLD _ t => Nat.leb t (length (cvars s)) && (match var_def s v with None => true | Some _ => false end)
                    | CLV _ => false
                    end
      end
  end.


(* ---- well-formedness of a state, evaluated ONCE on the initial state (theorems C06_wf_implies_step_ok, C06_wf_preserved,
   C06_sequence_equiv_from_wf: it implies step_ok for every variable in range and is preserved by every conversion) ------
   ebound N e: every variable of e, and both variables of every derivative atom d a/d b, is an index below N (other
   EDeriv shapes are opaque leaves, as for vfree / dfree / subst_deriv). *)
Definition idx_ok (N : nat) (z : Z) : bool := Z.leb 0 z && Nat.ltb (Z.to_nat z) N.
Fixpoint ebound (N : nat) (e : expr) : bool :=
  let fix all (l : list expr) : bool := match l with [] => true | x :: r => ebound N x && all r end in
  match e with
  | EVar z => idx_ok N z
  | EDeriv (EVar a) (EVar b) 1 => idx_ok N a && idx_ok N b
  | EAdd l | EMul l | EFn _ l | EBool _ l => all l
  | EPow b x => ebound N b && ebound N x
  | ERel _ a b => ebound N a && ebound N b
  | EPw l => (fix allp (l : list (expr * expr)) : bool :=
                match l with [] => true | (x, c) :: r => ebound N x && ebound N c && allp r end) l
  | _ => true
  end.

(* the variable an equation defines *)
Definition lhs_var (l : clhs) : nat := match l with CLV v => v | CLD v _ => v end.

(* one equation: right-hand side in scope; left-hand side in scope; an ODE is with respect to the free variable fv (the
   differentiation variable of the first ODE); the free variable is not the variable the equation defines *)
Definition wf_eq (N : nat) (fv : option nat) (q : ceq) : bool :=
  ebound N (q_rhs q) &&
  match q_lhs q with
  | CLV x => Nat.ltb x N && (match fv with Some t0 => negb (Nat.eqb x t0) | None => true end)
  | CLD y t => Nat.ltb y N && Nat.ltb t N &&
               (match fv with Some t0 => Nat.eqb t t0 && negb (Nat.eqb y t0) | None => false end)
  end.

(* every variable is defined at most once (by an assignment or by an ODE), and every equation is wf_eq *)
Definition wf_state (s : cstate) : bool :=
  nat_nodupb (map (fun q => lhs_var (q_lhs q)) (ceqs s)) &&
  forallb (wf_eq (length (cvars s)) (free_var s)) (ceqs s).
