(* C12 -- model of cellmlmanip/_singularity_fixes.py.

   gen_piecewise     _generate_piecewise (lines 60-92), numeric bounds: the bounds are swapped when Vmax < Vmin,
                     the value is the linear interpolant f(lo) + (V-lo)/(hi-lo) * (f(hi)-f(lo)) when lo <= V <= hi
                     and expr(V) otherwise.  gen_piecewise_sym is the symbolic-bounds branch (both orders as a
                     disjunction, interpolant on the unswapped bounds).
   piecewise_Q       the same decision and value over Q (extracted, @run 120) for the correspondence.
   fixp / wrap       _fix_expr_parts (252-325) and the `_generate_piecewise(..) if sp is not None else ex` idiom:
                     recursion over sums, products, reciprocals GIVEN the list of singularities that the pattern
                     search (_get_singularity: SymPy match / solveset, not modelled) returns for a product, which is
                     a Section variable.  `1 * A --> A` (line 269) is not modelled (it does not change the value).
   remove_fixable    remove_fixable_singularities (346-383): the loop over equations with the partially evaluated
                     right-hand sides (`xreplace(unprocessed_eqs)`, a Section variable), skipping Piecewise right-hand
                     sides and excluded variables.
   No proofs in this file. *)
From Coq Require Import ZArith QArith Reals List Bool.
From Verif Require Import Sexp.
Import ListNotations.

(* ------------------------------------------------------------------------------------------------ over Q *)
Open Scope Q_scope.

(* branch 0 = interpolant, 1 = otherwise *)
Definition piecewise_Q (Vmin Vmax V fmin fmax fV : Q) : Z * Q :=
  let sw := match Qlt_le_dec Vmax Vmin with left _ => true | right _ => false end in
  let lo := if sw then Vmax else Vmin in
  let hi := if sw then Vmin else Vmax in
  let flo := if sw then fmax else fmin in
  let fhi := if sw then fmin else fmax in
  if Qle_bool lo V && Qle_bool V hi
  then (0%Z, flo + ((V - lo) / (hi - lo)) * (fhi - flo))
  else (1%Z, fV).

(* @run 120 run_piecewise *)
Definition run_piecewise (x : sexp) : sexp :=
  match x with
  | L [a; b; v; fa; fb; fv] =>
      let r := piecewise_Q (Q_of_sexp a) (Q_of_sexp b) (Q_of_sexp v) (Q_of_sexp fa) (Q_of_sexp fb) (Q_of_sexp fv) in
      L [A (fst r); sQ (Qred (snd r))]
  | _ => serr 99
  end.

(* ------------------------------------------------------------------------------------------------ over R *)
Open Scope R_scope.

Definition interp (f : R -> R) (a b V : R) : R := f a + (V - a) / (b - a) * (f b - f a).

Definition in_window (lo hi V : R) : bool :=
  (if Rle_dec lo V then true else false) && (if Rle_dec V hi then true else false).

Definition lo_of (Vmin Vmax : R) : R := if Rlt_dec Vmax Vmin then Vmax else Vmin.
Definition hi_of (Vmin Vmax : R) : R := if Rlt_dec Vmax Vmin then Vmin else Vmax.

Definition gen_piecewise (f : R -> R) (Vmin Vmax V : R) : R :=
  let lo := lo_of Vmin Vmax in
  let hi := hi_of Vmin Vmax in
  if in_window lo hi V then interp f lo hi V else f V.

(* bounds that are not numbers: Or(And(Vmin<=V, V<=Vmax), And(Vmax<=V, V<=Vmin)), bounds not swapped *)
Definition gen_piecewise_sym (f : R -> R) (Vmin Vmax V : R) : R :=
  if in_window Vmin Vmax V || in_window Vmax Vmin V then interp f Vmin Vmax V else f V.

(* the four documented forms, as functions of the exponent argument U *)
Definition ghk1 (u : R) : R := u / (exp u - 1).
Definition ghk2 (u : R) : R := u / (1 - exp u).
Definition ghk3 (u : R) : R := (exp u - 1) / u.
Definition ghk4 (u : R) : R := (1 - exp u) / u.
(* their limits at U = 0 *)
Definition ghk_limit (k : nat) : R := match k with 0%nat => 1 | 1%nat => -1 | 2%nat => 1 | _ => -1 end.
Definition ghk (k : nat) : R -> R := match k with 0%nat => ghk1 | 1%nat => ghk2 | 2%nat => ghk3 | _ => ghk4 end.

Definition delta : R := 1 / 10000000.          (* U_offset = 1e-7 *)

(* ------------------------------------------------------------------------------------------------
   expressions as _fix_expr_parts sees them *)
Record window := mkw { wmin : R; wmax : R; wsp : R }.

Inductive sx :=
| SAtom (id : nat) (hasexp : bool)     (* any node that is not Add / Mul / Pow(_, -1) / Piecewise: never rebuilt *)
| SAdd (l : list sx)
| SMul (l : list sx)
| SInv (a : sx)                        (* Pow(a, -1) *)
| SPw (a : sx) (w : window).           (* Piecewise((interpolant, lo <= V <= hi), (a, True)) *)

Fixpoint has_exp (e : sx) : bool :=
  match e with
  | SAtom _ b => b
  | SAdd l => existsb has_exp l
  | SMul l => existsb has_exp l
  | SInv a => has_exp a
  | SPw a _ => has_exp a
  end.

Definition is_pw (e : sx) : bool := match e with SPw _ _ => true | _ => false end.

Section Fix.
  Variable atom : nat -> R -> R.                 (* value of an atom as a function of V *)
  Variable find : sx -> list window.             (* _get_singularity on a product *)

  Fixpoint seval (e : sx) (V : R) : R :=
    match e with
    | SAtom i _ => atom i V
    | SAdd l => fold_right (fun a acc => seval a V + acc) 0 l
    | SMul l => fold_right (fun a acc => seval a V * acc) 1 l
    | SInv a => / seval a V
    | SPw a w => gen_piecewise (fun v => seval a v) (wmin w) (wmax w) V
    end.

  Definition part := (option window * sx * bool)%type.

  Definition wrap (p : part) : sx :=
    match p with
    | (Some w, ex, _) => SPw ex w
    | (None, ex, _) => ex
    end.

  Definition flag (p : part) : bool :=
    match p with (s, _, hp) => hp || (match s with Some _ => true | None => false end) end.

  Definition Reqb (a b : R) : bool := if Req_EM_T a b then true else false.

  (* every part carries a window and all singular points are equal to sp *)
  Fixpoint all_same_sp (sp : R) (ps : list part) : bool :=
    match ps with
    | [] => true
    | (Some w, _, _) :: r => Reqb (wsp w) sp && all_same_sp sp r
    | (None, _, _) :: _ => false
    end.

  Fixpoint range_min (ps : list part) (acc : R) : R :=
    match ps with
    | (Some w, _, _) :: r => range_min r (Rmin acc (Rmin (wmin w) (wmax w)))
    | _ :: r => range_min r acc
    | [] => acc
    end.
  Fixpoint range_max (ps : list part) (acc : R) : R :=
    match ps with
    | (Some w, _, _) :: r => range_max r (Rmax acc (Rmax (wmin w) (wmax w)))
    | _ :: r => range_max r acc
    | [] => acc
    end.

  Definition merged (ps : list part) : option window :=
    match ps with
    | (Some w, _, _) :: (_ :: _) =>
        if all_same_sp (wsp w) ps
        then Some (mkw (range_min ps (Rmin (wmin w) (wmax w))) (range_max ps (Rmax (wmin w) (wmax w))) (wsp w))
        else None
    | _ => None
    end.

  Fixpoint fixp (e : sx) : part :=
    if negb (has_exp e) then (None, e, false) else
    match e with
    | SAdd l =>
        let ps := map fixp l in
        match merged ps with
        | Some w => (Some w, e, true)
        | None => (None, SAdd (map wrap ps), existsb flag ps)
        end
    | SInv a =>
        let p := fixp a in (None, SInv (wrap p), flag p)
    | SMul l =>
        match find e with
        | [w] => (Some w, e, true)
        | w :: rest => (Some w, fold_left SPw rest e, true)
        | [] => let ps := map fixp l in (None, SMul (map wrap ps), existsb flag ps)
        end
    | _ => (None, e, false)
    end.

  (* _remove_singularities: (changed, new expression) *)
  Definition remove_singularities (e : sx) : bool * sx :=
    if negb (has_exp e) then (false, e) else let p := fixp e in (flag p, wrap p).

  (* the expression with every inserted Piecewise taken out again *)
  Fixpoint strip (e : sx) : sx :=
    match e with
    | SAtom i b => SAtom i b
    | SAdd l => SAdd (map strip l)
    | SMul l => SMul (map strip l)
    | SInv a => SInv (strip a)
    | SPw a _ => strip a
    end.

  Fixpoint windows (e : sx) : list window :=
    match e with
    | SAtom _ _ => []
    | SAdd l => flat_map windows l
    | SMul l => flat_map windows l
    | SInv a => windows a
    | SPw a w => w :: windows a
    end.

  Definition outside (w : window) (V : R) : Prop :=
    V < lo_of (wmin w) (wmax w) \/ hi_of (wmin w) (wmax w) < V.

  (* --------------------------------------------------------------------------------------------
     remove_fixable_singularities: equations in the order of the topological sort *)
  Variable excluded : nat -> bool.
  Variable inline : list (nat * sx) -> sx -> sx.      (* rhs.xreplace(unprocessed_eqs) *)

  Fixpoint rfs (u : list (nat * sx)) (eqs : list (nat * sx)) : list (nat * sx) :=
    match eqs with
    | [] => []
    | (v, rhs) :: r =>
        if is_pw rhs || excluded v then (v, rhs) :: rfs u r
        else
          let r0 := inline u rhs in
          let cn := remove_singularities r0 in
          if fst cn then (v, snd cn) :: rfs u r     (* entry set, then popped *)
          else (v, rhs) :: rfs ((v, r0) :: u) r
    end.

  Definition remove_fixable (eqs : list (nat * sx)) : list (nat * sx) := rfs [] eqs.
End Fix.
