(* UnitCalc: executable mirror of UnitCalculator.traverse and
   UnitCalculator.convert_expression_recursively (/repo/cellmlmanip/units.py 439-798).  No proofs here.

   Units.  A pint Unit is a UnitsContainer: a formal product of NAMED units ("atoms": volt, mV, ms,
   percent ...) with exponents.  [nunit] is that formal product (a [uvec] whose keys are atom ids);
   the case's environment gives every atom its SI exponent vector.  Three different tests occur in
   the code and are kept apart here:
     syntactic   u == dimensionless          (empty container)        [syn_dimless]
     dimensional u.dimensionality == {} and base-unit factor 1 (radian passes; percent, mV/volt do not
                 since the scaled-argument repair)                    [dim_dimless]
     semantic    dimensionality and base-unit factor equal (radian ignored) [sem_equiv]

   Magnitudes.  traverse computes with pint Quantities, i.e. it carries a magnitude next to the unit
   and reads the exponent of a Pow from it.  [mag] abstracts what the code can hold:
     MNum q fl   a Python number whose value the model tracks exactly (fl: it is a float, not an int)
     MIrr        a Python float the model does not track (exp of a float, pi, E, non-integer powers)
     MVar        a bare Variable symbol (certainly not a number)
     MSym        any other SymPy expression (SymPy may have simplified it to a number: 0*a, a/a, a**0)
   Since the F6 repair the exponent of a Pow is read from the exponent expression ([expo_infer]), not from
   the magnitude; magnitudes still decide exp / floor / ceiling / power values (and the Python exceptions
   they raise).
   RESTRICTION (stated to the harness as the result [UUnsupp]): when the value of an exponent is not a sum /
   product of numbers, quantities and initial values, a complex number would arise, or a SymPy infinity /
   nan occurs, the model declines.  Exact rationals stand for binary floats (generators keep to dyadic
   exponents and non-zero exponents: pint keeps {mV: 0} distinct from the empty container). *)
From Coq Require Import List ZArith QArith Qabs Bool.
From Verif Require Import Sexp UnitAlg Expr.
Import ListNotations.
Open Scope Z_scope.

Definition nunit := uvec.

Record env := mkEnv {
  atoms : list uvec;                 (* atom id -> SI exponent vector *)
  utab : list nunit;                 (* unit index (EQty / variable table) -> pint unit *)
  vtab : list (Z * option Q)         (* variable index -> unit index, non-zero initial value *)
}.

Definition nthZ {T} (l : list T) (i : Z) : option T :=
  if i <? 0 then None else nth_error l (Z.to_nat i).

Definition atom_vec (G : env) (j : Z) : uvec :=
  match nthZ (atoms G) j with Some v => v | None => uone end.

Fixpoint expand (G : env) (n : nunit) : uvec :=
  match n with
  | [] => []
  | je :: r => upow (atom_vec G (fst je)) (snd je) ++ expand G r
  end.

Definition syn_dimless (n : nunit) : bool := ueqb n uone.
(* same dimension part (pint's dimension-less base unit radian, generator -8, is not a dimension) and same scale:
   units.dimensionality equal and base-unit factors close, as in UnitStore.is_equivalent (radian repair) *)
Definition sem_equiv (G : env) (a b : nunit) : bool := equivb (expand G a) (expand G b).
Definition dim_dimless (G : env) (a : nunit) : bool :=
  dimensionless_b (expand G a) && is_one (scale (expand G a)).
Definition lookup_unit (G : env) (u : Z) : option nunit := nthZ (utab G) u.

(* the six UnitError subclasses; any other exception; outside the modelled fragment *)
Inductive uerr := EUnexpectedMath | EInvalidUnits | EMustBeDimensionless | EMustBeNumber | EBoolean | EConversion.
Inductive ures (T : Type) := UOk (x : T) | UErr (e : uerr) | UOther | UUnsupp.
Arguments UOk {T} x. Arguments UErr {T} e. Arguments UOther {T}. Arguments UUnsupp {T}.

Definition bindr {X Y} (r : ures X) (f : X -> ures Y) : ures Y :=
  match r with UOk x => f x | UErr e => UErr e | UOther => UOther | UUnsupp => UUnsupp end.

(* ---- magnitudes ------------------------------------------------------------------------------ *)
Inductive mag := MNum (q : Q) (fl : bool) | MIrr | MVar | MSym.

Definition Qis_int (q : Q) : bool := Zpos (Qden (Qred q)) =? 1.
Definition Qfloor (q : Q) : Z := Qnum q / Zpos (Qden q).
Definition Qceil (q : Q) : Z := - Qfloor (- q).

Definition mmul (a b : mag) : mag :=
  match a, b with
  | MNum x fx, MNum y fy => MNum (Qred (x * y)) (fx || fy)
  | MNum _ _, MIrr | MIrr, MNum _ _ | MIrr, MIrr => MIrr
  | _, _ => MSym
  end.

Definition mdiv (a b : mag) : ures mag :=
  match a, b with
  | MNum x _, MNum y _ => if Qeq_bool y 0 then UOther else UOk (MNum (Qred (x / y)) true)
  | MNum _ _, MIrr | MIrr, MNum _ _ | MIrr, MIrr => UOk MIrr
  | _, _ => UOk MSym
  end.

Definition mabs (a : mag) : mag :=
  match a with
  | MNum x f => MNum (Qabs x) f
  | MIrr => MIrr
  | _ => MSym
  end.

(* b ** x for a numeric exponent x = MNum m fx (Python semantics; ZeroDivisionError = UOther) *)
Definition mpow (b : mag) (m : Q) (fx : bool) : ures mag :=
  match b with
  | MNum q fb =>
      if Qis_int m then
        let z := Qfloor m in
        if Qeq_bool q 0 && (z <? 0) then UOther
        else UOk (MNum (Qred (Qpower q z)) (fb || fx || (z <? 0)))
      else if Qeq_bool q 0 then (if Qle_bool 0 m then UOk (MNum 0 true) else UOther)
      else if Qle_bool 0 q then UOk MIrr else UUnsupp
  | MIrr => if Qis_int m then UOk MIrr else UUnsupp
  | _ => UOk MSym
  end.

Definition qu := (nunit * mag)%type.
Definition qmul (a b : qu) : qu := (umul (fst a) (fst b), mmul (snd a) (snd b)).

(* float(exponent), used by convert and (since the F6 repair) by traverse: numbers and Quantities evaluate
   (Quantity._eval_evalf), a Variable raises TypeError.  Tracked exactly for sums and products of numbers /
   quantities; everything else numeric is declined. *)
Inductive xval := XNum (q : Q) | XSym | XUns.
Definition xbin (op : Q -> Q -> Q) (a b : xval) : xval :=
  match a, b with
  | XUns, _ | _, XUns => XUns
  | XSym, _ | _, XSym => XSym
  | XNum x, XNum y => XNum (op x y)
  end.

Fixpoint expo_value (x : expr) : xval :=
  match x with
  | ENum _ q => XNum q
  | EQty id q _ => if id <? -1 then XUns else XNum q
  | EVar _ => XSym
  | EAdd l => (fix go (l : list expr) : xval :=
                 match l with [] => XNum 0 | y :: r => xbin Qplus (expo_value y) (go r) end) l
  | EMul l => (fix go (l : list expr) : xval :=
                 match l with [] => XNum 1 | y :: r => xbin Qmult (expo_value y) (go r) end) l
  | _ => XUns
  end.

(* traverse first replaces variables that have a non-zero initial value by that value *)
Fixpoint expo_infer (G : env) (x : expr) : xval :=
  match x with
  | ENum _ q => XNum q
  | EQty id q _ => if id <? -1 then XUns else XNum q
  | EVar v => match nthZ (vtab G) v with Some (_, Some q) => XNum q | _ => XSym end
  | EAdd l => (fix go (l : list expr) : xval :=
                 match l with [] => XNum 0 | y :: r => xbin Qplus (expo_infer G y) (go r) end) l
  | EMul l => (fix go (l : list expr) : xval :=
                 match l with [] => XNum 1 | y :: r => xbin Qmult (expo_infer G y) (go r) end) l
  | _ => XUns
  end.

(* ---- traverse ----------------------------------------------------------------------------------- *)
Definition infer_same (G : env) (rs : list qu) : ures qu :=
  match rs with
  | [] => UOther
  | r0 :: _ => if forallb (fun r => sem_equiv G (fst r0) (fst r)) rs then UOk r0 else UErr EInvalidUnits
  end.

Definition infer_prod (rs : list qu) : ures qu :=
  match rs with
  | [] => UOther
  | r0 :: rest => UOk (fold_left qmul rest r0)
  end.

(* the exponent is read from the exponent EXPRESSION (F6 repair): float(expr.args[1]) after substituting
   initial values; it is a Python float *)
Definition infer_pow (G : env) (rb : qu) (ux : nunit) (xv : xval) : ures qu :=
  let (ub, mb) := rb in
  if negb (dim_dimless G ux) then UErr EMustBeDimensionless      (* _is_dimensionless(exponent): any unit name *)
  else match xv with
       | XSym => UErr EMustBeNumber
       | XUns => UUnsupp
       | XNum m => bindr (mpow mb m true)
                     (fun r => UOk (if syn_dimless ub then [] else upow ub m, r))
       end.

Definition infer_div (ry rt : qu) : ures qu :=
  bindr (mdiv (snd ry) (snd rt)) (fun m => UOk (udiv (fst ry) (fst rt), m)).

Definition is_trig (f : Z) : bool := (10 <=? f) && (f <=? 21).   (* sin .. coth: the names in _TRIG_FUNCTIONS
                                                                    that SymPy actually uses; asin.. are spelt
                                                                    'arcsin'.. there and never match *)
Definition one_int : mag := MNum 1 false.

Definition infer_fn (G : env) (f : Z) (rs : list qu) : ures qu :=
  if f =? fn_abs then
    match rs with r :: _ => UOk (fst r, mabs (snd r)) | [] => UOther end
  else if (f =? fn_floor) || (f =? fn_ceiling) then
    match rs with
    | r :: _ => match snd r with
                | MNum q _ => UOk (fst r, MNum (inject_Z (if f =? fn_floor then Qfloor q else Qceil q)) false)
                | MIrr => UUnsupp       (* floor of an untracked float may be 0: a later 1/x raises or not -- declined *)
                | _ => UOk (fst r, one_int)
                end
    | [] => UOther
    end
  else if (f =? fn_log) || (f =? fn_factorial) || is_trig f then
    match rs with
    | r :: _ => if dim_dimless G (fst r) then UOk ([], one_int) else UErr EMustBeDimensionless
    | [] => UOther
    end
  else if f =? fn_exp then
    match rs with
    | r :: _ => if dim_dimless G (fst r)
                then match snd r with
                     | MNum q true => if Qle_bool 710 q then UOther (* OverflowError *) else UOk ([], MIrr)
                     | MIrr => UOk ([], MIrr)
                     | _ => UOk ([], one_int)
                     end
                else UErr EMustBeDimensionless
    | [] => UOther
    end
  else
    match rs with
    | [r] => if dim_dimless G (fst r) then UOk ([], one_int) else UErr EUnexpectedMath
    | _ => UErr EUnexpectedMath
    end.

Definition infer_var (G : env) (v : Z) : ures qu :=
  match nthZ (vtab G) v with
  | Some (u, iv) => match lookup_unit G u with
                    | Some n => UOk (n, match iv with Some q => MNum q true | None => MVar end)
                    | None => UOther
                    end
  | None => UOther
  end.

Fixpoint infer (G : env) (e : expr) {struct e} : ures qu :=
  let fix go (l : list expr) : ures (list qu) :=
    match l with
    | [] => UOk []
    | x :: r => bindr (infer G x) (fun a => bindr (go r) (fun b => UOk (a :: b)))
    end in
  let fix gop (l : list (expr * expr)) : ures (list qu) :=
    match l with
    | [] => UOk []
    | xc :: r => bindr (infer G (fst xc)) (fun a => bindr (gop r) (fun b => UOk (a :: b)))
    end in
  match e with
  | ENum k q => UOk ([], MNum q (negb (k =? 0)))
  | EConst c => if (c =? 0) || (c =? 1) then UOk ([], MIrr) else UUnsupp
  | EQty _ q u => match lookup_unit G u with Some n => UOk (n, MNum q true) | None => UOther end
  | EVar v => infer_var G v
  | EAdd l => bindr (go l) (infer_same G)
  | EMul l => bindr (go l) infer_prod
  | EPow b x => bindr (infer G b) (fun rb => bindr (infer G x) (fun rx => infer_pow G rb (fst rx) (expo_infer G x)))
  | EFn f l => bindr (go l) (infer_fn G f)
  | EDeriv y t _ => bindr (infer G y) (fun ry => bindr (infer G t) (fun rt => infer_div ry rt))
  | ERel _ a b => bindr (infer G a) (fun _ => bindr (infer G b) (fun _ => UErr EBoolean))
  | EBool _ l => bindr (go l) (fun _ => UErr EBoolean)
  | ETrue | EFalse => UErr EBoolean
  | EPw l => bindr (gop l) (infer_same G)     (* conditions are ignored *)
  end.

Fixpoint infers (G : env) (l : list expr) : ures (list qu) :=
  match l with
  | [] => UOk []
  | x :: r => bindr (infer G x) (fun a => bindr (infers G r) (fun b => UOk (a :: b)))
  end.

Fixpoint inferpw (G : env) (l : list (expr * expr)) : ures (list qu) :=
  match l with
  | [] => UOk []
  | xc :: r => bindr (infer G (fst xc)) (fun a => bindr (inferpw G r) (fun b => UOk (a :: b)))
  end.

Definition unit_of (G : env) (e : expr) : option nunit :=
  match infer G e with UOk r => Some (fst r) | _ => None end.

(* ---- the guard of C04_infer_sound_partial --------------------------------------------------------
   guard false e: every exponent is a closed sum / product of numbers and quantities (expo_value = XNum: no
   variable -- an initial value is not the value -- and nothing the model declines); functions other than
   floor / ceiling are unary; floor / ceiling arguments have SI scale 1 (they do not commute with
   rescaling); piecewise conditions are well-united (guard true c: relations compare equivalent units)
   -- traverse never looks at them. *)
Definition num_exp (x : expr) : bool :=
  match expo_value x with XNum _ => true | _ => false end.

Definition arg_ok (G : env) (x : expr) : bool :=
  match unit_of G x with
  | Some n => is_one (scale (expand G n))
  | None => false
  end.

Fixpoint guard (G : env) (cond : bool) (e : expr) {struct e} : bool :=
  match e with
  | ENum _ _ | EConst _ | EQty _ _ _ | EVar _ | EDeriv _ _ _ => negb cond
  | EAdd l | EMul l => negb cond && forallb (guard G false) l
  | EPow b x => negb cond && guard G false b && num_exp x
  | EFn f l => negb cond && forallb (guard G false) l &&
               (if (f =? fn_floor) || (f =? fn_ceiling) then forallb (arg_ok G) l
                else match l with [_] => true | _ => false end)
  | ERel _ a b => cond && guard G false a && guard G false b &&
                  match unit_of G a, unit_of G b with
                  | Some u, Some v => sem_equiv G u v
                  | _, _ => false
                  end
  | EBool _ l => cond && forallb (guard G true) l
  | ETrue | EFalse => cond
  | EPw l => negb cond && forallb (fun ec => guard G false (fst ec) && guard G true (snd ec)) l
  end.

(* ---- conversion factors as quantities ------------------------------------------------------------
   A conversion factor is  prod p^e  over the primes with rational e.  With d the common denominator
   it is the d-th root of the rational  prod p^(e d).  The model writes the conversion Quantity as
   [EQty (-d) q (-3)]: identity -d (no input quantity has a negative identity), value  q^(1/d),
   unit index -3 = "the unit to/from, not tabulated". *)
Fixpoint qpown (q : Q) (n : nat) : Q := match n with O => 1 | S k => q * qpown q k end.

Definition qterm (k : Z) (e : Q) : option Q :=
  let e' := Qred e in
  if Zpos (Qden e') =? 1 then
    let z := Qnum e' in
    Some (if z <? 0 then Qinv (qpown (inject_Z k) (Z.to_nat (- z))) else qpown (inject_Z k) (Z.to_nat z))
  else None.

Fixpoint qscale (v : uvec) : option Q :=
  match v with
  | [] => Some 1%Q
  | ke :: r => if is_scale (fst ke)
               then match qterm (fst ke) (snd ke), qscale r with
                    | Some a, Some b => Some (a * b)%Q
                    | _, _ => None
                    end
               else qscale r
  end.

Definition lcm_den (v : uvec) : Z :=
  fold_right (fun ke acc => Z.lcm (Zpos (Qden (Qred (snd ke)))) acc) 1 v.

Definition cfq (c : uvec) : option (Q * Z) :=
  let d := lcm_den c in
  if (0 <? d) && (d <=? 16) then      (* roots beyond the 16th are declined (huge rationals) *)
    match qscale (upow c (inject_Z d)) with
    | Some q => Some (Qred q, d)
    | None => None
    end
  else None.

Definition maybe_convert (G : env) (e : expr) (c : bool) (from : nunit) (to : option nunit)
  : ures (expr * bool * nunit) :=
  match to with
  | None => UOk (e, c, from)
  | Some t =>
      match conv (expand G from) (expand G t) with
      | None => UErr EConversion
      | Some cf =>
          if is_one cf then UOk (e, c, t)            (* math.isclose(cf, 1.0) -> 1;  cf != 1 is False *)
          else match cfq cf with
               | Some (q, d) => UOk (EMul [EQty (- d) q (-3); e], true, t)
               | None => UUnsupp
               end
      end
  end.

Definition lastu (us : list nunit) : option nunit :=
  match rev us with [] => None | u :: _ => Some u end.

Definition not_dimless_target (to : option nunit) : bool :=
  match to with Some t => negb (syn_dimless t) | None => false end.

Definition cres := ures (expr * bool * nunit).

(* loop modes: 0 = every child with target None (Mul); 1 = target, or the units of the first child
   (Add); 2 = target, then the units returned by the previous child (functions, And/Or) *)
Definition next_target (mode : Z) (t : option nunit) (ux : nunit) : option nunit :=
  if mode =? 0 then None
  else if mode =? 1 then (match t with None => Some ux | Some _ => t end)
  else Some ux.

Fixpoint convert (G : env) (e : expr) (to : option nunit) {struct e} : cres :=
  let fix loop (mode : Z) (l : list expr) (c : bool) (t : option nunit) {struct l}
      : ures (list expr * bool * list nunit) :=
    match l with
    | [] => UOk ([], c, [])
    | x :: r =>
        bindr (convert G x t) (fun xr =>
          let '(x', cx, ux) := xr in
          bindr (loop mode r (cx || c) (next_target mode t ux)) (fun rr =>
            let '(r', c', us) := rr in UOk (x' :: r', c', ux :: us)))
    end in
  let fix loopw (l : list (expr * expr)) (c : bool) (t : option nunit) {struct l}
      : ures (list (expr * expr) * bool * list nunit) :=
    match l with
    | [] => UOk ([], c, [])
    | pc :: r =>
        bindr (convert G (fst pc) t) (fun pr =>
          let '(p', cp, up) := pr in
          bindr (convert G (snd pc) (Some [])) (fun cr =>
            let '(cn', cc, _) := cr in
            bindr (loopw r (cc || (cp || c)) (next_target 1 t up)) (fun rr =>
              let '(r', c', us) := rr in UOk ((p', cn') :: r', c', up :: us))))
    end in
  let fnlike (mk : list expr -> expr) (l : list expr) (au : option nunit) : cres :=
    bindr (loop 2 l false au) (fun lr =>
      let '(l', c, us) := lr in
      match lastu us with
      | Some ul => UOk (if c then mk l' else e, c, ul)
      | None => match au with Some u => UOk (e, false, u) | None => UOther end
      end) in
  match e with
  | EVar v =>
      match nthZ (vtab G) v with
      | Some (u, _) => match lookup_unit G u with
                       | Some n => maybe_convert G e false n to
                       | None => UOther
                       end
      | None => UOther
      end
  | EQty _ _ u =>
      match lookup_unit G u with
      | Some n => maybe_convert G e false n to
      | None => UOther
      end
  | EDeriv (EVar vy) (EVar vt) n =>
      if n <=? 1 then
        match unit_of G (EVar vy), unit_of G (EVar vt) with
        | Some ny, Some nt => maybe_convert G e false (udiv ny nt) to
        | _, _ => UOther
        end
      else UErr EUnexpectedMath
  | EDeriv _ _ _ => UErr EUnexpectedMath
  | EMul l =>
      bindr (loop 0 l false None) (fun lr =>
        let '(l', c, us) := lr in
        match us with
        | [] => UOther
        | u0 :: ur =>
            maybe_convert G (if c then EMul l' else e) c (fold_left umul ur u0) to
        end)
  | EPow b x =>
      bindr (convert G x (Some [])) (fun xr =>
        let '(x', cx, _) := xr in
        match expo_value x' with
        | XSym => UErr EMustBeNumber
        | XUns => UUnsupp
        | XNum m =>
            if Qeq_bool m 0 then UUnsupp else
            bindr (convert G b None) (fun br =>
              let '(b', cb, ub) := br in
              let c := cb || cx in
              maybe_convert G (if c then EPow b' x' else e) c (upow ub m) to)
        end)
  | EAdd l =>
      bindr (loop 1 l false to) (fun lr =>
        let '(l', c, us) := lr in
        match lastu us with
        | Some ul => UOk (if c then EAdd l' else e, c, ul)
        | None => UOther
        end)
  | ERel r a b =>
      if not_dimless_target to then UErr EBoolean
      else bindr (convert G a None) (fun ar =>
             let '(a', ca, ua) := ar in
             bindr (convert G b (Some ua)) (fun br =>
               let '(b', cb, _) := br in
               let c := cb || ca in
               UOk (if c then ERel r a' b' else e, c, [])))
  | EPw l =>
      bindr (loopw l false to) (fun lr =>
        let '(l', c, us) := lr in
        match lastu us with
        | Some ul => UOk (if c then EPw l' else e, c, ul)
        | None => UOther
        end)
  | EFn f l =>
      if (f =? fn_abs) || (f =? fn_floor) || (f =? fn_ceiling) then fnlike (EFn f) l to
      else if not_dimless_target to then UErr EMustBeDimensionless
      else fnlike (EFn f) l (Some [])
  | EBool op l =>                                   (* And/Or/Xor/Not are sympy Functions *)
      if not_dimless_target to then UErr EMustBeDimensionless
      else fnlike (EBool op) l (Some [])
  | ENum _ _ | EConst _ | ETrue | EFalse =>
      if not_dimless_target to then UErr EMustBeDimensionless else UOk (e, false, [])
  end.

(* the loops as top-level functions (unfolding lemmas in Proofs/UnitCalcP.v) *)
Fixpoint cloop (G : env) (mode : Z) (l : list expr) (c : bool) (t : option nunit)
  : ures (list expr * bool * list nunit) :=
  match l with
  | [] => UOk ([], c, [])
  | x :: r =>
      bindr (convert G x t) (fun xr =>
        let '(x', cx, ux) := xr in
        bindr (cloop G mode r (cx || c) (next_target mode t ux)) (fun rr =>
          let '(r', c', us) := rr in UOk (x' :: r', c', ux :: us)))
  end.

Fixpoint cloopw (G : env) (l : list (expr * expr)) (c : bool) (t : option nunit)
  : ures (list (expr * expr) * bool * list nunit) :=
  match l with
  | [] => UOk ([], c, [])
  | pc :: r =>
      bindr (convert G (fst pc) t) (fun pr =>
        let '(p', cp, up) := pr in
        bindr (convert G (snd pc) (Some [])) (fun cr =>
          let '(cn', cc, _) := cr in
          bindr (cloopw G r (cc || (cp || c)) (next_target 1 t up)) (fun rr =>
            let '(r', c', us) := rr in UOk ((p', cn') :: r', c', up :: us))))
  end.

(* the guard of C05_convert_preserves_value: no floor / ceiling (F7: they do not commute with the
   factor pushed inside), Abs with one argument *)
Fixpoint homog (e : expr) : bool :=
  match e with
  | ENum _ _ | EConst _ | EQty _ _ _ | EVar _ | ETrue | EFalse | EDeriv _ _ _ => true
  | EAdd l | EMul l | EBool _ l => forallb homog l
  | EPow b x => homog b && homog x
  | EFn f l => negb ((f =? fn_floor) || (f =? fn_ceiling)) &&
               (if f =? fn_abs then match l with [_] => true | _ => false end else true) &&
               forallb homog l
  | ERel _ a b => homog a && homog b
  | EPw l => forallb (fun ec => homog (fst ec) && homog (snd ec)) l
  end.

(* ---- bridges --------------------------------------------------------------------------------------- *)
Definition vec_of_sexp (x : sexp) : uvec :=
  map (fun p => match p with L [k; q] => (sZ k, Q_of_sexp q) | _ => (0, 0%Q) end) (sL x).
Definition uc_svec (v : uvec) : sexp := L (map (fun ke => L [A (fst ke); sQ (snd ke)]) (canon v)).

Definition env_of_sexp (a u v : sexp) : env :=
  mkEnv (map vec_of_sexp (sL a)) (map vec_of_sexp (sL u))
        (map (fun p => match p with
                       | L [i; iv] => (sZ i, opt_of_sexp Q_of_sexp iv)
                       | _ => (-1, None)
                       end) (sL v)).

Definition uerr_code (e : uerr) : Z :=
  match e with
  | EUnexpectedMath => 0 | EInvalidUnits => 1 | EMustBeDimensionless => 2
  | EMustBeNumber => 3 | EBoolean => 4 | EConversion => 5
  end.

Definition smag (m : mag) : sexp :=
  match m with
  | MNum q f => L [A 0; sQ q; sbool f]
  | MIrr => L [A 1] | MVar => L [A 2] | MSym => L [A 3]
  end.

Definition sunit (G : env) (n : nunit) : sexp :=
  let v := expand G n in L [uc_svec (scale v); uc_svec (dims v ++ angle v)].

Definition sures {X} (f : X -> list sexp) (r : ures X) : list sexp :=
  match r with
  | UOk x => A 0 :: f x
  | UErr e => [A 1; A (uerr_code e)]
  | UOther => [A 2]
  | UUnsupp => [A 3]
  end.

(* input: (atoms utab vtab expr); output: (tag ... ) ++ [guard] *)
(* @run 40 run_infer *)
Definition run_infer (x : sexp) : sexp :=
  match x with
  | L [a; u; v; e] =>
      let G := env_of_sexp a u v in
      let ex := expr_of_sexp e in
      L (sures (fun r => [sunit G (fst r); smag (snd r)]) (infer G ex) ++ [sbool (guard G false ex)])
  | _ => serr 99
  end.

(* input: (atoms utab vtab expr target) target = () | (nunit); output: (tag expr flag unit) ++ [homog] *)
(* @run 50 run_convert *)
Definition run_convert (x : sexp) : sexp :=
  match x with
  | L [a; u; v; e; t] =>
      let G := env_of_sexp a u v in
      let ex := expr_of_sexp e in
      L (sures (fun r => [sexp_of_expr (fst (fst r)); sbool (snd (fst r)); sunit G (snd r)])
               (convert G ex (opt_of_sexp vec_of_sexp t)) ++ [sbool (homog ex)])
  | _ => serr 99
  end.
