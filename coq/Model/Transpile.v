(* Model of cellmlmanip.parser.Transpiler (parser.py 592-1023): MathML element tree -> SymPy expression.
   Mirrors what the code does after the repairs of operator-only-apply, ln-two-operands, cn-python-only-spelling,
   diff-degree-not-positive-integer and ignored-children, including what it still accepts although it should not
   (KNOWN_FINDINGS.txt: qualifier-misuse).
   SymPy constructors are kept UNEVALUATED (x - y = Add(x, Mul(-1, y)), x / y = Mul(x, Pow(y, -1)),
   root(x, n) = Pow(x, Pow(n, -1)), log(x, b) = Mul(log x, Pow(log b, -1))); the correspondence therefore
   compares values, not shapes.  No proofs in this file. *)
From Coq Require Import List ZArith QArith Bool String.
From Verif Require Import Sexp UnitAlg UStore Expr TranspileTables_gen.
Import ListNotations.
Open Scope Z_scope.

(* ---- MathML element trees ---------------------------------------------------------------------
   tag   local name (character codes)
   ty    the plain "type" attribute: 0 absent, 1 "e-notation", 2 anything else
   text  node.text (character codes; [] = None), tail = node.tail
   ch    element children *)
Inductive mtree := MElem (tag : name) (ty : Z) (text tail : list Z) (ch : list mtree).

Definition mtag (t : mtree) : name := match t with MElem tag _ _ _ _ => tag end.
Definition mchildren (t : mtree) : list mtree := match t with MElem _ _ _ _ ch => ch end.

(* ---- results ---------------------------------------------------------------------------------- *)
Inductive tres (X : Type) := TOk (x : X) | TErr (e : Z).
Arguments TOk {X} x. Arguments TErr {X} e.
Definition EValue := 1. Definition EType := 2. Definition EIndex := 3. Definition EAttr := 4.

(* callables the handlers return: closures of the class and SymPy classes of the table *)
Inductive kind :=
| KAdd | KMul
| KFn1 (f : Z)      (* function class with exactly one argument *)
| KFn2 (f : Z)      (* Mod *)
| KMaxMin (f : Z)   (* Max / Min: one argument is returned as it is *)
| KLogC             (* sympy.log / sympy.ln: one or two arguments *)
| KBool (op : Z)    (* And Or Xor *)
| KNot
| KRel (r : Z)      (* a relation class called directly *)
| KChain (r : Z)    (* _get_nary_relation_callback(relation class r) *)
| KMinus | KDivide | KPower | KRoot | KLog10 | KDiff.

(* what a handler does with its node *)
Inductive hkind :=
| HApply | HBvar | HCi | HCn | HDegree | HLogbase | HMath | HOtherwise | HPiece | HPiecewise
| HOp (k : kind)    (* returns a callable, does not look at the node *)
| HVal (c : Z)      (* table entry that is an object, not a class: EConst c = 0 pi, 1 E, 2 oo, 4 nan *)
| HValB (b : bool). (* sympy.true / sympy.false *)

(* values passed between handlers *)
Inductive tval :=
| TE (e : expr)
| TOp (k : kind)
| TList (l : list tval)     (* <bvar> with two children, nested <math> *)
| TPair (a b : tval)        (* <piece>, <otherwise> *)
| TOpaque                   (* accepted SymPy object the model does not describe (evaluated derivative) *)
| TJunk.                    (* NotImplemented, returned by SymPy's inequality classes for a non-SymPy operand *)

(* ---- tables ----------------------------------------------------------------------------------- *)
Fixpoint alookup {X} (n : name) (l : list (name * X)) : option X :=
  match l with
  | [] => None
  | (n', x) :: r => if name_eqb n n' then Some x else alookup n r
  end.

Open Scope string_scope.
(* what the attribute sympy.<name> is (trusted knowledge about SymPy, exercised by the correspondence) *)
Definition sympy_table : list (name * hkind) := [
  (N "Abs", HOp (KFn1 fn_abs)); (N "And", HOp (KBool 0)); (N "Or", HOp (KBool 1)); (N "Xor", HOp (KBool 2));
  (N "Not", HOp KNot); (N "Add", HOp KAdd); (N "Mul", HOp KMul); (N "Mod", HOp (KFn2 fn_mod));
  (N "Max", HOp (KMaxMin fn_max)); (N "Min", HOp (KMaxMin fn_min));
  (N "Eq", HOp (KRel 0)); (N "Ne", HOp (KRel 1)); (N "Lt", HOp (KRel 2)); (N "Le", HOp (KRel 3));
  (N "Gt", HOp (KRel 4)); (N "Ge", HOp (KRel 5));
  (N "exp", HOp (KFn1 fn_exp)); (N "ln", HOp KLogC); (N "log", HOp KLogC);
  (N "floor", HOp (KFn1 fn_floor)); (N "ceiling", HOp (KFn1 fn_ceiling));
  (N "sin", HOp (KFn1 fn_sin)); (N "cos", HOp (KFn1 fn_cos)); (N "tan", HOp (KFn1 fn_tan));
  (N "sec", HOp (KFn1 fn_sec)); (N "csc", HOp (KFn1 fn_csc)); (N "cot", HOp (KFn1 fn_cot));
  (N "sinh", HOp (KFn1 fn_sinh)); (N "cosh", HOp (KFn1 fn_cosh)); (N "tanh", HOp (KFn1 fn_tanh));
  (N "sech", HOp (KFn1 fn_sech)); (N "csch", HOp (KFn1 fn_csch)); (N "coth", HOp (KFn1 fn_coth));
  (N "asin", HOp (KFn1 fn_asin)); (N "acos", HOp (KFn1 fn_acos)); (N "atan", HOp (KFn1 fn_atan));
  (N "asec", HOp (KFn1 fn_asec)); (N "acsc", HOp (KFn1 fn_acsc)); (N "acot", HOp (KFn1 fn_acot));
  (N "asinh", HOp (KFn1 fn_asinh)); (N "acosh", HOp (KFn1 fn_acosh)); (N "atanh", HOp (KFn1 fn_atanh));
  (N "asech", HOp (KFn1 fn_asech)); (N "acsch", HOp (KFn1 fn_acsch)); (N "acoth", HOp (KFn1 fn_acoth));
  (N "pi", HVal 0); (N "E", HVal 1); (N "oo", HVal 2); (N "nan", HVal 4); (N "true", HValB true); (N "false", HValB false)
].

(* the methods of the class *)
Definition method_table : list (name * hkind) := [
  (N "_apply_handler", HApply); (N "_bvar_handler", HBvar); (N "_ci_handler", HCi); (N "_cn_handler", HCn);
  (N "_degree_handler", HDegree); (N "_diff_handler", HOp KDiff); (N "_divide_handler", HOp KDivide);
  (N "_log_handler", HOp KLog10); (N "_logbase_handler", HLogbase); (N "transpile", HMath);
  (N "_minus_handler", HOp KMinus); (N "_otherwise_handler", HOtherwise); (N "_piece_handler", HPiece);
  (N "_piecewise_handler", HPiecewise); (N "_power_handler", HOp KPower); (N "_root_handler", HOp KRoot)
].
Definition sep_tag : name := N "sep".
Open Scope Z_scope.

(* __init__ installs _simple_operator_handler for every key of the simple table AFTER the literal
   (so the table wins); _simple_operator_handler wraps the class when the tag is an n-ary relation, and into a
   one-argument lambda when the tag is in MATHML_UNARY_OPERATORS. *)
Definition tag_kind (tag : name) : option hkind :=
  match alookup tag simple_table with
  | Some s =>
      match alookup s sympy_table with
      | Some (HOp (KRel r)) =>
          if name_in tag unary_operators then None
          else Some (HOp (if name_in tag nary_relations then KChain r else KRel r))
      | Some (HOp KLogC) =>
          if name_in tag nary_relations then None
          else Some (HOp (if name_in tag unary_operators then KFn1 fn_log else KLogC))   (* lambda operand: log(operand) *)
      | Some (HOp (KFn1 f)) => if name_in tag nary_relations then None else Some (HOp (KFn1 f))
      | Some h => if name_in tag nary_relations || name_in tag unary_operators then None else Some h
      | None => None
      end
  | None =>
      match alookup tag handler_methods with
      | Some m => alookup m method_table
      | None => None
      end
  end.

(* ---- text: strip, identifiers, Python float() and int() -------------------------------------- *)
Definition is_space (c : Z) : bool := (c =? 32) || (c =? 9) || (c =? 10) || (c =? 13).
Fixpoint lstrip (s : list Z) : list Z :=
  match s with c :: r => if is_space c then lstrip r else s | [] => [] end.
Definition strip (s : list Z) : list Z := rev (lstrip (rev (lstrip s))).

(* injective numbering of identifiers (the harness uses the same function) *)
Definition encode (s : list Z) : Z := fold_left (fun a c => a * 256 + c) s 1.

Definition is_digit (c : Z) : bool := (48 <=? c) && (c <=? 57).

(* [0-9]*  after the first digit: accumulated value, number of digits, rest *)
Fixpoint digits_rest (acc n : Z) (s : list Z) : Z * Z * list Z :=
  match s with
  | c :: r => if is_digit c then digits_rest (acc * 10 + (c - 48)) (n + 1) r else (acc, n, s)
  | [] => (acc, n, [])
  end.

Definition digitpart (acc : Z) (s : list Z) : option (Z * Z * list Z) :=
  match s with
  | c :: r => if is_digit c then Some (digits_rest (acc * 10 + (c - 48)) 1 r) else None
  | [] => None
  end.

(* _CN_DECIMAL without the sign: [0-9]+\.?[0-9]* | \.[0-9]+ : integer of all digits, fractional digits, rest *)
Definition number (s : list Z) : option (Z * Z * list Z) :=
  match digitpart 0 s with
  | Some (ip, _, rest) =>
      match rest with
      | c :: rest' =>
          if c =? 46 then
            match digitpart ip rest' with
            | Some r => Some r
            | None => Some (ip, 0, rest')
            end
          else Some (ip, 0, rest)
      | [] => Some (ip, 0, [])
      end
  | None => match s with
            | c :: rest' => if c =? 46 then digitpart 0 rest' else None
            | [] => None
            end
  end.

Definition split_sign (s : list Z) : bool * list Z :=
  match s with
  | c :: r => if c =? 43 then (false, r) else if c =? 45 then (true, r) else (false, s)
  | [] => (false, [])
  end.

(* _CN_INTEGER on the stripped text: [+-]?[0-9]+ *)
Definition py_int (s : list Z) : option Z :=
  let sb := split_sign (strip s) in
  match digitpart 0 (snd sb) with
  | Some (v, _, []) => Some (if fst sb then - v else v)
  | _ => None
  end.

(* v * 10^p as an exact rational *)
Definition q10 (v p : Z) : Q :=
  if 0 <=? p then inject_Z (v * 10 ^ p) else Qmake v (Z.to_pos (10 ^ (- p))).

(* _CN_DECIMAL: [sign] number; signed integer of all digits, number of fractional digits, rest *)
Definition signed_number (s : list Z) : option (Z * Z * list Z) :=
  let sb := split_sign s in
  match number (snd sb) with
  | Some (v, k, rest) => Some (if fst sb then - v else v, k, rest)
  | None => None
  end.

(* _CN_REAL on a stripped string, then float(): a decimal with an optional exponent; the exact decimal value
   stands for the nearest double *)
Definition py_real (s : list Z) : option Q :=
  match signed_number s with
  | Some (v, k, []) => Some (q10 v (- k))
  | Some (v, k, c :: rest) =>
      if (c =? 101) || (c =? 69) then
        let eb := split_sign rest in
        match digitpart 0 (snd eb) with
        | Some (e, _, []) => Some (q10 v ((if fst eb then - e else e) - k))
        | _ => None
        end
      else None
  | None => None
  end.

(* ---- token handlers --------------------------------------------------------------------------- *)
Definition ci_handler (text : list Z) : tres tval :=
  match text with
  | [] => TErr EAttr                       (* None.strip() *)
  | _ => TOk (TE (EVar (encode (strip text))))
  end.

(* _number_text turns a missing text into '' : every malformed part is a ValueError *)
Definition cn_handler (ty : Z) (text : list Z) (ch : list mtree) : tres tval :=
  if ty =? 0 then
    match ch with
    | _ :: _ => TErr EValue                   (* a plain <cn> has no child elements *)
    | [] => match py_real (strip text) with
            | Some q => TOk (TE (ENum 2 q))
            | None => TErr EValue
            end
    end
  else if ty =? 1 then
    match ch with
    | [MElem stag _ _ stail _] =>
        if name_eqb stag sep_tag then
          match signed_number (strip text), py_int stail with
          | Some (v, k, []), Some e => TOk (TE (ENum 2 (q10 v (e - k))))    (* float('%se%d' % (mantissa, exponent)) *)
          | _, _ => TErr EValue
          end
        else TErr EValue
    | _ => TErr EValue
    end
  else TErr EValue.

(* ---- what Python operators and SymPy constructors build ---------------------------------------- *)
Definition e_int (z : Z) : expr := ENum 0 (inject_Z z).
Definition b_neg (x : expr) : expr := EMul [e_int (-1); x].
Definition b_sub (x y : expr) : expr := EAdd [x; EMul [e_int (-1); y]].
Definition b_div (x y : expr) : expr := EMul [x; EPow y (e_int (-1))].
Definition b_root (x n : expr) : expr := EPow x (EPow n (e_int (-1))).
Definition b_log (x b : expr) : expr := EMul [EFn fn_log [x]; EPow (EFn fn_log [b]) (e_int (-1))].

Definition is_boollit (e : expr) : bool := match e with ETrue | EFalse => true | _ => false end.
Definition is_deriv (e : expr) : bool := match e with EDeriv _ _ _ => true | _ => false end.
Definition is_ineq (r : Z) : bool := (2 <=? r) && (r <=? 5).

(* a relation class applied to two expressions: SymPy refuses a Boolean (true / false, a relation, And / Or / Xor / Not)
   as an operand of an inequality *)
Definition is_boolish (e : expr) : bool :=
  match e with ETrue | EFalse | ERel _ _ _ | EBool _ _ => true | _ => false end.

Definition mk_rel (r : Z) (a b : expr) : tres expr :=
  if is_ineq r && (is_boolish a || is_boolish b) then TErr EType else TOk (ERel r a b).

Fixpoint chain (r : Z) (a : expr) (l : list expr) : tres (list expr) :=
  match l with
  | [] => TOk []
  | b :: rest =>
      match mk_rel r a b with
      | TErr e => TErr e
      | TOk x => match chain r b rest with TOk xs => TOk (x :: xs) | TErr e => TErr e end
      end
  end.

Fixpoint exprs (l : list tval) : option (list expr) :=
  match l with
  | [] => Some []
  | TE e :: r => match exprs r with Some es => Some (e :: es) | None => None end
  | _ :: _ => None
  end.

Definition ok_e (e : expr) : tres tval := TOk (TE e).

(* calling one of the callables with SymPy expressions *)
Definition call_expr (k : kind) (es : list expr) : tres tval :=
  match k with
  | KAdd => ok_e (EAdd es)
  | KMul => ok_e (EMul es)
  | KFn1 f => match es with [x] => ok_e (EFn f [x]) | _ => TErr EType end
  | KFn2 f => match es with [x; y] => ok_e (EFn f [x; y]) | _ => TErr EType end
  | KMaxMin f => match es with [] => TErr EValue | [x] => ok_e x | _ => ok_e (EFn f es) end
  | KLogC => match es with
             | [x] => ok_e (EFn fn_log [x])
             | [x; b] => ok_e (b_log x b)
             | _ => TErr EType
             end
  | KBool op => ok_e (EBool op es)
  | KNot => match es with [x] => ok_e (EBool 3 [x]) | _ => TErr EType end
  | KRel r => match es with
              | [a; b] => match mk_rel r a b with TOk x => ok_e x | TErr e => TErr e end
              | _ => TErr EType
              end
  | KChain r =>
      match es with
      | a :: ((_ :: _ :: _) as rest) =>            (* len(expressions) > 2 *)
          match chain r a rest with TOk xs => ok_e (EBool 0 xs) | TErr e => TErr e end
      | [a; b] =>
          if is_ineq r && (is_boollit a || is_boollit b) then TErr EType
          else if negb (is_ineq r) && (is_boollit a || is_boollit b) && negb (is_boollit a && is_boollit b)
                  && (is_deriv a || is_deriv b) then TErr EType
          else match mk_rel r a b with TOk x => ok_e x | TErr e => TErr e end
      | _ => TErr EType
      end
  | KMinus => match es with [x] => ok_e (b_neg x) | [x; y] => ok_e (b_sub x y) | _ => TErr EType end
  | KDivide => match es with [x; y] => ok_e (b_div x y) | _ => TErr EType end
  | KPower => match es with [x; y] => ok_e (EPow x y) | _ => TErr EType end
  | KRoot => match es with
             | [x] => ok_e (b_root x (e_int 2))
             | [d; x] => ok_e (b_root x d)          (* "first_argument" is the degree *)
             | _ => TErr EType
             end
  | KLog10 => match es with
              | [x] => ok_e (b_log x (e_int 10))
              | [b; x] => ok_e (b_log x b)
              | _ => TErr EType
              end
  | KDiff => TErr EType
  end.

(* int(x) of a SymPy number *)
Definition int_of_expr (e : expr) : option Z :=
  match e with
  | ENum _ q => Some (Z.quot (Qnum q) (Zpos (Qden q)))
  | EConst 0 => Some 3
  | EConst 1 => Some 2
  | _ => None
  end.

(* order == float(x) for the truncated order *)
Definition is_whole (e : expr) (n : Z) : bool :=
  match e with ENum _ q => Qnum q =? n * Zpos (Qden q) | _ => false end.

(* sympy.Derivative accepts only symbols (and applied undefined functions) as differentiation variable *)
Definition wrt_ok (e : expr) : bool := match e with EVar _ => true | _ => false end.

Definition tv_is_boollit (v : tval) : bool := match v with TE e => is_boollit e | _ => false end.

Definition diff_call (b y : tval) : tres tval :=
  if tv_is_boollit b || tv_is_boollit y then TErr EType
  else match y with
       | TE ye =>
           match b with
           | TList [TE bv; d] =>
               match d with
               | TE de =>
                   match int_of_expr de with
                   | Some n =>
                       if negb (is_whole de n) || (n <? 1) then TErr EValue      (* order != float(degree) or order < 1 *)
                       else if wrt_ok bv then ok_e (EDeriv ye bv n) else TErr EValue
                   | None => TErr EType
                   end
               | _ => TErr EType
               end
           | TE bv => if wrt_ok bv then ok_e (EDeriv ye bv 1) else TErr EValue
           | _ => TErr EValue
           end
       | _ => TErr EValue
       end.

(* bool(x) of the third positional argument, which lands in the "evaluate" parameter *)
Definition truthy (v : tval) : option bool :=
  match v with
  | TE (ENum _ q) => Some (negb (Qnum q =? 0))
  | TE EFalse => Some false
  | TE (ERel _ _ _) => None
  | TList [] => Some false
  | _ => Some true
  end.

Definition call_kind (k : kind) (args : list tval) : tres tval :=
  match k with
  | KDiff =>
      match args with
      | [b; y] => diff_call b y
      | [b; y; fl] =>
          match diff_call b y with
          | TErr e => TErr e
          | TOk v => match truthy fl with
                     | Some false => TOk v
                     | Some true => TOk TOpaque
                     | None => TErr EType
                     end
          end
      | _ => TErr EType
      end
  | _ => match exprs args with
         | Some es => call_expr k es
         | None =>
             match k, args with
             | KChain r, [_; _] => if is_ineq r then TOk TJunk else TErr EValue
             | KRel r, [_; _] => if is_ineq r then TOk TJunk else TErr EValue
             | _, _ => TErr EValue             (* SympifyError or TypeError *)
             end
         end
  end.

(* isinstance(x, sympy.Basic) *)
Definition is_basic (v : tval) : bool := match v with TE _ | TOpaque => true | _ => false end.

(* _apply_handler: "call the first result with the rest"; an <apply> around a single value is tolerated *)
Definition apply_handler (vs : list tval) : tres tval :=
  match vs with
  | [] => TErr EValue
  | [v] => if is_basic v then TOk v else TErr EValue
  | TOp k :: args => call_kind k args
  | _ :: _ => TErr EType                       (* object is not callable *)
  end.

(* the condition of an ExprCondPair must be Boolean (a Symbol is let through) *)
Definition cond_ok (c : expr) : bool :=
  match c with ERel _ _ _ | EBool _ _ | ETrue | EFalse | EVar _ => true | _ => false end.

(* ExprCondPair folds a Piecewise that occurs inside a condition into an ITE; SymPy can do that only when the inner
   Piecewise covers every case (ends in a True condition), otherwise it raises NotImplementedError *)
Definition last_true (l : list (expr * expr)) : bool :=
  match rev l with (_, ETrue) :: _ => true | _ => false end.

Fixpoint has_partial_pw (e : expr) : bool :=
  let fix any (l : list expr) : bool :=
    match l with [] => false | x :: r => has_partial_pw x || any r end in
  let fix anyp (l : list (expr * expr)) : bool :=
    match l with [] => false | (x, c) :: r => has_partial_pw x || has_partial_pw c || anyp r end in
  match e with
  | EAdd l | EMul l | EFn _ l | EBool _ l => any l
  | EPow a b | ERel _ a b => has_partial_pw a || has_partial_pw b
  | EDeriv y t _ => has_partial_pw y || has_partial_pw t
  | EPw l => negb (last_true l) || anyp l
  | _ => false
  end.

(* Piecewise.__new__ stops looking at its arguments after the first pair whose condition is True *)
Fixpoint pieces (vs : list tval) : option (list (expr * expr)) :=
  match vs with
  | [] => Some []
  | TPair (TE e) (TE c) :: r =>
      if cond_ok c && negb (has_partial_pw c) then
        match c with
        | ETrue => Some [(e, c)]
        | _ => match pieces r with Some ps => Some ((e, c) :: ps) | None => None end
        end
      else None
  | _ :: _ => None
  end.

Definition container (h : hkind) (vs : list tval) : tres tval :=
  match h with
  | HApply => apply_handler vs
  | HPiecewise =>
      match vs with
      | [] => TErr EType
      | _ => match pieces vs with Some ps => ok_e (EPw ps) | None => TErr EType end
      end
  | HPiece => match vs with [a; b] => TOk (TPair a b) | _ => TErr EValue end
  | HOtherwise => match vs with [a] => TOk (TPair a (TE ETrue)) | _ => TErr EValue end
  | HDegree => match vs with [a] => TOk a | _ => TErr EValue end
  | HLogbase => match vs with a :: _ => TOk a | [] => TErr EIndex end
  | HBvar => match vs with [a] => TOk a | [a; b] => TOk (TList [a; b]) | _ => TErr EValue end
  | HMath => TOk (TList vs)
  | _ => TErr EValue
  end.

Definition handle (h : hkind) (ty : Z) (text : list Z) (ch : list mtree) (sub : tres (list tval)) : tres tval :=
  match h with
  | HCi => ci_handler text
  | HCn => cn_handler ty text ch
  | HOp k => TOk (TOp k)
  | HVal c => TOk (TE (EConst c))
  | HValB b => TOk (TE (if b then ETrue else EFalse))
  | _ => match sub with TErr e => TErr e | TOk vs => container h vs end
  end.

(* transpile: every child must have a handler; the handlers of container elements descend first *)
Definition trs_of (rec : mtree -> tres tval) : list mtree -> tres (list tval) :=
  fix go (l : list mtree) : tres (list tval) :=
    match l with
    | [] => TOk []
    | x :: r => match rec x with
                | TOk v => match go r with TOk vs => TOk (v :: vs) | TErr e => TErr e end
                | TErr e => TErr e
                end
    end.

(* token, operator and constant elements must not have child elements *)
Definition leaf_violation (tag : name) (ch : list mtree) : bool :=
  negb (name_in tag container_tags) && match ch with [] => false | _ => true end.

Fixpoint tr (t : mtree) : tres tval :=
  match t with
  | MElem tag ty text tail ch =>
      match tag_kind tag with
      | None => TErr EValue
      | Some h => if leaf_violation tag ch then TErr EValue else handle h ty text ch (trs_of tr ch)
      end
  end.

Definition trs : list mtree -> tres (list tval) := trs_of tr.

(* parse_tree, for one child of <math>: only SymPy objects are returned *)
Definition parse_one (t : mtree) : tres tval :=
  match tr t with
  | TOk v => if is_basic v then TOk v else TErr EValue
  | TErr e => TErr e
  end.

(* ---- bridge ----------------------------------------------------------------------------------- *)
Fixpoint mtree_of_sexp (x : sexp) : mtree :=
  match x with
  | L [tg; ty; tx; tl; L ch] =>
      MElem (map sZ (sL tg)) (sZ ty) (map sZ (sL tx)) (map sZ (sL tl)) (map mtree_of_sexp ch)
  | _ => MElem [] 0 [] [] []
  end.

Definition sexp_of_tres (r : tres tval) : sexp :=
  match r with
  | TOk (TE e) => L [A 0; sexp_of_expr e]
  | TOk (TOp _) => L [A 1; A 0]
  | TOk (TList _) => L [A 1; A 1]
  | TOk (TPair _ _) => L [A 1; A 2]
  | TOk TOpaque => L [A 1; A 3]
  | TOk TJunk => L [A 1; A 4]
  | TErr e => L [A (-1); A e]
  end.

(* @run 20 run_transpile *)
Definition run_transpile (x : sexp) : sexp := sexp_of_tres (parse_one (mtree_of_sexp x)).
