(* Bridge for Model/Loader.v (C01, C15, C17 correspondence).
   doc   = (model_cmeta units_err units comps groups conns)
   opt   = () | (x)            units = ((name vec) ...)   vec = ((generator (num den)) ...)
   comp  = (name vars maths units_inside reaction)      var = (name units init pub priv cmeta)   iface 0 none 1 in 2 out
   maths = ((eq ...) ...)  one list per <math> element;  eq = (lhs rhs)  expression s-expressions (Syntax/Expr.v)
   group = (rels refs)     ref = (component (ref ...))   conn = (c1 c2 ((v1 v2) ...))
   result = (0 vars cmeta init asg map eqs) | (-1 kind family) | (-2)  out of fuel
   flat eq = (0 lhs rhs) | (1 t a vec) | (2 v (num den)) *)
From Coq Require Import List ZArith QArith Bool.
From Verif Require Import Sexp UnitAlg Expr Loader.
Import ListNotations.
Open Scope Z_scope.

Definition lr_vec (x : sexp) : uvec :=
  map (fun p => match p with L [k; q] => (sZ k, Q_of_sexp q) | _ => (0, 0%Q) end) (sL x).
Definition lr_svec (v : uvec) : sexp := L (map (fun ke => L [A (fst ke); sQ (snd ke)]) (canon v)).

Definition iface_of_sexp (x : sexp) : iface := match sZ x with 1 => IIn | 2 => IOut | _ => INone end.

Definition dvar_of_sexp (x : sexp) : dvar :=
  match x with
  | L [n; u; i; pb; pv; cm] =>
      mkDVar (sZ n) (sZ u) (opt_of_sexp Q_of_sexp i) (iface_of_sexp pb) (iface_of_sexp pv) (opt_of_sexp sZ cm)
  | _ => mkDVar 0 0 None INone INone None
  end.

Definition ceq_of_sexp (x : sexp) : ceq :=
  match x with
  | L [l; r] => mkCeq (expr_of_sexp l) (expr_of_sexp r)
  | _ => mkCeq ETrue ETrue
  end.

Definition comp_of_sexp (x : sexp) : comp :=
  match x with
  | L [n; vs; ms; ui; re] =>
      mkComp (sZ n) (map dvar_of_sexp (sL vs)) (map (fun m => map ceq_of_sexp (sL m)) (sL ms))
             (bool_of_sexp ui) (bool_of_sexp re)
  | _ => mkComp 0 [] [] false false
  end.

Fixpoint cref_of_sexp (x : sexp) : cref :=
  match x with
  | L [c; L ch] => CRef (sZ c) (map cref_of_sexp ch)
  | _ => CRef 0 []
  end.

Definition group_of_sexp (x : sexp) : group :=
  match x with
  | L [rs; refs] => mkGroup (map sZ (sL rs)) (map cref_of_sexp (sL refs))
  | _ => mkGroup [] []
  end.

Definition conn_of_sexp (x : sexp) : conn :=
  match x with
  | L [a; b; ms] => mkConn (sZ a) (sZ b)
                           (map (fun m => match m with L [p; q] => (sZ p, sZ q) | _ => (0, 0) end) (sL ms))
  | _ => mkConn 0 0 []
  end.

Definition doc_of_sexp (x : sexp) : doc :=
  match x with
  | L [mc; ue; us; cs; gs; ks] =>
      mkDoc (opt_of_sexp sZ mc) (opt_of_sexp sZ ue)
            (map (fun p => match p with L [n; v] => (sZ n, lr_vec v) | _ => (0, []) end) (sL us))
            (map comp_of_sexp (sL cs)) (map group_of_sexp (sL gs)) (map conn_of_sexp (sL ks))
  | _ => mkDoc None None [] [] [] []
  end.

Definition err_kind (e : err) : Z :=
  match e with
  | EUnitsInComp => 1 | EUnitsFail _ => 2 | EDupComponent => 3 | EUnknownUnit => 4 | EDupVariable => 5
  | EDupCmeta => 6 | EReaction => 7 | ERelCount => 8 | EKeyComp => 9 | EParentSet => 10 | EMissingComp => 11
  | EMissingVar => 12 | ENoDirection => 13 | ETargetAssigned => 14 | EConnStuck => 15 | EDim => 16 | ECmeta => 17
  | EDefinedTwice => 18 | EUndefinedIdent => 19 | EUnknownCnUnit => 20 | EHigherOrder => 21 | EBadLhs => 22
  | EStateNoInit => 23 | ECycle => 24
  end.

(* exception family: 1 ValueError, 2 KeyError, 3 AssertionError, 4 pint DimensionalityError, 5 TypeError,
   100 + c = the family reported by the units loader (code c of Model/UnitsLoader.v) *)
Definition err_family (e : err) : Z :=
  match e with
  | EUnitsFail c => 100 + c
  | EUnknownUnit | EKeyComp | EMissingVar | EUnknownCnUnit => 2
  | EConnStuck | EUndefinedIdent | EStateNoInit => 3
  | EDim => 4
  | EHigherOrder => 5
  | _ => 1
  end.

Definition sfeq (q : feq) : sexp :=
  match q with
  | FMath l r => L [A 0; sexp_of_expr l; sexp_of_expr r]
  | FConv t a cf => L [A 1; snat t; snat a; lr_svec cf]
  | FConst v x => L [A 2; snat v; sQ x]
  end.

Definition sflat (f : flat) : sexp :=
  L [A 0;
     L (map (fun v => L [A (fc v); A (fn v); A (fu v)]) (f_vars f));
     L (map (sopt A) (f_cmeta f));
     L (map (sopt sQ) (f_init f));
     L (map (sopt snat) (f_asg f));
     L (map (fun p => L [snat (fst p); snat (snd p)]) (f_map f));
     L (map sfeq (f_eqs f))].

Definition sresult (r : result flat) : sexp :=
  match r with
  | OK f => sflat f
  | Error e => L [A (-1); A (err_kind e); A (err_family e)]
  | OutOfFuel => L [A (-2)]
  end.

(* @run 170 run_loader *)
Definition run_loader (x : sexp) : sexp := sresult (load (doc_of_sexp x)).

(* the direction decision alone (finite domain, enumerated by the harness):
   (pub1 priv1 pub2 priv2 relation)   relation 0 siblings (both top level) | 1 c1 parent of c2 | 2 c2 parent of c1
                                      | 3 unrelated (c1 top level, c2 child of a third component)
   -> (0 source target) with 1 / 2 naming the end, or (-1 kind family) *)
Definition dir_case (x : sexp) : sexp :=
  match x with
  | L [a; b; c; d; r] =>
      let vars := [mkFv 1 1 0 [] None (iface_of_sexp a) (iface_of_sexp b) None;
                   mkFv 2 1 0 [] None (iface_of_sexp c) (iface_of_sexp d) None] in
      let names := [1; 2; 3] in
      let ps := match sZ r with
                | 1 => [None; Some 1; None] | 2 => [Some 2; None; None] | 3 => [None; Some 3; None]
                | _ => [None; None; None]
                end in
      match direction vars names ps 1 1 2 1 with
      | OK st => L [A 0; snat (S (fst st)); snat (S (snd st))]
      | Error e => L [A (-1); A (err_kind e); A (err_family e)]
      | OutOfFuel => L [A (-2)]
      end
  | _ => L [A (-3)]
  end.

(* @run 171 run_direction *)
Definition run_direction (x : sexp) : sexp := L (map dir_case (sL x)).
