(* Interpreter of operation lists on the unit-store world: the executable side of the
   correspondence for C07 (and reused by C16, C19). *)
From Coq Require Import List ZArith QArith Bool.
From Verif Require Import Sexp UnitAlg UStore Builtins.
Import ListNotations.
Open Scope Z_scope.

Definition T := the_tables.

Definition sres {X} (f : X -> sexp) (r : res X) : sexp :=
  match r with Ok x => L [A 0; f x] | Err e => serr_of e end.

Definition bind2 {X Y} (a b : res X) (f : X -> X -> res Y) : res Y :=
  match a, b with
  | Ok x, Ok y => f x y
  | Err e, _ => Err e
  | _, Err e => Err e
  end.

Definition ustore_op (w : world) (x : sexp) : world * sexp :=
  match x with
  | L [A 0; sh] =>
      match new_store T w (if sZ sh <? 0 then None else Some (nat_of_sexp sh)) with
      | Ok (w', id) => (w', L [A 0; A id])
      | Err e => (w, serr_of e)
      end
  | L [A 1; i; n; e] =>
      match add_unit T w (nat_of_sexp i) (name_of_sexp n) (uexpr_of_sexp e) with
      | Ok w' => (w', L [A 0])
      | Err e => (w, serr_of e)
      end
  | L [A 2; i; n] =>
      match add_base_unit T w (nat_of_sexp i) (name_of_sexp n) with
      | Ok w' => (w', L [A 0])
      | Err e => (w, serr_of e)
      end
  | L [A 3; ta; tb] =>
      (w, sres (fun c => match c with inl _ => L [A 1] | inr v => L [A 0; svec v] end)
               (bind2 (teval T w (uterm_of_sexp ta)) (teval T w (uterm_of_sexp tb)) conversion_factor))
  | L [A 4; q; ta; tb] =>
      (w, sres (fun r => L [sQ (fst (fst r)); svec (snd (fst r)); svec (snd r)])
               (bind2 (teval T w (uterm_of_sexp ta)) (teval T w (uterm_of_sexp tb)) (convert (Q_of_sexp q))))
  | L [A 5; ta; tb] =>
      (w, sres sbool
               (bind2 (teval T w (uterm_of_sexp ta)) (teval T w (uterm_of_sexp tb))
                      (fun a b => Ok (is_equivalent a b))))
  | L [A 6; i; n] =>
      (w, match nth_error (stores w) (nat_of_sexp i) with
          | Some s => L [A 0; sbool (name_in (name_of_sexp n) (known s))]
          | None => serr_of EBadStore
          end)
  | L [A 7; i; n] => (w, sres svec (get_unit T w (nat_of_sexp i) (name_of_sexp n)))
  | L [A 8; ta] => (w, sres (fun v => L [svec (scale v); svec (dims v ++ angle v)]) (teval T w (uterm_of_sexp ta)))
  | _ => (w, serr 99)
  end.

Fixpoint ustore_ops (w : world) (ops : list sexp) : list sexp :=
  match ops with
  | [] => []
  | o :: r => let wr := ustore_op w o in snd wr :: ustore_ops (fst wr) r
  end.

(* @run 7 run_ustore *)
Definition run_ustore (x : sexp) : sexp := L (ustore_ops init_world (sL x)).
