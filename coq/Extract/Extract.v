(* Extraction of the executable models to OCaml (ExtrOcamlBasic only: bool, option, unit, list,
   prod, sumbool, andb/orb/negb/fst/snd).  Z, positive, Q stay the extracted inductives. *)
From Coq Require Import Extraction ExtrOcamlBasic ZArith List.
From Verif Require Import Sexp UStoreRun.
Open Scope Z_scope.

Definition run (f : Z) (x : sexp) : sexp :=
  match f with
  | 7 => run_ustore x
  | _ => serr 98
  end.

Extraction Language OCaml.

Extraction "../build/model.ml" run Z.add Z.mul Z.opp Z.div Z.modulo.
