(* C06: _replace_references_to_derivatives (Model/ConvertVar.v replace_derivs) is, up to the order of the equations,
   "substitute in every equation that mentions an old derivative"; semantic consequences. *)
From Coq Require Import List ZArith QArith Bool Lia Reals Permutation.
From Verif Require Import Sexp Expr Eval ModelSM ConvertVar C06EvalP C06P.
Import ListNotations.

Lemma clhs_eqb_spec a b : reflect (a = b) (clhs_eqb a b).
Proof.
  destruct a as [x|x s], b as [y|y t]; cbn [clhs_eqb]; try (constructor; congruence).
  - destruct (Nat.eqb_spec x y); constructor; congruence.
  - destruct (Nat.eqb_spec x y), (Nat.eqb_spec s t); cbn; constructor; congruence.
Qed.

(* with pairwise distinct left-hand sides, remove_eq removes exactly the equation it is asked for *)
Lemma remove_eq_perm l q : NoDup (map q_lhs l) -> In q l -> Permutation l (q :: remove_eq l (q_lhs q)).
Proof.
  induction l as [|x r IH]; intros Hnd Hin; [contradiction|]. cbn [map] in Hnd. inversion Hnd as [|? ? Hnotin Hnd']; subst.
  change (remove_eq (x :: r) (q_lhs q)) with (if clhs_eqb (q_lhs x) (q_lhs q) then r else x :: remove_eq r (q_lhs q)).
  destruct Hin as [->|Hin].
  - destruct (clhs_eqb_spec (q_lhs q) (q_lhs q)); [reflexivity|congruence].
  - destruct (clhs_eqb_spec (q_lhs x) (q_lhs q)) as [E|Hne].
    + exfalso. apply Hnotin. rewrite E. apply in_map. exact Hin.
    + etransitivity; [apply perm_skip; apply (IH Hnd' Hin)|]. apply perm_swap.
Qed.

Lemma remove_eq_lhs_sub l lhs x : In x (map q_lhs (remove_eq l lhs)) -> In x (map q_lhs l).
Proof.
  induction l as [|y r IH]; [auto|].
  change (remove_eq (y :: r) lhs) with (if clhs_eqb (q_lhs y) lhs then r else y :: remove_eq r lhs).
  destruct (clhs_eqb (q_lhs y) lhs); cbn [map In]; [auto|]. intros [H|H]; [left; exact H|right; apply IH; exact H].
Qed.

Section Spec.
Variable m : list ((nat * nat) * nat).
Definition ment (q : ceq) : bool := mentions_deriv m (q_rhs q).
Definition sub (q : ceq) : ceq := {| q_lhs := q_lhs q; q_rhs := subst_deriv m (q_rhs q) |}.
Definition step (acc : list ceq) (q : ceq) : list ceq :=
  if ment q then remove_eq acc (q_lhs q) ++ [sub q] else acc.

(* the order-free specification *)
Definition replaced (l : list ceq) : list ceq := filter (fun q => negb (ment q)) l ++ map sub (filter ment l).

Lemma replace_derivs_step l : replace_derivs m l = fold_left step l l.
Proof. reflexivity. Qed.

Lemma map_lhs_sub l : map q_lhs (map sub l) = map q_lhs l.
Proof. rewrite map_map. reflexivity. Qed.

Lemma filter_split_perm (l : list ceq) :
  Permutation l (filter (fun q => negb (ment q)) l ++ filter ment l).
Proof.
  induction l as [|x d IH]; cbn [filter]; [reflexivity|].
  destruct (ment x); cbn [negb app]; [|apply perm_skip; exact IH].
  etransitivity; [apply perm_skip; exact IH|]. apply Permutation_middle.
Qed.

Lemma lhs_perm done (rest : list ceq) :
  Permutation (map q_lhs (filter (fun q => negb (ment q)) done ++ rest ++ map sub (filter ment done)))
              (map q_lhs (done ++ rest)).
Proof.
  rewrite !map_app, map_lhs_sub.
  etransitivity; [apply Permutation_app_head; apply Permutation_app_comm|].
  rewrite app_assoc. apply Permutation_app_tail.
  rewrite <- map_app. apply Permutation_map. apply Permutation_sym. apply filter_split_perm.
Qed.

Lemma fold_spec todo : forall done acc,
  NoDup (map q_lhs (done ++ todo)) ->
  Permutation acc (filter (fun q => negb (ment q)) done ++ todo ++ map sub (filter ment done)) ->
  Permutation (fold_left step todo acc) (replaced (done ++ todo)).
Proof.
  induction todo as [|q todo IH]; intros done acc Hnd Hp; cbn [fold_left].
  - rewrite app_nil_r in *. unfold replaced. cbn [app] in Hp. exact Hp.
  - replace (done ++ q :: todo) with ((done ++ [q]) ++ todo) in * by (rewrite <- app_assoc; reflexivity).
    apply IH; [exact Hnd|]. unfold step. rewrite !filter_app. cbn [filter]. destruct (ment q) eqn:Hm; cbn [negb app].
    + (* q is removed from acc and its substituted form appended *)
      rewrite !app_nil_r, map_app. cbn [map].
      assert (Hq : In q acc) by (apply (Permutation_in q (Permutation_sym Hp)); apply in_or_app; right; left; reflexivity).
      assert (Hnda : NoDup (map q_lhs acc)).
      { apply (Permutation_NoDup (l := map q_lhs ((done ++ [q]) ++ todo))); [|exact Hnd].
        etransitivity; [|apply Permutation_sym; apply (Permutation_map q_lhs Hp)].
        rewrite <- app_assoc. cbn [app]. apply Permutation_sym. apply (lhs_perm done (q :: todo)). }
      pose proof (remove_eq_perm acc q Hnda Hq) as Hrm.
      (* acc = q :: remove(acc), and acc ~ A ++ q :: todo ++ B  hence remove(acc) ~ A ++ todo ++ B *)
      assert (Hrest : Permutation (remove_eq acc (q_lhs q)) (filter (fun q0 => negb (ment q0)) done ++ todo ++ map sub (filter ment done))).
      { apply (Permutation_cons_inv (a := q)). etransitivity; [apply Permutation_sym; exact Hrm|].
        etransitivity; [exact Hp|]. apply Permutation_sym. apply Permutation_middle. }
      etransitivity; [apply Permutation_app_tail; exact Hrest|].
      rewrite <- !app_assoc. apply Permutation_app_head. apply Permutation_app_head. reflexivity.
    + (* q stays *)
      rewrite !app_nil_r. etransitivity; [exact Hp|]. rewrite <- !app_assoc. cbn [app]. reflexivity.
Qed.

Theorem replace_derivs_perm l : NoDup (map q_lhs l) -> Permutation (replace_derivs m l) (replaced l).
Proof.
  intros Hnd. rewrite replace_derivs_step. apply (fold_spec l [] l); cbn [app filter map]; [exact Hnd|].
  rewrite app_nil_r. reflexivity.
Qed.
End Spec.

(* an expression that does not mention the atom is free of it *)
Lemma not_mentioned_dfree y t w e : mentions_deriv [((y, t), w)] e = false -> dfree y t e = true.
Proof.
  induction e as [k q|c|id q u|v|l IH|l IH|b e IHb IHe|f l IH|a b k IHy IHt|r a b IHa IHb|op l IH| | |l IH] using expr_ind';
    try (intros _; reflexivity).
  - cbn [mentions_deriv dfree]. rewrite dfree_list. intros H. rewrite forallb_forall. rewrite Forall_forall in IH. intros x Hx. apply IH; [exact Hx|].
    clear -H Hx. induction l as [|z l IHl]; [contradiction|]. apply orb_false_iff in H as [H1 H2]. destruct Hx as [<-|Hx]; [exact H1|apply IHl; assumption].
  - cbn [mentions_deriv dfree]. rewrite dfree_list. intros H. rewrite forallb_forall. rewrite Forall_forall in IH. intros x Hx. apply IH; [exact Hx|].
    clear -H Hx. induction l as [|z l IHl]; [contradiction|]. apply orb_false_iff in H as [H1 H2]. destruct Hx as [<-|Hx]; [exact H1|apply IHl; assumption].
  - cbn [mentions_deriv dfree]. intros H. apply orb_false_iff in H as [H1 H2]. rewrite (IHb H1), (IHe H2). reflexivity.
  - cbn [mentions_deriv dfree]. rewrite dfree_list. intros H. rewrite forallb_forall. rewrite Forall_forall in IH. intros x Hx. apply IH; [exact Hx|].
    clear -H Hx. induction l as [|z l IHl]; [contradiction|]. apply orb_false_iff in H as [H1 H2]. destruct Hx as [<-|Hx]; [exact H1|apply IHl; assumption].
  - destruct a as [| | |va| | | | | | | | | |]; try (intros _; reflexivity). destruct b as [| | |vb| | | | | | | | | |]; try (intros _; reflexivity).
    cbn [mentions_deriv existsb fst snd]. intros H. rewrite orb_false_r in H.
    destruct k as [|[p|p|]|p]; try reflexivity. cbn [dfree]. apply negb_true_iff.
    rewrite (Nat.eqb_sym (Z.to_nat va) y), (Nat.eqb_sym (Z.to_nat vb) t). exact H.
  - cbn [mentions_deriv dfree]. intros H. apply orb_false_iff in H as [H1 H2]. rewrite (IHa H1), (IHb H2). reflexivity.
  - cbn [mentions_deriv dfree]. rewrite dfree_list. intros H. rewrite forallb_forall. rewrite Forall_forall in IH. intros x Hx. apply IH; [exact Hx|].
    clear -H Hx. induction l as [|z l IHl]; [contradiction|]. apply orb_false_iff in H as [H1 H2]. destruct Hx as [<-|Hx]; [exact H1|apply IHl; assumption].
  - cbn [mentions_deriv dfree]. rewrite dfree_plist. intros H. rewrite forallb_forall. rewrite Forall_forall in IH. intros xc Hx.
    destruct (IH xc Hx) as [A B].
    assert (Hm : mentions_deriv [((y, t), w)] (fst xc) = false /\ mentions_deriv [((y, t), w)] (snd xc) = false).
    { clear -H Hx. induction l as [|[z c] l IHl]; [contradiction|]. apply orb_false_iff in H as [H1 H2]. apply orb_false_iff in H1 as [Ha Hb].
      destruct Hx as [<-|Hx]; [split; assumption|apply IHl; assumption]. }
    destruct Hm as [Hm1 Hm2]. rewrite (A Hm1), (B Hm2). reflexivity.
Qed.

Lemma Permutation_Forall_iff {X} (P : X -> Prop) l l' : Permutation l l' -> (Forall P l <-> Forall P l').
Proof. intros H. split; [apply Permutation_Forall; exact H|apply Permutation_Forall; apply Permutation_sym; exact H]. Qed.

Section Sem.
Variable fsem : Z -> list R -> option R.
Variable psem : R -> R -> option R.
Variable csem : Z -> option R.
Notation Sat := (Sat fsem psem csem).
Notation sat1 := (sat1 fsem psem csem).

(* when the variable w holds the value of the atom d y/d t, replacing the atom changes no equation's truth *)
Theorem Sat_replace_derivs y t w nu dl l : NoDup (map q_lhs l) -> nu w = dl y t ->
  (Sat nu dl (replace_derivs [((y, t), w)] l) <-> Sat nu dl l).
Proof.
  intros Hnd Hw. unfold C06P.Sat.
  rewrite (Permutation_Forall_iff _ _ _ (replace_derivs_perm [((y, t), w)] l Hnd)). unfold replaced.
  rewrite Forall_app, !Forall_forall. split.
  - intros [H1 H2] q Hq. destruct (ment [((y, t), w)] q) eqn:Hm.
    + assert (Hs : sat1 nu dl (sub [((y, t), w)] q)) by (apply H2; apply in_map; apply filter_In; split; assumption).
      unfold C06P.sat1, sub in *. cbn [q_rhs q_lhs] in Hs. rewrite (ev_subst fsem psem csem y t w nu dl (q_rhs q) Hw) in Hs. exact Hs.
    + apply H1. apply filter_In. split; [exact Hq|rewrite Hm; reflexivity].
  - intros H. split.
    + intros q Hq. apply filter_In in Hq as [Hq _]. apply H. exact Hq.
    + intros q' Hq'. apply in_map_iff in Hq' as [q [<- Hq]]. apply filter_In in Hq as [Hq _].
      unfold C06P.sat1, sub. cbn [q_rhs q_lhs]. rewrite (ev_subst fsem psem csem y t w nu dl (q_rhs q) Hw). apply H. exact Hq.
Qed.

(* after the replacement the atom occurs on no right-hand side *)
Theorem replace_derivs_dfree y t w l : NoDup (map q_lhs l) ->
  forall q, In q (replace_derivs [((y, t), w)] l) -> dfree y t (q_rhs q) = true /\ In (q_lhs q) (map q_lhs l).
Proof.
  intros Hnd q Hq. apply (Permutation_in q (replace_derivs_perm [((y, t), w)] l Hnd)) in Hq. unfold replaced in Hq.
  apply in_app_or in Hq as [Hq|Hq].
  - apply filter_In in Hq as [Hin Hm]. apply negb_true_iff in Hm. split; [apply (not_mentioned_dfree y t w); exact Hm|apply in_map; exact Hin].
  - apply in_map_iff in Hq as [q0 [<- Hq0]]. apply filter_In in Hq0 as [Hin _]. cbn [sub q_rhs q_lhs].
    split; [apply subst_dfree|apply in_map; exact Hin].
Qed.
End Sem.
