(* C18, loading clause: every number of every equation of a loaded model carries a defined unit.
   Over Model/Loader.v.  Numbers of the loader model: the quantity leaves [EQty id q u] of component equations
   (u = the name of the cellml:units attribute of the <cn>), the conversion factor of an inserted conversion
   equation, the value of an initial-value equation. *)
From Coq Require Import List ZArith QArith Bool Lia Permutation.
From Verif Require Import Sexp UnitAlg UnitAlgP Expr Loader LoaderP C17P.
Import ListNotations.

Definition ren_leaf (f : Z -> Z) (x : leaf) : leaf := match x with LId n => LId (f n) | _ => x end.

Lemma map_flat_map {A B C} (g : B -> C) (h : A -> list B) l : map g (flat_map h l) = flat_map (fun x => map g (h x)) l.
Proof. induction l; cbn; auto. rewrite map_app, IHl. reflexivity. Qed.

Lemma flat_map_map' {A B C} (g : A -> B) (h : B -> list C) l : flat_map h (map g l) = flat_map (fun x => h (g x)) l.
Proof. induction l; cbn; auto. rewrite IHl. reflexivity. Qed.

Lemma flat_map_ext_in {A B} (g h : A -> list B) l : Forall (fun x => g x = h x) l -> flat_map g l = flat_map h l.
Proof. induction 1; cbn; auto. rewrite H, IHForall. reflexivity. Qed.

(* renaming identifiers does not touch the numbers *)
Lemma leaves_ren f e : leaves (ren f e) = map (ren_leaf f) (leaves e).
Proof.
  induction e using expr_ind'; cbn [ren leaves map]; auto.
  - rewrite flat_map_map', map_flat_map. apply flat_map_ext_in. exact H.
  - rewrite flat_map_map', map_flat_map. apply flat_map_ext_in. exact H.
  - rewrite map_app, IHe1, IHe2. reflexivity.
  - rewrite flat_map_map', map_flat_map. apply flat_map_ext_in. exact H.
  - rewrite !map_app, IHe1, IHe2. destruct (Z.eqb n 1); reflexivity.
  - rewrite map_app, IHe1, IHe2. reflexivity.
  - rewrite flat_map_map', map_flat_map. apply flat_map_ext_in. exact H.
  - rewrite flat_map_map', map_flat_map. apply flat_map_ext_in.
    eapply Forall_impl; [|exact H]. intros [x c] (Hx & Hc). cbn [fst snd] in *. rewrite map_app, Hx, Hc. reflexivity.
Qed.

Lemma unit_leaf_ren f e u : In (LUnit u) (leaves (ren f e)) -> In (LUnit u) (leaves e).
Proof.
  rewrite leaves_ren. intros H. apply in_map_iff in H. destruct H as (x & E & Hx). destruct x; cbn in E; try discriminate.
  inversion E. subst. exact Hx.
Qed.

(* what "carries a defined unit" means for the three kinds of equation *)
Definition eq_numbers_ok (d : doc) (vars : list fv) (work : list (nat * nat)) (q : feq) : Prop :=
  match q with
  | FMath l r => forall u, In (LUnit u) (leaves l ++ leaves r) -> unit_lookup (d_units d) u <> None
  | FConv t a cf =>          (* the factor is a number in  unit of the target / unit of the source *)
      exists s xs xt, In (s, t) work /\ nth_error vars s = Some xs /\ nth_error vars t = Some xt /\
        unit_lookup (d_units d) (fu xs) = Some (fuv xs) /\ unit_lookup (d_units d) (fu xt) = Some (fuv xt) /\
        conv (fuv xs) (fuv xt) = Some cf
  | FConst v x =>            (* the number carries the unit of the variable *)
      exists xv, nth_error vars v = Some xv /\ unit_lookup (d_units d) (fu xv) = Some (fuv xv)
  end.

Lemma expected_unit d x : In x (expected_vars d) ->
  (forall c, In c (d_comps d) -> Forall (unit_known d) (c_vars c)) ->
  unit_lookup (d_units d) (fu x) = Some (fuv x).
Proof.
  intros Hx Hk. unfold expected_vars in Hx. apply in_flat_map in Hx. destruct Hx as (c & Hc & Hx).
  unfold comp_vars in Hx. apply in_map_iff in Hx. destruct Hx as (v & <- & Hv).
  specialize (Hk c Hc). rewrite Forall_forall in Hk. specialize (Hk v Hv). unfold unit_known in Hk.
  unfold mkfv. cbn [fu fuv]. destruct (unit_lookup (d_units d) (v_units v)); [reflexivity|congruence].
Qed.


(* conversion equations come from document connections (no real numbers needed here) *)
Definition conv_inv (vars : list fv) (work : list (nat * nat)) (st : cstate) : Prop :=
  forall q, In q (ceqs st) -> exists t a cf s, q = FConv t a cf /\ In (s, t) work /\
                                conv (uv_of vars s) (uv_of vars t) = Some cf.

Lemma conv_inv_run vars work : forall p st st', conv_inv vars work st -> (forall c, In c p -> In c work) ->
  run vars st p = Some st' -> conv_inv vars work st'.
Proof.
  induction p as [|c r IH]; intros st st' I Hw H; cbn in H. { inversion H. subst. exact I. }
  destruct (cstep vars st c) as [| |s1] eqn:E; try discriminate.
  apply (IH s1 st'); auto; [|intros c' Hc'; apply Hw; now right].
  destruct c as [s t]. apply cstep_done in E. destruct E as (_ & a & cf & _ & Hc & [(_ & cm' & _ & ->)|(_ & _ & ->)]).
  - exact I.
  - intros q [<-|Hq]; [|apply I; exact Hq]. exists t, a, cf, s. repeat split; auto. apply Hw. now left.
Qed.

Lemma tc_origin18 vars eqs0 l : forall st st',
  (forall i q, nth i (snd st) None = Some q -> exists x, nth_error vars i = Some x /\ finit x = Some q) ->
  (forall i, In i l -> (i < length vars)%nat) ->
  foldM (tc_step (map (is_state eqs0) (seq 0 (length vars)))) l st = OK st' ->
  forall q, In q (fst st') -> In q (fst st) \/
    exists i x v, q = FConst i v /\ nth_error vars i = Some x /\ finit x = Some v /\ is_state eqs0 i = false.
Proof.
  induction l as [|i r IH]; intros st st' Hi Hl H q Hq; cbn in H. { inversion H. subst. auto. }
  apply bind_ok in H. destruct H as (s1 & H1 & H).
  assert (Li : (i < length vars)%nat) by (apply Hl; now left).
  unfold tc_step in H1. rewrite (nth_map_seq' (is_state eqs0) (length vars) i false Li) in H1.
  destruct (nth i (snd st) None) as [v|] eqn:En.
  - destruct (is_state eqs0 i) eqn:Es.
    + inversion H1. subst s1. eapply IH; eauto. intros; apply Hl; now right.
    + apply bind_ok in H1. destruct H1 as (e1 & He & H1). inversion H1. subst s1.
      unfold add_eq in He. cbn [feq_kind] in He. destruct (defined (fst st) (Z.of_nat i)); [discriminate|].
      inversion He. subst e1.
      destruct (IH (FConst i v :: fst st, upd (snd st) i None) st') with (q := q) as [A|A]; auto.
      * cbn [snd]. intros j w Hj. destruct (Nat.eq_dec i j) as [<-|N].
        { destruct (Nat.lt_ge_cases i (length (snd st))) as [Lt|Ge].
          - rewrite nth_upd_eq in Hj by auto. discriminate.
          - rewrite nth_overflow in Hj by (rewrite length_upd; auto). discriminate. }
        rewrite nth_upd_neq in Hj by auto. auto.
      * intros; apply Hl; now right.
      * cbn [fst] in A. destruct A as [<-|A]; auto. right. destruct (Hi _ _ En) as (x & Hx & Hf). eauto 8.
  - destruct (is_state eqs0 i); [discriminate|]. inversion H1. subst s1. eapply IH; eauto. intros; apply Hl; now right.
Qed.


Theorem loaded_numbers_have_units d f : load d = OK f ->
  forall q, In q (f_eqs f) -> eq_numbers_ok d (f_vars f) (st_work d) q.
Proof.
  intros H q Hq. apply load_stages in H. pose proof (s_flat _ _ H) as ->. cbn [f_eqs f_vars] in *.
  apply in_rev in Hq.
  pose proof (stages_comps _ _ H) as (_ & Ev & _ & Hcomp).
  assert (Hu : forall x, In x (st_vars d) -> unit_lookup (d_units d) (fu x) = Some (fuv x)).
  { intros x Hx. rewrite Ev in Hx. apply expected_unit; auto. intros c Hc. apply Hcomp; auto. }
  pose proof (s_tc _ _ H) as T. unfold transform_constants in T.
  assert (P1 : forall i v, nth i (snd (st_eqs d, map finit (st_vars d))) None = Some v ->
                          exists x, nth_error (st_vars d) i = Some x /\ finit x = Some v).
  { cbn [snd]. intros i v E. destruct (nth_error (st_vars d) i) as [x|] eqn:Ex.
    + exists x. split; auto. erewrite nth_indep in E; [|rewrite map_length; eapply nth_error_Some; congruence].
      rewrite (map_nth finit (st_vars d) x i) in E. rewrite (nth_error_nth _ _ _ Ex) in E. exact E.
    + apply nth_error_None in Ex. rewrite nth_overflow in E by (rewrite map_length; auto). discriminate. }
  assert (P2 : forall i, In i (seq 0 (length (st_vars d))) -> (i < length (st_vars d))%nat).
  { intros i Hin. apply in_seq in Hin. lia. }
  destruct (tc_origin18 (st_vars d) (st_eqs d) _ _ _ P1 P2 T q Hq) as [A|(i & x & v & -> & Hx & _ & _)].
  - cbn [fst] in A. pose proof (stages_maths _ _ H) as (Em & _ & Hl). rewrite Em in A.
    apply in_app_or in A. destruct A as [A|A].
    + apply in_rev in A. unfold flat_all in A. apply in_map_iff in A. destruct A as (cq & <- & Hcq).
      unfold flat_eq. cbn [eq_numbers_ok]. intros u Hin.
      assert (Hin' : In (LUnit u) (eq_leaves (snd cq))).
      { unfold eq_leaves. apply in_app_or in Hin. apply in_or_app. destruct Hin as [Hin|Hin]; [left|right];
          eapply unit_leaf_ren; eauto. }
      specialize (Hl cq (LUnit u) Hcq Hin'). unfold leaf_ok in Hl. cbn in Hl.
      destruct (unit_lookup (d_units d) u); [discriminate|discriminate].
    + destruct (stages_schedule _ _ H) as (p & Pp & Hr).
      assert (Pin : forall c, In c p -> In c (st_work d)) by (intros c Hc; eapply Permutation_in; eauto).
      assert (SB : conv_inv (st_vars d) (st_work d) (st_cs d)).
      { eapply conv_inv_run; [|exact Pin|exact Hr]. intros q0 []. }
      destruct (SB _ A) as (t & a & cf & s & -> & Hw & Hc). cbn [eq_numbers_ok].
      destruct (stages_range _ _ H _ Hw) as (Ls & Lt). cbn [fst snd] in Ls, Lt.
      destruct (nth_error (st_vars d) s) as [xs|] eqn:Es; [|apply nth_error_None in Es; lia].
      destruct (nth_error (st_vars d) t) as [xt|] eqn:Et; [|apply nth_error_None in Et; lia].
      exists s, xs, xt. unfold uv_of in Hc. rewrite Es, Et in Hc.
      repeat split; auto; apply Hu; eapply nth_error_In; eauto.
  - cbn [eq_numbers_ok]. exists x. split; auto. apply Hu. eapply nth_error_In; eauto.
Qed.
