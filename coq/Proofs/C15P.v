(* C15 -- the same document always yields the same model: lemmas.
   `load` is a function; what is proved here is that it does not depend on the order of the order-free parts:
   groups, connections, map_variables, the two ends of a connection (guarded), equations. *)
From Coq Require Import List ZArith QArith Bool Lia Permutation.
From Verif Require Import Sexp UnitAlg UnitAlgP Expr Loader LoaderP C17P.
Import ListNotations.

(* ---- results related up to a relation on the payload; all failures are alike ---------------------- *)
Definition rel_res {T} (R : T -> T -> Prop) (a b : result T) : Prop :=
  match a, b with
  | OK x, OK y => R x y
  | OK _, _ | _, OK _ => False
  | _, _ => True
  end.

Lemma rel_res_sym {T} (R : T -> T -> Prop) : (forall x y, R x y -> R y x) -> forall a b, rel_res R a b -> rel_res R b a.
Proof. intros S a b. destruct a, b; cbn; auto. Qed.

Lemma rel_res_trans {T} (R : T -> T -> Prop) : (forall x y z, R x y -> R y z -> R x z) ->
  forall a b c, rel_res R a b -> rel_res R b c -> rel_res R a c.
Proof. intros Tr a b c. destruct a, b, c; cbn; eauto; tauto. Qed.

Lemma rel_res_bind {S T} (R : S -> S -> Prop) (Q : T -> T -> Prop) a b (f g : S -> result T) :
  rel_res R a b -> (forall x y, R x y -> rel_res Q (f x) (g y)) -> rel_res Q (bind a f) (bind b g).
Proof. destruct a, b; cbn; auto; tauto. Qed.

Section FoldPerm.
  Context {S E : Type}.
  Variable R : S -> S -> Prop.
  Variable step : S -> E -> result S.
  Hypothesis Rsym : forall x y, R x y -> R y x.
  Hypothesis Rtrans : forall x y z, R x y -> R y z -> R x z.
  Hypothesis step_congr : forall s s' x, R s s' -> rel_res R (step s x) (step s' x).

  Lemma foldM_rel l : forall s s', R s s' -> rel_res R (foldM step l s) (foldM step l s').
  Proof.
    induction l as [|x r IH]; intros s s' H; cbn; auto.
    apply (rel_res_bind R R); auto.
  Qed.

  Hypothesis step_comm : forall s x y, R s s ->
    rel_res R (bind (step s x) (fun s1 => step s1 y)) (bind (step s y) (fun s1 => step s1 x)).

  Lemma foldM_perm l l' : Permutation l l' -> forall s s', R s s' -> rel_res R (foldM step l s) (foldM step l' s').
  Proof.
    induction 1; intros s s' HR.
    - cbn. exact HR.
    - cbn. apply (rel_res_bind R R); auto.
    - cbn [foldM].
      assert (Hs : R s s) by eauto.
      assert (A : rel_res R (bind (bind (step s y) (fun s1 => step s1 x)) (foldM step l))
                            (bind (bind (step s x) (fun s1 => step s1 y)) (foldM step l))).
      { apply (rel_res_bind R R); [apply step_comm; auto|]. intros; apply foldM_rel; auto. }
      assert (B : rel_res R (bind (bind (step s x) (fun s1 => step s1 y)) (foldM step l))
                            (bind (bind (step s' x) (fun s1 => step s1 y)) (foldM step l))).
      { apply (rel_res_bind R R); [|intros; apply foldM_rel; auto].
        apply (rel_res_bind R R); auto. }
      assert (Ea : forall t, bind (step t y) (fun s1 => bind (step s1 x) (foldM step l))
                          = bind (bind (step t y) (fun s1 => step s1 x)) (foldM step l)).
      { intros t. destruct (step t y); reflexivity. }
      assert (Eb : forall t, bind (step t x) (fun s1 => bind (step s1 y) (foldM step l))
                          = bind (bind (step t x) (fun s1 => step s1 y)) (foldM step l)).
      { intros t. destruct (step t x); reflexivity. }
      rewrite Ea, Eb. eapply rel_res_trans; eauto.
    - assert (Hs : R s s) by eauto.
      eapply rel_res_trans; [exact Rtrans|apply IHPermutation1; exact Hs|apply IHPermutation2; exact HR].
  Qed.
End FoldPerm.

(* ================= groups ================= *)
Section Groups.
  Variable names : list Z.
  Definition RP (a b : list (option Z)) : Prop := a = b /\ length a = length names.

  Lemma RP_sym x y : RP x y -> RP y x.
  Proof. intros (-> & L). split; auto. Qed.
  Lemma RP_trans x y z : RP x y -> RP y z -> RP x z.
  Proof. intros (-> & L) (-> & _). split; auto. Qed.

  Lemma edge_congr s s' e : RP s s' -> rel_res RP (edge_step names s e) (edge_step names s' e).
  Proof.
    intros (<- & L). unfold edge_step. destruct (fst e); cbn; [|split; auto].
    destruct (cidx names z); cbn; auto. destruct (cidx names (snd e)); cbn; auto.
    destruct (nth n0 s None); cbn; auto. split; auto. rewrite length_upd. auto.
  Qed.

  Inductive etgt := TSkip | TErr | TSet (ci : nat) (p : Z).
  Definition edge_tgt (e : option Z * Z) : etgt :=
    match fst e with
    | None => TSkip
    | Some p => match cidx names p with
                | None => TErr
                | Some _ => match cidx names (snd e) with None => TErr | Some ci => TSet ci p end
                end
    end.
  Definition estep (s : list (option Z)) (t : etgt) : result (list (option Z)) :=
    match t with
    | TSkip => OK s
    | TErr => Error EKeyComp
    | TSet ci p => match nth ci s None with Some _ => Error EParentSet | None => OK (upd s ci (Some p)) end
    end.

  Lemma edge_step_alt s e : edge_step names s e = estep s (edge_tgt e).
  Proof.
    unfold edge_step, edge_tgt, estep. destruct (fst e); auto. destruct (cidx names z); auto.
    destruct (cidx names (snd e)); auto.
  Qed.

  Lemma edge_tgt_lt e ci p : edge_tgt e = TSet ci p -> (ci < length names)%nat.
  Proof.
    unfold edge_tgt. destruct (fst e); [|discriminate]. destruct (cidx names z); [|discriminate].
    destruct (cidx names (snd e)) eqn:C; [|discriminate]. intros H. inversion H. subst. eapply find_index_lt; eauto.
  Qed.

  Lemma estep_comm s tx ty : length s = length names ->
    (forall ci p, tx = TSet ci p -> (ci < length names)%nat) ->
    (forall ci p, ty = TSet ci p -> (ci < length names)%nat) ->
    rel_res RP (bind (estep s tx) (fun s1 => estep s1 ty)) (bind (estep s ty) (fun s1 => estep s1 tx)).
  Proof.
    intros L Hx Hy. destruct tx as [| |cx px], ty as [| |cy py]; cbn; auto;
      try solve [split; auto | destruct (nth cy s None); cbn; auto; split; auto; rewrite length_upd; auto
                | destruct (nth cx s None); cbn; auto; split; auto; rewrite length_upd; auto].
    - assert (Lx : (cx < length s)%nat) by (rewrite L; eapply Hx; eauto).
      assert (Ly : (cy < length s)%nat) by (rewrite L; eapply Hy; eauto).
      destruct (Nat.eq_dec cx cy) as [<-|N].
      + destruct (nth cx s None) eqn:Nx; cbn; auto. rewrite !nth_upd_eq by auto. exact I.
      + destruct (nth cx s None) eqn:Nx; destruct (nth cy s None) eqn:Ny; cbn; auto.
        * rewrite nth_upd_neq by auto. rewrite Nx. exact I.
        * rewrite nth_upd_neq by auto. rewrite Ny. exact I.
        * rewrite !nth_upd_neq by auto. rewrite Nx, Ny. cbn. split; [apply upd_comm; auto|].
          rewrite !length_upd. auto.
  Qed.

  Lemma edge_comm s x y : RP s s ->
    rel_res RP (bind (edge_step names s x) (fun s1 => edge_step names s1 y))
               (bind (edge_step names s y) (fun s1 => edge_step names s1 x)).
  Proof.
    intros (_ & L).
    assert (E : forall a b, bind (edge_step names s a) (fun s1 => edge_step names s1 b)
                          = bind (estep s (edge_tgt a)) (fun s1 => estep s1 (edge_tgt b))).
    { intros a b. rewrite edge_step_alt. destruct (estep s (edge_tgt a)); cbn; auto. apply edge_step_alt. }
    rewrite !E. apply estep_comm; auto; intros ci p H; eapply edge_tgt_lt; eauto.
  Qed.

  Lemma edges_perm l l' s : Permutation l l' -> RP s s ->
    rel_res RP (foldM (edge_step names) l s) (foldM (edge_step names) l' s).
  Proof.
    intros P H. apply (foldM_perm RP (edge_step names) RP_sym RP_trans edge_congr edge_comm); auto.
  Qed.

  Definition group_ok (g : group) : bool := match g_rels g with [_] => true | _ => false end.
  Definition group_live_edges (g : group) : list (option Z * Z) :=
    match g_rels g with [r] => if Z.eqb r 0 then group_edges g else [] | _ => [] end.

  Lemma group_step_alt s g : group_step names s g =
    if group_ok g then foldM (edge_step names) (group_live_edges g) s else Error ERelCount.
  Proof.
    unfold group_step, group_ok, group_live_edges. destruct (g_rels g) as [|r [|? ?]]; auto.
    destruct (Z.eqb r 0); reflexivity.
  Qed.

  Lemma group_congr s s' g : RP s s' -> rel_res RP (group_step names s g) (group_step names s' g).
  Proof.
    intros H. rewrite !group_step_alt. destruct (group_ok g); cbn; auto.
    apply (foldM_rel RP (edge_step names) edge_congr); auto.
  Qed.

  Lemma group_comm s x y : RP s s ->
    rel_res RP (bind (group_step names s x) (fun s1 => group_step names s1 y))
               (bind (group_step names s y) (fun s1 => group_step names s1 x)).
  Proof.
    intros H.
    assert (Ex : forall t g, (fun s1 => group_step names s1 g) t
                             = if group_ok g then foldM (edge_step names) (group_live_edges g) t else Error ERelCount)
      by (intros; apply group_step_alt).
    rewrite !group_step_alt.
    destruct (group_ok x) eqn:Ox, (group_ok y) eqn:Oy; cbn [bind].
    - replace (bind (foldM (edge_step names) (group_live_edges x) s) (fun s1 => group_step names s1 y))
        with (foldM (edge_step names) (group_live_edges x ++ group_live_edges y) s).
      2:{ rewrite foldM_app. destruct (foldM (edge_step names) (group_live_edges x) s); cbn; auto.
          rewrite group_step_alt, Oy. reflexivity. }
      replace (bind (foldM (edge_step names) (group_live_edges y) s) (fun s1 => group_step names s1 x))
        with (foldM (edge_step names) (group_live_edges y ++ group_live_edges x) s).
      2:{ rewrite foldM_app. destruct (foldM (edge_step names) (group_live_edges y) s); cbn; auto.
          rewrite group_step_alt, Ox. reflexivity. }
      apply edges_perm; auto. apply Permutation_app_comm.
    - destruct (foldM (edge_step names) (group_live_edges x) s); cbn; auto. rewrite group_step_alt, Oy. exact I.
    - destruct (foldM (edge_step names) (group_live_edges y) s); cbn; auto. rewrite group_step_alt, Ox. exact I.
    - exact I.
  Qed.

  Lemma read_groups_perm gs gs' : Permutation gs gs' ->
    rel_res eq (read_groups names gs) (read_groups names gs').
  Proof.
    intros P. unfold read_groups.
    assert (H : RP (map (fun _ : Z => @None Z) names) (map (fun _ : Z => @None Z) names)).
    { split; auto. apply map_length. }
    pose proof (foldM_perm RP (group_step names) RP_sym RP_trans group_congr group_comm gs gs' P _ _ H) as Q.
    set (i0 := map (fun _ : Z => @None Z) names) in *.
    destruct (foldM (group_step names) gs i0), (foldM (group_step names) gs' i0); cbn in Q |- *; auto;
      try contradiction. destruct Q; auto.
  Qed.

  Lemma relationships_perm gs gs' : Permutation gs gs' ->
    rel_res eq (add_relationships names gs) (add_relationships names gs').
  Proof.
    intros P. unfold add_relationships. pose proof (read_groups_perm gs gs' P) as Q.
    destruct (read_groups names gs) as [ps| |], (read_groups names gs') as [ps'| |]; cbn in Q |- *;
      try contradiction; try exact I. subst ps'. destruct (check_forest names ps) as [[]| |]; cbn; auto.
  Qed.
End Groups.

(* ================= the connection work-list does not depend on the order of its items ================= *)
Definition cs_equiv (a b : cstate) : Prop :=
  asg a = asg b /\ cmt a = cmt b /\ Permutation (cmap a) (cmap b) /\ Permutation (ceqs a) (ceqs b).

Lemma cs_equiv_refl a : cs_equiv a a.
Proof. repeat split; auto. Qed.
Lemma cs_equiv_sym a b : cs_equiv a b -> cs_equiv b a.
Proof. intros (A & B & C & D). repeat split; auto using Permutation_sym. Qed.
Lemma cs_equiv_trans a b c : cs_equiv a b -> cs_equiv b c -> cs_equiv a c.
Proof.
  intros (A & B & C & D) (A' & B' & C' & D'). repeat split; try congruence; eapply Permutation_trans; eauto.
Qed.

Lemma defined_perm e e' v : Permutation e e' -> defined e v = defined e' v.
Proof.
  intros P. unfold defined. destruct (existsb _ e) eqn:A, (existsb _ e') eqn:B; auto.
  - apply existsb_exists in A. destruct A as (q & Hq & E). rewrite <- B. symmetry. apply existsb_exists.
    exists q. split; auto. eapply Permutation_in; eauto.
  - apply existsb_exists in B. destruct B as (q & Hq & E). rewrite <- A. apply existsb_exists.
    exists q. split; auto. eapply Permutation_in; [apply Permutation_sym|]; eauto.
Qed.

Section Confluence.
  Variable vars : list fv.
  Notation cstep := (cstep vars).
  Notation run := (run vars).

  Definition outcome_rel (x y : outcome) : Prop :=
    match x, y with
    | ODone a, ODone b => cs_equiv a b
    | ODefer, ODefer => True
    | OErr _, OErr _ => True
    | _, _ => False
    end.

  Lemma cstep_congr a b c : cs_equiv a b -> outcome_rel (cstep a c) (cstep b c).
  Proof.
    intros (A & B & C & D). unfold Loader.cstep. rewrite <- A, <- B.
    destruct (nth (snd c) (asg a) None); cbn; auto.
    destruct (nth (fst c) (asg a) None); cbn; auto.
    destruct (conv _ _); cbn; auto. destruct (is_one u).
    - destruct (cm_step (cmt a) (fst c) (snd c)); cbn; auto. repeat split; cbn; auto.
    - unfold add_eq. cbn [feq_kind]. rewrite (defined_perm _ _ _ D).
      destruct (defined (ceqs b) (Z.of_nat (snd c))); cbn; auto. repeat split; cbn; auto.
  Qed.

  Lemma run_congr p : forall a b a', cs_equiv a b -> run a p = Some a' -> exists b', run b p = Some b' /\ cs_equiv a' b'.
  Proof.
    induction p as [|c r IH]; intros a b a' E H; cbn in H |- *.
    - inversion H. subst. eauto.
    - pose proof (cstep_congr a b c E) as O. destruct (cstep a c) as [| |a1]; try discriminate.
      destruct (cstep b c) as [| |b1]; cbn in O; try contradiction. eauto.
  Qed.

  (* constructive forms of a successful step *)
  Lemma cstep_one st s t a cf cm' : nth t (asg st) None = None -> nth s (asg st) None = Some a ->
    conv (uv_of vars s) (uv_of vars t) = Some cf -> is_one cf = true -> cm_step (cmt st) s t = Some cm' ->
    cstep st (s, t) = ODone (mkCs (upd (asg st) t (Some a)) cm' ((t, s) :: cmap st) (ceqs st)).
  Proof. intros Ht Hs Hc H1 Hm. unfold Loader.cstep. cbn [fst snd]. rewrite Ht, Hs, Hc, H1, Hm. reflexivity. Qed.

  Lemma cstep_conv st s t a cf : nth t (asg st) None = None -> nth s (asg st) None = Some a ->
    conv (uv_of vars s) (uv_of vars t) = Some cf -> is_one cf = false -> defined (ceqs st) (Z.of_nat t) = false ->
    cstep st (s, t) = ODone (mkCs (upd (asg st) t (Some t)) (cmt st) ((t, s) :: cmap st) (FConv t a cf :: ceqs st)).
  Proof.
    intros Ht Hs Hc H1 Hd. unfold Loader.cstep. cbn [fst snd]. rewrite Ht, Hs, Hc, H1. unfold add_eq. cbn [feq_kind].
    rewrite Hd. reflexivity.
  Qed.

  (* transfers of cmeta ids on disjoint targets commute *)
  Lemma cm_comm cm sd td sc tc cm2 cm21 : td <> tc -> sc <> td -> sd <> tc -> sc <> tc -> sd <> td ->
    (sd < length cm)%nat -> (sc < length cm)%nat ->
    cm_step cm sd td = Some cm2 -> cm_step cm2 sc tc = Some cm21 ->
    exists cm1, cm_step cm sc tc = Some cm1 /\ cm_step cm1 sd td = Some cm21.
  Proof.
    intros N1 N2 N3 N4 N5 Ld Lc. unfold cm_step.
    destruct (nth td cm None) as [idd|] eqn:Etd.
    - destruct (nth sd cm None) eqn:Esd; [discriminate|]. intros H. inversion H. subst cm2. clear H.
      rewrite (nth_upd_neq _ td tc) by auto. rewrite (nth_upd_neq _ sd tc) by auto.
      destruct (nth tc cm None) as [idc|] eqn:Etc.
      + rewrite (nth_upd_neq _ td sc) by auto.
        destruct (Nat.eq_dec sd sc) as [<-|Nsc].
        * rewrite nth_upd_eq by auto. discriminate.
        * rewrite (nth_upd_neq _ sd sc) by auto. destruct (nth sc cm None) eqn:Esc; [discriminate|].
          intros H. inversion H. subst cm21. eexists. split; [reflexivity|].
          rewrite (nth_upd_neq _ tc td) by auto. rewrite (nth_upd_neq _ sc td) by auto. rewrite Etd.
          rewrite (nth_upd_neq _ tc sd) by auto. rewrite (nth_upd_neq _ sc sd) by auto. rewrite Esd.
          f_equal. symmetry.
          rewrite (upd_comm (upd cm sd (Some idd)) td sc) by auto.
          rewrite (upd_comm cm sd sc) by auto.
          rewrite (upd_comm (upd (upd cm sc (Some idc)) sd (Some idd)) td tc) by auto.
          rewrite (upd_comm (upd cm sc (Some idc)) sd tc) by auto. reflexivity.
      + intros H. inversion H. subst cm21. eexists. split; [reflexivity|]. rewrite Etd, Esd. reflexivity.
    - intros H. inversion H. subst cm2. clear H. intros H. exists cm21. split; auto.
      destruct (nth tc cm None) as [idc|] eqn:Etc.
      + destruct (nth sc cm None) eqn:Esc; [discriminate|]. inversion H. subst cm21.
        rewrite (nth_upd_neq _ tc td) by auto. rewrite (nth_upd_neq _ sc td) by auto. rewrite Etd. reflexivity.
      + inversion H. subst. rewrite Etd. reflexivity.
  Qed.

  Lemma cm_step_length cm s t cm' : cm_step cm s t = Some cm' -> length cm' = length cm.
  Proof.
    unfold cm_step. destruct (nth t cm None); [|intros H; inversion H; auto].
    destruct (nth s cm None); [discriminate|]. intros H. inversion H. rewrite !length_upd. reflexivity.
  Qed.

  Lemma cstep_cm_length st c st' : cstep st c = ODone st' -> length (cmt st') = length (cmt st).
  Proof.
    destruct c as [s t]. intros H. apply cstep_done in H.
    destruct H as (_ & a & cf & _ & _ & [(_ & cm' & Hm & ->)|(_ & _ & ->)]); cbn; auto.
    eapply cm_step_length; eauto.
  Qed.

  (* two enabled steps on a state commute *)
  Lemma cstep_swap st d c s2 s21 :
    (fst d < length (cmt st))%nat -> (fst c < length (cmt st))%nat -> (snd d < length (asg st))%nat ->
    cstep st d = ODone s2 -> cstep s2 c = ODone s21 -> nth (fst c) (asg st) None <> None ->
    exists s1 s12, cstep st c = ODone s1 /\ cstep s1 d = ODone s12 /\ cs_equiv s12 s21.
  Proof.
    destruct d as [sd td], c as [sc tc]. cbn [fst snd]. intros Lsd Lsc Ltd Hd Hc Hsc.
    apply cstep_done in Hd. destruct Hd as (Htd & ad & cfd & Hsd & Hcd & Hd).
    apply cstep_done in Hc. destruct Hc as (Htc2 & ac & cfc & Hsc2 & Hcc & Hc).
    assert (Ea2 : asg s2 = upd (asg st) td (Some (if is_one cfd then ad else td))).
    { destruct Hd as [(-> & cm' & _ & ->)|(-> & _ & ->)]; reflexivity. }
    rewrite Ea2 in Htc2, Hsc2.
    assert (Ntt : td <> tc).
    { intros <-. rewrite nth_upd_eq in Htc2 by auto. discriminate. }
    assert (Nst : sc <> td) by (intros ->; contradiction).
    rewrite nth_upd_neq in Htc2 by auto. rewrite nth_upd_neq in Hsc2 by auto.
    assert (Nds : sd <> tc) by (intros ->; congruence).
    assert (Ncc : sc <> tc) by (intros ->; congruence).
    assert (Ndd : sd <> td) by (intros ->; congruence).
    destruct Hd as [(Od & cm2 & Hmd & ->)|(Od & Dd & ->)]; destruct Hc as [(Oc & cm21 & Hmc & ->)|(Oc & Dc & ->)];
      cbn [asg cmt cmap ceqs] in *.
    - (* both substitutions *)
      destruct (cm_comm _ _ _ _ _ _ _ Ntt Nst Nds Ncc Ndd Lsd Lsc Hmd Hmc) as (cm1 & M1 & M2).
      exists (mkCs (upd (asg st) tc (Some ac)) cm1 ((tc, sc) :: cmap st) (ceqs st)).
      exists (mkCs (upd (upd (asg st) tc (Some ac)) td (Some ad)) cm21 ((td, sd) :: (tc, sc) :: cmap st) (ceqs st)).
      split; [apply cstep_one with (cf := cfc); auto|]. split.
      + apply (cstep_one (mkCs (upd (asg st) tc (Some ac)) cm1 ((tc, sc) :: cmap st) (ceqs st)) sd td ad cfd cm21);
          cbn [asg cmt]; auto; rewrite nth_upd_neq; auto.
      + repeat split; cbn; auto. { apply upd_comm; auto. } apply perm_swap.
    - (* d substitutes, c converts *)
      exists (mkCs (upd (asg st) tc (Some tc)) (cmt st) ((tc, sc) :: cmap st) (FConv tc ac cfc :: ceqs st)).
      exists (mkCs (upd (upd (asg st) tc (Some tc)) td (Some ad)) cm2 ((td, sd) :: (tc, sc) :: cmap st)
                   (FConv tc ac cfc :: ceqs st)).
      split; [apply cstep_conv; auto|]. split.
      + apply (cstep_one (mkCs (upd (asg st) tc (Some tc)) (cmt st) ((tc, sc) :: cmap st) (FConv tc ac cfc :: ceqs st))
                         sd td ad cfd cm2); cbn [asg cmt]; auto; rewrite nth_upd_neq; auto.
      + repeat split; cbn; auto. { apply upd_comm; auto. } apply perm_swap.
    - (* d converts, c substitutes *)
      exists (mkCs (upd (asg st) tc (Some ac)) cm21 ((tc, sc) :: cmap st) (ceqs st)).
      exists (mkCs (upd (upd (asg st) tc (Some ac)) td (Some td)) cm21 ((td, sd) :: (tc, sc) :: cmap st)
                   (FConv td ad cfd :: ceqs st)).
      split; [apply cstep_one with (cf := cfc); auto|]. split.
      + apply (cstep_conv (mkCs (upd (asg st) tc (Some ac)) cm21 ((tc, sc) :: cmap st) (ceqs st)) sd td ad cfd);
          cbn [asg cmt ceqs]; auto; rewrite nth_upd_neq; auto.
      + repeat split; cbn; auto. { apply upd_comm; auto. } apply perm_swap.
    - (* both convert *)
      assert (Dc0 : defined (ceqs st) (Z.of_nat tc) = false).
      { unfold defined in Dc |- *. cbn [existsb] in Dc. apply orb_false_iff in Dc. tauto. }
      exists (mkCs (upd (asg st) tc (Some tc)) (cmt st) ((tc, sc) :: cmap st) (FConv tc ac cfc :: ceqs st)).
      exists (mkCs (upd (upd (asg st) tc (Some tc)) td (Some td)) (cmt st) ((td, sd) :: (tc, sc) :: cmap st)
                   (FConv td ad cfd :: FConv tc ac cfc :: ceqs st)).
      split; [apply cstep_conv; auto|]. split.
      + apply (cstep_conv (mkCs (upd (asg st) tc (Some tc)) (cmt st) ((tc, sc) :: cmap st) (FConv tc ac cfc :: ceqs st))
                          sd td ad cfd); cbn [asg cmt ceqs]; auto; try (rewrite nth_upd_neq; auto).
        unfold defined. cbn [existsb]. apply orb_false_iff. split; [|exact Dd].
        unfold feq_var. cbn. apply Z.eqb_neq. lia.
      + repeat split; cbn; auto. { apply upd_comm; auto. } { apply perm_swap. } apply perm_swap.
  Qed.
End Confluence.

Section Confluence2.
  Variable vars : list fv.
  Notation cstep := (cstep vars).
  Notation run := (run vars).
  Variable n : nat.
  Definition wfs (st : cstate) : Prop := length (asg st) = n /\ length (cmt st) = n.
  Definition inr (c : nat * nat) : Prop := (fst c < n)%nat /\ (snd c < n)%nat.

  Lemma wfs_step st c st' : wfs st -> cstep st c = ODone st' -> wfs st'.
  Proof. intros (A & B) H. split; [rewrite (cstep_length _ _ _ _ H)|rewrite (cstep_cm_length _ _ _ _ H)]; auto. Qed.

  (* an enabled item of a successful schedule can be taken first *)
  Lemma run_front : forall p1 st c p2 sf, wfs st -> (forall x, In x (p1 ++ c :: p2) -> inr x) ->
    run st (p1 ++ c :: p2) = Some sf -> nth (fst c) (asg st) None <> None ->
    exists s1 sf', cstep st c = ODone s1 /\ run s1 (p1 ++ p2) = Some sf' /\ cs_equiv sf' sf.
  Proof.
    induction p1 as [|d r IH]; intros st c p2 sf W R H Hs; cbn [app] in *.
    - cbn in H. destruct (cstep st c) as [| |s1] eqn:E; try discriminate.
      exists s1, sf. repeat split; auto.
    - cbn in H. destruct (cstep st d) as [| |s2] eqn:Ed; try discriminate.
      assert (W2 : wfs s2) by (eapply wfs_step; eauto).
      assert (Hs2 : nth (fst c) (asg s2) None <> None).
      { rewrite (cstep_mono _ _ _ _ (fst c) Ed Hs). exact Hs. }
      destruct (IH s2 c p2 sf W2 (fun x Hx => R x (or_intror Hx)) H Hs2) as (s21 & sf1 & Ec & Hr & Q).
      destruct W as (Wa & Wc).
      assert (Rd : inr d) by (apply R; now left).
      assert (Rc : inr c) by (apply R; right; apply in_or_app; right; now left).
      destruct (cstep_swap vars st d c s2 s21) as (s1 & s12 & E1 & E2 & Q2); auto;
        try (rewrite Wc; apply Rd || apply Rc); try (rewrite Wa; apply Rd).
      destruct (run_congr vars (r ++ p2) s21 s12 sf1 (cs_equiv_sym _ _ Q2) Hr) as (sf2 & Hr2 & Q3).
      exists s1, sf2. split; auto. split.
      + cbn. rewrite E2. exact Hr2.
      + eapply cs_equiv_trans; [apply cs_equiv_sym; exact Q3|exact Q].
  Qed.

  Lemma cstep_defer st c : nth (snd c) (asg st) None = None -> nth (fst c) (asg st) None = None -> cstep st c = ODefer.
  Proof. intros A B. unfold Loader.cstep. rewrite A, B. reflexivity. Qed.

  (* a work-list that admits a successful schedule is completed by the rotating loop, whatever its order *)
  Lemma connect_complete fuel : forall q cnt st p sf front back,
    wfs st -> (forall x, In x q -> inr x) -> run st p = Some sf -> Permutation p q ->
    q = front ++ back -> length back = cnt -> (forall b, In b back -> cstep st b = ODefer) ->
    (length q * (length q + 1) + (length q - cnt) < fuel)%nat ->
    exists s', connect vars fuel q cnt st = OK s' /\ cs_equiv s' sf.
  Proof.
    induction fuel as [|f IH]; intros q cnt st p sf front back W R H P Eq Lb Hb Hf; [lia|].
    destruct q as [|c r].
    - apply Permutation_sym, Permutation_nil in P. subst p. cbn in H. inversion H. subst.
      exists sf. split; [reflexivity|apply cs_equiv_refl].
    - rewrite connect_cons.
      assert (Hcp : In c p) by (eapply Permutation_in; [apply Permutation_sym; exact P|now left]).
      pose proof (run_targets_free _ _ _ _ H c Hcp) as Ft.
      destruct (nth (fst c) (asg st) None) as [a|] eqn:Es.
      + (* enabled: take it *)
        apply in_split in Hcp. destruct Hcp as (p1 & p2 & ->).
        assert (Rp : forall x, In x (p1 ++ c :: p2) -> inr x).
        { intros x Hx. apply R. eapply Permutation_in; eauto. }
        destruct (run_front p1 st c p2 sf W Rp H) as (s1 & sf' & E1 & Hr & Q); [congruence|].
        rewrite E1.
        destruct (IH r 0%nat s1 (p1 ++ p2) sf' r []) as (s' & Hc & Q'); auto.
        * eapply wfs_step; eauto.
        * intros x Hx. apply R. now right.
        * apply Permutation_sym. eapply Permutation_cons_app_inv. apply Permutation_sym. exact P.
        * rewrite app_nil_r. reflexivity.
        * intros b [].
        * cbn [length] in Hf |- *. nia.
        * exists s'. split; auto. eapply cs_equiv_trans; eauto.
      + (* deferred *)
        rewrite (cstep_defer st c Ft Es).
        (* the first item of the schedule is enabled, hence not among the deferred ones *)
        destruct p as [|c0 p']. { apply Permutation_nil in P. discriminate. }
        assert (E0 : exists s0, cstep st c0 = ODone s0).
        { cbn in H. destruct (cstep st c0) as [| |s0]; try discriminate. eauto. }
        destruct E0 as (s0 & E0).
        assert (Hfront : front <> []).
        { intros ->. cbn in Eq. subst back. assert (In c0 (c :: r)) by (eapply Permutation_in; eauto; now left).
          rewrite (Hb c0 H0) in E0. discriminate. }
        destruct front as [|c' front']; [congruence|]. cbn in Eq. inversion Eq. subst c' r. clear Eq.
        assert (Ll : Nat.ltb (length ((front' ++ back) ++ [c])) (S cnt) = false).
        { apply Nat.ltb_ge. rewrite !app_length. cbn. lia. }
        rewrite Ll.
        apply (IH ((front' ++ back) ++ [c]) (S cnt) st (c0 :: p') sf front' (back ++ [c])); auto.
        * intros x Hx. apply R. apply in_app_or in Hx. destruct Hx as [Hx|[<-|[]]]; [now right|now left].
        * eapply Permutation_trans; [exact P|]. apply Permutation_cons_append.
        * rewrite app_assoc. reflexivity.
        * rewrite app_length. cbn. lia.
        * intros b Hb'. apply in_app_or in Hb'. destruct Hb' as [Hb'|[<-|[]]]; auto. apply cstep_defer; auto.
        * assert (Lq : length ((front' ++ back) ++ [c]) = length (c :: front' ++ back))
            by (cbn [length]; rewrite !app_length; cbn [length]; lia).
          rewrite Lq. cbn [length] in *. rewrite app_length in *.
          remember (length front') as la. remember (length back) as lb. subst cnt.
          remember (S (la + lb) * (S (la + lb) + 1))%nat as big. lia.
  Qed.

  Lemma connect_perm q q' st s1 : wfs st -> (forall x, In x q -> inr x) -> Permutation q q' ->
    connect vars (conn_fuel q) q 0 st = OK s1 ->
    exists s2, connect vars (conn_fuel q') q' 0 st = OK s2 /\ cs_equiv s2 s1.
  Proof.
    intros W R P H. apply connect_schedule in H. destruct H as (p & Pp & Hr).
    apply (connect_complete (conn_fuel q') q' 0%nat st p s1 q' []); auto.
    - intros x Hx. apply R. eapply Permutation_in; [apply Permutation_sym|]; eauto.
    - eapply Permutation_trans; eauto.
    - rewrite app_nil_r. reflexivity.
    - intros b [].
    - unfold conn_fuel. nia.
  Qed.
End Confluence2.

(* ================= the later stages only see the mapping as a function and the equations as a set ================= *)
Lemma chain_nodup init m : chain_ok init m -> NoDup (map fst m).
Proof.
  induction m as [|[t s] r IH]; cbn; intros H; [constructor|]. destruct H as (Hr & Hk & _). constructor; auto.
Qed.

Lemma lookup_in_iff m : NoDup (map fst m) -> forall i s, lookup m i = Some s <-> In (i, s) m.
Proof.
  induction m as [|[t x] r IH]; cbn [map fst]; intros N i s.
  - split; [discriminate|intros []].
  - inversion N as [|? ? Hn N']. subst. rewrite lookup_cons. destruct (Nat.eqb t i) eqn:E.
    + apply Nat.eqb_eq in E. subst t. split.
      * intros H. inversion H. now left.
      * intros [H|H]; [inversion H; auto|]. exfalso. apply Hn. apply in_map_iff. exists (i, s). auto.
    + apply Nat.eqb_neq in E. rewrite (IH N' i s). split; [now right|].
      intros [H|H]; auto. inversion H. congruence.
Qed.

Lemma lookup_perm m m' : NoDup (map fst m) -> Permutation m m' -> forall i, lookup m i = lookup m' i.
Proof.
  intros N P i.
  assert (N' : NoDup (map fst m')) by (eapply Permutation_NoDup; [apply Permutation_map; exact P|exact N]).
  destruct (lookup m i) as [s|] eqn:A.
  - symmetry. apply (lookup_in_iff m' N'). eapply Permutation_in; eauto. apply (lookup_in_iff m N). exact A.
  - destruct (lookup m' i) as [s|] eqn:B; auto. exfalso.
    apply (lookup_in_iff m' N') in B. apply (Permutation_in _ (Permutation_sym P)) in B.
    apply (lookup_in_iff m N) in B. congruence.
Qed.

Lemma rep_ext m m' : (forall i, lookup m i = lookup m' i) -> forall f i, rep f m i = rep f m' i.
Proof. intros H f. induction f as [|f IH]; intros i; cbn; rewrite <- H; destruct (lookup m i); auto. Qed.

Lemma foldM_ext {S E} (step step' : S -> E -> result S) l :
  (forall s x, step s x = step' s x) -> forall s, foldM step l s = foldM step' l s.
Proof. intros H. induction l as [|x r IH]; intros s; cbn; auto. rewrite H. destruct (step' s x); cbn; auto. Qed.

Lemma ren_ext f g : (forall n, f n = g n) -> forall e, ren f e = ren g e.
Proof.
  intros H. induction e using expr_ind'; cbn; auto; try congruence.
  - f_equal. induction H0; cbn; auto. f_equal; auto.
  - f_equal. induction H0; cbn; auto. f_equal; auto.
  - f_equal. induction H0; cbn; auto. f_equal; auto.
  - f_equal. induction H0; cbn; auto. f_equal; auto.
  - f_equal. induction H0; cbn; auto. destruct H0 as (A & B). f_equal; auto. congruence.
Qed.

Lemma add_maths_map_ext d vars m m' eqs : length m = length m' -> (forall i, lookup m i = lookup m' i) ->
  add_maths d vars m eqs = add_maths d vars m' eqs.
Proof.
  intros L H. pose proof (rep_ext _ _ H) as R.
  assert (Res : forall c n, resolve vars m c n = resolve vars m' c n).
  { intros c n. unfold resolve. destruct (vidx vars c n); auto. rewrite L. apply R. }
  assert (Ren : forall c n, rename_of vars m c n = rename_of vars m' c n).
  { intros c n. unfold rename_of. rewrite Res. reflexivity. }
  unfold add_maths. revert eqs. apply foldM_ext. intros e1 c. unfold comp_maths. revert e1. apply foldM_ext.
  intros e2 ml. unfold math_step. f_equal.
  - apply foldM_ext. intros u x. destruct x; cbn; auto. destruct (vidx vars (c_name c) n); auto. rewrite L, R. reflexivity.
  - assert (M : map (flat_eq vars m (c_name c)) ml = map (flat_eq vars m' (c_name c)) ml).
    { apply map_ext. intros q. unfold flat_eq. rewrite !(ren_ext _ _ (Ren (c_name c))). reflexivity. }
    rewrite M. reflexivity.
Qed.

Definition PermE (a b : list feq) : Prop := Permutation a b.

Lemma add_eq_congr e e' q : Permutation e e' -> rel_res PermE (add_eq e q) (add_eq e' q).
Proof.
  intros P. unfold add_eq. destruct (feq_kind q); cbn; auto; rewrite (defined_perm _ _ _ P);
    destruct (defined e' _); cbn; auto; apply perm_skip; auto.
Qed.

Lemma PermE_sym x y : PermE x y -> PermE y x.
Proof. apply Permutation_sym. Qed.
Lemma PermE_trans x y z : PermE x y -> PermE y z -> PermE x z.
Proof. apply Permutation_trans. Qed.

Lemma add_maths_congr d vars m e e' : Permutation e e' -> rel_res PermE (add_maths d vars m e) (add_maths d vars m e').
Proof.
  intros P. unfold add_maths. apply (foldM_rel PermE); auto.
  intros s s' c Hs. unfold comp_maths. apply (foldM_rel PermE); auto.
  intros t t' ml Ht. unfold math_step. destruct (foldM (check_leaf d vars m (c_name c)) _ tt); cbn; auto.
  apply (foldM_rel PermE); auto. intros; apply add_eq_congr; auto.
Qed.

Lemma is_state_perm e e' i : Permutation e e' -> is_state e i = is_state e' i.
Proof.
  intros P. unfold is_state. destruct (existsb _ e) eqn:A, (existsb _ e') eqn:B; auto.
  - apply existsb_exists in A. destruct A as (q & Hq & E). rewrite <- B. symmetry. apply existsb_exists.
    exists q. split; auto. eapply Permutation_in; eauto.
  - apply existsb_exists in B. destruct B as (q & Hq & E). rewrite <- A. apply existsb_exists.
    exists q. split; auto. eapply Permutation_in; [apply Permutation_sym|]; eauto.
Qed.

Definition RTC (a b : list feq * list (option Q)) : Prop := Permutation (fst a) (fst b) /\ snd a = snd b.

Lemma tc_congr vars e e' : Permutation e e' -> rel_res RTC (transform_constants vars e) (transform_constants vars e').
Proof.
  intros P. unfold transform_constants.
  assert (Es : map (is_state e) (seq 0 (length vars)) = map (is_state e') (seq 0 (length vars))).
  { apply map_ext. intros i. apply is_state_perm; auto. }
  rewrite Es. set (sts := map (is_state e') (seq 0 (length vars))).
  assert (Hc : forall s s' i, RTC s s' -> rel_res RTC (tc_step sts s i) (tc_step sts s' i)).
  { intros s s' i HR. unfold RTC in HR. destruct HR as (Hp & Hi). unfold tc_step. rewrite <- Hi.
    destruct (nth i (snd s) None); destruct (nth i sts false); cbn; auto; try solve [unfold RTC; split; auto].
    rewrite (defined_perm _ _ (Z.of_nat i) Hp). destruct (defined (fst s') (Z.of_nat i)); cbn; auto.
    unfold RTC. split; cbn; auto. }
  apply (foldM_rel RTC _ Hc). unfold RTC. split; auto.
Qed.

(* ---- the part of `load` after the directions ---- *)
Definition finish (d : doc) (vars : list fv) (work : list (nat * nat)) : result flat :=
  bind (connect vars (conn_fuel work) work 0 (init_cs vars)) (fun cs =>
  bind (add_maths d vars (cmap cs) (ceqs cs)) (fun eqs =>
  bind (transform_constants vars eqs) (fun ei =>
  OK (mkFlat vars (cmt cs) (snd ei) (asg cs) (rev (cmap cs)) (rev (fst ei)))))).

Definition flat_equiv (f f' : flat) : Prop :=
  f_vars f = f_vars f' /\ f_cmeta f = f_cmeta f' /\ f_init f = f_init f' /\ f_asg f = f_asg f' /\
  Permutation (f_map f) (f_map f') /\ Permutation (f_eqs f) (f_eqs f').

Lemma flat_equiv_sym f f' : flat_equiv f f' -> flat_equiv f' f.
Proof. intros (A & B & C & D & E & F). repeat split; auto using Permutation_sym. Qed.

Lemma finish_cs_congr d vars cs cs' : conn_inv (init_asg 0 vars) cs -> cs_equiv cs cs' ->
  rel_res flat_equiv
    (bind (add_maths d vars (cmap cs) (ceqs cs)) (fun eqs => bind (transform_constants vars eqs) (fun ei =>
       OK (mkFlat vars (cmt cs) (snd ei) (asg cs) (rev (cmap cs)) (rev (fst ei))))))
    (bind (add_maths d vars (cmap cs') (ceqs cs')) (fun eqs => bind (transform_constants vars eqs) (fun ei =>
       OK (mkFlat vars (cmt cs') (snd ei) (asg cs') (rev (cmap cs')) (rev (fst ei)))))).
Proof.
  intros I (A & B & C & D).
  assert (N : NoDup (map fst (cmap cs))) by (eapply chain_nodup; apply I).
  rewrite (add_maths_map_ext d vars (cmap cs) (cmap cs') (ceqs cs) (Permutation_length C) (lookup_perm _ _ N C)).
  apply (rel_res_bind PermE flat_equiv); [apply add_maths_congr; auto|].
  intros e e' Pe. apply (rel_res_bind RTC flat_equiv); [apply tc_congr; auto|].
  intros ei ei' (P1 & P2). cbn. unfold flat_equiv; cbn. repeat split; auto.
  - rewrite <- !Permutation_rev. exact C.
  - rewrite <- !Permutation_rev. exact P1.
Qed.

Lemma finish_perm d vars work work' :
  (forall x, In x work -> (fst x < length vars)%nat /\ (snd x < length vars)%nat) ->
  Permutation work work' -> rel_res flat_equiv (finish d vars work) (finish d vars work').
Proof.
  intros R P. unfold finish.
  assert (W : wfs (length vars) (init_cs vars)).
  { split; cbn; [apply init_asg_length|apply map_length]. }
  assert (R' : forall x, In x work' -> (fst x < length vars)%nat /\ (snd x < length vars)%nat).
  { intros x Hx. apply R. eapply Permutation_in; [apply Permutation_sym|]; eauto. }
  assert (Inv : forall w cs, (forall x, In x w -> (fst x < length vars)%nat /\ (snd x < length vars)%nat) ->
                 connect vars (conn_fuel w) w 0 (init_cs vars) = OK cs -> conn_inv (init_asg 0 vars) cs).
  { intros w cs Rw Hc. apply connect_schedule in Hc. destruct Hc as (p & Pp & Hr).
    eapply conn_inv_run; [|exact Hr|].
    - apply (conn_inv_init (init_cs vars)). reflexivity.
    - intros c Hc. rewrite init_asg_length. apply Rw. eapply Permutation_in; eauto. }
  destruct (connect vars (conn_fuel work) work 0 (init_cs vars)) as [cs| |] eqn:C1.
  - destruct (connect_perm vars (length vars) work work' _ cs W R P C1) as (cs' & C2 & Q).
    rewrite C2. cbn [bind]. apply finish_cs_congr; [exact (Inv work cs R C1)|apply cs_equiv_sym; exact Q].
  - destruct (connect vars (conn_fuel work') work' 0 (init_cs vars)) as [cs'| |] eqn:C2; cbn; auto.
    destruct (connect_perm vars (length vars) work' work _ cs' W R' (Permutation_sym P) C2) as (cs & C3 & _).
    congruence.
  - exfalso. revert C1. apply connect_total0.
Qed.

(* ================= top level ================= *)
Lemma load_unfold mc ue us cs gs ks :
  load (mkDoc mc ue us cs gs ks) =
  if existsb c_units_inside cs then Error EUnitsInComp else
  match ue with
  | Some code => Error (EUnitsFail code)
  | None => bind (add_components (mkDoc mc ue us cs gs ks)) (fun nv =>
            bind (add_relationships (fst nv) gs) (fun ps =>
            bind (directions (snd nv) (fst nv) ps ks) (finish (mkDoc mc ue us cs gs ks) (snd nv))))
  end.
Proof. reflexivity. Qed.

Lemma flat_equiv_refl f : flat_equiv f f.
Proof. repeat split; auto. Qed.

Lemma rel_res_refl_eq {T} (a : result T) : rel_res eq a a.
Proof. destruct a; cbn; auto. Qed.

(* ---- groups ---- *)
Theorem groups_permutation mc ue us cs gs gs' ks : Permutation gs gs' ->
  rel_res eq (load (mkDoc mc ue us cs gs ks)) (load (mkDoc mc ue us cs gs' ks)).
Proof.
  intros P. rewrite !load_unfold. destruct (existsb c_units_inside cs); [exact I|]. destruct ue; [exact I|].
  change (add_components (mkDoc mc None us cs gs' ks)) with (add_components (mkDoc mc None us cs gs ks)).
  destruct (add_components (mkDoc mc None us cs gs ks)) as [[names vars]| |]; cbn [bind fst snd]; try exact I.
  pose proof (relationships_perm names gs gs' P) as Q.
  destruct (add_relationships names gs) as [ps| |], (add_relationships names gs') as [ps'| |]; cbn in Q |- *;
    try contradiction; try exact I.
  subst ps'.
  change (finish (mkDoc mc None us cs gs' ks) vars) with (finish (mkDoc mc None us cs gs ks) vars).
  apply rel_res_refl_eq.
Qed.

(* ---- connections and map_variables ---- *)
Definition conn_comps (ks : list conn) : list Z := flat_map (fun k => [k_c1 k; k_c2 k]) ks.

Lemma cidx_in names c : In c names -> cidx names c <> None.
Proof.
  intros H. unfold cidx. destruct (find_index_some_ex (Z.eqb c) names c H (Z.eqb_refl c)) as (i & ->). discriminate.
Qed.

Lemma maps_complete vars names ps c1 c2 ms : forall acc,
  (forall m, In m ms -> exists st, dir_of vars names ps (c1, fst m, c2, snd m) = OK st) ->
  foldM (fun a m => bind (direction vars names ps c1 (fst m) c2 (snd m)) (fun st => OK (a ++ [st]))) ms acc
  = OK (acc ++ map (dir_val vars names ps) (map (fun m => (c1, fst m, c2, snd m)) ms)).
Proof.
  induction ms as [|m r IH]; intros acc H; cbn. { rewrite app_nil_r. reflexivity. }
  destruct (H m (or_introl eq_refl)) as (st & Hd). cbn in Hd. rewrite Hd. cbn [bind].
  rewrite IH by (intros m' Hm'; apply H; now right). rewrite <- app_assoc. cbn.
  unfold dir_val at 2. cbn [dir_of]. rewrite Hd. reflexivity.
Qed.

Lemma conns_complete vars names ps ks : forall acc,
  (forall c, In c (conn_comps ks) -> cidx names c <> None) ->
  (forall p, In p (all_pairs ks) -> exists st, dir_of vars names ps p = OK st) ->
  foldM (conn_step vars names ps) ks acc = OK (acc ++ map (dir_val vars names ps) (all_pairs ks)).
Proof.
  induction ks as [|k r IH]; intros acc Hc Hp; cbn. { rewrite app_nil_r. reflexivity. }
  unfold conn_step at 1.
  destruct (cidx names (k_c1 k)) eqn:E1; [|exfalso; apply (Hc (k_c1 k)); cbn; auto].
  destruct (cidx names (k_c2 k)) eqn:E2; [|exfalso; apply (Hc (k_c2 k)); cbn; auto].
  rewrite maps_complete.
  - cbn [bind]. rewrite IH.
    + rewrite <- app_assoc, map_app. reflexivity.
    + intros c H. apply Hc. cbn. auto.
    + intros p H. apply Hp. cbn. apply in_or_app. now right.
  - intros m Hm. apply Hp. cbn. apply in_or_app. left. unfold conn_pairs. apply in_map_iff. eauto.
Qed.

Lemma directions_iff vars names ps ks w : directions vars names ps ks = OK w <->
  ((forall c, In c (conn_comps ks) -> cidx names c <> None) /\
   (forall p, In p (all_pairs ks) -> exists st, dir_of vars names ps p = OK st) /\
   w = map (dir_val vars names ps) (all_pairs ks)).
Proof.
  split.
  - intros H. apply directions_ok in H. destruct H as (A & B & C). repeat split; auto.
    intros c Hc. unfold conn_comps in Hc. apply in_flat_map in Hc. destruct Hc as (k & Hk & Hc).
    destruct (C k Hk). destruct Hc as [<-|[<-|[]]]; auto.
  - intros (A & B & ->). unfold directions. rewrite conns_complete; auto.
Qed.

Lemma directions_perm vars names ps ks ks' :
  Permutation (all_pairs ks) (all_pairs ks') -> (forall c, In c (conn_comps ks) <-> In c (conn_comps ks')) ->
  rel_res (@Permutation _) (directions vars names ps ks) (directions vars names ps ks').
Proof.
  intros P C.
  destruct (directions vars names ps ks) as [w| |] eqn:D1.
  - apply directions_iff in D1. destruct D1 as (A & B & ->).
    assert (D2 : directions vars names ps ks' = OK (map (dir_val vars names ps) (all_pairs ks'))).
    { apply directions_iff. repeat split; auto.
      - intros c Hc. apply A. apply C. exact Hc.
      - intros p Hp. apply B. eapply Permutation_in; [apply Permutation_sym|]; eauto. }
    rewrite D2. cbn. apply Permutation_map. exact P.
  - destruct (directions vars names ps ks') as [w'| |] eqn:D2; cbn; auto.
    apply directions_iff in D2. destruct D2 as (A & B & ->).
    assert (D3 : directions vars names ps ks = OK (map (dir_val vars names ps) (all_pairs ks))).
    { apply directions_iff. repeat split; auto.
      - intros c Hc. apply A. apply C. exact Hc.
      - intros p Hp. apply B. eapply Permutation_in; eauto. }
    congruence.
  - exfalso. revert D1. apply foldM_nofuel, conn_step_nofuel.
Qed.

Theorem pairs_permutation mc ue us cs gs ks ks' :
  Permutation (all_pairs ks) (all_pairs ks') -> (forall c, In c (conn_comps ks) <-> In c (conn_comps ks')) ->
  rel_res flat_equiv (load (mkDoc mc ue us cs gs ks)) (load (mkDoc mc ue us cs gs ks')).
Proof.
  intros P C. rewrite !load_unfold. destruct (existsb c_units_inside cs); [exact I|]. destruct ue; [exact I|].
  change (add_components (mkDoc mc None us cs gs ks')) with (add_components (mkDoc mc None us cs gs ks)).
  destruct (add_components (mkDoc mc None us cs gs ks)) as [[names vars]| |]; cbn [bind fst snd]; try exact I.
  destruct (add_relationships names gs) as [ps| |]; cbn [bind]; try exact I.
  pose proof (directions_perm vars names ps ks ks' P C) as Q.
  destruct (directions vars names ps ks) as [w| |] eqn:D1, (directions vars names ps ks') as [w'| |] eqn:D2;
    cbn in Q |- *; try contradiction; try exact I.
  change (finish (mkDoc mc None us cs gs ks') vars) with (finish (mkDoc mc None us cs gs ks) vars).
  apply finish_perm; auto. eapply work_in_range; eauto.
Qed.

Theorem connections_permutation mc ue us cs gs ks ks' : Permutation ks ks' ->
  rel_res flat_equiv (load (mkDoc mc ue us cs gs ks)) (load (mkDoc mc ue us cs gs ks')).
Proof.
  intros P. apply pairs_permutation.
  - unfold all_pairs. apply Permutation_flat_map. exact P.
  - intros c. unfold conn_comps. split; intros H; eapply Permutation_in; try exact H; apply Permutation_flat_map; auto.
    now apply Permutation_sym.
Qed.

Theorem map_variables_permutation mc ue us cs gs l1 c1 c2 ms ms' l2 : Permutation ms ms' ->
  rel_res flat_equiv (load (mkDoc mc ue us cs gs (l1 ++ mkConn c1 c2 ms :: l2)))
                     (load (mkDoc mc ue us cs gs (l1 ++ mkConn c1 c2 ms' :: l2))).
Proof.
  intros P. apply pairs_permutation.
  - unfold all_pairs. rewrite !flat_map_app. cbn [flat_map]. apply Permutation_app_head, Permutation_app_tail.
    unfold conn_pairs. cbn. apply Permutation_map. exact P.
  - intros c. unfold conn_comps. rewrite !flat_map_app. cbn. tauto.
Qed.

(* ---- the two ends of a connection ---- *)
Definition swap4 (p : pair4) : pair4 := match p with (c1, v1, c2, v2) => (c2, v2, c1, v1) end.
Definition swap_conn (k : conn) : conn := mkConn (k_c2 k) (k_c1 k) (map (fun m => (snd m, fst m)) (k_maps k)).

Lemma conn_step_swap vars names ps k :
  (forall p, In p (conn_pairs k) -> dir_of vars names ps (swap4 p) = dir_of vars names ps p) ->
  forall acc, conn_step vars names ps acc (swap_conn k) = conn_step vars names ps acc k.
Proof.
  intros G acc. unfold conn_step, swap_conn. cbn [k_c1 k_c2 k_maps].
  destruct (cidx names (k_c1 k)), (cidx names (k_c2 k)); auto.
  assert (G' : forall m, In m (k_maps k) ->
             direction vars names ps (k_c2 k) (snd m) (k_c1 k) (fst m) = direction vars names ps (k_c1 k) (fst m) (k_c2 k) (snd m)).
  { intros m Hm. apply (G (k_c1 k, fst m, k_c2 k, snd m)). unfold conn_pairs. apply in_map_iff. eauto. }
  clear G. revert acc. induction (k_maps k) as [|m r IH]; intros acc; cbn; auto.
  rewrite (G' m (or_introl eq_refl)). destruct (direction vars names ps (k_c1 k) (fst m) (k_c2 k) (snd m)); cbn; auto.
  apply IH. intros m' Hm'. apply G'. now right.
Qed.

Theorem ends_swap_guarded mc ue us cs gs l1 k l2 :
  (forall names vars ps, add_components (mkDoc mc ue us cs gs (l1 ++ k :: l2)) = OK (names, vars) ->
     add_relationships names gs = OK ps ->
     forall p, In p (conn_pairs k) -> dir_of vars names ps (swap4 p) = dir_of vars names ps p) ->
  load (mkDoc mc ue us cs gs (l1 ++ swap_conn k :: l2)) = load (mkDoc mc ue us cs gs (l1 ++ k :: l2)).
Proof.
  intros G. rewrite !load_unfold. destruct (existsb c_units_inside cs); auto. destruct ue; auto.
  change (add_components (mkDoc mc None us cs gs (l1 ++ swap_conn k :: l2)))
    with (add_components (mkDoc mc None us cs gs (l1 ++ k :: l2))).
  destruct (add_components (mkDoc mc None us cs gs (l1 ++ k :: l2))) as [[names vars]| |] eqn:A; cbn [bind fst snd]; auto.
  destruct (add_relationships names gs) as [ps| |] eqn:B; cbn [bind]; auto.
  assert (D : directions vars names ps (l1 ++ swap_conn k :: l2) = directions vars names ps (l1 ++ k :: l2)).
  { unfold directions. rewrite !foldM_app. destruct (foldM (conn_step vars names ps) l1 []); cbn [bind]; auto.
    cbn [foldM]. rewrite conn_step_swap; auto. }
  rewrite D. reflexivity.
Qed.

(* the decision is symmetric unless the encapsulation hierarchy makes each component the parent of the other *)
Definition mutual_b names ps (c1 c2 : Z) : bool :=
  negb (optZ_eqb (parent_of names ps c1) (parent_of names ps c2)) &&
  optZ_eqb (Some c1) (parent_of names ps c2) && optZ_eqb (Some c2) (parent_of names ps c1).

Lemma optZ_eqb_sym a b : optZ_eqb a b = optZ_eqb b a.
Proof. destruct a, b; cbn; auto. apply Z.eqb_sym. Qed.

Lemma direction_sym vars names ps c1 v1 c2 v2 : mutual_b names ps c1 c2 = false ->
  direction vars names ps c2 v2 c1 v1 = direction vars names ps c1 v1 c2 v2.
Proof.
  unfold mutual_b, direction. destruct (vidx vars c1 v1) as [i1|], (vidx vars c2 v2) as [i2|]; auto.
  rewrite (optZ_eqb_sym (parent_of names ps c2) (parent_of names ps c1)).
  destruct (optZ_eqb (parent_of names ps c1) (parent_of names ps c2)); cbn [negb andb].
  - intros _. destruct (pub_of vars i1), (pub_of vars i2); reflexivity.
  - destruct (optZ_eqb (Some c1) (parent_of names ps c2)), (optZ_eqb (Some c2) (parent_of names ps c1)); cbn;
      auto; discriminate.
Qed.

(* a hierarchy that passed the forest check has no two components that are each other's parent *)
Lemma forest_no_mutual names gs ps c1 c2 : add_relationships names gs = OK ps -> mutual_b names ps c1 c2 = false.
Proof.
  intros H. apply add_relationships_ok in H. destruct H as (_ & F).
  unfold mutual_b. destruct (optZ_eqb (parent_of names ps c1) (parent_of names ps c2)); [reflexivity|].
  cbn [negb andb]. destruct (optZ_eqb (Some c1) (parent_of names ps c2)) eqn:E1; [|reflexivity].
  destruct (optZ_eqb (Some c2) (parent_of names ps c1)) eqn:E2; [|reflexivity]. exfalso.
  destruct (parent_of names ps c2) as [p2|] eqn:P2; cbn in E1; [|discriminate]. apply Z.eqb_eq in E1. subst p2.
  destruct (parent_of names ps c1) as [p1|] eqn:P1; cbn in E2; [|discriminate]. apply Z.eqb_eq in E2. subst p1.
  assert (Hc : In c1 names).
  { unfold parent_of in P1. destruct (cidx names c1) eqn:C; [|discriminate]. eapply cidx_some_in; eauto. }
  apply (check_forest_ok _ _ F c1 1%nat Hc). rewrite P1. cbn. exact P2.
Qed.

(* FULL STRENGTH: the two spellings of a connection give the identical result, an error or the identical model *)
Theorem ends_swap mc ue us cs gs l1 k l2 :
  load (mkDoc mc ue us cs gs (l1 ++ swap_conn k :: l2)) = load (mkDoc mc ue us cs gs (l1 ++ k :: l2)).
Proof.
  apply ends_swap_guarded. intros names vars ps A B p Hp.
  unfold conn_pairs in Hp. apply in_map_iff in Hp. destruct Hp as (m & <- & _). cbn.
  apply direction_sym. eapply forest_no_mutual; eauto.
Qed.

(* order_added follows the document: components in document order, variables in declaration order *)
Lemma component_order d f : load d = OK f -> f_vars f = flat_map (comp_vars d) (d_comps d).
Proof. intros H. apply no_half_load in H. tauto. Qed.

(* the hypotheses are satisfiable: a document with two connections, in both orders, loads *)
Definition ex15 (swap : bool) : doc :=
  let k1 := mkConn 11 10 [(20, 20)] in let k2 := mkConn 10 12 [(20, 21)] in
  mkDoc None None [(1, ex_volt); (2, ex_mv)]
        [mkComp 10 [mkDVar 20 1 (Some (2#1)%Q) IOut INone None] [] false false;
         mkComp 11 [mkDVar 20 2 None IIn INone None] [] false false;
         mkComp 12 [mkDVar 21 1 None IIn INone (Some 7%Z)] [] false false]
        [] (if swap then [k2; k1] else [k1; k2]).

Example ex15_loads : exists f f', load (ex15 false) = OK f /\ load (ex15 true) = OK f' /\
  f_vars f = f_vars f' /\ f_asg f = f_asg f' /\ f_cmeta f = f_cmeta f' /\ f_eqs f = f_eqs f' /\ f_map f = rev (f_map f').
Proof. do 2 eexists. vm_compute. repeat split. Qed.

(* ================= equations and <math> elements inside components ================= *)
Definition same_shell (c c' : comp) : Prop :=
  c_name c = c_name c' /\ c_vars c = c_vars c' /\ c_units_inside c = c_units_inside c' /\ c_reaction c = c_reaction c'.

Lemma shells_inner cs cs' : Forall2 same_shell cs cs' -> existsb c_units_inside cs = existsb c_units_inside cs'.
Proof. induction 1 as [|c c' r r' (_ & _ & E & _) _ IH]; cbn; auto. rewrite E, IH. reflexivity. Qed.

Lemma shells_components mc us cs cs' gs gs' ks ks' : Forall2 same_shell cs cs' ->
  add_components (mkDoc mc None us cs gs ks) = add_components (mkDoc mc None us cs' gs' ks').
Proof.
  intros F. unfold add_components. cbn [d_comps]. generalize (@nil Z, @nil fv).
  induction F as [|c c' r r' (E1 & E2 & _ & E4) _ IH]; intros st; cbn [foldM]; auto.
  assert (E : add_comp (mkDoc mc None us (c :: r) gs ks) st c = add_comp (mkDoc mc None us (c' :: r') gs' ks') st c').
  { unfold add_comp. rewrite E1, E2, E4. reflexivity. }
  rewrite E. destruct (add_comp (mkDoc mc None us (c' :: r') gs' ks') st c'); cbn [bind]; auto.
Qed.

(* blocks: a state-independent check followed by equations to add *)
Definition run_blocks (bs : list (result unit * list feq)) (e : list feq) : result (list feq) :=
  foldM (fun e b => bind (fst b) (fun _ => foldM add_eq (snd b) e)) bs e.
Definition blocks_check (bs : list (result unit * list feq)) : result unit := foldM (fun _ b => fst b) bs tt.

Lemma run_blocks_alt bs : forall e, rel_res eq (run_blocks bs e)
  (bind (blocks_check bs) (fun _ => foldM add_eq (flat_map snd bs) e)).
Proof.
  unfold run_blocks, blocks_check. induction bs as [|b r IH]; intros e; cbn [foldM flat_map bind]. { reflexivity. }
  destruct (fst b) as [[]| |]; cbn [bind]; try exact I.
  rewrite foldM_app. destruct (foldM add_eq (snd b) e) as [e1| |]; cbn [bind].
  - apply IH.
  - destruct (foldM (fun (_ : unit) (b0 : result unit * list feq) => fst b0) r tt); exact I.
  - destruct (foldM (fun (_ : unit) (b0 : result unit * list feq) => fst b0) r tt); exact I.
Qed.

Definition math_blocks (d : doc) vars m (cs : list comp) : list (result unit * list feq) :=
  flat_map (fun c => map (fun ml => (foldM (check_leaf d vars m (c_name c)) (flat_map eq_leaves ml) tt,
                                     map (flat_eq vars m (c_name c)) ml)) (c_maths c)) cs.

Lemma add_maths_blocks d vars m : forall cs e,
  foldM (comp_maths d vars m) cs e = run_blocks (math_blocks d vars m cs) e.
Proof.
  unfold run_blocks. induction cs as [|c r IH]; intros e; cbn [foldM math_blocks flat_map]; auto.
  rewrite foldM_app. fold (math_blocks d vars m r).
  assert (E : forall mls e0, foldM (math_step d vars m (c_name c)) mls e0 =
     foldM (fun e b => bind (fst b) (fun _ => foldM add_eq (snd b) e))
           (map (fun ml => (foldM (check_leaf d vars m (c_name c)) (flat_map eq_leaves ml) tt,
                            map (flat_eq vars m (c_name c)) ml)) mls) e0).
  { induction mls as [|ml r' IH']; intros e0; cbn [foldM map]; auto. unfold math_step at 1. cbn [fst snd].
    destruct (foldM (check_leaf d vars m (c_name c)) (flat_map eq_leaves ml) tt) as [[]| |]; cbn [bind]; auto.
    destruct (foldM add_eq (map (flat_eq vars m (c_name c)) ml) e0); cbn [bind]; auto. }
  unfold comp_maths at 1. rewrite E. destruct (foldM _ (map _ (c_maths c)) e); cbn [bind]; auto.
Qed.

Lemma blocks_flat d vars m cs : flat_map snd (math_blocks d vars m cs)
  = map (fun cq => flat_eq vars m (fst cq) (snd cq)) (flat_map comp_ceqs cs).
Proof.
  induction cs as [|c r IH]; cbn [math_blocks flat_map]; auto. fold (math_blocks d vars m r).
  rewrite flat_map_app, map_app, IH. f_equal. unfold comp_ceqs. rewrite map_map. cbn [fst snd].
  induction (c_maths c) as [|ml r' IH']; cbn; auto. rewrite map_app, IH'. reflexivity.
Qed.

Lemma check_leaves_all d vars m c l : (forall x, In x l -> leaf_ok d vars m c x) -> foldM (check_leaf d vars m c) l tt = OK tt.
Proof.
  induction l as [|x r IH]; intros H; cbn; auto. rewrite (H x (or_introl eq_refl)). cbn. apply IH. intros; apply H; now right.
Qed.

Lemma blocks_check_iff d vars m cs : blocks_check (math_blocks d vars m cs) = OK tt <->
  (forall cq x, In cq (flat_map comp_ceqs cs) -> In x (eq_leaves (snd cq)) -> leaf_ok d vars m (fst cq) x).
Proof.
  unfold blocks_check. induction cs as [|c r IH]; cbn [math_blocks flat_map foldM].
  - split; auto. intros _ cq x [].
  - fold (math_blocks d vars m r). rewrite foldM_app.
    assert (A : forall mls, foldM (fun (_ : unit) (b : result unit * list feq) => fst b)
                 (map (fun ml => (foldM (check_leaf d vars m (c_name c)) (flat_map eq_leaves ml) tt,
                                  map (flat_eq vars m (c_name c)) ml)) mls) tt = OK tt <->
               (forall q x, In q (concat mls) -> In x (eq_leaves q) -> leaf_ok d vars m (c_name c) x)).
    { induction mls as [|ml r' IH']; cbn [map foldM concat]. { split; auto. intros _ q x []. }
      cbn [fst]. split.
      - intros H. destruct (foldM (check_leaf d vars m (c_name c)) (flat_map eq_leaves ml) tt) as [[]| |] eqn:E;
          cbn in H; try discriminate. intros q x Hq Hx. apply in_app_or in Hq. destruct Hq as [Hq|Hq].
        + eapply check_leaves_ok; eauto. apply in_flat_map. eauto.
        + apply (proj1 IH' H q x); auto.
      - intros H. rewrite check_leaves_all.
        + cbn. apply IH'. intros q x Hq Hx. apply (H q x); auto. apply in_or_app. now right.
        + intros x Hx. apply in_flat_map in Hx. destruct Hx as (q & Hq & Hx). apply (H q x); auto. apply in_or_app. now left. }
    split.
    + intros H. destruct (foldM _ (map _ (c_maths c)) tt) as [[]| |] eqn:E; cbn in H; try discriminate.
      intros cq x Hq Hx. apply in_app_or in Hq. destruct Hq as [Hq|Hq].
      * unfold comp_ceqs in Hq. apply in_map_iff in Hq. destruct Hq as (q & <- & Hq). cbn in *.
        apply (proj1 (A (c_maths c)) E q x); auto.
      * apply (proj1 IH H cq x); auto.
    + intros H. rewrite (proj2 (A (c_maths c))).
      * cbn. apply IH. intros cq x Hq Hx. apply (H cq x); auto. apply in_or_app. now right.
      * intros q x Hq Hx. apply (H (c_name c, q) x); auto. apply in_or_app. left. unfold comp_ceqs. now apply in_map.
Qed.

Lemma add_eq_comm e x y :
  rel_res PermE (bind (add_eq e x) (fun e1 => add_eq e1 y)) (bind (add_eq e y) (fun e1 => add_eq e1 x)).
Proof.
  unfold add_eq.
  assert (D : forall q v, defined (q :: e) v = optZ_eqb (feq_var q) (Some v) || defined e v) by reflexivity.
  assert (V : forall q v, (feq_kind q = KVar v \/ exists t, feq_kind q = KDer v t) -> feq_var q = Some v).
  { intros q v [H|(t & H)]; unfold feq_var; rewrite H; reflexivity. }
  destruct (feq_kind x) as [vx|vx tx| |] eqn:Kx, (feq_kind y) as [vy|vy ty| |] eqn:Ky; cbn [bind];
    try (destruct (defined e vx); cbn [bind]; try rewrite Ky; exact I);
    try (destruct (defined e vy); cbn [bind]; try rewrite Kx; exact I); try exact I;
    (destruct (defined e vx) eqn:Dx, (defined e vy) eqn:Dy; cbn [bind]; rewrite ?Kx, ?Ky; try exact I;
     try (rewrite D, Dx, orb_true_r; exact I); try (rewrite D, Dy, orb_true_r; exact I);
     rewrite !D, Dx, Dy, !orb_false_r;
     rewrite (V x vx) by eauto; rewrite (V y vy) by eauto; cbn [optZ_eqb]; rewrite (Z.eqb_sym vy vx);
     destruct (Z.eqb vx vy); cbn; try exact I; apply perm_swap).
Qed.

Lemma add_eqs_perm l l' e : Permutation l l' -> rel_res PermE (foldM add_eq l e) (foldM add_eq l' e).
Proof.
  intros P. apply (foldM_perm PermE add_eq PermE_sym PermE_trans); auto.
  - intros s s' x H. apply add_eq_congr; auto.
  - intros s x y _. apply add_eq_comm.
  - apply Permutation_refl.
Qed.

Lemma rel_res_eq_perm {T} (a b : result (list T)) : rel_res eq a b -> rel_res (@Permutation T) a b.
Proof. destruct a, b; cbn; auto. intros ->. apply Permutation_refl. Qed.

Lemma add_maths_shell_perm mc us cs cs' gs ks vars m e :
  Permutation (flat_map comp_ceqs cs) (flat_map comp_ceqs cs') ->
  rel_res PermE (add_maths (mkDoc mc None us cs gs ks) vars m e) (add_maths (mkDoc mc None us cs' gs ks) vars m e).
Proof.
  intros P. set (D := mkDoc mc None us cs gs ks). set (D' := mkDoc mc None us cs' gs ks).
  unfold add_maths. cbn [d_comps D D']. rewrite !add_maths_blocks.
  pose proof (run_blocks_alt (math_blocks D vars m cs) e) as A.
  pose proof (run_blocks_alt (math_blocks D' vars m cs') e) as B.
  rewrite !blocks_flat in A, B.
  assert (C : blocks_check (math_blocks D vars m cs) = OK tt <-> blocks_check (math_blocks D' vars m cs') = OK tt).
  { rewrite !blocks_check_iff. change (leaf_ok D') with (leaf_ok D).
    split; intros H cq x Hq Hx; apply H; auto.
    - eapply Permutation_in; [apply Permutation_sym; exact P|exact Hq].
    - eapply Permutation_in; [exact P|exact Hq]. }
  assert (M : rel_res PermE
     (bind (blocks_check (math_blocks D vars m cs)) (fun _ => foldM add_eq (map (fun cq => flat_eq vars m (fst cq) (snd cq)) (flat_map comp_ceqs cs)) e))
     (bind (blocks_check (math_blocks D' vars m cs')) (fun _ => foldM add_eq (map (fun cq => flat_eq vars m (fst cq) (snd cq)) (flat_map comp_ceqs cs')) e))).
  { destruct (blocks_check (math_blocks D vars m cs)) as [[]| |] eqn:E1;
      destruct (blocks_check (math_blocks D' vars m cs')) as [[]| |] eqn:E2; cbn [bind]; try exact I;
      try (exfalso; destruct C as (C1 & C2); (specialize (C1 eq_refl) || specialize (C2 eq_refl)); discriminate).
    apply add_eqs_perm. apply Permutation_map. exact P. }
  apply rel_res_eq_perm in A. apply rel_res_eq_perm in B.
  eapply rel_res_trans; [exact PermE_trans|exact A|].
  eapply rel_res_trans; [exact PermE_trans|exact M|].
  apply rel_res_sym; [exact PermE_sym|exact B].
Qed.

Theorem maths_permutation mc ue us cs cs' gs ks : Forall2 same_shell cs cs' ->
  Permutation (flat_map comp_ceqs cs) (flat_map comp_ceqs cs') ->
  rel_res flat_equiv (load (mkDoc mc ue us cs gs ks)) (load (mkDoc mc ue us cs' gs ks)).
Proof.
  intros F P. rewrite !load_unfold. rewrite (shells_inner _ _ F).
  destruct (existsb c_units_inside cs'); [exact I|]. destruct ue; [exact I|].
  rewrite (shells_components mc us cs cs' gs gs ks ks F).
  destruct (add_components (mkDoc mc None us cs' gs ks)) as [[names vars]| |]; cbn [bind fst snd]; try exact I.
  destruct (add_relationships names gs) as [ps| |]; cbn [bind]; try exact I.
  destruct (directions vars names ps ks) as [w| |]; cbn [bind]; try exact I.
  unfold finish. destruct (connect vars (conn_fuel w) w 0 (init_cs vars)) as [st| |]; cbn [bind]; try exact I.
  apply (rel_res_bind PermE flat_equiv); [apply add_maths_shell_perm; auto|].
  intros e e' Pe. apply (rel_res_bind RTC flat_equiv); [apply tc_congr; auto|].
  intros ei ei' (P1 & P2). cbn. unfold flat_equiv; cbn. repeat split; auto.
  rewrite <- !Permutation_rev. exact P1.
Qed.
