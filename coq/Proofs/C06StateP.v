(* C06: INPUT conversion of a STATE variable -- semantic equivalence of the rewritten system. *)
From Coq Require Import List ZArith QArith Bool Lia Reals Lra Qreals Permutation.
From Verif Require Import Sexp Expr Eval EvalP ModelSM ConvertVar C06EvalP C06P C06ReplaceP.
Import ListNotations.
Open Scope R_scope.

Lemma NoDup_app_join_lhs {X} (a b : list X) :
  NoDup a -> NoDup b -> (forall x, In x a -> ~ In x b) -> NoDup (a ++ b).
Proof.
  induction a as [|x a IH]; cbn [app]; intros Ha Hb Hab; [exact Hb|].
  inversion Ha as [|? ? Hnotin Ha']; subst. constructor.
  - intro Hin. apply in_app_or in Hin as [Hin|Hin]; [contradiction|]. apply (Hab x); [left; reflexivity|exact Hin].
  - apply IH; [exact Ha'|exact Hb|]. intros y Hy. apply Hab. right. exact Hy.
Qed.

Lemma remove_eq_app_found l r lhs q :
  find (fun q => clhs_eqb (q_lhs q) lhs) l = Some q -> remove_eq (l ++ r) lhs = remove_eq l lhs ++ r.
Proof.
  induction l as [|x l IH]; cbn [find]; [discriminate|].
  change (remove_eq ((x :: l) ++ r) lhs) with (if clhs_eqb (q_lhs x) lhs then l ++ r else x :: remove_eq (l ++ r) lhs).
  change (remove_eq (x :: l) lhs) with (if clhs_eqb (q_lhs x) lhs then l else x :: remove_eq l lhs).
  destruct (clhs_eqb (q_lhs x) lhs); [reflexivity|]. intros H. rewrite (IH H). reflexivity.
Qed.

Lemma remove_eq_lhs_nodup l lhs : NoDup (map q_lhs l) -> NoDup (map q_lhs (remove_eq l lhs)) /\ ~ In lhs (map q_lhs (remove_eq l lhs)).
Proof.
  induction l as [|x l IH]; intros Hnd; [split; [constructor|intros []]|]. cbn [map] in Hnd. inversion Hnd as [|? ? Hnotin Hnd']; subst.
  change (remove_eq (x :: l) lhs) with (if clhs_eqb (q_lhs x) lhs then l else x :: remove_eq l lhs).
  destruct (clhs_eqb_spec (q_lhs x) lhs) as [E|Hne].
  - split; [exact Hnd'|]. rewrite <- E. exact Hnotin.
  - destruct (IH Hnd') as [A B]. cbn [map]. split.
    + constructor; [|exact A]. intro Hin. apply Hnotin. apply (remove_eq_lhs_sub l lhs _ Hin).
    + intros [E|Hin]; [congruence|contradiction].
Qed.

Section Sem.
Variable fsem : Z -> list R -> option R.
Variable psem : R -> R -> option R.
Variable csem : Z -> option R.
Hypothesis psem_inv : forall x, x <> 0 -> psem x (Q2R (-1 # 1)) = Some (/ x).

Notation ev := (ev fsem psem csem).
Notation Sat := (Sat fsem psem csem).
Notation sat1 := (sat1 fsem psem csem).

(* the system after converting state v (ODE  d v/d t = R) as an input:
     v = n / cf ;  w = R ;  d n/d t = w * cf ;  every other mention of d v/d t replaced by w *)
Definition state_system (l : list ceq) (v t n w : nat) (cf : expr) (R0 : expr) : list ceq :=
  replace_derivs [((v, t), w)]
    ((remove_eq (l ++ [{| q_lhs := CLV v; q_rhs := ediv (var n) cf |}]) (CLD v t)
      ++ [{| q_lhs := CLV w; q_rhs := R0 |}])
     ++ [{| q_lhs := CLD n t; q_rhs := emul (var w) cf |}]).

Theorem input_state_equiv l v t n w id c u ode nu dl :
  NoDup (map q_lhs l) ->
  find (fun q => clhs_eqb (q_lhs q) (CLD v t)) l = Some ode ->
  ~ In (CLV v) (map q_lhs l) ->
  fresh_var n l = true -> fresh_var w l = true -> fresh_atom n t l = true ->
  v <> n -> v <> w -> n <> w -> Q2R c <> 0 ->
  let cf := EQty id c u in
  let k := Q2R c in
  let l' := state_system l v t n w cf (q_rhs ode) in
  (Sat nu dl l ->
   Sat (upd (upd nu n (nu v * k)) w (dl v t)) (updd dl n t (dl v t * k)) l') /\
  (Sat nu dl l' ->
   Sat nu (updd dl v t (nu w)) l /\ nu n = nu v * k /\ dl n t = nu w * k).
Proof.
  intros Hnd Hode Hvl Hfn Hfw Hfa Hvn Hvw Hnw Hc cf k l'.
  assert (Holhs : q_lhs ode = CLD v t).
  { apply find_some in Hode as [_ E]. destruct (clhs_eqb_spec (q_lhs ode) (CLD v t)); [assumption|discriminate]. }
  assert (Hoin : In ode l) by (apply find_some in Hode as [A _]; exact A).
  set (ev_ := {| q_lhs := CLV v; q_rhs := ediv (var n) cf |}).
  set (ew := {| q_lhs := CLV w; q_rhs := q_rhs ode |}).
  set (en := {| q_lhs := CLD n t; q_rhs := emul (var w) cf |}).
  set (rest := remove_eq l (CLD v t)).
  assert (Hl3 : (remove_eq (l ++ [ev_]) (CLD v t) ++ [ew]) ++ [en] = (rest ++ [ev_; ew]) ++ [en]).
  { rewrite (remove_eq_app_found l [ev_] (CLD v t) ode Hode). rewrite <- !app_assoc. reflexivity. }
  set (l3 := (rest ++ [ev_; ew]) ++ [en]).
  assert (El' : l' = replace_derivs [((v, t), w)] l3) by (unfold l', state_system; fold ev_ ew en; rewrite Hl3; reflexivity).
  (* freshness facts for the individual equations of l *)
  assert (Hfn1 : forall q, In q l -> fresh_var1 n q = true) by (unfold fresh_var in Hfn; rewrite forallb_forall in Hfn; exact Hfn).
  assert (Hfw1 : forall q, In q l -> fresh_var1 w q = true) by (unfold fresh_var in Hfw; rewrite forallb_forall in Hfw; exact Hfw).
  assert (Hfa1 : forall q, In q l -> fresh_atom1 n t q = true) by (unfold fresh_atom in Hfa; rewrite forallb_forall in Hfa; exact Hfa).
  (* left-hand sides of l3 are pairwise distinct *)
  assert (Hnd3 : NoDup (map q_lhs l3)).
  { destruct (remove_eq_lhs_nodup l (CLD v t) Hnd) as [A B]. unfold l3. rewrite !map_app. cbn [map q_lhs ev_ ew en].
    assert (Hsub : forall x, In x (map q_lhs rest) -> In x (map q_lhs l)) by (intros x Hx; apply (remove_eq_lhs_sub l (CLD v t) x Hx)).
    assert (Hnw' : ~ In (CLV w) (map q_lhs l)).
    { intro Hin. apply in_map_iff in Hin as [q [E Hq]]. pose proof (Hfw1 q Hq) as F. unfold fresh_var1 in F. rewrite E in F.
      rewrite Nat.eqb_refl in F. discriminate. }
    assert (Hnn' : ~ In (CLD n t) (map q_lhs l)).
    { intro Hin. apply in_map_iff in Hin as [q [E Hq]]. pose proof (Hfa1 q Hq) as F. unfold fresh_atom1 in F. rewrite E in F.
      rewrite !Nat.eqb_refl in F. discriminate. }
    rewrite <- app_assoc. cbn [app].
    apply NoDup_app_join_lhs; [exact A| |].
    - constructor; [intros [E|[E|[]]]; [congruence|discriminate]|]. constructor; [intros [E|[]]; discriminate|]. constructor; [intros []|constructor].
    - intros x Hx [E|[E|[E|[]]]]; subst x; [apply Hvl|apply Hnw'|apply Hnn']; apply Hsub; exact Hx. }
  split.
  - (* forward *)
    intros HS. rewrite El'.
    set (nu' := upd (upd nu n (nu v * k)) w (dl v t)). set (dl' := updd dl n t (dl v t * k)).
    assert (Hw' : nu' w = dl' v t).
    { unfold nu', dl', upd, updd. rewrite Nat.eqb_refl. destruct (Nat.eqb_spec v n); [contradiction|]. reflexivity. }
    apply (Sat_replace_derivs fsem psem csem v t w nu' dl' l3 Hnd3 Hw').
    (* every equation of l keeps its truth under the extension *)
    assert (Hkeep : forall q, In q l -> (sat1 nu' dl' q <-> sat1 nu dl q)).
    { intros q Hq. unfold nu', dl'. rewrite (sat1_upd fsem psem csem w _ _ _ q (Hfw1 q Hq)).
      rewrite (sat1_upd fsem psem csem n _ _ _ q (Hfn1 q Hq)). apply (sat1_updd fsem psem csem n t _ nu dl q (Hfa1 q Hq)). }
    apply (Sat_remove fsem psem csem nu dl l (CLD v t) ode Hode) in HS as [Hso Hrest].
    unfold C06P.Sat, l3. apply Forall_app. split; [apply Forall_app; split|].
    + rewrite Forall_forall. intros q Hq. apply Hkeep; [apply (remove_eq_sub l (CLD v t) q Hq)|].
      unfold C06P.Sat in Hrest. rewrite Forall_forall in Hrest. apply Hrest. exact Hq.
    + constructor; [|constructor; [|constructor]].
      * (* v = n / cf *)
        unfold C06P.sat1, ev_. cbn [q_rhs q_lhs]. unfold cf. rewrite (ev_ediv fsem psem csem psem_inv nu' dl' (var n) id c u _ Hc (ev_var fsem psem csem nu' dl' n)).
        unfold nu', upd. destruct (Nat.eqb_spec v w); [contradiction|]. destruct (Nat.eqb_spec v n); [contradiction|].
        destruct (Nat.eqb_spec n w); [contradiction|]. rewrite Nat.eqb_refl. unfold k. field. exact Hc.
      * (* w = R *)
        pose proof (proj2 (Hkeep ode Hoin) Hso) as Ho'. unfold C06P.sat1 in *. unfold ew. cbn [q_rhs q_lhs]. rewrite Holhs in Ho'.
        destruct (ev nu' dl' (q_rhs ode)) as [[r|b]|]; try contradiction.
        unfold dl', updd in Ho'. destruct (Nat.eqb_spec v n); [contradiction|]. cbn [andb] in Ho'.
        unfold nu', upd. rewrite Nat.eqb_refl. exact Ho'.
    + constructor; [|constructor]. unfold C06P.sat1, en. cbn [q_rhs q_lhs]. unfold cf.
      rewrite (ev_emul fsem psem csem nu' dl' (var w) id c u _ (ev_var fsem psem csem nu' dl' w)).
      unfold dl', updd, nu', upd. rewrite !Nat.eqb_refl. reflexivity.
  - (* backward *)
    intros HS. rewrite El' in HS.
    set (dl2 := updd dl v t (nu w)).
    (* the atom d v/d t occurs nowhere in the new system, so its value may be chosen *)
    assert (Hfree : fresh_atom v t (replace_derivs [((v, t), w)] l3) = true).
    { unfold fresh_atom. rewrite forallb_forall. intros q Hq.
      destruct (replace_derivs_dfree v t w l3 Hnd3 q Hq) as [Hd Hl]. unfold fresh_atom1. rewrite Hd, andb_true_r.
      destruct (q_lhs q) as [x|a b] eqn:El; [reflexivity|]. apply negb_true_iff.
      destruct (Nat.eqb_spec a v) as [->|]; [|reflexivity]. destruct (Nat.eqb_spec b t) as [->|]; [|reflexivity]. exfalso.
      (* CLD v t is not a left-hand side of l3 *)
      unfold l3 in Hl. rewrite !map_app in Hl. cbn [map q_lhs ev_ ew en] in Hl.
      destruct (remove_eq_lhs_nodup l (CLD v t) Hnd) as [_ B].
      apply in_app_or in Hl as [Hl|[E|[]]]; [apply in_app_or in Hl as [Hl|[E|[E|[]]]]|]; try discriminate; try (apply B; exact Hl).
      congruence. }
    assert (HS2 : Sat nu dl2 (replace_derivs [((v, t), w)] l3)) by (apply (Sat_updd fsem psem csem v t _ nu dl _ Hfree); exact HS).
    assert (Hw2 : nu w = dl2 v t) by (unfold dl2, updd; rewrite !Nat.eqb_refl; reflexivity).
    apply (Sat_replace_derivs fsem psem csem v t w nu dl2 l3 Hnd3 Hw2) in HS2.
    unfold C06P.Sat, l3 in HS2. apply Forall_app in HS2 as [H12 H3]. apply Forall_app in H12 as [H1 H2].
    inversion H2 as [|? ? Hev H2']; subst. inversion H2' as [|? ? Hew _]; subst. inversion H3 as [|? ? Hen _]; subst.
    unfold C06P.sat1 in Hev, Hew, Hen. cbn [q_rhs q_lhs ev_ ew en] in Hev, Hew, Hen. unfold cf in Hev, Hen.
    rewrite (ev_ediv fsem psem csem psem_inv nu dl2 (var n) id c u _ Hc (ev_var fsem psem csem nu dl2 n)) in Hev.
    rewrite (ev_emul fsem psem csem nu dl2 (var w) id c u _ (ev_var fsem psem csem nu dl2 w)) in Hen.
    split; [|split].
    + apply (Sat_remove fsem psem csem nu dl2 l (CLD v t) ode Hode). split; [|exact H1].
      unfold C06P.sat1. rewrite Holhs. destruct (ev nu dl2 (q_rhs ode)) as [[r|b]|]; try contradiction.
      rewrite <- Hw2. exact Hew.
    + rewrite Hev. unfold k. field. exact Hc.
    + unfold dl2, updd in Hen. destruct (Nat.eqb_spec n v); [congruence|]. cbn [andb] in Hen. exact Hen.
Qed.

End Sem.
