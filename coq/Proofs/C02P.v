(* C02: lemmas.  Model/Transpile.v (what the code does) against Sem/MathML.v (what MathML 2 says), through
   Sem/Eval.v with psem := pow_sem and the same abstract fsem / csem / vsem / dsem on both sides. *)
From Coq Require Import List ZArith QArith Bool Reals Qreals Lia Lra ZifyBool String.
From Verif Require Import Sexp UnitAlg UStore Expr Eval EvalP TranspileTables_gen Transpile MathML.
Import ListNotations.
Open Scope Z_scope.

(* ---- names and association lists ------------------------------------------------------------- *)
Lemma name_eqb_eq a b : name_eqb a b = true <-> a = b.
Proof.
  revert b; induction a as [|x a IH]; intros [|y b]; simpl; split; intro H; try congruence; try discriminate.
  - apply andb_true_iff in H as [H1 H2]. apply Z.eqb_eq in H1. apply IH in H2. congruence.
  - injection H as -> ->. rewrite Z.eqb_refl. simpl. apply IH. reflexivity.
Qed.

Lemma alookup_in {X} n (l : list (name * X)) x : alookup n l = Some x -> In n (map fst l).
Proof.
  induction l as [|[n' y] r IH]; simpl; [discriminate|].
  destruct (name_eqb n n') eqn:E; [|auto]. apply name_eqb_eq in E. auto.
Qed.

Lemma alookup_none {X} n (l : list (name * X)) : ~ In n (map fst l) -> alookup n l = None.
Proof.
  intro H. destruct (alookup n l) eqn:E; [|reflexivity]. exfalso. eapply H, alookup_in, E.
Qed.

(* ---- the generated tables against the specification ------------------------------------------ *)
Definition kind_of (k : skind) : kind :=
  match k with
  | SNaryR w => if w =? 0 then KAdd else KMul
  | SMaxMin f => KMaxMin f
  | SNaryB op => KBool op
  | SNot => KNot
  | SMinus => KMinus | SDivide => KDivide | SPower => KPower
  | SRem => KFn2 fn_mod
  | SRoot => KRoot | SLog => KLog10 | SDiff => KDiff
  | SUnary f => KFn1 f
  | SRelN r => KChain r
  | SRel2 r => KRel r
  end.

(* what the handler of an element with this role has to be *)
Definition expected (r : srole) : option hkind :=
  match r with
  | RCi => Some HCi | RCn => Some HCn | RApply => Some HApply | RPiecewise => Some HPiecewise
  | RPiece => Some HPiece | ROtherwise => Some HOtherwise | RDegree => Some HDegree | RLogbase => Some HLogbase
  | RBvar => Some HBvar | RMath => Some HMath
  | ROp k => Some (HOp (kind_of k))
  | RConstR c => Some (HVal c)
  | RConstB b => Some (HValB b)
  end.

Definition spec_kind (tag : name) : option hkind :=
  match role tag with Some r => expected r | None => None end.

Definition hkind_eq_dec : forall a b : hkind, {a = b} + {a <> b}.
Proof. repeat decide equality. Defined.

Definition ohk_eqb (a b : option hkind) : bool :=
  match a, b with
  | Some x, Some y => if hkind_eq_dec x y then true else false
  | None, None => true
  | _, _ => false
  end.

Lemma ohk_eqb_eq a b : ohk_eqb a b = true -> a = b.
Proof.
  destruct a, b; simpl; try discriminate; try reflexivity.
  destruct (hkind_eq_dec h h0); [congruence|discriminate].
Qed.

Definition all_tags : list name := map fst role_table ++ map fst handler_methods ++ map fst simple_table.

Definition table_checker : bool := forallb (fun tag => ohk_eqb (tag_kind tag) (spec_kind tag)) all_tags.

Lemma table_check : table_checker = true.
Proof. vm_compute. reflexivity. Qed.

(* every tag: supported by the code exactly when MathML knows it (as one of the supported elements), with the
   operator the specification gives it; nothing missing, nothing extra *)
Lemma table_matches_spec : forall tag, tag_kind tag = spec_kind tag.
Proof.
  intro tag.
  destruct (in_dec (list_eq_dec Z.eq_dec) tag all_tags) as [Hin|Hout].
  - pose proof table_check as H. unfold table_checker in H. rewrite forallb_forall in H.
    apply ohk_eqb_eq, H, Hin.
  - unfold all_tags in Hout. rewrite !in_app_iff in Hout.
    unfold tag_kind, spec_kind, role.
    rewrite (alookup_none tag simple_table), (alookup_none tag handler_methods), (alookup_none tag role_table); tauto.
Qed.

(* MATHML_CONTAINERS: exactly the structural elements and cn *)
Definition may_have_children (r : srole) : bool :=
  match r with
  | RApply | RPiecewise | RPiece | ROtherwise | RDegree | RLogbase | RBvar | RMath | RCn => true
  | _ => false
  end.

Definition spec_container (tag : name) : bool :=
  match role tag with Some r => may_have_children r | None => false end.

Definition container_checker : bool :=
  forallb (fun tag => Bool.eqb (name_in tag container_tags) (spec_container tag)) (all_tags ++ container_tags).

Lemma container_check : container_checker = true.
Proof. vm_compute. reflexivity. Qed.

Lemma name_in_In n l : name_in n l = true <-> In n l.
Proof.
  unfold name_in. rewrite existsb_exists. split.
  - intros [x [Hx He]]. apply name_eqb_eq in He. congruence.
  - intro H. exists n. split; [exact H|]. apply name_eqb_eq. reflexivity.
Qed.

Lemma containers_match_spec : forall tag, name_in tag container_tags = spec_container tag.
Proof.
  intro tag.
  destruct (in_dec (list_eq_dec Z.eq_dec) tag (all_tags ++ container_tags)) as [Hin|Hout].
  - pose proof container_check as H. unfold container_checker in H. rewrite forallb_forall in H.
    apply Bool.eqb_prop, H, Hin.
  - rewrite in_app_iff in Hout. unfold all_tags in Hout. rewrite !in_app_iff in Hout.
    unfold spec_container, role. rewrite (alookup_none tag role_table) by tauto.
    destruct (name_in tag container_tags) eqn:E; [|reflexivity]. apply name_in_In in E. tauto.
Qed.

Lemma role_kind tag r : role tag = Some r -> tag_kind tag = expected r.
Proof. intro H. rewrite table_matches_spec. unfold spec_kind. rewrite H. reflexivity. Qed.

Lemma role_none tag : role tag = None -> tag_kind tag = None.
Proof. intro H. rewrite table_matches_spec. unfold spec_kind. rewrite H. reflexivity. Qed.

(* ---- real-number facts ------------------------------------------------------------------------ *)
Open Scope R_scope.

Lemma Q2R_inject z : Q2R (inject_Z z) = IZR z.
Proof. unfold Q2R, inject_Z. simpl. rewrite Rinv_1. ring. Qed.

Lemma Int_part_IZR z : Int_part (IZR z) = z.
Proof.
  unfold Int_part. symmetry. apply Z.add_move_r. apply up_tech.
  - lra.
  - rewrite plus_IZR. lra.
Qed.

Lemma pow_sem_inv y : y <> 0 -> pow_sem y (-1) = Some (/ y).
Proof.
  intro Hy. unfold pow_sem.
  destruct (Rlt_dec 0 y) as [Hp|Hn].
  - f_equal. replace (-1) with (- (1)) by ring. rewrite Rpower_Ropp, Rpower_1; auto.
  - change (-1) with (IZR (-1)). rewrite Int_part_IZR.
    destruct (Req_EM_T (IZR (-1)) (IZR (-1))) as [_|N]; [|congruence].
    destruct (Req_EM_T y 0); [contradiction|].
    f_equal. simpl. field. exact Hy.
Qed.

Lemma pow_sem_inv_some y p : pow_sem y (-1) = Some p -> y <> 0 /\ p = / y.
Proof.
  intro H. destruct (Req_EM_T y 0) as [->|Hy].
  - exfalso. unfold pow_sem in H. destruct (Rlt_dec 0 0); [lra|].
    change (-1) with (IZR (-1)) in H. rewrite Int_part_IZR in H.
    destruct (Req_EM_T (IZR (-1)) (IZR (-1))); [|congruence].
    destruct (Req_EM_T 0 0); [|congruence].
    destruct (Rlt_dec 0 (IZR (-1))); [lra|]. destruct (Req_EM_T (IZR (-1)) 0); [lra|discriminate].
  - rewrite pow_sem_inv in H by exact Hy. split; congruence.
Qed.

Section Sound.
  Variable fsem : Z -> list R -> option R.
  Variable csem : Z -> option R.
  Variable qsem : Z -> Q -> Z -> option R.
  Variable vsem : Z -> option R.
  Variable dsem : Z -> Z -> option R.
  Notation ev := (eval fsem pow_sem csem qsem vsem dsem).
  Notation evs := (evals fsem pow_sem csem qsem vsem dsem).
  Notation evpw := (evalpw fsem pow_sem csem qsem vsem dsem).
  Notation ms := (msem fsem csem vsem dsem).
  Notation mss := (msems fsem csem vsem dsem).
  Notation mpws := (mpw fsem csem vsem dsem).

  Lemma ev_int z : ev (e_int z) = Some (VR (IZR z)).
  Proof. unfold e_int. cbn [eval]. rewrite Q2R_inject. reflexivity. Qed.

  Lemma evs_cons x r : evs (x :: r) = match ev x, evs r with Some v, Some vs => Some (v :: vs) | _, _ => None end.
  Proof. reflexivity. Qed.

  Lemma ev_pow b x : ev (EPow b x) = match ev b, ev x with
                                     | Some (VR rb), Some (VR rx) => option_map VR (pow_sem rb rx)
                                     | _, _ => None end.
  Proof. reflexivity. Qed.

  Lemma ev_rel r a b : ev (ERel r a b) = match ev a, ev b with
                                         | Some (VR ra), Some (VR rb) => option_map VB (rel_sem r ra rb)
                                         | _, _ => None end.
  Proof. reflexivity. Qed.

  (* lists of expressions that evaluate to a list of reals *)
  Lemma evs_reals es vs rs : evs es = Some vs -> reals vs = Some rs -> evs es = Some (map VR rs).
  Proof.
    intros H1 H2. rewrite H1. f_equal. revert rs H2. clear H1.
    induction vs as [|[r|b] vs IH]; simpl; intros rs H.
    - injection H as <-. reflexivity.
    - destruct (reals vs) eqn:E; [|discriminate]. injection H as <-. simpl. f_equal. apply IH. reflexivity.
    - discriminate.
  Qed.

  (* chained relations *)
  Lemma chain_sound r : forall rest a xs ra rrest b,
    chain r a rest = TOk xs -> ev a = Some (VR ra) -> evs rest = Some (map VR rrest) ->
    pairwise r ra rrest = Some b ->
    exists bs, evs xs = Some (map VB bs) /\ fold_right andb true bs = b.
  Proof.
    induction rest as [|c rest IH]; intros a xs ra rrest b Hc Ha Hr Hp.
    - simpl in Hc. injection Hc as <-. destruct rrest; [|discriminate].
      simpl in Hp. injection Hp as <-. exists []. split; reflexivity.
    - simpl in Hc. destruct (mk_rel r a c) as [x|] eqn:Em; [|discriminate].
      destruct (chain r c rest) as [xs'|] eqn:Ec; [|discriminate]. injection Hc as <-.
      rewrite evs_cons in Hr. destruct (ev c) as [vc|] eqn:Evc; [|discriminate].
      destruct (evs rest) as [vr|] eqn:Evr; [|discriminate].
      destruct rrest as [|rc rrest]; [discriminate|]. simpl in Hr. injection Hr as -> ->.
      simpl in Hp. destruct (rel_sem r ra rc) as [b1|] eqn:Er; [|discriminate].
      destruct (pairwise r rc rrest) as [b2|] eqn:Ep; [|discriminate]. injection Hp as <-.
      destruct (IH c xs' rc rrest b2 Ec Evc eq_refl Ep) as [bs [Hbs Hf]].
      exists (b1 :: bs). split.
      + rewrite evs_cons. unfold mk_rel in Em. destruct (is_ineq r && _); [discriminate|]. injection Em as <-.
        rewrite ev_rel, Ha, Evc, Er. simpl. rewrite Hbs. reflexivity.
      + simpl. rewrite Hf. reflexivity.
  Qed.

  Lemma bools_map bs : bools (map VB bs) = Some bs.
  Proof. induction bs; simpl; [reflexivity|]. rewrite IHbs. reflexivity. Qed.

  Lemma reals_map rs : reals (map VR rs) = Some rs.
  Proof. induction rs; simpl; [reflexivity|]. rewrite IHrs. reflexivity. Qed.

  Ltac inv H := injection H; clear H; intros; subst.

  (* calling the callable of an operator with expressions that mean the operand values gives an expression
     that means the value MathML assigns to the application *)
  Lemma call_sound k es e vs v :
    call_expr (kind_of k) es = TOk (TE e) -> evs es = Some vs -> sem_op fsem k vs = Some v -> ev e = Some v.
  Proof.
    intros Hc He Hs. destruct k; cbn [kind_of] in Hc.
    - (* plus, times *)
      cbn [sem_op] in Hs. destruct vs as [|v0 vs']; [discriminate|].
      destruct (reals (v0 :: vs')) as [rs|] eqn:Er; [|discriminate].
      destruct (w =? 0)%Z eqn:E0; cbn [call_expr ok_e] in Hc; inv Hc.
      + inv Hs. rewrite eval_add, He, Er. reflexivity.
      + destruct (w =? 1)%Z; [|discriminate]. inv Hs. rewrite eval_mul, He, Er. reflexivity.
    - (* max, min *)
      cbn [sem_op] in Hs. cbn [call_expr] in Hc.
      destruct es as [|x [|y es']]; [discriminate| |].
      + cbn [ok_e] in Hc. inv Hc. rewrite evs_cons in He. destruct (ev e) as [ve|] eqn:Ee; [|discriminate].
        cbn [evals] in He. inv He. simpl in Hs. destruct ve; [|discriminate]. inv Hs. reflexivity.
      + cbn [ok_e] in Hc. inv Hc.
        assert (exists a b vs', vs = a :: b :: vs') as [a [b [vs' ->]]].
        { rewrite !evs_cons in He. destruct (ev x), (ev y), (evs es'); try discriminate. inv He. eauto. }
        destruct (reals (a :: b :: vs')) as [rs|] eqn:Er; [|discriminate].
        rewrite eval_fn, He, Er. exact Hs.
    - (* and, or, xor *)
      cbn [sem_op] in Hs. cbn [call_expr ok_e] in Hc. inv Hc.
      destruct vs as [|v0 vs']; [discriminate|]. destruct (bools (v0 :: vs')) as [bs|] eqn:Eb; [|discriminate].
      destruct ((0 <=? op)%Z && (op <=? 2)%Z); [|discriminate].
      rewrite eval_bool, He, Eb. exact Hs.
    - (* not *)
      cbn [sem_op] in Hs. destruct vs as [|[r|b] [|]]; try discriminate. inv Hs.
      cbn [call_expr] in Hc. destruct es as [|x [|]]; try discriminate. cbn [ok_e] in Hc. inv Hc.
      rewrite eval_bool, He. reflexivity.
    - (* minus *)
      cbn [sem_op] in Hs. cbn [call_expr] in Hc.
      destruct es as [|x [|y [|]]]; try discriminate; cbn [ok_e] in Hc; inv Hc.
      + rewrite evs_cons in He. destruct (ev x) as [vx|] eqn:Ex; [|discriminate]. cbn [evals] in He. inv He.
        destruct vx as [rx|]; [|discriminate]. inv Hs.
        unfold b_neg. rewrite eval_mul, !evs_cons, ev_int, Ex. cbn. f_equal. f_equal. ring.
      + rewrite !evs_cons in He. destruct (ev x) as [vx|] eqn:Ex; [|discriminate].
        destruct (ev y) as [vy|] eqn:Ey; [|discriminate]. cbn [evals] in He. inv He.
        destruct vx as [rx|]; [|discriminate]. destruct vy as [ry|]; [|discriminate]. inv Hs.
        unfold b_sub. rewrite eval_add, !evs_cons, eval_mul, !evs_cons, ev_int, Ex, Ey. cbn. f_equal. f_equal. ring.
    - (* divide *)
      cbn [sem_op] in Hs. cbn [call_expr] in Hc.
      destruct es as [|x [|y [|]]]; try discriminate; cbn [ok_e] in Hc; inv Hc.
      rewrite !evs_cons in He. destruct (ev x) as [vx|] eqn:Ex; [|discriminate].
      destruct (ev y) as [vy|] eqn:Ey; [|discriminate]. cbn [evals] in He. inv He.
      destruct vx as [rx|]; [|discriminate]. destruct vy as [ry|]; [|discriminate].
      destruct (Req_EM_T ry 0); [discriminate|]. inv Hs.
      unfold b_div. rewrite eval_mul, !evs_cons, ev_pow, ev_int, Ex, Ey, pow_sem_inv by assumption.
      cbn. f_equal. f_equal. field. assumption.
    - (* power *)
      cbn [sem_op] in Hs. cbn [call_expr] in Hc.
      destruct es as [|x [|y [|]]]; try discriminate; cbn [ok_e] in Hc; inv Hc.
      rewrite !evs_cons in He. destruct (ev x) as [vx|] eqn:Ex; [|discriminate].
      destruct (ev y) as [vy|] eqn:Ey; [|discriminate]. cbn [evals] in He. inv He.
      destruct vx as [rx|]; [|discriminate]. destruct vy as [ry|]; [|discriminate].
      rewrite ev_pow, Ex, Ey. exact Hs.
    - (* rem *)
      cbn [sem_op] in Hs. cbn [call_expr] in Hc.
      destruct es as [|x [|y [|]]]; try discriminate; cbn [ok_e] in Hc; inv Hc.
      destruct vs as [|[rx|] [|[ry|] [|]]]; try discriminate.
      rewrite eval_fn, He. exact Hs.
    - discriminate.
    - discriminate.
    - discriminate.
    - (* unary functions, generically *)
      cbn [sem_op] in Hs. destruct vs as [|[rx|] [|]]; try discriminate.
      cbn [call_expr] in Hc. destruct es as [|x [|]]; try discriminate. cbn [ok_e] in Hc. inv Hc.
      rewrite eval_fn, He. exact Hs.
    - (* n-ary relations: a conjunction of the adjacent pairs *)
      cbn [sem_op] in Hs. destruct (reals vs) as [[|ra [|rb rrest]]|] eqn:Er; try discriminate.
      pose proof (evs_reals _ _ _ He Er) as He'. clear He Er.
      destruct (pairwise r ra (rb :: rrest)) as [b|] eqn:Ep; [|discriminate]. inv Hs.
      destruct es as [|a [|b0 es']]; [discriminate| |].
      { rewrite evs_cons in He'. destruct (ev a); discriminate. }
      rewrite evs_cons in He'. destruct (ev a) as [va|] eqn:Ea; [|discriminate].
      destruct (evs (b0 :: es')) as [vr|] eqn:Evr; [|discriminate]. cbn [map] in He'. inv He'.
      change (VR rb :: map VR rrest) with (map VR (rb :: rrest)) in Evr.
      cbn [call_expr] in Hc. destruct es' as [|c es''].
      + (* two operands *)
        destruct (is_ineq r && _); [discriminate|]. destruct (negb (is_ineq r) && _ && _ && _); [discriminate|].
        destruct (mk_rel r a b0) as [x|] eqn:Em; [|discriminate]. cbn [ok_e] in Hc. inv Hc.
        unfold mk_rel in Em. destruct (is_ineq r && _); [discriminate|]. inv Em.
        rewrite evs_cons in Evr. destruct (ev b0) as [vb|] eqn:Eb; [|discriminate]. cbn [evals map] in Evr.
        destruct rrest; [|discriminate]. inv Evr.
        rewrite ev_rel, Ea, Eb. cbn [pairwise] in Ep. destruct (rel_sem r ra rb); [|discriminate]. inv Ep.
        simpl. rewrite andb_true_r. reflexivity.
      + destruct (chain r a (b0 :: c :: es'')) as [xs|] eqn:Ec; [|discriminate]. cbn [ok_e] in Hc. inv Hc.
        destruct (chain_sound r _ _ _ _ _ _ Ec Ea Evr Ep) as [bs [Hbs Hf]].
        rewrite eval_bool, Hbs, bools_map. simpl. rewrite Hf. reflexivity.
    - (* neq *)
      cbn [sem_op] in Hs. destruct vs as [|[rx|] [|[ry|] [|]]]; try discriminate.
      cbn [call_expr] in Hc. destruct es as [|x [|y [|]]]; try discriminate.
      destruct (mk_rel r x y) as [z|] eqn:Em; [|discriminate]. cbn [ok_e] in Hc. inv Hc.
      unfold mk_rel in Em. destruct (is_ineq r && _); [discriminate|]. inv Em.
      rewrite !evs_cons in He. destruct (ev x) as [vx|] eqn:Ex; [|discriminate].
      destruct (ev y) as [vy|] eqn:Ey; [|discriminate]. cbn [evals] in He. inv He.
      rewrite ev_rel, Ex, Ey. exact Hs.
  Qed.

  (* ---- qualifier-taking operators ----------------------------------------------------------- *)
  Lemma root_sound ex ed rx rd v :
    ev ex = Some (VR rx) -> ev ed = Some (VR rd) ->
    sem_root (Some (VR rx)) (Some (VR rd)) = Some v -> ev (b_root ex ed) = Some v.
  Proof.
    intros Hx Hd Hs. cbn [sem_root] in Hs. destruct (Req_EM_T rd 0); [discriminate|].
    unfold b_root. rewrite ev_pow, Hx, ev_pow, Hd, ev_int, pow_sem_inv by assumption. exact Hs.
  Qed.

  Lemma log_sound ex eb rx rb v :
    ev ex = Some (VR rx) -> ev eb = Some (VR rb) ->
    sem_log fsem (Some (VR rx)) (Some (VR rb)) = Some v -> ev (b_log ex eb) = Some v.
  Proof.
    intros Hx Hb Hs. cbn [sem_log] in Hs.
    destruct (fsem fn_log [rx]) as [lx|] eqn:Elx; [|discriminate].
    destruct (fsem fn_log [rb]) as [lb|] eqn:Elb; [|discriminate].
    destruct (Req_EM_T lb 0); [discriminate|]. inv Hs.
    unfold b_log. rewrite eval_mul, !evs_cons, ev_pow, !eval_fn, !evs_cons, Hx, Hb, ev_int.
    cbn [evals reals option_map]. rewrite Elx, Elb. cbn [option_map]. rewrite pow_sem_inv by assumption.
    cbn. f_equal. f_equal. field. assumption.
  Qed.

  (* ---- numbers ------------------------------------------------------------------------------ *)
  Lemma cn_sound ty text ch e v :
    cn_handler ty text ch = TOk (TE e) -> sem_cn ty text ch = Some v -> ev e = Some v.
  Proof.
    unfold cn_handler, sem_cn. intros Ht Hm.
    destruct (ty =? 0)%Z.
    - destruct text as [|c0 t0]; [discriminate|]. destruct ch; [|discriminate].
      unfold mathml_number in Hm. destruct (forallb number_char (strip (c0 :: t0))); [|discriminate].
      destruct (py_real (strip (c0 :: t0))) as [q|]; [|discriminate]. inv Hm. inv Ht. reflexivity.
    - destruct (ty =? 1)%Z; [|discriminate].
      destruct text as [|c0 t0]; [discriminate|].
      destruct ch as [|[stag sty stext stail sch] [|]]; try discriminate.
      destruct stail as [|c1 t1]; [discriminate|]. destruct sch; [|discriminate].
      unfold sep_name in Hm. unfold sep_tag in Ht. destruct (name_eqb stag _); [|discriminate].
      unfold mathml_real, mathml_int in Hm.
      destruct (forallb real_char (strip (c0 :: t0))); [|discriminate].
      destruct (signed_number (strip (c0 :: t0))) as [[[v0 k] [|]]|]; try discriminate.
      destruct (forallb int_char (strip (c1 :: t1))); [|discriminate].
      destruct (py_int (c1 :: t1)) as [x|]; [|discriminate].
      inv Hm. inv Ht. reflexivity.
  Qed.

  (* ---- trees -------------------------------------------------------------------------------- *)
  Definition Snd (t : mtree) : Prop :=
    forall e v, tr t = TOk (TE e) -> ms t = Some v -> ev e = Some v.
  Definition Deep (t : mtree) : Prop := Snd t /\ Forall Snd (mchildren t).

  Lemma tr_eq tag ty text tail ch :
    tr (MElem tag ty text tail ch) =
    match tag_kind tag with
    | None => TErr EValue
    | Some h => if leaf_violation tag ch then TErr EValue else handle h ty text ch (trs ch)
    end.
  Proof. reflexivity. Qed.

  Lemma trs_cons x r : trs (x :: r) = match tr x with
                                      | TOk v => match trs r with TOk vs => TOk (v :: vs) | TErr e => TErr e end
                                      | TErr e => TErr e end.
  Proof. reflexivity. Qed.

  Lemma ms_eq tag ty text tail ch :
    ms (MElem tag ty text tail ch) = msem_body fsem csem vsem dsem ms tag ty text ch.
  Proof. reflexivity. Qed.

  Lemma mss_cons x r : mss (x :: r) = match ms x, mss r with Some v, Some vs => Some (v :: vs) | _, _ => None end.
  Proof. reflexivity. Qed.

  Lemma is_role_eq tag r : is_role tag r = true -> role tag = Some r.
  Proof. unfold is_role. destruct (role tag) as [[]|]; destruct r; try discriminate; reflexivity. Qed.

  (* an element with a role: what its handler does *)
  Lemma tr_role tag ty text tail ch r h :
    role tag = Some r -> expected r = Some h ->
    tr (MElem tag ty text tail ch) = if leaf_violation tag ch then TErr EValue else handle h ty text ch (trs ch).
  Proof. intros Hr He. rewrite tr_eq, (role_kind _ _ Hr), He. reflexivity. Qed.

  Lemma args_sound : forall args vargs es vs,
    Forall Snd args -> trs args = TOk vargs -> exprs vargs = Some es -> mss args = Some vs -> evs es = Some vs.
  Proof.
    induction args as [|x args IH]; intros vargs es vs HF Ht He Hm.
    - cbn in Ht. inv Ht. cbn in He. inv He. cbn in Hm. inv Hm. reflexivity.
    - inversion HF as [|? ? Hx HF']; subst.
      rewrite trs_cons in Ht. destruct (tr x) as [vx|] eqn:Ex; [|discriminate].
      destruct (trs args) as [vr|] eqn:Er; [|discriminate]. inv Ht.
      cbn [exprs] in He. destruct vx as [ex| | | | |]; try discriminate.
      destruct (exprs vr) as [er|] eqn:Ee; [|discriminate]. inv He.
      rewrite mss_cons in Hm. destruct (ms x) as [v0|] eqn:Em; [|discriminate].
      destruct (mss args) as [vs0|] eqn:Ems; [|discriminate]. inv Hm.
      rewrite evs_cons, (Hx _ _ Ex Em), (IH _ _ _ HF' eq_refl Ee eq_refl). reflexivity.
  Qed.

  Lemma call_kind_expr k args e :
    kind_of k <> KDiff -> call_kind (kind_of k) args = TOk (TE e) ->
    exists es, exprs args = Some es /\ call_expr (kind_of k) es = TOk (TE e).
  Proof.
    intros Hk Hc. unfold call_kind in Hc.
    destruct (kind_of k) eqn:Ek; try congruence;
      (destruct (exprs args) as [es|]; [eauto|]);
      try discriminate;
      destruct args as [|? [|? [|]]]; try discriminate; destruct (is_ineq r); discriminate.
  Qed.

  (* one expression operand *)
  Lemma operand_real x vx ex rx :
    Snd x -> tr x = TOk vx -> exprs [vx] = Some [ex] -> ms x = Some (VR rx) -> ev ex = Some (VR rx).
  Proof.
    intros Hx Ht He Hm. cbn in He. destruct vx; try discriminate. inv He. exact (Hx _ _ Ht Hm).
  Qed.

  Lemma pw_sound : forall ch vs ps v,
    Forall Deep ch -> trs ch = TOk vs -> pieces vs = Some ps -> mpws ch = Some v -> evpw ps = Some v.
  Proof.
    induction ch as [|[ptag pty ptext ptail pch] r IH]; intros vs ps v HF Ht Hp Hm; [discriminate|].
    inversion HF as [|? ? [_ Hkids] HF']; subst. cbn [mchildren] in Hkids.
    rewrite trs_cons in Ht. destruct (tr (MElem ptag pty ptext ptail pch)) as [v1|] eqn:E1; [|discriminate].
    destruct (trs r) as [vr|] eqn:Er; [|discriminate]. inv Ht.
    change (mpws (MElem ptag pty ptext ptail pch :: r)) with
      (if is_role ptag RPiece then
         match pch with
         | [x; c] => match ms c with Some (VB true) => ms x | Some (VB false) => mpws r | _ => None end
         | _ => None end
       else if is_role ptag ROtherwise then match pch, r with [x], [] => ms x | _, _ => None end else None) in Hm.
    destruct (is_role ptag RPiece) eqn:Rp.
    - apply is_role_eq in Rp. destruct pch as [|x [|c [|]]]; try discriminate.
      rewrite (tr_role _ _ _ _ _ _ HPiece Rp eq_refl) in E1. destruct (leaf_violation _ _); [discriminate|]. cbn [handle] in E1.
      rewrite !trs_cons in E1. destruct (tr x) as [vx|] eqn:Ex; [|discriminate].
      destruct (tr c) as [vc|] eqn:Ec; [|discriminate]. cbn in E1. inv E1.
      inversion Hkids as [|? ? Hx Hk2]; subst. inversion Hk2 as [|? ? Hc _]; subst.
      cbn [pieces] in Hp. destruct vx as [e1| | | | |]; try discriminate. destruct vc as [c1| | | | |]; try discriminate.
      destruct (cond_ok c1 && negb (has_partial_pw c1)); [|discriminate].
      destruct (ms c) as [[|[|]]|] eqn:Emc; try discriminate.
      + (* condition true *)
        pose proof (Hc _ _ Ec Emc) as Evc.
        assert (Hps : exists rest, ps = (e1, c1) :: rest).
        { destruct c1; try (destruct (pieces vr); [|discriminate]); inv Hp; eauto. }
        destruct Hps as [rest ->]. cbn [evalpw]. rewrite Evc. exact (Hx _ _ Ex Hm).
      + (* condition false *)
        pose proof (Hc _ _ Ec Emc) as Evc.
        destruct c1; try (destruct (pieces vr) as [ps'|] eqn:Ep; [|discriminate]; inv Hp; cbn [evalpw]; rewrite Evc;
                          exact (IH _ _ _ HF' eq_refl Ep Hm)).
        cbn in Evc. discriminate.
    - destruct (is_role ptag ROtherwise) eqn:Ro; [|discriminate]. apply is_role_eq in Ro.
      destruct pch as [|x [|]]; try discriminate. destruct r; [|discriminate].
      rewrite (tr_role _ _ _ _ _ _ HOtherwise Ro eq_refl) in E1. destruct (leaf_violation _ _); [discriminate|]. cbn [handle] in E1.
      rewrite !trs_cons in E1. destruct (tr x) as [vx|] eqn:Ex; [|discriminate]. cbn in E1. inv E1.
      inversion Hkids as [|? ? Hx _]; subst.
      cbn [pieces] in Hp. destruct vx as [e1| | | | |]; try discriminate. cbn in Hp. inv Hp.
      cbn [evalpw eval]. exact (Hx _ _ Ex Hm).
  Qed.

  Lemma kind_not_diff k : k <> SDiff -> kind_of k <> KDiff.
  Proof.
    destruct k; cbn; try congruence; try discriminate.
    destruct (w =? 0)%Z; discriminate.
  Qed.

  Lemma step tag ty text tail ch : Forall Deep ch -> Snd (MElem tag ty text tail ch).
  Proof.
    intros HF e v Ht Hm. rewrite ms_eq in Hm. unfold msem_body in Hm.
    destruct (role tag) as [r|] eqn:Er; [|discriminate].
    destruct r; try discriminate.
    - (* ci *)
      rewrite (tr_role _ _ _ _ _ _ HCi Er eq_refl) in Ht. destruct (leaf_violation _ _); [discriminate|]. cbn [handle] in Ht.
      unfold ci_handler in Ht. unfold sem_ci in Hm. destruct text; [discriminate|]. inv Ht. exact Hm.
    - (* cn *)
      rewrite (tr_role _ _ _ _ _ _ HCn Er eq_refl) in Ht. destruct (leaf_violation _ _); [discriminate|]. cbn [handle] in Ht. exact (cn_sound _ _ _ _ _ Ht Hm).
    - (* apply *)
      rewrite (tr_role _ _ _ _ _ _ HApply Er eq_refl) in Ht. destruct (leaf_violation _ _); [discriminate|]. cbn [handle] in Ht.
      destruct ch as [|[otag oty otext otail och] args]; [discriminate|]. cbn [mtag] in Hm.
      assert (Hone : (forall k, role otag <> Some (ROp k)) -> args = [] ->
                     ms (MElem otag oty otext otail och) = Some v -> ev e = Some v).
      { intros _ -> Hm1. inversion HF as [|? ? [H1 _] _]; subst.
        rewrite trs_cons in Ht. destruct (tr (MElem otag oty otext otail och)) as [w|] eqn:E1; [|discriminate].
        cbn [trs trs_of container apply_handler] in Ht. destruct w; cbn [is_basic] in Ht; try discriminate. inv Ht.
        exact (H1 _ _ E1 Hm1). }
      destruct (role otag) as [[| | | | | | | | | |k| |]|] eqn:Eo;
        try (destruct args; [|discriminate]; apply Hone; [intros k0; discriminate|reflexivity|exact Hm]).
      clear Hone.
      inversion HF as [|? ? _ HFa]; subst.
      rewrite trs_cons, (tr_role _ _ _ _ _ _ (HOp (kind_of k)) Eo eq_refl) in Ht.
      destruct (leaf_violation _ _); [discriminate|]. cbn [handle] in Ht.
      destruct (trs args) as [vargs|] eqn:Ea; [|discriminate]. cbn [container apply_handler] in Ht.
      destruct vargs as [|v1 vargs']; [discriminate|].
      assert (Hgen : k <> SRoot -> k <> SLog -> k <> SDiff ->
                     match mss args with Some vs => sem_op fsem k vs | None => None end = Some v -> ev e = Some v).
      { intros N1 N2 N3 Hm'. destruct (mss args) as [vs|] eqn:Ems; [|discriminate].
        destruct (call_kind_expr _ _ _ (kind_not_diff _ N3) Ht) as [es [Hes Hce]].
        apply (call_sound k es e vs v Hce); [|exact Hm'].
        apply (args_sound args _ _ _ (Forall_impl _ (fun a (H : Deep a) => proj1 H) HFa) Ea Hes Ems). }
      destruct k; try (apply Hgen; [discriminate|discriminate|discriminate|exact Hm]); clear Hgen; cbn [sem_apply] in Hm.
      + (* root *)
        cbn [kind_of call_kind] in Ht.
        destruct args as [|a1 [|a2 [|]]]; try discriminate.
        * (* default degree 2 *)
          inversion HFa as [|? ? [H1 _] _]; subst.
          rewrite trs_cons in Ea. destruct (tr a1) as [w1|] eqn:E1; [|discriminate]. cbn in Ea. inv Ea.
          destruct v1 as [ex| | | | |]; try discriminate. cbn in Ht. inv Ht.
          destruct (ms a1) as [[rx|]|] eqn:Em1; try discriminate.
          apply (root_sound ex (e_int 2) rx 2); [exact (H1 _ _ E1 Em1)|apply ev_int|exact Hm].
        * destruct a1 as [qtag qty qtext qtail [|d [|]]]; try discriminate.
          destruct (is_role qtag RDegree) eqn:Rq; [|discriminate]. apply is_role_eq in Rq.
          inversion HFa as [|? ? [_ Hq] HFa2]; subst. inversion HFa2 as [|? ? [H2 _] _]; subst.
          cbn [mchildren] in Hq. inversion Hq as [|? ? Hd _]; subst.
          rewrite trs_cons, (tr_role _ _ _ _ _ _ HDegree Rq eq_refl) in Ea. destruct (leaf_violation _ _); [discriminate|]. cbn [handle] in Ea.
          rewrite trs_cons in Ea. destruct (tr d) as [wd|] eqn:Ed; [|discriminate]. cbn [trs trs_of container] in Ea.
          try rewrite trs_cons in Ea. destruct (tr a2) as [w2|] eqn:E2; [|discriminate]. cbn in Ea. inv Ea.
          destruct v1 as [ed| | | | |]; try discriminate. destruct w2 as [ex| | | | |]; try discriminate.
          cbn in Ht. inv Ht.
          destruct (ms a2) as [[rx|]|] eqn:Em2; try discriminate.
          destruct (ms d) as [[rd|]|] eqn:Emd; try discriminate.
          apply (root_sound ex ed rx rd); [exact (H2 _ _ E2 Em2)|exact (Hd _ _ Ed Emd)|exact Hm].
      + (* log *)
        cbn [kind_of call_kind] in Ht.
        destruct args as [|a1 [|a2 [|]]]; try discriminate.
        * inversion HFa as [|? ? [H1 _] _]; subst.
          rewrite trs_cons in Ea. destruct (tr a1) as [w1|] eqn:E1; [|discriminate]. cbn in Ea. inv Ea.
          destruct v1 as [ex| | | | |]; try discriminate. cbn in Ht. inv Ht.
          destruct (ms a1) as [[rx|]|] eqn:Em1; try discriminate.
          apply (log_sound ex (e_int 10) rx 10); [exact (H1 _ _ E1 Em1)|apply ev_int|exact Hm].
        * destruct a1 as [qtag qty qtext qtail [|d [|]]]; try discriminate.
          destruct (is_role qtag RLogbase) eqn:Rq; [|discriminate]. apply is_role_eq in Rq.
          inversion HFa as [|? ? [_ Hq] HFa2]; subst. inversion HFa2 as [|? ? [H2 _] _]; subst.
          cbn [mchildren] in Hq. inversion Hq as [|? ? Hd _]; subst.
          rewrite trs_cons, (tr_role _ _ _ _ _ _ HLogbase Rq eq_refl) in Ea. destruct (leaf_violation _ _); [discriminate|]. cbn [handle] in Ea.
          rewrite trs_cons in Ea. destruct (tr d) as [wd|] eqn:Ed; [|discriminate]. cbn [trs trs_of container] in Ea.
          try rewrite trs_cons in Ea. destruct (tr a2) as [w2|] eqn:E2; [|discriminate]. cbn in Ea. inv Ea.
          destruct v1 as [eb| | | | |]; try discriminate. destruct w2 as [ex| | | | |]; try discriminate.
          cbn in Ht. inv Ht.
          destruct (ms a2) as [[rx|]|] eqn:Em2; try discriminate.
          destruct (ms d) as [[rb|]|] eqn:Emd; try discriminate.
          apply (log_sound ex eb rx rb); [exact (H2 _ _ E2 Em2)|exact (Hd _ _ Ed Emd)|exact Hm].
      + (* diff *)
        destruct args as [|[btag bty btext btail [|[ttag tty [|tc ttext] ttail tch] [|]]] [|[ytag yty [|yc ytext] ytail ych] [|]]];
          try discriminate.
        destruct (is_role btag RBvar) eqn:Rb; [|discriminate]. apply is_role_eq in Rb.
        destruct (is_role ttag RCi) eqn:Rt; [|discriminate]. apply is_role_eq in Rt.
        destruct (is_role ytag RCi) eqn:Ry; [|discriminate]. apply is_role_eq in Ry.
        cbn [andb] in Hm.
        cbn [trs trs_of] in Ea.
        rewrite (tr_role _ _ _ _ _ _ HBvar Rb eq_refl) in Ea. destruct (leaf_violation btag _); [discriminate|].
        cbn [handle trs trs_of] in Ea. rewrite (tr_role _ _ _ _ _ _ HCi Rt eq_refl) in Ea.
        destruct (leaf_violation ttag _); [discriminate|]. cbn [handle ci_handler container] in Ea.
        rewrite (tr_role _ _ _ _ _ _ HCi Ry eq_refl) in Ea. destruct (leaf_violation ytag _); [discriminate|].
        cbn [handle ci_handler] in Ea. inv Ea.
        cbn in Ht. inv Ht. cbn [eval]. exact Hm.
    - (* piecewise *)
      rewrite (tr_role _ _ _ _ _ _ HPiecewise Er eq_refl) in Ht. destruct (leaf_violation _ _); [discriminate|]. cbn [handle] in Ht.
      destruct (trs ch) as [vs|] eqn:Ec; [|discriminate]. cbn [container] in Ht.
      destruct vs as [|v0 vs']; [discriminate|]. destruct (pieces (v0 :: vs')) as [ps|] eqn:Ep; [|discriminate].
      cbn [ok_e] in Ht. inv Ht. rewrite eval_pw. exact (pw_sound _ _ _ _ HF Ec Ep Hm).
    - (* pi, e, infinity, notanumber *)
      rewrite (tr_role _ _ _ _ _ _ (HVal c) Er eq_refl) in Ht. destruct (leaf_violation _ _); [discriminate|]. cbn [handle] in Ht. inv Ht. exact Hm.
    - (* true, false *)
      rewrite (tr_role _ _ _ _ _ _ (HValB b) Er eq_refl) in Ht. destruct (leaf_violation _ _); [discriminate|]. cbn [handle] in Ht. inv Ht. inv Hm. destruct b; reflexivity.
  Qed.

  Section MInd.
    Variable P : mtree -> Prop.
    Hypothesis H : forall tag ty text tail ch, Forall P ch -> P (MElem tag ty text tail ch).
    Fixpoint mtree_ind' (t : mtree) : P t :=
      match t with
      | MElem tag ty text tail ch =>
          H tag ty text tail ch
            ((fix go (l : list mtree) : Forall P l :=
                match l with
                | [] => Forall_nil P
                | x :: r => Forall_cons x (mtree_ind' x) (go r)
                end) ch)
      end.
  End MInd.

  Lemma deep_all t : Deep t.
  Proof.
    induction t as [tag ty text tail ch IH] using mtree_ind'. split.
    - apply step. exact IH.
    - cbn [mchildren]. exact (Forall_impl _ (fun a (H : Deep a) => proj1 H) IH).
  Qed.

  (* C02_transpile_sound *)
  Theorem transpile_sound t e :
    tr t = TOk (TE e) -> forall v, ms t = Some v -> ev e = Some v.
  Proof. intros Ht v Hm. exact (proj1 (deep_all t) e v Ht Hm). Qed.

  (* C02_relation_chain: an n-ary eq / lt / leq / gt / geq is the conjunction of the n-1 adjacent relations *)
  Theorem relation_chain tag ty text tail otag oty otext otail och args r a rest e b :
    role tag = Some RApply -> role otag = Some (ROp (SRelN r)) ->
    mss args = Some (map VR (a :: rest)) -> rest <> [] ->
    tr (MElem tag ty text tail (MElem otag oty otext otail och :: args)) = TOk (TE e) ->
    pairwise r a rest = Some b -> ev e = Some (VB b).
  Proof.
    intros Hr Ho Hm Hne Ht Hp. apply (transpile_sound _ _ Ht).
    rewrite ms_eq. unfold msem_body. rewrite Hr. cbn [mtag]. rewrite Ho. cbn [sem_apply].
    change (msems_of ms args) with (mss args). rewrite Hm.
    cbn [sem_op]. rewrite reals_map. destruct rest; [congruence|]. rewrite Hp. reflexivity.
  Qed.
End Sound.

(* ---- error clause ----------------------------------------------------------------------------- *)
Open Scope Z_scope.

Definition is_container (r : srole) : bool :=
  match r with
  | RApply | RPiecewise | RPiece | ROtherwise | RDegree | RLogbase | RBvar | RMath => true
  | _ => false
  end.

Lemma tr_unfold tag ty text tail ch :
  tr (MElem tag ty text tail ch) =
  match tag_kind tag with
  | None => TErr EValue
  | Some h => if leaf_violation tag ch then TErr EValue else handle h ty text ch (trs ch)
  end.
Proof. reflexivity. Qed.

Lemma trs_unfold x r :
  trs (x :: r) = match tr x with
                 | TOk v => match trs r with TOk vs => TOk (v :: vs) | TErr e => TErr e end
                 | TErr e => TErr e end.
Proof. reflexivity. Qed.

Lemma trs_err c ch : In c ch -> (exists e, tr c = TErr e) -> exists e, trs ch = TErr e.
Proof.
  induction ch as [|x r IH]; intros Hin [e He]; [contradiction|]. rewrite trs_unfold.
  destruct Hin as [->|Hin].
  - rewrite He. eauto.
  - destruct (tr x); [|eauto]. destruct (IH Hin (ex_intro _ e He)) as [e' ->]. eauto.
Qed.

Lemma trs_length : forall l vs, trs l = TOk vs -> length vs = length l.
Proof.
  induction l as [|x r IH]; intros vs H.
  - cbn in H. injection H as <-. reflexivity.
  - rewrite trs_unfold in H.
    destruct (tr x); [|discriminate]. destruct (trs r) eqn:E; [|discriminate]. injection H as <-.
    cbn. f_equal. apply IH. reflexivity.
Qed.

Lemma exprs_length : forall l es, exprs l = Some es -> length es = length l.
Proof.
  induction l as [|x r IH]; intros es H.
  - cbn in H. injection H as <-. reflexivity.
  - cbn in H. destruct x; try discriminate. destruct (exprs r) eqn:E; [|discriminate]. injection H as <-.
    cbn. f_equal. apply IH. reflexivity.
Qed.

Lemma may_children_no_violation tag r ch : role tag = Some r -> may_have_children r = true -> leaf_violation tag ch = false.
Proof.
  intros Hr Hc. unfold leaf_violation. rewrite containers_match_spec. unfold spec_container. rewrite Hr, Hc. reflexivity.
Qed.

Lemma tr_container tag ty text tail ch r h :
  role tag = Some r -> is_container r = true -> expected r = Some h ->
  tr (MElem tag ty text tail ch) = match trs ch with TErr e => TErr e | TOk vs => container h vs end.
Proof.
  intros Hr Hc He. rewrite tr_unfold, (role_kind _ _ Hr), He, (may_children_no_violation _ r) by
    (try exact Hr; destruct r; try discriminate; reflexivity).
  destruct r; try discriminate; injection He as <-; reflexivity.
Qed.

(* an element the specification does not know is refused, wherever a container element meets it *)
Lemma rejects_unknown tag ty text tail ch : role tag = None -> tr (MElem tag ty text tail ch) = TErr EValue.
Proof. intro H. rewrite tr_unfold, (role_none _ H). reflexivity. Qed.

Lemma rejects_unknown_child tag ty text tail ch r c :
  role tag = Some r -> is_container r = true -> In c ch -> role (mtag c) = None ->
  exists e, tr (MElem tag ty text tail ch) = TErr e.
Proof.
  intros Hr Hc Hin Hu.
  assert (He : exists h, expected r = Some h) by (destruct r; try discriminate; cbn; eauto).
  destruct He as [h He]. rewrite (tr_container _ _ _ _ _ _ _ Hr Hc He).
  destruct c as [ctag cty ctext ctail cch]. cbn [mtag] in Hu.
  destruct (trs_err _ _ Hin (ex_intro _ EValue (rejects_unknown ctag cty ctext ctail cch Hu))) as [e ->]. eauto.
Qed.

(* how many children the structural elements may have *)
Definition count_ok (r : srole) (n : nat) : bool :=
  match r with
  | RPiece => Nat.eqb n 2
  | ROtherwise | RDegree => Nat.eqb n 1
  | RBvar => Nat.eqb n 1 || Nat.eqb n 2
  | RLogbase | RApply | RPiecewise => negb (Nat.eqb n 0)
  | _ => true
  end.

Lemma rejects_count tag ty text tail ch r :
  role tag = Some r -> count_ok r (length ch) = false -> exists e, tr (MElem tag ty text tail ch) = TErr e.
Proof.
  intros Hr Hn.
  assert (Hc : is_container r = true) by (destruct r; try discriminate; reflexivity).
  assert (He : exists h, expected r = Some h) by (destruct r; try discriminate; cbn; eauto).
  destruct He as [h He]. rewrite (tr_container _ _ _ _ _ _ _ Hr Hc He).
  destruct (trs ch) as [vs|] eqn:E; [|eauto]. apply trs_length in E. rewrite <- E in Hn.
  destruct r; try discriminate; injection He as <-; cbn [container count_ok] in *;
    destruct vs as [|? [|? [|? ?]]]; try discriminate; cbn; eauto.
Qed.

(* token, operator and constant elements with child elements are refused (repaired: ignored-children) *)
Lemma rejects_leaf_children tag ty text tail ch r :
  role tag = Some r -> may_have_children r = false -> ch <> [] -> tr (MElem tag ty text tail ch) = TErr EValue.
Proof.
  intros Hr Hc Hne. rewrite tr_unfold, (role_kind _ _ Hr).
  assert (Hv : leaf_violation tag ch = true).
  { unfold leaf_violation. rewrite containers_match_spec. unfold spec_container. rewrite Hr, Hc.
    destruct ch; [congruence|reflexivity]. }
  rewrite Hv. destruct (expected r); reflexivity.
Qed.

Lemma rejects_cn_children tag text tail ch :
  role tag = Some RCn -> ch <> [] -> tr (MElem tag 0 text tail ch) = TErr EValue.
Proof.
  intros Hr Hne. rewrite tr_unfold, (role_kind _ _ Hr), (may_children_no_violation _ RCn) by (try exact Hr; reflexivity).
  cbn [expected handle]. unfold cn_handler. cbn. destruct ch; [congruence|reflexivity].
Qed.

Lemma rejects_cn_type tag text tail ch ty :
  role tag = Some RCn -> ty <> 0 -> ty <> 1 -> tr (MElem tag ty text tail ch) = TErr EValue.
Proof.
  intros Hr H0 H1. rewrite tr_unfold, (role_kind _ _ Hr), (may_children_no_violation _ RCn) by (try exact Hr; reflexivity).
  cbn [expected handle]. unfold cn_handler.
  destruct (ty =? 0) eqn:E0; [lia|]. destruct (ty =? 1) eqn:E1; [lia|]. reflexivity.
Qed.

(* operand counts of the operators (a qualifier counts as an operand) *)
Definition arity_ok (k : skind) (n : nat) : bool :=
  match k with
  | SNaryR _ | SMaxMin _ | SNaryB _ => Nat.leb 1 n
  | SNot | SUnary _ => Nat.eqb n 1
  | SMinus | SRoot | SLog => Nat.eqb n 1 || Nat.eqb n 2
  | SDivide | SPower | SRem | SRel2 _ | SDiff => Nat.eqb n 2
  | SRelN _ => Nat.leb 2 n
  end.

(* the one operand count the code still accepts although MathML does not: a third operand of diff lands in the
   "evaluate" parameter (known finding qualifier-misuse) *)
Definition arity_hole (k : skind) (n : nat) : bool :=
  match k with SDiff => Nat.eqb n 3 | _ => false end.

Lemma rejects_arity tag ty text tail otag oty otext otail och args k :
  role tag = Some RApply -> role otag = Some (ROp k) ->
  arity_ok k (length args) = false -> arity_hole k (length args) = false ->
  exists e, tr (MElem tag ty text tail (MElem otag oty otext otail och :: args)) = TErr e.
Proof.
  intros Hr Ho Ha Hh.
  rewrite (tr_container _ _ _ _ _ _ HApply Hr eq_refl eq_refl).
  rewrite trs_unfold, tr_unfold, (role_kind _ _ Ho). cbn [expected].
  destruct (leaf_violation otag och); [eauto|]. cbn [handle].
  destruct (trs args) as [vargs|] eqn:Ea; [|eauto]. apply trs_length in Ea.
  cbn [container apply_handler]. rewrite <- Ea in Ha, Hh. clear Ea.
  destruct vargs as [|v1 vargs']; [cbn; eauto|].
  destruct k; cbn [arity_ok arity_hole] in Ha, Hh; try (cbn in Ha; discriminate);
    remember (v1 :: vargs') as vs eqn:Evs; clear Evs; unfold call_kind; cbn [kind_of];
    try (destruct vs as [|? [|? [|? [|? ?]]]]; try discriminate; cbn; eauto; fail).
  - (* not *)
    destruct (exprs vs) as [es|] eqn:Ee; [|eauto]. apply exprs_length in Ee. rewrite <- Ee in Ha.
    destruct es as [|? [|? ?]]; try discriminate; cbn; eauto.
  - (* minus *)
    destruct (exprs vs) as [es|] eqn:Ee; [|eauto]. apply exprs_length in Ee. rewrite <- Ee in Ha.
    destruct es as [|? [|? [|? ?]]]; try discriminate; cbn; eauto.
  - destruct (exprs vs) as [es|] eqn:Ee; [|eauto]. apply exprs_length in Ee. rewrite <- Ee in Ha.
    destruct es as [|? [|? [|? ?]]]; try discriminate; cbn; eauto.
  - destruct (exprs vs) as [es|] eqn:Ee; [|eauto]. apply exprs_length in Ee. rewrite <- Ee in Ha.
    destruct es as [|? [|? [|? ?]]]; try discriminate; cbn; eauto.
  - destruct (exprs vs) as [es|] eqn:Ee; [|eauto]. apply exprs_length in Ee. rewrite <- Ee in Ha.
    destruct es as [|? [|? [|? ?]]]; try discriminate; cbn; eauto.
  - (* root *)
    destruct (exprs vs) as [es|] eqn:Ee; [|eauto]. apply exprs_length in Ee. rewrite <- Ee in Ha.
    destruct es as [|? [|? [|? ?]]]; try discriminate; cbn; eauto.
  - destruct (exprs vs) as [es|] eqn:Ee; [|eauto]. apply exprs_length in Ee. rewrite <- Ee in Ha.
    destruct es as [|? [|? [|? ?]]]; try discriminate; cbn; eauto.
  - (* unary, ln included *)
    destruct (exprs vs) as [es|] eqn:Ee; [|eauto]. apply exprs_length in Ee. rewrite <- Ee in Ha.
    destruct es as [|? [|? ?]]; try discriminate; cbn; eauto.
  - (* n-ary relations *)
    destruct (exprs vs) as [es|] eqn:Ee.
    + apply exprs_length in Ee. rewrite <- Ee in Ha. destruct es as [|? [|? ?]]; try discriminate; cbn; eauto.
    + destruct vs as [|? [|? [|? ?]]]; try discriminate; eauto.
  - (* neq *)
    destruct (exprs vs) as [es|] eqn:Ee.
    + apply exprs_length in Ee. rewrite <- Ee in Ha. destruct es as [|? [|? [|? ?]]]; try discriminate; cbn; eauto.
    + destruct vs as [|? [|? [|? ?]]]; try discriminate; eauto.
Qed.

(* repaired: operator-only-apply.  An operator without operands is refused ... *)
Lemma rejects_operator_only tag ty text tail otag oty otext otail och k :
  role tag = Some RApply -> role otag = Some (ROp k) ->
  exists e, tr (MElem tag ty text tail [MElem otag oty otext otail och]) = TErr e.
Proof. intros Hr Ho. apply (rejects_arity _ _ _ _ _ _ _ _ _ [] k Hr Ho); destruct k; reflexivity. Qed.

(* ... and parse_tree returns SymPy objects only: no class, closure, list or tuple *)
Lemma parse_one_basic t v : parse_one t = TOk v -> is_basic v = true.
Proof. unfold parse_one. destruct (tr t) as [w|]; [|discriminate]. destruct (is_basic w) eqn:E; congruence. Qed.

Lemma rejects_toplevel_operator tag ty text tail ch k :
  role tag = Some (ROp k) -> exists e, parse_one (MElem tag ty text tail ch) = TErr e.
Proof.
  intro Hr. unfold parse_one. rewrite tr_unfold, (role_kind _ _ Hr). cbn [expected].
  destruct (leaf_violation tag ch); cbn; eauto.
Qed.

(* repaired: diff-degree-not-positive-integer *)
Lemma rejects_diff_degree bv de y :
  (forall n, int_of_expr de = Some n -> is_whole de n = false \/ n < 1) ->
  exists e, diff_call (TList [TE bv; TE de]) y = TErr e.
Proof.
  intro H. unfold diff_call. destruct (tv_is_boollit _ || tv_is_boollit y); [eauto|].
  destruct y; eauto. destruct (int_of_expr de) as [n|] eqn:E; [|eauto].
  destruct (H n eq_refl) as [Hw|Hn].
  - rewrite Hw. cbn. eauto.
  - assert (n <? 1 = true) as -> by lia. rewrite orb_true_r. eauto.
Qed.

(* repaired: cn-python-only-spelling.  A number is accepted only if it is written in the alphabet [0-9.+-eE]:
   no underscore, no letters (nan, inf), no other digits *)
Open Scope list_scope.
Lemma forallb_weaken {X} (p q : X -> bool) l : (forall x, p x = true -> q x = true) -> forallb p l = true -> forallb q l = true.
Proof. intros H. induction l; simpl; [auto|]. rewrite !andb_true_iff. intros [H1 H2]. auto. Qed.

Lemma digits_rest_prefix : forall s acc n a m rest,
  digits_rest acc n s = (a, m, rest) -> exists pre, s = pre ++ rest /\ forallb is_digit pre = true.
Proof.
  induction s as [|c r IH]; intros acc n a m rest H; cbn [digits_rest] in H.
  - injection H as _ _ <-. exists []. split; reflexivity.
  - destruct (is_digit c) eqn:E.
    + destruct (IH _ _ _ _ _ H) as [pre [-> Hp]]. exists (c :: pre). split; [reflexivity|]. simpl. rewrite E, Hp. reflexivity.
    + injection H as _ _ <-. exists []. split; reflexivity.
Qed.

Lemma digitpart_prefix s acc a m rest :
  digitpart acc s = Some (a, m, rest) -> exists pre, s = pre ++ rest /\ forallb is_digit pre = true.
Proof.
  unfold digitpart. destruct s as [|c r]; [discriminate|]. destruct (is_digit c) eqn:E; [|discriminate].
  intro H. injection H as H. destruct (digits_rest_prefix _ _ _ _ _ _ H) as [pre [-> Hp]].
  exists (c :: pre). split; [reflexivity|]. simpl. rewrite E, Hp. reflexivity.
Qed.

Definition dec_char (c : Z) : bool := is_digit c || (c =? 46).

Lemma number_prefix s v k rest :
  number s = Some (v, k, rest) -> exists pre, s = pre ++ rest /\ forallb dec_char pre = true.
Proof.
  assert (W : forall l, forallb is_digit l = true -> forallb dec_char l = true).
  { intro l. apply forallb_weaken. intros x Hx. unfold dec_char. rewrite Hx. reflexivity. }
  unfold number. destruct (digitpart 0 s) as [[[ip n0] r0]|] eqn:E.
  - destruct (digitpart_prefix _ _ _ _ _ E) as [p1 [-> H1]].
    destruct r0 as [|c r1].
    + intro H. injection H as <- <- <-. exists p1. split; [reflexivity|auto].
    + destruct (c =? 46) eqn:Ec.
      * apply Z.eqb_eq in Ec. subst c.
        destruct (digitpart ip r1) as [[[v2 k2] r2]|] eqn:E2.
        -- intro H. injection H as <- <- <-. destruct (digitpart_prefix _ _ _ _ _ E2) as [p2 [-> H2]].
           exists (p1 ++ 46 :: p2). split; [rewrite <- app_assoc; reflexivity|].
           rewrite forallb_app. simpl. rewrite (W _ H1), (W _ H2). reflexivity.
        -- intro H. injection H as <- <- <-. exists (p1 ++ [46]). split; [rewrite <- app_assoc; reflexivity|].
           rewrite forallb_app. simpl. rewrite (W _ H1). reflexivity.
      * intro H. injection H as <- <- <-. exists p1. split; [reflexivity|auto].
  - destruct s as [|c r]; [discriminate|]. destruct (c =? 46) eqn:Ec; [|discriminate].
    apply Z.eqb_eq in Ec. subst c. intro H. destruct (digitpart_prefix _ _ _ _ _ H) as [p2 [-> H2]].
    exists (46 :: p2). split; [reflexivity|]. simpl. rewrite (W _ H2). reflexivity.
Qed.

Lemma split_sign_chars s : exists pre, s = pre ++ snd (split_sign s) /\ forallb real_char pre = true.
Proof.
  unfold split_sign. destruct s as [|c r]; [exists []; split; reflexivity|].
  destruct (c =? 43) eqn:E1; [|destruct (c =? 45) eqn:E2].
  - exists [c]. split; [reflexivity|]. simpl. unfold real_char. rewrite E1. rewrite !orb_true_r. reflexivity.
  - exists [c]. split; [reflexivity|]. simpl. unfold real_char. rewrite E2. rewrite !orb_true_r. reflexivity.
  - exists []. split; reflexivity.
Qed.

Lemma signed_number_prefix s v k rest :
  signed_number s = Some (v, k, rest) -> exists pre, s = pre ++ rest /\ forallb real_char pre = true.
Proof.
  unfold signed_number. destruct (number (snd (split_sign s))) as [[[v0 k0] r0]|] eqn:E; [|discriminate].
  intro H. injection H as _ <- <-.
  destruct (number_prefix _ _ _ _ E) as [p2 [H2 Hd]]. destruct (split_sign_chars s) as [p1 [H1 Hs]].
  exists (p1 ++ p2). split; [rewrite <- app_assoc, <- H2; exact H1|].
  rewrite forallb_app, Hs. simpl. revert Hd. apply forallb_weaken. intros x Hx. unfold real_char.
  unfold dec_char in Hx. apply orb_true_iff in Hx as [->| ->]; [reflexivity|rewrite !orb_true_r; reflexivity].
Qed.

Lemma py_real_alphabet s q : py_real s = Some q -> forallb number_char s = true.
Proof.
  assert (W : forall l, forallb real_char l = true -> forallb number_char l = true).
  { intro l. apply forallb_weaken. intros x Hx. unfold number_char. rewrite Hx. reflexivity. }
  unfold py_real. destruct (signed_number s) as [[[v k] rest]|] eqn:E; [|discriminate].
  destruct (signed_number_prefix _ _ _ _ E) as [pre [-> Hp]].
  destruct rest as [|c rest].
  - intros _. rewrite app_nil_r. auto.
  - destruct ((c =? 101) || (c =? 69)) eqn:Ec; [|discriminate].
    destruct (digitpart 0 (snd (split_sign rest))) as [[[e n0] [|]]|] eqn:Ed; try discriminate. intros _.
    destruct (digitpart_prefix _ _ _ _ _ Ed) as [p3 [H3 Hd3]]. rewrite app_nil_r in H3.
    destruct (split_sign_chars rest) as [p2 [H2 Hs2]].
    assert (Hc : number_char c = true).
    { unfold number_char. apply orb_true_iff in Ec as [->| ->]; rewrite ?orb_true_r; reflexivity. }
    rewrite forallb_app, (W _ Hp). simpl. rewrite Hc. simpl.
    rewrite H2, forallb_app, (W _ Hs2), H3. simpl. apply W. revert Hd3. apply forallb_weaken.
    intros x Hx. unfold real_char. rewrite Hx. reflexivity.
Qed.

Lemma rejects_malformed_number tag text tail :
  role tag = Some RCn -> forallb number_char (strip text) = false -> tr (MElem tag 0 text tail []) = TErr EValue.
Proof.
  intros Hr Hf. rewrite tr_unfold, (role_kind _ _ Hr), (may_children_no_violation _ RCn) by (try exact Hr; reflexivity).
  cbn [expected handle]. unfold cn_handler. cbn [Z.eqb].
  destruct (py_real (strip text)) as [q|] eqn:E; [|reflexivity].
  apply py_real_alphabet in E. congruence.
Qed.

(* ---- witnesses ---------------------------------------------------------------------------------- *)
Open Scope string_scope.
Definition el (tag : string) (ch : list mtree) : mtree := MElem (N tag) 0 [] [] ch.
Definition ci_ (s : string) : mtree := MElem (N "ci") 0 (N s) [] [].
Definition cn_ (s : string) : mtree := MElem (N "cn") 0 (N s) [] [].
Definition no_value (t : mtree) : Prop := forall fsem csem vsem dsem, msem fsem csem vsem dsem t = None.
Ltac nv := intros fs cs vs ds; vm_compute;
  repeat (match goal with |- context [vs ?a] => destruct (vs a) end);
  reflexivity.

(* still accepted although it has no MathML meaning (known finding qualifier-misuse): the handlers of the
   qualifiers return the bare content, so a misplaced qualifier is an ordinary operand *)
Lemma refuted_misplaced_degree :
  exists t, t = el "apply" [el "root" []; ci_ "x"; el "degree" [cn_ "3"]] /\
            tr t = TOk (TE (b_root (ENum 2 (inject_Z 3)) (EVar (encode (N "x"))))) /\ no_value t.
Proof. eexists. split; [reflexivity|]. split; [vm_compute; reflexivity|nv]. Qed.

Lemma refuted_foreign_qualifier :
  exists t, t = el "apply" [el "plus" []; el "degree" [cn_ "3"]; ci_ "x"] /\
            tr t = TOk (TE (EAdd [ENum 2 (inject_Z 3); EVar (encode (N "x"))])) /\ no_value t.
Proof. eexists. split; [reflexivity|]. split; [vm_compute; reflexivity|nv]. Qed.

Lemma refuted_diff_without_bvar :
  exists t, t = el "apply" [el "diff" []; ci_ "t"; ci_ "y"] /\
            tr t = TOk (TE (EDeriv (EVar (encode (N "y"))) (EVar (encode (N "t"))) 1)) /\ no_value t.
Proof. eexists. split; [reflexivity|]. split; [vm_compute; reflexivity|nv]. Qed.

Lemma refuted_logbase_two_children :
  exists t, t = el "apply" [el "log" []; el "logbase" [ci_ "b"; ci_ "c"]; ci_ "x"] /\
            tr t = TOk (TE (b_log (EVar (encode (N "x"))) (EVar (encode (N "b"))))) /\ no_value t.
Proof. eexists. split; [reflexivity|]. split; [vm_compute; reflexivity|nv]. Qed.

(* the former witnesses of the repaired findings are refused now *)
Lemma repaired_witnesses :
  tr (el "apply" [el "plus" []]) = TErr EValue /\
  parse_one (el "plus" []) = TErr EValue /\
  tr (el "apply" [el "ln" []; ci_ "x"; ci_ "y"]) = TErr EType /\
  tr (cn_ "1_0") = TErr EValue /\ tr (cn_ "nan") = TErr EValue /\ tr (cn_ "-Infinity") = TErr EValue /\
  tr (el "apply" [el "diff" []; el "bvar" [ci_ "t"; el "degree" [cn_ "2.7"]]; ci_ "y"]) = TErr EValue /\
  tr (el "apply" [el "diff" []; el "bvar" [ci_ "t"; el "degree" [cn_ "0"]]; ci_ "y"]) = TErr EValue /\
  tr (MElem (N "ci") 0 (N "y") [] [ci_ "x"]) = TErr EValue /\
  tr (el "apply" [el "plus" [el "foo" []]; ci_ "x"; ci_ "y"]) = TErr EValue.
Proof. vm_compute. repeat split. Qed.

(* the hypotheses of the soundness theorem are satisfiable: x - 2.5 at x = 8; a second derivative is still built *)
Example sound_nonvacuous :
  exists t e v, tr t = TOk (TE e) /\
    msem (fun _ _ => None) (fun _ => None) (fun _ => Some 8%R) (fun _ _ => None) t = Some v.
Proof.
  exists (el "apply" [el "minus" []; ci_ "x"; cn_ "2.5e0"]). eexists. eexists.
  split; [vm_compute; reflexivity|]. vm_compute. reflexivity.
Qed.

Example second_derivative_accepted :
  tr (el "apply" [el "diff" []; el "bvar" [ci_ "t"; el "degree" [cn_ "2"]]; ci_ "y"]) =
  TOk (TE (EDeriv (EVar (encode (N "y"))) (EVar (encode (N "t"))) 2)).
Proof. vm_compute. reflexivity. Qed.
