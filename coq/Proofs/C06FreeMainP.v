(* C06: INPUT conversion of the free variable, for convert_variable itself:
   refinement to the specification-level system (C06FoldP) + its semantic equivalence (C06FreeP). *)
From Coq Require Import List ZArith QArith Bool Lia Reals Lra Qreals Permutation.
From Verif Require Import Sexp UnitAlg Expr Eval ModelSM ConvertVar C06EvalP C06P C06ShapeP C06ReplaceP C06StateP C06MainP
     C06FreeP C06FoldP.
Import ListNotations.
Open Scope R_scope.

Section Sem.
Variable fsem : Z -> list R -> option R.
Variable psem : R -> R -> option R.
Variable csem : Z -> option R.
Hypothesis psem_inv : forall x, x <> 0 -> psem x (Q2R (-1 # 1)) = Some (/ x).

Notation Sat := (Sat fsem psem csem).

Lemma Sat_perm nu dl l l' : Permutation l l' -> (Sat nu dl l <-> Sat nu dl l').
Proof. intros H. unfold C06P.Sat. apply Permutation_Forall_iff. exact H. Qed.

(* every ODE  d y/d v = R  becomes  w = R  and  d y/d n = w / k  (w a new variable), every other mention of d y/d v
   becomes w, and v = n / k is added.  Every pre-existing variable keeps its value; n = v * k; d y/d n = (d y/d v) / k. *)
Theorem input_free_conversion s v target mv s' n :
  convert_variable s v target DInput mv = COk (s', n) -> n <> v ->
  free_var s = Some v -> is_state s v = false -> var_def s v = None -> free_ok s v = true ->
  exists k os, 0 < k /\
    Permutation (ys_of os) (ys_of (odes_of (ceqs s))) /\ ws_of os = seq (S (length (cvars s))) (length os) /\
    n = length (cvars s) /\
    forall nu dl,
    (Sat nu dl (ceqs s) ->
     Sat (upd_ws (upd nu n (nu v * k)) os (fun y => dl y v)) (updd_col dl os n (fun y => dl y v / k)) (ceqs s')) /\
    (Sat nu dl (ceqs s') ->
     Sat nu (updd_col dl os v (fun y => nu (w_of os y))) (ceqs s) /\
     nu n = nu v * k /\ Forall (fun o => dl (fst (fst o)) n = nu (snd o) / k) os).
Proof.
  intros H Hnv Hfree Hst Hvd Hok.
  destruct (convert_input_free_refines s v target mv s' n H Hnv Hfree Hst Hvd Hok)
    as [cfq [os [Hpos [Hn [P1 [P2 [Hws [Hys [Hyp Hlen]]]]]]]]].
  cbn zeta in P1, P2.
  set (plain := filter (fun q => negb (is_ode q)) (ceqs s)) in *.
  set (N := length (cvars s)) in *.
  unfold free_ok in Hok. fold N in Hok.
  apply andb_true_iff in Hok as [Hok Hfresh]. apply andb_true_iff in Hok as [_ HvN]. apply Nat.ltb_lt in HvN.
  rewrite forallb_forall in Hfresh.
  pose proof (Q2R_pos cfq Hpos) as Hk.
  exists (Q2R cfq), os. split; [exact Hk|]. split; [exact Hyp|]. split; [exact Hws|]. split; [exact Hn|].
  intros nu dl.
  assert (Hprem : forall q, In q (orig_system plain os v) -> fresh_var1 n q = true /\
            (forall w, In w (ws_of os) -> fresh_var1 w q = true) /\ (forall y, In y (ys_of os) -> fresh_atom1 y n q = true)).
  { intros q Hq. assert (Hq' : In q (ceqs s)) by (apply (Permutation_in q (Permutation_sym P1)); exact Hq).
    specialize (Hfresh q Hq'). apply andb_true_iff in Hfresh as [Hf Hfa]. apply andb_true_iff in Hf as [Hfn Hfw].
    rewrite forallb_forall in Hfw, Hfa. rewrite Hn. split; [exact Hfn|]. split.
    - intros w Hw. apply Hfw. rewrite Hws, Hlen in Hw. exact Hw.
    - intros y Hy. apply Hfa. apply (Permutation_in y Hyp). exact Hy. }
  assert (Hplain : Forall (fun q => is_ode q = false) plain).
  { rewrite Forall_forall. intros q Hq. unfold plain in Hq. apply filter_In in Hq as [_ Hq]. apply negb_true_iff in Hq. exact Hq. }
  assert (Hnw : ~ In n (ws_of os)) by (rewrite Hws, Hn; intros Hin; apply in_seq in Hin; lia).
  assert (Hvw : ~ In v (ws_of os)) by (rewrite Hws; intros Hin; apply in_seq in Hin; lia).
  assert (Hndw : NoDup (ws_of os)) by (rewrite Hws; apply seq_NoDup).
  assert (Hc : Q2R cfq <> 0) by lra.
  destruct (input_free_equiv fsem psem csem psem_inv plain os v n (cqnext s) cfq (Z.of_nat (length (cunits s))) nu dl
              Hndw Hys Hprem Hplain Hnw Hvw (not_eq_sym Hnv) Hc) as [Fw Bw].
  split.
  - intros HS. apply (Sat_perm _ _ _ _ P2). apply Fw. apply (Sat_perm _ _ _ _ P1). exact HS.
  - intros HS. apply (Sat_perm _ _ _ _ P2) in HS. destruct (Bw HS) as [A [B C]].
    split; [apply (Sat_perm _ _ _ _ P1); exact A|]. split; assumption.
Qed.

End Sem.
