(* C05 clause (b): the expression returned by convert passes strict unit inference ([infer]) with a unit
   equivalent to the returned units.

   The model writes a conversion quantity as [EQty (-d) q (-3)]: unit index -3 = "the unit to/from, not
   tabulated" (Model/UnitCalc.v).  Strict inference needs that unit, so the statement is about a DECORATION
   e'' of the output e': every conversion quantity gets a fresh index into an extension [utab G ++ D] of the
   unit table that holds its unit to/from; [erase] forgets the decoration again (erase e'' = e').  The
   result holds for every further extension Th of the table. *)
From Coq Require Import List ZArith QArith Qabs Bool Lia Reals Lra Qreals.
From Verif Require Import Sexp UnitAlg UnitAlgP Expr Eval EvalP UnitCalc UnitCalcP C04P C05P.
Import ListNotations.
Open Scope Z_scope.

(* ---- expansion respects equality of formal products ------------------------------------------------- *)
Lemma get_expand_R G a k :
  Q2R (get (expand G a) k) = wsum (fun j => Q2R (get (atom_vec G j) k)) a.
Proof.
  induction a as [|[j e] a IH]; cbn [expand wsum fst snd].
  - cbn [get]. unfold Q2R; cbn; lra.
  - rewrite (Qeq_eqR _ _ (get_app _ _ _)), Q2R_plus, (Qeq_eqR _ _ (get_upow _ _ _)), Q2R_mult, IH. lra.
Qed.

Lemma expand_ueq G a b : ueq a b -> ueq (expand G a) (expand G b).
Proof. intros H k. apply eqR_Qeq. rewrite !get_expand_R. apply wsum_ueq. exact H. Qed.

Lemma expand_app G a b : expand G (a ++ b) = expand G a ++ expand G b.
Proof. induction a as [|je a IH]; cbn [expand app]; [reflexivity | rewrite IH, app_assoc; reflexivity]. Qed.

Lemma get_expand_upow G a q k : (get (expand G (upow a q)) k == get (expand G a) k * q)%Q.
Proof.
  induction a as [|[j e] a IH]; cbn [upow map expand fst snd get]; [ring|].
  fold (upow a q). rewrite !get_app, IH, !get_upow. ring.
Qed.

Lemma get_expand_umul G a b k : (get (expand G (umul a b)) k == get (expand G a) k + get (expand G b) k)%Q.
Proof. unfold umul. rewrite expand_app. apply get_app. Qed.

Lemma get_expand_udiv G a b k : (get (expand G (udiv a b)) k == get (expand G a) k - get (expand G b) k)%Q.
Proof. unfold udiv, uinv. rewrite get_expand_umul, get_expand_upow. ring. Qed.

(* ---- extending the unit table ------------------------------------------------------------------------- *)
Definition ext (G : env) (T : list nunit) : env := mkEnv (atoms G) (utab G ++ T) (vtab G).

Lemma expand_ext G T n : expand (ext G T) n = expand G n.
Proof. induction n as [|je n IH]; cbn [expand]; [reflexivity | rewrite IH; reflexivity]. Qed.

Lemma lookup_ext G T u n : lookup_unit G u = Some n -> lookup_unit (ext G T) u = Some n.
Proof.
  unfold lookup_unit, nthZ. cbn [utab ext]. destruct (u <? 0); [discriminate|]. intros H.
  rewrite nth_error_app1; [exact H|]. apply nth_error_Some. congruence.
Qed.

Definition tabN (G : env) : Z := Z.of_nat (length (utab G)).

Lemma lookup_range G u n : lookup_unit G u = Some n -> (tabN G <=? u) = false.
Proof.
  unfold lookup_unit, nthZ, tabN. destruct (Z.ltb_spec u 0); [discriminate|]. intros Hn.
  assert (Hl : (Z.to_nat u < length (utab G))%nat) by (apply nth_error_Some; congruence).
  apply Z.leb_gt. lia.
Qed.

Lemma lookup_new G A n B :
  lookup_unit (ext G (A ++ n :: B)) (tabN G + Z.of_nat (length A)) = Some n.
Proof.
  unfold lookup_unit, nthZ, tabN. cbn [utab ext].
  destruct (Z.ltb_spec (Z.of_nat (length (utab G)) + Z.of_nat (length A)) 0); [lia|].
  replace (Z.to_nat (Z.of_nat (length (utab G)) + Z.of_nat (length A))) with (length (utab G) + length A)%nat by lia.
  rewrite app_assoc. rewrite nth_error_app2 by (rewrite app_length; lia).
  rewrite app_length. replace (length (utab G) + length A - (length (utab G) + length A))%nat with 0%nat by lia.
  reflexivity.
Qed.

(* ---- forgetting the decoration ---------------------------------------------------------------------------- *)
Fixpoint erase (N : Z) (e : expr) : expr :=
  match e with
  | EQty id q u => EQty id q (if N <=? u then -3 else u)
  | EAdd l => EAdd (map (erase N) l)
  | EMul l => EMul (map (erase N) l)
  | EPow b x => EPow (erase N b) (erase N x)
  | EFn f l => EFn f (map (erase N) l)
  | EDeriv y t n => EDeriv (erase N y) (erase N t) n
  | ERel r a b => ERel r (erase N a) (erase N b)
  | EBool op l => EBool op (map (erase N) l)
  | EPw l => EPw (map (fun ec => (erase N (fst ec), erase N (snd ec))) l)
  | _ => e
  end.

(* ---- the guard ---------------------------------------------------------------------------------------------- *)
(* exponent: a number literal or a quantity whose unit has no dimension and scale 1, whatever its name *)
Definition simple_exp (G : env) (x : expr) : bool :=
  match x with
  | ENum _ _ => true
  | EQty _ _ u => match lookup_unit G u with Some n => dim_dimless G n | None => false end
  | _ => false
  end.

(* real-valued expressions (booleans only as piecewise conditions), no floor / ceiling, every function unary,
   simple exponents *)
Fixpoint strictb (G : env) (e : expr) : bool :=
  match e with
  | ENum _ _ | EConst _ | EQty _ _ _ | EVar _ | EDeriv _ _ _ => true
  | EAdd l | EMul l => forallb (strictb G) l
  | EPow b x => strictb G b && simple_exp G x
  | EFn f l => negb ((f =? fn_floor) || (f =? fn_ceiling)) &&
               match l with [x] => strictb G x | _ => false end
  | EPw l => forallb (fun ec => strictb G (fst ec) && homog (snd ec)) l
  | ERel _ _ _ | EBool _ _ | ETrue | EFalse => false
  end.

Lemma strict_homog G : forall e, strictb G e = true -> homog e = true.
Proof.
  induction e using expr_ind'; cbn [strictb homog]; intros Hs; try reflexivity; try discriminate.
  - induction H as [|x l Px _ IH]; cbn [forallb] in *; [reflexivity|].
    apply andb_prop in Hs as [Hx Hs]. rewrite (Px Hx), (IH Hs). reflexivity.
  - induction H as [|x l Px _ IH]; cbn [forallb] in *; [reflexivity|].
    apply andb_prop in Hs as [Hx Hs]. rewrite (Px Hx), (IH Hs). reflexivity.
  - apply andb_prop in Hs as [Hb Hx]. rewrite (IHe1 Hb). destruct e2; cbn in Hx; try discriminate; reflexivity.
  - apply andb_prop in Hs as [Hf Hl]. rewrite Hf. destruct l as [|x [|y l']]; try discriminate.
    inversion H as [|? ? Px _]; subst. cbn [forallb]. rewrite (Px Hl).
    destruct (f =? fn_abs); reflexivity.
  - induction H as [|xc l [Px _] _ IH]; cbn [forallb] in *; [reflexivity|].
    apply andb_prop in Hs as [Hx Hs]. apply andb_prop in Hx as [Hp Hc]. rewrite (Px Hp), Hc, (IH Hs). reflexivity.
Qed.

(* ---- strict inference on the decorated output ------------------------------------------------------------------ *)
Section Infer.
  Variable G : env.
  Notation N := (tabN G).

  (* equivalent: same dimension part and same scale (a dimension-less base unit such as radian is ignored) *)
  Definition E (a b : nunit) : Prop :=
    forall k, is_dim k || is_scale k = true -> (get (expand G a) k == get (expand G b) k)%Q.
  Lemma E_refl a : E a a. Proof. intros k _. reflexivity. Qed.
  Lemma E_sym a b : E a b -> E b a. Proof. intros H k Hk. symmetry. apply H. exact Hk. Qed.
  Lemma E_trans a b c : E a b -> E b c -> E a c. Proof. intros H1 H2 k Hk. rewrite (H1 k Hk). apply H2. exact Hk. Qed.
  Lemma E_ueq a b : ueq a b -> E a b. Proof. intros H k _. apply expand_ueq. exact H. Qed.

  Lemma E_umul a a' b b' : E a a' -> E b b' -> E (umul a b) (umul a' b').
  Proof. intros Ha Hb k Hk. rewrite !get_expand_umul, (Ha k Hk), (Hb k Hk). reflexivity. Qed.
  Lemma E_upow a a' q : E a a' -> E (upow a q) (upow a' q).
  Proof. intros Ha k Hk. rewrite !get_expand_upow, (Ha k Hk). reflexivity. Qed.

  Lemma E_of_parts a b : ueq (dims (expand G a)) (dims (expand G b)) -> ueq (scale (expand G a)) (scale (expand G b)) -> E a b.
  Proof.
    intros Hd Hs k Hk. pose proof (Hd k) as Hdk. pose proof (Hs k) as Hsk. rewrite !get_dims in Hdk. rewrite !get_scale in Hsk.
    destruct (is_dim k); [exact Hdk|]. cbn [orb] in Hk. rewrite Hk in Hsk. exact Hsk.
  Qed.
  Lemma E_parts a b : E a b -> ueq (dims (expand G a)) (dims (expand G b)) /\ ueq (scale (expand G a)) (scale (expand G b)).
  Proof.
    intros H. split; intro k.
    - rewrite !get_dims. destruct (is_dim k) eqn:Hk; [apply H; rewrite Hk; reflexivity | reflexivity].
    - rewrite !get_scale. destruct (is_scale k) eqn:Hk; [apply H; rewrite Hk; apply orb_true_r | reflexivity].
  Qed.
  Lemma conv_one_E a b cf : conv (expand G a) (expand G b) = Some cf -> is_one cf = true -> E a b.
  Proof.
    intros Hc H1.
    assert (He : equivb (expand G a) (expand G b) = true) by (apply equiv_iff_conv_one; exists cf; split; assumption).
    apply equivb_spec in He as [Hd Hs]. apply E_of_parts; assumption.
  Qed.

  (* never a UnitError; a returned unit is equivalent to u; Python exceptions / declined cases are allowed *)
  Definition good (u : nunit) (res : ures qu) : Prop :=
    match res with UOk r => E (fst r) u | UErr _ => False | _ => True end.
  Definition goods (us : list nunit) (res : ures (list qu)) : Prop :=
    match res with UOk rs => Forall2 (fun r u => E (fst r) u) rs us | UErr _ => False | _ => True end.

  Lemma sem_equiv_ext T a b : sem_equiv (ext G T) a b = sem_equiv G a b.
  Proof. unfold sem_equiv. rewrite !expand_ext. reflexivity. Qed.
  Lemma dim_dimless_ext T a : dim_dimless (ext G T) a = dim_dimless G a.
  Proof. unfold dim_dimless. rewrite !expand_ext. reflexivity. Qed.
  Lemma E_sem_equiv a b : E a b -> sem_equiv G a b = true.
  Proof. intros H. unfold sem_equiv. apply equivb_spec. apply E_parts. exact H. Qed.
  Lemma E_dimless a : E a [] -> dim_dimless G a = true.
  Proof.
    intros H. apply E_parts in H as [Hd Hs]. cbn [expand] in Hd, Hs.
    unfold dim_dimless, dimensionless_b, is_one. apply andb_true_intro. split; apply ueqb_spec; assumption.
  Qed.

  Lemma goods_cons G' x r u us :
    good u (infer G' x) -> goods us (infers G' r) -> goods (u :: us) (infers G' (x :: r)).
  Proof.
    cbn [infers]. destruct (infer G' x) as [a| | |]; cbn [good bindr goods]; try tauto.
    intros Ha. destruct (infers G' r) as [b| | |]; cbn [goods bindr]; try tauto.
    intros Hb. constructor; assumption.
  Qed.

  Lemma goods_consw G' (xc : expr * expr) r u us :
    good u (infer G' (fst xc)) -> goods us (inferpw G' r) -> goods (u :: us) (inferpw G' (xc :: r)).
  Proof.
    cbn [inferpw]. destruct (infer G' (fst xc)) as [a| | |]; cbn [good bindr goods]; try tauto.
    intros Ha. destruct (inferpw G' r) as [b| | |]; cbn [goods bindr]; try tauto.
    intros Hb. constructor; assumption.
  Qed.

  Lemma F2_in (rs : list qu) us : Forall2 (fun r u => E (fst r) u) rs us ->
    forall r, In r rs -> exists u, In u us /\ E (fst r) u.
  Proof.
    induction 1 as [|r0 u0 rs us H0 _ IH]; intros r [].
    - subst. exists u0. split; [left; reflexivity | exact H0].
    - destruct (IH r H) as [u [Hu He]]. exists u. split; [right; exact Hu | exact He].
  Qed.

  Lemma same_ok T (rs : list qu) us ul :
    Forall2 (fun r u => E (fst r) u) rs us -> (forall a b, In a us -> In b us -> ueq a b) -> In ul us ->
    good ul (infer_same (ext G T) rs).
  Proof.
    intros HF Hall Hul. destruct HF as [|r0 u0 rs us H0 HF]; [destruct Hul|].
    unfold infer_same.
    assert (Hf : forallb (fun r => sem_equiv (ext G T) (fst r0) (fst r)) (r0 :: rs) = true).
    { apply forallb_forall. intros r Hr. rewrite sem_equiv_ext. apply E_sem_equiv.
      destruct (F2_in (r0 :: rs) (u0 :: us) (Forall2_cons (R := fun r u => E (fst r) u) r0 u0 H0 HF) r Hr) as [u [Hu He]].
      eapply E_trans; [exact H0|]. eapply E_trans; [|apply E_sym; exact He].
      apply E_ueq. apply Hall; [left; reflexivity | exact Hu]. }
    rewrite Hf. cbn [good]. eapply E_trans; [exact H0|]. apply E_ueq. apply Hall; [left; reflexivity | exact Hul].
  Qed.

  Lemma prod_ok (rs : list qu) us : Forall2 (fun r u => E (fst r) u) rs us ->
    forall (acc : qu) accu, E (fst acc) accu -> E (fst (fold_left qmul rs acc)) (fold_left umul us accu).
  Proof.
    induction 1 as [|r u rs us Hr _ IH]; intros acc accu Ha; cbn [fold_left]; [exact Ha|].
    apply IH. unfold qmul. cbn [fst]. apply E_umul; assumption.
  Qed.

  (* functions other than Abs / floor / ceiling applied to one argument that is dimensionless with scale 1 *)
  Lemma infer_fn_good G' f (a : qu) :
    (f =? fn_abs) = false -> (f =? fn_floor) || (f =? fn_ceiling) = false -> dim_dimless G' (fst a) = true ->
    match infer_fn G' f [a] with UOk r => fst r = [] | UErr _ => False | _ => True end.
  Proof.
    intros Hf Hfc Hd. unfold infer_fn. rewrite Hf, Hfc, Hd.
    destruct ((f =? fn_log) || (f =? fn_factorial) || is_trig f); [reflexivity|].
    destruct (f =? fn_exp); [|reflexivity].
    destruct (snd a) as [q [|]| | |]; try reflexivity. destruct (Qle_bool 710 q); [exact I | reflexivity].
  Qed.

  Lemma infer_var_ext T v r : infer_var G v = UOk r -> infer_var (ext G T) v = UOk r.
  Proof.
    unfold infer_var. cbn [vtab ext]. destruct (nthZ (vtab G) v) as [[u iv]|]; [|discriminate].
    destruct (lookup_unit G u) as [n|] eqn:Hu; [|discriminate]. rewrite (lookup_ext G T u n Hu). exact (fun H => H).
  Qed.

  Ltac norm := rewrite <- ?app_assoc; cbn [app].

  (* the wrapper cf * e *)
  Lemma mcD e1 c from to e2 c2 u2 T D1 e1'' :
    maybe_convert G e1 c from to = UOk (e2, c2, u2) -> erase N e1'' = e1 ->
    exists D e2'', erase N e2'' = e2 /\
      ((forall Th, good from (infer (ext G (T ++ D1 ++ Th)) e1'')) ->
       forall Th, good u2 (infer (ext G (T ++ D ++ Th)) e2'')).
  Proof.
    unfold maybe_convert. intros H He. destruct to as [t|].
    - destruct (conv (expand G from) (expand G t)) as [cf|] eqn:Hcf; [|discriminate].
      destruct (is_one cf) eqn:H1.
      + injection H as <- _ <-. exists D1, e1''. split; [exact He|]. intros Hg Th. specialize (Hg Th).
        destruct (infer (ext G (T ++ D1 ++ Th)) e1'') as [r| | |]; cbn [good] in *; try tauto.
        eapply E_trans; [exact Hg | exact (conv_one_E from t cf Hcf H1)].
      + destruct (cfq cf) as [[q d]|]; [|discriminate]. injection H as <- _ <-.
        exists (D1 ++ [udiv t from]), (EMul [EQty (- d) q (N + Z.of_nat (length (T ++ D1))); e1'']). split.
        * cbn [erase map]. rewrite He. replace (N <=? N + Z.of_nat (length (T ++ D1))) with true by (symmetry; apply Z.leb_le; lia).
          reflexivity.
        * intros Hg0 Th. norm.
          rewrite infer_mul. cbn [infers infer].
          assert (Hl : lookup_unit (ext G (T ++ D1 ++ udiv t from :: Th)) (N + Z.of_nat (length (T ++ D1))) = Some (udiv t from))
            by (rewrite (app_assoc T D1); apply lookup_new).
          match goal with |- context [lookup_unit ?g ?i] =>
            replace (lookup_unit g i) with (Some (udiv t from)) by (symmetry; exact Hl) end. cbn [bindr].
          match goal with |- context [infer ?g e1''] =>
            assert (Hg : good from (infer g e1'')) by exact (Hg0 (udiv t from :: Th));
            destruct (infer g e1'') as [r| | |] end; cbn [good bindr infer_prod fold_left] in *; try tauto.
          cbn [good bindr infer_prod fold_left]. unfold qmul, E in *. cbn [fst] in *. intros k Hk.
          rewrite get_expand_umul, get_expand_udiv, (Hg k Hk). ring.
    - injection H as <- _ <-. exists D1, e1''. split; [exact He | exact (fun H => H)].
  Qed.

  Definition Qd (e : expr) : Prop := forall to e' c u T, convert G e to = UOk (e', c, u) ->
    exists D e'', erase N e'' = e' /\
      (strictb G e = true -> forall Th, good u (infer (ext G (T ++ D ++ Th)) e'')).

  Lemma cloopD m l : Forall Qd l -> forall c t l' c' us T, cloop G m l c t = UOk (l', c', us) ->
    exists D l'', map (erase N) l'' = l' /\
      (forallb (strictb G) l = true -> forall Th, goods us (infers (ext G (T ++ D ++ Th)) l'')).
  Proof.
    induction 1 as [|x r Px _ IH]; intros c t l' c' us T H; cbn [cloop] in H.
    - injection H as <- _ <-. exists [], []. split; [reflexivity|]. intros _ Th. cbn [infers goods]. constructor.
    - apply bindr_ok in H as [[[x' cx] ux] [Hx H]]. apply bindr_ok in H as [[[r' c''] us'] [Hr H]].
      injection H as <- _ <-.
      destruct (Px _ _ _ _ T Hx) as [D1 [x'' [Ex Gx]]]. destruct (IH _ _ _ _ _ (T ++ D1) Hr) as [D2 [r'' [Er Gr]]].
      exists (D1 ++ D2), (x'' :: r''). split; [cbn [map]; rewrite Ex, Er; reflexivity|].
      intros Hs Th. cbn [forallb] in Hs. apply andb_prop in Hs as [Hsx Hsr].
      apply goods_cons.
      + generalize (Gx Hsx (D2 ++ Th)). norm. exact (fun H => H).
      + generalize (Gr Hsr Th). norm. exact (fun H => H).
  Qed.

  Lemma cloopwD l : Forall (fun ec => Qd (fst ec) /\ Qd (snd ec)) l ->
    forall c t l' c' us T, cloopw G l c t = UOk (l', c', us) ->
    exists D l'', map (fun ec => (erase N (fst ec), erase N (snd ec))) l'' = l' /\
      (forallb (fun ec => strictb G (fst ec) && homog (snd ec)) l = true ->
       forall Th, goods us (inferpw (ext G (T ++ D ++ Th)) l'')).
  Proof.
    induction 1 as [|[p cn] r [Pp Pc] _ IH]; intros c t l' c' us T H; cbn [cloopw fst snd] in *.
    - injection H as <- _ <-. exists [], []. split; [reflexivity|]. intros _ Th. cbn [inferpw goods]. constructor.
    - apply bindr_ok in H as [[[p' cp] up] [Hp H]]. apply bindr_ok in H as [[[cn' cc] uc] [Hc H]].
      apply bindr_ok in H as [[[r' c''] us'] [Hr H]]. injection H as <- _ <-.
      destruct (Pp _ _ _ _ T Hp) as [D1 [p'' [Ep Gp]]]. destruct (Pc _ _ _ _ (T ++ D1) Hc) as [D2 [cn'' [Ec _]]].
      destruct (IH _ _ _ _ _ ((T ++ D1) ++ D2) Hr) as [D3 [r'' [Er Gr]]].
      exists (D1 ++ D2 ++ D3), ((p'', cn'') :: r''). split; [cbn [map fst snd]; rewrite Ep, Ec, Er; reflexivity|].
      intros Hs Th. cbn [forallb fst snd] in Hs. apply andb_prop in Hs as [Hsx Hsr]. apply andb_prop in Hsx as [Hsp _].
      apply goods_consw.
      + cbn [fst]. generalize (Gp Hsp (D2 ++ D3 ++ Th)). norm. exact (fun H => H).
      + generalize (Gr Hsr Th). norm. exact (fun H => H).
  Qed.

  Lemma cloop_nil m l c t l' c' : cloop G m l c t = UOk (l', c', []) -> l = [] /\ l' = [].
  Proof.
    destruct l as [|x r]; cbn [cloop]; intros H.
    - injection H as <- _. split; reflexivity.
    - apply bindr_ok in H as [[[x' cx] ux] [_ H]]. apply bindr_ok in H as [[[r' c''] us'] [_ H]]. discriminate.
  Qed.

  Lemma Pid_list l : Forall (Pid G) l.
  Proof. apply Forall_forall. intros x _. apply identity_all. Qed.

  Lemma ite_list (mk : list expr -> expr) m l c t l' c' us :
    cloop G m l c t = UOk (l', c', us) -> (if c' then mk l' else mk l) = mk l'.
  Proof. intros H. destruct c'; [reflexivity|]. destruct (cloop_id G m l (Pid_list l) _ _ _ _ H) as [-> _]. reflexivity. Qed.

  Lemma pv0 e : Pv G fsem_abs_only pow_sem (fun _ => None) (fun _ => None) (fun _ _ => None) e.
  Proof. apply preserve_all; [apply pow_sem_law | apply abs_law_sat]. Qed.

  Lemma strict_homog_list l : forallb (strictb G) l = true -> forallb homog l = true.
  Proof.
    induction l as [|x l IH]; cbn [forallb]; [reflexivity|]. intros H. apply andb_prop in H as [Hx H].
    rewrite (strict_homog G x Hx), (IH H). reflexivity.
  Qed.

  Lemma chain_pairs t us : units_chain t us -> forall a b, In a us -> In b us -> ueq a b.
  Proof.
    intros [Hs Hn] a b Ha Hb. destruct t as [t0|].
    - specialize (Hs t0 eq_refl). rewrite Forall_forall in Hs.
      eapply ueq_trans; [apply Hs; exact Ha | apply ueq_sym; apply Hs; exact Hb].
    - specialize (Hn eq_refl). destruct us as [|u1 rest]; [destruct Ha|]. rewrite Forall_forall in Hn.
      assert (K : forall x, In x (u1 :: rest) -> ueq x u1).
      { intros x [<-|Hx]; [apply ueq_refl | apply Hn; exact Hx]. }
      eapply ueq_trans; [apply K; exact Ha | apply ueq_sym; apply K; exact Hb].
  Qed.

  Lemma mc_dimless e c n : dim_dimless G n = true -> maybe_convert G e c n (Some []) = UOk (e, c, []).
  Proof.
    unfold dim_dimless. intros H. apply andb_prop in H as [Hd Hs]. unfold maybe_convert, conv. cbn [expand].
    change (same_dims (expand G n) []) with (dimensionless_b (expand G n)). rewrite Hd.
    replace (udiv (expand G n) []) with (expand G n) by (unfold udiv, uinv, umul, upow; cbn [map]; rewrite app_nil_r; reflexivity).
    rewrite Hs. reflexivity.
  Qed.

  Lemma simple_conv x x' cx ux : simple_exp G x = true -> convert G x (Some []) = UOk (x', cx, ux) -> x' = x.
  Proof.
    destruct x; cbn [simple_exp]; try discriminate; intros Hs H; cbn [convert] in H.
    - injection H as <- _ _. reflexivity.
    - destruct (lookup_unit G u) as [n|]; [|discriminate]. rewrite (mc_dimless _ _ _ Hs) in H. injection H as <- _ _. reflexivity.
  Qed.

  Lemma simple_erase x x'' : simple_exp G x = true -> erase N x'' = x -> x'' = x.
  Proof.
    destruct x; cbn [simple_exp]; try discriminate; intros Hs H; destruct x''; cbn [erase] in H; try discriminate.
    - exact H.
    - injection H as -> -> Hu. f_equal. destruct (N <=? u0); [|exact Hu]. subst u.
      unfold lookup_unit, nthZ in Hs. cbn in Hs. discriminate.
  Qed.

  Lemma simple_infer T x : simple_exp G x = true ->
    exists n mg, infer (ext G T) x = UOk (n, mg) /\ dim_dimless G n = true.
  Proof.
    destruct x; cbn [simple_exp]; try discriminate; intros Hs; cbn [infer].
    - eexists _, _. split; reflexivity.
    - destruct (lookup_unit G u) as [n|] eqn:Hu; [|discriminate]. erewrite lookup_ext by exact Hu.
      eexists _, _. split; [reflexivity | exact Hs].
  Qed.

  (* And / Or / functions: the decoration part (erase), shared by the EFn and EBool cases *)
  Lemma fnlikeD (mk : list expr -> expr) l au e' c0 u0 T :
    (forall l1, erase N (mk l1) = mk (map (erase N) l1)) -> Forall Qd l ->
    fnlike_top G (mk l) mk l au = UOk (e', c0, u0) ->
    exists l' c' us D l'', cloop G 2 l false au = UOk (l', c', us) /\ erase N (mk l'') = e' /\
      map (erase N) l'' = l' /\ (lastu us = Some u0 \/ us = []) /\
      (forallb (strictb G) l = true -> forall Th, goods us (infers (ext G (T ++ D ++ Th)) l'')).
  Proof.
    intros Hmk HQ H0. unfold fnlike_top in H0. apply bindr_ok in H0 as [[[l' c'] us] [Hl H0]].
    destruct (cloopD 2 l HQ _ _ _ _ _ T Hl) as [D [l'' [El Gl]]].
    exists l', c', us, D, l''. split; [exact Hl|]. rewrite Hmk, El.
    destruct (lastu us) as [ul|] eqn:Hlast.
    - injection H0 as <- _ <-. rewrite (ite_list mk _ _ _ _ _ _ _ Hl). repeat split; try assumption. left; reflexivity.
    - assert (us = []) by (unfold lastu in Hlast; destruct (rev us) eqn:Hr; [|discriminate];
                           rewrite <- (rev_involutive us), Hr; reflexivity). subst us.
      destruct (cloop_nil _ _ _ _ _ _ Hl) as [-> ->].
      destruct au; [|discriminate]. injection H0 as <- _ _. repeat split; try assumption. right; reflexivity.
  Qed.

  Lemma mpow_no_err b m f k : mpow b m f <> UErr k.
  Proof.
    unfold mpow. destruct b as [q fb| | |]; try discriminate;
      repeat (match goal with |- context [if ?c then _ else _] => destruct c end); discriminate.
  Qed.

  Lemma mdiv_no_err a b k : mdiv a b <> UErr k.
  Proof.
    unfold mdiv. destruct a as [x fx| | |], b as [y fy| | |]; try discriminate.
    destruct (Qeq_bool y 0); discriminate.
  Qed.

  Lemma infer_all : forall e, Qd e.
  Proof.
    induction e using expr_ind'; unfold Qd; intros to e' c0 u0 T H0.
    - (* Num *)
      cbn [convert] in H0. destruct (not_dimless_target to); [discriminate|]. injection H0 as <- _ <-.
      exists [], (ENum k q). split; [reflexivity|]. intros _ Th. cbn [infer good fst]. apply E_refl.
    - (* Const *)
      cbn [convert] in H0. destruct (not_dimless_target to); [discriminate|]. injection H0 as <- _ <-.
      exists [], (EConst c). split; [reflexivity|]. intros _ Th. cbn [infer].
      destruct ((c =? 0) || (c =? 1)); cbn [good fst]; [apply E_refl | exact I].
    - (* Qty *)
      cbn [convert] in H0. destruct (lookup_unit G u) as [n|] eqn:Hu; [|discriminate].
      assert (He : erase N (EQty id q u) = EQty id q u) by (cbn [erase]; rewrite (lookup_range _ _ _ Hu); reflexivity).
      destruct (mcD _ _ _ _ _ _ _ T [] _ H0 He) as [D [e2'' [Ee Hg]]].
      exists D, e2''. split; [exact Ee|]. intros _. apply Hg. intros Th. cbn [app infer].
      erewrite lookup_ext by exact Hu. cbn [good fst]. apply E_refl.
    - (* Var *)
      cbn [convert] in H0. destruct (nthZ (vtab G) v) as [[u' iv]|] eqn:Hn; [|discriminate].
      destruct (lookup_unit G u') as [n|] eqn:Hu; [|discriminate].
      destruct (mcD _ _ _ _ _ _ _ T [] (EVar v) H0 eq_refl) as [D [e2'' [Ee Hg]]].
      exists D, e2''. split; [exact Ee|]. intros _. apply Hg. intros Th. cbn [app infer].
      erewrite infer_var_ext; [|unfold infer_var; rewrite Hn, Hu; reflexivity]. cbn [good fst]. apply E_refl.
    - (* Add *)
      rewrite convert_add in H0. apply bindr_ok in H0 as [[[l' c'] us] [Hl H0]].
      destruct (lastu us) as [ul|] eqn:Hlast; [|discriminate]. injection H0 as <- _ <-.
      destruct (cloopD 1 l H _ _ _ _ _ T Hl) as [D [l'' [El Gl]]].
      exists D, (EAdd l''). split; [cbn [erase]; rewrite El, (ite_list EAdd _ _ _ _ _ _ _ Hl); reflexivity|].
      intros Hs Th. cbn [strictb] in Hs. specialize (Gl Hs Th). rewrite infer_add.
      destruct (infers (ext G (T ++ D ++ Th)) l'') as [rs| | |]; cbn [goods bindr good] in *; try tauto.
      eapply same_ok; [exact Gl | | apply lastu_in; exact Hlast].
      apply (chain_pairs to). eapply (cloop_units G _ _ _ _ _ 1 l (or_introl eq_refl)); [|exact Hl|apply strict_homog_list; exact Hs].
      apply Forall_forall. intros x _. apply pv0.
    - (* Mul *)
      rewrite convert_mul in H0. apply bindr_ok in H0 as [[[l' c'] us] [Hl H0]].
      destruct us as [|u1 ur]; [discriminate|]. rewrite (ite_list EMul _ _ _ _ _ _ _ Hl) in H0.
      destruct (cloopD 0 l H _ _ _ _ _ T Hl) as [D1 [l'' [El Gl]]].
      assert (He : erase N (EMul l'') = EMul l') by (cbn [erase]; rewrite El; reflexivity).
      destruct (mcD _ _ _ _ _ _ _ T D1 _ H0 He) as [D [e2'' [Ee Hg]]].
      exists D, e2''. split; [exact Ee|]. intros Hs. apply Hg. intros Th. cbn [strictb] in Hs. specialize (Gl Hs Th).
      rewrite infer_mul.
      destruct (infers (ext G (T ++ D1 ++ Th)) l'') as [rs| | |]; cbn [goods bindr good] in *; try tauto.
      inversion Gl as [|r0 ? rest ? Hr0 Hrest]; subst. cbn [infer_prod good]. apply prod_ok; assumption.
    - (* Pow *)
      cbn [convert] in H0. apply bindr_ok in H0 as [[[x' cx] ux] [Hx H0]].
      destruct (expo_value x') as [m| |] eqn:Hv; try discriminate.
      destruct (Qeq_bool m 0); [discriminate|].
      apply bindr_ok in H0 as [[[b' cb] ub] [Hb H0]].
      destruct (IHe2 _ _ _ _ T Hx) as [Dx [x'' [Ex _]]]. destruct (IHe1 _ _ _ _ (T ++ Dx) Hb) as [Db [b'' [Eb Gb]]].
      assert (E0 : (if cb || cx then EPow b' x' else EPow e1 e2) = EPow b' x').
      { destruct (cb || cx) eqn:Hc; [reflexivity|]. apply orb_false_elim in Hc as [-> ->].
        rewrite (identity_all G e1 _ _ _ Hb), (identity_all G e2 _ _ _ Hx). reflexivity. }
      rewrite E0 in H0.
      assert (He : erase N (EPow b'' x'') = EPow b' x') by (cbn [erase]; rewrite Eb, Ex; reflexivity).
      destruct (mcD _ _ _ _ _ _ _ T (Dx ++ Db) _ H0 He) as [D [e2'' [Ee Hg]]].
      exists D, e2''. split; [exact Ee|]. intros Hs. apply Hg. intros Th. cbn [strictb] in Hs.
      apply andb_prop in Hs as [Hsb Hsx].
      pose proof (simple_conv _ _ _ _ Hsx Hx) as ->. pose proof (simple_erase _ _ Hsx Ex) as ->.
      generalize (Gb Hsb Th). norm. intros Hgb. cbn [infer].
      match goal with |- context [infer ?g b''] =>
        change (good ub (infer g b'')) in Hgb; destruct (infer g b'') as [[nb mb]| | |] end;
        cbn [good bindr fst] in *; try tauto.
      destruct (simple_infer (T ++ Dx ++ Db ++ Th) e2 Hsx) as [nx [mg [Hi Hdn]]].
      match goal with |- context [infer ?g e2] => replace (infer g e2) with (UOk (nx, mg)) by (symmetry; exact Hi) end.
      cbn [bindr fst]. rewrite (expo_infer_of_value _ _ _ Hv). unfold infer_pow.
      rewrite dim_dimless_ext, Hdn. cbn [negb].
      destruct (mpow mb m true) as [mr|k0| |] eqn:Hmp; cbn [bindr good fst]; try exact I;
        [|exact (mpow_no_err _ _ _ _ Hmp)].
      destruct (syn_dimless nb) eqn:Hd.
      + unfold syn_dimless in Hd. apply ueqb_spec in Hd.
        assert (Hub : E ub []) by (eapply E_trans; [apply E_sym; exact Hgb | apply E_ueq; exact Hd]).
        apply E_sym. apply (E_upow ub [] m Hub).
      + apply E_upow. exact Hgb.
    - (* Fn *)
      rewrite convert_fn in H0.
      assert (HF : exists au, fnlike_top G (EFn f l) (EFn f) l au = UOk (e', c0, u0) /\
                     ((f =? fn_abs) || (f =? fn_floor) || (f =? fn_ceiling) = false -> au = Some [])).
      { destruct ((f =? fn_abs) || (f =? fn_floor) || (f =? fn_ceiling)).
        - exists to. split; [exact H0 | discriminate].
        - destruct (not_dimless_target to); [discriminate|]. exists (Some []). split; [exact H0 | reflexivity]. }
      destruct HF as [au [H1 Hau]].
      destruct (fnlikeD (EFn f) l au e' c0 u0 T (fun l1 => eq_refl) H H1) as [l' [c' [us [D [l'' [Hl [Ee [El [Hu Gl]]]]]]]]].
      exists D, (EFn f l''). split; [exact Ee|]. intros Hs Th. cbn [strictb] in Hs.
      apply andb_prop in Hs as [Hfc Hs]. apply negb_true_iff in Hfc.
      destruct l as [|x [|y r]]; try discriminate.
      cbn [cloop] in Hl. apply bindr_ok in Hl as [[[x' cx] ux] [Hx Hl]]. cbn [bindr] in Hl. injection Hl as <- _ <-.
      destruct Hu as [Hu|Hu]; [|discriminate]. cbn in Hu. injection Hu as <-.
      destruct l'' as [|x'' [|y'' r'']]; cbn [map] in El; try discriminate.
      assert (Hsl : forallb (strictb G) [x] = true) by (cbn [forallb]; rewrite Hs; reflexivity).
      specialize (Gl Hsl Th). rewrite infer_fn_eq. cbn [infers] in *.
      destruct (infer (ext G (T ++ D ++ Th)) x'') as [a| | |]; cbn [bindr goods good] in *; try tauto.
      inversion Gl as [|? ? ? ? Ha _]; subst.
      destruct (f =? fn_abs) eqn:Hf.
      + unfold infer_fn. rewrite Hf. cbn [good fst]. exact Ha.
      + assert (Hux : ueq ux []).
        { assert (Hc3 : false || (f =? fn_floor) || (f =? fn_ceiling) = false) by (cbn [orb]; exact Hfc).
          rewrite (Hau Hc3) in Hx.
          apply (proj1 (pv0 x _ _ _ _ Hx (strict_homog G x Hs)) [] eq_refl). }
        assert (Hd : dim_dimless (ext G (T ++ D ++ Th)) (fst a) = true).
        { rewrite dim_dimless_ext. apply E_dimless. eapply E_trans; [exact Ha | apply E_ueq; exact Hux]. }
        pose proof (infer_fn_good (ext G (T ++ D ++ Th)) f a Hf Hfc Hd) as Hfn.
        destruct (infer_fn (ext G (T ++ D ++ Th)) f [a]) as [r'| | |]; cbn [good]; try tauto.
        rewrite Hfn. apply E_sym. apply E_ueq. exact Hux.
    - (* Deriv *)
      cbn [convert] in H0. destruct e1; try discriminate. destruct e2; try discriminate.
      destruct (n <=? 1); [|discriminate].
      destruct (unit_of G (EVar v)) as [ny|] eqn:Hy; [|discriminate].
      destruct (unit_of G (EVar v0)) as [nt|] eqn:Ht; [|discriminate].
      destruct (mcD _ _ _ _ _ _ _ T [] (EDeriv (EVar v) (EVar v0) n) H0 eq_refl) as [D [e2'' [Ee Hg]]].
      exists D, e2''. split; [exact Ee|]. intros _. apply Hg. intros Th. cbn [app infer].
      destruct (unit_of_inv _ _ _ Hy) as [ry [Iy Ey]]. destruct (unit_of_inv _ _ _ Ht) as [rt [It Et]].
      cbn [infer] in Iy, It.
      rewrite (infer_var_ext _ _ _ Iy), (infer_var_ext _ _ _ It). cbn [bindr]. unfold infer_div.
      destruct (mdiv (snd ry) (snd rt)) as [md|k0| |] eqn:Hmd; cbn [bindr good fst]; try exact I;
        [rewrite Ey, Et; apply E_refl | exact (mdiv_no_err _ _ _ Hmd)].
    - (* Rel *)
      cbn [convert] in H0. destruct (not_dimless_target to); [discriminate|].
      apply bindr_ok in H0 as [[[a' ca] ua] [Ha H0]]. apply bindr_ok in H0 as [[[b' cb] ub] [Hb H0]].
      injection H0 as <- _ <-.
      destruct (IHe1 _ _ _ _ T Ha) as [Da [a'' [Ea _]]]. destruct (IHe2 _ _ _ _ (T ++ Da) Hb) as [Db [b'' [Eb _]]].
      exists (Da ++ Db), (ERel r a'' b''). split; [|intros Hs; discriminate].
      cbn [erase]. rewrite Ea, Eb. destruct (cb || ca) eqn:Hc; [reflexivity|]. apply orb_false_elim in Hc as [-> ->].
      rewrite (identity_all G e1 _ _ _ Ha), (identity_all G e2 _ _ _ Hb). reflexivity.
    - (* Bool *)
      rewrite convert_bool in H0. destruct (not_dimless_target to); [discriminate|].
      destruct (fnlikeD (EBool op) l (Some []) e' c0 u0 T (fun l1 => eq_refl) H H0) as [l' [c' [us [D [l'' [_ [Ee _]]]]]]].
      exists D, (EBool op l''). split; [exact Ee | intros Hs; discriminate].
    - (* True *)
      cbn [convert] in H0. destruct (not_dimless_target to); [discriminate|]. injection H0 as <- _ <-.
      exists [], ETrue. split; [reflexivity | intros Hs; discriminate].
    - (* False *)
      cbn [convert] in H0. destruct (not_dimless_target to); [discriminate|]. injection H0 as <- _ <-.
      exists [], EFalse. split; [reflexivity | intros Hs; discriminate].
    - (* Piecewise *)
      rewrite convert_pw in H0. apply bindr_ok in H0 as [[[l' c'] us] [Hl H0]].
      destruct (lastu us) as [ul|] eqn:Hlast; [|discriminate]. injection H0 as <- _ <-.
      destruct (cloopwD l H _ _ _ _ _ T Hl) as [D [l'' [El Gl]]].
      exists D, (EPw l''). split.
      + cbn [erase]. rewrite El. destruct c'; [reflexivity|].
        assert (HPid : Forall (fun ec => Pid G (fst ec) /\ Pid G (snd ec)) l)
          by (apply Forall_forall; intros x _; split; apply identity_all).
        destruct (cloopw_id G l HPid _ _ _ _ Hl) as [-> _]. reflexivity.
      + intros Hs Th. cbn [strictb] in Hs. specialize (Gl Hs Th). rewrite infer_pw.
        destruct (inferpw (ext G (T ++ D ++ Th)) l'') as [rs| | |]; cbn [goods bindr good] in *; try tauto.
        eapply same_ok; [exact Gl | | apply lastu_in; exact Hlast].
        apply (chain_pairs to).
        assert (HPv : Forall (fun ec => Pv G fsem_abs_only pow_sem (fun _ => None) (fun _ => None) (fun _ _ => None) (fst ec) /\
                                        Pv G fsem_abs_only pow_sem (fun _ => None) (fun _ => None) (fun _ _ => None) (snd ec)) l)
          by (apply Forall_forall; intros x _; split; apply pv0).
        assert (Hh : forallb (fun ec => homog (fst ec) && homog (snd ec)) l = true).
        { clear -Hs. induction l as [|xc l IH]; cbn [forallb] in *; [reflexivity|].
          apply andb_prop in Hs as [Hx Hs]. apply andb_prop in Hx as [Hp Hc].
          rewrite (strict_homog G _ Hp), Hc, (IH Hs). reflexivity. }
        exact (proj2 (proj2 (cloopw_rel G _ _ _ _ _ l HPv _ _ _ _ _ Hl Hh))).
  Qed.
End Infer.

(* ---- the closed statements ------------------------------------------------------------------------------------ *)
(* strict inference gave an answer (a unit or a UnitError), not a Python exception (ZeroDivisionError, OverflowError
   ... : known finding result-fails-strict-inference-magnitude) and not a case the model declines *)
Definition no_python_exception (G : env) (e : expr) : bool :=
  match infer G e with UOther | UUnsupp => false | _ => true end.

Lemma result_infers_partial : forall G e to e' c u,
  convert G e to = UOk (e', c, u) -> strictb G e = true ->
  exists D e'', erase (tabN G) e'' = e' /\
    forall Th, match infer (ext G (D ++ Th)) e'' with
               | UOk r => sem_equiv G (fst r) u = true
               | UErr _ => False
               | UOther | UUnsupp => True
               end.
Proof.
  intros G e to e' c u H Hs. destruct (infer_all G e to e' c u [] H) as [D [e'' [Ee Hg]]].
  exists D, e''. split; [exact Ee|]. intros Th. specialize (Hg Hs Th). cbn [app] in Hg.
  destruct (infer (ext G (D ++ Th)) e'') as [r|k| |]; cbn [good] in Hg; try exact Hg. apply E_sem_equiv. exact Hg.
Qed.

Lemma result_infers : forall G e to e' c u,
  convert G e to = UOk (e', c, u) -> strictb G e = true ->
  exists D e'', erase (tabN G) e'' = e' /\
    forall Th, no_python_exception (ext G (D ++ Th)) e'' = true ->
      exists r, infer (ext G (D ++ Th)) e'' = UOk r /\ sem_equiv G (fst r) u = true.
Proof.
  intros G e to e' c u H Hs. destruct (result_infers_partial G e to e' c u H Hs) as [D [e'' [Ee Hg]]].
  exists D, e''. split; [exact Ee|]. intros Th. specialize (Hg Th). unfold no_python_exception.
  destruct (infer (ext G (D ++ Th)) e'') as [r|k| |]; try discriminate; [|destruct Hg].
  intros _. exists r. split; [reflexivity | exact Hg].
Qed.

(* the former counter-examples, repaired in /repo and in the model: radian next to dimensionless operands, an
   exponent in a named unit equal to dimensionless.  What is left outside the guard and really fails: Max of two
   arguments (strict inference has no rule for functions of two arguments; Max / Min / Mod are outside the operators
   the property quantifies over). *)
Definition G_rad : env :=            (* atom 0 = radian (pint: a base unit without dimension) *)
  mkEnv [[((-8)%Z, 1%Q)]] [[]; [(0%Z, 1%Q)]] [(1%Z, None); (0%Z, None)].
Definition G_one : env :=            (* atom 0 = a named unit equal to dimensionless, atom 1 = mV *)
  mkEnv [[]; [(2%Z, (-3 # 1)%Q); (5%Z, (-3 # 1)%Q); ((-2)%Z, 1%Q); ((-1)%Z, 2%Q); ((-3)%Z, (-3 # 1)%Q); ((-4)%Z, (-1 # 1)%Q)]]
        [[]; [(0%Z, 1%Q)]; [(1%Z, 1%Q)]] [(2%Z, None)].

Lemma result_infers_repaired :
  (let e := EAdd [EVar 0; EVar 1] in           (* r[radian] + k[dimensionless] *)
   convert G_rad e None = UOk (e, false, [(0%Z, 1%Q)]) /\ strictb G_rad e = true /\
   infer G_rad e = UOk ([(0%Z, 1%Q)], MVar)) /\
  (let e := EPow (EVar 0) (EQty 0 2 1) in      (* a[mV] ** _2[one] *)
   convert G_one e None = UOk (e, false, upow [(1%Z, 1%Q)] 2) /\ strictb G_one e = true /\
   exists r, infer G_one e = UOk r /\ sem_equiv G_one (fst r) (upow [(1%Z, 1%Q)] 2) = true).
Proof.
  cbv zeta. split.
  - split; [vm_compute; reflexivity|]. split; vm_compute; reflexivity.
  - split; [vm_compute; reflexivity|]. split; [vm_compute; reflexivity|]. eexists. split; vm_compute; reflexivity.
Qed.

Lemma result_infers_refuted :
  let e := EFn fn_max [EQty 0 1 0; EQty 1 2 0] in
  convert G_one e None = UOk (e, false, []) /\ homog e = true /\ strictb G_one e = false /\
  infer G_one e = UErr EUnexpectedMath.
Proof.
  cbv zeta. split; [vm_compute; reflexivity|]. split; [vm_compute; reflexivity|]. split; vm_compute; reflexivity.
Qed.

(* the hypotheses are satisfiable by a product with a sum inside whose second operand is converted:
   (a[mV] + b[volt]) * a   becomes   (a + _1000[mV/volt] * b) * a  in mV**2 *)
Definition G_x : env :=
  mkEnv [[(2%Z, (-3 # 1)%Q); (5%Z, (-3 # 1)%Q); ((-2)%Z, 1%Q); ((-1)%Z, 2%Q); ((-3)%Z, (-3 # 1)%Q); ((-4)%Z, (-1 # 1)%Q)];
         [((-2)%Z, 1%Q); ((-1)%Z, 2%Q); ((-3)%Z, (-3 # 1)%Q); ((-4)%Z, (-1 # 1)%Q)]]      (* atoms: mV, volt *)
        [[]; [(0%Z, 1%Q)]; [(1%Z, 1%Q)]]                                                   (* units: dimensionless, mV, volt *)
        [(1%Z, None); (2%Z, None)].                                                        (* a : mV, b : volt *)
Definition e_x : expr := EMul [EAdd [EVar 0; EVar 1]; EVar 0].
Definition e_x' : expr := EMul [EAdd [EVar 0; EMul [EQty (-1) 1000 (-3); EVar 1]]; EVar 0].     (* convert's output *)
Definition e_x'' : expr := EMul [EAdd [EVar 0; EMul [EQty (-1) 1000 3; EVar 1]]; EVar 0].      (* decorated *)
Definition D_x : list nunit := [udiv [(0%Z, 1%Q)] [(1%Z, 1%Q)]].                                 (* unit 3 = mV/volt *)
Definition u_x : nunit := [(0%Z, 1%Q); (0%Z, 1%Q)].                                              (* mV * mV *)

Lemma result_infers_example :
  strictb G_x e_x = true /\
  convert G_x e_x None = UOk (e_x', true, u_x) /\
  erase (tabN G_x) e_x'' = e_x' /\ no_python_exception (ext G_x D_x) e_x'' = true /\
  exists r, infer (ext G_x D_x) e_x'' = UOk r /\ sem_equiv G_x (fst r) u_x = true.
Proof.
  split; [vm_compute; reflexivity|]. split; [vm_compute; reflexivity|].
  split; [vm_compute; reflexivity|]. split; [vm_compute; reflexivity|].
  exists (u_x, MSym). split; vm_compute; reflexivity.
Qed.
