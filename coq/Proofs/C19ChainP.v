(* C19: the chain of rules chosen by [shortest] is a genuine path of registered rules from the source dimension to the
   target dimension (so convert_with_rules never applies a rule whose source dimension the quantity does not have). *)
From Coq Require Import List ZArith QArith Bool Lia.
From Verif Require Import Sexp UnitAlg UnitAlgP UStore URules C19P.
Import ListNotations.

Fixpoint is_chain (rules : list rule) (src : uvec) (p : list rule) (dst : uvec) : Prop :=
  match p with
  | [] => same_dim src dst = true
  | r :: p' => In r rules /\ same_dim (r_from r) src = true /\ is_chain rules (r_to r) p' dst
  end.

Lemma shortest_is_chain fuel rules : forall vis a b p,
  shortest fuel rules vis a b = Some p -> is_chain rules a p b.
Proof.
  induction fuel as [|f IH]; intros vis a b p H; cbn [shortest] in H; [discriminate|].
  destruct (same_dim a b) eqn:Hab.
  - injection H as <-. exact Hab.
  - revert H.
    assert (G : forall (l : list rule) best, incl l rules ->
              (forall q, best = Some q -> is_chain rules a q b) ->
              forall q, fold_left (fun best r =>
                if same_dim (r_from r) a && negb (existsb (same_dim (r_to r)) (a :: vis))
                then match shortest f rules (a :: vis) (r_to r) b with
                     | Some p => match best with
                                 | Some b0 => if Nat.ltb (S (length p)) (length b0) then Some (r :: p) else best
                                 | None => Some (r :: p)
                                 end
                     | None => best
                     end
                else best) l best = Some q -> is_chain rules a q b).
    { induction l as [|r l IHl]; intros best Hin Hb q Hq; cbn [fold_left] in Hq; [exact (Hb q Hq)|].
      apply (IHl _ (fun x Hx => Hin x (or_intror Hx))) in Hq; [exact Hq|].
      intros q' Hq'.
      destruct (same_dim (r_from r) a && negb (existsb (same_dim (r_to r)) (a :: vis))) eqn:Hc; [|exact (Hb q' Hq')].
      apply andb_true_iff in Hc as [Hfrom _].
      destruct (shortest f rules (a :: vis) (r_to r) b) as [p0|] eqn:Hs; [|exact (Hb q' Hq')].
      assert (Hnew : is_chain rules a (r :: p0) b).
      { cbn [is_chain]. split; [apply Hin; left; reflexivity|]. split; [exact Hfrom|]. exact (IH _ _ _ _ Hs). }
      destruct best as [b0|].
      - destruct (Nat.ltb (S (length p0)) (length b0)).
        + injection Hq' as <-. exact Hnew.
        + exact (Hb q' Hq').
      - injection Hq' as <-. exact Hnew. }
    intro H. apply (G rules None (incl_refl _)); [discriminate|exact H].
Qed.

(* the chain used by a successful conversion between different dimensions is non-empty *)
Lemma shortest_nonempty fuel rules vis a b p :
  shortest fuel rules vis a b = Some p -> same_dim a b = false -> p <> [].
Proof.
  intros H Hab ->. apply shortest_is_chain in H. cbn [is_chain] in H. congruence.
Qed.

Theorem chain_is_registered_path rules a b st c :
  convert_with_rules rules a b = Ok (st, c) ->
  exists path, shortest (S (length rules)) rules [] a b = Some path /\ is_chain rules a path b /\
               (same_dim a b = false -> path <> []).
Proof.
  unfold convert_with_rules. intro H.
  destruct (shortest (S (length rules)) rules [] a b) as [path|] eqn:Hs; [|discriminate].
  exists path. split; [reflexivity|]. split; [exact (shortest_is_chain _ _ _ _ _ _ Hs)|].
  intro Hab. exact (shortest_nonempty _ _ _ _ _ _ Hs Hab).
Qed.


(* closed form of the magnitude factor accumulated along a chain: the coefficient is 1 multiplied / divided by the rules'
   numeric coefficients in chain order, the symbols are the rules' symbols in chain order with exponent +1 / -1 *)
Definition chain_q (path : list rule) : Q :=
  fold_left (fun q r => if r_div r then (q / r_kq r)%Q else (q * r_kq r)%Q) path 1%Q.
Definition chain_syms (path : list rule) : list (Z * Z) :=
  flat_map (fun r => map (fun s => (s, if r_div r then -1 else 1)%Z) (r_ksym r)) path.

Lemma apply_path_value path : forall st,
  a_q (fold_left (fun st r => apply_rule r st) path st) =
    fold_left (fun q r => if r_div r then (q / r_kq r)%Q else (q * r_kq r)%Q) path (a_q st) /\
  a_syms (fold_left (fun st r => apply_rule r st) path st) = a_syms st ++ chain_syms path.
Proof.
  induction path as [|r path IH]; intros st; cbn [fold_left chain_syms flat_map].
  - split; [reflexivity|]. rewrite app_nil_r. reflexivity.
  - destruct (IH (apply_rule r st)) as [A B]. rewrite A, B. unfold apply_rule.
    destruct (r_div r); cbn [a_q a_syms]; (split; [reflexivity|]); rewrite <- app_assoc; reflexivity.
Qed.

Theorem chain_value rules a b st c :
  convert_with_rules rules a b = Ok (st, c) ->
  exists path, shortest (S (length rules)) rules [] a b = Some path /\
    a_q st = chain_q path /\ a_syms st = chain_syms path /\
    ueq (a_unit st) (umul a (chain_unit path)) /\ conv (a_unit st) b = Some c.
Proof.
  unfold convert_with_rules. intro H.
  destruct (shortest (S (length rules)) rules [] a b) as [path|] eqn:Hs; [|discriminate].
  exists path. split; [reflexivity|].
  set (s0 := {| a_q := 1%Q; a_syms := []; a_unit := a |}) in *.
  destruct (conv (a_unit (fold_left (fun st r => apply_rule r st) path s0)) b) as [c0|] eqn:Hc; [|discriminate].
  injection H as <- <-.
  destruct (apply_path_value path s0) as [A B]. destruct (apply_path_spec path s0) as [U _].
  repeat split; [exact A|exact B|exact U|exact Hc].
Qed.
