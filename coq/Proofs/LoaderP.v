(* Shared lemmas about Model/Loader.v: the result monad, list updates, the connection work-list
   (schedules, monotonicity, fuel), the connected_variable_mapping chain.  Used by C01P, C15P, C17P. *)
From Coq Require Import List ZArith QArith Bool Lia Permutation.
From Verif Require Import Sexp UnitAlg Expr Loader.
Import ListNotations.

(* ---- result monad ------------------------------------------------------------------------------ *)
Lemma bind_ok {S T} (r : result S) (f : S -> result T) y :
  bind r f = OK y -> exists x, r = OK x /\ f x = OK y.
Proof. destruct r; cbn; intros H; try discriminate. eauto. Qed.

Lemma bind_fuel {S T} (r : result S) (f : S -> result T) :
  bind r f = OutOfFuel -> r = OutOfFuel \/ exists x, r = OK x /\ f x = OutOfFuel.
Proof. destruct r; cbn; intros H; try discriminate; eauto. Qed.

Lemma foldM_app {S E} (step : S -> E -> result S) l1 l2 s :
  foldM step (l1 ++ l2) s = bind (foldM step l1 s) (foldM step l2).
Proof.
  revert s. induction l1 as [|x r IH]; intros s; cbn; [reflexivity|].
  destruct (step s x); cbn; auto.
Qed.

Lemma foldM_nofuel {S E} (step : S -> E -> result S) :
  (forall s x, step s x <> OutOfFuel) -> forall l s, foldM step l s <> OutOfFuel.
Proof.
  intros H l. induction l as [|x r IH]; intros s; cbn; [discriminate|].
  specialize (H s x). destruct (step s x); cbn; [apply IH | discriminate | congruence].
Qed.

Lemma foldM_nofuel_in {S E} (step : S -> E -> result S) l :
  (forall s x, In x l -> step s x <> OutOfFuel) -> forall s, foldM step l s <> OutOfFuel.
Proof.
  induction l as [|x r IH]; intros H s; cbn; [discriminate|].
  pose proof (H s x (or_introl eq_refl)) as Hx. destruct (step s x); cbn; [|discriminate|congruence].
  apply IH. intros s' y Hy. apply H. now right.
Qed.

(* ---- upd / nth ---------------------------------------------------------------------------------- *)
Lemma length_upd {T} (l : list T) i x : length (upd l i x) = length l.
Proof. revert i. induction l; intros [|i]; cbn; auto. Qed.

Lemma nth_upd_eq {T} (l : list T) i x d : (i < length l)%nat -> nth i (upd l i x) d = x.
Proof. revert i. induction l; intros [|i] H; cbn in *; try lia; auto. apply IHl. lia. Qed.

Lemma nth_upd_neq {T} (l : list T) i j x d : i <> j -> nth j (upd l i x) d = nth j l d.
Proof. revert i j. induction l; intros [|i] [|j] H; cbn; auto; try congruence. Qed.

Lemma upd_comm {T} (l : list T) i j x y : i <> j -> upd (upd l i x) j y = upd (upd l j y) i x.
Proof.
  revert i j. induction l; intros [|i] [|j] H; cbn; auto; try congruence. f_equal. apply IHl. congruence.
Qed.

Lemma find_index_lt {T} (f : T -> bool) l i : find_index f l = Some i -> (i < length l)%nat.
Proof.
  revert i. induction l as [|x r IH]; cbn; intros i H; [discriminate|].
  destruct (f x). { inversion H. lia. }
  destruct (find_index f r) eqn:E; cbn in H; inversion H. specialize (IH _ eq_refl). lia.
Qed.

Lemma find_index_nth {T} (f : T -> bool) l i : find_index f l = Some i -> exists x, nth_error l i = Some x /\ f x = true.
Proof.
  revert i. induction l as [|x r IH]; cbn; intros i H; [discriminate|].
  destruct (f x) eqn:Fx. { inversion H. cbn. eauto. }
  destruct (find_index f r) eqn:E; cbn in H; inversion H. cbn. apply IH. reflexivity.
Qed.

Lemma find_index_none {T} (f : T -> bool) l : find_index f l = None -> forall x, In x l -> f x = false.
Proof.
  induction l as [|y r IH]; cbn; intros H x Hx; [contradiction|].
  destruct (f y) eqn:Fy; [discriminate|]. destruct (find_index f r) eqn:E; [discriminate|].
  destruct Hx as [->|Hx]; auto.
Qed.

Lemma find_index_some_ex {T} (f : T -> bool) l x : In x l -> f x = true -> exists i, find_index f l = Some i.
Proof.
  intros Hx Fx. destruct (find_index f l) eqn:E; [eauto|].
  rewrite (find_index_none _ _ E _ Hx) in Fx. discriminate.
Qed.

(* ---- the work-list ------------------------------------------------------------------------------- *)
Section Conn.
  Variable vars : list fv.

  Fixpoint run (st : cstate) (p : list (nat * nat)) : option cstate :=
    match p with
    | [] => Some st
    | c :: r => match cstep vars st c with ODone st' => run st' r | _ => None end
    end.

  Lemma run_app st p1 p2 : run st (p1 ++ p2) = match run st p1 with Some s => run s p2 | None => None end.
  Proof. revert st. induction p1 as [|c r IH]; intros st; cbn; auto. destruct (cstep vars st c); auto. Qed.

  Lemma cstep_done st s t st' : cstep vars st (s, t) = ODone st' ->
    nth t (asg st) None = None /\
    exists a cf, nth s (asg st) None = Some a /\ conv (uv_of vars s) (uv_of vars t) = Some cf /\
      ((is_one cf = true /\ exists cm', cm_step (cmt st) s t = Some cm' /\
          st' = mkCs (upd (asg st) t (Some a)) cm' ((t, s) :: cmap st) (ceqs st))
       \/ (is_one cf = false /\ defined (ceqs st) (Z.of_nat t) = false /\
          st' = mkCs (upd (asg st) t (Some t)) (cmt st) ((t, s) :: cmap st) (FConv t a cf :: ceqs st))).
  Proof.
    unfold cstep; cbn [fst snd]. intros H.
    destruct (nth t (asg st) None) eqn:Et; [discriminate|]. split; [reflexivity|].
    destruct (nth s (asg st) None) as [a|] eqn:Es; [|discriminate].
    destruct (conv (uv_of vars s) (uv_of vars t)) as [cf|] eqn:Ec; [|discriminate].
    exists a, cf. repeat split; auto.
    destruct (is_one cf) eqn:E1.
    - left. split; auto. destruct (cm_step (cmt st) s t) as [cm'|]; [|discriminate].
      inversion H. eauto.
    - right. split; auto. unfold add_eq in H. cbn [feq_kind] in H.
      destruct (defined (ceqs st) (Z.of_nat t)) eqn:Ed; [discriminate|]. inversion H. auto.
  Qed.

  (* what a successful step does to assigned_to *)
  Lemma cstep_asg st c st' : cstep vars st c = ODone st' ->
    nth (snd c) (asg st) None = None /\ nth (fst c) (asg st) None <> None /\
    exists x, asg st' = upd (asg st) (snd c) (Some x) /\ cmap st' = (snd c, fst c) :: cmap st.
  Proof.
    destruct c as [s t]. intros H. apply cstep_done in H. destruct H as (Ht & a & cf & Hs & _ & H).
    cbn [fst snd]. split; auto. split; [congruence|].
    destruct H as [(_ & cm' & _ & ->)|(_ & _ & ->)]; cbn; eauto.
  Qed.

  Lemma cstep_length st c st' : cstep vars st c = ODone st' -> length (asg st') = length (asg st).
  Proof. intros H. apply cstep_asg in H. destruct H as (_ & _ & x & -> & _). apply length_upd. Qed.

  (* assigned stays assigned *)
  Lemma cstep_mono st c st' i : cstep vars st c = ODone st' -> nth i (asg st) None <> None -> nth i (asg st') None = nth i (asg st) None.
  Proof.
    intros H Hi. apply cstep_asg in H. destruct H as (Ht & _ & x & -> & _).
    apply nth_upd_neq. intros <-. contradiction.
  Qed.

  Lemma run_length st p st' : run st p = Some st' -> length (asg st') = length (asg st).
  Proof.
    revert st. induction p as [|c r IH]; intros st H; cbn in H. { inversion H. auto. }
    destruct (cstep vars st c) eqn:E; try discriminate. rewrite (IH _ H). eapply cstep_length; eauto.
  Qed.

  Lemma run_mono st p st' i : run st p = Some st' -> nth i (asg st) None <> None -> nth i (asg st') None = nth i (asg st) None.
  Proof.
    revert st. induction p as [|c r IH]; intros st H Hi; cbn in H. { inversion H. auto. }
    destruct (cstep vars st c) eqn:E; try discriminate.
    pose proof (cstep_mono _ _ _ i E Hi) as M. rewrite <- M. apply IH; auto. congruence.
  Qed.

  (* every connection of a successful schedule has an unassigned target at the start *)
  Lemma run_targets_free st p st' : run st p = Some st' -> forall c, In c p -> nth (snd c) (asg st) None = None.
  Proof.
    revert st. induction p as [|d r IH]; intros st H c Hc; cbn in H; [contradiction|].
    destruct (cstep vars st d) eqn:E; try discriminate.
    destruct Hc as [->|Hc]. { apply cstep_asg in E. tauto. }
    specialize (IH _ H _ Hc).
    destruct (nth (snd c) (asg st) None) eqn:En; auto.
    rewrite (cstep_mono _ _ _ (snd c) E) in IH; congruence.
  Qed.

  (* a variable that is the target of no scheduled connection keeps its assigned_to *)
  Lemma run_untouched st p st' i : run st p = Some st' -> (forall c, In c p -> snd c <> i) ->
    nth i (asg st') None = nth i (asg st) None.
  Proof.
    revert st. induction p as [|d r IH]; intros st H Hn; cbn in H. { inversion H. auto. }
    destruct (cstep vars st d) eqn:E; try discriminate.
    rewrite (IH _ H) by (intros c Hc; apply Hn; now right).
    apply cstep_asg in E. destruct E as (_ & _ & x & -> & _). apply nth_upd_neq. apply Hn. now left.
  Qed.

  (* in range targets become assigned *)
  Lemma cstep_assigns st c st' : cstep vars st c = ODone st' -> (snd c < length (asg st))%nat ->
    nth (snd c) (asg st') None <> None.
  Proof.
    intros H L. apply cstep_asg in H. destruct H as (_ & _ & x & -> & _). rewrite nth_upd_eq; auto. discriminate.
  Qed.

  Lemma run_assigns st p st' : run st p = Some st' -> (forall c, In c p -> (snd c < length (asg st))%nat) ->
    forall c, In c p -> nth (snd c) (asg st') None <> None.
  Proof.
    revert st. induction p as [|d r IH]; intros st H L c Hc; cbn in H; [contradiction|].
    destruct (cstep vars st d) eqn:E; try discriminate.
    assert (L' : forall c, In c r -> (snd c < length (asg s))%nat).
    { intros c' Hc'. rewrite (cstep_length _ _ _ E). apply L. now right. }
    destruct Hc as [<-|Hc]; [|eapply IH; eauto].
    assert (A : nth (snd d) (asg s) None <> None) by (eapply cstep_assigns; eauto; apply L; now left).
    rewrite (run_mono _ _ _ (snd d) H A). exact A.
  Qed.

  Lemma run_nodup_targets st p st' : run st p = Some st' -> (forall c, In c p -> (snd c < length (asg st))%nat) ->
    NoDup (map snd p).
  Proof.
    revert st. induction p as [|d r IH]; intros st H L; cbn in H; [constructor|].
    destruct (cstep vars st d) eqn:E; try discriminate.
    assert (L' : forall c, In c r -> (snd c < length (asg s))%nat).
    { intros c' Hc'. rewrite (cstep_length _ _ _ E). apply L. now right. }
    cbn. constructor; [|eapply IH; eauto].
    intros Hin. apply in_map_iff in Hin. destruct Hin as (c & Hc & Hcr).
    pose proof (run_targets_free _ _ _ H c Hcr) as F. rewrite Hc in F.
    apply (cstep_assigns _ _ _ E); auto. apply L. now left.
  Qed.

  Lemma connect_cons f c r cnt st : connect vars (S f) (c :: r) cnt st =
    match cstep vars st c with
    | OErr e => Error e
    | ODefer => if Nat.ltb (length (r ++ [c])) (S cnt) then Error EConnStuck else connect vars f (r ++ [c]) (S cnt) st
    | ODone st' => connect vars f r 0 st'
    end.
  Proof. reflexivity. Qed.

  (* ---- schedule of a successful work-list run ---- *)
  Lemma connect_schedule fuel : forall q cnt st st', connect vars fuel q cnt st = OK st' ->
    exists p, Permutation p q /\ run st p = Some st'.
  Proof.
    induction fuel as [|f IH]; intros q cnt st st' H; destruct q as [|c r];
      try rewrite connect_cons in H; try (cbn in H; discriminate).
    - inversion H. exists []. split; [constructor|reflexivity].
    - inversion H. exists []. split; [constructor|reflexivity].
    - destruct (cstep vars st c) eqn:E; try discriminate.
      + destruct (Nat.ltb (length (r ++ [c])) (S cnt)); [discriminate|].
        apply IH in H. destruct H as (p & Hp & Hr). exists p. split; auto.
        eapply Permutation_trans; [exact Hp|]. apply Permutation_sym, Permutation_cons_append.
      + apply IH in H. destruct H as (p & Hp & Hr). exists (c :: p). split; [now constructor|].
        cbn. rewrite E. exact Hr.
  Qed.

  (* ---- fuel: the progress counter bounds the loop ---- *)
  Lemma connect_total fuel : forall q cnt st, (cnt <= length q)%nat ->
    (length q * (length q + 1) + (length q - cnt) < fuel)%nat -> connect vars fuel q cnt st <> OutOfFuel.
  Proof.
    induction fuel as [|f IH]; intros q cnt st Hc Hf; [lia|].
    destruct q as [|c r]; [cbn; discriminate|]. rewrite connect_cons.
    destruct (cstep vars st c) eqn:E; [discriminate| |].
    - destruct (Nat.ltb (length (r ++ [c])) (S cnt)) eqn:El; [discriminate|].
      apply Nat.ltb_ge in El. apply IH; [lia|].
      rewrite app_length in *. cbn [length] in *. nia.
    - apply IH; [lia|]. cbn [length] in *. nia.
  Qed.

  Lemma connect_total0 q st : connect vars (conn_fuel q) q 0 st <> OutOfFuel.
  Proof. apply connect_total; [lia|]. unfold conn_fuel. nia. Qed.
End Conn.

(* ---- the mapping chain ---------------------------------------------------------------------------- *)
Lemma lookup_cons m t s i : lookup ((t, s) :: m) i = if Nat.eqb t i then Some s else lookup m i.
Proof. unfold lookup. cbn. destruct (Nat.eqb t i); reflexivity. Qed.

Lemma lookup_in m i s : lookup m i = Some s -> In (i, s) m.
Proof.
  induction m as [|[t x] r IH]; [discriminate|]. rewrite lookup_cons.
  destruct (Nat.eqb t i) eqn:E. { intros H. inversion H. apply Nat.eqb_eq in E. subst. now left. }
  intros H. right. auto.
Qed.

Lemma lookup_none m i : lookup m i = None -> ~ In i (map fst m).
Proof.
  induction m as [|[t x] r IH]; [auto|]. rewrite lookup_cons.
  destruct (Nat.eqb t i) eqn:E; [discriminate|]. apply Nat.eqb_neq in E.
  intros H0 [A|A]; [cbn in A; congruence|]. exact (IH H0 A).
Qed.

Lemma lookup_notin m i : ~ In i (map fst m) -> lookup m i = None.
Proof.
  induction m as [|[t x] r IH]; [reflexivity|]. rewrite lookup_cons. cbn. intros H.
  destruct (Nat.eqb t i) eqn:E. { apply Nat.eqb_eq in E. tauto. } tauto.
Qed.

Lemma rep_result fuel m : forall i r, rep fuel m i = Some r -> lookup m r = None.
Proof.
  induction fuel as [|f IH]; intros i r; cbn; destruct (lookup m i) eqn:E; intros H; try discriminate.
  - inversion H. congruence.
  - eauto.
  - inversion H. congruence.
Qed.

Lemma rep_more fuel m : forall i r, rep fuel m i = Some r -> rep (S fuel) m i = Some r.
Proof.
  induction fuel as [|f IH]; intros i r H.
  - cbn in H. cbn. destruct (lookup m i); [discriminate|exact H].
  - cbn in H. change (rep (S (S f)) m i) with (match lookup m i with None => Some i | Some s => rep (S f) m s end).
    destruct (lookup m i); auto.
Qed.

Lemma rep_mono fuel fuel' m i r : (fuel <= fuel')%nat -> rep fuel m i = Some r -> rep fuel' m i = Some r.
Proof. induction 1; auto. intros H0. apply rep_more. auto. Qed.

(* ---- the chain invariant of the work-list (C01_rep_chain) ------------------------------------------ *)
(* [m] is newest first.  Every entry (t, s): t was unassigned at the start and is not mapped by an older entry,
   s is another variable that was assigned at the start or is the target of an older entry. *)
Fixpoint chain_ok (init : list (option nat)) (m : list (nat * nat)) : Prop :=
  match m with
  | [] => True
  | (t, s) :: r => chain_ok init r /\ ~ In t (map fst r) /\ nth t init None = None /\ s <> t /\
                   (In s (map fst r) \/ nth s init None <> None)
  end.

Lemma chain_vals init m : chain_ok init m -> forall t s, In (t, s) m -> In s (map fst m) \/ nth s init None <> None.
Proof.
  induction m as [|[t0 s0] r IH]; cbn; intros H t s Hin; [contradiction|].
  destruct H as (Hr & _ & _ & _ & Hs). destruct Hin as [E|Hin].
  - inversion E; subst. destruct Hs; auto.
  - destruct (IH Hr _ _ Hin); auto.
Qed.

Lemma chain_keys_init init m : chain_ok init m -> forall t, In t (map fst m) -> nth t init None = None.
Proof.
  induction m as [|[t0 s0] r IH]; cbn; intros H t Hin; [contradiction|].
  destruct H as (Hr & _ & Ht & _). destruct Hin as [<-|Hin]; auto.
Qed.

Lemma rep_cons_other fuel t s m : (forall t' s', In (t', s') m -> s' <> t) ->
  forall i, i <> t -> rep fuel ((t, s) :: m) i = rep fuel m i.
Proof.
  intros Hv. induction fuel as [|f IH]; intros i Hi; cbn [rep]; rewrite lookup_cons;
    (destruct (Nat.eqb t i) eqn:E; [apply Nat.eqb_eq in E; congruence|]).
  - reflexivity.
  - destruct (lookup m i) as [s'|] eqn:El; [|reflexivity]. apply IH. apply lookup_in in El. eauto.
Qed.

Lemma rep_terminates init m : chain_ok init m -> forall i, exists r, rep (length m) m i = Some r.
Proof.
  induction m as [|[t s] r IH]; intros H i. { exists i. reflexivity. }
  cbn in H. destruct H as (Hr & Hk & Ht & Hst & Hs). specialize (IH Hr).
  assert (Hv : forall t' s', In (t', s') r -> s' <> t).
  { intros t' s' Hin E. subst s'. destruct (chain_vals _ _ Hr _ _ Hin) as [A|A]; [auto|congruence]. }
  destruct (Nat.eq_dec i t) as [->|Hi].
  - cbn [length rep]. rewrite lookup_cons, Nat.eqb_refl. rewrite rep_cons_other; auto.
  - cbn [length]. rewrite rep_cons_other; auto. destruct (IH i) as (x & Hx). exists x. now apply rep_more.
Qed.

Section Chain.
  Variable vars : list fv.

  (* reachable states of the work-list, started from [s0] with an empty mapping *)
  Definition conn_inv (init : list (option nat)) (st : cstate) : Prop :=
    chain_ok init (cmap st) /\ length (asg st) = length init /\
    (forall t, In t (map fst (cmap st)) -> nth t (asg st) None <> None) /\
    (forall i, nth i (asg st) None <> None -> In i (map fst (cmap st)) \/ nth i init None <> None) /\
    (forall i, nth i init None <> None -> nth i (asg st) None <> None).

  Lemma conn_inv_init st : cmap st = [] -> conn_inv (asg st) st.
  Proof.
    intros E. unfold conn_inv. rewrite E. cbn.
    split; [exact I|]. split; [reflexivity|]. split; [intros t []|]. split; [intros i A; right; exact A|]. auto.
  Qed.

  Lemma conn_inv_step init st c st' : conn_inv init st -> cstep vars st c = ODone st' ->
    (snd c < length init)%nat -> conn_inv init st'.
  Proof.
    intros (Hc & Hl & Hk & Ha & Hi) E L.
    pose proof (cstep_asg _ _ _ _ E) as (Ht & Hs & x & Ea & Em).
    unfold conn_inv. rewrite Em, Ea, length_upd. cbn [chain_ok map fst].
    assert (Hnk : ~ In (snd c) (map fst (cmap st))) by (intros A; apply (Hk _ A); exact Ht).
    assert (Hti : nth (snd c) init None = None).
    { destruct (nth (snd c) init None) eqn:En; auto. exfalso. apply (Hi (snd c)); congruence. }
    repeat split; auto.
    - intros E'. apply Hs. rewrite E'. exact Ht.
    - intros t [<-|A].
      + rewrite nth_upd_eq by lia. discriminate.
      + rewrite nth_upd_neq; auto. intros <-. contradiction.
    - intros i A. destruct (Nat.eq_dec (snd c) i) as [<-|N]; [left; now left|].
      rewrite nth_upd_neq in A by auto. destruct (Ha _ A); auto. left. now right.
    - intros i A. destruct (Nat.eq_dec (snd c) i) as [<-|N]; [congruence|].
      rewrite nth_upd_neq by auto. auto.
  Qed.

  Lemma conn_inv_run init : forall p st st', conn_inv init st -> run vars st p = Some st' ->
    (forall c, In c p -> (snd c < length init)%nat) -> conn_inv init st'.
  Proof.
    induction p as [|c r IH]; intros st st' I H L; cbn in H. { inversion H. subst. exact I. }
    destruct (cstep vars st c) as [| |s1] eqn:E; try discriminate.
    apply (IH s1 st'); [eapply conn_inv_step; eauto; apply L; now left | exact H | intros c' Hc'; apply L; now right].
  Qed.

  (* mapping entries are scheduled connections *)
  Lemma run_cmap_in : forall p st st', run vars st p = Some st' ->
    forall t s, In (t, s) (cmap st') -> In (t, s) (cmap st) \/ In (s, t) p.
  Proof.
    induction p as [|c r IH]; intros st st' H t s Hin; cbn in H. { inversion H. subst. auto. }
    destruct (cstep vars st c) as [| |s1] eqn:E; try discriminate.
    destruct (IH _ _ H _ _ Hin) as [A|A]; [|right; now right].
    apply cstep_asg in E. destruct E as (_ & _ & x & _ & Em). rewrite Em in A. destruct A as [A|A]; auto.
    inversion A. subst. right. left. destruct c; reflexivity.
  Qed.
End Chain.
