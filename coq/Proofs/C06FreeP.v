(* C06: INPUT conversion of the FREE variable (time) -- specification-level system and its semantic equivalence.
   The imperative model (Model/ConvertVar.v) reaches this system up to the order of the equations; that refinement is
   evaluated by the interpreter on every correspondence case (free_system_matches), not proved. *)
From Coq Require Import List ZArith QArith Bool Lia Reals Lra Qreals Permutation.
From Verif Require Import Sexp Expr Eval EvalP ModelSM ConvertVar C06EvalP C06P C06ReplaceP.
Import ListNotations.
Open Scope R_scope.

(* ---- multi-substitution ------------------------------------------------------------------------------------- *)
Section Sem.
Variable fsem : Z -> list R -> option R.
Variable psem : R -> R -> option R.
Variable csem : Z -> option R.
Hypothesis psem_inv : forall x, x <> 0 -> psem x (Q2R (-1 # 1)) = Some (/ x).

Notation ev := (ev fsem psem csem).
Notation Sat := (Sat fsem psem csem).
Notation sat1 := (sat1 fsem psem csem).

Definition holds_all (m : list ((nat * nat) * nat)) (nu : nat -> R) (dl : nat -> nat -> R) : Prop :=
  Forall (fun e => nu (snd e) = dl (fst (fst e)) (snd (fst e))) m.

Definition key_of (a b : nat) := fun yw : (nat * nat) * nat => Nat.eqb (fst (fst yw)) a && Nat.eqb (snd (fst yw)) b.

(* dl1 is read through the substitution, dl2 directly: they may differ on the substituted atoms *)
Lemma ev_subst_gen m nu dl1 dl2 e : holds_all m nu dl2 ->
  (forall a b, find (key_of a b) m = None -> dl1 a b = dl2 a b) ->
  ev nu dl1 (subst_deriv m e) = ev nu dl2 e.
Proof.
  intros Hm Hag.
  induction e as [k q|c|id q u|v|l IH|l IH|b e IHb IHe|f l IH|a b k IHy IHt|r a b IHa IHb|op l IH| | |l IH] using expr_ind';
    try reflexivity.
  - cbn [subst_deriv]. rewrite subst_list. unfold C06EvalP.ev. rewrite !eval_add.
    pose proof (evs_congr fsem psem csem nu dl1 nu dl2 (subst_deriv m) l IH) as E. unfold evs in E. rewrite E. reflexivity.
  - cbn [subst_deriv]. rewrite subst_list. unfold C06EvalP.ev. rewrite !eval_mul.
    pose proof (evs_congr fsem psem csem nu dl1 nu dl2 (subst_deriv m) l IH) as E. unfold evs in E. rewrite E. reflexivity.
  - cbn [subst_deriv]. unfold C06EvalP.ev in *. cbn [eval]. rewrite IHb, IHe. reflexivity.
  - cbn [subst_deriv]. rewrite subst_list. unfold C06EvalP.ev. rewrite !eval_fn.
    pose proof (evs_congr fsem psem csem nu dl1 nu dl2 (subst_deriv m) l IH) as E. unfold evs in E. rewrite E. reflexivity.
  - destruct a as [| | |va| | | | | | | | | |]; try reflexivity. destruct b as [| | |vb| | | | | | | | | |]; try reflexivity.
    destruct k as [|[p|p|]|p]; try reflexivity.
    cbn [subst_deriv]. fold (key_of (Z.to_nat va) (Z.to_nat vb)).
    destruct (find (key_of (Z.to_nat va) (Z.to_nat vb)) m) as [[[y t] w]|] eqn:Hf.
    + apply find_some in Hf as [Hin Hk]. unfold key_of in Hk. cbn [fst snd] in Hk. apply andb_true_iff in Hk as [H1 H2].
      apply Nat.eqb_eq in H1. apply Nat.eqb_eq in H2. subst y t.
      unfold holds_all in Hm. rewrite Forall_forall in Hm. specialize (Hm _ Hin). cbn [fst snd] in Hm.
      unfold C06EvalP.ev, var. cbn [eval snd]. unfold vsem_of, dsem_of. rewrite Nat2Z.id, Hm. reflexivity.
    + unfold C06EvalP.ev. cbn [eval]. unfold dsem_of. rewrite (Hag _ _ Hf). reflexivity.
  - cbn [subst_deriv]. unfold C06EvalP.ev in *. cbn [eval]. rewrite IHa, IHb. reflexivity.
  - cbn [subst_deriv]. rewrite subst_list. unfold C06EvalP.ev. rewrite !eval_bool.
    pose proof (evs_congr fsem psem csem nu dl1 nu dl2 (subst_deriv m) l IH) as E. unfold evs in E. rewrite E. reflexivity.
  - cbn [subst_deriv]. rewrite subst_plist. unfold C06EvalP.ev. rewrite !eval_pw.
    apply (evpw_congr fsem psem csem nu dl1 nu dl2 (subst_deriv m) l). exact IH.
Qed.

Lemma ev_subst_list m nu dl e : holds_all m nu dl -> ev nu dl (subst_deriv m e) = ev nu dl e.
Proof. intros Hm. apply ev_subst_gen; [exact Hm|reflexivity]. Qed.

(* ---- list updates ------------------------------------------------------------------------------------------- *)
(* states y_i with their ODE right-hand sides and the new variables w_i *)

Fixpoint upd_ws (nu : nat -> R) (os : list orec) (f : nat -> R) : nat -> R :=
  match os with
  | [] => nu
  | (y, _, w) :: r => upd (upd_ws nu r f) w (f y)
  end.
Fixpoint updd_col (dl : nat -> nat -> R) (os : list orec) (t : nat) (f : nat -> R) : nat -> nat -> R :=
  match os with
  | [] => dl
  | (y, _, _) :: r => updd (updd_col dl r t f) y t (f y)
  end.


Lemma upd_ws_other nu os f i : ~ In i (ws_of os) -> upd_ws nu os f i = nu i.
Proof.
  induction os as [|[[y R0] w] r IH]; cbn [upd_ws ws_of map snd In]; intros H; [reflexivity|].
  unfold upd. destruct (Nat.eqb_spec i w) as [->|]; [exfalso; apply H; left; reflexivity|]. apply IH. intro Hin. apply H. right. exact Hin.
Qed.

Lemma upd_ws_at nu os f y R0 w : NoDup (ws_of os) -> In (y, R0, w) os -> upd_ws nu os f w = f y.
Proof.
  induction os as [|[[y' R'] w'] r IH]; cbn [upd_ws ws_of map snd In]; intros Hnd Hin; [contradiction|].
  inversion Hnd as [|? ? Hnotin Hnd']; subst. unfold upd. destruct Hin as [E|Hin].
  - injection E as -> -> ->. rewrite Nat.eqb_refl. reflexivity.
  - destruct (Nat.eqb_spec w w') as [->|]; [exfalso; apply Hnotin; change w' with (snd (y, R0, w')); apply in_map; exact Hin|].
    apply IH; assumption.
Qed.

Lemma updd_col_other dl os t f a b : (b <> t \/ ~ In a (ys_of os)) -> updd_col dl os t f a b = dl a b.
Proof.
  induction os as [|[[y R0] w] r IH]; cbn [updd_col ys_of map fst In]; intros H; [reflexivity|].
  unfold updd. destruct (Nat.eqb_spec a y) as [->|Hne]; cbn [andb].
  - destruct (Nat.eqb_spec b t) as [->|]; [|apply IH; left; assumption].
    destruct H as [H|H]; [congruence|exfalso; apply H; left; reflexivity].
  - apply IH. destruct H as [H|H]; [left; exact H|right; intro Hin; apply H; right; exact Hin].
Qed.

Lemma updd_col_at dl os t f y R0 w : NoDup (ys_of os) -> In (y, R0, w) os -> updd_col dl os t f y t = f y.
Proof.
  induction os as [|[[y' R'] w'] r IH]; cbn [updd_col ys_of map fst In]; intros Hnd Hin; [contradiction|].
  inversion Hnd as [|? ? Hnotin Hnd']; subst. unfold updd. destruct Hin as [E|Hin].
  - injection E as -> -> ->. rewrite !Nat.eqb_refl. reflexivity.
  - destruct (Nat.eqb_spec y y') as [->|]; cbn [andb].
    + exfalso. apply Hnotin. apply (in_map (fun o : orec => fst (fst o)) r (y', R0, w)). exact Hin.
    + apply IH; assumption.
Qed.

(* an equation that mentions none of the new variables / atoms keeps its truth under the list updates *)
Lemma sat1_upd_ws os f nu dl q : (forall w, In w (ws_of os) -> fresh_var1 w q = true) ->
  (sat1 (upd_ws nu os f) dl q <-> sat1 nu dl q).
Proof.
  induction os as [|[[y R0] w] r IH]; cbn [upd_ws ws_of map snd In]; intros H; [tauto|].
  rewrite (sat1_upd fsem psem csem w _ _ dl q (H w (or_introl eq_refl))). apply IH. intros w' Hw'. apply H. right. exact Hw'.
Qed.

Lemma sat1_updd_col os t f nu dl q : (forall y, In y (ys_of os) -> fresh_atom1 y t q = true) ->
  (sat1 nu (updd_col dl os t f) q <-> sat1 nu dl q).
Proof.
  induction os as [|[[y R0] w] r IH]; cbn [updd_col ys_of map fst In]; intros H; [tauto|].
  rewrite (sat1_updd fsem psem csem y t _ nu _ q (H y (or_introl eq_refl))). apply IH. intros y' Hy'. apply H. right. exact Hy'.
Qed.

Definition w_of (os : list orec) (y : nat) : nat :=
  match find (fun o : orec => Nat.eqb (fst (fst o)) y) os with Some o => snd o | None => 0%nat end.

(* ---- the specification-level system after converting the free variable v into n ------------------------------- *)

Theorem input_free_equiv plain os v n id c u nu dl :
  NoDup (ws_of os) -> NoDup (ys_of os) ->
  (* the new variables n, w_i and the new atoms d y_i/d n are new for every original equation *)
  (forall q, In q (orig_system plain os v) -> fresh_var1 n q = true /\
        (forall w, In w (ws_of os) -> fresh_var1 w q = true) /\ (forall y, In y (ys_of os) -> fresh_atom1 y n q = true)) ->
  Forall (fun q => is_ode q = false) plain ->
  ~ In n (ws_of os) -> ~ In v (ws_of os) -> v <> n -> Q2R c <> 0 ->
  let cf := EQty id c u in
  let k := Q2R c in
  let l := orig_system plain os v in
  let l' := free_system plain os v n cf in
  (Sat nu dl l ->
   Sat (upd_ws (upd nu n (nu v * k)) os (fun y => dl y v)) (updd_col dl os n (fun y => dl y v / k)) l') /\
  (Sat nu dl l' ->
   Sat nu (updd_col dl os v (fun y => nu (w_of os y))) l /\
   nu n = nu v * k /\ Forall (fun o => dl (fst (fst o)) n = nu (snd o) / k) os).
Proof.
  intros Hndw Hndy Hfresh Hplain Hnw Hvw Hvn Hc cf k l l'.
  set (m := subst_map os v).
  assert (Hin_os : forall o, In o os -> In (snd o) (ws_of os) /\ In (fst (fst o)) (ys_of os)).
  { intros o Ho. split; [apply in_map; exact Ho|unfold ys_of; apply (in_map (fun o => fst (fst o))); exact Ho]. }
  split.
  - (* forward *)
    intros HS.
    set (nu' := upd_ws (upd nu n (nu v * k)) os (fun y => dl y v)). set (dl' := updd_col dl os n (fun y => dl y v / k)).
    assert (Hkeep : forall q, In q l -> (sat1 nu' dl' q <-> sat1 nu dl q)).
    { intros q Hq. destruct (Hfresh q Hq) as [Fn [Fw Fa]]. unfold nu', dl'.
      rewrite (sat1_upd_ws os _ _ _ q Fw). rewrite (sat1_upd fsem psem csem n _ nu _ q Fn). apply (sat1_updd_col os n _ nu dl q Fa). }
    assert (Hm' : holds_all m nu' dl').
    { unfold holds_all, m, subst_map. rewrite Forall_forall. intros e He. apply in_map_iff in He as [[[y R0] w] [<- Ho]]. cbn [fst snd].
      unfold nu', dl'. rewrite (upd_ws_at _ os _ y R0 w Hndw Ho). rewrite updd_col_other; [reflexivity|left; congruence]. }
    unfold C06P.Sat in HS. unfold l, orig_system in HS. apply Forall_app in HS as [HSp HSo].
    unfold C06P.Sat, l', free_system. fold m. repeat (apply Forall_app; split).
    + rewrite Forall_forall. intros q' Hq'. apply in_map_iff in Hq' as [q [<- Hq]].
      unfold C06P.sat1. cbn [q_rhs q_lhs]. rewrite (ev_subst_list m nu' dl' (q_rhs q) Hm').
      assert (Hql : In q l) by (apply in_or_app; left; exact Hq).
      rewrite Forall_forall in HSp. apply (proj2 (Hkeep q Hql)). apply HSp. exact Hq.
    + constructor; [|constructor]. unfold C06P.sat1. cbn [q_rhs q_lhs]. unfold cf.
      rewrite (ev_ediv fsem psem csem psem_inv nu' dl' (var n) id c u _ Hc (ev_var fsem psem csem nu' dl' n)).
      unfold nu'. rewrite !upd_ws_other by assumption. unfold upd. rewrite Nat.eqb_refl. destruct (Nat.eqb_spec v n); [contradiction|].
      unfold k. field. exact Hc.
    + rewrite Forall_forall. intros q' Hq'. apply in_map_iff in Hq' as [[[y R0] w] [<- Ho]]. cbn [fst snd].
      unfold C06P.sat1. cbn [q_rhs q_lhs]. rewrite (ev_subst_list m nu' dl' R0 Hm').
      set (qo := {| q_lhs := CLD y v; q_rhs := R0 |}).
      assert (Hqo : In qo l) by (apply in_or_app; right; apply in_map_iff; exists (y, R0, w); split; [reflexivity|exact Ho]).
      rewrite Forall_forall in HSo. assert (Hs : sat1 nu dl qo) by (apply HSo; apply in_map_iff; exists (y, R0, w); split; [reflexivity|exact Ho]).
      apply (Hkeep qo Hqo) in Hs. unfold C06P.sat1, qo in Hs. cbn [q_rhs q_lhs] in Hs.
      destruct (ev nu' dl' R0) as [[r|b]|]; try contradiction.
      unfold nu'. rewrite (upd_ws_at _ os _ y R0 w Hndw Ho).
      unfold dl' in Hs. rewrite updd_col_other in Hs by (left; congruence). exact Hs.
    + rewrite Forall_forall. intros q' Hq'. apply in_map_iff in Hq' as [[[y R0] w] [<- Ho]]. cbn [fst snd].
      unfold C06P.sat1. cbn [q_rhs q_lhs]. unfold cf.
      rewrite (ev_ediv fsem psem csem psem_inv nu' dl' (var w) id c u _ Hc (ev_var fsem psem csem nu' dl' w)).
      unfold nu', dl'. rewrite (upd_ws_at _ os _ y R0 w Hndw Ho), (updd_col_at dl os n _ y R0 w Hndy Ho). reflexivity.
  - (* backward *)
    intros HS. unfold C06P.Sat, l', free_system in HS. fold m in HS.
    apply Forall_app in HS as [H1 HS]. apply Forall_app in HS as [H2 HS]. apply Forall_app in HS as [H3 H4].
    set (wfun := fun y => nu (w_of os y)).
    set (dl2 := updd_col dl os v wfun).
    (* facts *)
    inversion H2 as [|? ? Hev _]; subst. unfold C06P.sat1 in Hev. cbn [q_rhs q_lhs] in Hev. unfold cf in Hev.
    rewrite (ev_ediv fsem psem csem psem_inv nu dl (var n) id c u _ Hc (ev_var fsem psem csem nu dl n)) in Hev.
    assert (Hfind : forall y R0 w, In (y, R0, w) os -> find (fun o : orec => Nat.eqb (fst (fst o)) y) os = Some (y, R0, w)).
    { intros y R0 w Ho. clear -Hndy Ho. induction os as [|[[y' R'] w'] r IH]; [contradiction|]. cbn [find fst].
      cbn [ys_of map fst] in Hndy. inversion Hndy as [|? ? Hnotin Hnd']; subst. destruct Ho as [E|Ho].
      - injection E as -> -> ->. rewrite Nat.eqb_refl. reflexivity.
      - destruct (Nat.eqb_spec y' y) as [->|]; [exfalso; apply Hnotin; apply (in_map (fun o : orec => fst (fst o)) r (y, R0, w)); exact Ho|].
        apply IH; assumption. }
    assert (Hm2 : holds_all m nu dl2).
    { unfold holds_all, m, subst_map. rewrite Forall_forall. intros e He. apply in_map_iff in He as [[[y R0] w] [<- Ho]]. cbn [fst snd].
      unfold dl2. rewrite (updd_col_at dl os v wfun y R0 w Hndy Ho). unfold wfun, w_of. rewrite (Hfind y R0 w Ho). reflexivity. }
    assert (Hag : forall a b, find (key_of a b) m = None -> dl a b = dl2 a b).
    { intros a b Hnone. unfold dl2. symmetry. apply updd_col_other.
      destruct (Nat.eqb_spec b v) as [->|Hb]; [right|left; exact Hb]. intros Hin.
      unfold ys_of in Hin. apply in_map_iff in Hin as [o [<- Ho]].
      assert (Hin : In ((fst (fst o), v), snd o) m) by (unfold m, subst_map; apply in_map_iff; exists o; split; [reflexivity|exact Ho]).
      pose proof (find_none _ _ Hnone _ Hin) as Hf. unfold key_of in Hf. cbn [fst snd] in Hf. rewrite !Nat.eqb_refl in Hf. discriminate. }
    split; [|split].
    + unfold C06P.Sat, l, orig_system. apply Forall_app. split.
      * rewrite Forall_forall. intros q Hq. rewrite Forall_forall in H1, Hplain.
        pose proof (H1 _ (in_map (fun q => {| q_lhs := q_lhs q; q_rhs := subst_deriv m (q_rhs q) |}) plain q Hq)) as Hs.
        pose proof (Hplain q Hq) as Hno. unfold is_ode in Hno.
        unfold C06P.sat1 in *. cbn [q_rhs q_lhs] in Hs.
        rewrite <- (ev_subst_gen m nu dl dl2 (q_rhs q) Hm2 Hag).
        destruct (ev nu dl (subst_deriv m (q_rhs q))) as [[r|b]|]; try contradiction.
        destruct (q_lhs q) as [x|x t]; [exact Hs|discriminate].
      * rewrite Forall_forall. intros q Hq. apply in_map_iff in Hq as [[[y R0] w] [<- Ho]]. cbn [fst snd].
        rewrite Forall_forall in H3.
        pose proof (H3 _ (in_map (fun o => {| q_lhs := CLV (snd o); q_rhs := subst_deriv m (snd (fst o)) |}) os _ Ho)) as Hs.
        unfold C06P.sat1 in *. cbn [q_rhs q_lhs fst snd] in *.
        rewrite <- (ev_subst_gen m nu dl dl2 R0 Hm2 Hag).
        destruct (ev nu dl (subst_deriv m R0)) as [[r|b]|]; try contradiction.
        unfold dl2. rewrite (updd_col_at dl os v wfun y R0 w Hndy Ho). unfold wfun, w_of. rewrite (Hfind y R0 w Ho). exact Hs.
    + rewrite Hev. unfold k. field. exact Hc.
    + rewrite Forall_forall. intros [[y R0] w] Ho. cbn [fst snd]. rewrite Forall_forall in H4.
      pose proof (H4 _ (in_map (fun o => {| q_lhs := CLD (fst (fst o)) n; q_rhs := ediv (var (snd o)) cf |}) os _ Ho)) as Hs.
      unfold C06P.sat1 in Hs. cbn [q_rhs q_lhs fst snd] in Hs. unfold cf in Hs.
      rewrite (ev_ediv fsem psem csem psem_inv nu dl (var w) id c u _ Hc (ev_var fsem psem csem nu dl w)) in Hs. exact Hs.
Qed.

End Sem.

Example input_free_premises_example : exists plain os v n,
  os <> [] /\ plain <> [] /\ NoDup (ws_of os) /\ NoDup (ys_of os) /\
  (forall q, In q (orig_system plain os v) -> fresh_var1 n q = true /\
        (forall w, In w (ws_of os) -> fresh_var1 w q = true) /\ (forall y, In y (ys_of os) -> fresh_atom1 y n q = true)) /\
  Forall (fun q => is_ode q = false) plain /\ ~ In n (ws_of os) /\ ~ In v (ws_of os) /\ v <> n.
Proof.
  exists [{| q_lhs := CLV 3; q_rhs := EAdd [var 1; EDeriv (EVar 2) (EVar 0) 1] |}],
         [(1, EMul [var 2; EDeriv (EVar 2) (EVar 0) 1], 5); (2, EMul [ENum 0 (-1 # 1); var 1], 6)]%nat, 0%nat, 4%nat.
  repeat split; try discriminate.
  - repeat constructor; cbn; intuition discriminate.
  - repeat constructor; cbn; intuition discriminate.
  - cbn in H. intuition (subst; reflexivity).
  - intros w Hw. cbn in H, Hw. intuition (subst; reflexivity).
  - intros y Hy. cbn in H, Hy. intuition (subst; reflexivity).
  - repeat constructor.
  - cbn. intuition discriminate.
  - cbn. intuition discriminate.
Qed.
