(* C06: closure under sequences of conversions (every step that is not an INPUT conversion of the free variable). *)
From Coq Require Import List ZArith QArith Bool Lia Reals Lra Qreals.
From Verif Require Import Sexp UnitAlg UnitAlgP Expr Eval ModelSM ConvertVar C06EvalP C06P C06ShapeP C06ReplaceP C06StateP C06MainP C06FreeP C06FoldP C06FreeMainP.
Import ListNotations.

(* ---- bookkeeping facts about convert_variable ------------------------------------------------------------------ *)
Lemma set_var_len l i f : length (set_var l i f) = length l.
Proof. apply set_var_length. Qed.

(* the variable list never shrinks, and the returned index is either the variable itself (nothing to do) or the first
   new index *)
Lemma convert_index_length s v target d mv s' n :
  convert_variable s v target d mv = COk (s', n) ->
  ((s' = s /\ n = v) \/ n = length (cvars s)) /\ (length (cvars s) <= length (cvars s'))%nat.
Proof.
  unfold convert_variable.
  destruct (nth_error (cvars s) v) as [orig|]; [|discriminate].
  destruct (conv (c_unit orig) target) as [cfv|]; [|discriminate].
  destruct (is_one cfv); [intros [= <- <-]; split; [left; split; reflexivity|lia]|].
  destruct (vec_to_Q cfv) as [cfq|]; [|discriminate].
  destruct d.
  2:{ intros [= <- <-]. cbn [cvars]. split; [right; reflexivity|].
      destruct (match c_cmeta orig with Some _ => mv | None => false end); rewrite ?set_var_len, app_length; cbn [length]; lia. }
  match goal with |- context [let '(s2, repl1) := ?X in _] => set (phase1 := X) end.
  assert (P1 : (length (cvars s) <= length (cvars (fst phase1)))%nat).
  { unfold phase1.
    assert (L0 : forall vs, (length (cvars s) <= length (set_var (if (match c_cmeta orig with Some _ => mv | None => false end)
                         then set_var (cvars s ++ vs) v (fun c => {| c_name := c_name c; c_unit := c_unit c; c_init := c_init c; c_cmeta := None |})
                         else cvars s ++ vs) v (fun c => {| c_name := c_name c; c_unit := c_unit c; c_init := None; c_cmeta := c_cmeta c |})))%nat).
    { intros vs. rewrite set_var_len. destruct (match c_cmeta orig with Some _ => mv | None => false end);
        rewrite ?set_var_len, app_length; lia. }
    destruct (is_state s v); [|cbn [fst cvars]; apply L0].
    match goal with |- context [ode_def ?S v] => destruct (ode_def S v) as [ode|] end; [|cbn [fst cvars]; apply L0].
    destruct (q_lhs ode) as [x|x t]; [cbn [fst cvars]; apply L0|].
    cbn [move_ode_rhs fst cvars]. rewrite app_length. pose proof (L0 [ {| c_name := unique_name (S (length (cvars s))) {| cvars := cvars s; ceqs := ceqs s; cunits := cunits s ++ [udiv target (c_unit orig)]; cqnext := (cqnext s + 1)%Z |} (c_name orig ++ [95; 99; 111; 110; 118; 101; 114; 116; 101; 100]%Z); c_unit := target; c_init := match c_init orig with Some i => Some (i * cfq)%Q | None => None end; c_cmeta := if match c_cmeta orig with Some _ => mv | None => false end then c_cmeta orig else None |} ]) as L.
    cbn [cvars] in L. lia. }
  destruct phase1 as [s2 repl1]. cbn [fst] in P1.
  match goal with |- context [let '(s3, repl2) := ?X in _] => set (phase2 := X) end.
  assert (P2 : (length (cvars s) <= length (cvars (fst phase2)))%nat).
  { unfold phase2. destruct (free_var s) as [t|]; [|cbn [fst]; exact P1].
    destruct (Nat.eqb t v); [|cbn [fst]; exact P1].
    match goal with |- context [fold_left ?F ?L (s2, repl1)] =>
      assert (G : forall l acc, (length (cvars s) <= length (cvars (fst acc)))%nat ->
                  (length (cvars s) <= length (cvars (fst (fold_left F l acc))))%nat) end.
    { induction l as [|y l IH]; intros acc Ha; cbn [fold_left]; [exact Ha|]. apply IH.
      destruct acc as [st rp]. unfold free_step. cbn [fst] in *. destruct (ode_def st y) as [ode|]; [|exact Ha].
      destruct (q_lhs ode) as [x|x t']; [exact Ha|]. destruct (Nat.eqb t' v); [|exact Ha].
      cbn [move_ode_rhs fst cvars]. rewrite app_length. lia. }
    apply G. exact P1. }
  destruct phase2 as [s3 repl2]. cbn [fst] in P2.
  intros [= <- <-]. cbn [cvars]. split; [right; reflexivity|exact P2].
Qed.

Lemma convert_in_range s v target d mv s' n : convert_variable s v target d mv = COk (s', n) -> (v < length (cvars s))%nat.
Proof.
  unfold convert_variable. destruct (nth_error (cvars s) v) as [orig|] eqn:E; [|discriminate].
  intros _. apply nth_error_Some. congruence.
Qed.



Lemma step_ok_meaning s v d : step_ok s v d = true ->
  premises_hold s = true /\ (v < length (cvars s))%nat /\
  (d = DInput -> (free_var s = Some v -> is_state s v = false /\ var_def s v = None /\ free_ok s v = true) /\
                 (free_var s <> Some v -> forall ode, ode_def s v = Some ode -> var_def s v = None)).
Proof.
  unfold step_ok. intros H. apply andb_true_iff in H as [H Hd]. apply andb_true_iff in H as [Hp Hv]. apply Nat.ltb_lt in Hv.
  split; [exact Hp|]. split; [exact Hv|]. intros ->. split.
  - intros Hf. rewrite Hf, Nat.eqb_refl in Hd. apply andb_true_iff in Hd as [Hd Hfo]. apply andb_true_iff in Hd as [Hs Hvd].
    apply negb_true_iff in Hs. split; [exact Hs|]. split; [destruct (var_def s v); [discriminate|reflexivity]|exact Hfo].
  - intros Hf ode Ho.
    assert (E : match free_var s with Some t => Nat.eqb t v | None => false end = false).
    { destruct (free_var s) as [t|]; [|reflexivity]. apply Nat.eqb_neq. congruence. }
    rewrite E, Ho in Hd. destruct (q_lhs ode); [discriminate|]. apply andb_true_iff in Hd as [_ Hvd].
    destruct (var_def s v); [discriminate|reflexivity].
Qed.

Open Scope R_scope.

Section Sem.
Variable fsem : Z -> list R -> option R.
Variable psem : R -> R -> option R.
Variable csem : Z -> option R.
Hypothesis psem_inv : forall x, x <> 0 -> psem x (Q2R (-1 # 1)) = Some (/ x).

Notation Sat := (Sat fsem psem csem).

(* the two systems have the same solutions as far as the first N variables (and their derivative atoms) are concerned:
   every solution of the first extends to a solution of the second that agrees on them, and every solution of the second
   is, for the same values of ALL variables, a solution of the first (for suitable values of derivative atoms the second
   no longer mentions) *)
Definition Equiv (N : nat) (l l' : list ceq) : Prop :=
  (forall nu dl, Sat nu dl l -> exists nu' dl', Sat nu' dl' l' /\
     (forall i, (i < N)%nat -> nu' i = nu i) /\ (forall y t, (y < N)%nat -> (t < N)%nat -> dl' y t = dl y t)) /\
  (forall nu dl, Sat nu dl l' -> exists dl0, Sat nu dl0 l).

Lemma Equiv_refl N l : Equiv N l l.
Proof. split; intros nu dl H; [exists nu, dl; repeat split; auto|exists dl; exact H]. Qed.

Lemma Equiv_trans N l1 l2 l3 : Equiv N l1 l2 -> Equiv N l2 l3 -> Equiv N l1 l3.
Proof.
  intros [F1 B1] [F2 B2]. split.
  - intros nu dl H. destruct (F1 nu dl H) as [nu' [dl' [H' [A1 A2]]]]. destruct (F2 nu' dl' H') as [nu'' [dl'' [H'' [C1 C2]]]].
    exists nu'', dl''. split; [exact H''|]. split; [intros i Hi; rewrite C1, A1 by exact Hi; reflexivity|
                                                  intros y t Hy Ht; rewrite C2, A2 by assumption; reflexivity].
  - intros nu dl H. destruct (B2 nu dl H) as [dl0 H0]. apply (B1 nu dl0 H0).
Qed.

Lemma Equiv_weaken N M l l' : (M <= N)%nat -> Equiv N l l' -> Equiv M l l'.
Proof.
  intros Hle [F B]. split; [|exact B]. intros nu dl H. destruct (F nu dl H) as [nu' [dl' [H' [A1 A2]]]].
  exists nu', dl'. split; [exact H'|]. split; [intros i Hi; apply A1; lia|intros y t Hy Ht; apply A2; lia].
Qed.

Lemma upd_below nu n x i : (i < n)%nat -> upd nu n x i = nu i.
Proof. intros H. unfold upd. destruct (Nat.eqb_spec i n); [lia|reflexivity]. Qed.
Lemma updd_below dl n t x y t0 : (y < n)%nat -> updd dl n t x y t0 = dl y t0.
Proof. intros H. unfold updd. destruct (Nat.eqb_spec y n); [lia|reflexivity]. Qed.

(* one conversion step *)
Theorem step_equiv s v target d mv s' n :
  convert_variable s v target d mv = COk (s', n) -> step_ok s v d = true ->
  Equiv (length (cvars s)) (ceqs s) (ceqs s').
Proof.
  intros H Hok. unfold step_ok in Hok. apply andb_true_iff in Hok as [Hok Hd]. apply andb_true_iff in Hok as [Hp Hv].
  apply Nat.ltb_lt in Hv.
  unfold premises_hold in Hp. apply andb_true_iff in Hp as [Hp Hat]. apply andb_true_iff in Hp as [Hp Hnd].
  apply andb_true_iff in Hp as [Hf0 Hf1]. apply lhs_nodupb_sound in Hnd.
  destruct (convert_index_length s v target d mv s' n H) as [[[-> ->]|Hn] _]; [apply Equiv_refl|].
  assert (Hnv : n <> v) by lia.
  destruct d.
  - (* INPUT *)
    destruct (match free_var s with Some t => Nat.eqb t v | None => false end) eqn:Hfree.
    { (* the free variable *)
      assert (Hfv : free_var s = Some v).
      { destruct (free_var s) as [t|]; [|discriminate]. apply Nat.eqb_eq in Hfree. congruence. }
      apply andb_true_iff in Hd as [Hd Hfo]. apply andb_true_iff in Hd as [Hs Hvd]. apply negb_true_iff in Hs.
      assert (Hvd' : var_def s v = None) by (destruct (var_def s v); [discriminate|reflexivity]).
      destruct (input_free_conversion fsem psem csem psem_inv s v target mv s' n H Hnv Hfv Hs Hvd' Hfo)
        as [k [os [Hk [Hyp [Hws [_ Hboth]]]]]].
      split.
      - intros nu dl HS. destruct (Hboth nu dl) as [Fw _]. specialize (Fw HS).
        eexists _, _. split; [exact Fw|]. subst n. split.
        + intros i Hi. rewrite upd_ws_other by (rewrite Hws; intros Hin; apply in_seq in Hin; lia).
          rewrite upd_below by lia. reflexivity.
        + intros y t Hy Ht. rewrite updd_col_other by (left; lia). reflexivity.
      - intros nu dl HS. destruct (Hboth nu dl) as [_ Bw]. destruct (Bw HS) as [HS0 _]. eexists. exact HS0. }
    assert (Hfree' : forall t, free_var s = Some t -> t <> v).
    { intros t Ht. rewrite Ht in Hfree. apply Nat.eqb_neq. exact Hfree. }
    rename Hd into Hode.
    destruct (ode_def s v) as [ode|] eqn:Ho.
    + (* a state variable *)
      destruct (q_lhs ode) as [x|x t] eqn:Hl; [discriminate|].
      apply andb_true_iff in Hode as [Ht Hvd]. apply Nat.leb_le in Ht.
      destruct (var_def s v) as [q0|] eqn:Hvd'; [discriminate|].
      assert (Hx : x = v).
      { unfold ode_def in Ho. apply find_some in Ho as [_ Hx]. rewrite Hl in Hx. apply Nat.eqb_eq in Hx. exact Hx. }
      subst x.
      assert (Hfa : fresh_atom (length (cvars s)) t (ceqs s) = true).
      { rewrite forallb_forall in Hat. apply Hat. apply in_seq. lia. }
      destruct (input_state_conversion fsem psem csem psem_inv s v target mv s' n ode t H Hnv Ho Hl Hvd' Hfree' Hnd Hf0 Hf1 Hfa Hv)
        as [k [Hk Hboth]].
      split.
      * intros nu dl HS. destruct (Hboth nu dl) as [Fw _]. specialize (Fw HS).
        eexists _, _. split; [exact Fw|]. subst n. split.
        -- intros i Hi. rewrite !upd_below by lia. reflexivity.
        -- intros y t0 Hy Ht0. rewrite updd_below by lia. reflexivity.
      * intros nu dl HS. destruct (Hboth nu dl) as [_ Bw]. destruct (Bw HS) as [HS0 _]. eexists. exact HS0.
    + (* computed variable or constant *)
      assert (Hst : is_state s v = false) by (unfold is_state; rewrite Ho; reflexivity).
      destruct (input_plain_conversion fsem psem csem psem_inv s v target mv s' n H Hnv Hst Hfree' Hf0) as [k [Hk Hboth]].
      split.
      * intros nu dl HS. destruct (Hboth nu dl) as [Fw _]. specialize (Fw HS).
        eexists _, dl. split; [exact Fw|]. subst n. split; [intros i Hi; rewrite upd_below by lia; reflexivity|intros; reflexivity].
      * intros nu dl HS. destruct (Hboth nu dl) as [_ Bw]. destruct (Bw HS) as [HS0 _]. exists dl. exact HS0.
  - (* OUTPUT *)
    destruct (output_conversion fsem psem csem s v target mv s' n H Hnv Hf0) as [k [Hk Hboth]].
    split.
    + intros nu dl HS. destruct (Hboth nu dl) as [Fw _]. specialize (Fw HS).
      eexists _, dl. split; [exact Fw|]. subst n. split; [intros i Hi; rewrite upd_below by lia; reflexivity|intros; reflexivity].
    + intros nu dl HS. destruct (Hboth nu dl) as [_ Bw]. destruct (Bw HS) as [HS0 _]. exists dl. exact HS0.
Qed.

(* histories: each conversion succeeds and meets its premises in the state it is applied to *)
Inductive Steps : cstate -> cstate -> Prop :=
| Steps_nil s : Steps s s
| Steps_cons s v target d mv s' n s'' :
    convert_variable s v target d mv = COk (s', n) -> step_ok s v d = true \/ n = v -> Steps s' s'' -> Steps s s''.

Theorem sequence_equiv s s'' : Steps s s'' -> Equiv (length (cvars s)) (ceqs s) (ceqs s'').
Proof.
  induction 1 as [s|s v target d mv s' n s'' Hc Hok _ IH]; [apply Equiv_refl|].
  apply (Equiv_trans _ _ (ceqs s')).
  { destruct Hok as [Hok|Hnv]; [apply (step_equiv s v target d mv s' n Hc Hok)|].
    (* the conversion returned the variable itself: nothing was changed *)
    destruct (convert_index_length s v target d mv s' n Hc) as [[[-> _]|Hn] _]; [apply Equiv_refl|].
    pose proof (convert_in_range s v target d mv s' n Hc). lia. }
  apply (Equiv_weaken (length (cvars s'))); [|exact IH].
  apply (convert_index_length s v target d mv s' n Hc).
Qed.

End Sem.
