(* C05: converting an expression preserves its physical value -- lemmas about Model/UnitCalc.v convert *)
From Coq Require Import List ZArith QArith Qabs Bool Lia Reals Lra Qreals.
From Verif Require Import Sexp UnitAlg UnitAlgP Expr Eval EvalP UnitCalc UnitCalcP C04P.
Import ListNotations.
Open Scope R_scope.

(* ---- unfolding the nested fixes of convert ------------------------------------------------------------- *)
Definition fnlike_top (G : env) (e : expr) (mk : list expr -> expr) (l : list expr) (au : option nunit) : cres :=
  bindr (cloop G 2 l false au) (fun lr =>
    let '(l', c, us) := lr in
    match lastu us with
    | Some ul => UOk (if c then mk l' else e, c, ul)
    | None => match au with Some u => UOk (e, false, u) | None => UOther end
    end).

Section UnfoldC.
  Variable G : env.

  Ltac loop_is_cloop f :=
    assert (Hloop : forall m l c t, f m l c t = cloop G m l c t);
    [ intros m l0; induction l0 as [|x0 r0 IH0]; intros c0 t0; cbn [cloop]; [reflexivity|];
      destruct (convert G x0 t0) as [[[x' cx] ux]| | |]; cbn [bindr]; try reflexivity;
      rewrite IH0; reflexivity | ].

  Lemma convert_add l to : convert G (EAdd l) to =
    bindr (cloop G 1 l false to) (fun lr =>
      let '(l', c, us) := lr in
      match lastu us with Some ul => UOk (if c then EAdd l' else EAdd l, c, ul) | None => UOther end).
  Proof.
    cbn [convert].
    match goal with |- bindr (?f _ _ _ _) _ = _ => loop_is_cloop f end.
    rewrite Hloop. reflexivity.
  Qed.

  Lemma convert_mul l to : convert G (EMul l) to =
    bindr (cloop G 0 l false None) (fun lr =>
      let '(l', c, us) := lr in
      match us with
      | [] => UOther
      | u0 :: ur => maybe_convert G (if c then EMul l' else EMul l) c (fold_left umul ur u0) to
      end).
  Proof.
    cbn [convert].
    match goal with |- bindr (?f _ _ _ _) _ = _ => loop_is_cloop f end.
    rewrite Hloop. reflexivity.
  Qed.

  Lemma convert_fn f l to : convert G (EFn f l) to =
    if (f =? fn_abs)%Z || (f =? fn_floor)%Z || (f =? fn_ceiling)%Z then fnlike_top G (EFn f l) (EFn f) l to
    else if not_dimless_target to then UErr EMustBeDimensionless
    else fnlike_top G (EFn f l) (EFn f) l (Some []).
  Proof.
    cbn [convert]. unfold fnlike_top.
    match goal with |- context [bindr (?f _ l false to) _] => loop_is_cloop f end.
    rewrite !Hloop. reflexivity.
  Qed.

  Lemma convert_bool op l to : convert G (EBool op l) to =
    if not_dimless_target to then UErr EMustBeDimensionless
    else fnlike_top G (EBool op l) (EBool op) l (Some []).
  Proof.
    cbn [convert]. unfold fnlike_top.
    match goal with |- context [bindr (?f _ l false _) _] => loop_is_cloop f end.
    rewrite !Hloop. reflexivity.
  Qed.

  Lemma convert_pw l to : convert G (EPw l) to =
    bindr (cloopw G l false to) (fun lr =>
      let '(l', c, us) := lr in
      match lastu us with Some ul => UOk (if c then EPw l' else EPw l, c, ul) | None => UOther end).
  Proof.
    cbn [convert].
    match goal with |- bindr (?f _ _ _) _ = _ =>
      assert (Hloop : forall l c t, f l c t = cloopw G l c t) end.
    { intros l0; induction l0 as [|x0 r0 IH0]; intros c0 t0; cbn [cloopw]; [reflexivity|].
      destruct (convert G (fst x0) t0) as [[[p' cp] up]| | |]; cbn [bindr]; try reflexivity.
      destruct (convert G (snd x0) (Some [])) as [[[cn' cc] uc]| | |]; cbn [bindr]; try reflexivity.
      rewrite IH0. reflexivity. }
    rewrite Hloop. reflexivity.
  Qed.
End UnfoldC.

(* ---- identity: was_converted = false  =>  the argument itself is returned -------------------------------- *)
Section Identity.
  Variable G : env.

  Definition Pid (e : expr) : Prop := forall to e' u, convert G e to = UOk (e', false, u) -> e' = e.

  Lemma mc_id e c from to e2 u2 : maybe_convert G e c from to = UOk (e2, false, u2) -> e2 = e /\ c = false.
  Proof.
    unfold maybe_convert. destruct to as [t|].
    - destruct (conv (expand G from) (expand G t)) as [cf|]; [|discriminate].
      destruct (is_one cf).
      + intros [= <- <- _]. split; reflexivity.
      + destruct (cfq cf) as [[q d]|]; discriminate.
    - intros [= <- <- _]. split; reflexivity.
  Qed.

  Lemma cloop_id m l : Forall Pid l ->
    forall c t l' us, cloop G m l c t = UOk (l', false, us) -> l' = l /\ c = false.
  Proof.
    induction 1 as [|x r Px _ IH]; intros c t l' us H; cbn [cloop] in H.
    - injection H as <- <- _. split; reflexivity.
    - apply bindr_ok in H as [[[x' cx] ux] [Hx H]]. apply bindr_ok in H as [[[r' c'] us'] [Hr H]].
      injection H as <- -> _. destruct (IH _ _ _ _ Hr) as [-> Hc].
      apply orb_false_elim in Hc as [-> ->]. rewrite (Px _ _ _ Hx). split; reflexivity.
  Qed.

  Lemma cloopw_id l : Forall (fun ec => Pid (fst ec) /\ Pid (snd ec)) l ->
    forall c t l' us, cloopw G l c t = UOk (l', false, us) -> l' = l /\ c = false.
  Proof.
    induction 1 as [|[p cn] r [Pp Pcn] _ IH]; intros c t l' us H; cbn [cloopw] in H.
    - injection H as <- <- _. split; reflexivity.
    - cbn [fst snd] in *. apply bindr_ok in H as [[[p' cp] up] [Hp H]]. apply bindr_ok in H as [[[cn' cc] uc] [Hc H]].
      apply bindr_ok in H as [[[r' c'] us'] [Hr H]]. injection H as <- -> _.
      destruct (IH _ _ _ _ Hr) as [-> Hcc]. apply orb_false_elim in Hcc as [-> Hcc].
      apply orb_false_elim in Hcc as [-> ->]. rewrite (Pp _ _ _ Hp), (Pcn _ _ _ Hc). split; reflexivity.
  Qed.

  Lemma identity_all : forall e, Pid e.
  Proof.
    induction e using expr_ind'; unfold Pid; intros to e' u0 H0.
    - cbn [convert] in H0. destruct (not_dimless_target to); [discriminate|]. injection H0 as <- _. reflexivity.
    - cbn [convert] in H0. destruct (not_dimless_target to); [discriminate|]. injection H0 as <- _. reflexivity.
    - cbn [convert] in H0. destruct (lookup_unit G u); [|discriminate]. apply mc_id in H0 as [-> _]. reflexivity.
    - cbn [convert] in H0. destruct (nthZ (vtab G) v) as [[u' iv]|]; [|discriminate].
      destruct (lookup_unit G u'); [|discriminate]. apply mc_id in H0 as [-> _]. reflexivity.
    - rewrite convert_add in H0. apply bindr_ok in H0 as [[[l' c] us] [_ H0]].
      destruct (lastu us); [|discriminate]. injection H0 as <- -> _. reflexivity.
    - rewrite convert_mul in H0. apply bindr_ok in H0 as [[[l' c] us] [Hl H0]].
      destruct us as [|u1 ur]; [discriminate|].
      apply mc_id in H0 as [-> ->]. reflexivity.
    - cbn [convert] in H0. apply bindr_ok in H0 as [[[x' cx] ux] [_ H0]].
      destruct (expo_value x') as [m| |]; try discriminate. destruct (Qeq_bool m 0); [discriminate|].
      apply bindr_ok in H0 as [[[b' cb] ub] [_ H0]]. apply mc_id in H0 as [-> Hc]. rewrite Hc. reflexivity.
    - rewrite convert_fn in H0. unfold fnlike_top in H0.
      destruct ((f =? fn_abs)%Z || (f =? fn_floor)%Z || (f =? fn_ceiling)%Z);
        [|destruct (not_dimless_target to); [discriminate|]];
        apply bindr_ok in H0 as [[[l' c] us] [_ H0]];
        (destruct (lastu us); [injection H0 as <- -> _; reflexivity|]).
      + destruct to; [injection H0 as <- _; reflexivity | discriminate].
      + injection H0 as <- _; reflexivity.
    - cbn [convert] in H0. destruct e1; try discriminate. destruct e2; try discriminate.
      destruct (n <=? 1)%Z; [|discriminate].
      destruct (unit_of G (EVar v)); [|discriminate]. destruct (unit_of G (EVar v0)); [|discriminate].
      apply mc_id in H0 as [-> _]. reflexivity.
    - cbn [convert] in H0. destruct (not_dimless_target to); [discriminate|].
      apply bindr_ok in H0 as [[[a' ca] ua] [_ H0]]. apply bindr_ok in H0 as [[[b' cb] ub] [_ H0]].
      injection H0 as <- Hc _. rewrite Hc. reflexivity.
    - rewrite convert_bool in H0. unfold fnlike_top in H0. destruct (not_dimless_target to); [discriminate|].
      apply bindr_ok in H0 as [[[l' c] us] [_ H0]].
      destruct (lastu us); [injection H0 as <- -> _; reflexivity | injection H0 as <- _; reflexivity].
    - cbn [convert] in H0. destruct (not_dimless_target to); [discriminate|]. injection H0 as <- _. reflexivity.
    - cbn [convert] in H0. destruct (not_dimless_target to); [discriminate|]. injection H0 as <- _. reflexivity.
    - rewrite convert_pw in H0. apply bindr_ok in H0 as [[[l' c] us] [_ H0]].
      destruct (lastu us); [|discriminate]. injection H0 as <- -> _. reflexivity.
  Qed.
End Identity.

(* ---- the conversion quantity has the value of the conversion factor -------------------------------------- *)
Lemma Q2R_inject_Z z : Q2R (inject_Z z) = IZR z.
Proof. unfold Q2R, inject_Z; cbn. field. Qed.

Lemma Q2R_qpown q n : Q2R (qpown q n) = Q2R q ^ n.
Proof. induction n as [|n IH]; cbn [qpown pow]; [unfold Q2R; cbn; field | rewrite Q2R_mult, IH; reflexivity]. Qed.

Lemma qterm_R k e a : (0 < k)%Z -> qterm k e = Some a -> Q2R a = exp (Q2R e * ln (IZR k)).
Proof.
  intros Hk. unfold qterm. destruct (Z.eqb_spec (Zpos (Qden (Qred e))) 1) as [Hd|]; [|discriminate].
  intros [= <-].
  assert (Hk' : 0 < IZR k) by (apply IZR_lt; exact Hk).
  assert (He : Q2R e = IZR (Qnum (Qred e))).
  { rewrite <- (Qeq_eqR _ _ (Qred_correct e)). unfold Q2R. injection Hd as ->. cbn. field. }
  rewrite He. set (z := Qnum (Qred e)).
  assert (Hpow : forall n, exp (INR n * ln (IZR k)) = IZR k ^ n).
  { intros n. rewrite <- Rpower_pow by exact Hk'. reflexivity. }
  destruct (Z.ltb_spec z 0) as [Hz|Hz].
  - assert (Hn : IZR z = - INR (Z.to_nat (- z))).
    { rewrite INR_IZR_INZ, Z2Nat.id by lia. rewrite opp_IZR. lra. }
    assert (Hpos : 0 < Q2R (qpown (inject_Z k) (Z.to_nat (- z)))).
    { rewrite Q2R_qpown, Q2R_inject_Z. apply pow_lt. exact Hk'. }
    rewrite Q2R_inv.
    + rewrite Q2R_qpown, Q2R_inject_Z, Hn, <- Hpow.
      replace (- INR (Z.to_nat (- z)) * ln (IZR k)) with (- (INR (Z.to_nat (- z)) * ln (IZR k))) by lra.
      rewrite exp_Ropp. reflexivity.
    + intros C. apply Qeq_eqR in C. replace (Q2R 0) with 0 in C by (unfold Q2R; cbn; lra). lra.
  - assert (Hn : IZR z = INR (Z.to_nat z)) by (rewrite INR_IZR_INZ, Z2Nat.id by lia; reflexivity).
    rewrite Q2R_qpown, Q2R_inject_Z, Hn. symmetry. apply Hpow.
Qed.

Lemma qscale_R v q : qscale v = Some q -> Q2R q = scaleR v.
Proof.
  unfold scaleR. revert q. induction v as [|[k e] v IH]; intros q; cbn [qscale lscale fst snd].
  - intros [= <-]. rewrite exp_0. unfold Q2R; cbn; lra.
  - unfold lterm; cbn [fst snd]. destruct (is_scale k) eqn:Hk.
    + destruct (qterm k e) as [a|] eqn:Ha; [|discriminate]. destruct (qscale v) as [b|]; [|discriminate].
      intros [= <-]. rewrite Q2R_mult, exp_plus, (IH b eq_refl).
      rewrite (qterm_R k e a); [reflexivity | | exact Ha].
      unfold is_scale in Hk. apply Z.ltb_lt. exact Hk.
    + intros H. rewrite Rplus_0_l. apply IH. exact H.
Qed.

Lemma cfq_correct c q d : cfq c = Some (q, d) -> qval (- d) q = scaleR c.
Proof.
  unfold cfq. destruct (Z.ltb_spec 0 (lcm_den c)) as [Hd|]; [|discriminate].
  destruct (lcm_den c <=? 16)%Z; [|discriminate]. cbn [andb].
  destruct (qscale (upow c (inject_Z (lcm_den c)))) as [q0|] eqn:Hq; [|discriminate].
  intros [= <- <-]. set (d := lcm_den c) in *.
  apply qscale_R in Hq. rewrite scaleR_upow, Q2R_inject_Z in Hq.
  rewrite <- (Qeq_eqR _ _ (Qred_correct q0)) in Hq.
  pose proof (scaleR_pos c) as Hc.
  unfold qval. destruct (Z.ltb_spec (- d) (-1)) as [Hd1|Hd1].
  - rewrite Z.opp_involutive, Hq, Rpower_mult.
    replace (IZR d * / IZR d) with 1 by (field; apply not_0_IZR; lia).
    apply Rpower_1. exact Hc.
  - assert (d = 1%Z) by lia. rewrite Hq, H. apply Rpower_1. exact Hc.
Qed.

(* ---- value preservation ---------------------------------------------------------------------------------- *)
Section Preserve.
  Variable G : env.
  Variable fsem : Z -> list R -> option R.
  Variable psem : R -> R -> option R.
  Variable csem : Z -> option R.
  Hypothesis psem_scale : psem_law psem.
  Hypothesis abs_scale : abs_law fsem.

  Section Val.
  Variable nu : Z -> option R.
  Variable de : Z -> Z -> option R.
  Notation eN := (evalN fsem psem csem nu de).
  Notation eSI := (evalSI G fsem psem csem nu de).
  Notation sN_mul := (sN_mul fsem psem csem nu de).
  Notation sN_add := (sN_add fsem psem csem nu de).
  Notation sN_fn := (sN_fn fsem psem csem nu de).
  Notation sN_bool := (sN_bool fsem psem csem nu de).
  Notation sN_pw := (sN_pw fsem psem csem nu de).
  Notation sSI_mul := (sSI_mul G fsem psem csem nu de).
  Notation sSI_add := (sSI_add G fsem psem csem nu de).
  Notation sSI_fn := (sSI_fn G fsem psem csem nu de).
  Notation sSI_bool := (sSI_bool G fsem psem csem nu de).
  Notation sSI_pw := (sSI_pw G fsem psem csem nu de).
  Notation expo_sound := (expo_sound fsem psem csem nu de).

  Definition rel (e e' : expr) (u : nunit) : Prop := eSI e = option_map (scale_val (sc G u)) (eN e').

  Definition Pv (e : expr) : Prop :=
    forall to e' c u, convert G e to = UOk (e', c, u) -> homog e = true ->
      (forall t, to = Some t -> ueq u t) /\ rel e e' u.

  Lemma sN_qty id q u : eN (EQty id q u) = Some (VR (qval id q)).
  Proof. reflexivity. Qed.

  Lemma mc_sound e e1 c from to e2 c2 u2 :
    maybe_convert G e1 c from to = UOk (e2, c2, u2) ->
    (forall b, eN e1 <> Some (VB b)) -> rel e e1 from ->
    (forall t, to = Some t -> ueq u2 t) /\ rel e e2 u2.
  Proof.
    unfold maybe_convert, rel. intros H Hreal Hrel. destruct to as [t|].
    - destruct (conv (expand G from) (expand G t)) as [cf|] eqn:Hcf; [|discriminate].
      pose proof (sc_conv G _ _ _ Hcf) as Hs. pose proof (sc_pos G t) as Ht.
      assert (Hft : sc G from = scaleR cf * sc G t) by (rewrite Hs; field; lra).
      destruct (is_one cf) eqn:H1.
      + injection H as <- _ <-. split; [intros t' [= <-]; apply ueq_refl|].
        rewrite Hrel, Hft, (is_one_scaleR _ H1), Rmult_1_l. reflexivity.
      + destruct (cfq cf) as [[q d]|] eqn:Hq; [|discriminate]. injection H as <- _ <-.
        split; [intros t' [= <-]; apply ueq_refl|].
        rewrite Hrel, sN_mul. cbn [oprod]. rewrite sN_qty.
        destruct (eN e1) as [[a|b]|]; [|exfalso; eapply Hreal; reflexivity|reflexivity].
        cbn. f_equal. f_equal. rewrite (cfq_correct _ _ _ Hq), Hft. ring.
    - injection H as <- _ <-. split; [discriminate | exact Hrel].
  Qed.

  Lemma rel_one e e' u : ueq u [] -> rel e e' u -> eSI e = eN e'.
  Proof. unfold rel. intros Hu ->. rewrite (sc_ueq G _ _ Hu), sc_nil. apply omap_scale_val_1. Qed.

  Lemma cloop_rel m l : Forall Pv l -> forall c t l' c' us,
    cloop G m l c t = UOk (l', c', us) -> forallb homog l = true ->
    Forall3s eSI eN l l' (map (sc G) us).
  Proof.
    induction 1 as [|x r Px _ IH]; intros c t l' c' us H Hh; cbn [cloop] in H.
    - injection H as <- _ <-. constructor.
    - apply bindr_ok in H as [[[x' cx] ux] [Hx H]]. apply bindr_ok in H as [[[r' c''] us'] [Hr H]].
      injection H as <- _ <-. cbn [forallb] in Hh. apply andb_prop in Hh as [Hhx Hh]. cbn [map]. constructor.
      + apply (proj2 (Px _ _ _ _ Hx Hhx)).
      + eapply IH; eassumption.
  Qed.

  Definition units_chain (t : option nunit) (us : list nunit) : Prop :=
    (forall t0, t = Some t0 -> Forall (fun ux => ueq ux t0) us) /\
    (t = None -> match us with [] => True | u1 :: rest => Forall (fun ux => ueq ux u1) rest end).

  Lemma next_target_12 m t ux : (m = 1 \/ m = 2)%Z ->
    next_target m t ux = Some ux \/ (exists t0, t = Some t0 /\ next_target m t ux = Some t0).
  Proof.
    intros [-> | ->]; unfold next_target; cbn.
    - destruct t as [t0|]; [right; exists t0; split; reflexivity | left; reflexivity].
    - left; reflexivity.
  Qed.

  Lemma cloop_units m l : (m = 1 \/ m = 2)%Z -> Forall Pv l -> forall c t l' c' us,
    cloop G m l c t = UOk (l', c', us) -> forallb homog l = true -> units_chain t us.
  Proof.
    intros Hm. induction 1 as [|x r Px _ IH]; intros c t l' c' us H Hh; cbn [cloop] in H.
    - injection H as _ _ <-. split; [intros; constructor | intros; exact I].
    - apply bindr_ok in H as [[[x' cx] ux] [Hx H]]. apply bindr_ok in H as [[[r' c''] us'] [Hr H]].
      injection H as _ _ <-. cbn [forallb] in Hh. apply andb_prop in Hh as [Hhx Hh].
      destruct (Px _ _ _ _ Hx Hhx) as [Hu _]. destruct (IH _ _ _ _ _ Hr Hh) as [IHs _].
      destruct (next_target_12 m t ux Hm) as [E | [t1 [-> E]]]; rewrite E in IHs.
      + split.
        * intros t0 ->. pose proof (Hu t0 eq_refl) as Hux. constructor; [exact Hux|].
          eapply Forall_impl; [|apply (IHs ux eq_refl)]. intros a Ha. exact (ueq_trans _ _ _ Ha Hux).
        * intros _. apply (IHs ux eq_refl).
      + split; [|discriminate]. intros t0 [= <-]. constructor; [apply Hu; reflexivity | apply (IHs t1 eq_refl)].
  Qed.

  Lemma lastu_in us u : lastu us = Some u -> In u us.
  Proof.
    unfold lastu. destruct (rev us) eqn:Hr; [discriminate|]. intros [= ->].
    apply in_rev. rewrite Hr. left; reflexivity.
  Qed.

  Lemma chain_common t us ul : units_chain t us -> lastu us = Some ul ->
    Forall (fun ux => sc G ux = sc G ul) us /\ (forall t0, t = Some t0 -> ueq ul t0).
  Proof.
    intros [Hs Hn] Hl. apply lastu_in in Hl. destruct t as [t0|].
    - specialize (Hs t0 eq_refl). rewrite Forall_forall in Hs. split.
      + apply Forall_forall. intros ux Hux. rewrite (sc_ueq G _ _ (Hs ux Hux)), (sc_ueq G _ _ (Hs ul Hl)). reflexivity.
      + intros t1 [= <-]. apply Hs. exact Hl.
    - specialize (Hn eq_refl). split; [|discriminate]. destruct us as [|u1 rest]; [constructor|].
      rewrite Forall_forall in Hn.
      assert (K : forall a, In a (u1 :: rest) -> sc G a = sc G u1).
      { intros a [<-|Ha]; [reflexivity | apply sc_ueq; apply Hn; exact Ha]. }
      apply Forall_forall. intros ux Hux. rewrite (K ux Hux), (K ul Hl). reflexivity.
  Qed.

  Lemma F3_F2 l l' ss s : Forall3s eSI eN l l' ss -> Forall (fun x => x = s) ss ->
    Forall2 (fun x x' => eSI x = option_map (scale_val s) (eN x')) l l'.
  Proof.
    induction 1 as [|x x' s0 r r' ss0 Hx _ IH]; intros Hall; [constructor|].
    inversion Hall as [|? ? Hs Hall']; subst. constructor; [exact Hx | apply IH; exact Hall'].
  Qed.

  Lemma loop_common m l c t l' c' us ul : (m = 1 \/ m = 2)%Z -> Forall Pv l ->
    cloop G m l c t = UOk (l', c', us) -> forallb homog l = true -> lastu us = Some ul ->
    Forall2 (fun x x' => eSI x = option_map (scale_val (sc G ul)) (eN x')) l l' /\
    (forall t0, t = Some t0 -> ueq ul t0).
  Proof.
    intros Hm HP H Hh Hl.
    destruct (chain_common t us ul (cloop_units m l Hm HP _ _ _ _ _ H Hh) Hl) as [Hall Ht].
    split; [|exact Ht]. eapply F3_F2; [eapply cloop_rel; eassumption|].
    apply Forall_forall. intros x Hx. apply in_map_iff in Hx as [ux [<- Hux]].
    rewrite Forall_forall in Hall. apply Hall. exact Hux.
  Qed.

  Lemma F2_same l l' : Forall2 (fun x x' => eSI x = option_map (scale_val 1) (eN x')) l l' ->
    Forall2 (fun x x' => eSI x = eN x') l l'.
  Proof. induction 1 as [|x x' r r' Hx _ IH]; constructor; [rewrite Hx; apply omap_scale_val_1 | exact IH]. Qed.

  (* the piecewise loop *)
  Lemma cloopw_rel l : Forall (fun ec => Pv (fst ec) /\ Pv (snd ec)) l -> forall c t l' c' us,
    cloopw G l c t = UOk (l', c', us) -> forallb (fun ec => homog (fst ec) && homog (snd ec)) l = true ->
    Forall2 (fun xc xc' => eSI (snd xc) = eN (snd xc')) l l' /\
    Forall3s eSI eN (map fst l) (map fst l') (map (sc G) us) /\ units_chain t us.
  Proof.
    induction 1 as [|xc r [Px Pcn] _ IH]; intros c t l' c' us H Hh; cbn [cloopw] in H.
    - injection H as <- _ <-. repeat split; try constructor; intros; try constructor; try exact I.
    - apply bindr_ok in H as [[[p' cp] up] [Hp H]]. apply bindr_ok in H as [[[cn' cc] uc] [Hc H]].
      apply bindr_ok in H as [[[r' c''] us'] [Hr H]]. injection H as <- _ <-.
      cbn [forallb] in Hh. apply andb_prop in Hh as [Hhx Hh]. apply andb_prop in Hhx as [Hhp Hhc].
      destruct (Px _ _ _ _ Hp Hhp) as [Hu Hrelp]. destruct (Pcn _ _ _ _ Hc Hhc) as [Huc Hrelc].
      destruct (IH _ _ _ _ _ Hr Hh) as [IHc [IHp [IHs _]]].
      split; [|split].
      + constructor; [|exact IHc]. cbn [snd]. eapply rel_one; [apply Huc; reflexivity | exact Hrelc].
      + cbn [map fst]. constructor; assumption.
      + destruct (next_target_12 1 t up (or_introl eq_refl)) as [E | [t1 [-> E]]]; rewrite E in IHs.
        * split.
          -- intros t0 ->. pose proof (Hu t0 eq_refl) as Hux. constructor; [exact Hux|].
             eapply Forall_impl; [|apply (IHs up eq_refl)]. intros a Ha. exact (ueq_trans _ _ _ Ha Hux).
          -- intros _. apply (IHs up eq_refl).
        * split; [|discriminate]. intros t0 [= <-]. constructor; [apply Hu; reflexivity | apply (IHs t1 eq_refl)].
  Qed.

  Lemma F2_pw (l l' : list (expr * expr)) s :
    Forall2 (fun xc xc' => eSI (snd xc) = eN (snd xc')) l l' ->
    Forall2 (fun x x' => eSI x = option_map (scale_val s) (eN x')) (map fst l) (map fst l') ->
    Forall2 (fun xc xc' => eSI (snd xc) = eN (snd xc') /\
                           eSI (fst xc) = option_map (scale_val s) (eN (fst xc'))) l l'.
  Proof.
    induction 1 as [|xc xc' r r' Hc _ IH]; cbn [map]; intros H2; [constructor|].
    inversion H2; subst. constructor; [split; assumption | apply IH; assumption].
  Qed.


  Lemma ndt t : not_dimless_target (Some t) = false -> ueq [] t.
  Proof.
    unfold not_dimless_target, syn_dimless. intros H. apply negb_false_iff in H.
    apply ueq_sym. apply ueqb_spec. exact H.
  Qed.

  Lemma leaf_qty id q u n : lookup_unit G u = Some n -> rel (EQty id q u) (EQty id q u) n.
  Proof. intros Hu. unfold rel, evalN, evalSI. cbn [eval]. unfold qSI, qN. rewrite Hu. reflexivity. Qed.

  Lemma leaf_var v u iv n : nthZ (vtab G) v = Some (u, iv) -> lookup_unit G u = Some n -> rel (EVar v) (EVar v) n.
  Proof.
    intros Hn Hu. unfold rel, evalN, evalSI. cbn [eval]. unfold vSI, var_unit. rewrite Hn. cbn [fst]. rewrite Hu.
    destruct (nu v); reflexivity.
  Qed.

  Lemma leaf_deriv vy vt n ny nt : unit_of G (EVar vy) = Some ny -> unit_of G (EVar vt) = Some nt ->
    rel (EDeriv (EVar vy) (EVar vt) n) (EDeriv (EVar vy) (EVar vt) n) (udiv ny nt).
  Proof.
    intros Hy Ht. unfold rel, evalN, evalSI.
    destruct n as [|p|p]; try reflexivity. destruct p; try reflexivity.
    cbn [eval]. unfold dSI. rewrite <- !unit_of_var, Hy, Ht. destruct (de vy vt); reflexivity.
  Qed.

  Lemma qty_real id q u b : eN (EQty id q u) <> Some (VB b).
  Proof. rewrite sN_qty. congruence. Qed.
  Lemma var_real v b : eN (EVar v) <> Some (VB b).
  Proof. unfold evalN. cbn [eval]. destruct (nu v); cbn; congruence. Qed.
  Lemma deriv_real y t n b : eN (EDeriv y t n) <> Some (VB b).
  Proof.
    unfold evalN. destruct y; try (cbn [eval]; congruence). destruct t; try (cbn [eval]; congruence).
    destruct n as [|p|p]; try (cbn [eval]; congruence). destruct p; try (cbn [eval]; congruence).
    cbn [eval]. destruct (de v v0); cbn; congruence.
  Qed.
  Lemma pow_real x y b : eN (EPow x y) <> Some (VB b).
  Proof.
    unfold evalN. cbn [eval].
    match goal with |- context [eval ?a ?b0 ?c ?d ?f ?g x] => destruct (eval a b0 c d f g x) as [[?|?]|] end; try congruence.
    match goal with |- context [eval ?a ?b0 ?c ?d ?f ?g y] => destruct (eval a b0 c d f g y) as [[?|?]|] end; try congruence.
    match goal with |- context [psem ?a ?b0] => destruct (psem a b0) end; cbn; congruence.
  Qed.

  Lemma fold_left_umul_sc ur (acc : nunit) :
    sc G (fold_left umul ur acc) = sc G acc * fold_right Rmult 1 (map (sc G) ur).
  Proof.
    revert acc. induction ur as [|u ur IH]; intros acc; cbn [fold_left map fold_right]; [lra|].
    rewrite IH, sc_umul. lra.
  Qed.

  Lemma lastu_none us : lastu us = None -> us = [].
  Proof.
    unfold lastu. destruct (rev us) eqn:Hr; [|discriminate]. intros _.
    rewrite <- (rev_involutive us), Hr. reflexivity.
  Qed.

  Lemma Pid_all l : Forall (Pid G) l.
  Proof. apply Forall_forall. intros x _. apply identity_all. Qed.

  Lemma const_case e to e' c0 u0 :
    (if not_dimless_target to then UErr EMustBeDimensionless else UOk (e, false, [])) = UOk (e', c0, u0) ->
    eSI e = eN e -> (forall t, to = Some t -> ueq u0 t) /\ rel e e' u0.
  Proof.
    destruct (not_dimless_target to) eqn:Hnd; [discriminate|]. intros [= <- _ <-] He. split.
    - intros t ->. apply ndt. exact Hnd.
    - unfold rel. rewrite sc_nil, omap_scale_val_1. exact He.
  Qed.

  (* functions with dimensionless arguments, And / Or / Not / Xor *)
  Lemma fnlike_case (mk : list expr -> expr) l to e' c0 u0 :
    Forall Pv l -> forallb homog l = true -> not_dimless_target to = false ->
    fnlike_top G (mk l) mk l (Some []) = UOk (e', c0, u0) ->
    exists l', e' = mk l' /\ Forall2 (fun x x' => eSI x = eN x') l l' /\
               (forall t, to = Some t -> ueq u0 t) /\ sc G u0 = 1.
  Proof.
    intros HP Hh Hnd H0. unfold fnlike_top in H0. apply bindr_ok in H0 as [[[l' c'] us] [Hl H0]].
    destruct (lastu us) as [ul|] eqn:Hlast.
    - injection H0 as <- _ <-.
      destruct (loop_common 2 l false (Some []) l' c' us ul (or_intror eq_refl) HP Hl Hh Hlast) as [HF Ht].
      pose proof (Ht [] eq_refl) as Hul.
      assert (E1 : sc G ul = 1) by (rewrite (sc_ueq G _ _ Hul); apply sc_nil).
      exists l'. repeat split.
      + destruct c'; [reflexivity|]. destruct (cloop_id G 2 l (Pid_all l) _ _ _ _ Hl) as [-> _]. reflexivity.
      + apply F2_same. rewrite <- E1. exact HF.
      + intros t ->. eapply ueq_trans; [exact Hul | apply ndt; exact Hnd].
      + exact E1.
    - injection H0 as <- _ <-. apply lastu_none in Hlast. subst us.
      pose proof (cloop_rel 2 l HP _ _ _ _ _ Hl Hh) as HF3. cbn [map] in HF3. inversion HF3; subst.
      exists []. repeat split; [constructor | | apply sc_nil].
      intros t ->. apply ndt. exact Hnd.
  Qed.

  Lemma preserve_all : forall e, Pv e.
  Proof.
    induction e using expr_ind'; unfold Pv; intros to e' c0 u0 H0 Hh.
    - (* Num *) cbn [convert] in H0. apply (const_case _ _ _ _ _ H0). reflexivity.
    - (* Const *) cbn [convert] in H0. apply (const_case _ _ _ _ _ H0). reflexivity.
    - (* Qty *)
      cbn [convert] in H0. destruct (lookup_unit G u) as [n|] eqn:Hu; [|discriminate].
      eapply mc_sound; [exact H0 | intros b; apply qty_real | apply leaf_qty; exact Hu].
    - (* Var *)
      cbn [convert] in H0. destruct (nthZ (vtab G) v) as [[u' iv]|] eqn:Hn; [|discriminate].
      destruct (lookup_unit G u') as [n|] eqn:Hu; [|discriminate].
      eapply mc_sound; [exact H0 | intros b; apply var_real | eapply leaf_var; eassumption].
    - (* Add *)
      rewrite convert_add in H0. apply bindr_ok in H0 as [[[l' c'] us] [Hl H0]].
      destruct (lastu us) as [ul|] eqn:Hlast; [|discriminate]. injection H0 as <- _ <-. cbn [homog] in Hh.
      destruct (loop_common 1 l false to l' c' us ul (or_introl eq_refl) H Hl Hh Hlast) as [HF Ht].
      split; [exact Ht|].
      assert (E : (if c' then EAdd l' else EAdd l) = EAdd l').
      { destruct c'; [reflexivity|]. destruct (cloop_id G 1 l (Pid_all l) _ _ _ _ Hl) as [-> _]. reflexivity. }
      rewrite E. unfold rel. rewrite sSI_add, sN_add, (osum_scaled _ _ _ l l' HF).
      destruct (osum eN l'); reflexivity.
    - (* Mul *)
      rewrite convert_mul in H0. apply bindr_ok in H0 as [[[l' c'] us] [Hl H0]].
      destruct us as [|u1 ur]; [discriminate|]. cbn [homog] in Hh.
      pose proof (cloop_rel 0 l H _ _ _ _ _ Hl Hh) as HF3.
      assert (Hrel : rel (EMul l) (EMul l') (fold_left umul ur u1)).
      { unfold rel. rewrite sSI_mul, sN_mul, (oprod_scaled _ _ l l' _ HF3), fold_left_umul_sc.
        cbn [map fold_right]. destruct (oprod eN l'); reflexivity. }
      assert (E : (if c' then EMul l' else EMul l) = EMul l').
      { destruct c'; [reflexivity|]. destruct (cloop_id G 0 l (Pid_all l) _ _ _ _ Hl) as [-> _]. reflexivity. }
      rewrite E in H0.
      eapply mc_sound; [exact H0 | intros b; apply ev_mul_real | exact Hrel].
    - (* Pow *)
      cbn [convert] in H0. apply bindr_ok in H0 as [[[x' cx] ux] [Hx H0]].
      destruct (expo_value x') as [m| |] eqn:Hv; try discriminate.
      destruct (Qeq_bool m 0); [discriminate|].
      apply bindr_ok in H0 as [[[b' cb] ub] [Hb H0]].
      cbn [homog] in Hh. apply andb_prop in Hh as [Hhb Hhx].
      destruct (IHe2 _ _ _ _ Hx Hhx) as [Hux Hrx].
      pose proof (rel_one _ _ _ (Hux [] eq_refl) Hrx) as Ex. pose proof (expo_sound x' m Hv) as Ev.
      rewrite Ev in Ex.
      destruct (IHe1 _ _ _ _ Hb Hhb) as [_ Hrb].
      assert (E : (if cb || cx then EPow b' x' else EPow e1 e2) = EPow b' x').
      { destruct (cb || cx) eqn:Hc; [reflexivity|]. apply orb_false_elim in Hc as [-> ->].
        rewrite (identity_all G e1 _ _ _ Hb), (identity_all G e2 _ _ _ Hx). reflexivity. }
      rewrite E in H0.
      eapply mc_sound; [exact H0 | intros b; apply pow_real |].
      unfold rel, evalN, evalSI in *. cbn [eval]. rewrite Hrb, Ex, Ev.
      match goal with |- context [eval ?a ?b0 ?c ?d ?f ?g b'] => destruct (eval a b0 c d f g b') as [[xb|bb]|] end;
        cbn [option_map scale_val]; try reflexivity.
      rewrite psem_scale by apply sc_pos. rewrite sc_upow. destruct (psem xb (Q2R m)); reflexivity.
    - (* Fn *)
      rewrite convert_fn in H0. cbn [homog] in Hh. apply andb_prop in Hh as [Hh Hhl].
      apply andb_prop in Hh as [Hfl Har]. apply negb_true_iff in Hfl. apply orb_false_elim in Hfl as [Hf1 Hf2].
      rewrite Hf1, Hf2 in H0. destruct (f =? fn_abs)%Z eqn:Hf; cbn [orb] in H0.
      + apply Z.eqb_eq in Hf. subst f. destruct l as [|x [|y l0]]; try discriminate.
        unfold fnlike_top in H0. apply bindr_ok in H0 as [[[l' c'] us] [Hl H0]].
        cbn [cloop] in Hl. apply bindr_ok in Hl as [[[x' cx] ux] [Hx Hl]]. cbn [bindr] in Hl.
        injection Hl as <- <- <-. cbn [lastu rev app] in H0. injection H0 as <- _ <-.
        inversion H as [|? ? Px _]; subst. cbn [forallb] in Hhl. apply andb_prop in Hhl as [Hhx _].
        destruct (Px _ _ _ _ Hx Hhx) as [Hu Hr]. split; [exact Hu|].
        assert (E : (if cx || false then EFn fn_abs [x'] else EFn fn_abs [x]) = EFn fn_abs [x']).
        { rewrite orb_false_r. destruct cx; [reflexivity|]. rewrite (identity_all G x _ _ _ Hx). reflexivity. }
        rewrite E. unfold rel in *. rewrite sSI_fn, sN_fn. cbn [oreals]. rewrite Hr.
        destruct (eN x') as [[a0|bx]|]; cbn [option_map scale_val]; try reflexivity.
        rewrite abs_scale by apply sc_pos. destruct (fsem fn_abs [a0]); reflexivity.
      + destruct (not_dimless_target to) eqn:Hnd; [discriminate|].
        destruct (fnlike_case (EFn f) l to e' c0 u0 H Hhl Hnd H0) as [l' [-> [Hsame [Ht E1]]]].
        split; [exact Ht|]. unfold rel. rewrite E1, omap_scale_val_1, sSI_fn, sN_fn.
        rewrite (oreals_same _ _ l l' Hsame). reflexivity.
    - (* Deriv *)
      cbn [convert] in H0. destruct e1; try discriminate. destruct e2; try discriminate.
      destruct (n <=? 1)%Z; [|discriminate].
      destruct (unit_of G (EVar v)) as [ny|] eqn:Hy; [|discriminate].
      destruct (unit_of G (EVar v0)) as [nt|] eqn:Ht; [|discriminate].
      eapply mc_sound; [exact H0 | intros b; apply deriv_real | apply leaf_deriv; assumption].
    - (* Rel *)
      cbn [convert] in H0. destruct (not_dimless_target to) eqn:Hnd; [discriminate|].
      apply bindr_ok in H0 as [[[a' ca] ua] [Ha H0]]. apply bindr_ok in H0 as [[[b' cb] ub] [Hb H0]].
      injection H0 as <- _ <-. cbn [homog] in Hh. apply andb_prop in Hh as [Hha Hhb].
      destruct (IHe1 _ _ _ _ Ha Hha) as [_ Hra]. destruct (IHe2 _ _ _ _ Hb Hhb) as [Hub Hrb].
      split; [intros t ->; apply ndt; exact Hnd|].
      assert (E : (if cb || ca then ERel r a' b' else ERel r e1 e2) = ERel r a' b').
      { destruct (cb || ca) eqn:Hc; [reflexivity|]. apply orb_false_elim in Hc as [-> ->].
        rewrite (identity_all G e1 _ _ _ Ha), (identity_all G e2 _ _ _ Hb). reflexivity. }
      rewrite E. unfold rel in *. rewrite sc_nil, omap_scale_val_1.
      rewrite (sc_ueq G _ _ (Hub ua eq_refl)) in Hrb.
      unfold evalN, evalSI in *. cbn [eval]. rewrite Hra, Hrb.
      match goal with |- context [eval ?a ?b0 ?c ?d ?f ?g a'] => destruct (eval a b0 c d f g a') as [[x|bx]|] end;
      match goal with |- context [eval ?a ?b0 ?c ?d ?f ?g b'] => destruct (eval a b0 c d f g b') as [[y|bw]|] end;
        cbn [option_map scale_val]; try reflexivity.
      rewrite rel_sem_scale by apply sc_pos. reflexivity.
    - (* Bool *)
      rewrite convert_bool in H0. cbn [homog] in Hh.
      destruct (not_dimless_target to) eqn:Hnd; [discriminate|].
      destruct (fnlike_case (EBool op) l to e' c0 u0 H Hh Hnd H0) as [l' [-> [Hsame [Ht E1]]]].
      split; [exact Ht|]. unfold rel. rewrite E1, omap_scale_val_1, sSI_bool, sN_bool.
      rewrite (oevals_same _ _ l l' Hsame). reflexivity.
    - (* True *) cbn [convert] in H0. apply (const_case _ _ _ _ _ H0). reflexivity.
    - (* False *) cbn [convert] in H0. apply (const_case _ _ _ _ _ H0). reflexivity.
    - (* Piecewise *)
      rewrite convert_pw in H0. apply bindr_ok in H0 as [[[l' c'] us] [Hl H0]].
      destruct (lastu us) as [ul|] eqn:Hlast; [|discriminate]. injection H0 as <- _ <-. cbn [homog] in Hh.
      destruct (cloopw_rel l H _ _ _ _ _ Hl Hh) as [HFc [HF3 Hch]].
      destruct (chain_common to us ul Hch Hlast) as [Hall Ht]. split; [exact Ht|].
      assert (HF2 : Forall2 (fun x x' => eSI x = option_map (scale_val (sc G ul)) (eN x')) (map fst l) (map fst l')).
      { eapply F3_F2; [exact HF3|]. apply Forall_forall. intros x Hx. apply in_map_iff in Hx as [ux [<- Hux]].
        rewrite Forall_forall in Hall. apply Hall. exact Hux. }
      assert (E : (if c' then EPw l' else EPw l) = EPw l').
      { destruct c'; [reflexivity|].
        assert (HPid : Forall (fun ec => Pid G (fst ec) /\ Pid G (snd ec)) l)
          by (apply Forall_forall; intros x _; split; apply identity_all).
        destruct (cloopw_id G l HPid _ _ _ _ Hl) as [-> _]. reflexivity. }
      rewrite E. unfold rel. rewrite sSI_pw, sN_pw. apply opw_scaled. apply F2_pw; assumption.
  Qed.
  End Val.
End Preserve.

(* ---- the closed statements ------------------------------------------------------------------------------ *)
Lemma convert_preserves_value : forall fsem psem csem, psem_law psem -> abs_law fsem ->
  forall G e to e' c u, convert G e to = UOk (e', c, u) -> homog e = true ->
    (forall t, to = Some t -> ueq u t) /\
    forall nu de, evalSI G fsem psem csem nu de e =
                  option_map (scale_val (scaleR (expand G u))) (evalN fsem psem csem nu de e').
Proof.
  intros fsem psem csem Hp Ha G e to e' c u H Hh. split.
  - apply (proj1 (preserve_all G fsem psem csem Hp Ha (fun _ => None) (fun _ _ => None) e to e' c u H Hh)).
  - intros nu de. apply (proj2 (preserve_all G fsem psem csem Hp Ha nu de e to e' c u H Hh)).
Qed.

Lemma convert_identity : forall G e to e' u, convert G e to = UOk (e', false, u) -> e' = e.
Proof. intros G e. apply identity_all. Qed.

Lemma convert_errors :
  (forall G e to k, convert G e to = UErr k ->
     In k [EUnexpectedMath; EInvalidUnits; EMustBeDimensionless; EMustBeNumber; EBoolean; EConversion]) /\
  (* a leaf whose dimension cannot reach the demanded unit *)
  (forall G id q u n t, lookup_unit G u = Some n -> conv (expand G n) (expand G t) = None ->
     convert G (EQty id q u) (Some t) = UErr EConversion) /\
  (forall G v u iv n t, nthZ (vtab G) v = Some (u, iv) -> lookup_unit G u = Some n ->
     conv (expand G n) (expand G t) = None -> convert G (EVar v) (Some t) = UErr EConversion) /\
  (* booleans, numbers and functions with dimensionless result asked for a unit that is not dimensionless *)
  (forall G r a b t, syn_dimless t = false -> convert G (ERel r a b) (Some t) = UErr EBoolean) /\
  (forall G k q t, syn_dimless t = false -> convert G (ENum k q) (Some t) = UErr EMustBeDimensionless) /\
  (forall G f l t, (f =? fn_abs)%Z || (f =? fn_floor)%Z || (f =? fn_ceiling)%Z = false -> syn_dimless t = false ->
     convert G (EFn f l) (Some t) = UErr EMustBeDimensionless) /\
  (* a function argument that cannot become dimensionless *)
  (forall G f x to k, (f =? fn_abs)%Z || (f =? fn_floor)%Z || (f =? fn_ceiling)%Z = false ->
     not_dimless_target to = false -> convert G x (Some []) = UErr k -> convert G (EFn f [x]) to = UErr k) /\
  (* an exponent that cannot become dimensionless, an exponent that is not a number *)
  (forall G b x to k, convert G x (Some []) = UErr k -> convert G (EPow b x) to = UErr k) /\
  (forall G b x to x' cx ux, convert G x (Some []) = UOk (x', cx, ux) -> expo_value x' = XSym ->
     convert G (EPow b x) to = UErr EMustBeNumber) /\
  (* derivatives other than d(variable)/d(variable) of order <= 1 *)
  (forall G y t n to, (1 <? n)%Z = true -> convert G (EDeriv (EVar y) (EVar t) n) to = UErr EUnexpectedMath).
Proof.
  repeat split.
  - intros G e to k _. destruct k; cbn; tauto.
  - intros G id q u n t Hu Hc. cbn [convert]. rewrite Hu. unfold maybe_convert. rewrite Hc. reflexivity.
  - intros G v u iv n t Hn Hu Hc. cbn [convert]. rewrite Hn, Hu. unfold maybe_convert. rewrite Hc. reflexivity.
  - intros G r a b t Ht. cbn [convert]. unfold not_dimless_target. rewrite Ht. reflexivity.
  - intros G k q t Ht. cbn [convert]. unfold not_dimless_target. rewrite Ht. reflexivity.
  - intros G f l t Hf Ht. rewrite convert_fn, Hf. unfold not_dimless_target. rewrite Ht. reflexivity.
  - intros G f x to k Hf Hnd Hx. rewrite convert_fn, Hf, Hnd. unfold fnlike_top. cbn [cloop]. rewrite Hx. reflexivity.
  - intros G b x to k Hx. cbn [convert]. rewrite Hx. reflexivity.
  - intros G b x to x' cx ux Hx Hv. cbn [convert]. rewrite Hx. cbn [bindr]. rewrite Hv. reflexivity.
  - intros G y t n to Hn. cbn [convert]. replace (n <=? 1)%Z with false; [reflexivity|].
    symmetry. apply Z.leb_gt. apply Z.ltb_lt. exact Hn.
Qed.

(* F7: floor(a[mV]) converted to volt is floor(0.001*a); with a = 1500 the result is 1 (volt) while the
   input is floor(1500) mV = 1.5 volt *)
Definition G_f : env :=
  mkEnv [[(2%Z, (-3 # 1)%Q); (5%Z, (-3 # 1)%Q); ((-2)%Z, 1%Q); ((-1)%Z, 2%Q); ((-3)%Z, (-3 # 1)%Q); ((-4)%Z, (-1 # 1)%Q)];
         [((-2)%Z, 1%Q); ((-1)%Z, 2%Q); ((-3)%Z, (-3 # 1)%Q); ((-4)%Z, (-1 # 1)%Q)]]      (* atoms: mV, volt *)
        [[]; [(0%Z, 1%Q)]; [(1%Z, 1%Q)]]                                                   (* units: dimensionless, mV, volt *)
        [(1%Z, None)].                                                                     (* a : mV *)

Lemma convert_floor_refuted :
  exists G e t e' cf,
    homog e = false /\
    convert G e (Some t) = UOk (e', true, t) /\
    e = EFn fn_floor [EVar 0] /\ e' = EFn fn_floor [EMul [EQty (-1) cf (-3); EVar 0]] /\
    cf = (1 # 1000)%Q /\
    (* value at a = 1500: converted reading vs the input read in volt *)
    Qeq_bool (inject_Z (Qfloor (cf * 1500))) (inject_Z (Qfloor 1500) * cf) = false.
Proof.
  exists G_f, (EFn fn_floor [EVar 0]), [(1%Z, 1%Q)]. eexists. eexists.
  split; [reflexivity|]. split; [vm_compute; reflexivity|].
  repeat split; vm_compute; reflexivity.
Qed.
