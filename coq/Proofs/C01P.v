(* C01 -- flattening fidelity: lemmas.
   (1) the chain invariant of the connection work-list, (2) the inserted conversion equation in SI reading,
   (3) soundness of the flat equations in SI reading for every valuation that satisfies the document. *)
From Coq Require Import List ZArith QArith Bool Lia Permutation Reals Qreals Lra.
From Verif Require Import Sexp UnitAlg UnitAlgP Expr Eval EvalP Loader LoaderP C17P.
Import ListNotations.

(* ================= (1) rep chain ================= *)
Lemma rep_chain d f : load d = OK f ->
  let m := rev (f_map f) in
  chain_ok (init_asg 0 (f_vars f)) m /\
  (forall t s, In (t, s) (f_map f) -> In (s, t) (st_work d)) /\
  (forall i, exists r, rep (length m) m i = Some r /\ lookup m r = None).
Proof.
  intros H. apply load_stages in H. pose proof (s_flat _ _ H) as ->. cbn [f_map f_vars]. rewrite rev_involutive.
  pose proof (connect_inv _ _ _ _ _ _ (s_dirs _ _ H) (s_conn _ _ H)) as I.
  split; [apply I|]. split.
  - intros t s Hin. apply in_rev in Hin. try rewrite rev_involutive in Hin.
    destruct (stages_schedule _ _ H) as (p & Pp & Hr).
    destruct (run_cmap_in _ _ _ _ Hr _ _ Hin) as [[]|A]. eapply Permutation_in; eauto.
  - intros i. destruct (rep_terminates _ _ (proj1 I) i) as (r & Hr). exists r. split; auto.
    eapply rep_result; eauto.
Qed.

(* ================= (2) the conversion equation ================= *)
Lemma conversion_equation_SI us ut cf (nt na : R) : conv us ut = Some cf ->
  (nt = na * scaleR cf <-> nt * scaleR ut = na * scaleR us)%R.
Proof.
  intros H. rewrite (conv_scaleR _ _ _ H). pose proof (scaleR_pos us). pose proof (scaleR_pos ut).
  split; intros E.
  - rewrite E. field. lra.
  - apply (Rmult_eq_reg_r (scaleR ut)); [|lra]. rewrite E. field. lra.
Qed.

(* ================= (3) semantics ================= *)
Section Sem.
  Variable fsem : Z -> list R -> option R.
  Variable psem : R -> R -> option R.
  Variable csem : Z -> option R.
  Variable qsem : Z -> Q -> Z -> option R.
  Notation ev := (eval fsem psem csem qsem).
  Notation evs := (evals fsem psem csem qsem).
  Notation evpw := (evalpw fsem psem csem qsem).

  Lemma ren_var_shape f y : (exists v, y = EVar v /\ ren f y = EVar (f v)) \/
                            ((forall v, y <> EVar v) /\ forall v, ren f y <> EVar v).
  Proof. destruct y; cbn; eauto; right; split; intros; discriminate. Qed.

  (* evaluating a renamed tree = evaluating the tree in the renamed environment *)
  Lemma eval_ren f vs ds vs' ds' : (forall n, vs' n = vs (f n)) -> (forall y t, ds' y t = ds (f y) (f t)) ->
    forall e, ev vs ds (ren f e) = ev vs' ds' e.
  Proof.
    intros Hv Hd.
    assert (Hl : forall l, Forall (fun e => ev vs ds (ren f e) = ev vs' ds' e) l ->
                           evs vs ds (map (ren f) l) = evs vs' ds' l).
    { induction 1; cbn [map evals]; auto. rewrite H, IHForall. reflexivity. }
    induction e using expr_ind'; cbn [ren]; auto.
    - cbn. rewrite Hv. reflexivity.
    - rewrite !eval_add, Hl; auto.
    - rewrite !eval_mul, Hl; auto.
    - cbn [eval]. rewrite IHe1, IHe2. reflexivity.
    - rewrite !eval_fn, Hl; auto.
    - destruct (ren_var_shape f e1) as [(y & -> & ->)|(N1 & N1')].
      + destruct (ren_var_shape f e2) as [(t & -> & ->)|(N2 & N2')].
        * cbn. destruct n; auto. destruct p; auto. rewrite Hd. reflexivity.
        * assert (A : forall y0 (g : expr) k w d0, (forall v, g <> EVar v) -> ev w d0 (EDeriv (EVar y0) g k) = None).
          { intros y0 g k w d0 Ng. destruct g; cbn; auto. exfalso. eapply Ng; eauto. }
          rewrite !A; auto.
      + assert (A : forall (g h : expr) k w d0, (forall v, g <> EVar v) -> ev w d0 (EDeriv g h k) = None).
        { intros g h k w d0 Ng. destruct g; cbn; auto. exfalso. eapply Ng; eauto. }
        rewrite !A; auto.
    - cbn [eval]. rewrite IHe1, IHe2. reflexivity.
    - rewrite !eval_bool, Hl; auto.
    - rewrite !eval_pw. induction H as [|[x c] r (Hx & Hc) Hr IH]; cbn [map evalpw fst snd]; auto.
      cbn [fst snd] in Hx, Hc. rewrite Hc, Hx, IH. reflexivity.
  Qed.
End Sem.

Section Sound.
  Variable fsem : Z -> list R -> option R.
  Variable psem : R -> R -> option R.
  Variable csem : Z -> option R.

  (* SI reading of a number with units *)
  Definition qsemSI (tbl : list (Z * uvec)) (_ : Z) (q : Q) (u : Z) : option R :=
    match unit_lookup tbl u with Some uv => Some (Q2R q * scaleR uv)%R | None => None end.

  Definition holds (tbl : list (Z * uvec)) (vs : Z -> option R) (ds : Z -> Z -> option R) (l r : expr) : Prop :=
    exists x, eval fsem psem csem (qsemSI tbl) vs ds l = Some (VR x) /\
              eval fsem psem csem (qsemSI tbl) vs ds r = Some (VR x).

  (* valuations: SI value of every flat variable, SI value of every derivative atom *)
  Variable nu : nat -> R.
  Variable de : nat -> nat -> R.

  (* a component's view: its identifiers are its own variables *)
  Definition doc_vs (vars : list fv) (c : Z) (n : Z) : option R := option_map nu (vidx vars c n).
  Definition doc_ds (vars : list fv) (c : Z) (y t : Z) : option R :=
    match vidx vars c y, vidx vars c t with Some i, Some j => Some (de i j) | _, _ => None end.
  (* the flat model's view *)
  Definition flat_vs (z : Z) : option R := if Z.ltb z 0 then None else Some (nu (Z.to_nat z)).
  Definition flat_ds (y t : Z) : option R :=
    if Z.ltb y 0 || Z.ltb t 0 then None else Some (de (Z.to_nat y) (Z.to_nat t)).

  (* connected variables are one physical quantity: same SI value, same SI derivative atoms *)
  Definition same_qty (i j : nat) : Prop := nu i = nu j /\ forall k, de i k = de j k /\ de k i = de k j.

  Lemma same_qty_refl i : same_qty i i.
  Proof. split; auto. Qed.
  Lemma same_qty_sym i j : same_qty i j -> same_qty j i.
  Proof. intros (A & B). split; auto. intros k. destruct (B k). auto. Qed.
  Lemma same_qty_trans i j k : same_qty i j -> same_qty j k -> same_qty i k.
  Proof.
    intros (A & B) (A' & B'). split; [congruence|]. intros x. destruct (B x), (B' x). split; congruence.
  Qed.
  Lemma same_qty_de i j i' j' : same_qty i i' -> same_qty j j' -> de i j = de i' j'.
  Proof. intros (_ & B) (_ & B'). destruct (B j), (B' i'). congruence. Qed.

  Definition doc_sat (d : doc) : Prop :=
    (forall cq, In cq (all_ceqs d) ->
        holds (d_units d) (doc_vs (st_vars d) (fst cq)) (doc_ds (st_vars d) (fst cq)) (q_lhs (snd cq)) (q_rhs (snd cq))) /\
    (forall s t, In (s, t) (st_work d) -> same_qty s t) /\
    (forall i x q, nth_error (st_vars d) i = Some x -> finit x = Some q -> is_state (st_eqs d) i = false ->
        nu i = (Q2R q * scaleR (fuv x))%R).

  (* numeric reading of the three kinds of flat equations, in terms of the SI valuation *)
  Definition num (vars : list fv) (i : nat) : R := (nu i / scaleR (uv_of vars i))%R.
  Definition feq_sat (d : doc) (vars : list fv) (q : feq) : Prop :=
    match q with
    | FMath l r => holds (d_units d) flat_vs flat_ds l r
    | FConv t a cf => num vars t = (num vars a * scaleR cf)%R
    | FConst v x => num vars v = Q2R x
    end.
  Definition flat_sat (d : doc) (f : flat) : Prop := forall q, In q (f_eqs f) -> feq_sat d (f_vars f) q.

  (* ---- linked: the equivalence generated by the document's connections ---- *)
  Inductive linked (work : list (nat * nat)) : nat -> nat -> Prop :=
  | L_refl i : linked work i i
  | L_step s t : In (s, t) work -> linked work s t
  | L_sym i j : linked work i j -> linked work j i
  | L_trans i j k : linked work i j -> linked work j k -> linked work i k.

  Lemma linked_same work : (forall s t, In (s, t) work -> same_qty s t) -> forall i j, linked work i j -> same_qty i j.
  Proof.
    intros H i j L. induction L; auto using same_qty_refl, same_qty_sym. eapply same_qty_trans; eauto.
  Qed.

  (* invariant of the work-list for soundness *)
  Definition sound_inv (vars : list fv) (work : list (nat * nat)) (st : cstate) : Prop :=
    (forall v a, nth v (asg st) None = Some a -> linked work a v /\ scaleR (uv_of vars a) = scaleR (uv_of vars v)) /\
    (forall q, In q (ceqs st) -> exists t a cf s, q = FConv t a cf /\ In (s, t) work /\ linked work a s /\
                                   scaleR (uv_of vars a) = scaleR (uv_of vars s) /\
                                   conv (uv_of vars s) (uv_of vars t) = Some cf).

  Lemma init_asg_self vars : forall k v a, nth v (init_asg k vars) None = Some a -> a = (k + v)%nat.
  Proof.
    induction vars as [|x r IH]; intros k [|v] a H; cbn in H; try discriminate.
    - destruct (has_in x); inversion H. lia.
    - apply IH in H. lia.
  Qed.

  Lemma sound_inv_init vars work : sound_inv vars work (init_cs vars).
  Proof.
    split.
    - intros v a H. cbn in H. apply init_asg_self in H. cbn in H. subst a. split; [constructor|reflexivity].
    - intros q [].
  Qed.

  Lemma sound_inv_step vars work st c st' : sound_inv vars work st -> In c work -> cstep vars st c = ODone st' ->
    (snd c < length (asg st))%nat -> sound_inv vars work st'.
  Proof.
    intros (A & B) Hw E L. destruct c as [s t]. cbn [snd] in L. apply cstep_done in E.
    destruct E as (Ht & a & cf & Hs & Hc & E). destruct (A _ _ Hs) as (La & Sa).
    destruct E as [(H1 & cm' & _ & ->)|(H1 & _ & ->)]; split; cbn [asg ceqs].
    - intros v x Hx. destruct (Nat.eq_dec t v) as [<-|N].
      + rewrite nth_upd_eq in Hx by auto. inversion Hx. subst x. split.
        * eapply L_trans; [exact La|]. now constructor.
        * rewrite Sa. pose proof (conv_scaleR _ _ _ Hc) as Q. rewrite (is_one_scaleR _ H1) in Q.
          pose proof (scaleR_pos (uv_of vars s)). pose proof (scaleR_pos (uv_of vars t)).
          apply (Rmult_eq_reg_r (/ scaleR (uv_of vars t))); [|apply Rinv_neq_0_compat; lra].
          rewrite Rinv_r by lra. unfold Rdiv in Q. lra.
      + rewrite nth_upd_neq in Hx by auto. auto.
    - exact B.
    - intros v x Hx. destruct (Nat.eq_dec t v) as [<-|N].
      + rewrite nth_upd_eq in Hx by auto. inversion Hx. subst x. split; [constructor|reflexivity].
      + rewrite nth_upd_neq in Hx by auto. auto.
    - intros q [<-|Hq]; auto. exists t, a, cf, s. repeat split; auto.
  Qed.

  Lemma sound_inv_run vars work : forall p st st', sound_inv vars work st -> (forall c, In c p -> In c work) ->
    (forall c, In c p -> (snd c < length (asg st))%nat) -> run vars st p = Some st' -> sound_inv vars work st'.
  Proof.
    induction p as [|c r IH]; intros st st' I Hw L H; cbn in H. { inversion H. subst. exact I. }
    destruct (cstep vars st c) as [| |s1] eqn:E; try discriminate.
    apply (IH s1 st'); auto.
    - eapply sound_inv_step; eauto; [apply Hw|apply L]; now left.
    - intros c' Hc'. apply Hw. now right.
    - intros c' Hc'. rewrite (cstep_length _ _ _ _ E). apply L. now right.
  Qed.

  (* the representative is linked to the variable *)
  Lemma rep_linked work m : (forall t s, In (t, s) m -> In (s, t) work) ->
    forall fuel i r, rep fuel m i = Some r -> linked work r i.
  Proof.
    intros H. induction fuel as [|f IH]; intros i r; cbn; destruct (lookup m i) as [s|] eqn:E; intros Hr.
    - discriminate.
    - inversion Hr. constructor.
    - apply lookup_in in E. apply H in E. eapply L_trans; [apply IH; exact Hr|]. now constructor.
    - inversion Hr. constructor.
  Qed.

  (* ---- transform_constants adds exactly the constants ---- *)
  Lemma nth_map_seq {T} (g : nat -> T) n i dflt : (i < n)%nat -> nth i (map g (seq 0 n)) dflt = g i.
  Proof.
    intros H. rewrite nth_indep with (d' := g 0%nat) by (rewrite map_length, seq_length; auto).
    rewrite map_nth with (d := 0%nat). rewrite seq_nth; auto.
  Qed.

  Lemma tc_origin vars eqs0 l : forall st st',
    (forall i q, nth i (snd st) None = Some q -> exists x, nth_error vars i = Some x /\ finit x = Some q) ->
    (forall i, In i l -> (i < length vars)%nat) ->
    foldM (tc_step (map (is_state eqs0) (seq 0 (length vars)))) l st = OK st' ->
    forall q, In q (fst st') -> In q (fst st) \/
      exists i x v, q = FConst i v /\ nth_error vars i = Some x /\ finit x = Some v /\ is_state eqs0 i = false.
  Proof.
    induction l as [|i r IH]; intros st st' Hi Hl H q Hq; cbn in H. { inversion H. subst. auto. }
    apply bind_ok in H. destruct H as (s1 & H1 & H).
    assert (Li : (i < length vars)%nat) by (apply Hl; now left).
    unfold tc_step in H1. rewrite (nth_map_seq (is_state eqs0) (length vars) i false Li) in H1.
    destruct (nth i (snd st) None) as [v|] eqn:En.
    - destruct (is_state eqs0 i) eqn:Es.
      + inversion H1. subst s1. eapply IH; eauto. intros; apply Hl; now right.
      + apply bind_ok in H1. destruct H1 as (e1 & He & H1). inversion H1. subst s1.
        unfold add_eq in He. cbn [feq_kind] in He. destruct (defined (fst st) (Z.of_nat i)); [discriminate|].
        inversion He. subst e1.
        destruct (IH (FConst i v :: fst st, upd (snd st) i None) st') with (q := q) as [A|A]; auto.
        * cbn [snd]. intros j w Hj. destruct (Nat.eq_dec i j) as [<-|N].
          { destruct (Nat.lt_ge_cases i (length (snd st))) as [Lt|Ge].
            - rewrite nth_upd_eq in Hj by auto. discriminate.
            - rewrite nth_overflow in Hj by (rewrite length_upd; auto). discriminate. }
          rewrite nth_upd_neq in Hj by auto. auto.
        * intros; apply Hl; now right.
        * cbn [fst] in A. destruct A as [<-|A]; auto. right. destruct (Hi _ _ En) as (x & Hx & Hf). eauto 8.
    - destruct (is_state eqs0 i); [discriminate|]. inversion H1. subst s1. eapply IH; eauto. intros; apply Hl; now right.
  Qed.

  (* ================= flatten_sound ================= *)
  Lemma flat_vs_of i : flat_vs (Z.of_nat i) = Some (nu i).
  Proof. unfold flat_vs. destruct (Z.ltb_spec (Z.of_nat i) 0); [lia|]. rewrite Nat2Z.id. reflexivity. Qed.

  Lemma flat_ds_of i j : flat_ds (Z.of_nat i) (Z.of_nat j) = Some (de i j).
  Proof.
    unfold flat_ds. destruct (Z.ltb_spec (Z.of_nat i) 0); [lia|]. destruct (Z.ltb_spec (Z.of_nat j) 0); [lia|].
    cbn. rewrite !Nat2Z.id. reflexivity.
  Qed.

  Theorem flatten_sound d f : load d = OK f -> doc_sat d -> flat_sat d f.
  Proof.
    intros H (Dm & Dc & Di). apply load_stages in H. pose proof (s_flat _ _ H) as ->.
    unfold flat_sat. cbn [f_eqs f_vars]. intros q Hq. apply in_rev in Hq.
    set (vars := st_vars d) in *. set (work := st_work d) in *. set (cs := st_cs d) in *.
    (* facts about the work-list *)
    destruct (stages_schedule _ _ H) as (p & Pp & Hr). fold vars work cs in Pp, Hr.
    assert (Pin : forall c, In c p -> In c work) by (intros c Hc; eapply Permutation_in; eauto).
    assert (Rg : forall c, In c p -> (snd c < length (asg (init_cs vars)))%nat).
    { intros c Hc. cbn. rewrite init_asg_length. apply (stages_range _ _ H). auto. }
    pose proof (sound_inv_run vars work p _ _ (sound_inv_init vars work) Pin Rg Hr) as (SA & SB).
    pose proof (connect_inv _ _ _ _ _ _ (s_dirs _ _ H) (s_conn _ _ H)) as CI. fold vars work cs in CI.
    assert (Mw : forall t s, In (t, s) (cmap cs) -> In (s, t) work).
    { intros t s Hin. destruct (run_cmap_in _ _ _ _ Hr _ _ Hin) as [[]|A]. auto. }
    assert (LS : forall i j, linked work i j -> same_qty i j) by (apply linked_same; exact Dc).
    (* where does q come from? *)
    pose proof (s_tc _ _ H) as T. unfold transform_constants in T. fold vars in T.
    assert (P1 : forall i v, nth i (snd (st_eqs d, map finit vars)) None = Some v ->
                            exists x, nth_error vars i = Some x /\ finit x = Some v).
    { cbn [snd]. intros i v E. destruct (nth_error vars i) as [x|] eqn:Ex.
      + exists x. split; auto. erewrite nth_indep in E; [|rewrite map_length; eapply nth_error_Some; congruence].
        rewrite (map_nth finit vars x i) in E. rewrite (nth_error_nth _ _ _ Ex) in E. exact E.
      + apply nth_error_None in Ex. rewrite nth_overflow in E by (rewrite map_length; auto). discriminate. }
    assert (P2 : forall i, In i (seq 0 (length vars)) -> (i < length vars)%nat).
    { intros i Hin. apply in_seq in Hin. lia. }
    destruct (tc_origin vars (st_eqs d) _ _ _ P1 P2 T q Hq) as [A|(i & x & v & -> & Hx & Hf & Hs)].
    - cbn [fst] in A. pose proof (stages_maths _ _ H) as (Em & _ & _). fold vars cs in Em. rewrite Em in A.
      apply in_app_or in A. destruct A as [A|A].
      + (* a component equation *)
        apply in_rev in A. unfold flat_all in A. apply in_map_iff in A. destruct A as (cq & <- & Hcq).
        specialize (Dm cq Hcq). fold vars in Dm. unfold flat_eq. cbn [feq_sat]. destruct Dm as (xv & E1 & E2).
        set (g := rename_of vars (cmap cs) (fst cq)).
        assert (Hv : forall n, doc_vs vars (fst cq) n = flat_vs (g n)).
        { intros n. unfold doc_vs, g, rename_of, resolve. destruct (vidx vars (fst cq) n) as [i|]; [|reflexivity].
          destruct (rep_terminates _ _ (proj1 CI) i) as (r & Er). rewrite Er. rewrite flat_vs_of. cbn. f_equal.
          symmetry. apply (LS r i). eapply rep_linked; eauto. }
        assert (Hd : forall y t, doc_ds vars (fst cq) y t = flat_ds (g y) (g t)).
        { intros y t. unfold doc_ds, g, rename_of, resolve.
          destruct (vidx vars (fst cq) y) as [i|].
          - destruct (rep_terminates _ _ (proj1 CI) i) as (ri & Ei). rewrite Ei.
            destruct (vidx vars (fst cq) t) as [j|].
            + destruct (rep_terminates _ _ (proj1 CI) j) as (rj & Ej). rewrite Ej. rewrite flat_ds_of. f_equal.
              apply same_qty_de; apply same_qty_sym, LS; eapply rep_linked; eauto.
            + unfold flat_ds. cbn. rewrite orb_true_r. reflexivity.
          - unfold flat_ds. cbn. reflexivity. }
        exists xv. rewrite !(eval_ren fsem psem csem _ g flat_vs flat_ds _ _ Hv Hd). auto.
      + (* a conversion equation *)
        destruct (SB _ A) as (t & a & cf & s & -> & Hw & La & Sa & Hc). cbn [feq_sat]. unfold num.
        assert (E : nu t = nu a).
        { destruct (LS a t) as (E & _); auto. eapply L_trans; [exact La|]. now constructor. }
        rewrite E, Sa. rewrite (conv_scaleR _ _ _ Hc).
        pose proof (scaleR_pos (uv_of vars s)). pose proof (scaleR_pos (uv_of vars t)). field. lra.
    - (* a constant *)
      cbn [feq_sat]. unfold num. rewrite (Di i x v Hx Hf Hs). unfold uv_of. fold vars. rewrite Hx.
      pose proof (scaleR_pos (fuv x)). field. lra.
  Qed.
End Sound.

(* ================= the hypotheses are satisfiable ================= *)
Definition ex01 : doc :=
  mkDoc None None [(1, ex_volt); (2, ex_mv)]
        [mkComp 10 [mkDVar 20 1 (Some (2#1)%Q) IOut INone None] [] false false;
         mkComp 11 [mkDVar 20 2 None IIn INone None] [] false false;
         mkComp 12 [mkDVar 21 1 None IIn INone None] [] false false]
        [] [mkConn 11 10 [(20, 20)]; mkConn 10 12 [(20, 21)]].

Example ex01_loads : exists f, load ex01 = OK f /\ length (f_eqs f) = 2%nat.
Proof. eexists. vm_compute. split; reflexivity. Qed.

Example ex01_doc_sat : doc_sat (fun _ _ => None) (fun _ _ => None) (fun _ => None)
                               (fun _ => (Q2R (2#1) * scaleR ex_volt)%R) (fun _ _ => 0%R) ex01.
Proof.
  split; [|split].
  - intros cq Hin. vm_compute in Hin. contradiction.
  - intros s t _. split; auto.
  - intros i x q Hx Hf _.
    assert (E : st_vars ex01 = [mkFv 10 20 1 ex_volt (Some (2#1)%Q) IOut INone None;
                                mkFv 11 20 2 ex_mv None IIn INone None;
                                mkFv 12 21 1 ex_volt None IIn INone None]) by (vm_compute; reflexivity).
    rewrite E in Hx. destruct i as [|[|[|i]]]; cbn in Hx; try (destruct i; discriminate);
      inversion Hx; subst x; cbn in Hf; inversion Hf. reflexivity.
Qed.

(* ================= completeness (partial) ================= *)
Lemma tc_adds sts l : NoDup l -> forall st st', foldM (tc_step sts) l st = OK st' -> forall i q, In i l ->
  nth i (snd st) None = Some q -> nth i sts false = false -> In (FConst i q) (fst st').
Proof.
  induction 1 as [|j r Hj N IH]; intros st st' H i q Hi Eq Hs; [contradiction|]. cbn in H.
  apply bind_ok in H. destruct H as (s1 & H1 & H).
  destruct Hi as [<-|Hi].
  - unfold tc_step in H1. rewrite Eq, Hs in H1. apply bind_ok in H1. destruct H1 as (e & He & H1).
    inversion H1. subst s1. unfold add_eq in He. cbn [feq_kind] in He.
    destruct (defined (fst st) (Z.of_nat j)); [discriminate|]. inversion He. subst e.
    apply (tc_incl _ _ _ _ H). cbn. now left.
  - assert (Nij : j <> i) by (intros ->; contradiction).
    apply (IH _ _ H i q Hi); auto.
    unfold tc_step in H1. destruct (nth j (snd st) None).
    + destruct (nth j sts false). { inversion H1; subst; auto. }
      apply bind_ok in H1. destruct H1 as (e & _ & H1). inversion H1. cbn. rewrite nth_upd_neq; auto.
    + destruct (nth j sts false); [discriminate|]. inversion H1; subst; auto.
Qed.

Lemma chain_nodup' init m : chain_ok init m -> NoDup (map fst m).
Proof.
  induction m as [|[t s] r IH]; cbn; intros H; [constructor|]. destruct H as (Hr & Hk & _). constructor; auto.
Qed.

Lemma lookup_of_in m t s : NoDup (map fst m) -> In (t, s) m -> lookup m t = Some s.
Proof.
  induction m as [|[a b] r IH]; intros N Hm; [contradiction|]. rewrite lookup_cons. cbn in N.
  inversion N as [|? ? Hn N']. subst. destruct Hm as [E|Hm'].
  - inversion E. subst. rewrite Nat.eqb_refl. reflexivity.
  - destruct (Nat.eqb a t) eqn:Eq; [|auto]. apply Nat.eqb_eq in Eq. subst a. exfalso. apply Hn.
    apply in_map_iff. exists (t, s). auto.
Qed.

Definition rep_of (m : list (nat * nat)) (i : nat) : nat :=
  match rep (length m) m i with Some r => r | None => i end.

Section Complete.
  Variable fsem : Z -> list R -> option R.
  Variable psem : R -> R -> option R.
  Variable csem : Z -> option R.

  (* schema guarantee (cellml_1_0.rng, 3.4.3.8): no initial value on a variable with an `in` interface *)
  Definition init_no_in (f : flat) : Prop := forall x, In x (f_vars f) -> finit x <> None -> has_in x = false.

  Theorem flatten_complete_partial d f nu de : load d = OK f -> init_no_in f ->
    flat_sat fsem psem csem nu de d f ->
    let m := rev (f_map f) in
    doc_sat fsem psem csem (fun i => nu (rep_of m i)) (fun i j => de (rep_of m i) (rep_of m j)) d /\
    (forall i, lookup m i = None -> rep_of m i = i).
  Proof.
    intros H Hin Hsat m. pose proof (no_half_load _ _ H) as (_ & Heqs & _).
    apply load_stages in H. pose proof (s_flat _ _ H) as Ef. subst f. cbn [f_map f_vars f_eqs] in *.
    subst m. rewrite rev_involutive in *.
    set (vars := st_vars d) in *. set (cs := st_cs d) in *. set (m := cmap cs) in *.
    pose proof (connect_inv _ _ _ _ _ _ (s_dirs _ _ H) (s_conn _ _ H)) as CI. fold vars cs in CI.
    assert (T : forall i, exists r, rep (length m) m i = Some r) by (apply (rep_terminates _ _ (proj1 CI))).
    assert (Rnk : forall i, lookup m i = None -> rep_of m i = i).
    { intros i E. unfold rep_of. destruct (length m); cbn; rewrite E; reflexivity. }
    split; [|exact Rnk]. split; [|split].
    - (* component equations *)
      intros cq Hcq. specialize (Heqs cq Hcq). apply Hsat in Heqs. unfold flat_eq in Heqs. cbn [feq_sat] in Heqs.
      destruct Heqs as (xv & E1 & E2). exists xv.
      set (g := rename_of vars m (fst cq)) in *.
      assert (Hv : forall n, doc_vs (fun i => nu (rep_of m i)) vars (fst cq) n = flat_vs nu (g n)).
      { intros n. unfold doc_vs, g, rename_of, resolve, rep_of. destruct (vidx vars (fst cq) n) as [i|]; [|reflexivity].
        destruct (T i) as (r & Er). cbn [option_map]. rewrite !Er. rewrite flat_vs_of. reflexivity. }
      assert (Hd : forall y t, doc_ds (fun i j => de (rep_of m i) (rep_of m j)) vars (fst cq) y t = flat_ds de (g y) (g t)).
      { intros y t. unfold doc_ds, g, rename_of, resolve, rep_of.
        destruct (vidx vars (fst cq) y) as [i|].
        - destruct (T i) as (ri & Ei). rewrite Ei. destruct (vidx vars (fst cq) t) as [j|].
          + destruct (T j) as (rj & Ej). rewrite Ej. rewrite flat_ds_of. reflexivity.
          + unfold flat_ds. cbn. rewrite orb_true_r. reflexivity.
        - unfold flat_ds. cbn. reflexivity. }
      rewrite <- !(eval_ren fsem psem csem _ g (flat_vs nu) (flat_ds de) _ _ Hv Hd). auto.
    - (* connections: both ends have the same representative *)
      intros s t Hw.
      destruct (stages_schedule _ _ H) as (p & Pp & Hr). fold vars cs in Hr.
      assert (Hp : In (s, t) p) by (eapply Permutation_in; [apply Permutation_sym; exact Pp|exact Hw]).
      destruct (run_processed _ _ _ _ Hr _ Hp) as (Hm & _). cbn [fst snd] in Hm. fold m in Hm.
      assert (N : NoDup (map fst m)) by (eapply chain_nodup'; apply CI).
      assert (El : lookup m t = Some s) by (apply lookup_of_in; auto).
      assert (E : rep_of m t = rep_of m s).
      { unfold rep_of. destruct (T t) as (rt & Et), (T s) as (rs & Es). rewrite Et, Es.
        apply rep_more in Et. cbn [rep] in Et. rewrite El in Et. congruence. }
      unfold same_qty. rewrite E. split; auto.
    - (* initial values of non-states *)
      intros i x q Hx Hf Hs. fold vars in Hx.
      pose proof (s_tc _ _ H) as Tc. unfold transform_constants in Tc. fold vars in Tc.
      assert (Li : (i < length vars)%nat) by (apply nth_error_Some; congruence).
      assert (Hc : In (FConst i q) (fst (st_ei d))).
      { apply (tc_adds _ _ (seq_NoDup (length vars) 0) _ _ Tc i q).
        - apply in_seq. lia.
        - cbn [snd]. rewrite nth_indep with (d' := finit x) by (rewrite map_length; auto).
          rewrite (map_nth finit vars x i). rewrite (nth_error_nth _ _ _ Hx). exact Hf.
        - rewrite (nth_map_seq (is_state (st_eqs d)) (length vars) i false Li). exact Hs. }
      apply in_rev in Hc. apply Hsat in Hc. cbn [feq_sat] in Hc. unfold num in Hc.
      assert (Hni : has_in x = false).
      { apply Hin; [eapply nth_error_In; eauto|congruence]. }
      assert (Ek : lookup m i = None).
      { apply lookup_notin. intros K. pose proof (chain_keys_init _ _ (proj1 CI) _ K) as Z0.
        rewrite (init_asg_nth _ 0 i x Hx), Hni in Z0. discriminate. }
      rewrite (Rnk i Ek). subst vars. cbn [f_vars] in Hc. unfold uv_of in Hc. rewrite Hx in Hc.
      pose proof (scaleR_pos (fuv x)) as P.
      apply (Rmult_eq_compat_r (scaleR (fuv x))) in Hc. unfold Rdiv in Hc.
      rewrite Rmult_assoc, Rinv_l, Rmult_1_r in Hc by lra. exact Hc.
  Qed.
End Complete.

(* ================= completeness, full strength: agreement on every variable that is not substituted away ================= *)
Lemma rep_of_step m t s : (forall i, exists r, rep (length m) m i = Some r) -> lookup m t = Some s ->
  rep_of m t = rep_of m s.
Proof.
  intros T El. unfold rep_of. destruct (T t) as (rt & Et), (T s) as (rs & Es). rewrite Et, Es.
  apply rep_more in Et. cbn [rep] in Et. rewrite El in Et. congruence.
Qed.

Section Agree.
  Variable vars : list fv.
  Variable work : list (nat * nat).
  Variable m : list (nat * nat).          (* the final mapping *)
  Variable nu : nat -> R.
  Hypothesis Tm : forall i, exists r, rep (length m) m i = Some r.
  Hypothesis Nm : NoDup (map fst m).

  (* assigned_to and the representative: same class, same value *)
  Definition agree_inv (st : cstate) : Prop :=
    forall v a, nth v (asg st) None = Some a -> rep_of m a = rep_of m v /\ nu a = nu (rep_of m a).

  Lemma conv_num_si s t a cf : conv (uv_of vars s) (uv_of vars t) = Some cf ->
    scaleR (uv_of vars a) = scaleR (uv_of vars s) ->
    (nu t / scaleR (uv_of vars t) = nu a / scaleR (uv_of vars a) * scaleR cf)%R -> nu t = nu a.
  Proof.
    intros Hc Sa E. rewrite Sa, (conv_scaleR _ _ _ Hc) in E.
    pose proof (scaleR_pos (uv_of vars s)). pose proof (scaleR_pos (uv_of vars t)).
    replace (nu t) with (nu t / scaleR (uv_of vars t) * scaleR (uv_of vars t))%R by (field; lra).
    rewrite E. field. lra.
  Qed.

  Lemma agree_step st c st' : sound_inv vars work st -> agree_inv st -> cstep vars st c = ODone st' ->
    (snd c < length (asg st))%nat -> lookup m (snd c) = Some (fst c) ->
    (forall t a cf, In (FConv t a cf) (ceqs st') ->
        (nu t / scaleR (uv_of vars t) = nu a / scaleR (uv_of vars a) * scaleR cf)%R) ->
    agree_inv st'.
  Proof.
    intros (SA & _) K E L El Hq. destruct c as [s t]. cbn [fst snd] in *. apply cstep_done in E.
    destruct E as (Ht & a & cf & Hs & Hc & E). destruct (K _ _ Hs) as (Ra & Va). destruct (SA _ _ Hs) as (_ & Sa).
    pose proof (rep_of_step m t s Tm El) as Rt.
    destruct E as [(H1 & cm' & _ & ->)|(H1 & _ & ->)]; cbn [asg ceqs] in *; intros v x Hx; cbn [asg] in Hx.
    - destruct (Nat.eq_dec t v) as [<-|N].
      + rewrite nth_upd_eq in Hx by auto. inversion Hx. subst x. split; [congruence|exact Va].
      + rewrite nth_upd_neq in Hx by auto. auto.
    - destruct (Nat.eq_dec t v) as [<-|N].
      + rewrite nth_upd_eq in Hx by auto. inversion Hx. subst x. split; auto.
        rewrite (conv_num_si s t a cf Hc Sa (Hq t a cf (or_introl eq_refl))). rewrite Rt, <- Ra. exact Va.
      + rewrite nth_upd_neq in Hx by auto. auto.
  Qed.

  Lemma agree_run : forall p st st', run vars st p = Some st' -> sound_inv vars work st -> agree_inv st ->
    (forall c, In c p -> In c work) -> (forall c, In c p -> (snd c < length (asg st))%nat) ->
    incl (cmap st') m ->
    (forall t a cf, In (FConv t a cf) (ceqs st') ->
        (nu t / scaleR (uv_of vars t) = nu a / scaleR (uv_of vars a) * scaleR cf)%R) ->
    agree_inv st'.
  Proof.
    induction p as [|c r IH]; intros st st' H SI K Hw L Im Hq; cbn in H. { inversion H. subst. exact K. }
    destruct (cstep vars st c) as [| |s1] eqn:E; try discriminate.
    pose proof (run_incl _ _ _ _ H) as (Ic & Ie).
    assert (Lc : (snd c < length (asg st))%nat) by (apply L; now left).
    apply (IH s1 st' H); auto.
    - eapply sound_inv_step; eauto. apply Hw. now left.
    - apply (agree_step st c s1 SI K E Lc).
      + apply lookup_of_in; auto. apply Im, Ic. apply cstep_asg in E. destruct E as (_ & _ & x & _ & Em).
        rewrite Em. now left.
      + intros t a cf Hin. apply Hq, Ie, Hin.
    - intros c' Hc'. apply Hw. now right.
    - intros c' Hc'. rewrite (cstep_length _ _ _ _ E). apply L. now right.
  Qed.
End Agree.

Section Complete2.
  Variable fsem : Z -> list R -> option R.
  Variable psem : R -> R -> option R.
  Variable csem : Z -> option R.

  Theorem flatten_complete d f nu de : load d = OK f -> init_no_in f ->
    flat_sat fsem psem csem nu de d f ->
    let m := rev (f_map f) in
    doc_sat fsem psem csem (fun i => nu (rep_of m i)) (fun i j => de (rep_of m i) (rep_of m j)) d /\
    (forall v a, nth v (f_asg f) None = Some a -> nu (rep_of m v) = nu a) /\
    (forall i, lookup m i = None -> rep_of m i = i).
  Proof.
    intros H Hin Hsat m.
    destruct (flatten_complete_partial fsem psem csem d f nu de H Hin Hsat) as (A & B). fold m in A, B.
    split; [exact A|]. split; [|exact B].
    apply load_stages in H. pose proof (s_flat _ _ H) as Ef. subst f. cbn [f_map f_asg f_vars f_eqs] in *.
    subst m. rewrite rev_involutive in *.
    set (vars := st_vars d) in *. set (cs := st_cs d) in *. set (work := st_work d) in *.
    pose proof (connect_inv _ _ _ _ _ _ (s_dirs _ _ H) (s_conn _ _ H)) as CI. fold vars cs in CI.
    destruct (stages_schedule _ _ H) as (p & Pp & Hr). fold vars cs work in Pp, Hr.
    assert (K : agree_inv (cmap cs) nu cs).
    { apply (agree_run vars work (cmap cs) nu (rep_terminates _ _ (proj1 CI)) (chain_nodup' _ _ (proj1 CI))
                       p (init_cs vars) cs Hr (sound_inv_init vars work)).
      - intros v a Hv. cbn in Hv. pose proof (init_asg_self _ _ _ _ Hv) as E. cbn in E. subst a. split; auto.
        f_equal. symmetry. apply B. apply lookup_notin. intros Kk.
        pose proof (chain_keys_init _ _ (proj1 CI) _ Kk) as Z0. congruence.
      - intros c Hc. eapply Permutation_in; eauto.
      - intros c Hc. cbn. rewrite init_asg_length. apply (stages_range _ _ H). eapply Permutation_in; eauto.
      - apply incl_refl.
      - intros t a cf Hcv.
        assert (Hf : In (FConv t a cf) (rev (fst (st_ei d)))).
        { apply -> in_rev. pose proof (s_tc _ _ H) as T. unfold transform_constants in T. apply tc_incl in T.
          apply T. cbn [fst]. pose proof (stages_maths _ _ H) as (Em & _ & _). rewrite Em. apply in_or_app. right. exact Hcv. }
        apply Hsat in Hf. exact Hf. }
    intros v a Hv. destruct (K v a Hv) as (Ra & Va). rewrite <- Ra. symmetry. exact Va.
  Qed.
End Complete2.
