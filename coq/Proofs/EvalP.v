(* Unfolding lemmas for Sem/Eval.v: the nested fixes inside [eval] are the top-level [evals]/[evalpw]. *)
From Coq Require Import List ZArith QArith Bool Reals Qreals.
From Verif Require Import Sexp Expr Eval.
Import ListNotations.

Section EvalP.
  Variable fsem : Z -> list R -> option R.
  Variable psem : R -> R -> option R.
  Variable csem : Z -> option R.
  Variable qsem : Z -> Q -> Z -> option R.
  Variable vsem : Z -> option R.
  Variable dsem : Z -> Z -> option R.
  Notation ev := (eval fsem psem csem qsem vsem dsem).
  Notation evs := (evals fsem psem csem qsem vsem dsem).
  Notation evpw := (evalpw fsem psem csem qsem vsem dsem).

  Lemma eval_add l : ev (EAdd l) =
    match evs l with
    | Some vs => option_map (fun rs => VR (fold_right Rplus 0%R rs)) (reals vs)
    | None => None end.
  Proof.
    cbn [eval].
    match goal with |- match ?f l with _ => _ end = _ => assert (H : f l = evs l) end.
    { induction l as [|x r IH]; cbn [evals]; [reflexivity|]. rewrite IH. reflexivity. }
    rewrite H. reflexivity.
  Qed.

  Lemma eval_mul l : ev (EMul l) =
    match evs l with
    | Some vs => option_map (fun rs => VR (fold_right Rmult 1%R rs)) (reals vs)
    | None => None end.
  Proof.
    cbn [eval].
    match goal with |- match ?f l with _ => _ end = _ => assert (H : f l = evs l) end.
    { induction l as [|x r IH]; cbn [evals]; [reflexivity|]. rewrite IH. reflexivity. }
    rewrite H. reflexivity.
  Qed.

  Lemma eval_fn f l : ev (EFn f l) =
    match evs l with
    | Some vs => match reals vs with Some rs => option_map VR (fsem f rs) | None => None end
    | None => None end.
  Proof.
    cbn [eval].
    match goal with |- match ?g l with _ => _ end = _ => assert (H : g l = evs l) end.
    { induction l as [|x r IH]; cbn [evals]; [reflexivity|]. rewrite IH. reflexivity. }
    rewrite H. reflexivity.
  Qed.

  Lemma eval_bool op l : ev (EBool op l) =
    match evs l with
    | Some vs => match bools vs with Some bs => option_map VB (bool_sem op bs) | None => None end
    | None => None end.
  Proof.
    cbn [eval].
    match goal with |- match ?g l with _ => _ end = _ => assert (H : g l = evs l) end.
    { induction l as [|x r IH]; cbn [evals]; [reflexivity|]. rewrite IH. reflexivity. }
    rewrite H. reflexivity.
  Qed.

  Lemma eval_pw l : ev (EPw l) = evpw l.
  Proof.
    cbn [eval]. induction l as [|[x c] r IH]; cbn [evalpw]; [reflexivity|].
    rewrite IH. reflexivity.
  Qed.
End EvalP.
