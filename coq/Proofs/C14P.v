(* Lemmas for C14 (every number reaches the generated code bit for bit). *)
From Coq Require Import ZArith QArith Reals Qreals List Lia Lra Bool.
From Flocq Require Import Core.
From Verif Require Import Sexp Precision_gen Floats.
Import ListNotations.

(* ------------------------------------------------------------------------------------------------
   dps_to_prec *)
Open Scope Z_scope.

Lemma prec_suffices : 53 <= dps_to_prec FLOAT_PRECISION.
Proof. apply Zle_bool_imp_le. vm_compute. reflexivity. Qed.

Lemma rhe_lower n d : 0 < d -> n / d <= round_half_even n d.
Proof.
  intros Hd. unfold round_half_even.
  destruct (2 * (n mod d) <? d); [lia|].
  destruct (d <? 2 * (n mod d)); [lia|].
  destruct (Z.even (n / d)); lia.
Qed.

Lemma rhe_upper n d : 0 < d -> round_half_even n d <= n / d + 1.
Proof.
  intros Hd. unfold round_half_even.
  destruct (2 * (n mod d) <? d); [lia|].
  destruct (d <? 2 * (n mod d)); [lia|].
  destruct (Z.even (n / d)); lia.
Qed.

(* the number of digits asked of evalf keeps a double exactly if and only if it is at least 15 *)
Lemma dps_to_prec_threshold : forall dps, 53 <= dps_to_prec dps <-> 15 <= dps.
Proof.
  intros dps. unfold dps_to_prec. split; intros H.
  - destruct (Z_lt_le_dec dps 15) as [Hlt|]; [exfalso|assumption].
    assert (Hd : 0 < log2_10_den) by reflexivity.
    pose proof (rhe_upper ((dps + 1) * log2_10_num) log2_10_den Hd) as Hu.
    assert (Hm : (dps + 1) * log2_10_num / log2_10_den <= 15 * log2_10_num / log2_10_den).
    { apply Z.div_le_mono; [exact Hd|]. unfold log2_10_num. lia. }
    change (15 * log2_10_num / log2_10_den) with 49 in Hm. lia.
  - assert (Hd : 0 < log2_10_den) by reflexivity.
    pose proof (rhe_lower ((dps + 1) * log2_10_num) log2_10_den Hd) as Hl.
    assert (Hm : 16 * log2_10_num / log2_10_den <= (dps + 1) * log2_10_num / log2_10_den).
    { apply Z.div_le_mono; [exact Hd|]. unfold log2_10_num. lia. }
    change (16 * log2_10_num / log2_10_den) with 53 in Hm. lia.
Qed.

Fixpoint zrange (lo : Z) (n : nat) : list Z :=
  match n with O => [] | S k => lo :: zrange (lo + 1) k end.

Lemma zrange_In : forall n lo x, lo <= x < lo + Z.of_nat n -> In x (zrange lo n).
Proof.
  induction n as [|n IH]; intros lo x H; [lia|].
  cbn [zrange]. destruct (Z.eq_dec lo x) as [->|Hne]; [left; reflexivity|right].
  apply IH. lia.
Qed.

(* adequacy margin of the rational constant on 1..200: the exact product (dps+1)*3.3219280948873626 is further
   than 10^-9 from every half-integer, so neither the binary rounding of the constant (error < 2^-51) nor that of
   the product (error < 2^-43 below 1024) can move it across a rounding boundary *)
Lemma dps_to_prec_margin : forall dps, 1 <= dps <= 200 -> dps_margin_ok dps = true.
Proof.
  intros dps H.
  assert (Hall : forallb dps_margin_ok (zrange 1 200) = true) by (vm_compute; reflexivity).
  rewrite forallb_forall in Hall. apply Hall. apply zrange_In. lia.
Qed.

Lemma evalf_precisions_ok : forallb (fun p => 53 <=? p) (evalf_precisions FLOAT_PRECISION) = true.
Proof. vm_compute. reflexivity. Qed.

(* ------------------------------------------------------------------------------------------------
   evalf at 53 bits or more is exact on doubles *)
Open Scope R_scope.

Lemma double_in_FLX : forall p x, (53 <= p)%Z -> is_double x -> generic_format radix2 (FLX_exp p) x.
Proof.
  intros p x Hp Hx.
  apply generic_inclusion_mag with (fexp1 := double_exp); [|exact Hx].
  intros _. unfold FLX_exp, double_exp, FLT_exp. lia.
Qed.

Lemma evalf_exact : forall p rnd x, Valid_rnd rnd -> (53 <= p)%Z -> is_double x ->
  round radix2 (FLX_exp p) rnd x = x.
Proof.
  intros p rnd x Hr Hp Hx.
  assert (Hp0 : Prec_gt_0 p) by (unfold Prec_gt_0; lia).
  apply round_generic; [exact Hr|]. apply double_in_FLX; assumption.
Qed.

Lemma evalf_round_exact : forall p x, (53 <= p)%Z -> is_double x -> evalf_round p x = x.
Proof. intros. apply evalf_exact; auto. apply valid_rnd_N. Qed.

Lemma to_float_exact : forall x, is_double x -> to_float x = x.
Proof.
  intros x Hx. unfold to_float.
  assert (Hp0 : Prec_gt_0 53) by (unfold Prec_gt_0; lia).
  apply round_generic; [apply valid_rnd_N|exact Hx].
Qed.

Lemma to_float_is_double : forall x, is_double (to_float x).
Proof.
  intros x. unfold to_float, is_double.
  assert (Hp0 : Prec_gt_0 53) by (unfold Prec_gt_0; lia).
  apply generic_format_round; [apply FLT_exp_valid; exact Hp0|apply valid_rnd_N].
Qed.

Lemma fold_evalf_exact : forall l x, forallb (fun p => 53 <=? p)%Z l = true -> is_double x ->
  fold_left (fun v p => evalf_round p v) l x = x.
Proof.
  induction l as [|p l IH]; intros x Hl Hx; [reflexivity|].
  cbn [forallb] in Hl. apply andb_prop in Hl. destruct Hl as [Hp Hl].
  cbn [fold_left]. rewrite evalf_round_exact; [apply IH; assumption| apply Zle_bool_imp_le; exact Hp | exact Hx].
Qed.

(* for ANY number of digits >= 15 (not just the generated constant) *)
Lemma evalf_stage_exact_any : forall dps x, (15 <= dps)%Z -> is_double x -> evalf_stage dps x = x.
Proof.
  intros dps x Hd Hx. unfold evalf_stage, evalf_precisions.
  assert (H1 : (53 <= dps_to_prec dps)%Z) by (apply dps_to_prec_threshold; exact Hd).
  assert (H2 : (53 <= dps_to_prec (dps_to_prec dps + 4))%Z) by (apply dps_to_prec_threshold; lia).
  cbn [fold_left].
  rewrite (evalf_round_exact _ x) by assumption.
  rewrite (evalf_round_exact _ x) by (assumption || lia).
  apply evalf_round_exact; assumption.
Qed.

Lemma pipeline_identity : forall x, is_double x -> pipeline_value x = x /\ pipeline_code x = x.
Proof.
  intros x Hx. unfold pipeline_value, pipeline_code, print_stage, quantity_store, evalf_stage. split.
  - apply to_float_exact; exact Hx.
  - rewrite fold_evalf_exact; [apply to_float_exact; exact Hx|exact evalf_precisions_ok|exact Hx].
Qed.

(* parsing produces a double, so the pipeline applies to every parsed literal *)
Lemma parsed_pipeline_identity : forall q,
  pipeline_value (parse_plain q) = parse_plain q /\ pipeline_code (parse_plain q) = parse_plain q.
Proof. intros q. apply pipeline_identity. apply to_float_is_double. Qed.

(* ------------------------------------------------------------------------------------------------
   e-notation: the value that is rounded is m * 10^e exactly, and it is rounded once *)
Lemma enotation_single_rounding : forall m e,
  parse_enotation m e = Some (to_float (Q2R (m * (inject_Z 10) ^ e))).
Proof. intros m e. reflexivity. Qed.

(* explicit value of a rounding to double, away from ties *)
Lemma round_double_value : forall x m e,
  (-1074 <= e)%Z ->
  bpow radix2 (e + 52) <= Rabs x < bpow radix2 (e + 53) ->
  Rabs (x * bpow radix2 (- e) - IZR m) < / 2 ->
  to_float x = IZR m * bpow radix2 e.
Proof.
  intros x m e He Hx Hm.
  unfold to_float, round, F2R, scaled_mantissa, cexp. cbn [Fnum Fexp].
  rewrite (mag_unique radix2 x (e + 53)) by (replace (e + 53 - 1)%Z with (e + 52)%Z by lia; exact Hx).
  replace (double_exp (e + 53)) with e by (unfold double_exp, FLT_exp; lia).
  rewrite (Znearest_imp _ _ m Hm). reflexivity.
Qed.

Lemma bpow_pos_val : forall k, bpow radix2 (Zpos k) = IZR (Z.pow_pos 2 k).
Proof. reflexivity. Qed.
Lemma bpow_neg_val : forall k, bpow radix2 (Zneg k) = / IZR (Z.pow_pos 2 k).
Proof. reflexivity. Qed.

Ltac bpow_num :=
  change (bpow radix2 0) with 1;
  repeat match goal with
  | |- context [bpow radix2 (Zpos ?k)] =>
      rewrite (bpow_pos_val k); let v := eval vm_compute in (Z.pow_pos 2 k) in change (Z.pow_pos 2 k) with v
  | |- context [bpow radix2 (Zneg ?k)] =>
      rewrite (bpow_neg_val k); let v := eval vm_compute in (Z.pow_pos 2 k) in change (Z.pow_pos 2 k) with v
  end.

Ltac round_value m e :=
  rewrite (round_double_value _ m e);
  [ | lia
    | let a := eval vm_compute in (e + 52)%Z in change (e + 52)%Z with a;
      let b := eval vm_compute in (e + 53)%Z in change (e + 53)%Z with b;
      bpow_num; rewrite Rabs_pos_eq by lra; lra
    | let a := eval vm_compute in (- e)%Z in change (- e)%Z with a;
      bpow_num; apply Rabs_def1; lra ].

(* contrast: float(m) * 10**e rounds twice and can land on a different double.
   Witness 1.1 and 2: float('1.1e2') = 110.0 but float('1.1') * 100.0 = 110.00000000000001 *)
Lemma enotation_two_roundings_differ : exists m e,
  parse_enotation m e <> Some (parse_enotation_two_roundings m e).
Proof.
  exists (11 # 10)%Q, 2%Z. rewrite enotation_single_rounding.
  unfold parse_enotation_two_roundings.
  replace (Q2R ((11 # 10) * inject_Z 10 ^ 2)) with 110 by (unfold Q2R; cbn; lra).
  replace (Q2R (inject_Z 10 ^ 2)) with 100 by (unfold Q2R; cbn; lra).
  replace (Q2R (11 # 10)) with (11 / 10) by (unfold Q2R; cbn; lra).
  assert (H110 : to_float 110 = IZR 7740561859543040 * bpow radix2 (-46)).
  { round_value 7740561859543040%Z (-46)%Z. reflexivity. }
  assert (H100 : to_float 100 = IZR 7036874417766400 * bpow radix2 (-46)).
  { round_value 7036874417766400%Z (-46)%Z. reflexivity. }
  assert (H11 : to_float (11 / 10) = IZR 4953959590107546 * bpow radix2 (-52)).
  { round_value 4953959590107546%Z (-52)%Z. reflexivity. }
  rewrite H110, H100, H11.
  assert (Hp : to_float (IZR 4953959590107546 * bpow radix2 (-52) * (IZR 7036874417766400 * bpow radix2 (-46)))
               = IZR 7740561859543041 * bpow radix2 (-46)).
  { round_value 7740561859543041%Z (-46)%Z. reflexivity. }
  rewrite Hp. intros Heq. injection Heq as Heq. revert Heq. bpow_num. lra.
Qed.

(* the hypotheses are satisfiable: 0.1 is not a double, its nearest double is, and survives the pipeline *)
Example pipeline_example : pipeline_code (parse_plain (1 # 10)) = parse_plain (1 # 10).
Proof. apply parsed_pipeline_identity. Qed.
