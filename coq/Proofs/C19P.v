(* C19: custom conversion rules apply the same way whatever units sit on either side -- Model/URules.v *)
From Coq Require Import List ZArith QArith Bool Lia Reals Lra Qreals Setoid.
From Verif Require Import Sexp UnitAlg UnitAlgP UStore URules.
Import ListNotations.

Lemma same_dim_refl a : same_dim a a = true.
Proof. apply same_dims_spec. reflexivity. Qed.
Lemma same_dim_sym a b : same_dim a b = same_dim b a.
Proof.
  destruct (same_dim a b) eqn:E1, (same_dim b a) eqn:E2; try reflexivity.
  - apply same_dims_spec in E1. symmetry in E1. apply same_dims_spec in E1. unfold same_dim in *. congruence.
  - apply same_dims_spec in E2. symmetry in E2. apply same_dims_spec in E2. unfold same_dim in *. congruence.
Qed.
Lemma same_dim_trans a b c : same_dim a b = true -> same_dim b c = true -> same_dim a c = true.
Proof. unfold same_dim. rewrite !same_dims_spec. intros H1 H2. etransitivity; eassumption. Qed.

(* same_dim x a depends only on the dimension of a *)
Lemma same_dim_congr x a a' : same_dim a a' = true -> same_dim x a = same_dim x a'.
Proof.
  intros H. destruct (same_dim x a) eqn:E1, (same_dim x a') eqn:E2; try reflexivity.
  - rewrite (same_dim_trans x a a' E1 H) in E2. discriminate.
  - rewrite same_dim_sym in H. rewrite (same_dim_trans x a' a E2 H) in E1. discriminate.
Qed.
Lemma same_dim_congr_l x a a' : same_dim a a' = true -> same_dim a x = same_dim a' x.
Proof. intros H. rewrite (same_dim_sym a x), (same_dim_sym a' x). apply same_dim_congr. exact H. Qed.

(* (1) conversions inside one dimension never use a rule *)
Theorem same_dimension_unaffected rules a b : same_dim a b = true ->
  convert_with_rules rules a b =
  match conv a b with Some c => Ok ({| a_q := 1%Q; a_syms := []; a_unit := a |}, c) | None => Err EDimension end.
Proof.
  intros H. unfold convert_with_rules. cbn [shortest]. rewrite H. cbn [fold_left a_unit]. reflexivity.
Qed.

(* (2) the chain found depends only on the two DIMENSIONS *)
Lemma existsb_congr (f g : uvec -> bool) l l' :
  Forall2 (fun x y => same_dim x y = true) l l' -> (forall x y, same_dim x y = true -> f x = f y) ->
  existsb f l = existsb f l'.
Proof.
  intros H Hf. induction H as [|x y l l' Hxy _ IH]; cbn [existsb]; [reflexivity|].
  rewrite IH, (Hf x y Hxy). reflexivity.
Qed.

Lemma fold_left_ext {A B} (f g : A -> B -> A) l : (forall a b, f a b = g a b) -> forall a, fold_left f l a = fold_left g l a.
Proof. intros H. induction l as [|x l IH]; intros a; cbn [fold_left]; [reflexivity|]. rewrite H. apply IH. Qed.

Lemma shortest_congr fuel rules : forall vis vis' a a' b b',
  same_dim a a' = true -> same_dim b b' = true -> Forall2 (fun x y => same_dim x y = true) vis vis' ->
  shortest fuel rules vis a b = shortest fuel rules vis' a' b'.
Proof.
  induction fuel as [|f IH]; intros vis vis' a a' b b' Ha Hb Hv; cbn [shortest]; [reflexivity|].
  assert (Hab : same_dim a b = same_dim a' b').
  { rewrite (same_dim_congr a b b' Hb). apply same_dim_congr_l. exact Ha. }
  rewrite Hab. destruct (same_dim a' b'); [reflexivity|].
  assert (Hstep : forall best r,
    (if same_dim (r_from r) a && negb (existsb (same_dim (r_to r)) (a :: vis))
     then match shortest f rules (a :: vis) (r_to r) b with
          | Some p => match best with
                      | Some b0 => if Nat.ltb (S (length p)) (length b0) then Some (r :: p) else best
                      | None => Some (r :: p) end
          | None => best end
     else best) =
    (if same_dim (r_from r) a' && negb (existsb (same_dim (r_to r)) (a' :: vis'))
     then match shortest f rules (a' :: vis') (r_to r) b' with
          | Some p => match best with
                      | Some b0 => if Nat.ltb (S (length p)) (length b0) then Some (r :: p) else best
                      | None => Some (r :: p) end
          | None => best end
     else best)).
  { intros best r. rewrite (same_dim_congr (r_from r) a a' Ha).
    assert (Hv' : Forall2 (fun x y => same_dim x y = true) (a :: vis) (a' :: vis')) by (constructor; assumption).
    rewrite (existsb_congr (same_dim (r_to r)) (same_dim (r_to r)) (a :: vis) (a' :: vis') Hv').
    2:{ intros x y Hxy. apply same_dim_congr. exact Hxy. }
    rewrite (IH (a :: vis) (a' :: vis') (r_to r) (r_to r) b b' (same_dim_refl _) Hb Hv'). reflexivity. }
  apply fold_left_ext. exact Hstep.
Qed.

(* the unit reached along a chain is the start unit times a unit that depends on the chain only *)
Definition chain_unit (path : list rule) : uvec :=
  fold_left (fun u r => if r_div r then udiv u (r_kunit r) else umul u (r_kunit r)) path uone.

Lemma apply_path_spec path : forall st,
  let st' := fold_left (fun st r => apply_rule r st) path st in
  ueq (a_unit st') (umul (a_unit st) (chain_unit path)) /\
  (forall st2, a_q st2 = a_q st -> a_syms st2 = a_syms st ->
     a_q (fold_left (fun st r => apply_rule r st) path st2) = a_q st' /\
     a_syms (fold_left (fun st r => apply_rule r st) path st2) = a_syms st').
Proof.
  unfold chain_unit. induction path as [|r path IH]; intros st; cbn [fold_left].
  - split; [intro k; unfold umul; rewrite get_app; cbn [get uone]; ring|]. intros st2 H1 H2. split; assumption.
  - destruct (IH (apply_rule r st)) as [A B]. split.
    + assert (G : forall u0 u1, ueq u0 u1 ->
                  ueq (fold_left (fun u r => if r_div r then udiv u (r_kunit r) else umul u (r_kunit r)) path u0)
                      (umul u1 (fold_left (fun u r => if r_div r then udiv u (r_kunit r) else umul u (r_kunit r)) path uone))).
      { clear. induction path as [|r path IH]; intros u0 u1 H; cbn [fold_left].
        - intro k. unfold umul. rewrite get_app. cbn [get uone]. rewrite (H k). ring.
        - destruct (r_div r).
          + etransitivity; [apply (IH (udiv u0 (r_kunit r)) (udiv u0 (r_kunit r))); reflexivity|].
            etransitivity; [|apply umul_Proper; [reflexivity|symmetry; apply (IH (udiv uone (r_kunit r)) (udiv uone (r_kunit r))); reflexivity]].
            intro k. unfold umul. rewrite !get_app, !get_udiv. cbn [get uone]. rewrite (H k). ring.
          + etransitivity; [apply (IH (umul u0 (r_kunit r)) (umul u0 (r_kunit r))); reflexivity|].
            etransitivity; [|apply umul_Proper; [reflexivity|symmetry; apply (IH (umul uone (r_kunit r)) (umul uone (r_kunit r))); reflexivity]].
            intro k. unfold umul. rewrite !get_app. cbn [get uone]. rewrite (H k). ring. }
      etransitivity; [exact A|]. unfold apply_rule. destruct (r_div r); cbn [a_unit].
      * etransitivity; [|apply umul_Proper; [reflexivity|symmetry; apply (G (udiv uone (r_kunit r)) (udiv uone (r_kunit r))); reflexivity]].
        intro k. unfold umul. rewrite !get_app, !get_udiv. cbn [get uone]. ring.
      * etransitivity; [|apply umul_Proper; [reflexivity|symmetry; apply (G (umul uone (r_kunit r)) (umul uone (r_kunit r))); reflexivity]].
        intro k. unfold umul. rewrite !get_app. cbn [get uone]. ring.
    + intros st2 H1 H2. apply B; unfold apply_rule; destruct (r_div r); cbn [a_q a_syms]; congruence.
Qed.

(* (2) UNIT INDEPENDENCE: for units a', b' of the same dimensions as a, b, the rule result is the one for (a, b)
   rescaled by exactly the ordinary factors a' -> a and b -> b'; coefficient and symbols are identical *)
Theorem unit_independent rules a b a' b' st c :
  same_dim a' a = true -> same_dim b b' = true ->
  convert_with_rules rules a b = Ok (st, c) ->
  exists st' c' ca cb,
    convert_with_rules rules a' b' = Ok (st', c') /\ conv a' a = Some ca /\ conv b b' = Some cb /\
    a_q st' = a_q st /\ a_syms st' = a_syms st /\ ueq c' (umul ca (umul c cb)).
Proof.
  intros Ha Hb H. unfold convert_with_rules in *.
  rewrite (shortest_congr (S (length rules)) rules [] [] a' a b' b Ha) by (first [rewrite same_dim_sym; exact Hb | constructor]).
  destruct (shortest (S (length rules)) rules [] a b) as [path|]; [|discriminate].
  set (s0 := {| a_q := 1%Q; a_syms := []; a_unit := a |}) in *.
  set (s0' := {| a_q := 1%Q; a_syms := []; a_unit := a' |}).
  destruct (apply_path_spec path s0) as [Hu Hq]. destruct (apply_path_spec path s0') as [Hu' _].
  destruct (Hq s0' eq_refl eq_refl) as [Hq1 Hq2]. cbn zeta in *.
  destruct (conv (a_unit (fold_left (fun st r => apply_rule r st) path s0)) b) as [c0|] eqn:Hc; [|discriminate].
  injection H as <- <-.
  apply conv_some in Hc as [Hd Hcv]. subst c0.
  assert (Hda : ueq (dims a') (dims a)) by (apply same_dims_spec; exact Ha).
  assert (Hdb : ueq (dims b) (dims b')) by (apply same_dims_spec; exact Hb).
  assert (Hca : conv a' a = Some (scale (udiv a' a))) by (unfold conv; fold (same_dim a' a); rewrite Ha; reflexivity).
  assert (Hcb : conv b b' = Some (scale (udiv b b'))) by (unfold conv; fold (same_dim b b'); rewrite Hb; reflexivity).
  set (e := a_unit (fold_left (fun st r => apply_rule r st) path s0)) in *.
  set (e' := a_unit (fold_left (fun st r => apply_rule r st) path s0')) in *.
  assert (Hd' : same_dims e' b' = true).
  { apply same_dims_spec. intro k. rewrite !get_dims. destruct (is_dim k) eqn:Ek; [|reflexivity].
    rewrite (Hu' k). unfold umul. rewrite get_app. cbn [a_unit s0'].
    specialize (Hd k). rewrite !get_dims, Ek in Hd. rewrite (Hu k) in Hd. unfold umul in Hd. rewrite get_app in Hd. cbn [a_unit s0] in Hd.
    specialize (Hda k). rewrite !get_dims, Ek in Hda. specialize (Hdb k). rewrite !get_dims, Ek in Hdb.
    rewrite Hda, <- Hdb. exact Hd. }
  unfold conv at 1. rewrite Hd'.
  exists (fold_left (fun st r => apply_rule r st) path s0'), (scale (udiv e' b')), (scale (udiv a' a)), (scale (udiv b b')).
  repeat split; try assumption.
  intro k. unfold umul. rewrite !get_app, !get_scale. destruct (is_scale k); [|ring].
  rewrite !get_udiv, (Hu' k), (Hu k). unfold umul. rewrite !get_app. cbn [a_unit s0 s0']. ring.
Qed.

(* (3) dimensions that no rule leaves stay unconvertible *)
Theorem unconnected_still_fails rules a b : same_dim a b = false ->
  forallb (fun r => negb (same_dim (r_from r) a)) rules = true ->
  convert_with_rules rules a b = Err EDimension.
Proof.
  intros Hab Hno. unfold convert_with_rules. cbn [shortest]. rewrite Hab.
  assert (H : forall (rs : list rule) (g : option (list rule) -> rule -> option (list rule)) best,
            forallb (fun r => negb (same_dim (r_from r) a)) rs = true ->
            (forall best r, same_dim (r_from r) a = false -> g best r = best) ->
            fold_left g rs best = best).
  { induction rs as [|r rs IH]; intros g best Hf Hg; cbn [fold_left]; [reflexivity|].
    cbn [forallb] in Hf. apply andb_true_iff in Hf as [Hr Hf]. apply negb_true_iff in Hr.
    rewrite (Hg best r Hr). apply IH; assumption. }
  rewrite (H rules _ None Hno); [reflexivity|].
  intros best r Hr. rewrite Hr. reflexivity.
Qed.

(* (4) a single multiplicative rule: magnitude 1 in unit a becomes  kq * (symbols) * scale(a) * scale(K) / scale(b) *)
Theorem single_rule_value r a b st c :
  convert_with_rules [r] a b = Ok (st, c) -> same_dim a b = false ->
  (r_div r = false -> (a_q st == r_kq r)%Q /\ (scaleR c = scaleR a * scaleR (r_kunit r) / scaleR b)%R) /\
  (r_div r = true -> (a_q st == 1 / r_kq r)%Q /\ (scaleR c = scaleR a / scaleR (r_kunit r) / scaleR b)%R).
Proof.
  unfold convert_with_rules. cbn [shortest length fold_left]. intros H Hab. rewrite Hab in H.
  destruct (same_dim (r_from r) a && negb (existsb (same_dim (r_to r)) [a])); [|discriminate].
  destruct (same_dim (r_to r) b); [|cbn [fold_left] in H; destruct (same_dim (r_from r) (r_to r) && _); discriminate].
  cbn [fold_left length Nat.ltb] in H. unfold apply_rule in H.
  destruct (r_div r) eqn:Hd; cbn [a_unit a_q a_syms] in H.
  - destruct (conv (udiv a (r_kunit r)) b) as [c0|] eqn:Hc; [|discriminate]. injection H as <- <-.
    split; [discriminate|]. intros _. cbn [a_q]. split; [reflexivity|].
    rewrite (conv_scaleR _ _ _ Hc), scaleR_udiv. reflexivity.
  - destruct (conv (umul a (r_kunit r)) b) as [c0|] eqn:Hc; [|discriminate]. injection H as <- <-.
    split; [|discriminate]. intros _. cbn [a_q]. split; [ring|].
    rewrite (conv_scaleR _ _ _ Hc), scaleR_umul. reflexivity.
Qed.
