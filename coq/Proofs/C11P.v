(* C11 -- part 2: the trig rewriting pass preserves the value; for every printable tree (all depths) the
   parse tree the printer builds is well-bracketed and evaluates to the value of the expression. *)
From Coq Require Import List ZArith QArith Bool Reals Qreals String Arith Lia Lra.
From Verif Require Import Sexp Expr Eval EvalP PyGrammar PyPrinter PrinterTables_gen C11GrammarP.
Import ListNotations.
Open Scope list_scope.

(* ---- generic helpers ------------------------------------------------------------------------- *)
Lemma collect_ok {T} (l : list (res T)) ps : collect l = Ok ps -> Forall2 (fun x p => x = Ok p) l ps.
Proof.
  revert ps. induction l as [|x r IH]; intros ps H; cbn in H.
  - inversion H. constructor.
  - destruct x as [a| | |]; destruct (collect r) as [l'| | |]; cbn in H; try discriminate.
    inversion H; subst. constructor; [reflexivity | apply IH; reflexivity].
Qed.

Lemma collect_map_ok {S T} (f : S -> res T) l ps :
  collect (map f l) = Ok ps -> Forall2 (fun x p => f x = Ok p) l ps.
Proof.
  intros H. apply collect_ok in H. revert ps H. induction l as [|x r IH]; intros ps H; inversion H; subst; constructor.
  - assumption.
  - apply IH. assumption.
Qed.

Lemma rbind_ok {S T} (x : res S) (f : S -> res T) y : rbind x f = Ok y -> exists a, x = Ok a /\ f a = Ok y.
Proof. destruct x; cbn; try discriminate. intros H. eexists; split; [reflexivity | exact H]. Qed.

Lemma fn_name_id_ok : forallb (fun fs => match fn_id (snd fs) with Some f => Z.eqb f (fst fs) | None => false end) fn_table = true.
Proof. vm_compute. reflexivity. Qed.

Lemma fn_name_id f s : fn_name f = Some s -> fn_id s = Some f.
Proof.
  intros H. apply zlookup_in in H. pose proof fn_name_id_ok as K. rewrite forallb_forall in K.
  specialize (K _ H). cbn [fst snd] in K. destruct (fn_id s) as [g|]; [|discriminate].
  apply Z.eqb_eq in K. subst. reflexivity.
Qed.

(* ---- the trig rewriting pass ------------------------------------------------------------------ *)
Definition trig_spec : list (Z * Z * Z) :=
  [(fn_sec, 0, fn_cos); (fn_csc, 0, fn_sin); (fn_cot, 0, fn_tan);
   (fn_sech, 0, fn_cosh); (fn_csch, 0, fn_sinh); (fn_coth, 0, fn_tanh);
   (fn_asec, 1, fn_acos); (fn_acsc, 1, fn_asin); (fn_acot, 1, fn_atan);
   (fn_asech, 1, fn_acosh); (fn_acsch, 1, fn_asinh); (fn_acoth, 1, fn_atanh)]%Z.

Definition trig_entry_ok (e : string * Z * string) : bool :=
  let '(s, sh, g) := e in
  match fn_id s, fn_id g with
  | Some f, Some gi => existsb (fun t => let '(f', sh', g') := t in Z.eqb f f' && Z.eqb sh sh' && Z.eqb gi g') trig_spec
  | _, _ => false
  end.

Lemma extra_trig_ok : forallb trig_entry_ok extra_trig = true.
Proof. vm_compute. reflexivity. Qed.

Lemma tlookup_in l s sh g : tlookup l s = Some (sh, g) -> In (s, sh, g) l.
Proof.
  induction l as [|[[k sh'] g'] r IH]; cbn; [discriminate|].
  destruct (String.eqb s k) eqn:E.
  - intros H. inversion H; subst. apply String.eqb_eq in E. subst. left. reflexivity.
  - intros H. right. apply IH. exact H.
Qed.

Section Rewrite.
  Variable fsem : Z -> list R -> option R.
  Variable psem : R -> R -> option R.
  Variable csem : Z -> option R.
  Variable qsem : Z -> Q -> Z -> option R.
  Variable vsem : Z -> option R.
  Variable dsem : Z -> Z -> option R.
  Notation ev := (eval fsem psem csem qsem vsem dsem).
  Notation evs := (evals fsem psem csem qsem vsem dsem).
  Notation evpw := (evalpw fsem psem csem qsem vsem dsem).

  (* sec x = 1 / cos x ...  (shape 0);   asec x = acos (1 / x) ...  (shape 1) *)
  Definition trig_law (f sh g : Z) : Prop :=
    forall x, fsem f [x] =
      if Z.eqb sh 0 then match fsem g [x] with Some c => psem c (Q2R (-1 # 1)) | None => None end
      else match psem x (Q2R (-1 # 1)) with Some y => fsem g [y] | None => None end.

  Hypothesis Htrig : forall f sh g, In (f, sh, g) trig_spec -> trig_law f sh g.

  Lemma eval_pow b x : ev (EPow b x) =
    match ev b, ev x with Some (VR rb), Some (VR rx) => option_map VR (psem rb rx) | _, _ => None end.
  Proof. reflexivity. Qed.

  Lemma eval_rel r a b : ev (ERel r a b) =
    match ev a, ev b with Some (VR ra), Some (VR rb) => option_map VB (rel_sem r ra rb) | _, _ => None end.
  Proof. reflexivity. Qed.

  Lemma eval_fn1 f a : ev (EFn f [a]) =
    match ev a with Some (VR x) => option_map VR (fsem f [x]) | _ => None end.
  Proof. rewrite eval_fn. cbn [evals]. destruct (ev a) as [[x|b]|]; reflexivity. Qed.

  Lemma rewrite_fn_sound f l : ev (rewrite_fn f l) = ev (EFn f l).
  Proof.
    unfold rewrite_fn. destruct l as [|a [|b r]]; try reflexivity.
    destruct (fn_name f) as [s|] eqn:Hn; [|reflexivity].
    destruct (tlookup extra_trig s) as [[sh g]|] eqn:Ht; [|reflexivity].
    destruct (fn_id g) as [gi|] eqn:Hg; [|reflexivity].
    apply tlookup_in in Ht. pose proof extra_trig_ok as K. rewrite forallb_forall in K.
    specialize (K _ Ht). unfold trig_entry_ok in K. rewrite (fn_name_id _ _ Hn), Hg in K.
    apply existsb_exists in K. destruct K as [[[f' sh'] g'] [Hin K]].
    apply andb_prop in K. destruct K as [K K3]. apply andb_prop in K. destruct K as [K1 K2].
    apply Z.eqb_eq in K1, K2, K3. subst f' sh' g'.
    pose proof (Htrig _ _ _ Hin) as Law. unfold trig_law in Law.
    destruct (Z.eqb sh 0) eqn:Esh.
    - rewrite eval_pow, !eval_fn1. unfold neg_one. cbn [eval].
      destruct (ev a) as [[x|bb]|]; try reflexivity. rewrite Law.
      destruct (fsem gi [x]); reflexivity.
    - rewrite !eval_fn1, eval_pow. unfold neg_one. cbn [eval].
      destruct (ev a) as [[x|bb]|]; try reflexivity. rewrite Law.
      destruct (psem x (Q2R (-1 # 1))); reflexivity.
  Qed.

  Lemma evals_map_ext (f : expr -> expr) l : Forall (fun e => ev (f e) = ev e) l -> evs (map f l) = evs l.
  Proof.
    induction 1 as [|x r Hx Hr IH]; [reflexivity|]. cbn [map evals]. rewrite Hx, IH. reflexivity.
  Qed.

  Lemma rewrite_sound : forall e, ev (rewrite e) = ev e.
  Proof.
    induction e using expr_ind'; cbn [rewrite]; try reflexivity.
    - rewrite !eval_add, (evals_map_ext rewrite l H). reflexivity.
    - rewrite !eval_mul, (evals_map_ext rewrite l H). reflexivity.
    - rewrite !eval_pow, IHe1, IHe2. reflexivity.
    - rewrite rewrite_fn_sound, !eval_fn, (evals_map_ext rewrite l H). reflexivity.
    - rewrite !eval_rel, IHe1, IHe2. reflexivity.
    - rewrite !eval_bool, (evals_map_ext rewrite l H). reflexivity.
    - rewrite !eval_pw. induction H as [|[x c] r [Hx Hc] Hr IH]; [reflexivity|].
      cbn [fst snd] in Hx, Hc. cbn [map evalpw fst snd]. rewrite Hx, Hc, IH. reflexivity.
  Qed.

  Lemma pre_sound e : ev (pre e) = ev e.
  Proof. unfold pre. destruct (is_boolkind e); [reflexivity | apply rewrite_sound]. Qed.
End Rewrite.

(* ---- parse-tree level lemmas ------------------------------------------------------------------ *)
Lemma ksub_klvl k : ksub k = S (klvl k).
Proof. destruct k; reflexivity. Qed.

Lemma lvl_klvl_inv p k : lvl p = klvl k -> exists p0 r, p = PNary k p0 r.
Proof.
  destruct p; destruct k; cbn; try discriminate; try (destruct k0; cbn; try discriminate);
    intros _; eexists; eexists; reflexivity.
Qed.

Lemma kind_eqb_eq a b : kind_eqb a b = true <-> a = b.
Proof. destruct a, b; cbn; split; intros H; try reflexivity; try discriminate. Qed.

Definition eok (k : nkind) (bp : bool * ptree) : Prop := wb (snd bp) = true /\ (ksub k <= lvl (snd bp))%nat.

Lemma eok_forallb k r : Forall (eok k) r ->
  forallb (fun bp => wb (snd bp) && Nat.leb (ksub k) (lvl (snd bp))) r = true.
Proof.
  induction 1 as [|x r [H1 H2] Hr IH]; [reflexivity|]. cbn [forallb]. rewrite H1, IH.
  apply Nat.leb_le in H2. rewrite H2. reflexivity.
Qed.

Lemma forallb_eok k r :
  forallb (fun bp => wb (snd bp) && Nat.leb (ksub k) (lvl (snd bp))) r = true -> Forall (eok k) r.
Proof.
  induction r as [|x r IH]; cbn [forallb]; intros H; constructor.
  - apply andb_prop in H. destruct H as [H _]. apply andb_prop in H. destruct H as [H1 H2].
    split; [exact H1 | apply Nat.leb_le; exact H2].
  - apply andb_prop in H. destruct H as [_ H]. apply IH. exact H.
Qed.

Lemma wb_nary_inv k p0 r : wb (PNary k p0 r) = true ->
  r <> [] /\ wb p0 = true /\ (ksub k <= lvl p0)%nat /\ Forall (eok k) r.
Proof.
  cbn [wb]. intros H. repeat (apply andb_prop in H; destruct H as [H ?]).
  split; [destruct r; [discriminate | discriminate]|].
  split; [assumption|]. split; [apply Nat.leb_le; assumption | apply forallb_eok; assumption].
Qed.

Lemma wb_nary_intro k p0 r : r <> [] -> wb p0 = true -> (ksub k <= lvl p0)%nat -> Forall (eok k) r ->
  wb (PNary k p0 r) = true.
Proof.
  intros Hr H0 Hl Hf. cbn [wb]. rewrite H0, (eok_forallb _ _ Hf). apply Nat.leb_le in Hl. rewrite Hl.
  destruct r; [contradiction | reflexivity].
Qed.

Lemma splice_single k s u : lvl u <> klvl k -> splice k s u = [(s, u)].
Proof.
  intros H. destruct u; try reflexivity. cbn [splice]. destruct (kind_eqb k k0) eqn:E; [|reflexivity].
  apply kind_eqb_eq in E. subst. cbn in H. contradiction.
Qed.

Lemma splice_ok k s u : wb u = true -> (klvl k <= lvl u)%nat -> Forall (eok k) (splice k s u).
Proof.
  intros Hw Hl. destruct (Nat.eq_dec (lvl u) (klvl k)) as [E|E].
  - destruct (lvl_klvl_inv _ _ E) as [p0 [r ->]]. cbn [splice].
    replace (kind_eqb k k) with true by (symmetry; apply kind_eqb_eq; reflexivity).
    destruct (wb_nary_inv _ _ _ Hw) as [_ [H0 [H1 H2]]]. constructor; [split; assumption | assumption].
  - rewrite (splice_single _ _ _ E). constructor; [|constructor]. split; [exact Hw|]. cbn [snd].
    rewrite ksub_klvl. lia.
Qed.

Lemma mknary_ok k h r : wb h = true -> (klvl k <= lvl h)%nat -> Forall (eok k) r ->
  wb (mknary k h r) = true /\ (klvl k <= lvl (mknary k h r))%nat.
Proof.
  intros Hw Hl Hr. destruct r as [|x r]; [split; assumption|].
  assert (Hne : x :: r <> []) by discriminate.
  destruct (Nat.eq_dec (lvl h) (klvl k)) as [E|E].
  - destruct (lvl_klvl_inv _ _ E) as [p0 [r0 ->]]. cbn [mknary].
    replace (kind_eqb k k) with true by (symmetry; apply kind_eqb_eq; reflexivity).
    destruct (wb_nary_inv _ _ _ Hw) as [_ [H0 [H1 H2]]]. split; [|cbn; lia].
    apply wb_nary_intro; try assumption.
    + destruct r0; discriminate.
    + apply Forall_app. split; assumption.
  - assert (Hm : mknary k h (x :: r) = PNary k h (x :: r)).
    { destruct h; try reflexivity. cbn [mknary]. destruct (kind_eqb k k0) eqn:Ek; [|reflexivity].
      apply kind_eqb_eq in Ek. subst. cbn in E. contradiction. }
    rewrite Hm. split; [|cbn; lia]. apply wb_nary_intro; try assumption. rewrite ksub_klvl. lia.
Qed.

Lemma lead_neg_lvl p : lead_neg p = true -> (lvl p <= 8)%nat.
Proof. destruct p; cbn; try discriminate; intros _; try lia. destruct k; cbn; lia. Qed.

Lemma strip_ok : forall p, wb p = true -> lead_neg p = true -> (5 <= lvl p)%nat ->
  wb (strip p) = true /\ (Nat.min (lvl p) 7 <= lvl (strip p))%nat.
Proof.
  induction p using ptree_ind'; intros Hw Hn Hl; cbn in Hn; try discriminate; cbn [strip].
  - (* pow *) cbn [wb] in Hw. repeat (apply andb_prop in Hw; destruct Hw as [Hw ?]).
    apply lead_neg_lvl in Hn. apply Nat.leb_le in H1. lia.
  - (* neg *) cbn [wb] in Hw. apply andb_prop in Hw. destruct Hw as [H1 H2]. apply Nat.leb_le in H2.
    split; [exact H1 | cbn; lia].
  - (* nary *) destruct (wb_nary_inv _ _ _ Hw) as [Hr [H0 [H1 H2]]].
    assert (Hk : (6 <= ksub k)%nat /\ (ksub k <= 7)%nat) by (destruct k; cbn in *; lia).
    destruct (IHp H0 Hn ltac:(lia)) as [I1 I2]. split; [|cbn; lia].
    apply wb_nary_intro; try assumption. lia.
  - cbn in Hl. lia.
  - cbn in Hl. lia.
Qed.

Lemma strip_top_not_sum p : lead_neg p = true -> wb p = true -> (6 <= lvl p)%nat -> lvl (strip p) <> klvl KSum.
Proof.
  intros Hn Hw Hl. destruct (strip_ok p Hw Hn ltac:(lia)) as [_ H]. cbn. lia.
Qed.

Section PV.
  Variable fsem : Z -> list R -> option R.
  Variable psem : R -> R -> option R.
  Variable csem : Z -> option R.
  Variable vsem : Z -> option R.
  Notation pev := (pyeval fsem psem csem vsem).
  Definition mapped (r : list (bool * ptree)) : list (bool * option value) :=
    map (fun bp => (fst bp, pev (snd bp))) r.

  Lemma pev_nary k p0 r : pev (PNary k p0 r) = nary_sem k (pev p0) (mapped r).
  Proof. reflexivity. Qed.

  Lemma mapped_app a b : mapped (a ++ b) = mapped a ++ mapped b.
  Proof. apply map_app. Qed.

  Lemma fold_sum_none l : fold_left sum_step l None = None.
  Proof. induction l as [|x r IH]; [reflexivity | exact IH]. Qed.
  Lemma fold_prod_none l : fold_left prod_step l None = None.
  Proof. induction l as [|x r IH]; [reflexivity | exact IH]. Qed.

  Lemma fold_sum_some l : forall acc w, fold_left sum_step l acc = Some (VR w) -> exists a, acc = Some (VR a).
  Proof.
    induction l as [|x r IH]; intros acc w H; cbn in H.
    - eexists; exact H.
    - destruct (IH _ _ H) as [a Ha]. destruct acc as [[a0|b]|]; cbn in Ha; try discriminate. eexists; reflexivity.
  Qed.
  Lemma fold_prod_some l : forall acc w, fold_left prod_step l acc = Some (VR w) -> exists a, acc = Some (VR a).
  Proof.
    induction l as [|x r IH]; intros acc w H; cbn in H.
    - eexists; exact H.
    - destruct (IH _ _ H) as [a Ha]. destruct acc as [[a0|b]|]; cbn in Ha; try discriminate. eexists; reflexivity.
  Qed.

  Lemma fold_sum_delta l : forall x w, fold_left sum_step l (Some (VR x)) = Some (VR w) ->
    forall y, fold_left sum_step l (Some (VR y)) = Some (VR (y + (w - x))%R).
  Proof.
    induction l as [|[s [[v|b]|]] r IH]; intros x w H y; cbn [fold_left] in *.
    - inversion H; subst. f_equal. f_equal. lra.
    - unfold sum_step at 2 in H. cbn [fst snd] in H. unfold sum_step at 2. cbn [fst snd].
      rewrite (IH _ _ H). f_equal. f_equal. destruct s; lra.
    - unfold sum_step at 2 in H. cbn [snd] in H. rewrite fold_sum_none in H. discriminate.
    - unfold sum_step at 2 in H. cbn [snd] in H. rewrite fold_sum_none in H. discriminate.
  Qed.

  Lemma fold_prod_scale l : forall x w, fold_left prod_step l (Some (VR x)) = Some (VR w) ->
    forall c, fold_left prod_step l (Some (VR (c * x)%R)) = Some (VR (c * w)%R).
  Proof.
    induction l as [|[s [[v|b]|]] r IH]; intros x w H c; cbn [fold_left] in *.
    - inversion H; subst. reflexivity.
    - unfold prod_step at 2 in H. cbn [fst snd] in H. unfold prod_step at 2. cbn [fst snd].
      destruct s.
      + replace (c * x * v)%R with (c * (x * v))%R by ring. apply IH. exact H.
      + destruct (Req_EM_T v 0); [rewrite fold_prod_none in H; discriminate|].
        replace (c * x * / v)%R with (c * (x * / v))%R by ring. apply IH. exact H.
    - unfold prod_step at 2 in H. cbn [snd] in H. rewrite fold_prod_none in H. discriminate.
    - unfold prod_step at 2 in H. cbn [snd] in H. rewrite fold_prod_none in H. discriminate.
  Qed.

  Lemma fold_prod_neg l x w : fold_left prod_step l (Some (VR x)) = Some (VR w) ->
    fold_left prod_step l (Some (VR (- x)%R)) = Some (VR (- w)%R).
  Proof.
    intros H. replace (- x)%R with (-1 * x)%R by ring. replace (- w)%R with (-1 * w)%R by ring.
    apply fold_prod_scale. exact H.
  Qed.

  (* value of a chain built with mknary, sums and products *)
  Lemma mknary_val k h r : (k = KSum \/ k = KProd) -> pev (mknary k h r) = nary_sem k (pev h) (mapped r).
  Proof.
    intros Hk. destruct r as [|x r]; [destruct Hk; subst; reflexivity|].
    destruct h; try reflexivity. cbn [mknary]. destruct (kind_eqb k k0) eqn:E; [|reflexivity].
    apply kind_eqb_eq in E. subst k0. rewrite !pev_nary, mapped_app.
    destruct Hk; subst; cbn [nary_sem]; rewrite fold_left_app; reflexivity.
  Qed.

  (* appending an operand of value v to a product chain multiplies by v *)
  Lemma splice_prod_val u v : wb u = true -> pev u = Some (VR v) ->
    forall a, fold_left prod_step (mapped (splice KProd true u)) (Some (VR a)) = Some (VR (a * v)%R).
  Proof.
    intros Hw Hv a. destruct (Nat.eq_dec (lvl u) (klvl KProd)) as [E|E].
    - destruct (lvl_klvl_inv _ _ E) as [p0 [r ->]]. cbn [splice kind_eqb mapped map fold_left fst snd].
      rewrite pev_nary in Hv. cbn [nary_sem] in Hv. destruct (fold_prod_some _ _ _ Hv) as [v0 H0].
      rewrite H0 in *. unfold prod_step at 2. cbn [fst snd]. apply fold_prod_scale. exact Hv.
    - rewrite (splice_single _ _ _ E). cbn [mapped map fold_left fst snd]. rewrite Hv. reflexivity.
  Qed.

  Lemma strip_neg_val : forall p, wb p = true -> lead_neg p = true -> (6 <= lvl p)%nat ->
    forall vv, pev p = Some (VR vv) -> pev (strip p) = Some (VR (- vv)%R).
  Proof.
    induction p using ptree_ind'; intros Hw Hn Hl vv Hv; cbn in Hn; try discriminate; cbn [strip].
    - cbn [wb] in Hw. repeat (apply andb_prop in Hw; destruct Hw as [Hw ?]).
      apply lead_neg_lvl in Hn. apply Nat.leb_le in H1. lia.
    - cbn [pyeval] in Hv. destruct (pev p) as [[x|b]|]; try discriminate. inversion Hv; subst.
      rewrite Ropp_involutive. reflexivity.
    - destruct k; cbn in Hl; try lia.
      destruct (wb_nary_inv _ _ _ Hw) as [Hr [H0 [H1 H2]]]. cbn in H1.
      rewrite pev_nary in *. cbn [nary_sem] in *. destruct (fold_prod_some _ _ _ Hv) as [v0 Hv0].
      rewrite (IHp H0 Hn ltac:(lia) _ Hv0). rewrite Hv0 in Hv. apply fold_prod_neg. exact Hv.
    - cbn in Hl. lia.
    - cbn in Hl. lia.
  Qed.

  (* boolean chains: z is the deciding value (false for 'and', true for 'or') *)
  Fixpoint bsem (z : bool) (l : list (option value)) : option value :=
    match l with
    | [] => Some (VB (negb z))
    | Some (VB b) :: r => if Bool.eqb b z then Some (VB z) else bsem z r
    | _ :: _ => None
    end.

  Lemma and_sem_bsem l : and_sem l = bsem false l.
  Proof. induction l as [|[[x|[|]]|] r IH]; cbn; try reflexivity. exact IH. Qed.
  Lemma or_sem_bsem l : or_sem l = bsem true l.
  Proof. induction l as [|[[x|[|]]|] r IH]; cbn; try reflexivity. exact IH. Qed.

  Definition kz (k : nkind) : bool := match k with KOr => true | _ => false end.
  Lemma nary_bool k v0 l : (k = KAnd \/ k = KOr) -> nary_sem k v0 l = bsem (kz k) (v0 :: map snd l).
  Proof. intros [->| ->]; cbn [nary_sem kz]; [apply and_sem_bsem | apply or_sem_bsem]. Qed.

  Definition bcomb (z b acc : bool) : bool := if Bool.eqb b z then z else acc.

  Lemma bsem_app z a : forall b, bsem z (a ++ b) =
    match bsem z a with Some (VB x) => if Bool.eqb x z then Some (VB z) else bsem z b | o => o end.
  Proof.
    induction a as [|[[x|y]|] r IH]; intros b; cbn [app bsem].
    - destruct z; cbn; reflexivity.
    - reflexivity.
    - destruct (Bool.eqb y z) eqn:E; [rewrite Bool.eqb_reflx; reflexivity | apply IH].
    - reflexivity.
  Qed.

  Lemma bsem_vals z (bs : list bool) :
    bsem z (map (fun b => Some (VB b)) bs) = Some (VB (fold_right (bcomb z) (negb z) bs)).
  Proof.
    induction bs as [|b r IH]; [reflexivity|]. cbn [map bsem fold_right]. unfold bcomb at 1.
    destruct (Bool.eqb b z); [reflexivity | exact IH].
  Qed.
End PV.

(* ---- precedence facts ---------------------------------------------------------------------- *)
Definition okb (x : expr) : bool := isreal x && printable x.

(* the level the printed form of e is guaranteed to have *)
Definition elvl (e : expr) : nat :=
  match e with
  | ENum k q => if qneg q then 5 else if Z.eqb k 1 then 6 else 9
  | EAdd _ => 5
  | EMul l => match l with x :: _ => if is_neg_num x then 5 else 6 | [] => 6 end
  | EPow _ x => if is_half x then 9 else if is_neghalf x || is_negone x then 6 else 8
  | ERel _ _ _ => 4
  | EBool op _ => if Z.eqb op 0 then 2 else if Z.eqb op 1 then 1 else 9
  | _ => 9
  end%nat.

Lemma prec_real x : isreal x = true -> (40 <= prec x)%Z.
Proof.
  destruct x; cbn; try discriminate; intros _; try lia.
  - destruct (qneg q); [lia|]. destruct (Z.eqb k 1); lia.
  - destruct (Z.eqb c 3); lia.
  - destruct l as [|y r]; [lia|]. destruct (is_neg_num y); lia.
  - destruct (Z.eqb f fn_mod); [lia|]. destruct (Z.eqb f fn_max || Z.eqb f fn_min)%bool; lia.
Qed.

Lemma eprec_real_lvl x : isreal x = true ->
  (5 <= elvl x)%nat /\ ((50 <= eprec x)%Z -> (6 <= elvl x)%nat) /\ ((60 <= eprec x)%Z -> (8 <= elvl x)%nat) /\
  ((61 <= eprec x)%Z -> (9 <= elvl x)%nat) /\ ((51 <= eprec x)%Z -> (7 <= elvl x)%nat).
Proof.
  destruct x; cbn [isreal is_boolkind negb]; try discriminate; intros _; cbn [elvl eprec prec].
  - destruct (qneg q); [repeat split; intros; lia|]. destruct (Z.eqb k 1); repeat split; intros; lia.
  - repeat split; intros; lia.
  - repeat split; intros; lia.
  - repeat split; intros; lia.
  - repeat split; intros; lia.
  - destruct l as [|y r]; [repeat split; intros; lia|]. destruct (is_neg_num y); repeat split; intros; lia.
  - destruct (is_half x2) eqn:E1; [destruct (is_neghalf x2 || is_negone x2)%bool; repeat split; intros; lia|].
    destruct (is_neghalf x2 || is_negone x2)%bool eqn:E2; repeat split; intros; lia.
  - repeat split; intros; lia.
  - repeat split; intros; lia.
  - repeat split; intros; lia.
Qed.

Lemma eprec_bool_lvl x : is_boolkind x = true -> ((30 <= eprec x)%Z -> (2 <= elvl x)%nat) /\ (1 <= elvl x)%nat.
Proof.
  destruct x; cbn; try discriminate; intros _; try (split; intros; lia).
  destruct (Z.eqb op 0); [split; intros; lia|]. destruct (Z.eqb op 1); [split; intros; lia|].
  split; intros; lia.
Qed.

Lemma Q2R_qint z : Q2R (qint z) = IZR z.
Proof. unfold Q2R, qint. cbn. field. Qed.

Lemma qneg_Q2R q : qneg q = true -> (Q2R q < 0)%R.
Proof.
  unfold qneg, Q2R. intros H. apply Z.ltb_lt in H.
  assert (IZR (Qnum q) < 0)%R by (apply IZR_lt; exact H).
  assert (0 < IZR (Z.pos (Qden q)))%R by (apply IZR_lt; reflexivity).
  assert (0 < / IZR (Z.pos (Qden q)))%R by (apply Rinv_0_lt_compat; assumption).
  nra.
Qed.

Lemma fold_left_Rplus l : forall a, fold_left Rplus l a = (a + fold_right Rplus 0 l)%R.
Proof. induction l as [|x r IH]; intros a; cbn; [ring | rewrite IH; ring]. Qed.

Definition rprod (rs : list R) : R := fold_right Rmult 1%R rs.

Lemma fold_left_Rmult l : forall a, fold_left Rmult l a = (a * rprod l)%R.
Proof. unfold rprod. induction l as [|x r IH]; intros a; cbn; [ring | rewrite IH; ring]. Qed.

Lemma rprod_app a b : rprod (a ++ b) = (rprod a * rprod b)%R.
Proof. unfold rprod. induction a as [|x r IH]; cbn; [ring | rewrite IH; ring]. Qed.

(* ---- the printer: well-bracketed and value-preserving on printable trees --------------------- *)
Section Main.
  Variable fsem : Z -> list R -> option R.
  Variable psem : R -> R -> option R.
  Variable csem : Z -> option R.
  Variable qsem : Z -> Q -> Z -> option R.
  Variable vsem : Z -> option R.
  Variable dsem : Z -> Z -> option R.
  Notation ev := (eval fsem psem csem qsem vsem dsem).
  Notation evs := (evals fsem psem csem qsem vsem dsem).
  Notation evpw := (evalpw fsem psem csem qsem vsem dsem).
  Notation pev := (pyeval fsem psem csem vsem).
  Notation mapd := (mapped fsem psem csem vsem).

  (* x ** 1 = x;  x ** (-y) = 1 / x ** y for y > 0 (Python raises ZeroDivisionError when x ** y = 0) *)
  Definition inv_opt (o : option R) : option R :=
    match o with Some w => if Req_EM_T w 0 then None else Some (/ w)%R | None => None end.
  Hypothesis Hp1 : forall x, psem x 1 = Some x.
  Hypothesis Hneg : forall x y, (0 < y)%R -> psem x (- y) = inv_opt (psem x y).

  Definition good (e : expr) (p : ptree) : Prop :=
    wb p = true /\ (elvl e <= lvl p)%nat /\ (forall v, ev e = Some v -> pev p = Some v).
  Definition IHn (n : nat) : Prop := forall e p, pp n e = Ok p -> printable e = true -> good e p.
  Definition vals (l : list expr) (rs : list R) : Prop := Forall2 (fun e r => ev e = Some (VR r)) l rs.

  (* -- inversion of eval -- *)
  Lemma evs_reals l : forall vs rs, evs l = Some vs -> reals vs = Some rs -> vals l rs.
  Proof.
    induction l as [|x r IH]; intros vs rs H1 H2; cbn [evals] in H1.
    - inversion H1; subst. cbn in H2. inversion H2. constructor.
    - destruct (ev x) as [v|] eqn:Ex; [|discriminate]. destruct (evs r) as [vs'|] eqn:Er; [|discriminate].
      inversion H1; subst. cbn [reals] in H2. destruct v as [a|b]; [|discriminate].
      destruct (reals vs') as [rs'|] eqn:Es; [|discriminate]. inversion H2; subst.
      constructor; [exact Ex | eapply IH; [reflexivity | exact Es]].
  Qed.

  Lemma evs_bools l : forall vs bs, evs l = Some vs -> bools vs = Some bs ->
    Forall2 (fun e b => ev e = Some (VB b)) l bs.
  Proof.
    induction l as [|x r IH]; intros vs rs H1 H2; cbn [evals] in H1.
    - inversion H1; subst. cbn in H2. inversion H2. constructor.
    - destruct (ev x) as [v|] eqn:Ex; [|discriminate]. destruct (evs r) as [vs'|] eqn:Er; [|discriminate].
      inversion H1; subst. cbn [bools] in H2. destruct v as [a|b]; [discriminate|].
      destruct (bools vs') as [rs'|] eqn:Es; [|discriminate]. inversion H2; subst.
      constructor; [exact Ex | eapply IH; [reflexivity | exact Es]].
  Qed.

  Lemma eval_add_inv l v : ev (EAdd l) = Some v -> exists rs, vals l rs /\ v = VR (fold_right Rplus 0%R rs).
  Proof.
    rewrite eval_add. destruct (evs l) as [vs|] eqn:E; [|discriminate].
    destruct (reals vs) as [rs|] eqn:Er; cbn; [|discriminate]. intros H. inversion H; subst.
    exists rs. split; [eapply evs_reals; eassumption | reflexivity].
  Qed.

  Lemma eval_mul_inv l v : ev (EMul l) = Some v -> exists rs, vals l rs /\ v = VR (rprod rs).
  Proof.
    rewrite eval_mul. destruct (evs l) as [vs|] eqn:E; [|discriminate].
    destruct (reals vs) as [rs|] eqn:Er; cbn; [|discriminate]. intros H. inversion H; subst.
    exists rs. split; [eapply evs_reals; eassumption | reflexivity].
  Qed.

  Lemma eval_fn_inv f l v : ev (EFn f l) = Some v -> exists rs r, vals l rs /\ fsem f rs = Some r /\ v = VR r.
  Proof.
    rewrite eval_fn. destruct (evs l) as [vs|] eqn:E; [|discriminate].
    destruct (reals vs) as [rs|] eqn:Er; [|discriminate]. destruct (fsem f rs) as [r|] eqn:Ef; cbn; [|discriminate].
    intros H. inversion H; subst. exists rs, r. split; [eapply evs_reals; eassumption | split; [exact Ef | reflexivity]].
  Qed.

  Lemma eval_bool_inv op l v : ev (EBool op l) = Some v ->
    exists bs b, Forall2 (fun e b => ev e = Some (VB b)) l bs /\ bool_sem op bs = Some b /\ v = VB b.
  Proof.
    rewrite eval_bool. destruct (evs l) as [vs|] eqn:E; [|discriminate].
    destruct (bools vs) as [bs|] eqn:Er; [|discriminate]. destruct (bool_sem op bs) as [b|] eqn:Ef; cbn; [|discriminate].
    intros H. inversion H; subst. exists bs, b. split; [eapply evs_bools; eassumption | split; [exact Ef | reflexivity]].
  Qed.

  Lemma eval_pow_inv b x v : ev (EPow b x) = Some v ->
    exists rb rx r, ev b = Some (VR rb) /\ ev x = Some (VR rx) /\ psem rb rx = Some r /\ v = VR r.
  Proof.
    rewrite eval_pow. destruct (ev b) as [[rb|bb]|]; try discriminate. destruct (ev x) as [[rx|bx]|]; try discriminate.
    destruct (psem rb rx) as [r|] eqn:E; cbn; [|discriminate]. intros H. inversion H; subst.
    exists rb, rx, r. repeat split; try reflexivity. exact E.
  Qed.

  Lemma okb_split x : okb x = true -> isreal x = true /\ printable x = true.
  Proof. unfold okb. intros H. apply andb_prop in H. exact H. Qed.

  Lemma forallb_Forall {A} (f : A -> bool) l : forallb f l = true -> Forall (fun x => f x = true) l.
  Proof. intros H. apply Forall_forall. apply forallb_forall. exact H. Qed.

  (* -- _bracket -- *)
  Lemma br_good n par x p' : IHn n ->
    rbind (pp n x) (fun p => Ok (if (eprec x <? par)%Z then PParen p else p)) = Ok p' ->
    printable x = true ->
    wb p' = true /\ (forall v, ev x = Some v -> pev p' = Some v) /\
    (lvl p' = 9%nat \/ ((par <= eprec x)%Z /\ (elvl x <= lvl p')%nat)).
  Proof.
    intros IH H Hp. apply rbind_ok in H. destruct H as [p [H1 H2]]. inversion H2; subst p'. clear H2.
    destruct (IH _ _ H1 Hp) as [G1 [G2 G3]].
    destruct (eprec x <? par)%Z eqn:E.
    - cbn [wb pyeval lvl]. repeat split; try assumption. left. reflexivity.
    - apply Z.ltb_ge in E. repeat split; try assumption. right. split; assumption.
  Qed.

  (* -- _print_Add -- *)
  Lemma add_entry_wb t p : (40 <= prec t)%Z -> wb p = true -> (5 <= lvl p)%nat -> Forall (eok KSum) (add_entry (t, p)).
  Proof.
    intros Ht Hw Hl. unfold add_entry. replace (prec t <? 40)%Z with false by (symmetry; apply Z.ltb_ge; lia).
    destruct (lead_neg p) eqn:Hn; cbn [negb].
    - destruct (strip_ok p Hw Hn Hl) as [S1 S2]. apply splice_ok; [exact S1 | cbn; lia].
    - apply splice_ok; [exact Hw | cbn; lia].
  Qed.

  Lemma add_entry_val t p r : (40 <= prec t)%Z -> wb p = true -> (5 <= lvl p)%nat -> pev p = Some (VR r) ->
    forall a, fold_left sum_step (mapd (add_entry (t, p))) (Some (VR a)) = Some (VR (a + r)%R).
  Proof.
    intros Ht Hw Hl Hv a. unfold add_entry. replace (prec t <? 40)%Z with false by (symmetry; apply Z.ltb_ge; lia).
    destruct (Nat.eq_dec (lvl p) (klvl KSum)) as [E|E].
    - destruct (lvl_klvl_inv _ _ E) as [p0 [r0 ->]].
      destruct (wb_nary_inv _ _ _ Hw) as [_ [H0 [H1 H2]]]. cbn in H1.
      rewrite pev_nary in Hv. cbn [nary_sem] in Hv. destruct (fold_sum_some _ _ _ Hv) as [v0 Hv0]. rewrite Hv0 in Hv.
      cbn [lead_neg]. destruct (lead_neg p0) eqn:Hn; cbn [negb strip splice kind_eqb mapped map fold_left fst snd].
      + rewrite (strip_neg_val fsem psem csem vsem p0 H0 Hn ltac:(lia) _ Hv0).
        unfold sum_step at 2. cbn [fst snd]. rewrite (fold_sum_delta _ _ _ Hv). f_equal. f_equal. lra.
      + rewrite Hv0. unfold sum_step at 2. cbn [fst snd]. rewrite (fold_sum_delta _ _ _ Hv). f_equal. f_equal. lra.
    - assert (6 <= lvl p)%nat by (cbn in E; lia).
      destruct (lead_neg p) eqn:Hn; cbn [negb].
      + rewrite splice_single by (apply strip_top_not_sum; assumption).
        cbn [mapped map fold_left fst snd]. rewrite (strip_neg_val fsem psem csem vsem p Hw Hn H _ Hv).
        unfold sum_step. cbn [fst snd]. f_equal. f_equal. lra.
      + rewrite splice_single by exact E. cbn [mapped map fold_left fst snd]. rewrite Hv. reflexivity.
  Qed.

  Definition tp_ok (tp : expr * ptree) : Prop :=
    (40 <= prec (fst tp))%Z /\ wb (snd tp) = true /\ (5 <= lvl (snd tp))%nat.

  Lemma add_entries_wb tps : Forall tp_ok tps -> Forall (eok KSum) (concat (map add_entry tps)).
  Proof.
    induction 1 as [|[t p] r [H1 [H2 H3]] Hr IH]; cbn [map concat]; [constructor|].
    apply Forall_app. split; [apply add_entry_wb; assumption | exact IH].
  Qed.

  Lemma add_entries_val tps : Forall tp_ok tps -> forall rs,
    Forall2 (fun tp r => pev (snd tp) = Some (VR r)) tps rs ->
    forall a, fold_left sum_step (mapd (concat (map add_entry tps))) (Some (VR a)) = Some (VR (fold_left Rplus rs a)).
  Proof.
    induction 1 as [|[t p] r [H1 [H2 H3]] Hr IH]; intros rs Hv a; inversion Hv; subst; cbn [map concat fold_left].
    - reflexivity.
    - unfold mapped. rewrite map_app, fold_left_app. fold (mapd (add_entry (t, p))).
      rewrite (add_entry_val t p y H1 H2 H3 H4). apply IH. assumption.
  Qed.

  Lemma case_add n l p : IHn n -> pp (S n) (EAdd l) = Ok p -> printable (EAdd l) = true -> good (EAdd l) p.
  Proof.
    intros IH Hp Hpr.
    change (pp (S n) (EAdd l)) with
      (match l with [] => Unm | _ => rbind (collect (map (pp n) l)) (fun ps => Ok (mk_add (combine l ps))) end) in Hp.
    destruct l as [|t l']; [discriminate|]. apply rbind_ok in Hp. destruct Hp as [ps [Hc Hp]]. inversion Hp; subst p.
    apply collect_map_ok in Hc. cbn [printable] in Hpr. apply forallb_Forall in Hpr.
    (* facts about every (term, print) pair *)
    assert (K : forall l ps, Forall2 (fun x q => pp n x = Ok q) l ps -> Forall (fun x => okb x = true) l ->
                Forall tp_ok (combine l ps) /\
                (forall rs, vals l rs -> Forall2 (fun tp r => pev (snd tp) = Some (VR r)) (combine l ps) rs)).
    { clear - IH. induction 1 as [|x q l ps Hx Hl I]; intros Hok.
      - split; [constructor|]. intros rs Hv. inversion Hv. constructor.
      - inversion Hok; subst. destruct (okb_split _ H1) as [Hr Hpx]. destruct (IH _ _ Hx Hpx) as [G1 [G2 G3]].
        destruct (I H2) as [I1 I2]. cbn [combine]. split.
        + constructor; [|exact I1]. split; [apply prec_real; exact Hr|]. split; [exact G1|].
          cbn [snd]. pose proof (eprec_real_lvl x Hr) as [L _]. lia.
        + intros rs Hv. inversion Hv; subst. constructor; [apply G3; assumption | apply I2; assumption]. }
    destruct (K _ _ Hc Hpr) as [K1 K2]. clear K.
    inversion Hc as [|x0 p1 l0 ps' Hx Hrest]; subst. cbn [combine] in *.
    inversion K1 as [|tp tl [T1 [T2 T3]] K1']; subst. cbn [fst snd] in *.
    unfold mk_add. replace (prec t <? 40)%Z with false by (symmetry; apply Z.ltb_ge; lia).
    destruct (mknary_ok KSum p1 _ T2 ltac:(cbn; lia) (add_entries_wb _ K1')) as [M1 M2].
    split; [exact M1|]. split; [cbn in *; lia|].
    intros v Hv. apply eval_add_inv in Hv. destruct Hv as [rs [Hvals ->]].
    specialize (K2 _ Hvals). inversion K2 as [|tp0 r0 tl0 rs0 Hv1 Hvr]; subst. cbn [snd] in *.
    rewrite mknary_val by (left; reflexivity). cbn [nary_sem]. rewrite Hv1.
    rewrite (add_entries_val _ K1' _ Hvr). f_equal. f_equal. cbn [fold_right]. apply fold_left_Rplus.
  Qed.

  (* -- _print_Mul -- *)
  Definition brk (n : nat) (par : Z) (x : expr) : res ptree :=
    rbind (pp n x) (fun p => Ok (if (eprec x <? par)%Z then PParen p else p)).

  Lemma pp_mul n l : pp (S n) (EMul l) =
    match mul_split l with
    | None => Unm
    | Some (sign, items) =>
        let cl := map classify items in
        let a := concat (map fst cl) in
        let b := concat (map snd cl) in
        let a' := match a with [] => [ENum 0 (qint 1)] | _ => a end in
        rbind (collect (map (brk n 50) a')) (fun a_str =>
        rbind (collect (map (brk n 51) b)) (fun b_str =>
          Ok (mk_mul sign a_str b_str)))
    end.
  Proof. reflexivity. Qed.

  Notation okl := (Forall (fun x => okb x = true)).

  Lemma eval_num k q : ev (ENum k q) = Some (VR (Q2R q)).
  Proof. reflexivity. Qed.

  Lemma negone_val k c : is_negone (ENum k c) = true -> k = 0%Z /\ Q2R c = (-1)%R.
  Proof.
    unfold is_negone. destruct k; try discriminate. intros H. apply Qeq_bool_eq in H. apply Qeq_eqR in H.
    split; [reflexivity|]. rewrite H. unfold Q2R. cbn. lra.
  Qed.

  Lemma okb_num_opp k c : okb (ENum k c) = true -> okb (ENum k (Qopp c)) = true.
  Proof. unfold okb. cbn. intros H. exact H. Qed.

  Lemma okb_mul_inv l : okb (EMul l) = true -> okl l.
  Proof.
    intros H. apply okb_split in H. destruct H as [_ H]. cbn [printable] in H. apply forallb_Forall in H. exact H.
  Qed.

  Lemma vals_cons_inv x l rs : vals (x :: l) rs -> exists r rs', rs = r :: rs' /\ ev x = Some (VR r) /\ vals l rs'.
  Proof. intros H. inversion H; subst. eexists; eexists; repeat split; eassumption. Qed.

  Lemma mul_split_spec l sign items : mul_split l = Some (sign, items) -> okl l ->
    okl items /\
    (forall rs, vals l rs -> exists rs', vals items rs' /\ rprod rs = (if sign then - rprod rs' else rprod rs')%R).
  Proof.
    intros H Hok.
    assert (Triv : Some (false, l) = Some (sign, items) ->
      okl items /\ (forall rs, vals l rs -> exists rs', vals items rs' /\ rprod rs = (if sign then - rprod rs' else rprod rs')%R)).
    { intros E. inversion E; subst. split; [exact Hok|]. intros rs Hv. exists rs. split; [exact Hv | reflexivity]. }
    unfold mul_split in H. destruct l as [|h rest]; [exact (Triv H)|].
    destruct h; try exact (Triv H).
    destruct (qneg q) eqn:Eq; [|exact (Triv H)].
    inversion Hok as [|h0 l0 Hh Hrest]; subst.
    destruct (is_negone (ENum k q)) eqn:En.
    - destruct (negone_val _ _ En) as [-> Hq].
      assert (Gen : Some (true, rest) = Some (sign, items) ->
        okl items /\ (forall rs, vals (ENum 0 q :: rest) rs ->
          exists rs', vals items rs' /\ rprod rs = (if sign then - rprod rs' else rprod rs')%R)).
      { intros E. inversion E; subst. split; [exact Hrest|]. intros rs Hv.
        apply vals_cons_inv in Hv. destruct Hv as [r [rs' [-> [Hr Hv]]]]. rewrite eval_num in Hr. inversion Hr; subst.
        exists rs'. split; [exact Hv|]. unfold rprod. cbn. rewrite Hq. ring. }
      destruct rest as [|r1 [|r2 rest']]; [exact (Gen H) | | destruct r1; exact (Gen H)].
      destruct r1; try exact (Gen H).
      inversion H; subst. inversion Hrest; subst. split; [apply okb_mul_inv; assumption|].
      intros rs Hv. apply vals_cons_inv in Hv. destruct Hv as [r [rs' [-> [Hr Hv]]]]. rewrite eval_num in Hr. inversion Hr; subst.
      apply vals_cons_inv in Hv. destruct Hv as [r1 [rs'' [-> [Hr1 Hv]]]]. inversion Hv; subst.
      apply eval_mul_inv in Hr1. destruct Hr1 as [rs1 [Hv1 E1]]. inversion E1; subst.
      exists rs1. split; [exact Hv1|]. unfold rprod. cbn. rewrite Hq. ring.
    - assert (Gen : forall r1 rest1, okl (r1 :: rest1) ->
          (forall rs, vals rest rs -> exists rs1, vals (r1 :: rest1) rs1 /\ rprod rs = rprod rs1) ->
          Some (true, ENum k (Qopp q) :: r1 :: rest1) = Some (sign, items) ->
          okl items /\ (forall rs, vals (ENum k q :: rest) rs ->
            exists rs', vals items rs' /\ rprod rs = (if sign then - rprod rs' else rprod rs')%R)).
      { intros r1 rest1 Hok1 Hval E. inversion E; subst. split; [constructor; [apply okb_num_opp; exact Hh | exact Hok1]|].
        intros rs Hv. apply vals_cons_inv in Hv. destruct Hv as [r [rs' [-> [Hr Hv]]]]. rewrite eval_num in Hr. inversion Hr; subst.
        destruct (Hval _ Hv) as [rs1 [Hv1 E1]]. exists (Q2R (Qopp q) :: rs1). split.
        - constructor; [apply eval_num | exact Hv1].
        - rewrite Q2R_opp. unfold rprod in *. cbn [fold_right]. rewrite E1. ring. }
      destruct rest as [|r1 rest']; [discriminate|].
      assert (Plain : (if is_num r1 then None else Some (true, ENum k (Qopp q) :: r1 :: rest')) = Some (sign, items) ->
        okl items /\ (forall rs, vals (ENum k q :: r1 :: rest') rs ->
            exists rs', vals items rs' /\ rprod rs = (if sign then - rprod rs' else rprod rs')%R)).
      { destruct (is_num r1); [discriminate|]. apply Gen; [exact Hrest|]. intros rs Hv. exists rs. split; [exact Hv | reflexivity]. }
      destruct rest' as [|r2 rest'']; [|destruct r1; try exact (Plain H); destruct l; exact (Plain H)].
      destruct r1; try exact (Plain H).
      destruct l as [|m1 ml]; [exact (Plain H)|].
      destruct (is_num m1); [discriminate|]. inversion Hrest; subst.
      apply (Gen m1 ml); [apply okb_mul_inv; assumption | | exact H].
      intros rs Hv. apply vals_cons_inv in Hv. destruct Hv as [r1 [rs'' [-> [Hr1 Hv]]]]. inversion Hv; subst.
      apply eval_mul_inv in Hr1. destruct Hr1 as [rs1 [Hv1 E1]]. inversion E1; subst.
      exists rs1. split; [exact Hv1|]. unfold rprod. cbn. ring.
  Qed.

  (* classification into numerator and denominator items *)
  Lemma classify_ok it : okb it = true -> okl (fst (classify it)) /\ okl (snd (classify it)).
  Proof.
    intros Hok.
    assert (Triv : okl [it] /\ okl []) by (split; constructor; [exact Hok | constructor]).
    destruct it; try exact Triv.
    - (* number *) cbn [classify]. destruct (is_ratk k); [|exact Triv]. cbn [fst snd]. split.
      + destruct (Qnum q =? 1)%Z; constructor; [reflexivity | constructor].
      + destruct (Qden q =? 1)%positive; constructor; [reflexivity | constructor].
    - (* power *) destruct it2; try exact Triv. cbn [classify].
      destruct (is_ratk k && qneg q)%bool eqn:E; [|exact Triv].
      apply okb_split in Hok. destruct Hok as [_ Hp]. cbn [printable] in Hp.
      repeat (apply andb_prop in Hp; destruct Hp as [Hp ?]).
      destruct (is_negone (ENum k q)); cbn [fst snd]; (split; [constructor|]); constructor; try constructor.
      + unfold okb. rewrite Hp, H0. reflexivity.
      + unfold okb. cbn [isreal is_boolkind negb printable]. cbn [isreal is_boolkind negb printable Qopp Qden] in *.
        rewrite Hp, H0, H. reflexivity.
  Qed.

  Lemma classify_val it r : okb it = true -> ev it = Some (VR r) ->
    exists ra rb, vals (fst (classify it)) ra /\ vals (snd (classify it)) rb /\
                  rprod rb <> 0%R /\ r = (rprod ra * / rprod rb)%R.
  Proof.
    intros Hok Hv.
    assert (Triv : exists ra rb, vals [it] ra /\ vals [] rb /\ rprod rb <> 0%R /\ r = (rprod ra * / rprod rb)%R).
    { exists [r], []. repeat split; [constructor; [exact Hv | constructor] | constructor | unfold rprod; cbn; lra | unfold rprod; cbn; field]. }
    destruct it; try exact Triv.
    - (* number *) cbn [classify]. destruct (is_ratk k); [|exact Triv]. cbn [fst snd].
      rewrite eval_num in Hv. inversion Hv; subst. clear Hv.
      assert (Hd : IZR (Z.pos (Qden q)) <> 0%R) by (apply not_0_IZR; discriminate).
      exists (if (Qnum q =? 1)%Z then [] else [IZR (Qnum q)]), (if (Qden q =? 1)%positive then [] else [IZR (Z.pos (Qden q))]).
      destruct (Qnum q =? 1)%Z eqn:E1; destruct (Qden q =? 1)%positive eqn:E2;
        (split; [repeat constructor; rewrite eval_num, Q2R_qint; reflexivity|]);
        (split; [repeat constructor; rewrite eval_num, Q2R_qint; reflexivity|]);
        unfold rprod, Q2R; cbn [fold_right];
        try (apply Z.eqb_eq in E1; rewrite E1); try (apply Pos.eqb_eq in E2; rewrite E2);
        (split; [try lra; try (intros K; apply Hd; lra) | try (field; exact Hd); try (cbn; field)]).
    - (* power *) destruct it2; try exact Triv. cbn [classify].
      destruct (is_ratk k && qneg q)%bool eqn:E; [|exact Triv].
      apply andb_prop in E. destruct E as [_ Eq].
      apply eval_pow_inv in Hv. destruct Hv as [rb [rx [r' [Hb [Hx [Hps E']]]]]]. inversion E'; subst r'. clear E'.
      rewrite eval_num in Hx. inversion Hx; subst rx. clear Hx.
      destruct (is_negone (ENum k q)) eqn:En; cbn [fst snd].
      + destruct (negone_val _ _ En) as [_ Hq]. rewrite Hq in Hps.
        replace (IZR (-1)) with (Ropp 1%R) in Hps by lra.
        rewrite (Hneg rb 1 ltac:(lra)), Hp1 in Hps. cbn [inv_opt] in Hps.
        destruct (Req_EM_T rb 0); [discriminate|]. inversion Hps; subst.
        exists [], [rb]. repeat split; [constructor | constructor; [exact Hb | constructor] | unfold rprod; cbn; lra | unfold rprod; cbn; field; assumption].
      + pose proof (qneg_Q2R _ Eq) as Hlt.
        replace (Q2R q) with (- Q2R (Qopp q))%R in Hps by (rewrite Q2R_opp; ring).
        rewrite (Hneg rb (Q2R (Qopp q)) ltac:(rewrite Q2R_opp; lra)) in Hps.
        destruct (psem rb (Q2R (Qopp q))) as [w|] eqn:Ew; cbn [inv_opt] in Hps; [|discriminate].
        destruct (Req_EM_T w 0); [discriminate|]. inversion Hps; subst.
        exists [], [w]. repeat split; [constructor | | unfold rprod; cbn; lra | unfold rprod; cbn; field; assumption].
        constructor; [|constructor]. rewrite eval_pow, Hb, eval_num, Ew. reflexivity.
  Qed.

  Lemma classify_all_ok items : okl items ->
    okl (concat (map fst (map classify items))) /\ okl (concat (map snd (map classify items))).
  Proof.
    induction 1 as [|x r Hx Hr [I1 I2]]; cbn [map concat]; [split; constructor|].
    destruct (classify_ok x Hx) as [C1 C2]. split; apply Forall_app; split; assumption.
  Qed.

  Lemma vals_app a b ra rb : vals a ra -> vals b rb -> vals (a ++ b) (ra ++ rb).
  Proof. intros H1 H2. apply Forall2_app; assumption. Qed.

  Lemma classify_all_val items : okl items -> forall rs, vals items rs ->
    exists ra rb, vals (concat (map fst (map classify items))) ra /\
                  vals (concat (map snd (map classify items))) rb /\
                  rprod rb <> 0%R /\ rprod rs = (rprod ra * / rprod rb)%R.
  Proof.
    induction 1 as [|x r Hx Hr IH]; intros rs Hv; inversion Hv; subst; cbn [map concat].
    - exists [], []. repeat split; [constructor | constructor | unfold rprod; cbn; lra | unfold rprod; cbn; field].
    - destruct (classify_val x y Hx H1) as [ra1 [rb1 [A1 [A2 [A3 A4]]]]].
      destruct (IH _ H3) as [ra2 [rb2 [B1 [B2 [B3 B4]]]]].
      exists (ra1 ++ ra2), (rb1 ++ rb2). repeat split; try (apply vals_app; assumption).
      + rewrite rprod_app. apply Rmult_integral_contrapositive. split; assumption.
      + rewrite !rprod_app. change (rprod (y :: l')) with (y * rprod l')%R. rewrite B4, A4. field. split; assumption.
  Qed.

  Definition wl6 (p : ptree) : Prop := wb p = true /\ (6 <= lvl p)%nat.
  Notation pvals := (Forall2 (fun p r => pev p = Some (VR r))).

  Lemma brk_list n my xs : IHn n -> (50 <= my)%Z -> okl xs -> forall ps, collect (map (brk n my) xs) = Ok ps ->
    Forall2 (fun x p => wb p = true /\ (forall v, ev x = Some v -> pev p = Some v) /\
                        (lvl p = 9%nat \/ ((my <= eprec x)%Z /\ (elvl x <= lvl p)%nat))) xs ps.
  Proof.
    intros IH Hmy Hok ps Hc. apply collect_map_ok in Hc. revert Hok.
    induction Hc as [|x p xs ps Hx Hr I]; intros Hok; constructor.
    - inversion Hok; subst. destruct (okb_split _ H1) as [_ Hp]. exact (br_good n my x p IH Hx Hp).
    - inversion Hok; subst. apply I. assumption.
  Qed.

  Lemma brk_list_wl6 my xs ps : (50 <= my)%Z -> okl xs ->
    Forall2 (fun x p => wb p = true /\ (forall v, ev x = Some v -> pev p = Some v) /\
                        (lvl p = 9%nat \/ ((my <= eprec x)%Z /\ (elvl x <= lvl p)%nat))) xs ps ->
    Forall wl6 ps /\ (forall rs, vals xs rs -> pvals ps rs).
  Proof.
    intros Hmy Hok H. induction H as [|x p xs ps [H1 [H2 H3]] Hr I].
    - split; [constructor|]. intros rs Hv. inversion Hv. constructor.
    - inversion Hok; subst. destruct (I H5) as [I1 I2]. destruct (okb_split _ H4) as [Hreal _].
      pose proof (eprec_real_lvl x Hreal) as [_ [L6 _]]. split.
      + constructor; [|exact I1]. split; [exact H1|]. destruct H3 as [E|[E1 E2]]; [lia|]. specialize (L6 ltac:(lia)). lia.
      + intros rs Hv. inversion Hv; subst. constructor; [apply H2; assumption | apply I2; assumption].
  Qed.

  Lemma prod_entries_wb ps : Forall wl6 ps -> Forall (eok KProd) (concat (map (splice KProd true) ps)).
  Proof.
    induction 1 as [|p r [H1 H2] Hr IH]; cbn [map concat]; [constructor|].
    apply Forall_app. split; [apply splice_ok; [exact H1 | cbn; lia] | exact IH].
  Qed.

  Lemma prod_entries_val ps : Forall wl6 ps -> forall vs, pvals ps vs ->
    forall a, fold_left prod_step (mapd (concat (map (splice KProd true) ps))) (Some (VR a))
              = Some (VR (fold_left Rmult vs a)).
  Proof.
    induction 1 as [|p r [H1 H2] Hr IH]; intros vs Hv a; inversion Hv; subst; cbn [map concat fold_left].
    - reflexivity.
    - unfold mapped. rewrite map_app, fold_left_app. fold (mapd (splice KProd true p)).
      rewrite (splice_prod_val fsem psem csem vsem p y H1 H3). apply IH. assumption.
  Qed.

  Lemma splice_head u : wl6 u -> exists h0 es, splice KProd true u = (true, h0) :: es /\ wb h0 = true /\
    (7 <= lvl h0)%nat /\ Forall (eok KProd) es /\
    (forall v, pev u = Some (VR v) -> exists vh, pev h0 = Some (VR vh) /\
       forall x, fold_left prod_step (mapd es) (Some (VR (x * vh)%R)) = Some (VR (x * v)%R)).
  Proof.
    intros [Hw Hl]. destruct (Nat.eq_dec (lvl u) (klvl KProd)) as [E|E].
    - destruct (lvl_klvl_inv _ _ E) as [p0 [r ->]]. destruct (wb_nary_inv _ _ _ Hw) as [_ [H0 [H1 H2]]].
      exists p0, r. cbn [splice kind_eqb]. repeat split; try assumption.
      intros v Hv. rewrite pev_nary in Hv. cbn [nary_sem] in Hv. destruct (fold_prod_some _ _ _ Hv) as [vh Hh].
      exists vh. split; [exact Hh|]. intros x. rewrite Hh in Hv. apply fold_prod_scale. exact Hv.
    - exists u, []. rewrite (splice_single _ _ _ E). cbn in E. repeat split; try assumption; try lia; try constructor.
      intros v Hv. exists v. split; [exact Hv | reflexivity].
  Qed.

  Lemma join_prod_good ds : ds <> [] -> Forall wl6 ds ->
    wb (join_nary KProd ds) = true /\
    (forall vs, pvals ds vs -> exists w, pev (join_nary KProd ds) = Some (VR w) /\ w = rprod vs).
  Proof.
    intros Hne Hf. destruct ds as [|d1 rest]; [contradiction|]. inversion Hf as [|d0 r0 [W1 W2] Hrest]; subst.
    cbn [join_nary]. destruct (mknary_ok KProd d1 _ W1 ltac:(cbn; lia) (prod_entries_wb _ Hrest)) as [M1 M2].
    split; [exact M1|]. intros vs Hv. inversion Hv; subst.
    rewrite mknary_val by (right; reflexivity). cbn [nary_sem]. rewrite H1.
    rewrite (prod_entries_val _ Hrest _ H3). eexists. split; [reflexivity|].
    rewrite fold_left_Rmult. unfold rprod. reflexivity.
  Qed.

  Lemma den_entries_wb b_str : Forall wl6 b_str -> (match b_str with [d] => (7 <= lvl d)%nat | _ => True end) ->
    Forall (eok KProd) (den_entries b_str).
  Proof.
    intros Hf H1. destruct b_str as [|d1 [|d2 r]]; cbn [den_entries].
    - constructor.
    - inversion Hf as [|d0 r0 [W1 W2] _]; subst. constructor; [split; [exact W1 | exact H1] | constructor].
    - destruct (join_prod_good (d1 :: d2 :: r) ltac:(discriminate) Hf) as [J _].
      constructor; [|constructor]. split; [exact J | cbn; lia].
  Qed.

  Lemma den_entries_val b_str rb : Forall wl6 b_str -> pvals b_str rb -> rprod rb <> 0%R ->
    forall a, exists w, fold_left prod_step (mapd (den_entries b_str)) (Some (VR a)) = Some (VR w) /\
                        w = (a * / rprod rb)%R.
  Proof.
    intros Hf Hv Hnz a. destruct b_str as [|d1 [|d2 r]]; cbn [den_entries].
    - inversion Hv; subst. exists a. split; [reflexivity|]. unfold rprod. cbn. field.
    - inversion Hv as [|d0 v1 r0 vs0 E1 Er]; subst. inversion Er; subst.
      cbn [mapped map fold_left fst snd]. rewrite E1. unfold prod_step. cbn [fst snd].
      assert (v1 <> 0%R) by (intros K; apply Hnz; unfold rprod; cbn; rewrite K; ring).
      destruct (Req_EM_T v1 0); [contradiction|]. eexists. split; [reflexivity|]. unfold rprod. cbn. field. assumption.
    - destruct (join_prod_good (d1 :: d2 :: r) ltac:(discriminate) Hf) as [_ J]. destruct (J _ Hv) as [w [J1 J2]].
      cbn [mapped map fold_left fst snd pyeval]. rewrite J1. unfold prod_step. cbn [fst snd].
      destruct (Req_EM_T w 0); [subst; contradiction|]. eexists. split; [reflexivity|]. subst. reflexivity.
  Qed.

  Lemma mk_mul_good sign a_str b_str : a_str <> [] -> Forall wl6 a_str -> Forall wl6 b_str ->
    (match b_str with [d] => (7 <= lvl d)%nat | _ => True end) ->
    wb (mk_mul sign a_str b_str) = true /\ (6 <= lvl (mk_mul sign a_str b_str))%nat /\
    (forall ra rb, pvals a_str ra -> pvals b_str rb -> rprod rb <> 0%R ->
       exists w, pev (mk_mul sign a_str b_str) = Some (VR w) /\
                 w = (if sign then - (rprod ra * / rprod rb) else rprod ra * / rprod rb)%R).
  Proof.
    intros Hne Ha Hb Hb1. destruct a_str as [|p1 prest]; [contradiction|].
    inversion Ha as [|p0 r0 Hwp1 Hprest]; subst.
    destruct (splice_head p1 Hwp1) as [h0 [es1 [Es [Wh [Lh [Fes Vh]]]]]].
    unfold mk_mul. cbn [map concat]. rewrite Es. cbn [app].
    set (H := if sign then PNeg h0 else h0).
    assert (WH : wb H = true /\ (klvl KProd <= lvl H)%nat).
    { unfold H. destruct sign; cbn [wb lvl klvl]; [|split; [exact Wh | lia]].
      rewrite Wh. apply Nat.leb_le in Lh. rewrite Lh. split; [reflexivity | lia]. }
    destruct WH as [WH1 WH2].
    assert (Fall : Forall (eok KProd) ((es1 ++ concat (map (splice KProd true) prest)) ++ den_entries b_str)).
    { apply Forall_app. split; [apply Forall_app; split; [exact Fes | apply prod_entries_wb; exact Hprest] | apply den_entries_wb; assumption]. }
    destruct (mknary_ok KProd H _ WH1 WH2 Fall) as [M1 M2]. split; [exact M1|]. split; [cbn in M2; lia|].
    intros ra rb Hva Hvb Hnz. inversion Hva as [|p0 v1 r0 vrest E1 Erest]; subst.
    destruct (Vh _ E1) as [vh [Eh Hfold]].
    rewrite mknary_val by (right; reflexivity). cbn [nary_sem].
    unfold mapped. rewrite !map_app, !fold_left_app. fold (mapd es1). fold (mapd (concat (map (splice KProd true) prest))).
    fold (mapd (den_entries b_str)).
    assert (HN : exists x, pev H = Some (VR (x * vh)%R) /\ x = (if sign then -1 else 1)%R).
    { unfold H. destruct sign; cbn [pyeval]; rewrite Eh; eexists; (split; [|reflexivity]); f_equal; f_equal; ring. }
    destruct HN as [x [HN Hx]]. rewrite HN, Hfold, (prod_entries_val _ Hprest _ Erest).
    destruct (den_entries_val b_str rb Hb Hvb Hnz (fold_left Rmult vrest (x * v1)%R)) as [w [D1 D2]].
    exists w. split; [exact D1|]. rewrite D2, fold_left_Rmult. change (rprod (v1 :: vrest)) with (v1 * rprod vrest)%R.
    destruct sign; subst x; field; exact Hnz.
  Qed.

  Notation brk_spec my := (fun x p => wb p = true /\ (forall v, ev x = Some v -> pev p = Some v) /\
                        (lvl p = 9%nat \/ ((my <= eprec x)%Z /\ (elvl x <= lvl p)%nat))).

  Lemma den_list_lvl7 xs ps : okl xs -> Forall2 (brk_spec 51%Z) xs ps -> Forall (fun p => (7 <= lvl p)%nat) ps.
  Proof.
    intros Hok H. induction H as [|x p xs ps [H1 [H2 H3]] Hr I]; [constructor|].
    inversion Hok; subst. destruct (okb_split _ H4) as [Hreal _].
    pose proof (eprec_real_lvl x Hreal) as [_ [_ [_ [_ L7]]]]. constructor; [|apply I; assumption].
    destruct H3 as [E|[E1 E2]]; [lia | specialize (L7 E1); lia].
  Qed.

  Lemma elvl_mul_le l : (elvl (EMul l) <= 6)%nat.
  Proof. cbn. destruct l as [|x r]; [lia|]. destruct (is_neg_num x); lia. Qed.

  Lemma case_mul n l p : IHn n -> pp (S n) (EMul l) = Ok p -> printable (EMul l) = true -> good (EMul l) p.
  Proof.
    intros IH Hp Hpr. rewrite pp_mul in Hp.
    destruct (mul_split l) as [[sign items]|] eqn:Hs; [|discriminate].
    cbn [printable] in Hpr. apply forallb_Forall in Hpr.
    destruct (mul_split_spec _ _ _ Hs Hpr) as [Hitems Hvals].
    destruct (classify_all_ok _ Hitems) as [Ha Hb].
    cbv zeta in Hp.
    set (a := concat (map fst (map classify items))) in *.
    set (b := concat (map snd (map classify items))) in *.
    set (a' := match a with [] => [ENum 0 (qint 1)] | _ => a end) in *.
    apply rbind_ok in Hp. destruct Hp as [a_str [Hca Hp]].
    apply rbind_ok in Hp. destruct Hp as [b_str [Hcb Hp]]. inversion Hp; subst p. clear Hp.
    assert (Ha' : okl a' /\ a' <> []).
    { unfold a'. destruct a; [split; [constructor; [reflexivity | constructor] | discriminate] | split; [exact Ha | discriminate]]. }
    destruct Ha' as [Ha'1 Ha'2].
    pose proof (brk_list n 50 a' IH ltac:(lia) Ha'1 _ Hca) as Fa.
    destruct (brk_list_wl6 50 a' a_str ltac:(lia) Ha'1 Fa) as [Wa Va].
    pose proof (brk_list n 51 b IH ltac:(lia) Hb _ Hcb) as Fb.
    destruct (brk_list_wl6 51 b b_str ltac:(lia) Hb Fb) as [Wb Vb].
    pose proof (den_list_lvl7 b b_str Hb Fb) as L7.
    assert (Hsingle : match b_str with [d] => (7 <= lvl d)%nat | _ => True end).
    { destruct b_str as [|d [|d2 r]]; try exact I. inversion L7; subst. assumption. }
    assert (Hne : a_str <> []). { clear - Fa Ha'2. clearbody a'. intros ->. apply Ha'2. inversion Fa. reflexivity. }
    destruct (mk_mul_good sign a_str b_str Hne Wa Wb Hsingle) as [M1 [M2 M3]].
    split; [exact M1|]. split; [pose proof (elvl_mul_le l); lia|].
    intros v Hv. apply eval_mul_inv in Hv. destruct Hv as [rs [Hrs ->]].
    destruct (Hvals _ Hrs) as [rs' [Hrs' Eprod]].
    destruct (classify_all_val _ Hitems _ Hrs') as [ra [rb [Vra [Vrb [Hnz Eq]]]]].
    fold a in Vra. fold b in Vrb.
    assert (Hra' : exists ra', vals a' ra' /\ rprod ra' = rprod ra).
    { unfold a'. destruct a.
      - inversion Vra; subst. exists [Q2R (qint 1)]. split; [constructor; [apply eval_num | constructor]|].
        rewrite Q2R_qint. unfold rprod. cbn. ring.
      - exists ra. split; [exact Vra | reflexivity]. }
    destruct Hra' as [ra' [Vra' Era']].
    destruct (M3 ra' rb (Va _ Vra') (Vb _ Vrb) Hnz) as [w [E1 E2]].
    rewrite E1. f_equal. f_equal. rewrite E2, Eprod, Eq, Era'. destruct sign; reflexivity.
  Qed.

  (* -- leaves -- *)
  Lemma pint_good z : wb (pint z) = true /\ (7 <= lvl (pint z))%nat /\ pev (pint z) = Some (VR (IZR z)) /\
    ((z <? 0)%Z = false -> lvl (pint z) = 9%nat).
  Proof.
    unfold pint. destruct (z <? 0)%Z eqn:E.
    - apply Z.ltb_lt in E. cbn [wb lvl pyeval]. replace (0 <=? - z)%Z with true by (symmetry; apply Z.leb_le; lia).
      repeat split; try reflexivity; try lia; try discriminate. rewrite opp_IZR, Ropp_involutive. reflexivity.
    - apply Z.ltb_ge in E. cbn [wb lvl pyeval]. replace (0 <=? z)%Z with true by (symmetry; apply Z.leb_le; lia).
      repeat split; try reflexivity; lia.
  Qed.

  Lemma case_num n k q p : pp (S n) (ENum k q) = Ok p -> printable (ENum k q) = true -> good (ENum k q) p.
  Proof.
    intros Hp Hpr. cbn [pp] in Hp. cbn [printable] in Hpr. unfold good. cbn [elvl]. rewrite eval_num.
    destruct (pint_good (Qnum q)) as [P1 [P2 [P3 P4]]]. fold (qneg q) in P4.
    destruct (k =? 0)%Z eqn:E0.
    - inversion Hp; subst p. cbn [andb orb] in Hpr.
      assert (Hd : Qden q = 1%positive).
      { destruct (Qden q =? 1)%positive eqn:Ed; [apply Pos.eqb_eq; exact Ed|].
        apply Z.eqb_eq in E0. subst k. cbn in Hpr. discriminate. }
      split; [exact P1|]. split.
      + destruct (qneg q) eqn:En; [lia|]. rewrite (P4 eq_refl). destruct (k =? 1)%Z; lia.
      + intros v Hv. inversion Hv; subst. rewrite P3. f_equal. f_equal. unfold Q2R. rewrite Hd. field.
    - destruct (k =? 1)%Z eqn:E1.
      + inversion Hp; subst p. split.
        * cbn [wb is_nil negb forallb snd lvl ksub]. rewrite P1. apply Nat.leb_le in P2. rewrite P2. reflexivity.
        * split; [destruct (qneg q); cbn; lia|]. intros v Hv. inversion Hv; subst.
          rewrite pev_nary. cbn [nary_sem mapped map fold_left fst snd pyeval]. rewrite P3. unfold prod_step. cbn [fst snd].
          destruct (Req_EM_T (IZR (Z.pos (Qden q))) 0) as [K|K]; [apply eq_IZR_R0 in K; discriminate|]. reflexivity.
      + destruct (k =? 2)%Z eqn:E2; [|discriminate]. inversion Hp; subst p. destruct (qneg q) eqn:En.
        * unfold qneg in En. apply Z.ltb_lt in En. cbn [wb lvl pyeval Qopp Qnum].
          replace (0 <=? - Qnum q)%Z with true by (symmetry; apply Z.leb_le; lia). split; [reflexivity|]. split; [lia|].
          intros v Hv. inversion Hv; subst. f_equal. f_equal. rewrite Q2R_opp. ring.
        * unfold qneg in En. apply Z.ltb_ge in En. cbn [wb lvl pyeval].
          replace (0 <=? Qnum q)%Z with true by (symmetry; apply Z.leb_le; lia). split; [reflexivity|]. split; [lia|].
          intros v Hv. exact Hv.
  Qed.

  Lemma case_const n c p : pp (S n) (EConst c) = Ok p -> good (EConst c) p.
  Proof.
    intros Hp. cbn [pp] in Hp.
    assert (K : forall key c', lit_key_const key = Some c' -> lit key = Ok p -> c = c' -> good (EConst c) p).
    { intros key c' Hk Hl ->. destruct (lit_spec _ _ _ Hk Hl) as [s [-> Hs]].
      split; [reflexivity|]. split; [cbn; lia|]. intros v Hv. cbn [pyeval]. rewrite Hs. exact Hv. }
    destruct (c =? 0)%Z eqn:E0; [apply Z.eqb_eq in E0; exact (K "pi"%string 0%Z eq_refl Hp E0)|].
    destruct (c =? 1)%Z eqn:E1; [apply Z.eqb_eq in E1; exact (K "e"%string 1%Z eq_refl Hp E1)|]. discriminate.
  Qed.

  (* -- _print_Pow -- *)
  Lemma pp_pow n b x : pp (S n) (EPow b x) =
    if is_half x then
      match slookup function_names "sqrt" with
      | Some s => rbind (pp n b) (fun pb => Ok (PCall s [(true, pb)]))
      | None => Unm
      end
    else if is_neghalf x then
      match slookup function_names "sqrt" with
      | Some s => rbind (pp n b) (fun pb => Ok (PNary KProd (PNum 1) [(false, PCall s [(true, pb)])]))
      | None => Unm
      end
    else if is_negone x then rbind (brk n 60 b) (fun pb => Ok (PNary KProd (PNum 1) [(false, pb)]))
    else rbind (brk n 61 b) (fun pb => rbind (brk n 60 x) (fun px => Ok (PPow pb px))).
  Proof. reflexivity. Qed.

  Lemma ratexp_val x q0 : (match x with ENum 1 q => Qeq_bool q q0 | _ => false end) = true ->
    forall r, ev x = Some (VR r) -> r = Q2R q0.
  Proof.
    destruct x; try discriminate. destruct k; try discriminate. destruct p; try discriminate.
    intros H r Hr. rewrite eval_num in Hr. inversion Hr; subst. apply Qeq_bool_eq in H. apply Qeq_eqR. exact H.
  Qed.

  Lemma half_pos : (0 < Q2R (1 # 2))%R.
  Proof. unfold Q2R. cbn. lra. Qed.
  Lemma neghalf_eq : Q2R (-1 # 2) = (- Q2R (1 # 2))%R.
  Proof. unfold Q2R. cbn. lra. Qed.

  Lemma case_pow n b x p : IHn n -> pp (S n) (EPow b x) = Ok p -> printable (EPow b x) = true -> good (EPow b x) p.
  Proof.
    intros IH Hp Hpr. rewrite pp_pow in Hp. cbn [printable] in Hpr.
    repeat (apply andb_prop in Hpr; destruct Hpr as [Hpr ?]). rename Hpr into Rb, H1 into Rx, H0 into Pb, H into Px.
    unfold good. cbn [elvl].
    destruct (is_half x) eqn:Eh.
    - destruct (slookup function_names "sqrt") as [s|] eqn:Es; [|discriminate].
      apply rbind_ok in Hp. destruct Hp as [pb [Hb Hp]]. inversion Hp; subst p. destruct (IH _ _ Hb Pb) as [G1 [G2 G3]].
      split; [cbn [wb forallb snd]; rewrite G1; reflexivity|]. split; [cbn; lia|].
      intros v Hv. apply eval_pow_inv in Hv. destruct Hv as [rb [rx [r [Hvb [Hvx [Hps ->]]]]]].
      rewrite (ratexp_val x (1 # 2) Eh _ Hvx) in Hps.
      cbn [pyeval map snd oreals]. rewrite (sqrt_lookup_spec _ Es), (G3 _ Hvb). cbn [oreals meaning_sem]. rewrite Hps. reflexivity.
    - destruct (is_neghalf x) eqn:En.
      + destruct (slookup function_names "sqrt") as [s|] eqn:Es; [|discriminate].
        apply rbind_ok in Hp. destruct Hp as [pb [Hb Hp]]. inversion Hp; subst p. destruct (IH _ _ Hb Pb) as [G1 [G2 G3]].
        split; [cbn [wb is_nil negb forallb snd lvl ksub Z.leb]; rewrite G1; reflexivity|]. split; [cbn; lia|].
        intros v Hv. apply eval_pow_inv in Hv. destruct Hv as [rb [rx [r [Hvb [Hvx [Hps ->]]]]]].
        rewrite (ratexp_val x (-1 # 2) En _ Hvx), neghalf_eq, (Hneg _ _ half_pos) in Hps.
        destruct (psem rb (Q2R (1 # 2))) as [w|] eqn:Ew; cbn [inv_opt] in Hps; [|discriminate].
        destruct (Req_EM_T w 0); [discriminate|]. inversion Hps; subst.
        rewrite pev_nary. cbn [nary_sem mapped map fold_left fst snd pyeval oreals].
        rewrite (sqrt_lookup_spec _ Es), (G3 _ Hvb). cbn [oreals meaning_sem]. rewrite Ew. cbn [option_map].
        unfold prod_step. cbn [fst snd]. destruct (Req_EM_T w 0); [contradiction|]. f_equal. f_equal. ring.
      + destruct (eprec_real_lvl b Rb) as [_ [_ [L8 [L9 _]]]]. destruct (is_negone x) eqn:E1.
        * apply rbind_ok in Hp. destruct Hp as [pb [Hb Hp]]. inversion Hp; subst p.
          destruct (br_good n 60 b pb IH Hb Pb) as [G1 [G2 G3]].
          assert (7 <= lvl pb)%nat by (destruct G3 as [E|[E E']]; [lia | specialize (L8 E); lia]).
          split; [cbn [wb is_nil negb forallb snd lvl ksub Z.leb]; rewrite G1; apply Nat.leb_le in H; rewrite H; reflexivity|].
          split; [cbn; lia|].
          intros v Hv. apply eval_pow_inv in Hv. destruct Hv as [rb [rx [r [Hvb [Hvx [Hps ->]]]]]].
          destruct x; try discriminate. rewrite eval_num in Hvx. inversion Hvx; subst rx.
          destruct (negone_val _ _ E1) as [_ Hq]. rewrite Hq in Hps.
          replace (IZR (-1)) with (Ropp 1%R) in Hps by lra. rewrite (Hneg rb 1 ltac:(lra)), Hp1 in Hps. cbn [inv_opt] in Hps.
          destruct (Req_EM_T rb 0); [discriminate|]. inversion Hps; subst.
          rewrite pev_nary. cbn [nary_sem mapped map fold_left fst snd pyeval]. rewrite (G2 _ Hvb).
          unfold prod_step. cbn [fst snd]. destruct (Req_EM_T rb 0); [contradiction|]. f_equal. f_equal. ring.
        * apply rbind_ok in Hp. destruct Hp as [pb [Hb Hp]]. apply rbind_ok in Hp. destruct Hp as [px [Hx Hp]]. inversion Hp; subst p.
          destruct (br_good n 61 b pb IH Hb Pb) as [G1 [G2 G3]]. destruct (br_good n 60 x px IH Hx Px) as [K1 [K2 K3]].
          destruct (eprec_real_lvl x Rx) as [_ [_ [X8 _]]].
          assert (9 <= lvl pb)%nat by (destruct G3 as [E|[E E']]; [lia | specialize (L9 E); lia]).
          assert (7 <= lvl px)%nat by (destruct K3 as [E|[E E']]; [lia | specialize (X8 E); lia]).
          split; [cbn [wb]; rewrite G1, K1; apply Nat.leb_le in H, H0; rewrite H, H0; reflexivity|].
          split; [cbn; lia|].
          intros v Hv. apply eval_pow_inv in Hv. destruct Hv as [rb [rx [r [Hvb [Hvx [Hps ->]]]]]].
          cbn [pyeval]. rewrite (G2 _ Hvb), (K2 _ Hvx), Hps. reflexivity.
  Qed.

  (* -- functions, relations -- *)
  Lemma pp_fn n f l : pp (S n) (EFn f l) =
    if (Z.eqb f fn_max || Z.eqb f fn_min)%bool then Err
    else match fn_name f with
         | None => Unm
         | Some s => rbind (collect (map (pp n) l)) (fun ps =>
                       match slookup function_names s with
                       | Some py => Ok (PCall py (flag0 ps))
                       | None => Err
                       end)
         end.
  Proof. reflexivity. Qed.

  Lemma oreals_flag0 ps rs : pvals ps rs -> oreals (map (fun bp => pev (snd bp)) (flag0 ps)) = Some rs.
  Proof.
    induction 1 as [|p r ps rs Hp Hr IH]; [reflexivity|]. cbn [flag0 map snd oreals]. rewrite Hp.
    unfold flag0 in IH. rewrite IH. reflexivity.
  Qed.

  Lemma pp_list_good n l ps : IHn n -> Forall2 (fun x q => pp n x = Ok q) l ps -> okl l ->
    Forall (fun p => wb p = true) ps /\ (forall rs, vals l rs -> pvals ps rs).
  Proof.
    intros IH H. induction H as [|x q l ps Hx Hl I]; intros Hok.
    - split; [constructor|]. intros rs Hv. inversion Hv. constructor.
    - inversion Hok; subst. destruct (okb_split _ H1) as [_ Hpx]. destruct (IH _ _ Hx Hpx) as [G1 [G2 G3]].
      destruct (I H2) as [I1 I2]. split; [constructor; assumption|].
      intros rs Hv. inversion Hv; subst. constructor; [apply G3; assumption | apply I2; assumption].
  Qed.

  Lemma wb_flag0 ps : Forall (fun p => wb p = true) ps -> forallb (fun bp => wb (snd bp)) (flag0 ps) = true.
  Proof. induction 1 as [|p r Hp Hr IH]; [reflexivity|]. cbn [flag0 map forallb snd]. rewrite Hp. exact IH. Qed.

  Lemma case_fn n f l p : IHn n -> pp (S n) (EFn f l) = Ok p -> printable (EFn f l) = true -> good (EFn f l) p.
  Proof.
    intros IH Hp Hpr. rewrite pp_fn in Hp. destruct (Z.eqb f fn_max || Z.eqb f fn_min)%bool; [discriminate|].
    destruct (fn_name f) as [s|] eqn:Hn; [|discriminate]. apply rbind_ok in Hp. destruct Hp as [ps [Hc Hp]].
    destruct (slookup function_names s) as [py|] eqn:Hl; [|discriminate]. inversion Hp; subst p.
    apply collect_map_ok in Hc. cbn [printable] in Hpr. apply forallb_Forall in Hpr.
    destruct (pp_list_good n l ps IH Hc Hpr) as [W V].
    split.
    - cbn [wb]. apply wb_flag0. exact W.
    - split; [cbn; lia|]. intros v Hv. apply eval_fn_inv in Hv. destruct Hv as [rs [r [Hrs [Hf ->]]]].
      cbn [pyeval]. rewrite (fn_lookup_spec _ _ _ Hn Hl), (oreals_flag0 _ _ (V _ Hrs)). cbn [meaning_sem]. rewrite Hf. reflexivity.
  Qed.

  Lemma pp_rel n r x y : pp (S n) (ERel r x y) =
    if cmp_ok r then
      rbind (brk n (prec (ERel r x y) + 1) x) (fun px => rbind (brk n (prec (ERel r x y) + 1) y) (fun py => Ok (PCmp r px py)))
    else Unm.
  Proof. reflexivity. Qed.

  Lemma case_rel n r x y p : IHn n -> pp (S n) (ERel r x y) = Ok p -> printable (ERel r x y) = true -> good (ERel r x y) p.
  Proof.
    intros IH Hp Hpr. rewrite pp_rel in Hp. destruct (cmp_ok r) eqn:Hc; [|discriminate].
    apply rbind_ok in Hp. destruct Hp as [px [Hx Hp]]. apply rbind_ok in Hp. destruct Hp as [py [Hy Hp]]. inversion Hp; subst p.
    cbn [printable] in Hpr. repeat (apply andb_prop in Hpr; destruct Hpr as [Hpr ?]).
    destruct (br_good n _ x px IH Hx H0) as [G1 [G2 G3]]. destruct (br_good n _ y py IH Hy H) as [K1 [K2 K3]].
    destruct (eprec_real_lvl x Hpr) as [X5 _]. destruct (eprec_real_lvl y H1) as [Y5 _].
    assert (5 <= lvl px)%nat by (destruct G3 as [E|[_ E]]; lia).
    assert (5 <= lvl py)%nat by (destruct K3 as [E|[_ E]]; lia).
    split; [cbn [wb]; rewrite Hc, G1, K1; apply Nat.leb_le in H2, H3; rewrite H2, H3; reflexivity|].
    split; [cbn; lia|]. intros v Hv. rewrite eval_rel in Hv. cbn [pyeval].
    destruct (ev x) as [[rx|bx]|] eqn:Ex; try discriminate. destruct (ev y) as [[ry|by0]|] eqn:Ey; try discriminate.
    rewrite (G2 _ eq_refl), (K2 _ eq_refl). exact Hv.
  Qed.

  (* -- and / or -- *)
  Definition wlk (k : nkind) (p : ptree) : Prop := wb p = true /\ (klvl k <= lvl p)%nat.
  Notation bvals := (Forall2 (fun p b => pev p = Some (VB b))).

  Lemma entries_wb k ps : Forall (wlk k) ps -> Forall (eok k) (concat (map (splice k true) ps)).
  Proof.
    induction 1 as [|p r [H1 H2] Hr IH]; cbn [map concat]; [constructor|].
    apply Forall_app. split; [apply splice_ok; assumption | exact IH].
  Qed.

  Notation snds := (fun l => map snd (mapd l)).

  Lemma splice_bool_val k s u bu tail : (k = KAnd \/ k = KOr) -> pev u = Some (VB bu) ->
    bsem (kz k) (snds (splice k s u) ++ tail) = bsem (kz k) (Some (VB bu) :: tail).
  Proof.
    intros Hk Hu. destruct (Nat.eq_dec (lvl u) (klvl k)) as [E|E].
    - destruct (lvl_klvl_inv _ _ E) as [p0 [r ->]]. cbn [splice].
      replace (kind_eqb k k) with true by (symmetry; apply kind_eqb_eq; reflexivity).
      rewrite pev_nary, (nary_bool k _ _ Hk) in Hu.
      cbn [mapped map fst snd]. change (pev p0 :: map snd (mapd r)) with (pev p0 :: map snd (mapd r)) in Hu.
      change ((pev p0 :: map snd (mapd r)) ++ tail) with ((pev p0 :: map snd (mapd r)) ++ tail).
      rewrite bsem_app. unfold mapped in Hu |- *. rewrite Hu. cbn [bsem]. reflexivity.
    - rewrite (splice_single _ _ _ E). cbn [mapped map fst snd app]. rewrite Hu. reflexivity.
  Qed.

  Lemma entries_bool_val k ps bs : (k = KAnd \/ k = KOr) -> bvals ps bs -> forall tail,
    bsem (kz k) (snds (concat (map (splice k true) ps)) ++ tail) = bsem (kz k) (map (fun b => Some (VB b)) bs ++ tail).
  Proof.
    intros Hk H. induction H as [|p b ps bs Hp Hr IH]; intros tail; [reflexivity|].
    cbn [map concat]. unfold mapped. rewrite !map_app, <- app_assoc.
    change (map snd (map (fun bp => (fst bp, pev (snd bp))) (splice k true p))) with (snds (splice k true p)).
    rewrite (splice_bool_val k true p b _ Hk Hp). cbn [map app bsem]. destruct (Bool.eqb b (kz k)); [reflexivity|].
    apply IH.
  Qed.

  Lemma mknary_bool_val k h E bh : (k = KAnd \/ k = KOr) -> pev h = Some (VB bh) ->
    pev (mknary k h E) = bsem (kz k) (Some (VB bh) :: snds E).
  Proof.
    intros Hk Hh. destruct E as [|x E].
    - cbn [mknary mapped map bsem]. rewrite Hh. destruct bh, (kz k); reflexivity.
    - destruct (Nat.eq_dec (lvl h) (klvl k)) as [El|El].
      + destruct (lvl_klvl_inv _ _ El) as [p0 [r ->]]. cbn [mknary].
        replace (kind_eqb k k) with true by (symmetry; apply kind_eqb_eq; reflexivity).
        rewrite pev_nary in Hh. rewrite (nary_bool k _ _ Hk) in Hh.
        rewrite pev_nary, (nary_bool k _ _ Hk), (mapped_app fsem psem csem vsem), map_app, app_comm_cons.
        rewrite bsem_app, Hh. cbn [bsem]. reflexivity.
      + assert (Hm : mknary k h (x :: E) = PNary k h (x :: E)).
        { destruct h; try reflexivity. cbn [mknary]. destruct (kind_eqb k k0) eqn:Ek; [|reflexivity].
          apply kind_eqb_eq in Ek. subst. cbn in El. contradiction. }
        rewrite Hm, pev_nary, (nary_bool k _ _ Hk), Hh. reflexivity.
  Qed.

  Lemma join_bool_good k ps : (k = KAnd \/ k = KOr) -> ps <> [] -> Forall (wlk k) ps ->
    wb (join_nary k ps) = true /\ (klvl k <= lvl (join_nary k ps))%nat /\
    (forall bs, bvals ps bs -> pev (join_nary k ps) = Some (VB (fold_right (bcomb (kz k)) (negb (kz k)) bs))).
  Proof.
    intros Hk Hne Hf. destruct ps as [|h rest]; [contradiction|]. inversion Hf as [|h0 r0 [W1 W2] Hrest]; subst.
    cbn [join_nary]. destruct (mknary_ok k h _ W1 W2 (entries_wb k _ Hrest)) as [M1 M2].
    split; [exact M1|]. split; [exact M2|]. intros bs Hb. inversion Hb as [|h0 bh r0 bs' Hh Hr]; subst.
    rewrite (mknary_bool_val k h _ bh Hk Hh).
    pose proof (entries_bool_val k rest bs' Hk Hr []) as E. rewrite !app_nil_r in E.
    cbn [bsem]. rewrite E. cbn [fold_right]. unfold bcomb at 1. destruct (Bool.eqb bh (kz k)); [reflexivity|].
    apply bsem_vals.
  Qed.

  Lemma brk_list_p n par xs : IHn n -> Forall (fun x => printable x = true) xs -> forall ps,
    collect (map (brk n par) xs) = Ok ps -> Forall2 (brk_spec par) xs ps.
  Proof.
    intros IH Hok ps Hc. apply collect_map_ok in Hc. revert Hok.
    induction Hc as [|x p xs ps Hx Hr I]; intros Hok; constructor.
    - inversion Hok; subst. exact (br_good n par x p IH Hx H1).
    - inversion Hok; subst. apply I. assumption.
  Qed.

  Lemma pp_bool n op l : pp (S n) (EBool op l) =
    if Z.eqb op 0 then
      match l with [] => Unm | _ => rbind (collect (map (brk n 30) l)) (fun ps => Ok (join_nary KAnd ps)) end
    else if Z.eqb op 1 then
      match l with [] => Unm | _ => rbind (collect (map (brk n 20) l)) (fun ps => Ok (join_nary KOr ps)) end
    else Err.
  Proof. reflexivity. Qed.

  Lemma bool_list_good k par l ps : Forall (fun x => is_boolkind x = true) l ->
    ((par = 30%Z /\ k = KAnd) \/ (par = 20%Z /\ k = KOr)) ->
    Forall2 (brk_spec par) l ps ->
    Forall (wlk k) ps /\ (forall bs, Forall2 (fun e b => ev e = Some (VB b)) l bs -> bvals ps bs).
  Proof.
    intros Hb Hk H. induction H as [|x p l ps [H1 [H2 H3]] Hr I].
    - split; [constructor|]. intros bs Hv. inversion Hv. constructor.
    - inversion Hb; subst. destruct (I H5) as [I1 I2]. destruct (eprec_bool_lvl x H4) as [B2 B1]. split.
      + constructor; [|exact I1]. split; [exact H1|].
        destruct H3 as [E|[E1 E2]]; [destruct k; cbn; lia|].
        destruct Hk as [[-> ->]|[-> ->]]; cbn [klvl]; [specialize (B2 E1); lia | lia].
      + intros bs Hv. inversion Hv; subst. constructor; [apply H2; assumption | apply I2; assumption].
  Qed.

  Lemma bcomb_and bs : fold_right (bcomb false) true bs = fold_right andb true bs.
  Proof. induction bs as [|b r IH]; [reflexivity|]. cbn [fold_right]. rewrite IH. destruct b; reflexivity. Qed.
  Lemma bcomb_or bs : fold_right (bcomb true) false bs = fold_right orb false bs.
  Proof. induction bs as [|b r IH]; [reflexivity|]. cbn [fold_right]. rewrite IH. destruct b; reflexivity. Qed.

  Lemma case_bool n op l p : IHn n -> pp (S n) (EBool op l) = Ok p -> printable (EBool op l) = true -> good (EBool op l) p.
  Proof.
    intros IH Hp Hpr. rewrite pp_bool in Hp. cbn [printable] in Hpr. apply forallb_Forall in Hpr.
    assert (Hbk : Forall (fun x => is_boolkind x = true) l /\ Forall (fun x => printable x = true) l).
    { split; eapply Forall_impl; try exact Hpr; cbn; intros a Ha; apply andb_prop in Ha; tauto. }
    destruct Hbk as [Hbk Hpp]. unfold good. cbn [elvl].
    assert (Gen : forall k par, ((par = 30%Z /\ k = KAnd) \/ (par = 20%Z /\ k = KOr)) ->
       match l with [] => Unm | _ => rbind (collect (map (brk n par) l)) (fun ps => Ok (join_nary k ps)) end = Ok p ->
       wb p = true /\ (klvl k <= lvl p)%nat /\
       (forall bs, Forall2 (fun e b => ev e = Some (VB b)) l bs -> pev p = Some (VB (fold_right (bcomb (kz k)) (negb (kz k)) bs)))).
    { intros k par Hk H. destruct l as [|x0 l0]; [discriminate|]. apply rbind_ok in H. destruct H as [ps [Hc H]]. inversion H; subst p.
      pose proof (brk_list_p n par _ IH Hpp _ Hc) as F. destruct (bool_list_good k par _ ps Hbk Hk F) as [W V].
      assert (Hne : ps <> []) by (intros ->; inversion F).
      assert (Hk' : k = KAnd \/ k = KOr) by (destruct Hk as [[_ ->]|[_ ->]]; [left | right]; reflexivity).
      destruct (join_bool_good k ps Hk' Hne W) as [J1 [J2 J3]]. split; [exact J1|]. split; [exact J2|].
      intros bs Hv. apply J3. apply V. exact Hv. }
    destruct (Z.eqb op 0) eqn:E0.
    - destruct (Gen KAnd 30%Z ltac:(left; split; reflexivity) Hp) as [G1 [G2 G3]]. split; [exact G1|]. split; [exact G2|].
      intros v Hv. apply eval_bool_inv in Hv. destruct Hv as [bs [b [Hbs [Hsem ->]]]]. apply Z.eqb_eq in E0. subst op.
      cbn [bool_sem] in Hsem. inversion Hsem; subst. rewrite (G3 _ Hbs). cbn [kz negb]. rewrite bcomb_and. reflexivity.
    - destruct (Z.eqb op 1) eqn:E1; [|discriminate].
      destruct (Gen KOr 20%Z ltac:(right; split; reflexivity) Hp) as [G1 [G2 G3]]. split; [exact G1|]. split; [exact G2|].
      intros v Hv. apply eval_bool_inv in Hv. destruct Hv as [bs [b [Hbs [Hsem ->]]]]. apply Z.eqb_eq in E1. subst op.
      cbn [bool_sem] in Hsem. inversion Hsem; subst. rewrite (G3 _ Hbs). cbn [kz negb]. rewrite bcomb_or. reflexivity.
  Qed.

  (* -- _print_Piecewise -- *)
  Definition pwf (n : nat) :=
    fix pw (l : list (expr * expr)) : res ptree :=
      match l with
      | [] => lit "nan"
      | (x, c) :: r =>
          match c with
          | ETrue => pp n x
          | _ => rbind (pp n x) (fun px => rbind (pp n c) (fun pc => rbind (pw r) (fun pr =>
                   Ok (PIf (PParen px) (PParen pc) (PParen pr)))))
          end
      end.

  Lemma pp_pw n l : pp (S n) (EPw l) = rbind (pwf n l) (fun p => Ok (PParen p)).
  Proof. reflexivity. Qed.

  Definition is_true (c : expr) : bool := match c with ETrue => true | _ => false end.

  Lemma pwf_cons n x c r : pwf n ((x, c) :: r) =
    if is_true c then pp n x
    else rbind (pp n x) (fun px => rbind (pp n c) (fun pc => rbind (pwf n r) (fun pr =>
           Ok (PIf (PParen px) (PParen pc) (PParen pr))))).
  Proof. destruct c; reflexivity. Qed.

  Lemma pw_good n : IHn n -> forall l p, pwf n l = Ok p ->
    forallb (fun ec => isreal (fst ec) && printable (fst ec) && is_boolkind (snd ec) && printable (snd ec)) l = true ->
    wb p = true /\ (forall v, evpw l = Some v -> pev p = Some v).
  Proof.
    intros IH. induction l as [|[x c] r IHl]; intros p Hp Hpr.
    - cbn [pwf] in Hp. unfold lit in Hp. destruct (slookup literal_names "nan"); [|discriminate]. inversion Hp; subst.
      split; [reflexivity|]. intros v Hv. discriminate.
    - rewrite pwf_cons in Hp. cbn [forallb fst snd] in Hpr. apply andb_prop in Hpr. destruct Hpr as [Hx Hr].
      repeat (apply andb_prop in Hx; destruct Hx as [Hx ?]). cbn [evalpw].
      destruct (is_true c) eqn:Et.
      + destruct c; try discriminate. destruct (IH _ _ Hp H1) as [G1 [G2 G3]]. split; [exact G1|].
        intros v Hv. apply G3. exact Hv.
      + apply rbind_ok in Hp. destruct Hp as [px [Hpx Hp]]. apply rbind_ok in Hp. destruct Hp as [pc [Hpc Hp]].
        apply rbind_ok in Hp. destruct Hp as [pr [Hpr' Hp]]. inversion Hp; subst p.
        destruct (IH _ _ Hpx H1) as [G1 [G2 G3]]. destruct (IH _ _ Hpc H) as [C1 [C2 C3]].
        destruct (IHl _ Hpr' Hr) as [R1 R2].
        split; [cbn [wb lvl Nat.leb]; rewrite G1, C1, R1; reflexivity|].
        intros v Hv. cbn [pyeval]. destruct (ev c) as [[rc|[|]]|] eqn:Ec; try discriminate.
        * rewrite (C3 _ eq_refl). apply G3. exact Hv.
        * rewrite (C3 _ eq_refl). apply R2. exact Hv.
  Qed.

  Lemma case_pw n l p : IHn n -> pp (S n) (EPw l) = Ok p -> printable (EPw l) = true -> good (EPw l) p.
  Proof.
    intros IH Hp Hpr. rewrite pp_pw in Hp. apply rbind_ok in Hp. destruct Hp as [q [Hq Hp]]. inversion Hp; subst p.
    cbn [printable] in Hpr. destruct (pw_good n IH l q Hq Hpr) as [W V].
    split; [exact W|]. split; [cbn; lia|]. intros v Hv. rewrite eval_pw in Hv. cbn [pyeval]. apply V. exact Hv.
  Qed.

  (* -- all depths -- *)
  Theorem pp_good : forall n, IHn n.
  Proof.
    induction n as [|n IH]; intros e p Hp Hpr; [discriminate|].
    destruct e.
    - exact (case_num n k q p Hp Hpr).
    - exact (case_const n c p Hp).
    - discriminate.
    - cbn [pp] in Hp. inversion Hp; subst. split; [reflexivity|]. split; [cbn; lia|]. intros vv Hv. exact Hv.
    - exact (case_add n l p IH Hp Hpr).
    - exact (case_mul n l p IH Hp Hpr).
    - exact (case_pow n e1 e2 p IH Hp Hpr).
    - exact (case_fn n f l p IH Hp Hpr).
    - discriminate.
    - exact (case_rel n r e1 e2 p IH Hp Hpr).
    - exact (case_bool n op l p IH Hp Hpr).
    - cbn [pp] in Hp. inversion Hp; subst. split; [reflexivity|]. split; [cbn; lia|]. intros vv Hv. exact Hv.
    - cbn [pp] in Hp. inversion Hp; subst. split; [reflexivity|]. split; [cbn; lia|]. intros vv Hv. exact Hv.
    - exact (case_pw n l p IH Hp Hpr).
  Qed.

  Theorem print_wellbracketed : forall n e p, pp n e = Ok p -> printable e = true -> wb p = true.
  Proof. intros n e p H1 H2. exact (proj1 (pp_good n e p H1 H2)). Qed.

  Theorem print_value : forall n e p v, pp n e = Ok p -> printable e = true -> ev e = Some v -> pev p = Some v.
  Proof. intros n e p v H1 H2. exact (proj2 (proj2 (pp_good n e p H1 H2)) v). Qed.

  (* doprint = rewriting pass + printer *)
  Hypothesis Htrig : forall f sh g, In (f, sh, g) trig_spec -> trig_law fsem psem f sh g.

  Theorem doprint_correct : forall e p, doprint e = Ok p -> printable (pre e) = true ->
    wb p = true /\ derives 0 (toks p) p /\ (forall v, ev e = Some v -> pev p = Some v).
  Proof.
    intros e p H Hpr. unfold doprint in H. destruct (pp_good _ _ _ H Hpr) as [G1 [G2 G3]].
    split; [exact G1|]. split; [apply grammar_sound_top; exact G1|].
    intros v Hv. apply G3. rewrite (pre_sound fsem psem csem qsem vsem dsem Htrig). exact Hv.
  Qed.
End Main.

(* ---- regression witnesses of the repaired defects F10a / F10b / F17: the two trees that used to be printed with the
   same text are now printed with different, well-bracketed texts (their values are covered by print_value) ---- *)
Definition now_distinct (e1 e2 : expr) : Prop :=
  exists p1 p2, doprint e1 = Ok p1 /\ doprint e2 = Ok p2 /\ wb p1 = true /\ wb p2 = true /\
                printable (pre e1) = true /\ printable (pre e2) = true /\ text p1 <> text p2.

Definition v0 := EVar 0. Definition v1 := EVar 1. Definition v2 := EVar 2.
Definition m1 := ENum 0 (-1 # 1).

Ltac distinct_tac :=
  eexists; eexists; split; [vm_compute; reflexivity|]; split; [vm_compute; reflexivity|];
  split; [vm_compute; reflexivity|]; split; [vm_compute; reflexivity|];
  split; [vm_compute; reflexivity|]; split; [vm_compute; reflexivity|];
  let H := fresh in intros H; vm_compute in H; discriminate H.

(* (x**y)**z is printed (v0**v1)**v2, x**(y**z) is printed v0**v1**v2 *)
Lemma pow_tower_fixed : now_distinct (EPow (EPow v0 v1) v2) (EPow v0 (EPow v1 v2)).
Proof. distinct_tac. Qed.

(* unevaluated -(x + y) is printed -(v0 + v1), (-x) + y is printed -v0 + v1 *)
Lemma negated_sum_fixed : now_distinct (EMul [m1; EAdd [v0; v1]]) (EAdd [EMul [m1; v0]; v1]).
Proof. distinct_tac. Qed.

(* unevaluated x / (1 / y) is printed v0 / (1 / v1), (x / 1) / y is printed v0 / 1 / v1 *)
Lemma single_denominator_fixed :
  now_distinct (EMul [v0; EPow (EPow v1 m1) m1]) (EMul [EMul [v0; EPow (ENum 0 (1 # 1)) m1]; EPow v1 m1]).
Proof. distinct_tac. Qed.

Definition none1 (_ : Z) : option R := None.

(* ---- the premises are satisfiable --------------------------------------------------------------- *)
(* real powers for positive bases, x**1 = x and x**-1 = 1/x everywhere *)
Definition psem_ex (x y : R) : option R :=
  if Req_EM_T y 1 then Some x
  else if Req_EM_T y (-1) then (if Req_EM_T x 0 then None else Some (/ x)%R)
  else if Rlt_dec 0 x then Some (Rpower x y) else None.

Lemma psem_ex_one : forall x, psem_ex x 1 = Some x.
Proof. intros x. unfold psem_ex. destruct (Req_EM_T 1 1); [reflexivity | contradiction]. Qed.

Lemma psem_ex_neg : forall x y, (0 < y)%R -> psem_ex x (- y) = inv_opt (psem_ex x y).
Proof.
  intros x y Hy. unfold psem_ex. destruct (Req_EM_T (- y) 1); [lra|].
  destruct (Req_EM_T y 1) as [E|E].
  - subst y. destruct (Req_EM_T (- (1)) (-1)); [|lra]. reflexivity.
  - destruct (Req_EM_T (- y) (-1)); [lra|]. destruct (Req_EM_T y (-1)); [lra|].
    destruct (Rlt_dec 0 x); [|reflexivity]. cbn [inv_opt].
    assert (0 < Rpower x y)%R by (unfold Rpower; apply exp_pos).
    destruct (Req_EM_T (Rpower x y) 0); [lra|]. rewrite Rpower_Ropp. reflexivity.
Qed.

(* secondary trig functions defined from the primary ones satisfy the rewriting laws *)
Definition fsem_ex (base : Z -> list R -> option R) (f : Z) (rs : list R) : option R :=
  match rs with
  | [x] =>
      match find (fun t => Z.eqb (fst (fst t)) f) trig_spec with
      | Some (_, sh, g) =>
          if Z.eqb sh 0 then match base g [x] with Some c => psem_ex c (Q2R (-1 # 1)) | None => None end
          else match psem_ex x (Q2R (-1 # 1)) with Some y => base g [y] | None => None end
      | None => base f rs
      end
  | _ => base f rs
  end.

Lemma fsem_ex_laws base : forall f sh g, In (f, sh, g) trig_spec -> trig_law (fsem_ex base) psem_ex f sh g.
Proof.
  intros f sh g Hin x. cbn in Hin.
  repeat (destruct Hin as [Hin|Hin]; [inversion Hin; subst; reflexivity|]). contradiction.
Qed.

(* well-bracketedness does not depend on the semantic premises: instantiate them *)
Lemma wellbracketed : forall n e p, pp n e = Ok p -> printable e = true -> wb p = true.
Proof.
  exact (print_wellbracketed (fun _ _ => None) psem_ex none1 (fun _ _ _ => None) none1 (fun _ _ => None)
           psem_ex_one psem_ex_neg).
Qed.

Lemma premises_satisfiable :
  (forall x, psem_ex x 1 = Some x) /\
  (forall x y, (0 < y)%R -> psem_ex x (- y) = inv_opt (psem_ex x y)) /\
  (forall base f sh g, In (f, sh, g) trig_spec -> trig_law (fsem_ex base) psem_ex f sh g).
Proof. split; [exact psem_ex_one | split; [exact psem_ex_neg | exact fsem_ex_laws]]. Qed.
