(* Lemmas for C12 (singularity removal only repairs). *)
From Coq Require Import ZArith QArith Reals Qreals List Bool Lia Lra Psatz.
From Interval Require Import Tactic.
From Verif Require Import Sexp Singularity.
Import ListNotations.
Open Scope R_scope.

(* ------------------------------------------------------------------------------------------------
   _generate_piecewise *)
Lemma lo_of_min : forall a b, lo_of a b = Rmin a b.
Proof. intros a b. unfold lo_of, Rmin. destruct (Rlt_dec b a), (Rle_dec a b); lra. Qed.

Lemma hi_of_max : forall a b, hi_of a b = Rmax a b.
Proof. intros a b. unfold hi_of, Rmax. destruct (Rlt_dec b a), (Rle_dec a b); lra. Qed.

Lemma lo_le_hi : forall a b, lo_of a b <= hi_of a b.
Proof. intros a b. unfold lo_of, hi_of. destruct (Rlt_dec b a); lra. Qed.

Lemma in_window_true : forall lo hi V, in_window lo hi V = true <-> lo <= V <= hi.
Proof.
  intros lo hi V. unfold in_window. destruct (Rle_dec lo V), (Rle_dec V hi); cbn; split; intros H;
    try discriminate; try reflexivity; lra.
Qed.

Lemma in_window_false : forall lo hi V, in_window lo hi V = false <-> (V < lo \/ hi < V).
Proof.
  intros lo hi V. unfold in_window. destruct (Rle_dec lo V), (Rle_dec V hi); cbn; split; intros H;
    try discriminate; try reflexivity; lra.
Qed.

Lemma outside_window_unchanged : forall f Vmin Vmax V,
  V < lo_of Vmin Vmax \/ hi_of Vmin Vmax < V -> gen_piecewise f Vmin Vmax V = f V.
Proof.
  intros f Vmin Vmax V H. unfold gen_piecewise.
  apply in_window_false in H. rewrite H. reflexivity.
Qed.

Lemma inside_is_interpolant : forall f Vmin Vmax V,
  lo_of Vmin Vmax <= V <= hi_of Vmin Vmax ->
  gen_piecewise f Vmin Vmax V = interp f (lo_of Vmin Vmax) (hi_of Vmin Vmax) V.
Proof.
  intros f Vmin Vmax V H. unfold gen_piecewise.
  apply in_window_true in H. rewrite H. reflexivity.
Qed.

(* the interpolant through two points does not depend on their order *)
Lemma interp_sym : forall f a b V, interp f a b V = interp f b a V.
Proof.
  intros f a b V. unfold interp. destruct (Req_dec a b) as [->|Hne]; [reflexivity|].
  field. split; lra.
Qed.

Lemma gen_piecewise_sym_eq : forall f Vmin Vmax V,
  gen_piecewise_sym f Vmin Vmax V = gen_piecewise f Vmin Vmax V.
Proof.
  intros f Vmin Vmax V. unfold gen_piecewise_sym, gen_piecewise, lo_of, hi_of.
  destruct (Rlt_dec Vmax Vmin) as [Hlt|Hge].
  - destruct (in_window Vmax Vmin V) eqn:H2.
    + rewrite orb_true_r. apply interp_sym.
    + rewrite orb_false_r. destruct (in_window Vmin Vmax V) eqn:H1; [|reflexivity].
      apply in_window_true in H1. lra.
  - destruct (in_window Vmin Vmax V) eqn:H1; [reflexivity|]. cbn [orb].
    destruct (in_window Vmax Vmin V) eqn:H2; [|reflexivity].
    apply in_window_true in H2. apply in_window_false in H1. lra.
Qed.

(* affine exponent argument U = a*V + b, a <> 0: whichever sign a has and whichever of the two bounds solves
   U = +d and which U = -d, the singular point lies in the window *)
Lemma window_contains_sp : forall a b d Vmin Vmax sp,
  a <> 0 -> 0 <= d ->
  (a * Vmin + b = d /\ a * Vmax + b = - d) \/ (a * Vmin + b = - d /\ a * Vmax + b = d) ->
  a * sp + b = 0 ->
  lo_of Vmin Vmax <= sp <= hi_of Vmin Vmax.
Proof.
  intros a b d Vmin Vmax sp Ha Hd H Hsp.
  unfold lo_of, hi_of.
  destruct (Rlt_dec Vmax Vmin) as [Hlt|Hge];
    destruct (Rtotal_order a 0) as [Hn|[Hz|Hp]]; try lra;
    destruct H as [[H1 H2]|[H1 H2]]; split; nra.
Qed.

Lemma interp_weight : forall lo hi V, lo <= V <= hi -> 0 <= (V - lo) / (hi - lo) <= 1.
Proof.
  intros lo hi V H.
  destruct (Req_dec lo hi) as [He|Hne].
  - subst hi. replace (V - lo) with 0 by lra. unfold Rdiv. rewrite Rmult_0_l. lra.
  - assert (Hd : 0 < hi - lo) by lra. split.
    + apply Rmult_le_pos; [lra|]. left. apply Rinv_0_lt_compat. exact Hd.
    + apply (Rmult_le_reg_r (hi - lo)); [exact Hd|].
      unfold Rdiv. rewrite Rmult_assoc, Rinv_l by lra. lra.
Qed.

Lemma inside_is_convex_combination : forall f Vmin Vmax V,
  lo_of Vmin Vmax <= V <= hi_of Vmin Vmax ->
  exists t, 0 <= t <= 1 /\
    gen_piecewise f Vmin Vmax V = (1 - t) * f (lo_of Vmin Vmax) + t * f (hi_of Vmin Vmax) /\
    Rmin (f Vmin) (f Vmax) <= gen_piecewise f Vmin Vmax V <= Rmax (f Vmin) (f Vmax).
Proof.
  intros f Vmin Vmax V H.
  exists ((V - lo_of Vmin Vmax) / (hi_of Vmin Vmax - lo_of Vmin Vmax)).
  pose proof (interp_weight _ _ _ H) as Ht.
  rewrite (inside_is_interpolant _ _ _ _ H). unfold interp.
  set (t := (V - lo_of Vmin Vmax) / (hi_of Vmin Vmax - lo_of Vmin Vmax)) in *.
  split; [exact Ht|]. split; [ring|].
  assert (Hends : (lo_of Vmin Vmax = Vmin /\ hi_of Vmin Vmax = Vmax) \/ (lo_of Vmin Vmax = Vmax /\ hi_of Vmin Vmax = Vmin)).
  { unfold lo_of, hi_of. destruct (Rlt_dec Vmax Vmin); [right|left]; split; reflexivity. }
  destruct Hends as [[-> ->]|[-> ->]]; unfold Rmin, Rmax; destruct (Rle_dec (f Vmin) (f Vmax)); split; nra.
Qed.

Lemma Rabs_le_iff : forall x y, Rabs x <= y <-> - y <= x <= y.
Proof. intros x y. unfold Rabs. destruct (Rcase_abs x); split; lra. Qed.

Lemma inside_within_bound_gen : forall f Vmin Vmax V Lim bnd,
  Rabs (f Vmin - Lim) <= bnd -> Rabs (f Vmax - Lim) <= bnd ->
  lo_of Vmin Vmax <= V <= hi_of Vmin Vmax ->
  Rabs (gen_piecewise f Vmin Vmax V - Lim) <= bnd.
Proof.
  intros f Vmin Vmax V Lim bnd H1 H2 H.
  destruct (inside_is_convex_combination f Vmin Vmax V H) as [t [Ht [_ Hb]]].
  apply Rabs_le_iff in H1. apply Rabs_le_iff in H2.
  revert Hb. unfold Rmin, Rmax. destruct (Rle_dec (f Vmin) (f Vmax)); intros Hb; apply Rabs_le_iff; lra.
Qed.

(* ------------------------------------------------------------------------------------------------
   the four documented forms at the ends of the window, delta = 1e-7 *)
Definition bound : R := 6 / 100000000.

Lemma ghk1_p : Rabs (ghk1 delta - 1) <= bound.
Proof. unfold ghk1, delta, bound. interval with (i_prec 120). Qed.
Lemma ghk1_m : Rabs (ghk1 (- delta) - 1) <= bound.
Proof. unfold ghk1, delta, bound. interval with (i_prec 120). Qed.
Lemma ghk2_p : Rabs (ghk2 delta - -1) <= bound.
Proof. unfold ghk2, delta, bound. interval with (i_prec 120). Qed.
Lemma ghk2_m : Rabs (ghk2 (- delta) - -1) <= bound.
Proof. unfold ghk2, delta, bound. interval with (i_prec 120). Qed.
Lemma ghk3_p : Rabs (ghk3 delta - 1) <= bound.
Proof. unfold ghk3, delta, bound. interval with (i_prec 120). Qed.
Lemma ghk3_m : Rabs (ghk3 (- delta) - 1) <= bound.
Proof. unfold ghk3, delta, bound. interval with (i_prec 120). Qed.
Lemma ghk4_p : Rabs (ghk4 delta - -1) <= bound.
Proof. unfold ghk4, delta, bound. interval with (i_prec 120). Qed.
Lemma ghk4_m : Rabs (ghk4 (- delta) - -1) <= bound.
Proof. unfold ghk4, delta, bound. interval with (i_prec 120). Qed.

Lemma ghk_endpoints : forall k,
  Rabs (ghk k delta - ghk_limit k) <= bound /\ Rabs (ghk k (- delta) - ghk_limit k) <= bound.
Proof.
  intros [|[|[|k]]]; cbn [ghk ghk_limit]; split;
    auto using ghk1_p, ghk1_m, ghk2_p, ghk2_m, ghk3_p, ghk3_m, ghk4_p, ghk4_m.
Qed.

(* the bound is about as small as it can be stated: the end-point error is really of the order delta/2 *)
Lemma ghk1_endpoint_error_is_real : 4 / 100000000 <= Rabs (ghk1 delta - 1).
Proof. unfold ghk1, delta. interval with (i_prec 120). Qed.

(* P * g(a*V + c) with Vmin / Vmax solving U = +-delta: inside the window (the singular point included) the repaired
   value is within 6e-8 * |P| of the analytic limit P * g(0) *)
Lemma inside_within_bound : forall k P a c Vmin Vmax V,
  a <> 0 ->
  (a * Vmin + c = delta /\ a * Vmax + c = - delta) \/ (a * Vmin + c = - delta /\ a * Vmax + c = delta) ->
  lo_of Vmin Vmax <= V <= hi_of Vmin Vmax ->
  Rabs (gen_piecewise (fun v => P * ghk k (a * v + c)) Vmin Vmax V - P * ghk_limit k) <= bound * Rabs P.
Proof.
  intros k P a c Vmin Vmax V Ha Hsol HV.
  destruct (ghk_endpoints k) as [Hp Hm].
  assert (Hscale : forall u, Rabs (ghk k u - ghk_limit k) <= bound ->
                             Rabs (P * ghk k u - P * ghk_limit k) <= bound * Rabs P).
  { intros u Hu. rewrite <- Rmult_minus_distr_l, Rabs_mult, Rmult_comm.
    apply Rmult_le_compat_r; [apply Rabs_pos|exact Hu]. }
  apply inside_within_bound_gen; [| |exact HV].
  - destruct Hsol as [[-> _]|[-> _]]; apply Hscale; assumption.
  - destruct Hsol as [[_ ->]|[_ ->]]; apply Hscale; assumption.
Qed.

Lemma inside_within_bound_at_sp : forall k P a c Vmin Vmax sp,
  a <> 0 ->
  (a * Vmin + c = delta /\ a * Vmax + c = - delta) \/ (a * Vmin + c = - delta /\ a * Vmax + c = delta) ->
  a * sp + c = 0 ->
  Rabs (gen_piecewise (fun v => P * ghk k (a * v + c)) Vmin Vmax sp - P * ghk_limit k) <= bound * Rabs P.
Proof.
  intros k P a c Vmin Vmax sp Ha Hsol Hsp.
  apply inside_within_bound; [exact Ha|exact Hsol|].
  apply (window_contains_sp a c delta); auto. unfold delta. lra.
Qed.

(* ------------------------------------------------------------------------------------------------
   the executable version over Q computes the real-valued model *)
Lemma Qle_bool_R : forall a b, Qle_bool a b = true <-> Q2R a <= Q2R b.
Proof.
  intros a b. rewrite Qle_bool_iff. split; [apply Qle_Rle|apply Rle_Qle].
Qed.

Lemma Qminus_eq : forall a b : Q, (a - b == 0)%Q -> (a == b)%Q.
Proof. intros a b H. rewrite <- (Qplus_0_l b), <- H. ring. Qed.

Lemma piecewise_Q_correct : forall (f : R -> R) Vmin Vmax V fmin fmax fV,
  ~ (Vmin == Vmax)%Q ->
  f (Q2R Vmin) = Q2R fmin -> f (Q2R Vmax) = Q2R fmax -> f (Q2R V) = Q2R fV ->
  Q2R (snd (piecewise_Q Vmin Vmax V fmin fmax fV)) = gen_piecewise f (Q2R Vmin) (Q2R Vmax) (Q2R V).
Proof.
  intros f Vmin Vmax V fmin fmax fV Hne H1 H2 H3.
  unfold piecewise_Q, gen_piecewise, lo_of, hi_of.
  destruct (Qlt_le_dec Vmax Vmin) as [Hlt|Hge]; destruct (Rlt_dec (Q2R Vmax) (Q2R Vmin)) as [Hr|Hr].
  - destruct (Qle_bool Vmax V && Qle_bool V Vmin) eqn:Hw.
    + apply andb_prop in Hw. destruct Hw as [Ha Hb]. apply Qle_bool_R in Ha, Hb.
      replace (in_window (Q2R Vmax) (Q2R Vmin) (Q2R V)) with true by (symmetry; apply in_window_true; lra).
      cbn [snd]. unfold interp. rewrite Q2R_plus, Q2R_mult, Q2R_div, !Q2R_minus, H1, H2; [reflexivity|].
      intros He. apply Hne. apply Qminus_eq in He. exact He.
    + replace (in_window (Q2R Vmax) (Q2R Vmin) (Q2R V)) with false; [cbn [snd]; auto|].
      symmetry. apply in_window_false. apply andb_false_iff in Hw.
      destruct Hw as [Hw|Hw]; [left|right]; apply Rnot_le_lt; intros Hc; apply Qle_bool_R in Hc; congruence.
  - exfalso. apply Hr. apply Qlt_Rlt. exact Hlt.
  - exfalso. apply Rlt_Qlt in Hr. apply (Qlt_not_le _ _ Hr). exact Hge.
  - destruct (Qle_bool Vmin V && Qle_bool V Vmax) eqn:Hw.
    + apply andb_prop in Hw. destruct Hw as [Ha Hb]. apply Qle_bool_R in Ha, Hb.
      replace (in_window (Q2R Vmin) (Q2R Vmax) (Q2R V)) with true by (symmetry; apply in_window_true; lra).
      cbn [snd]. unfold interp. rewrite Q2R_plus, Q2R_mult, Q2R_div, !Q2R_minus, H1, H2; [reflexivity|].
      intros He. apply Hne. apply Qminus_eq in He. symmetry. exact He.
    + replace (in_window (Q2R Vmin) (Q2R Vmax) (Q2R V)) with false; [cbn [snd]; auto|].
      symmetry. apply in_window_false. apply andb_false_iff in Hw.
      destruct Hw as [Hw|Hw]; [left|right]; apply Rnot_le_lt; intros Hc; apply Qle_bool_R in Hc; congruence.
Qed.

(* ------------------------------------------------------------------------------------------------
   _fix_expr_parts *)
Section sx_induction.
  Variable P : sx -> Prop.
  Hypothesis Hatom : forall i b, P (SAtom i b).
  Hypothesis Hadd : forall l, Forall P l -> P (SAdd l).
  Hypothesis Hmul : forall l, Forall P l -> P (SMul l).
  Hypothesis Hinv : forall a, P a -> P (SInv a).
  Hypothesis Hpw : forall a w, P a -> P (SPw a w).
  Fixpoint sx_ind' (e : sx) : P e :=
    match e with
    | SAtom i b => Hatom i b
    | SAdd l => Hadd l ((fix go (l : list sx) : Forall P l :=
                           match l with [] => Forall_nil _ | a :: r => Forall_cons _ (sx_ind' a) (go r) end) l)
    | SMul l => Hmul l ((fix go (l : list sx) : Forall P l :=
                           match l with [] => Forall_nil _ | a :: r => Forall_cons _ (sx_ind' a) (go r) end) l)
    | SInv a => Hinv a (sx_ind' a)
    | SPw a w => Hpw a w (sx_ind' a)
    end.
End sx_induction.

Section FixP.
  Variable atom : nat -> R -> R.
  Variable find : sx -> list window.

  Notation seval := (seval atom).
  Notation fixp := (fixp find).

  Lemma strip_fold : forall ws e, strip (fold_left SPw ws e) = strip e.
  Proof. induction ws as [|w ws IH]; intros e; [reflexivity|]. cbn [fold_left]. rewrite IH. reflexivity. Qed.

  Lemma map_strip_wrap : forall l, Forall (fun a => strip (wrap (fixp a)) = strip a) l ->
    map strip (map wrap (map fixp l)) = map strip l.
  Proof.
    induction 1 as [|a l Ha Hl IH]; [reflexivity|]. cbn [map]. rewrite Ha, IH. reflexivity.
  Qed.

  (* the repaired expression is the original one with Piecewise nodes inserted, nothing else is rebuilt *)
  Lemma strip_fixp : forall e, strip (wrap (fixp e)) = strip e.
  Proof.
    induction e as [i b|l IH|l IH|a IH|a w IH] using sx_ind'.
    - cbn. destruct (negb b); reflexivity.
    - cbn [Singularity.fixp]. destruct (negb (has_exp (SAdd l))); [reflexivity|].
      destruct (merged (map fixp l)) as [w|]; [reflexivity|].
      cbn [wrap strip]. rewrite map_strip_wrap by exact IH. reflexivity.
    - cbn [Singularity.fixp]. destruct (negb (has_exp (SMul l))); [reflexivity|].
      destruct (find (SMul l)) as [|w [|w' rest]].
      + cbn [wrap strip]. rewrite map_strip_wrap by exact IH. reflexivity.
      + reflexivity.
      + cbn [wrap]. cbn [strip]. rewrite strip_fold. reflexivity.
    - cbn [Singularity.fixp]. destruct (negb (has_exp (SInv a))); [reflexivity|].
      cbn [wrap strip]. rewrite IH. reflexivity.
    - cbn [Singularity.fixp]. destruct (negb (has_exp (SPw a w))); reflexivity.
  Qed.

  Lemma strip_id : forall e, windows e = [] -> strip e = e.
  Proof.
    induction e as [i b|l IH|l IH|a IH|a w IH] using sx_ind'; intros Hw; cbn [strip].
    - reflexivity.
    - f_equal. cbn [windows] in Hw. induction IH as [|a l Ha Hl IHl]; [reflexivity|].
      cbn [flat_map] in Hw. apply app_eq_nil in Hw. destruct Hw as [H1 H2].
      cbn [map]. rewrite Ha, IHl; auto.
    - f_equal. cbn [windows] in Hw. induction IH as [|a l Ha Hl IHl]; [reflexivity|].
      cbn [flat_map] in Hw. apply app_eq_nil in Hw. destruct Hw as [H1 H2].
      cbn [map]. rewrite Ha, IHl; auto.
    - rewrite IH; auto.
    - discriminate.
  Qed.

  (* outside every inserted window an expression has the value of its Piecewise-free original *)
  Lemma eval_outside : forall e V, (forall w, In w (windows e) -> outside w V) -> seval e V = seval (strip e) V.
  Proof.
    induction e as [i b|l IH|l IH|a IH|a w IH] using sx_ind'; intros V Hw.
    - reflexivity.
    - cbn [Singularity.seval strip windows] in *. induction IH as [|a l Ha Hl IHl]; [reflexivity|].
      cbn [fold_right map]. rewrite Ha, IHl; [reflexivity| |].
      + intros w Hin. apply Hw. cbn [flat_map]. apply in_or_app. right. exact Hin.
      + intros w Hin. apply Hw. cbn [flat_map]. apply in_or_app. left. exact Hin.
    - cbn [Singularity.seval strip windows] in *. induction IH as [|a l Ha Hl IHl]; [reflexivity|].
      cbn [fold_right map]. rewrite Ha, IHl; [reflexivity| |].
      + intros w Hin. apply Hw. cbn [flat_map]. apply in_or_app. right. exact Hin.
      + intros w Hin. apply Hw. cbn [flat_map]. apply in_or_app. left. exact Hin.
    - cbn [Singularity.seval strip windows] in *. rewrite IH by exact Hw. reflexivity.
    - cbn [Singularity.seval strip windows] in *.
      rewrite outside_window_unchanged by (apply (Hw w); left; reflexivity).
      apply IH. intros w' Hin. apply Hw. right. exact Hin.
  Qed.

  Lemma fix_outside_unchanged : forall e V, windows e = [] ->
    (forall w, In w (windows (snd (remove_singularities find e))) -> outside w V) ->
    seval (snd (remove_singularities find e)) V = seval e V.
  Proof.
    intros e V He Hw. unfold remove_singularities in *.
    destruct (negb (has_exp e)); [reflexivity|]. cbn [snd] in *.
    rewrite eval_outside by exact Hw. rewrite strip_fixp, strip_id by exact He. reflexivity.
  Qed.

  (* ---- no pattern found anywhere: nothing changes, and the "changed" flag is false *)
  Hypothesis no_pattern : forall e, find e = [].

  Definition unchanged (a : sx) : part := (None, a, false).

  Lemma map_fixp_unchanged : forall l, Forall (fun a => fixp a = unchanged a) l -> map fixp l = map unchanged l.
  Proof. induction 1 as [|a l Ha Hl IH]; [reflexivity|]. cbn [map]. rewrite Ha, IH. reflexivity. Qed.

  Lemma merged_unchanged : forall l, merged (map unchanged l) = None.
  Proof. intros [|a l]; reflexivity. Qed.

  Lemma wrap_unchanged : forall l, map wrap (map unchanged l) = l.
  Proof. induction l as [|a l IH]; [reflexivity|]. cbn [map]. rewrite IH. reflexivity. Qed.

  Lemma flag_unchanged : forall l, existsb flag (map unchanged l) = false.
  Proof. induction l as [|a l IH]; [reflexivity|]. cbn [map existsb]. rewrite IH. reflexivity. Qed.

  Lemma no_pattern_fixp : forall e, fixp e = unchanged e.
  Proof.
    induction e as [i b|l IH|l IH|a IH|a w IH] using sx_ind'.
    - cbn. destruct (negb b); reflexivity.
    - cbn [Singularity.fixp]. destruct (negb (has_exp (SAdd l))); [reflexivity|].
      rewrite (map_fixp_unchanged l IH), merged_unchanged, wrap_unchanged, flag_unchanged. reflexivity.
    - cbn [Singularity.fixp]. destruct (negb (has_exp (SMul l))); [reflexivity|].
      rewrite no_pattern, (map_fixp_unchanged l IH), wrap_unchanged, flag_unchanged. reflexivity.
    - cbn [Singularity.fixp]. destruct (negb (has_exp (SInv a))); [reflexivity|].
      rewrite IH. reflexivity.
    - cbn [Singularity.fixp]. destruct (negb (has_exp (SPw a w))); reflexivity.
  Qed.

  Lemma no_pattern_no_change : forall e, remove_singularities find e = (false, e).
  Proof.
    intros e. unfold remove_singularities. destruct (negb (has_exp e)); [reflexivity|].
    rewrite no_pattern_fixp. reflexivity.
  Qed.
End FixP.

(* ------------------------------------------------------------------------------------------------
   remove_fixable_singularities *)
Section Loop.
  Variable find : sx -> list window.
  Variable excluded : nat -> bool.
  Variable inline : list (nat * sx) -> sx -> sx.

  Notation rfs := (rfs find excluded inline).

  Lemma defined_variables_unchanged : forall eqs u, map fst (rfs u eqs) = map fst eqs.
  Proof.
    induction eqs as [|[v rhs] r IH]; intros u; [reflexivity|]. cbn [Singularity.rfs].
    destruct (is_pw rhs || excluded v); [cbn [map fst]; rewrite IH; reflexivity|].
    destruct (fst (remove_singularities find (inline u rhs))); cbn [map fst]; rewrite IH; reflexivity.
  Qed.

  Lemma excluded_untouched : forall eqs u i v rhs,
    nth_error eqs i = Some (v, rhs) -> is_pw rhs || excluded v = true ->
    nth_error (rfs u eqs) i = Some (v, rhs).
  Proof.
    induction eqs as [|[v0 rhs0] r IH]; intros u i v rhs Hn Hx; [destruct i; discriminate|].
    cbn [Singularity.rfs]. destruct i as [|i]; cbn [nth_error] in *.
    - injection Hn as -> ->. rewrite Hx. reflexivity.
    - destruct (is_pw rhs0 || excluded v0); [apply IH; assumption|].
      destruct (fst (remove_singularities find (inline u rhs0))); cbn [nth_error]; apply IH; assumption.
  Qed.

  (* every equation keeps its place; it is either the very same equation or its repaired partial evaluation *)
  Lemma each_equation_same_or_repaired : forall eqs u i v rhs,
    nth_error eqs i = Some (v, rhs) ->
    nth_error (rfs u eqs) i = Some (v, rhs) \/
    exists u', nth_error (rfs u eqs) i = Some (v, snd (remove_singularities find (inline u' rhs)))
               /\ fst (remove_singularities find (inline u' rhs)) = true.
  Proof.
    induction eqs as [|[v0 rhs0] r IH]; intros u i v rhs Hn; [destruct i; discriminate|].
    cbn [Singularity.rfs]. destruct i as [|i]; cbn [nth_error] in *.
    - injection Hn as -> ->. destruct (is_pw rhs || excluded v); [left; reflexivity|].
      destruct (fst (remove_singularities find (inline u rhs))) eqn:Hc; [right; exists u; auto|left; reflexivity].
    - destruct (is_pw rhs0 || excluded v0); [apply IH; assumption|].
      destruct (fst (remove_singularities find (inline u rhs0))); cbn [nth_error]; apply IH; assumption.
  Qed.

  Lemma no_pattern_model_unchanged : (forall e, find e = []) -> forall eqs u, rfs u eqs = eqs.
  Proof.
    intros Hnp. induction eqs as [|[v rhs] r IH]; intros u; [reflexivity|]. cbn [Singularity.rfs].
    destruct (is_pw rhs || excluded v); [rewrite IH; reflexivity|].
    rewrite (no_pattern_no_change find Hnp). cbn [fst]. rewrite IH. reflexivity.
  Qed.
End Loop.

(* the hypotheses are satisfiable: (V+5)/(exp(V+5)-1), a = 1, c = 5 *)
Example window_example :
  lo_of (-5 + delta) (-5 - delta) <= -5 <= hi_of (-5 + delta) (-5 - delta).
Proof. apply (window_contains_sp 1 5 delta); unfold delta; try lra. Qed.
