(* C09: get_equations_for returns a complete, minimal, duplicate-free list in evaluable order.
   Lemmas about lex_topo / ancestors / equations_for / number_graph of Model/ModelSM.v. *)
From Coq Require Import List ZArith QArith Bool Lia Arith.
From Verif Require Import Sexp ModelSM.
Import ListNotations.

Lemma ref_eqb_spec a b : reflect (a = b) (ref_eqb a b).
Proof.
  destruct a as [x|x s], b as [y|y t]; cbn [ref_eqb]; try (constructor; congruence).
  - destruct (Nat.eqb_spec x y); constructor; congruence.
  - destruct (Nat.eqb_spec x y), (Nat.eqb_spec s t); cbn; constructor; congruence.
Qed.

Lemma mem_ref_spec r l : mem_ref r l = true <-> In r l.
Proof.
  unfold mem_ref. rewrite existsb_exists. split.
  - intros [x [Hin Hx]]. destruct (ref_eqb_spec r x); [subst; exact Hin|discriminate].
  - intros Hin. exists r. split; [exact Hin|]. destruct (ref_eqb_spec r r); congruence.
Qed.

Lemma mem_ref_false r l : mem_ref r l = false <-> ~ In r l.
Proof.
  rewrite <- mem_ref_spec. destruct (mem_ref r l); split; try congruence; intros H; exfalso; apply H; reflexivity.
Qed.

Lemma in_preds g a b : In a (preds g b) <-> In (a, b) (edges g).
Proof.
  unfold preds. rewrite in_map_iff. split.
  - intros [[x y] [E Hin]]. cbn in E. subst x. apply filter_In in Hin as [Hin Hf]. cbn in Hf.
    destruct (ref_eqb_spec y b); [subst; exact Hin|discriminate].
  - intros Hin. exists (a, b). split; [reflexivity|]. apply filter_In. split; [exact Hin|].
    cbn. destruct (ref_eqb_spec b b); congruence.
Qed.

(* ---- topological order ------------------------------------------------------------------------- *)
Definition node_refs (g : graph) : list ref := map n_ref (nodes g).

Inductive topo (g : graph) : list ref -> Prop :=
| topo_nil : topo g []
| topo_snoc L r : topo g L -> ~ In r L -> (forall p, In p (preds g r) -> In p L) -> In r (node_refs g) ->
                  topo g (L ++ [r]).

Lemma least_in s cands best r : least s cands best = Some r -> In r cands \/ best = Some r.
Proof.
  revert best. induction cands as [|c cs IH]; cbn [least]; intros best H; [right; exact H|].
  destruct best as [b|].
  - destruct (str_ltb (node_key s c) (node_key s b)).
    + destruct (IH _ H) as [Hin|E]; [left; right; exact Hin|injection E as <-; left; left; reflexivity].
    + destruct (IH _ H) as [Hin|E]; [left; right; exact Hin|right; exact E].
  - destruct (IH _ H) as [Hin|E]; [left; right; exact Hin|injection E as <-; left; left; reflexivity].
Qed.

Lemma lex_topo_topo fuel s g : forall done, topo g done -> topo g (lex_topo fuel s g done).
Proof.
  induction fuel as [|f IH]; intros done Ht; cbn [lex_topo]; [exact Ht|].
  fold (node_refs g). destruct (least s (filter (ready g done) (node_refs g)) None) as [r|] eqn:Hl; [|exact Ht].
  apply IH. destruct (least_in _ _ _ _ Hl) as [Hin|E]; [|discriminate].
  apply filter_In in Hin as [Hn Hr]. unfold ready in Hr. apply andb_true_iff in Hr as [H1 H2].
  apply negb_true_iff, mem_ref_false in H1. rewrite forallb_forall in H2.
  constructor; try assumption. intros p Hp. apply mem_ref_spec. apply H2. exact Hp.
Qed.

Lemma topo_nodup g L : topo g L -> NoDup L.
Proof.
  induction 1 as [|L r Ht IH Hnin _ _]; [constructor|].
  apply NoDup_Add with (a := r) (l := L).
  - rewrite <- (app_nil_r L) at 1. apply Add_app.
  - split; assumption.
Qed.

Lemma topo_incl g L : topo g L -> incl L (node_refs g).
Proof.
  induction 1 as [|L r Ht IH _ _ Hin]; intros x Hx; [contradiction|].
  apply in_app_or in Hx as [Hx|[<-|[]]]; [apply IH; exact Hx|exact Hin].
Qed.

Lemma app_snoc_split {X} (l1 l2 L : list X) r x : l1 ++ r :: l2 = L ++ [x] ->
  (l2 = [] /\ l1 = L /\ r = x) \/ (exists l2', l2 = l2' ++ [x] /\ L = l1 ++ r :: l2').
Proof.
  revert L. induction l1 as [|a l1 IH]; intros L H; cbn [app] in H.
  - destruct L as [|b L]; cbn [app] in H.
    + injection H as -> ->. left. repeat split.
    + injection H as -> H. right. exists L. split; [exact H|reflexivity].
  - destruct L as [|b L]; cbn [app] in H.
    + injection H as _ H. destruct l1; discriminate.
    + injection H as -> H. destruct (IH L H) as [[A [B C]]|[l2' [A B]]].
      * left. subst. repeat split.
      * right. exists l2'. split; [exact A|]. subst. reflexivity.
Qed.

(* in a topological list every predecessor of an element sits strictly before it *)
Lemma topo_preds_before g L : topo g L -> forall l1 r l2, L = l1 ++ r :: l2 ->
  forall p, In p (preds g r) -> In p l1.
Proof.
  induction 1 as [|L x Ht IH Hnin Hp Hin]; intros l1 r l2 E p Hpr.
  - destruct l1; discriminate.
  - symmetry in E. destruct (app_snoc_split l1 l2 L r x E) as [[A [B C]]|[l2' [A B]]].
    + subst. apply Hp. exact Hpr.
    + apply (IH l1 r l2' B p Hpr).
Qed.

(* ---- breadth-first ancestors ---------------------------------------------------------------------- *)
Lemma add_new_spec seen cands : exists news,
  add_new seen cands = seen ++ news /\ (forall x, In x news -> In x cands /\ ~ In x seen) /\
  (forall x, In x cands -> In x (seen ++ news)).
Proof.
  unfold add_new. revert seen. induction cands as [|c cs IH]; intros seen; cbn [fold_left].
  - exists []. rewrite app_nil_r. split; [reflexivity|]. split; [intros x []|intros x []].
  - destruct (mem_ref c seen) eqn:Hm.
    + destruct (IH seen) as [news [E [H1 H2]]]. exists news. split; [exact E|]. split.
      * intros x Hx. destruct (H1 x Hx) as [A B]. split; [right; exact A|exact B].
      * intros x [<-|Hx]; [apply in_or_app; left; apply mem_ref_spec; exact Hm|apply H2; exact Hx].
    + destruct (IH (seen ++ [c])) as [news [E [H1 H2]]]. exists (c :: news). rewrite E, <- app_assoc. cbn [app].
      split; [reflexivity|]. split.
      * intros x [<-|Hx]; [split; [left; reflexivity|apply mem_ref_false; exact Hm]|].
        destruct (H1 x Hx) as [A B]. split; [right; exact A|]. intro Hs. apply B. apply in_or_app. left. exact Hs.
      * intros x [<-|Hx]; [apply in_or_app; right; left; reflexivity|].
        specialize (H2 x Hx). rewrite <- app_assoc in H2. cbn [app] in H2. exact H2.
Qed.

Definition closed_in (g : graph) (SS : list ref) (x : ref) : Prop := forall p, In p (preds g x) -> In p SS.

Lemma ancestors_fuel_spec fuel g : forall frontier seen SS,
  (forall x, In x seen -> In x frontier \/ closed_in g seen x) ->
  ancestors_fuel fuel g frontier seen = Some SS ->
  incl seen SS /\ (forall x, In x frontier -> closed_in g SS x) /\ (forall x, In x SS -> closed_in g SS x).
Proof.
  induction fuel as [|f IH]; intros frontier seen SS Hinv H; cbn [ancestors_fuel] in H; [discriminate|].
  destruct (add_new_spec seen (flat_map (preds g) frontier)) as [news [E [Hn1 Hn2]]].
  rewrite E in H. rewrite app_length in H.
  destruct (Nat.eqb_spec (length seen + length news) (length seen)) as [Hlen|Hlen].
  - injection H as <-. assert (news = []) by (destruct news; [reflexivity|cbn in Hlen; lia]). subst news.
    rewrite app_nil_r in Hn2.
    assert (Hfr : forall x, In x frontier -> closed_in g seen x).
    { intros x Hx p Hp. apply Hn2. apply in_flat_map. exists x. split; assumption. }
    split; [intros x Hx; exact Hx|]. split; [exact Hfr|].
    intros x Hx. destruct (Hinv x Hx) as [Hf|Hc]; [apply Hfr; exact Hf|exact Hc].
  - rewrite skipn_app, skipn_all, Nat.sub_diag in H. cbn [skipn app] in H.
    destruct (IH news (seen ++ news) SS) as [A [B C]]; [|exact H|].
    + intros x Hx. apply in_app_or in Hx as [Hx|Hx]; [|left; exact Hx].
      right. destruct (Hinv x Hx) as [Hf|Hc].
      * intros p Hp. apply Hn2. apply in_flat_map. exists x. split; assumption.
      * intros p Hp. apply in_or_app. left. apply Hc. exact Hp.
    + split; [intros x Hx; apply A; apply in_or_app; left; exact Hx|]. split; [|exact C].
      intros x Hx p Hp. apply A. apply Hn2. apply in_flat_map. exists x. split; assumption.
Qed.

(* the result of [ancestors] contains the direct predecessors and is closed under predecessors *)
Lemma ancestors_closed g r SS : ancestors g r = Some SS ->
  closed_in g SS r /\ (forall x, In x SS -> closed_in g SS x).
Proof.
  unfold ancestors. intros H.
  destruct (ancestors_fuel_spec (S (S (length (nodes g)))) g [r] [] SS) as [_ [B C]]; [intros x []|exact H|].
  split; [apply B; left; reflexivity|exact C].
Qed.

(* soundness: every member is reached from r by walking edges backwards *)
Inductive reaches (g : graph) : ref -> ref -> Prop :=
| reach_edge a b : In (a, b) (edges g) -> reaches g a b
| reach_step a b c : In (a, b) (edges g) -> reaches g b c -> reaches g a c.

Lemma ancestors_fuel_sound fuel g r : forall frontier seen SS,
  (forall x, In x frontier -> x = r \/ reaches g x r) -> (forall x, In x seen -> reaches g x r) ->
  ancestors_fuel fuel g frontier seen = Some SS -> forall x, In x SS -> reaches g x r.
Proof.
  induction fuel as [|f IH]; intros frontier seen SS Hf Hs H; cbn [ancestors_fuel] in H; [discriminate|].
  destruct (add_new_spec seen (flat_map (preds g) frontier)) as [news [E [Hn1 Hn2]]].
  rewrite E in H. rewrite app_length in H.
  assert (Hnews : forall x, In x news -> reaches g x r).
  { intros x Hx. destruct (Hn1 x Hx) as [Hc _]. apply in_flat_map in Hc as [y [Hy Hp]].
    apply in_preds in Hp. destruct (Hf y Hy) as [->|Hr]; [apply reach_edge; exact Hp|].
    apply (reach_step g x y r); assumption. }
  destruct (Nat.eqb (length seen + length news) (length seen)).
  - injection H as <-. exact Hs.
  - rewrite skipn_app, skipn_all, Nat.sub_diag in H. cbn [skipn app] in H.
    apply (IH news (seen ++ news) SS); [|  |exact H].
    + intros x Hx. right. apply Hnews. exact Hx.
    + intros x Hx. apply in_app_or in Hx as [Hx|Hx]; [apply Hs; exact Hx|apply Hnews; exact Hx].
Qed.

Lemma ancestors_sound g r SS : ancestors g r = Some SS -> forall x, In x SS -> reaches g x r.
Proof.
  unfold ancestors. intros H. apply (ancestors_fuel_sound (S (S (length (nodes g)))) g r [r] [] SS); [|intros x []|exact H].
  intros x [<-|[]]. left. reflexivity.
Qed.

Lemma ancestors_complete g r SS : ancestors g r = Some SS -> forall x, reaches g x r -> In x SS.
Proof.
  intros H x Hr. destruct (ancestors_closed g r SS H) as [Hc0 Hc]. clear H.
  induction Hr as [a b He|a b c He Hr IH].
  - apply Hc0. apply in_preds. exact He.
  - specialize (IH Hc0). apply (Hc b IH). apply in_preds. exact He.
Qed.

Lemma all_ancestors_spec g req SS : all_ancestors g req = Some SS ->
  forall x, In x SS <-> exists r, In r req /\ reaches g x r.
Proof.
  revert SS. induction req as [|r t IH]; cbn [all_ancestors]; intros SS H x.
  - injection H as <-. split; [intros []|intros [r [[] _]]].
  - destruct (ancestors g r) as [a|] eqn:Ha; [|discriminate].
    destruct (all_ancestors g t) as [b|] eqn:Hb; [|discriminate]. injection H as <-.
    rewrite in_app_iff, (IH b eq_refl). split.
    + intros [Hx|[r' [Hr' Hx]]]; [exists r; split; [left; reflexivity|apply (ancestors_sound g r a Ha); exact Hx]|].
      exists r'. split; [right; exact Hr'|exact Hx].
    + intros [r' [[<-|Hr'] Hx]]; [left; apply (ancestors_complete g r a Ha); exact Hx|right; exists r'; split; assumption].
Qed.

(* ---- the returned list ---------------------------------------------------------------------------------- *)
(* well-formedness of a graph as built by build_graph: a node's equation has that node as left-hand side *)
Definition eq_owner (pool : list eqrec) (g : graph) : Prop :=
  forall n e, In n (nodes g) -> n_eq n = Some e -> lhs_ref (eq_lhs pool e) = Some (n_ref n).

Definition nodes_unique (g : graph) : Prop := NoDup (node_refs g).

Lemma node_eq_some g r x : node_eq g r = Some x ->
  exists n, In n (nodes g) /\ n_ref n = r /\ n_eq n = Some (fst x) /\ n_sub n = snd x.
Proof.
  unfold node_eq. destruct (find _ (nodes g)) as [n|] eqn:Hf; [|discriminate].
  apply find_some in Hf as [Hin Hr]. destruct (ref_eqb_spec (n_ref n) r) as [Er|]; [|discriminate].
  destruct (n_eq n) as [e0|] eqn:He; [|discriminate]. intros [= <-]. exists n. cbn [fst snd].
  repeat split; try assumption; reflexivity.
Qed.

Lemma node_eq_inj pool g r r' x y : eq_owner pool g ->
  node_eq g r = Some x -> node_eq g r' = Some y -> fst x = fst y -> r = r'.
Proof.
  intros Ho Hx Hy E.
  destruct (node_eq_some g r x Hx) as [n [A [B [C _]]]].
  destruct (node_eq_some g r' y Hy) as [n' [A' [B' [C' _]]]].
  pose proof (Ho n _ A C) as H1. pose proof (Ho n' _ A' C') as H2. rewrite E in H1. congruence.
Qed.

Section Out.
  Variable g : graph.
  Variable required : list ref.
  Definition pick (r : ref) : list (eid * bool) :=
    if mem_ref r required then match node_eq g r with Some x => [x] | None => [] end else [].

  Lemma pick_length r : (length (pick r) <= 1)%nat.
  Proof. unfold pick. destruct (mem_ref r required); [destruct (node_eq g r)|]; cbn; lia. Qed.

  Lemma in_pick r x : In x (pick r) <-> In r required /\ node_eq g r = Some x.
  Proof.
    unfold pick. destruct (mem_ref r required) eqn:Hm.
    - apply mem_ref_spec in Hm. destruct (node_eq g r) as [y|]; cbn [In].
      + split; [intros [<-|[]]; split; [exact Hm|reflexivity]|intros [_ [= <-]]; left; reflexivity].
      + split; [intros []|intros [_ H]; discriminate].
    - apply mem_ref_false in Hm. split; [intros []|intros [H _]; contradiction].
  Qed.

  Lemma flat_map_split (L : list ref) o1 x o2 : flat_map pick L = o1 ++ x :: o2 ->
    exists l1 r l2, L = l1 ++ r :: l2 /\ pick r = [x] /\ flat_map pick l1 = o1 /\ flat_map pick l2 = o2.
  Proof.
    revert o1. induction L as [|a L IH]; intros o1 H; cbn [flat_map] in H; [destruct o1; discriminate|].
    pose proof (pick_length a) as Hl. destruct (pick a) as [|y [|z t]] eqn:Hp; cbn [length] in Hl; [| |lia].
    - cbn [app] in H. destruct (IH o1 H) as [l1 [r [l2 [A [B [C D]]]]]].
      exists (a :: l1), r, l2. subst. cbn [app flat_map]. rewrite Hp. repeat split; try assumption; reflexivity.
    - cbn [app] in H. destruct o1 as [|w o1]; cbn [app] in H.
      + injection H as -> H. exists [], a, L. repeat split; try assumption; reflexivity.
      + injection H as -> H. destruct (IH o1 H) as [l1 [r [l2 [A [B [C D]]]]]].
        exists (a :: l1), r, l2. subst. cbn [app flat_map]. rewrite Hp. repeat split; try assumption; reflexivity.
  Qed.

  Lemma nodup_flat_map pool (L : list ref) : eq_owner pool g -> NoDup L -> NoDup (map fst (flat_map pick L)).
  Proof.
    intros Ho. induction L as [|a L IH]; intros Hnd; cbn [flat_map map]; [constructor|].
    inversion Hnd as [|? ? Hnotin Hnd']; subst. rewrite map_app.
    pose proof (pick_length a) as Hl. destruct (pick a) as [|y [|z t]] eqn:Hp; cbn [length] in Hl; [| |lia].
    - cbn [map app]. apply IH. exact Hnd'.
    - cbn [map app]. constructor; [|apply IH; exact Hnd'].
      intro Hin. apply in_map_iff in Hin as [y' [E Hin]]. apply in_flat_map in Hin as [b [Hb Hy']].
      apply in_pick in Hy' as [_ Hy']. assert (Ha : In y (pick a)) by (rewrite Hp; left; reflexivity).
      apply in_pick in Ha as [_ Ha]. pose proof (node_eq_inj pool g b a y' y Ho Hy' Ha E). subst b. contradiction.
  Qed.
End Out.

Section WithState.
Variable pool : list eqrec.
Variable s : mstate.
Variable g : graph.

Definition before {X} (L : list X) (a b : X) : Prop := exists l1 l2 l3, L = l1 ++ a :: l2 ++ b :: l3.

Lemma equations_for_ok req recurse out : equations_for s g req recurse = MOk out ->
  exists required order,
    required_nodes g req recurse = Some required /\ order = lex_topo (length (nodes g)) s g [] /\
    length order = length (nodes g) /\ out = flat_map (pick g required) order.
Proof.
  unfold equations_for. destruct (negb (forallb _ req)); [discriminate|].
  destruct (required_nodes g req recurse) as [required|]; [|discriminate].
  destruct (Nat.eqb_spec (length (lex_topo (length (nodes g)) s g [])) (length (nodes g))) as [E|E]; cbn [negb]; [|discriminate].
  intros [= <-]. exists required, (lex_topo (length (nodes g)) s g []). repeat split; try reflexivity; exact E.
Qed.

Lemma order_topo : topo g (lex_topo (length (nodes g)) s g []).
Proof. apply lex_topo_topo. constructor. Qed.

(* a complete order lists every node *)
Lemma order_complete order : nodes_unique g -> topo g order -> length order = length (nodes g) ->
  forall r, In r (node_refs g) -> In r order.
Proof.
  intros Hu Ht Hl. apply NoDup_length_incl.
  - apply (topo_nodup g). exact Ht.
  - unfold node_refs. rewrite map_length. lia.
  - apply (topo_incl g). exact Ht.
Qed.

(* (1) no equation twice *)
Theorem out_no_duplicates req recurse out : eq_owner pool g ->
  equations_for s g req recurse = MOk out -> NoDup (map fst out).
Proof.
  intros Ho H. destruct (equations_for_ok req recurse out H) as [required [order [_ [Eo [_ ->]]]]].
  apply (nodup_flat_map g required pool); [exact Ho|]. subst order. apply (topo_nodup g). apply order_topo.
Qed.

(* (2) exactly the requested nodes and their ancestors (recurse) / direct predecessors, where they have an equation *)
Theorem out_exact_set req recurse out : nodes_unique g ->
  equations_for s g req recurse = MOk out ->
  forall x, In x out <->
    exists r, node_eq g r = Some x /\
      (In r req \/ (if recurse then exists q, In q req /\ reaches g r q else exists q, In q req /\ In (r, q) (edges g))).
Proof.
  intros Hu H x. destruct (equations_for_ok req recurse out H) as [required [order [Hreq [Eo [Hl ->]]]]].
  assert (Hmem : forall r, In r required <->
            (In r req \/ (if recurse then exists q, In q req /\ reaches g r q else exists q, In q req /\ In (r, q) (edges g)))).
  { intros r. unfold required_nodes in Hreq. destruct recurse.
    - destruct (all_ancestors g req) as [anc|] eqn:Ha; [|discriminate]. injection Hreq as <-.
      rewrite in_app_iff, (all_ancestors_spec g req anc Ha). reflexivity.
    - injection Hreq as <-. rewrite in_app_iff, in_flat_map. split.
      + intros [A|[q [B C]]]; [left; exact A|right; exists q; split; [exact B|apply in_preds; exact C]].
      + intros [A|[q [B C]]]; [left; exact A|right; exists q; split; [exact B|apply in_preds; exact C]]. }
  rewrite in_flat_map. split.
  - intros [r [Hr Hp]]. apply in_pick in Hp as [A B]. exists r. split; [exact B|apply Hmem; exact A].
  - intros [r [Hx Hr]]. exists r. split.
    + subst order. apply (order_complete _ Hu order_topo Hl).
      destruct (node_eq_some g r x Hx) as [n [A [B _]]]. unfold node_refs. rewrite <- B. apply in_map. exact A.
    + apply in_pick. split; [apply Hmem; exact Hr|exact Hx].
Qed.

(* (3) evaluable order: every predecessor of an emitted equation's node either has no equation (a state or the free
   variable) or its equation was emitted EARLIER *)
Theorem out_evaluable_order req out : eq_owner pool g ->
  equations_for s g req true = MOk out ->
  forall o1 x o2, out = o1 ++ x :: o2 -> forall r, node_eq g r = Some x ->
  forall p, In (p, r) (edges g) ->
    match node_eq g p with Some y => In y o1 | None => True end.
Proof.
  intros Ho H o1 x o2 E r Hx p He.
  destruct (equations_for_ok req true out H) as [required [order [Hreq [Eo [Hl Hout]]]]].
  rewrite Hout in E. destruct (flat_map_split g required order o1 x o2 E) as [l1 [r' [l2 [A [B [C D]]]]]].
  assert (Hr' : In x (pick g required r')) by (rewrite B; left; reflexivity).
  apply in_pick in Hr' as [Hreq' Hx']. assert (r' = r) by (apply (node_eq_inj pool g r' r x x Ho Hx' Hx eq_refl)). subst r'.
  destruct (node_eq g p) as [y|] eqn:Hy; [|exact I].
  (* p is before r in the order *)
  assert (Hp1 : In p l1).
  { assert (Ht : topo g order) by (subst order; apply order_topo).
    apply (topo_preds_before g order Ht l1 r l2 A). apply in_preds. exact He. }
  (* p is required: the required set is closed under predecessors *)
  assert (Hpreq : In p required).
  { unfold required_nodes in Hreq. destruct (all_ancestors g req) as [anc|] eqn:Ha; [|discriminate]. injection Hreq as <-.
    apply in_or_app. right. apply (all_ancestors_spec g req anc Ha).
    apply in_app_or in Hreq' as [Hq|Hq].
    - exists r. split; [exact Hq|apply reach_edge; exact He].
    - apply (all_ancestors_spec g req anc Ha) in Hq as [q [Hq1 Hq2]]. exists q. split; [exact Hq1|].
      apply (reach_step g p r q); assumption. }
  rewrite <- C. apply in_flat_map. exists p. split; [exact Hp1|]. apply in_pick. split; assumption.
Qed.

(* (4) a returned list means the graph is acyclic: every edge points forward in the order *)
Lemma topo_edge_before order a b : topo g order -> In b order -> In (a, b) (edges g) -> before order a b.
Proof.
  intros Ht Hb He. apply in_split in Hb as [l1 [l3 E]].
  pose proof (topo_preds_before g order Ht l1 b l3 E a (proj2 (in_preds g a b) He)) as Ha.
  apply in_split in Ha as [l0 [l2 E']]. exists l0, l2, l3. subst. rewrite <- app_assoc. reflexivity.
Qed.

Lemma nodup_split_unique {X} (p : list X) : forall q l3 m3 b,
  NoDup (p ++ b :: l3) -> p ++ b :: l3 = q ++ b :: m3 -> p = q.
Proof.
  induction p as [|x p IH]; intros q l3 m3 b Hnd E; cbn [app] in *.
  - destruct q as [|y q]; [reflexivity|]. cbn [app] in E. injection E as Ey E. subst y.
    exfalso. apply NoDup_cons_iff in Hnd as [Hn _]. apply Hn. rewrite E. apply in_or_app. right. left. reflexivity.
  - destruct q as [|y q]; cbn [app] in E.
    + injection E as Ex E. subst x. exfalso. apply NoDup_cons_iff in Hnd as [Hn _]. apply Hn.
      apply in_or_app. right. left. reflexivity.
    + injection E as Ex E. subst y. f_equal. apply NoDup_cons_iff in Hnd as [_ Hnd]. apply (IH q l3 m3 b Hnd E).
Qed.

Lemma before_trans {X} (L : list X) a b c : NoDup L -> before L a b -> before L b c -> before L a c.
Proof.
  intros Hnd [l1 [l2 [l3 E1]]] [m1 [m2 [m3 E2]]].
  assert (Hb : l1 ++ a :: l2 = m1).
  { apply (nodup_split_unique (l1 ++ a :: l2) m1 l3 (m2 ++ c :: m3) b).
    - rewrite <- app_assoc. cbn [app]. rewrite <- E1. exact Hnd.
    - rewrite <- app_assoc. cbn [app]. rewrite <- E1. exact E2. }
  subst m1. exists l1, (l2 ++ b :: m2), m3. rewrite E2. rewrite <- !app_assoc. cbn [app]. rewrite <- ?app_assoc. reflexivity.
Qed.

Lemma before_irrefl {X} (L : list X) a : NoDup L -> ~ before L a a.
Proof.
  intros Hnd [l1 [l2 [l3 E]]]. rewrite E in Hnd. apply NoDup_remove_2 in Hnd. apply Hnd.
  apply in_or_app. right. apply in_or_app. right. left. reflexivity.
Qed.

Theorem out_means_acyclic req recurse out : nodes_unique g ->
  (forall a b, In (a, b) (edges g) -> In b (node_refs g)) ->
  equations_for s g req recurse = MOk out -> forall a, ~ reaches g a a.
Proof.
  intros Hu Hedges H a Hcyc. destruct (equations_for_ok req recurse out H) as [required [order [_ [Eo [Hl _]]]]].
  assert (Ht : topo g order) by (subst order; apply order_topo).
  assert (Hall : forall x y, reaches g x y -> before order x y).
  { intros x y Hr. induction Hr as [x y He|x y z He Hr IH].
    - apply (topo_edge_before order x y Ht); [|exact He]. apply (order_complete order Hu Ht Hl). apply (Hedges x y He).
    - apply (before_trans order x y z (topo_nodup g order Ht)); [|exact IH].
      apply (topo_edge_before order x y Ht); [|exact He]. apply (order_complete order Hu Ht Hl). apply (Hedges x y He). }
  apply (before_irrefl order a (topo_nodup g order Ht)). apply Hall. exact Hcyc.
Qed.

(* (5) ties are broken by the least key: no other ready node has a strictly smaller key than the emitted one *)
Lemma str_ltb_irrefl a : str_ltb a a = false.
Proof. induction a as [|x a IH]; cbn [str_ltb]; [reflexivity|]. rewrite Z.ltb_irrefl. exact IH. Qed.

Lemma str_ltb_trans a : forall b c, str_ltb a b = true -> str_ltb b c = true -> str_ltb a c = true.
Proof.
  induction a as [|x a IH]; intros [|y b] [|z c]; cbn [str_ltb]; try congruence.
  destruct (Z.ltb_spec x y) as [Hxy|Hxy].
  - intros _. destruct (Z.ltb_spec y z) as [Hyz|Hyz].
    + intros _. destruct (Z.ltb_spec x z); [reflexivity|lia].
    + destruct (Z.ltb_spec z y); [congruence|]. intros _. destruct (Z.ltb_spec x z); [reflexivity|lia].
  - destruct (Z.ltb_spec y x); [congruence|]. intros Hab.
    destruct (Z.ltb_spec y z) as [Hyz|Hyz].
    + intros _. destruct (Z.ltb_spec x z); [reflexivity|lia].
    + destruct (Z.ltb_spec z y); [congruence|]. intros Hbc.
      destruct (Z.ltb_spec x z); [reflexivity|]. destruct (Z.ltb_spec z x); [lia|]. apply (IH b c); assumption.
Qed.

Lemma str_ltb_total a : forall b, str_ltb a b = true \/ a = b \/ str_ltb b a = true.
Proof.
  induction a as [|x a IH]; intros [|y b]; cbn [str_ltb]; auto.
  destruct (Z.ltb_spec x y); [left; reflexivity|]. destruct (Z.ltb_spec y x); [right; right; reflexivity|].
  assert (x = y) by lia. subst y. destruct (IH b) as [H1|[->|H1]]; auto.
Qed.

(* "not less" is transitive *)
Lemma str_nlt_trans a b c : str_ltb a b = false -> str_ltb b c = false -> str_ltb a c = false.
Proof.
  intros H1 H2. destruct (str_ltb a c) eqn:H3; [|reflexivity]. exfalso.
  destruct (str_ltb_total b a) as [Hba|[->|Hab]]; [|congruence|congruence].
  pose proof (str_ltb_trans b a c Hba H3). congruence.
Qed.

Lemma str_ltb_asym a b : str_ltb a b = true -> str_ltb b a = false.
Proof.
  intros H. destruct (str_ltb b a) eqn:H'; [|reflexivity].
  pose proof (str_ltb_trans a b a H H'). rewrite str_ltb_irrefl in H0. discriminate.
Qed.

Lemma least_is_least cands : forall best r, least s cands best = Some r ->
  (forall c, In c cands -> str_ltb (node_key s c) (node_key s r) = false) /\
  (forall b, best = Some b -> str_ltb (node_key s b) (node_key s r) = false).
Proof.
  induction cands as [|c cs IH]; intros best r H; cbn [least] in H.
  - split; [intros c []|]. intros b ->. injection H as <-. apply str_ltb_irrefl.
  - destruct best as [b|].
    + destruct (str_ltb (node_key s c) (node_key s b)) eqn:Hcb.
      * destruct (IH _ _ H) as [A B]. split.
        -- intros c' [<-|Hc']; [apply B; reflexivity|apply A; exact Hc'].
        -- intros b' [= <-]. apply (str_nlt_trans _ (node_key s c)); [apply str_ltb_asym; exact Hcb|apply B; reflexivity].
      * destruct (IH _ _ H) as [A B]. split.
        -- intros c' [<-|Hc']; [apply (str_nlt_trans _ (node_key s b)); [exact Hcb|apply B; reflexivity]|apply A; exact Hc'].
        -- intros b' [= <-]. apply B. reflexivity.
    + destruct (IH _ _ H) as [A B]. split.
      * intros c' [<-|Hc']; [apply B; reflexivity|apply A; exact Hc'].
      * intros b' Hb. discriminate.
Qed.

(* each step of the sort emits a ready node with the least key *)
Theorem lex_topo_step_least fuel done r : 
  least s (filter (ready g done) (node_refs g)) None = Some r ->
  lex_topo (Datatypes.S fuel) s g done = lex_topo fuel s g (done ++ [r]) /\
  ready g done r = true /\
  forall c, In c (node_refs g) -> ready g done c = true -> str_ltb (node_key s c) (node_key s r) = false.
Proof.
  intros H. split; [cbn [lex_topo]; fold (node_refs g); rewrite H; reflexivity|].
  destruct (least_in _ _ _ _ H) as [Hin|E]; [|discriminate]. apply filter_In in Hin as [_ Hr]. split; [exact Hr|].
  intros c Hc Hrc. destruct (least_is_least _ _ _ H) as [A _]. apply A. apply filter_In. split; assumption.
Qed.

End WithState.

(* ---- the unit-stripped graph omits only dependencies that vanished ------------------------------------ *)
Section Stripped.
Variable pool : list eqrec.

Lemma strip_node_sub es n ed : In ed (strip_node pool es n) -> In ed es.
Proof.
  unfold strip_node. destruct (n_eq n) as [e|]; [|auto]. destruct (nth_error pool e) as [q|]; [|auto].
  destruct (e_hasqty q); [|auto]. intros H. apply filter_In in H as [H _]. exact H.
Qed.

Lemma strip_fold_sub ns : forall es ed, In ed (fold_left (strip_node pool) ns es) -> In ed es.
Proof.
  induction ns as [|n ns IH]; intros es ed H; cbn [fold_left] in H; [exact H|].
  apply (strip_node_sub es n). apply IH. exact H.
Qed.

Theorem number_graph_edges_subset g ed : In ed (edges (number_graph pool g)) -> In ed (edges g).
Proof. cbn [number_graph edges]. apply strip_fold_sub. Qed.

Lemma strip_fold_removed ns : forall es ed, In ed es -> ~ In ed (fold_left (strip_node pool) ns es) ->
  exists n e q, In n ns /\ n_eq n = Some e /\ nth_error pool e = Some q /\ e_hasqty q = true /\
                snd ed = n_ref n /\ ~ In (fst ed) (e_refs_num q).
Proof.
  induction ns as [|n ns IH]; intros es ed Hin Hout; cbn [fold_left] in Hout; [contradiction|].
  destruct (in_dec (fun x y => match ref_eqb_spec (fst x) (fst y), ref_eqb_spec (snd x) (snd y) with
                               | ReflectT _ a, ReflectT _ b => left (match x, y return fst x = fst y -> snd x = snd y -> x = y with (x1, x2), (y1, y2) => fun a b => f_equal2 pair a b end a b)
                               | ReflectF _ a, _ => right (fun E => a (f_equal fst E))
                               | _, ReflectF _ b => right (fun E => b (f_equal snd E))
                               end) ed (strip_node pool es n)) as [Hs|Hs].
  - destruct (IH _ ed Hs Hout) as [n' [e [q [A B]]]]. exists n', e, q. split; [right; exact A|exact B].
  - exists n. unfold strip_node in Hs. destruct (n_eq n) as [e|] eqn:He; [|contradiction].
    destruct (nth_error pool e) as [q|] eqn:Hq; [|contradiction]. destruct (e_hasqty q) eqn:Hh; [|contradiction].
    exists e, q. split; [left; reflexivity|]. repeat split; try assumption; try reflexivity.
    + destruct (ref_eqb_spec (snd ed) (n_ref n)) as [E|Hne]; [exact E|]. exfalso. apply Hs. apply filter_In. split; [exact Hin|].
      destruct (ref_eqb_spec (snd ed) (n_ref n)); [contradiction|reflexivity].
    + intro Hr. apply Hs. apply filter_In. split; [exact Hin|]. apply orb_true_iff. right.
      apply existsb_exists. exists (fst ed). split; [exact Hr|]. destruct (ref_eqb_spec (fst ed) (fst ed)); congruence.
Qed.

Theorem number_graph_omits_only_vanished g a b :
  In (a, b) (edges g) -> ~ In (a, b) (edges (number_graph pool g)) ->
  exists n e q, In n (nodes g) /\ n_ref n = b /\ n_eq n = Some e /\ nth_error pool e = Some q /\
                e_hasqty q = true /\ ~ In a (e_refs_num q).
Proof.
  intros Hin Hout. cbn [number_graph edges] in Hout.
  destruct (strip_fold_removed (nodes g) (edges g) (a, b) Hin Hout) as [n [e [q [A [B [C [D [E F]]]]]]]].
  exists n, e, q. cbn in E, F. repeat split; try assumption. symmetry. exact E.
Qed.

Theorem number_graph_same_nodes g :
  map n_ref (nodes (number_graph pool g)) = map n_ref (nodes g) /\
  map n_eq (nodes (number_graph pool g)) = map n_eq (nodes g).
Proof.
  cbn [number_graph nodes]. rewrite !map_map. split; apply map_ext; intros n.
  - destruct (n_eq n) as [e0|]; [|reflexivity]. destruct (nth_error pool e0) as [q|]; [|reflexivity].
    destruct (e_hasqty q); reflexivity.
  - destruct (n_eq n) as [e0|] eqn:He; [|exact He]. destruct (nth_error pool e0) as [q|]; [|exact He].
    destruct (e_hasqty q); [reflexivity|exact He].
Qed.
End Stripped.
