(* C16: unit stores do not leak into one another -- lemmas about the world model of Model/UStore.v *)
From Coq Require Import List ZArith QArith Bool Lia Arith.
From Verif Require Import Sexp UnitAlg UStore.
Import ListNotations.
Open Scope Z_scope.

Lemma nth_error_set_nth_same {X} (l : list X) i x y : nth_error l i = Some y -> nth_error (UStore.set_nth l i x) i = Some x.
Proof.
  revert i. induction l as [|z l IH]; intros [|i]; cbn [nth_error UStore.set_nth]; try discriminate; [reflexivity|apply IH].
Qed.
Lemma nth_error_set_nth_other {X} (l : list X) i j x : i <> j -> nth_error (UStore.set_nth l i x) j = nth_error l j.
Proof.
  revert i j. induction l as [|z l IH]; intros [|i] [|j] Hne; cbn [nth_error UStore.set_nth]; try reflexivity; try congruence.
  apply IH. congruence.
Qed.
Lemma set_nth_length {X} (l : list X) i x : length (UStore.set_nth l i x) = length l.
Proof. revert i. induction l as [|z l IH]; intros [|i]; cbn; try reflexivity. f_equal. apply IH. Qed.
Lemma in_set_nth {X} (l : list X) i x y : In y (UStore.set_nth l i x) -> y = x \/ In y l.
Proof.
  revert i. induction l as [|z l IH]; intros [|i]; cbn [UStore.set_nth In]; try tauto.
  - intros [<-|H]; auto.
  - intros [<-|H]; [auto|]. destruct (IH i H); auto.
Qed.

Section WithTables.
Variable T : tables.

(* well-formed world: store ids are pairwise distinct, non-negative and below the process-wide counter *)
Record WFW (w : world) : Prop := {
  wf_sid : forall s, In s (stores w) -> 0 <= sid s < next_id w;
  wf_nodup : NoDup (map sid (stores w));
  wf_rid : forall s, In s (stores w) -> (rid s < length (regs w))%nat;
  wf_next : 0 <= next_id w
}.

Lemma wfw_init : WFW init_world.
Proof.
  constructor; cbn.
  - intros s [].
  - constructor.
  - intros s [].
  - lia.
Qed.

Lemma new_store_wf w share w' id : WFW w -> new_store T w share = Ok (w', id) ->
  WFW w' /\ id = next_id w /\ next_id w' = next_id w + 1 /\
  (forall i s, nth_error (stores w) i = Some s -> nth_error (stores w') i = Some s) /\
  (forall i r, nth_error (regs w) i = Some r -> nth_error (regs w') i = Some r).
Proof.
  intros [Hs Hn Hr Hx]. unfold new_store. destruct share as [i|].
  - destruct (nth_error (stores w) i) as [o|] eqn:Ho; [|discriminate]. intros [= <- <-].
    split; [|split; [reflexivity|split; [reflexivity|split]]].
    + constructor; cbn [stores regs next_id].
      * intros s Hin. apply in_app_or in Hin as [Hin|[<-|[]]]; [specialize (Hs s Hin); lia|cbn; lia].
      * rewrite map_app. cbn [map sid]. apply NoDup_Add with (a := next_id w) (l := map sid (stores w)).
        -- rewrite <- (app_nil_r (map sid (stores w))) at 1. apply Add_app.
        -- split; [exact Hn|]. intro Hin. apply in_map_iff in Hin as [s [E Hin]]. specialize (Hs s Hin). lia.
      * intros s Hin. apply in_app_or in Hin as [Hin|[<-|[]]]; [apply Hr; exact Hin|cbn].
        apply Hr. apply (nth_error_In _ _ Ho).
      * lia.
    + intros k s Hk. cbn [stores]. rewrite nth_error_app1; [exact Hk|]. apply nth_error_Some. congruence.
    + intros k r Hk. exact Hk.
  - intros [= <- <-]. split; [|split; [reflexivity|split; [reflexivity|split]]].
    + constructor; cbn [stores regs next_id].
      * intros s Hin. apply in_app_or in Hin as [Hin|[<-|[]]]; [specialize (Hs s Hin); lia|cbn; lia].
      * rewrite map_app. cbn [map sid]. apply NoDup_Add with (a := next_id w) (l := map sid (stores w)).
        -- rewrite <- (app_nil_r (map sid (stores w))) at 1. apply Add_app.
        -- split; [exact Hn|]. intro Hin. apply in_map_iff in Hin as [s [E Hin]]. specialize (Hs s Hin). lia.
      * intros s Hin. rewrite app_length. cbn [length]. apply in_app_or in Hin as [Hin|[<-|[]]]; [specialize (Hr s Hin); lia|cbn; lia].
      * lia.
    + intros k s Hk. cbn [stores]. rewrite nth_error_app1; [exact Hk|]. apply nth_error_Some. congruence.
    + intros k r Hk. cbn [regs]. rewrite nth_error_app1; [exact Hk|]. apply nth_error_Some. congruence.
Qed.

Lemma nodup_sid_inj w i j si sj : NoDup (map sid (stores w)) ->
  nth_error (stores w) i = Some si -> nth_error (stores w) j = Some sj -> sid si = sid sj -> i = j.
Proof.
  intros Hnd Hi Hj E.
  assert (Hi' : nth_error (map sid (stores w)) i = Some (sid si)) by (rewrite nth_error_map, Hi; reflexivity).
  assert (Hj' : nth_error (map sid (stores w)) j = Some (sid sj)) by (rewrite nth_error_map, Hj; reflexivity).
  rewrite <- E in Hj'. apply (proj1 (NoDup_nth_error _) Hnd); [|congruence].
  apply nth_error_Some. congruence.
Qed.

(* the key under which store sj defines a user name never collides with a key store si (i <> j) looks up *)
Lemma foreign_key_miss w i j si sj n m : WFW w -> i <> j ->
  nth_error (stores w) i = Some si -> nth_error (stores w) j = Some sj ->
  name_in n (t_cellml T) = false ->
  qname_eqb (prefix_name T si m) (prefix_name T sj n) = false.
Proof.
  intros Hw Hij Hi Hj Hn. unfold prefix_name. rewrite Hn. unfold qname_eqb. cbn [fst snd].
  pose proof (wf_sid w Hw sj (nth_error_In _ _ Hj)) as Hsj.
  destruct (name_in m (t_cellml T)); cbn [fst snd].
  - destruct (Z.eqb_spec (-1) (sid sj)); [lia|reflexivity].
  - destruct (Z.eqb_spec (sid si) (sid sj)) as [E|]; [|reflexivity].
    exfalso. apply Hij. apply (nodup_sid_inj w i j si sj (wf_nodup w Hw) Hi Hj E).
Qed.

(* what a store can observe: its set of known names and the unit behind each name *)
Definition store_view (w : world) (i : nat) : option (list name) :=
  match nth_error (stores w) i with Some s => Some (known s) | None => None end.

(* FRAME: defining a unit in store j changes nothing store i (i <> j) can observe, whether or not they share a
   registry -- in particular an equal user name in j neither shadows nor redefines i's unit *)
Theorem add_unit_frame w j n e w' i : WFW w -> add_unit T w j n e = Ok w' -> i <> j ->
  store_view w' i = store_view w i /\ forall m, get_unit T w' i m = get_unit T w i m.
Proof.
  intros Hw H Hij. unfold add_unit, with_store in H.
  destruct (nth_error (stores w) j) as [sj|] eqn:Hj; [|discriminate].
  destruct (nth_error (regs w) (rid sj)) as [rj|] eqn:Hrj; [|discriminate].
  destruct (name_in n (t_cellml T)) eqn:Hn; [discriminate|].
  destruct (name_in n (known sj)); [discriminate|]. destruct (name_in n (t_unsupported T)); [discriminate|].
  destruct (ueval T rj sj e) as [v|]; [|discriminate]. injection H as <-.
  assert (Hst : nth_error (UStore.set_nth (stores w) j {| sid := sid sj; rid := rid sj; known := n :: known sj |}) i
                = nth_error (stores w) i) by (apply nth_error_set_nth_other; congruence).
  split; [unfold store_view; cbn [stores]; rewrite Hst; reflexivity|].
  intros m. unfold get_unit, with_store. cbn [stores regs]. rewrite Hst.
  destruct (nth_error (stores w) i) as [si|] eqn:Hi; [|reflexivity].
  destruct (Nat.eq_dec (rid sj) (rid si)) as [E|Hne].
  - rewrite <- E, Hrj. rewrite (nth_error_set_nth_same _ _ _ rj Hrj).
    destruct (name_in m (t_unsupported T)); [reflexivity|]. destruct (negb (name_in m (known si))); [reflexivity|].
    cbn [entries rlookup]. rewrite (foreign_key_miss w i j si sj n m Hw Hij Hi Hj Hn). reflexivity.
  - rewrite nth_error_set_nth_other by exact Hne. reflexivity.
Qed.

Theorem add_base_unit_frame w j n w' i : WFW w -> add_base_unit T w j n = Ok w' -> i <> j ->
  store_view w' i = store_view w i /\ forall m, get_unit T w' i m = get_unit T w i m.
Proof.
  intros Hw H Hij. unfold add_base_unit, with_store in H.
  destruct (nth_error (stores w) j) as [sj|] eqn:Hj; [|discriminate].
  destruct (nth_error (regs w) (rid sj)) as [rj|] eqn:Hrj; [|discriminate].
  destruct (name_in n (t_cellml T)) eqn:Hn; [discriminate|].
  destruct (name_in n (known sj)); [discriminate|]. injection H as <-.
  assert (Hst : nth_error (UStore.set_nth (stores w) j {| sid := sid sj; rid := rid sj; known := n :: known sj |}) i
                = nth_error (stores w) i) by (apply nth_error_set_nth_other; congruence).
  split; [unfold store_view; cbn [stores]; rewrite Hst; reflexivity|].
  intros m. unfold get_unit, with_store. cbn [stores regs]. rewrite Hst.
  destruct (nth_error (stores w) i) as [si|] eqn:Hi; [|reflexivity].
  destruct (Nat.eq_dec (rid sj) (rid si)) as [E|Hne].
  - rewrite <- E, Hrj. rewrite (nth_error_set_nth_same _ _ _ rj Hrj).
    destruct (name_in m (t_unsupported T)); [reflexivity|]. destruct (negb (name_in m (known si))); [reflexivity|].
    cbn [entries rlookup]. rewrite (foreign_key_miss w i j si sj n m Hw Hij Hi Hj Hn). reflexivity.
  - rewrite nth_error_set_nth_other by exact Hne. reflexivity.
Qed.

(* names of one store are unknown in the other: a name defined only in store j is not known to store i *)
Theorem add_unit_not_known_elsewhere w j n e w' i si : WFW w -> add_unit T w j n e = Ok w' -> i <> j ->
  nth_error (stores w) i = Some si -> name_in n (known si) = false -> get_unit T w' i n = Err EKey.
Proof.
  intros Hw H Hij Hi Hk. destruct (add_unit_frame w j n e w' i Hw H Hij) as [_ Hg]. rewrite Hg.
  unfold get_unit, with_store. rewrite Hi.
  pose proof (wf_rid w Hw si (nth_error_In _ _ Hi)) as Hlt. apply nth_error_Some in Hlt.
  destruct (nth_error (regs w) (rid si)) as [r|]; [|congruence].
  destruct (name_in n (t_unsupported T)); [reflexivity|]. rewrite Hk. reflexivity.
Qed.

(* every operation preserves well-formedness; ids are fresh: pairwise distinct for ever *)
Lemma add_unit_wf w j n e w' : WFW w -> add_unit T w j n e = Ok w' -> WFW w'.
Proof.
  intros [Hs Hn Hr Hx] H. unfold add_unit, with_store in H.
  destruct (nth_error (stores w) j) as [sj|] eqn:Hj; [|discriminate].
  destruct (nth_error (regs w) (rid sj)) as [rj|] eqn:Hrj; [|discriminate].
  destruct (name_in n (t_cellml T)); [discriminate|]. destruct (name_in n (known sj)); [discriminate|].
  destruct (name_in n (t_unsupported T)); [discriminate|]. destruct (ueval T rj sj e); [|discriminate]. injection H as <-.
  assert (Hmap : map sid (UStore.set_nth (stores w) j {| sid := sid sj; rid := rid sj; known := n :: known sj |}) = map sid (stores w)).
  { clear -Hj. revert j Hj. induction (stores w) as [|z l IH]; intros [|j] Hj; cbn in *; try discriminate; [injection Hj as ->; reflexivity|f_equal; apply IH; exact Hj]. }
  constructor; cbn [stores regs next_id]; [| rewrite Hmap; exact Hn | |exact Hx].
  - intros s Hin. apply in_set_nth in Hin as [->|Hin]; [cbn; apply (Hs sj (nth_error_In _ _ Hj))|apply Hs; exact Hin].
  - intros s Hin. rewrite set_nth_length. apply in_set_nth in Hin as [->|Hin]; [cbn; apply (Hr sj (nth_error_In _ _ Hj))|apply Hr; exact Hin].
Qed.

Lemma add_base_unit_wf w j n w' : WFW w -> add_base_unit T w j n = Ok w' -> WFW w'.
Proof.
  intros [Hs Hn Hr Hx] H. unfold add_base_unit, with_store in H.
  destruct (nth_error (stores w) j) as [sj|] eqn:Hj; [|discriminate].
  destruct (nth_error (regs w) (rid sj)) as [rj|] eqn:Hrj; [|discriminate].
  destruct (name_in n (t_cellml T)); [discriminate|]. destruct (name_in n (known sj)); [discriminate|]. injection H as <-.
  assert (Hmap : map sid (UStore.set_nth (stores w) j {| sid := sid sj; rid := rid sj; known := n :: known sj |}) = map sid (stores w)).
  { clear -Hj. revert j Hj. induction (stores w) as [|z l IH]; intros [|j] Hj; cbn in *; try discriminate; [injection Hj as ->; reflexivity|f_equal; apply IH; exact Hj]. }
  constructor; cbn [stores regs next_id]; [| rewrite Hmap; exact Hn | |exact Hx].
  - intros s Hin. apply in_set_nth in Hin as [->|Hin]; [cbn; apply (Hs sj (nth_error_In _ _ Hj))|apply Hs; exact Hin].
  - intros s Hin. rewrite set_nth_length. apply in_set_nth in Hin as [->|Hin]; [cbn; apply (Hr sj (nth_error_In _ _ Hj))|apply Hr; exact Hin].
Qed.

Inductive wop := WNew (share : option nat) | WAdd (j : nat) (n : name) (e : uexpr) | WBase (j : nat) (n : name).

Definition wstep (w : world) (o : wop) : world :=
  match o with
  | WNew sh => match new_store T w sh with Ok (w', _) => w' | Err _ => w end
  | WAdd j n e => match add_unit T w j n e with Ok w' => w' | Err _ => w end
  | WBase j n => match add_base_unit T w j n with Ok w' => w' | Err _ => w end
  end.

Lemma wstep_wf w o : WFW w -> WFW (wstep w o).
Proof.
  intros Hw. destruct o; cbn [wstep].
  - destruct (new_store T w share) as [[w' id]|] eqn:H; [|exact Hw]. apply (new_store_wf w share w' id Hw H).
  - destruct (add_unit T w j n e) as [w'|] eqn:H; [|exact Hw]. apply (add_unit_wf w j n e w' Hw H).
  - destruct (add_base_unit T w j n) as [w'|] eqn:H; [|exact Hw]. apply (add_base_unit_wf w j n w' Hw H).
Qed.

Theorem reachable_wf ops : WFW (fold_left wstep ops init_world).
Proof.
  generalize wfw_init. generalize init_world. induction ops as [|o ops IH]; intros w Hw; cbn [fold_left]; [exact Hw|].
  apply IH. apply wstep_wf. exact Hw.
Qed.

Theorem ids_pairwise_distinct ops i j si sj : let w := fold_left wstep ops init_world in
  nth_error (stores w) i = Some si -> nth_error (stores w) j = Some sj -> i <> j -> sid si <> sid sj.
Proof.
  intros w Hi Hj Hij E. apply Hij. apply (nodup_sid_inj w i j si sj (wf_nodup w (reachable_wf ops)) Hi Hj E).
Qed.

(* FRAME for whole histories: any sequence of operations that never addresses store i leaves its view unchanged
   (new stores are appended, so indices are stable) *)
Definition touches (o : wop) (i : nat) : bool :=
  match o with WNew _ => false | WAdd j _ _ => Nat.eqb j i | WBase j _ => Nat.eqb j i end.

Theorem history_frame ops : forall w i, WFW w -> (exists s, nth_error (stores w) i = Some s) ->
  forallb (fun o => negb (touches o i)) ops = true ->
  store_view (fold_left wstep ops w) i = store_view w i /\
  forall m, get_unit T (fold_left wstep ops w) i m = get_unit T w i m.
Proof.
  induction ops as [|o ops IH]; intros w i Hw Hex Hall; cbn [fold_left]; [split; reflexivity|].
  cbn [forallb] in Hall. apply andb_true_iff in Hall as [Ho Hall]. apply negb_true_iff in Ho.
  assert (Hstep : store_view (wstep w o) i = store_view w i /\ (forall m, get_unit T (wstep w o) i m = get_unit T w i m) /\
                  exists s, nth_error (stores (wstep w o)) i = Some s).
  { destruct Hex as [si Hi]. destruct o; cbn [wstep touches] in *.
    - destruct (new_store T w share) as [[w' id]|] eqn:H; [|repeat split; try reflexivity; exists si; exact Hi].
      destruct (new_store_wf w share w' id Hw H) as [_ [_ [_ [Hst Hrg]]]].
      pose proof (Hst i si Hi) as Hi'. split; [unfold store_view; rewrite Hi, Hi'; reflexivity|]. split; [|exists si; exact Hi'].
      intros m. unfold get_unit, with_store. rewrite Hi, Hi'.
      pose proof (wf_rid w Hw si (nth_error_In _ _ Hi)) as Hlt.
      destruct (nth_error (regs w) (rid si)) as [r|] eqn:Hr; [|apply nth_error_Some in Hlt; congruence].
      rewrite (Hrg _ r Hr). reflexivity.
    - apply Nat.eqb_neq in Ho. destruct (add_unit T w j n e) as [w'|] eqn:H; [|repeat split; try reflexivity; exists si; exact Hi].
      assert (Hij : i <> j) by congruence.
      destruct (add_unit_frame w j n e w' i Hw H Hij) as [A B]. split; [exact A|]. split; [exact B|].
      unfold store_view in A. rewrite Hi in A. destruct (nth_error (stores w') i) as [s'|]; [exists s'; reflexivity|discriminate].
    - apply Nat.eqb_neq in Ho. destruct (add_base_unit T w j n) as [w'|] eqn:H; [|repeat split; try reflexivity; exists si; exact Hi].
      assert (Hij : i <> j) by congruence.
      destruct (add_base_unit_frame w j n w' i Hw H Hij) as [A B]. split; [exact A|]. split; [exact B|].
      unfold store_view in A. rewrite Hi in A. destruct (nth_error (stores w') i) as [s'|]; [exists s'; reflexivity|discriminate]. }
  destruct Hstep as [A [B C]]. destruct (IH (wstep w o) i (wstep_wf w o Hw) C Hall) as [A' B'].
  split; [rewrite A'; exact A|]. intros m. rewrite B'. apply B.
Qed.

End WithTables.

(* ---- the name prefixes form a prefix code ---------------------------------------------------------- *)
(* "store" ++ decimal(id) ++ "_" ++ name: equal qualified strings come from equal ids and equal names, whatever the
   names are -- decimal digits never contain the underscore that ends the prefix *)
Definition underscore : Z := 95.
Definition is_digit (c : Z) : bool := (48 <=? c) && (c <=? 57).

Lemma split_at_first_underscore (l1 l2 r1 r2 : list Z) :
  forallb is_digit l1 = true -> forallb is_digit l2 = true ->
  l1 ++ underscore :: r1 = l2 ++ underscore :: r2 -> l1 = l2 /\ r1 = r2.
Proof.
  revert l2. induction l1 as [|a l1 IH]; intros [|b l2] H1 H2 E; cbn [app] in E.
  - injection E as ->. split; reflexivity.
  - injection E as <- _. cbn [forallb] in H2. apply andb_true_iff in H2 as [Hb _]. unfold is_digit, underscore in Hb. lia.
  - injection E as -> _. cbn [forallb] in H1. apply andb_true_iff in H1 as [Ha _]. unfold is_digit, underscore in Ha. lia.
  - injection E as -> E. cbn [forallb] in H1, H2. apply andb_true_iff in H1 as [_ H1]. apply andb_true_iff in H2 as [_ H2].
    destruct (IH l2 H1 H2 E) as [-> ->]. split; reflexivity.
Qed.

Definition store_word : list Z := [115; 116; 111; 114; 101].   (* "store" *)
Definition qualified (digits : list Z) (n : list Z) : list Z := store_word ++ digits ++ underscore :: n.

Theorem prefix_code d1 d2 n1 n2 : forallb is_digit d1 = true -> forallb is_digit d2 = true ->
  qualified d1 n1 = qualified d2 n2 -> d1 = d2 /\ n1 = n2.
Proof.
  unfold qualified. intros H1 H2 E. apply app_inv_head in E. apply (split_at_first_underscore d1 d2 n1 n2 H1 H2 E).
Qed.
