(* Laws of the exponent-vector unit algebra, and its reading in the reals. *)
From Coq Require Import List ZArith QArith Bool Lia Reals Lra Qreals Setoid Morphisms.
From Verif Require Import UnitAlg.
Import ListNotations.
Open Scope Z_scope.

Lemma get_app a b k : (get (a ++ b) k == get a k + get b k)%Q.
Proof.
  induction a as [|[k' e] a IH]; cbn [get app].
  - ring.
  - destruct (Z.eqb k k'); rewrite IH; ring.
Qed.

Lemma get_upow a q k : (get (upow a q) k == get a k * q)%Q.
Proof.
  induction a as [|[k' e] a IH]; cbn [get upow map fst snd].
  - ring.
  - fold (upow a q). destruct (Z.eqb k k'); rewrite IH; ring.
Qed.

Lemma get_filter (f : Z -> bool) a k :
  (get (filter (fun ke => f (fst ke)) a) k == if f k then get a k else 0)%Q.
Proof.
  induction a as [|[k' e] a IH]; cbn [get filter fst].
  - destruct (f k); ring.
  - destruct (f k') eqn:Hf; cbn [get].
    + destruct (Z.eqb_spec k k') as [->|Hne].
      * rewrite Hf in *. rewrite IH. ring.
      * exact IH.
    + destruct (Z.eqb_spec k k') as [->|Hne].
      * rewrite Hf in *. rewrite IH. ring.
      * exact IH.
Qed.

Lemma get_dims a k : (get (dims a) k == if is_dim k then get a k else 0)%Q.
Proof. unfold dims. apply (get_filter is_dim). Qed.

Lemma get_scale a k : (get (scale a) k == if is_scale k then get a k else 0)%Q.
Proof. unfold scale. apply (get_filter is_scale). Qed.

Lemma get_angle a k :
  (get (angle a) k == if negb (is_dim k) && negb (is_scale k) then get a k else 0)%Q.
Proof. unfold angle. apply (get_filter (fun k => negb (is_dim k) && negb (is_scale k))). Qed.

Lemma dim_not_scale k : is_dim k = true -> is_scale k = false.
Proof. unfold is_dim, is_scale. destruct (Z.ltb_spec k 0), (Z.ltb_spec 0 k); cbn; try reflexivity; try lia; discriminate. Qed.

Lemma get_notin a k : ~ In k (keys a) -> get a k = 0%Q.
Proof.
  induction a as [|[k' e] a IH]; cbn [get keys map fst In]; intros H; [reflexivity|].
  destruct (Z.eqb_spec k k') as [->|Hne].
  - exfalso; apply H; left; reflexivity.
  - apply IH. intro Hin; apply H; right; exact Hin.
Qed.

Lemma ueqb_spec a b : ueqb a b = true <-> ueq a b.
Proof.
  unfold ueqb, ueq. rewrite forallb_forall. split.
  - intros H k. destruct (in_dec Z.eq_dec k (keys a ++ keys b)) as [Hin|Hnin].
    + apply Qeq_bool_iff. apply H. exact Hin.
    + rewrite !get_notin; [reflexivity| |]; intro Hin; apply Hnin; apply in_or_app; auto.
  - intros H k _. apply Qeq_bool_iff. apply H.
Qed.

Lemma ueq_refl a : ueq a a.
Proof. intro k; reflexivity. Qed.
Lemma ueq_sym a b : ueq a b -> ueq b a.
Proof. intros H k; symmetry; apply H. Qed.
Lemma ueq_trans a b c : ueq a b -> ueq b c -> ueq a c.
Proof. intros H1 H2 k; rewrite (H1 k); apply H2. Qed.

#[export] Instance ueq_Equivalence : Equivalence ueq.
Proof. split; [exact ueq_refl | exact ueq_sym | exact ueq_trans]. Qed.

#[export] Instance umul_Proper : Proper (ueq ==> ueq ==> ueq) umul.
Proof. intros a a' Ha b b' Hb k. unfold umul. rewrite !get_app, (Ha k), (Hb k). reflexivity. Qed.

Lemma upow_ueq a a' q q' : ueq a a' -> (q == q')%Q -> ueq (upow a q) (upow a' q').
Proof. intros Ha Hq k. rewrite !get_upow, (Ha k), Hq. reflexivity. Qed.

Lemma udiv_ueq a a' b b' : ueq a a' -> ueq b b' -> ueq (udiv a b) (udiv a' b').
Proof.
  intros Ha Hb. unfold udiv, uinv. apply umul_Proper; [exact Ha|].
  apply upow_ueq; [exact Hb|reflexivity].
Qed.

Lemma dims_ueq a a' : ueq a a' -> ueq (dims a) (dims a').
Proof. intros Ha k. rewrite !get_dims. destruct (is_dim k); [apply Ha|reflexivity]. Qed.
Lemma scale_ueq a a' : ueq a a' -> ueq (scale a) (scale a').
Proof. intros Ha k. rewrite !get_scale. destruct (is_scale k); [apply Ha|reflexivity]. Qed.

Lemma get_udiv a b k : (get (udiv a b) k == get a k - get b k)%Q.
Proof. unfold udiv, uinv, umul. rewrite get_app, get_upow. ring. Qed.

(* group laws *)
Lemma umul_assoc a b c : ueq (umul a (umul b c)) (umul (umul a b) c).
Proof. intro k. unfold umul. rewrite !get_app. ring. Qed.
Lemma umul_comm a b : ueq (umul a b) (umul b a).
Proof. intro k. unfold umul. rewrite !get_app. ring. Qed.
Lemma umul_one_l a : ueq (umul uone a) a.
Proof. intro k. reflexivity. Qed.
Lemma udiv_self a : ueq (udiv a a) uone.
Proof. intro k. rewrite get_udiv. cbn [get uone]. ring. Qed.
Lemma upow_one a : ueq (upow a 1) a.
Proof. intro k. rewrite get_upow. ring. Qed.
Lemma upow_upow a p q : ueq (upow (upow a p) q) (upow a (p * q)).
Proof. intro k. rewrite !get_upow. ring. Qed.
Lemma upow_umul a b q : ueq (upow (umul a b) q) (umul (upow a q) (upow b q)).
Proof. intro k. unfold umul. rewrite get_upow, !get_app, !get_upow. ring. Qed.
Lemma upow_add a p q : ueq (upow a (p + q)) (umul (upow a p) (upow a q)).
Proof. intro k. unfold umul. rewrite get_app, !get_upow. ring. Qed.

(* conversion factors *)
Lemma same_dims_spec a b : same_dims a b = true <-> ueq (dims a) (dims b).
Proof. apply ueqb_spec. Qed.

Lemma conv_some a b c : conv a b = Some c -> ueq (dims a) (dims b) /\ c = scale (udiv a b).
Proof.
  unfold conv. destruct (same_dims a b) eqn:H; [|discriminate].
  intros [= <-]. split; [apply same_dims_spec; exact H|reflexivity].
Qed.

Lemma conv_none a b : conv a b = None <-> ~ ueq (dims a) (dims b).
Proof.
  unfold conv. destruct (same_dims a b) eqn:H; split.
  - discriminate.
  - intros Hn. exfalso. apply Hn. apply same_dims_spec. exact H.
  - intros _ Hd. apply same_dims_spec in Hd. congruence.
  - reflexivity.
Qed.

Lemma conv_refl a : exists c, conv a a = Some c /\ ueq c uone.
Proof.
  unfold conv. assert (H : same_dims a a = true) by (apply same_dims_spec; reflexivity).
  rewrite H. eexists; split; [reflexivity|].
  intro k. rewrite get_scale. cbn [get uone]. destruct (is_scale k); [|reflexivity].
  rewrite get_udiv. ring.
Qed.

Lemma conv_inverse a b c : conv a b = Some c ->
  exists c', conv b a = Some c' /\ ueq (umul c c') uone.
Proof.
  intros H. apply conv_some in H as [Hd ->].
  unfold conv. assert (H : same_dims b a = true) by (apply same_dims_spec; symmetry; exact Hd).
  rewrite H. eexists; split; [reflexivity|].
  intro k. unfold umul. rewrite get_app, !get_scale. cbn [get uone].
  destruct (is_scale k); [|ring]. rewrite !get_udiv. ring.
Qed.

Lemma conv_trans a b c x y : conv a b = Some x -> conv b c = Some y ->
  exists z, conv a c = Some z /\ ueq z (umul x y).
Proof.
  intros H1 H2. apply conv_some in H1 as [Hd1 ->]. apply conv_some in H2 as [Hd2 ->].
  unfold conv.
  assert (H : same_dims a c = true) by (apply same_dims_spec; etransitivity; eassumption).
  rewrite H. eexists; split; [reflexivity|].
  intro k. unfold umul. rewrite get_app, !get_scale.
  destruct (is_scale k); [|ring]. rewrite !get_udiv. ring.
Qed.

Lemma equivb_spec a b : equivb a b = true <-> ueq (dims a) (dims b) /\ ueq (scale a) (scale b).
Proof. unfold equivb. rewrite andb_true_iff, same_dims_spec, ueqb_spec. tauto. Qed.

Lemma equiv_iff_conv_one a b :
  equivb a b = true <-> exists c, conv a b = Some c /\ is_one c = true.
Proof.
  rewrite equivb_spec. unfold is_one. split.
  - intros [Hd Hs]. unfold conv. rewrite (proj2 (same_dims_spec a b) Hd). eexists; split; [reflexivity|]. apply ueqb_spec.
    intro k. rewrite get_scale. cbn [get uone]. destruct (is_scale k) eqn:Es; [|reflexivity].
    rewrite get_udiv. specialize (Hs k). rewrite !get_scale, Es in Hs. rewrite Hs. ring.
  - intros [c [Hc H1]]. apply conv_some in Hc as [Hd ->]. apply ueqb_spec in H1. split; [exact Hd|].
    intro k. specialize (H1 k). rewrite get_scale in H1. rewrite !get_scale. cbn [get uone] in H1.
    destruct (is_scale k); [|reflexivity]. rewrite get_udiv in H1.
    assert (E : (get a k == get b k + (get a k - get b k))%Q) by ring. rewrite E, H1. ring.
Qed.

(* ------------------------------------------------------------------------------------------ *)
(* Reading in the reals: the SI scale of a unit. *)
Open Scope R_scope.

Definition lterm (ke : Z * Q) : R :=
  if is_scale (fst ke) then Q2R (snd ke) * ln (IZR (fst ke)) else 0.

Fixpoint lscale (a : uvec) : R :=
  match a with
  | [] => 0
  | ke :: r => lterm ke + lscale r
  end.

Definition scaleR (a : uvec) : R := exp (lscale a).

Lemma scaleR_pos a : 0 < scaleR a.
Proof. apply exp_pos. Qed.

Lemma lscale_app a b : lscale (a ++ b) = lscale a + lscale b.
Proof. induction a as [|ke a IH]; cbn [lscale app]; [lra | rewrite IH; lra]. Qed.

Lemma scaleR_umul a b : scaleR (umul a b) = scaleR a * scaleR b.
Proof. unfold scaleR, umul. rewrite lscale_app. apply exp_plus. Qed.

Lemma lscale_upow a q : lscale (upow a q) = Q2R q * lscale a.
Proof.
  induction a as [|[k e] a IH]; cbn [lscale upow map fst snd]; [lra|].
  fold (upow a q). rewrite IH. unfold lterm; cbn [fst snd].
  destruct (is_scale k); [|lra]. rewrite Q2R_mult. lra.
Qed.

Lemma scaleR_upow a q : scaleR (upow a q) = Rpower (scaleR a) (Q2R q).
Proof. unfold scaleR, Rpower. rewrite lscale_upow, ln_exp. reflexivity. Qed.

Lemma scaleR_uone : scaleR uone = 1.
Proof. unfold scaleR; cbn. apply exp_0. Qed.

Lemma scaleR_udiv a b : scaleR (udiv a b) = scaleR a / scaleR b.
Proof.
  unfold udiv, uinv. rewrite scaleR_umul. unfold scaleR at 2.
  rewrite lscale_upow. replace (Q2R (-1 # 1)) with (-1) by (unfold Q2R; cbn; lra).
  replace (-1 * lscale b) with (- lscale b) by lra. rewrite exp_Ropp. reflexivity.
Qed.

Lemma lscale_scale a : lscale (scale a) = lscale a.
Proof.
  induction a as [|[k e] a IH]; cbn [lscale scale filter fst]; [reflexivity|].
  fold (scale a). destruct (is_scale k) eqn:Hk; cbn [lscale].
  - rewrite IH. reflexivity.
  - rewrite IH. unfold lterm; cbn [fst snd]. rewrite Hk. lra.
Qed.

Lemma scaleR_scale a : scaleR (scale a) = scaleR a.
Proof. unfold scaleR. rewrite lscale_scale. reflexivity. Qed.

(* lscale depends only on [get]: rearrangement of a finite sum *)
Fixpoint sumK (K : list Z) (f : Z -> R) : R :=
  match K with [] => 0 | k :: r => f k + sumK r f end.

Lemma sumK_plus K f g : sumK K (fun k => f k + g k) = sumK K f + sumK K g.
Proof. induction K as [|k K IH]; cbn [sumK]; [lra | rewrite IH; lra]. Qed.

Lemma sumK_ext K f g : (forall k, In k K -> f k = g k) -> sumK K f = sumK K g.
Proof.
  induction K as [|k K IH]; cbn [sumK]; intros H; [reflexivity|].
  rewrite H by (left; reflexivity). rewrite IH; [reflexivity|].
  intros k' Hk'; apply H; right; exact Hk'.
Qed.

Lemma sumK_single K k0 (v : R) : NoDup K -> In k0 K ->
  sumK K (fun k => if Z.eqb k k0 then v else 0) = v.
Proof.
  induction K as [|k K IH]; cbn [sumK In]; intros Hnd Hin; [contradiction|].
  inversion Hnd as [|? ? Hnotin Hnd']; subst.
  destruct Hin as [->|Hin].
  - rewrite Z.eqb_refl.
    rewrite (sumK_ext K _ (fun _ => 0)).
    + clear. induction K; cbn [sumK]; lra.
    + intros k Hk. destruct (Z.eqb_spec k k0) as [->|]; [contradiction|reflexivity].
  - destruct (Z.eqb_spec k k0) as [->|]; [contradiction|].
    rewrite IH by assumption. lra.
Qed.

Definition gterm (a : uvec) (k : Z) : R := if is_scale k then Q2R (get a k) * ln (IZR k) else 0.

Lemma lscale_as_sum a K : NoDup K -> (forall k, In k (keys a) -> In k K) ->
  lscale a = sumK K (gterm a).
Proof.
  intros Hnd. induction a as [|[k0 e] a IH]; intros Hsub.
  - cbn [lscale]. rewrite (sumK_ext K _ (fun _ => 0)).
    + clear. induction K; cbn [sumK]; lra.
    + intros k _. unfold gterm; cbn [get]. destruct (is_scale k); [|reflexivity].
      unfold Q2R; cbn; lra.
  - cbn [lscale]. rewrite IH by (intros k Hk; apply Hsub; right; exact Hk).
    rewrite <- (sumK_single K k0 (lterm (k0, e)) Hnd) by (apply Hsub; left; reflexivity).
    rewrite <- sumK_plus. apply sumK_ext. intros k _.
    unfold gterm, lterm; cbn [get fst snd].
    destruct (Z.eqb_spec k k0) as [->|Hne].
    + destruct (is_scale k0); [|lra]. rewrite Q2R_plus. lra.
    + destruct (is_scale k); lra.
Qed.

Lemma lscale_ueq a b : ueq a b -> lscale a = lscale b.
Proof.
  intros H.
  pose (K := nodup Z.eq_dec (keys a ++ keys b)).
  assert (Hnd : NoDup K) by apply NoDup_nodup.
  rewrite (lscale_as_sum a K Hnd), (lscale_as_sum b K Hnd).
  - apply sumK_ext. intros k _. unfold gterm. destruct (is_scale k); [|reflexivity].
    rewrite (Qeq_eqR _ _ (H k)). reflexivity.
  - intros k Hk. apply nodup_In, in_or_app. right; exact Hk.
  - intros k Hk. apply nodup_In, in_or_app. left; exact Hk.
Qed.

Lemma scaleR_ueq a b : ueq a b -> scaleR a = scaleR b.
Proof. intros H. unfold scaleR. rewrite (lscale_ueq a b H). reflexivity. Qed.

(* the factor of [conv] is the ratio of the SI scales *)
Lemma conv_scaleR a b c : conv a b = Some c -> scaleR c = scaleR a / scaleR b.
Proof.
  intros H. apply conv_some in H as [_ ->]. rewrite scaleR_scale. apply scaleR_udiv.
Qed.

Lemma is_one_scaleR c : is_one c = true -> scaleR c = 1.
Proof.
  unfold is_one. rewrite ueqb_spec. intros H. rewrite (scaleR_ueq _ _ H). apply scaleR_uone.
Qed.
