(* C18: every quantity in every equation keeps a unit of the model's store through convert_variable (all cases), and
   the singularity helper as coded breaks it (F12) while the repaired hand-back restores it. *)
From Coq Require Import List ZArith QArith Bool Lia.
From Verif Require Import Sexp UnitAlg Expr ModelSM ConvertVar QtyUnits.
Import ListNotations.
Open Scope Z_scope.

Lemma qty_list N l : (fix all (l : list expr) : bool := match l with [] => true | x :: r => qty_ok N x && all r end) l
                     = forallb (qty_ok N) l.
Proof. induction l as [|x r IH]; cbn [forallb]; [reflexivity|]. rewrite IH. reflexivity. Qed.
Lemma qty_plist N l : (fix allp (l : list (expr * expr)) : bool :=
                         match l with [] => true | (x, c) :: r => qty_ok N x && qty_ok N c && allp r end) l
                      = forallb (fun xc => qty_ok N (fst xc) && qty_ok N (snd xc)) l.
Proof. induction l as [|[x c] r IH]; cbn [forallb fst snd]; [reflexivity|]. rewrite IH. reflexivity. Qed.

Lemma forallb_impl {X} (f g : X -> bool) l : Forall (fun x => f x = true -> g x = true) l -> forallb f l = true -> forallb g l = true.
Proof.
  induction 1 as [|x r Hx _ IH]; cbn [forallb]; [auto|]. intros H. apply andb_true_iff in H as [H1 H2].
  rewrite (Hx H1), (IH H2). reflexivity.
Qed.

(* a bigger unit table keeps every quantity valid *)
Lemma qty_ok_mono N M e : N <= M -> qty_ok N e = true -> qty_ok M e = true.
Proof.
  intros HNM.
  induction e as [k q|c|id q u|v|l IH|l IH|b e IHb IHe|f l IH|y t k IHy IHt|r a b IHa IHb|op l IH| | |l IH] using expr_ind';
    try (intros _; reflexivity).
  - cbn [qty_ok]. intros H. apply andb_true_iff in H as [H1 H2]. apply Z.leb_le in H1. apply Z.ltb_lt in H2.
    apply andb_true_iff. split; [apply Z.leb_le; lia|apply Z.ltb_lt; lia].
  - cbn [qty_ok]. rewrite !qty_list. apply forallb_impl. exact IH.
  - cbn [qty_ok]. rewrite !qty_list. apply forallb_impl. exact IH.
  - cbn [qty_ok]. intros H. apply andb_true_iff in H as [H1 H2]. rewrite (IHb H1), (IHe H2). reflexivity.
  - cbn [qty_ok]. rewrite !qty_list. apply forallb_impl. exact IH.
  - cbn [qty_ok]. intros H. apply andb_true_iff in H as [H1 H2]. rewrite (IHy H1), (IHt H2). reflexivity.
  - cbn [qty_ok]. intros H. apply andb_true_iff in H as [H1 H2]. rewrite (IHa H1), (IHb H2). reflexivity.
  - cbn [qty_ok]. rewrite !qty_list. apply forallb_impl. exact IH.
  - cbn [qty_ok]. rewrite !qty_plist. apply forallb_impl.
    clear -IH. induction IH as [|xc r [Hx Hc] _ IHr]; constructor; [|exact IHr].
    intros H. apply andb_true_iff in H as [H1 H2]. rewrite (Hx H1), (Hc H2). reflexivity.
Qed.

Lemma subst_list' m l : (fix go (l : list expr) : list expr := match l with [] => [] | x :: r => subst_deriv m x :: go r end) l
                        = map (subst_deriv m) l.
Proof. induction l as [|x r IH]; cbn [map]; [reflexivity|]. rewrite IH. reflexivity. Qed.
Lemma subst_plist' m l : (fix gop (l : list (expr * expr)) : list (expr * expr) :=
                            match l with [] => [] | (x, c) :: r => (subst_deriv m x, subst_deriv m c) :: gop r end) l
                         = map (fun xc => (subst_deriv m (fst xc), subst_deriv m (snd xc))) l.
Proof. induction l as [|[x c] r IH]; cbn [map fst snd]; [reflexivity|]. rewrite IH. reflexivity. Qed.

Lemma forallb_map_impl {X} (f : X -> bool) (g : X -> X) l :
  Forall (fun x => f x = true -> f (g x) = true) l -> forallb f l = true -> forallb f (map g l) = true.
Proof.
  induction 1 as [|x r Hx _ IH]; cbn [forallb map]; [auto|]. intros H. apply andb_true_iff in H as [H1 H2].
  rewrite (Hx H1), (IH H2). reflexivity.
Qed.

(* replacing derivative atoms by variables creates no quantity *)
Lemma qty_ok_subst N m e : qty_ok N e = true -> qty_ok N (subst_deriv m e) = true.
Proof.
  induction e as [k q|c|id q u|v|l IH|l IH|b e IHb IHe|f l IH|y t k IHy IHt|r a b IHa IHb|op l IH| | |l IH] using expr_ind';
    try (intros H; exact H).
  - cbn [subst_deriv qty_ok]. rewrite subst_list', !qty_list. apply forallb_map_impl. exact IH.
  - cbn [subst_deriv qty_ok]. rewrite subst_list', !qty_list. apply forallb_map_impl. exact IH.
  - cbn [subst_deriv qty_ok]. intros H. apply andb_true_iff in H as [H1 H2]. rewrite (IHb H1), (IHe H2). reflexivity.
  - cbn [subst_deriv qty_ok]. rewrite subst_list', !qty_list. apply forallb_map_impl. exact IH.
  - intros H. destruct y as [| | |vy| | | | | | | | | |]; try exact H. destruct t as [| | |vt| | | | | | | | | |]; try exact H.
    destruct k as [|[p|p|]|p]; try exact H. cbn [subst_deriv].
    destruct (find _ m); [reflexivity|exact H].
  - cbn [subst_deriv qty_ok]. intros H. apply andb_true_iff in H as [H1 H2]. rewrite (IHa H1), (IHb H2). reflexivity.
  - cbn [subst_deriv qty_ok]. rewrite subst_list', !qty_list. apply forallb_map_impl. exact IH.
  - cbn [subst_deriv qty_ok]. rewrite subst_plist', !qty_plist.
    apply (forallb_map_impl (fun xc => qty_ok N (fst xc) && qty_ok N (snd xc)) (fun xc => (subst_deriv m (fst xc), subst_deriv m (snd xc)))).
    clear -IH. induction IH as [|xc r [Hx Hc] _ IHr]; constructor; [|exact IHr].
    cbn [fst snd]. intros H. apply andb_true_iff in H as [H1 H2]. rewrite (Hx H1), (Hc H2). reflexivity.
Qed.

(* list operations *)
Lemma all_ok_app N a b : all_ok N (a ++ b) = all_ok N a && all_ok N b.
Proof. unfold all_ok. apply forallb_app. Qed.

Lemma all_ok_remove N l lhs : all_ok N l = true -> all_ok N (remove_eq l lhs) = true.
Proof.
  unfold all_ok. induction l as [|q r IH]; [auto|]. intros H. cbn [forallb] in H. apply andb_true_iff in H as [H1 H2].
  change (remove_eq (q :: r) lhs) with (if clhs_eqb (q_lhs q) lhs then r else q :: remove_eq r lhs).
  destruct (clhs_eqb (q_lhs q) lhs); [exact H2|]. cbn [forallb]. rewrite H1. cbn [andb]. apply IH. exact H2.
Qed.

Lemma all_ok_find N l f q : all_ok N l = true -> find f l = Some q -> qty_ok N (q_rhs q) = true.
Proof.
  unfold all_ok. intros H Hf. apply find_some in Hf as [Hin _]. rewrite forallb_forall in H. apply (H q Hin).
Qed.

Lemma all_ok_mono N M l : N <= M -> all_ok N l = true -> all_ok M l = true.
Proof.
  unfold all_ok. intros HNM H. rewrite forallb_forall in *. intros q Hq. apply (qty_ok_mono N M _ HNM). apply H. exact Hq.
Qed.

Lemma all_ok_replace N m l : all_ok N l = true -> all_ok N (replace_derivs m l) = true.
Proof.
  unfold replace_derivs. intros H.
  assert (G : forall l0 acc, all_ok N l0 = true -> all_ok N acc = true ->
              all_ok N (fold_left (fun acc q => if mentions_deriv m (q_rhs q)
                 then remove_eq acc (q_lhs q) ++ [{| q_lhs := q_lhs q; q_rhs := subst_deriv m (q_rhs q) |}] else acc) l0 acc) = true).
  { induction l0 as [|q l0 IH]; intros acc H0 Ha; cbn [fold_left]; [exact Ha|].
    unfold all_ok in H0. cbn [forallb] in H0. apply andb_true_iff in H0 as [Hq H0].
    apply IH; [exact H0|]. destruct (mentions_deriv m (q_rhs q)); [|exact Ha].
    rewrite all_ok_app. rewrite (all_ok_remove N acc _ Ha). unfold all_ok. cbn [forallb q_rhs].
    rewrite (qty_ok_subst N m _ Hq). reflexivity. }
  apply G; exact H.
Qed.

(* the expressions the conversion builds *)
Lemma qty_ok_var N i : qty_ok N (var i) = true.
Proof. reflexivity. Qed.
Lemma qty_ok_emul N a id c u : qty_ok N a = true -> 0 <= u < N -> qty_ok N (emul a (EQty id c u)) = true.
Proof.
  intros Ha Hu. unfold emul. cbn [qty_ok]. rewrite Ha. cbn [andb].
  assert (H1 : (0 <=? u) = true) by (apply Z.leb_le; lia). assert (H2 : (u <? N) = true) by (apply Z.ltb_lt; lia).
  rewrite H1, H2. reflexivity.
Qed.
Lemma qty_ok_ediv N a id c u : qty_ok N a = true -> 0 <= u < N -> qty_ok N (ediv a (EQty id c u)) = true.
Proof.
  intros Ha Hu. unfold ediv. cbn [qty_ok]. rewrite Ha. cbn [andb].
  assert (H1 : (0 <=? u) = true) by (apply Z.leb_le; lia). assert (H2 : (u <? N) = true) by (apply Z.ltb_lt; lia).
  rewrite H1, H2. reflexivity.
Qed.

Lemma move_ode_ok N s ode y t s' w : all_ok N (ceqs s) = true -> qty_ok N (q_rhs ode) = true ->
  move_ode_rhs s ode y t = (s', w) -> all_ok N (ceqs s') = true /\ cunits s' = cunits s /\ cqnext s' = cqnext s.
Proof.
  intros Ha Ho. unfold move_ode_rhs. intros [= <- <-]. cbn [ceqs cunits cqnext]. split; [|split; reflexivity].
  rewrite all_ok_app, (all_ok_remove N _ _ Ha). unfold all_ok. cbn [forallb q_rhs]. rewrite Ho. reflexivity.
Qed.

(* ---- the invariant is preserved by convert_variable, in every case --------------------------------------------- *)
Theorem convert_variable_units_ok s v target d mv sF nF :
  units_invariant s = true -> convert_variable s v target d mv = COk (sF, nF) -> units_invariant sF = true.
Proof.
  unfold units_invariant. intros Hinv. unfold convert_variable.
  destruct (nth_error (cvars s) v) as [orig|]; [|discriminate].
  destruct (conv (c_unit orig) target) as [cfv|]; [|discriminate].
  destruct (is_one cfv); [intros [= <- <-]; exact Hinv|].
  destruct (vec_to_Q cfv) as [cfq|]; [|discriminate].
  set (N := Z.of_nat (length (cunits s))) in *.
  set (N1 := Z.of_nat (length (cunits s ++ [udiv target (c_unit orig)]))).
  assert (HN1 : N1 = N + 1) by (unfold N1, N; rewrite app_length; cbn [length]; lia).
  assert (Hu : 0 <= N < N1) by (unfold N in *; lia).
  assert (H0 : all_ok N1 (ceqs s) = true) by (apply (all_ok_mono N N1); [lia|exact Hinv]).
  destruct d.
  2:{ (* OUTPUT *)
      intros [= <- <-]. cbn [cunits ceqs]. fold N1. rewrite all_ok_app, H0. unfold all_ok. cbn [forallb q_rhs].
      rewrite (qty_ok_emul N1 (var v) (cqnext s) cfq N (qty_ok_var N1 v) Hu). reflexivity. }
  (* INPUT *)
  set (cf := EQty (cqnext s) cfq N) in *.
  set (s0 := {| cvars := cvars s; ceqs := ceqs s; cunits := cunits s ++ [udiv target (c_unit orig)]; cqnext := cqnext s + 1 |}).
  set (n0 := length (cvars s0)).
  (* equations after _convert_variable_instance *)
  set (eqs1 := match var_def s0 v with
               | Some q => remove_eq (ceqs s0) (CLV v) ++ [{| q_lhs := CLV n0; q_rhs := emul (q_rhs q) cf |}]
               | None => ceqs s0 end).
  assert (H1 : all_ok N1 eqs1 = true).
  { unfold eqs1, var_def. cbn [ceqs s0]. destruct (find _ (ceqs s)) as [q|] eqn:Hq; [|exact H0].
    rewrite all_ok_app, (all_ok_remove N1 _ _ H0). unfold all_ok. cbn [forallb q_rhs].
    unfold cf. rewrite (qty_ok_emul N1 (q_rhs q) (cqnext s) cfq N (all_ok_find N1 _ _ q H0 Hq) Hu). reflexivity. }
  set (eqs2 := eqs1 ++ [{| q_lhs := CLV v; q_rhs := ediv (var n0) cf |}]).
  assert (H2 : all_ok N1 eqs2 = true).
  { unfold eqs2. rewrite all_ok_app, H1. unfold all_ok. cbn [forallb q_rhs].
    unfold cf. rewrite (qty_ok_ediv N1 (var n0) (cqnext s) cfq N (qty_ok_var N1 n0) Hu). reflexivity. }
  (* generic facts about the two later phases, for any intermediate state whose unit table is that of s0 *)
  match goal with |- context [let '(s2, repl1) := ?X in _] => set (phase1 := X) end.
  assert (P1 : all_ok N1 (ceqs (fst phase1)) = true /\ cunits (fst phase1) = cunits s0).
  { unfold phase1. destruct (is_state s v); [|cbn [fst ceqs cunits]; split; [exact H2|reflexivity]].
    match goal with |- context [ode_def ?S v] => destruct (ode_def S v) as [ode|] eqn:Ho end;
      [|cbn [fst ceqs cunits]; split; [exact H2|reflexivity]].
    destruct (q_lhs ode) as [x|x t]; [cbn [fst ceqs cunits]; split; [exact H2|reflexivity]|].
    assert (Hode : qty_ok N1 (q_rhs ode) = true) by (unfold ode_def in Ho; apply (all_ok_find N1 _ _ ode H2 Ho)).
    match goal with |- context [move_ode_rhs ?S ode v t] =>
      destruct (move_ode_rhs S ode v t) as [s' w] eqn:Hm;
      assert (HS : all_ok N1 (ceqs S) = true) by exact H2;
      destruct (move_ode_ok N1 S ode v t s' w HS Hode Hm) as [A [B _]] end.
    cbn [fst ceqs cunits]. split; [|exact B].
    rewrite all_ok_app, A. unfold all_ok. cbn [forallb q_rhs].
    unfold cf. rewrite (qty_ok_emul N1 (var w) (cqnext s) cfq N (qty_ok_var N1 w) Hu). reflexivity. }
  destruct phase1 as [s2 repl1]. cbn [fst] in P1. destruct P1 as [P1a P1b].
  match goal with |- context [let '(s3, repl2) := ?X in _] => set (phase2 := X) end.
  assert (P2 : all_ok N1 (ceqs (fst phase2)) = true /\ cunits (fst phase2) = cunits s0).
  { unfold phase2. destruct (free_var s) as [t|]; [|cbn [fst]; split; assumption].
    destruct (Nat.eqb t v); [|cbn [fst]; split; assumption].
    (* the fold over all variables *)
    match goal with |- context [fold_left ?F ?L (s2, repl1)] =>
      assert (G : forall l acc, all_ok N1 (ceqs (fst acc)) = true -> cunits (fst acc) = cunits s0 ->
                  all_ok N1 (ceqs (fst (fold_left F l acc))) = true /\ cunits (fst (fold_left F l acc)) = cunits s0) end.
    { induction l as [|y l IH]; intros acc Ha Hc; cbn [fold_left]; [split; assumption|]. apply IH.
      - destruct acc as [st rp]. unfold free_step. cbn [fst] in *. destruct (ode_def st y) as [ode|] eqn:Ho; [|exact Ha].
        destruct (q_lhs ode) as [x|x t']; [exact Ha|]. destruct (Nat.eqb t' v); [|exact Ha].
        destruct (move_ode_rhs st ode y v) as [s' w] eqn:Hm.
        assert (Hode : qty_ok N1 (q_rhs ode) = true) by (unfold ode_def in Ho; apply (all_ok_find N1 _ _ ode Ha Ho)).
        destruct (move_ode_ok N1 st ode y v s' w Ha Hode Hm) as [A _]. cbn [fst ceqs].
        rewrite all_ok_app, A. unfold all_ok. cbn [forallb q_rhs].
        unfold cf. rewrite (qty_ok_ediv N1 (var w) (cqnext s) cfq N (qty_ok_var N1 w) Hu). reflexivity.
      - destruct acc as [st rp]. unfold free_step. cbn [fst] in *. destruct (ode_def st y) as [ode|] eqn:Ho; [|exact Hc].
        destruct (q_lhs ode) as [x|x t']; [exact Hc|]. destruct (Nat.eqb t' v); [|exact Hc].
        destruct (move_ode_rhs st ode y v) as [s' w] eqn:Hm. unfold move_ode_rhs in Hm. injection Hm as <- _. cbn [fst cunits]. exact Hc. }
    apply G; assumption. }
  destruct phase2 as [s3 repl2]. cbn [fst] in P2. destruct P2 as [P2a P2b].
  intros [= <- <-]. cbn [cunits ceqs]. rewrite P2b. cbn [cunits s0]. fold N1. apply all_ok_replace. exact P2a.
Qed.

(* sequences of conversions *)
Definition conv_op := (nat * uvec * direction * bool)%type.
Definition cstep (s : cstate) (o : conv_op) : cstate :=
  match o with (v, target, d, mv) =>
    match convert_variable s v target d mv with COk (s', _) => s' | CErr _ => s end end.

Theorem history_units_ok ops : forall s, units_invariant s = true -> units_invariant (fold_left cstep ops s) = true.
Proof.
  induction ops as [|[[[v target] d] mv] ops IH]; intros s H; cbn [fold_left]; [exact H|]. apply IH.
  unfold cstep. destruct (convert_variable s v target d mv) as [[s' n]|] eqn:E; [|exact H].
  apply (convert_variable_units_ok s v target d mv s' n H E).
Qed.

(* F12: the singularity helper as coded plants a quantity whose unit is a bare string *)
Lemma singularity_string_units_refuted :
  exists e N, qty_ok N e = true /\ qty_ok N (float_dummies_as_coded e) = false.
Proof. exists (EAdd [ENum 2 (1 # 2); EVar 0]), 1. split; reflexivity. Qed.

(* the repair: looking the string up in the model's store restores the invariant *)
Lemma restore_list' d l : (fix go (l : list expr) : list expr := match l with [] => [] | x :: r => restore_units d x :: go r end) l
                         = map (restore_units d) l.
Proof. induction l as [|x r IH]; cbn [map]; [reflexivity|]. rewrite IH. reflexivity. Qed.

Fixpoint only_string_or_ok (N : Z) (e : expr) : bool :=
  let fix all (l : list expr) : bool := match l with [] => true | x :: r => only_string_or_ok N x && all r end in
  match e with
  | EQty _ _ u => ((0 <=? u) && (u <? N)) || (u =? -1)
  | EAdd l | EMul l | EFn _ l => all l
  | EPow b x => only_string_or_ok N b && only_string_or_ok N x
  | ENum _ _ | EConst _ | EVar _ => true
  | _ => false
  end.

Lemma only_list N l : (fix all (l : list expr) : bool := match l with [] => true | x :: r => only_string_or_ok N x && all r end) l
                      = forallb (only_string_or_ok N) l.
Proof. induction l as [|x r IH]; cbn [forallb]; [reflexivity|]. rewrite IH. reflexivity. Qed.

Theorem restore_units_ok N d e : 0 <= d < N -> only_string_or_ok N e = true -> qty_ok N (restore_units d e) = true.
Proof.
  intros Hd.
  induction e as [k q|c|id q u|v|l IH|l IH|b e IHb IHe|f l IH|y t k IHy IHt|r a b IHa IHb|op l IH| | |l IH] using expr_ind';
    try (intros H; first [reflexivity | discriminate]).
  - cbn [only_string_or_ok]. intros H. apply orb_true_iff in H as [H|H].
    + cbn [restore_units]. destruct u as [|p|p]; try exact H. destruct p; first [exact H | cbn in H; discriminate H].
    + apply Z.eqb_eq in H. subst u. cbn [restore_units qty_ok].
      apply andb_true_iff. split; [apply Z.leb_le; lia|apply Z.ltb_lt; lia].
  - cbn [only_string_or_ok restore_units qty_ok]. rewrite only_list, restore_list', qty_list. intros H.
    rewrite forallb_forall in *. intros x Hx. apply in_map_iff in Hx as [x0 [<- Hx0]]. rewrite Forall_forall in IH. apply IH; [exact Hx0|apply H; exact Hx0].
  - cbn [only_string_or_ok restore_units qty_ok]. rewrite only_list, restore_list', qty_list. intros H.
    rewrite forallb_forall in *. intros x Hx. apply in_map_iff in Hx as [x0 [<- Hx0]]. rewrite Forall_forall in IH. apply IH; [exact Hx0|apply H; exact Hx0].
  - cbn [only_string_or_ok restore_units qty_ok]. intros H. apply andb_true_iff in H as [H1 H2]. rewrite (IHb H1), (IHe H2). reflexivity.
  - cbn [only_string_or_ok restore_units qty_ok]. rewrite only_list, restore_list', qty_list. intros H.
    rewrite forallb_forall in *. intros x Hx. apply in_map_iff in Hx as [x0 [<- Hx0]]. rewrite Forall_forall in IH. apply IH; [exact Hx0|apply H; exact Hx0].
Qed.
