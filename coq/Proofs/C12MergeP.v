(* C12: the merge of same-point summands in _fix_expr_parts (Add branch) never swallows a summand that has no window of
   its own (its nested repairs live inside its expression): proofs for Props/C12.v. *)
From Coq Require Import List Bool Reals.
From Verif Require Import Singularity.
Import ListNotations.

Section MergeP.
  Variable find : sx -> list window.

  Lemma all_same_sp_windowed sp (ps : list part) :
    all_same_sp sp ps = true ->
    Forall (fun p : part => exists w' ex hp, p = (Some w', ex, hp) /\ wsp w' = sp) ps.
  Proof.
    induction ps as [|[[o ex] hp] ps IH]; intro H; [constructor|].
    destruct o as [w'|]; cbn [all_same_sp] in H; [|discriminate].
    apply andb_true_iff in H as [H1 H2]. constructor; [|exact (IH H2)].
    exists w', ex, hp. split; [reflexivity|]. unfold Reqb in H1. destruct (Req_EM_T (wsp w') sp); [assumption|discriminate].
  Qed.

  (* the summands of a sum are merged into ONE window only when EVERY summand carries a window with that same singular
     point: a summand without a singularity of its own (whose nested repairs live inside its expression) is never merged
     away - with such a summand the sum is rebuilt from the separately wrapped summands *)
  Theorem merge_requires_all_windowed (ps : list part) w :
    merged ps = Some w ->
    Forall (fun p : part => exists w' ex hp, p = (Some w', ex, hp) /\ wsp w' = wsp w) ps.
  Proof.
    unfold merged. destruct ps as [|[[[w0|] ex0] hp0] [|p1 ps]]; try discriminate.
    intro E. match type of E with (if ?c then _ else _) = _ => destruct c eqn:H end; [|discriminate E].
    injection E as <-. cbn [wsp]. exact (all_same_sp_windowed _ _ H).
  Qed.

  Theorem add_with_windowless_summand_keeps_parts l :
    has_exp (SAdd l) = true ->
    (exists a, In a l /\ fst (fst (fixp find a)) = None) ->
    fixp find (SAdd l) = (None, SAdd (map (wrap) (map (fixp find) l)), existsb flag (map (fixp find) l)).
  Proof.
    intros He [a [Ha Hn]].
    assert (Hm : merged (map (fixp find) l) = None).
    { destruct (merged (map (fixp find) l)) as [w|] eqn:Hm; [|reflexivity].
      apply merge_requires_all_windowed in Hm. rewrite Forall_forall in Hm.
      destruct (Hm (fixp find a) (in_map _ _ _ Ha)) as [w' [ex [hp [E _]]]]. rewrite E in Hn. discriminate. }
    destruct l as [|x l']; [cbn in He; discriminate|].
    change (fixp find (SAdd (x :: l'))) with
      (if negb (has_exp (SAdd (x :: l'))) then (None, SAdd (x :: l'), false) else
       match merged (map (fixp find) (x :: l')) with
       | Some w => (Some w, SAdd (x :: l'), true)
       | None => (None, SAdd (map wrap (map (fixp find) (x :: l'))), existsb flag (map (fixp find) (x :: l')))
       end).
    rewrite He, Hm. reflexivity.
  Qed.
End MergeP.
