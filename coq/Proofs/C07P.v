(* C07: conversion factors obey unit algebra -- lemmas about Model/UStore.v *)
From Coq Require Import List ZArith QArith Bool Lia Reals Lra Qreals.
From Verif Require Import UnitAlg UnitAlgP UStore.
Import ListNotations.
Open Scope R_scope.

Definition cfR (a b : uvec) : option R := option_map scaleR (conv a b).

Lemma cfR_refl a : cfR a a = Some 1.
Proof.
  unfold cfR. destruct (conv_refl a) as [c [Hc H1]]. rewrite Hc. cbn.
  rewrite (scaleR_ueq _ _ H1). rewrite scaleR_uone. reflexivity.
Qed.

Lemma cfR_ratio a b x : cfR a b = Some x -> x = scaleR a / scaleR b.
Proof.
  unfold cfR. destruct (conv a b) as [c|] eqn:Hc; cbn; [|discriminate].
  intros [= <-]. apply conv_scaleR. exact Hc.
Qed.

Lemma cfR_inverse a b x : cfR a b = Some x -> exists y, cfR b a = Some y /\ x * y = 1.
Proof.
  intros H. pose proof (cfR_ratio _ _ _ H) as Hx.
  unfold cfR in *. destruct (conv a b) as [c|] eqn:Hc; [|discriminate].
  destruct (conv_inverse _ _ _ Hc) as [c' [Hc' _]]. rewrite Hc'. cbn.
  eexists; split; [reflexivity|].
  rewrite (conv_scaleR _ _ _ Hc'), Hx.
  pose proof (scaleR_pos a). pose proof (scaleR_pos b). field. lra.
Qed.

Lemma cfR_trans a b c x y : cfR a b = Some x -> cfR b c = Some y -> cfR a c = Some (x * y).
Proof.
  intros H1 H2. pose proof (cfR_ratio _ _ _ H1) as Hx. pose proof (cfR_ratio _ _ _ H2) as Hy.
  unfold cfR in *.
  destruct (conv a b) as [c1|] eqn:Hc1; [|discriminate].
  destruct (conv b c) as [c2|] eqn:Hc2; [|discriminate].
  destruct (conv_trans _ _ _ _ _ Hc1 Hc2) as [z [Hz _]]. rewrite Hz. cbn. f_equal.
  rewrite (conv_scaleR _ _ _ Hz), Hx, Hy.
  pose proof (scaleR_pos a). pose proof (scaleR_pos b). pose proof (scaleR_pos c). field. lra.
Qed.

Lemma cfR_none_iff a b : cfR a b = None <-> ~ ueq (dims a) (dims b).
Proof.
  unfold cfR. rewrite <- conv_none. destruct (conv a b); cbn; split; congruence.
Qed.

(* the store functions *)
Lemma conversion_factor_one_iff a b :
  conversion_factor a b = Ok (inl tt) <-> is_equivalent a b = true.
Proof.
  unfold conversion_factor, is_equivalent. rewrite equiv_iff_conv_one.
  destruct (conv a b) as [c|] eqn:Hc.
  - destruct (is_one c) eqn:H1; split.
    + intros _. exists c; split; [reflexivity|exact H1].
    + reflexivity.
    + discriminate.
    + intros [c' [[= <-] H]]. congruence.
  - split; [discriminate|]. intros [c' [H _]]; discriminate.
Qed.

(* pint's dimension-less base unit radian: factor 1 to dimensionless, and (since the fix) equivalent to it *)
Lemma radian_equivalent_to_dimensionless :
  conversion_factor [(angle_gen, 1%Q)] [] = Ok (inl tt) /\ is_equivalent [(angle_gen, 1%Q)] [] = true /\
  is_equivalent [(angle_gen, 2%Q); ((-7)%Z, 1%Q)] [((-7)%Z, 1%Q)] = true.
Proof. repeat split; vm_compute; reflexivity. Qed.

Lemma equivalent_implies_factor_one a b :
  is_equivalent a b = true -> conversion_factor a b = Ok (inl tt).
Proof. apply conversion_factor_one_iff. Qed.

Lemma conversion_factor_value a b c :
  conversion_factor a b = Ok (inr c) -> scaleR c = scaleR a / scaleR b /\ is_equivalent a b = false.
Proof.
  intros H. split.
  - unfold conversion_factor in H. destruct (conv a b) as [c'|] eqn:Hc; [|discriminate].
    destruct (is_one c'); [discriminate|]. injection H as <-. apply conv_scaleR; exact Hc.
  - destruct (is_equivalent a b) eqn:E; [|reflexivity].
    apply equivalent_implies_factor_one in E. congruence.
Qed.

Lemma conversion_factor_one_value a b :
  conversion_factor a b = Ok (inl tt) -> scaleR a / scaleR b = 1.
Proof.
  unfold conversion_factor. destruct (conv a b) as [c|] eqn:Hc; [|discriminate].
  destruct (is_one c) eqn:H1; [|discriminate]. intros _.
  rewrite <- (conv_scaleR _ _ _ Hc). apply is_one_scaleR. exact H1.
Qed.

Lemma conversion_factor_error a b e :
  conversion_factor a b = Err e <-> (e = EDimension /\ ~ ueq (dims a) (dims b)).
Proof.
  unfold conversion_factor. rewrite <- conv_none.
  destruct (conv a b) as [c|]; [destruct (is_one c)|]; split; try discriminate;
    try (intros [_ H]; discriminate).
  - intros [= <-]. split; reflexivity.
  - intros [-> _]. reflexivity.
Qed.

Lemma convert_spec q a b q' c u :
  convert q a b = Ok (q', c, u) ->
  q' = q /\ u = b /\ scaleR c = scaleR a / scaleR b /\ ueq (dims a) (dims b).
Proof.
  unfold convert. destruct (conv a b) as [c'|] eqn:Hc; [|discriminate].
  intros [= <- <- <-]. repeat split; try reflexivity.
  - apply conv_scaleR; exact Hc.
  - apply conv_some in Hc. tauto.
Qed.

Lemma convert_error q a b e :
  convert q a b = Err e <-> (e = EDimension /\ ~ ueq (dims a) (dims b)).
Proof.
  unfold convert. rewrite <- conv_none. destruct (conv a b); split; try discriminate.
  - intros [_ H]; discriminate.
  - intros [= <-]; split; reflexivity.
  - intros [-> _]; reflexivity.
Qed.

Lemma is_equivalent_refl a : is_equivalent a a = true.
Proof. apply equivb_spec. split; reflexivity. Qed.
Lemma is_equivalent_sym a b : is_equivalent a b = is_equivalent b a.
Proof.
  unfold is_equivalent.
  destruct (equivb a b) eqn:E1, (equivb b a) eqn:E2; try reflexivity.
  - apply equivb_spec in E1 as [A B]. assert (equivb b a = true) by (apply equivb_spec; split; symmetry; assumption). congruence.
  - apply equivb_spec in E2 as [A B]. assert (equivb a b = true) by (apply equivb_spec; split; symmetry; assumption). congruence.
Qed.
Lemma is_equivalent_trans a b c :
  is_equivalent a b = true -> is_equivalent b c = true -> is_equivalent a c = true.
Proof.
  unfold is_equivalent. rewrite !equivb_spec. intros [A1 B1] [A2 B2]. split; etransitivity; eassumption.
Qed.

Lemma is_equivalent_scale_dims a b :
  is_equivalent a b = true -> scaleR a = scaleR b /\ ueq (dims a) (dims b).
Proof.
  unfold is_equivalent. rewrite equivb_spec. intros [Hd Hs]. split; [|exact Hd].
  rewrite <- (scaleR_scale a), <- (scaleR_scale b). apply scaleR_ueq. exact Hs.
Qed.

(* Non-vacuity: millivolt vs volt *)
Example volt_like : exists c, conv [(2%Z, 3%Q); (5%Z, 3%Q); ((-1)%Z, 2%Q)] [((-1)%Z, 2%Q)] = Some c /\ is_one c = false.
Proof. eexists; split; vm_compute; reflexivity. Qed.
