(* Evaluation lemmas for C06: fresh variables, fresh derivative atoms, substitution of derivative atoms. *)
From Coq Require Import List ZArith QArith Bool Lia Reals Qreals.
From Verif Require Import Sexp Expr Eval EvalP ConvertVar.
Import ListNotations.

Definition upd (nu : nat -> R) (n : nat) (x : R) : nat -> R := fun i => if Nat.eqb i n then x else nu i.
Definition updd (dl : nat -> nat -> R) (y t : nat) (x : R) : nat -> nat -> R :=
  fun a b => if Nat.eqb a y && Nat.eqb b t then x else dl a b.

Lemma vfree_list n l : (fix all (l : list expr) : bool := match l with [] => true | x :: r => vfree n x && all r end) l
                       = forallb (vfree n) l.
Proof. induction l as [|x r IH]; cbn [forallb]; [reflexivity|]. rewrite IH. reflexivity. Qed.
Lemma dfree_list y t l : (fix all (l : list expr) : bool := match l with [] => true | x :: r => dfree y t x && all r end) l
                         = forallb (dfree y t) l.
Proof. induction l as [|x r IH]; cbn [forallb]; [reflexivity|]. rewrite IH. reflexivity. Qed.
Lemma vfree_plist n l : (fix allp (l : list (expr * expr)) : bool :=
                           match l with [] => true | (x, c) :: r => vfree n x && vfree n c && allp r end) l
                        = forallb (fun xc => vfree n (fst xc) && vfree n (snd xc)) l.
Proof. induction l as [|[x c] r IH]; cbn [forallb fst snd]; [reflexivity|]. rewrite IH. reflexivity. Qed.
Lemma dfree_plist y t l : (fix allp (l : list (expr * expr)) : bool :=
                             match l with [] => true | (x, c) :: r => dfree y t x && dfree y t c && allp r end) l
                          = forallb (fun xc => dfree y t (fst xc) && dfree y t (snd xc)) l.
Proof. induction l as [|[x c] r IH]; cbn [forallb fst snd]; [reflexivity|]. rewrite IH. reflexivity. Qed.

Lemma subst_list m l : (fix go (l : list expr) : list expr := match l with [] => [] | x :: r => subst_deriv m x :: go r end) l
                       = map (subst_deriv m) l.
Proof. induction l as [|x r IH]; cbn [map]; [reflexivity|]. rewrite IH. reflexivity. Qed.
Lemma subst_plist m l : (fix gop (l : list (expr * expr)) : list (expr * expr) :=
                           match l with [] => [] | (x, c) :: r => (subst_deriv m x, subst_deriv m c) :: gop r end) l
                        = map (fun xc => (subst_deriv m (fst xc), subst_deriv m (snd xc))) l.
Proof. induction l as [|[x c] r IH]; cbn [map fst snd]; [reflexivity|]. rewrite IH. reflexivity. Qed.

Lemma map_pair_id (l : list (expr * expr)) : map (fun xc : expr * expr => (fst xc, snd xc)) l = l.
Proof. induction l as [|[a b] l IH]; cbn [map fst snd]; [reflexivity|]. rewrite IH. reflexivity. Qed.

Section Sem.
Variable fsem : Z -> list R -> option R.
Variable psem : R -> R -> option R.
Variable csem : Z -> option R.

Definition qsemN (id : Z) (q : Q) (u : Z) : option R := Some (Q2R q).
Definition vsem_of (nu : nat -> R) (z : Z) : option R := Some (nu (Z.to_nat z)).
Definition dsem_of (dl : nat -> nat -> R) (y t : Z) : option R := Some (dl (Z.to_nat y) (Z.to_nat t)).

Definition ev (nu : nat -> R) (dl : nat -> nat -> R) (e : expr) : option value :=
  eval fsem psem csem qsemN (vsem_of nu) (dsem_of dl) e.
Definition evs (nu : nat -> R) (dl : nat -> nat -> R) (l : list expr) : option (list value) :=
  evals fsem psem csem qsemN (vsem_of nu) (dsem_of dl) l.
Definition evpw (nu : nat -> R) (dl : nat -> nat -> R) (l : list (expr * expr)) : option value :=
  evalpw fsem psem csem qsemN (vsem_of nu) (dsem_of dl) l.

(* a generic congruence: two valuations (and a term transformer T that commutes with the constructors on lists)
   agree on a term as soon as they agree on its sub-terms *)
Lemma evs_congr nu1 dl1 nu2 dl2 (T : expr -> expr) l :
  Forall (fun e => ev nu1 dl1 (T e) = ev nu2 dl2 e) l -> evs nu1 dl1 (map T l) = evs nu2 dl2 l.
Proof.
  induction 1 as [|x r Hx _ IH]; cbn [map evs evals]; [reflexivity|].
  unfold evs in IH. unfold ev in Hx. rewrite Hx, IH. reflexivity.
Qed.

Lemma evpw_congr nu1 dl1 nu2 dl2 (T : expr -> expr) l :
  Forall (fun xc => ev nu1 dl1 (T (fst xc)) = ev nu2 dl2 (fst xc) /\ ev nu1 dl1 (T (snd xc)) = ev nu2 dl2 (snd xc)) l ->
  evpw nu1 dl1 (map (fun xc => (T (fst xc), T (snd xc))) l) = evpw nu2 dl2 l.
Proof.
  induction 1 as [|[x c] r [Hx Hc] _ IH]; cbn [map evpw evalpw fst snd]; [reflexivity|].
  cbn [fst snd] in Hx, Hc. unfold evpw in IH. unfold ev in Hx, Hc. rewrite Hx, Hc, IH. reflexivity.
Qed.

Lemma forall_and {X} (P : X -> Prop) (f : X -> bool) l :
  Forall (fun e => f e = true -> P e) l -> forallb f l = true -> Forall P l.
Proof.
  induction 1 as [|x r Hx _ IH]; cbn [forallb]; intros H; [constructor|].
  apply andb_true_iff in H as [H1 H2]. constructor; [apply Hx; exact H1|apply IH; exact H2].
Qed.

(* ---- a fresh variable does not influence the value ---------------------------------------------------- *)
Lemma ev_vfree n x nu dl e : vfree n e = true -> ev (upd nu n x) dl e = ev nu dl e.
Proof.
  induction e as [k q|c|id q u|v|l IH|l IH|b e IHb IHe|f l IH|y t k IHy IHt|r a b IHa IHb|op l IH| | |l IH] using expr_ind';
    intros H; try reflexivity.
  - cbn [vfree] in H. unfold ev. cbn [eval]. unfold vsem_of, upd.
    apply negb_true_iff in H. rewrite H. reflexivity.
  - cbn [vfree] in H. rewrite vfree_list in H. unfold ev. rewrite !eval_add.
    pose proof (evs_congr (upd nu n x) dl nu dl (fun e => e) l (forall_and _ _ l IH H)) as E. rewrite map_id in E.
    unfold evs in E. rewrite E. reflexivity.
  - cbn [vfree] in H. rewrite vfree_list in H. unfold ev. rewrite !eval_mul.
    pose proof (evs_congr (upd nu n x) dl nu dl (fun e => e) l (forall_and _ _ l IH H)) as E. rewrite map_id in E.
    unfold evs in E. rewrite E. reflexivity.
  - cbn [vfree] in H. apply andb_true_iff in H as [H1 H2]. unfold ev in *. cbn [eval]. rewrite (IHb H1), (IHe H2). reflexivity.
  - cbn [vfree] in H. rewrite vfree_list in H. unfold ev. rewrite !eval_fn.
    pose proof (evs_congr (upd nu n x) dl nu dl (fun e => e) l (forall_and _ _ l IH H)) as E. rewrite map_id in E.
    unfold evs in E. rewrite E. reflexivity.
  - cbn [vfree] in H. apply andb_true_iff in H as [H1 H2]. unfold ev in *. cbn [eval]. rewrite (IHa H1), (IHb H2). reflexivity.
  - cbn [vfree] in H. rewrite vfree_list in H. unfold ev. rewrite !eval_bool.
    pose proof (evs_congr (upd nu n x) dl nu dl (fun e => e) l (forall_and _ _ l IH H)) as E. rewrite map_id in E.
    unfold evs in E. rewrite E. reflexivity.
  - cbn [vfree] in H. rewrite vfree_plist in H. unfold ev. rewrite !eval_pw.
    assert (F : Forall (fun xc => ev (upd nu n x) dl (fst xc) = ev nu dl (fst xc) /\ ev (upd nu n x) dl (snd xc) = ev nu dl (snd xc)) l).
    { clear -IH H. induction IH as [|xc r [Hx Hc] _ IHr]; cbn [forallb] in H; [constructor|].
      apply andb_true_iff in H as [H1 H2]. apply andb_true_iff in H1 as [Ha Hb].
      constructor; [split; [apply Hx; exact Ha|apply Hc; exact Hb]|apply IHr; exact H2]. }
    pose proof (evpw_congr (upd nu n x) dl nu dl (fun e => e) l F) as E.
    cbv beta in E. rewrite map_pair_id in E. exact E.
Qed.

(* ---- a fresh derivative atom does not influence the value ------------------------------------------------ *)
Lemma ev_dfree y t x nu dl e : dfree y t e = true -> ev nu (updd dl y t x) e = ev nu dl e.
Proof.
  induction e as [k q|c|id q u|v|l IH|l IH|b e IHb IHe|f l IH|a b k IHy IHt|r a b IHa IHb|op l IH| | |l IH] using expr_ind';
    intros H; try reflexivity.
  - cbn [dfree] in H. rewrite dfree_list in H. unfold ev. rewrite !eval_add.
    pose proof (evs_congr nu (updd dl y t x) nu dl (fun e => e) l (forall_and _ _ l IH H)) as E. rewrite map_id in E.
    unfold evs in E. rewrite E. reflexivity.
  - cbn [dfree] in H. rewrite dfree_list in H. unfold ev. rewrite !eval_mul.
    pose proof (evs_congr nu (updd dl y t x) nu dl (fun e => e) l (forall_and _ _ l IH H)) as E. rewrite map_id in E.
    unfold evs in E. rewrite E. reflexivity.
  - cbn [dfree] in H. apply andb_true_iff in H as [H1 H2]. unfold ev in *. cbn [eval]. rewrite (IHb H1), (IHe H2). reflexivity.
  - cbn [dfree] in H. rewrite dfree_list in H. unfold ev. rewrite !eval_fn.
    pose proof (evs_congr nu (updd dl y t x) nu dl (fun e => e) l (forall_and _ _ l IH H)) as E. rewrite map_id in E.
    unfold evs in E. rewrite E. reflexivity.
  - (* derivative atom *)
    unfold ev. destruct a as [| | |va| | | | | | | | | |]; try reflexivity. destruct b as [| | |vb| | | | | | | | | |]; try reflexivity.
    destruct k as [|[p|p|]|p]; try reflexivity.
    cbn [dfree] in H. cbn [eval]. unfold dsem_of, updd. apply negb_true_iff in H. rewrite H. reflexivity.
  - cbn [dfree] in H. apply andb_true_iff in H as [H1 H2]. unfold ev in *. cbn [eval]. rewrite (IHa H1), (IHb H2). reflexivity.
  - cbn [dfree] in H. rewrite dfree_list in H. unfold ev. rewrite !eval_bool.
    pose proof (evs_congr nu (updd dl y t x) nu dl (fun e => e) l (forall_and _ _ l IH H)) as E. rewrite map_id in E.
    unfold evs in E. rewrite E. reflexivity.
  - cbn [dfree] in H. rewrite dfree_plist in H. unfold ev. rewrite !eval_pw.
    assert (F : Forall (fun xc => ev nu (updd dl y t x) (fst xc) = ev nu dl (fst xc) /\ ev nu (updd dl y t x) (snd xc) = ev nu dl (snd xc)) l).
    { clear -IH H. induction IH as [|xc r [Hx Hc] _ IHr]; cbn [forallb] in H; [constructor|].
      apply andb_true_iff in H as [H1 H2]. apply andb_true_iff in H1 as [Ha Hb].
      constructor; [split; [apply Hx; exact Ha|apply Hc; exact Hb]|apply IHr; exact H2]. }
    pose proof (evpw_congr nu (updd dl y t x) nu dl (fun e => e) l F) as E.
    cbv beta in E. rewrite map_pair_id in E. exact E.
Qed.

(* ---- replacing the derivative atom d y/d t by a variable w that holds its value ------------------------------ *)
Lemma ev_subst y t w nu dl e : nu w = dl y t ->
  ev nu dl (subst_deriv [((y, t), w)] e) = ev nu dl e.
Proof.
  intros Hw.
  induction e as [k q|c|id q u|v|l IH|l IH|b e IHb IHe|f l IH|a b k IHy IHt|r a b IHa IHb|op l IH| | |l IH] using expr_ind';
    try reflexivity.
  - cbn [subst_deriv]. rewrite subst_list. unfold ev. rewrite !eval_add.
    pose proof (evs_congr nu dl nu dl (subst_deriv [((y, t), w)]) l IH) as E. unfold evs in E. rewrite E. reflexivity.
  - cbn [subst_deriv]. rewrite subst_list. unfold ev. rewrite !eval_mul.
    pose proof (evs_congr nu dl nu dl (subst_deriv [((y, t), w)]) l IH) as E. unfold evs in E. rewrite E. reflexivity.
  - cbn [subst_deriv]. unfold ev in *. cbn [eval]. rewrite IHb, IHe. reflexivity.
  - cbn [subst_deriv]. rewrite subst_list. unfold ev. rewrite !eval_fn.
    pose proof (evs_congr nu dl nu dl (subst_deriv [((y, t), w)]) l IH) as E. unfold evs in E. rewrite E. reflexivity.
  - (* the atom itself *)
    destruct a as [| | |va| | | | | | | | | |]; try reflexivity. destruct b as [| | |vb| | | | | | | | | |]; try reflexivity.
    destruct k as [|[p|p|]|p]; try reflexivity.
    cbn [subst_deriv find fst snd].
    destruct (Nat.eqb y (Z.to_nat va) && Nat.eqb t (Z.to_nat vb)) eqn:Hm.
    + apply andb_true_iff in Hm as [H1 H2]. apply Nat.eqb_eq in H1. apply Nat.eqb_eq in H2.
      unfold ev, var. cbn [eval snd]. unfold vsem_of, dsem_of. rewrite Nat2Z.id, <- H1, <- H2, Hw. reflexivity.
    + reflexivity.
  - cbn [subst_deriv]. unfold ev in *. cbn [eval]. rewrite IHa, IHb. reflexivity.
  - cbn [subst_deriv]. rewrite subst_list. unfold ev. rewrite !eval_bool.
    pose proof (evs_congr nu dl nu dl (subst_deriv [((y, t), w)]) l IH) as E. unfold evs in E. rewrite E. reflexivity.
  - cbn [subst_deriv]. rewrite subst_plist. unfold ev. rewrite !eval_pw.
    apply (evpw_congr nu dl nu dl (subst_deriv [((y, t), w)]) l). exact IH.
Qed.

(* after the substitution the atom no longer occurs *)
Lemma subst_dfree y t w e : dfree y t (subst_deriv [((y, t), w)] e) = true.
Proof.
  induction e as [k q|c|id q u|v|l IH|l IH|b e IHb IHe|f l IH|a b k IHy IHt|r a b IHa IHb|op l IH| | |l IH] using expr_ind';
    try reflexivity.
  - cbn [subst_deriv dfree]. rewrite subst_list, dfree_list, forallb_forall. intros x Hx.
    apply in_map_iff in Hx as [x0 [<- Hx0]]. rewrite Forall_forall in IH. apply IH. exact Hx0.
  - cbn [subst_deriv dfree]. rewrite subst_list, dfree_list, forallb_forall. intros x Hx.
    apply in_map_iff in Hx as [x0 [<- Hx0]]. rewrite Forall_forall in IH. apply IH. exact Hx0.
  - cbn [subst_deriv dfree]. rewrite IHb, IHe. reflexivity.
  - cbn [subst_deriv dfree]. rewrite subst_list, dfree_list, forallb_forall. intros x Hx.
    apply in_map_iff in Hx as [x0 [<- Hx0]]. rewrite Forall_forall in IH. apply IH. exact Hx0.
  - destruct a as [| | |va| | | | | | | | | |]; try reflexivity. destruct b as [| | |vb| | | | | | | | | |]; try reflexivity.
    destruct k as [|[p|p|]|p]; try reflexivity.
    cbn [subst_deriv find fst snd].
    destruct (Nat.eqb y (Z.to_nat va) && Nat.eqb t (Z.to_nat vb)) eqn:Hm; [reflexivity|].
    cbn [dfree]. apply negb_true_iff. rewrite (Nat.eqb_sym (Z.to_nat va) y), (Nat.eqb_sym (Z.to_nat vb) t). exact Hm.
  - cbn [subst_deriv dfree]. rewrite IHa, IHb. reflexivity.
  - cbn [subst_deriv dfree]. rewrite subst_list, dfree_list, forallb_forall. intros x Hx.
    apply in_map_iff in Hx as [x0 [<- Hx0]]. rewrite Forall_forall in IH. apply IH. exact Hx0.
  - cbn [subst_deriv dfree]. rewrite subst_plist, dfree_plist, forallb_forall. intros xc Hx.
    apply in_map_iff in Hx as [[x0 c0] [<- Hx0]]. cbn [fst snd]. rewrite Forall_forall in IH.
    destruct (IH _ Hx0) as [A B]. cbn [fst snd] in A, B. rewrite A, B. reflexivity.
Qed.

End Sem.
