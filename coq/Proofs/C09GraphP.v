(* Well-formedness of the graphs produced by build_graph / number_graph (Model/ModelSM.v): discharges the
   hypotheses eq_owner, nodes_unique and "edge targets are nodes" of the C09 theorems, and shows that every
   reference on a right-hand side has its dependency edge. *)
From Coq Require Import List ZArith QArith Bool Lia Arith.
From Verif Require Import Sexp ModelSM C09P.
Import ListNotations.

Section WithPool.
Variable pool : list eqrec.

Definition wf_nodes (ns : list gnode) : Prop :=
  NoDup (map n_ref ns) /\
  forall n e, In n ns -> n_eq n = Some e -> lhs_ref (eq_lhs pool e) = Some (n_ref n).

Lemma has_node_spec ns r : has_node ns r = true <-> In r (map n_ref ns).
Proof.
  unfold has_node. rewrite existsb_exists, in_map_iff. split.
  - intros [n [Hin Hr]]. exists n. destruct (ref_eqb_spec (n_ref n) r); [split; assumption|discriminate].
  - intros [n [E Hin]]. exists n. split; [exact Hin|]. subst r. destruct (ref_eqb_spec (n_ref n) (n_ref n)); congruence.
Qed.

Lemma add_eq_node_refs ns r e :
  map n_ref (add_eq_node ns r e) = if has_node ns r then map n_ref ns else map n_ref ns ++ [r].
Proof.
  induction ns as [|n t IH]; cbn [add_eq_node map has_node existsb]; [reflexivity|].
  destruct (ref_eqb_spec (n_ref n) r) as [E|Hne]; cbn [orb map n_ref].
  - rewrite E. reflexivity.
  - rewrite IH. unfold has_node. destruct (existsb _ t); reflexivity.
Qed.

(* a cleaner route: reason with NoDup from the start *)
Lemma add_eq_node_wf ns r e : wf_nodes ns -> lhs_ref (eq_lhs pool e) = Some r -> wf_nodes (add_eq_node ns r e).
Proof.
  intros [Hnd Ho] Hl. split.
  - rewrite add_eq_node_refs. destruct (has_node ns r) eqn:Hh; [exact Hnd|].
    apply NoDup_Add with (a := r) (l := map n_ref ns).
    + rewrite <- (app_nil_r (map n_ref ns)) at 1. apply Add_app.
    + split; [exact Hnd|]. intro Hin. apply has_node_spec in Hin. congruence.
  - clear Hnd. induction ns as [|m t IH]; cbn [add_eq_node In]; intros n e' Hin He.
    + destruct Hin as [<-|[]]. cbn in He. injection He as <-. exact Hl.
    + destruct (ref_eqb_spec (n_ref m) r) as [E|Hne]; cbn [In] in Hin.
      * destruct Hin as [<-|Hin]; [cbn in He; injection He as <-; exact Hl|].
        apply (Ho n e'); [right; exact Hin|exact He].
      * destruct Hin as [<-|Hin]; [apply (Ho m e'); [left; reflexivity|exact He]|].
        apply IH; [|exact Hin|exact He]. intros n0 e0 Hn0. apply Ho. right. exact Hn0.
Qed.

Lemma scan_eqs_wf l : forall ns ty, wf_nodes ns -> wf_nodes (fst (scan_eqs pool l ns ty)).
Proof.
  induction l as [|e l IH]; intros ns ty Hwf; cbn [scan_eqs]; [exact Hwf|].
  destruct (nth_error pool e) as [q|] eqn:Hq; [|apply IH; exact Hwf].
  destruct (e_lhs q) as [v|v t o n|] eqn:El; [| |apply IH; exact Hwf].
  - apply IH. apply add_eq_node_wf; [exact Hwf|]. unfold eq_lhs. rewrite Hq, El. reflexivity.
  - apply IH. apply add_eq_node_wf; [exact Hwf|]. unfold eq_lhs. rewrite Hq, El. reflexivity.
Qed.

Lemma has_node_add_eq ns r e x : has_node ns x = true -> has_node (add_eq_node ns r e) x = true.
Proof.
  rewrite !has_node_spec, add_eq_node_refs. destruct (has_node ns r); [auto|]. intros H. apply in_or_app. left. exact H.
Qed.
Lemma has_node_add_eq_self ns r e : has_node (add_eq_node ns r e) r = true.
Proof.
  rewrite has_node_spec, add_eq_node_refs. destruct (has_node ns r) eqn:H; [apply has_node_spec; exact H|].
  apply in_or_app. right. left. reflexivity.
Qed.

Lemma scan_eqs_mono l : forall ns ty x, has_node ns x = true -> has_node (fst (scan_eqs pool l ns ty)) x = true.
Proof.
  induction l as [|e l IH]; intros ns ty x H; cbn [scan_eqs]; [exact H|].
  destruct (nth_error pool e) as [q|]; [|apply IH; exact H].
  destruct (e_lhs q); try (apply IH; exact H); apply IH; apply has_node_add_eq; exact H.
Qed.

Lemma scan_eqs_has l : forall ns ty e q lr, In e l -> nth_error pool e = Some q -> lhs_ref (e_lhs q) = Some lr ->
  has_node (fst (scan_eqs pool l ns ty)) lr = true.
Proof.
  induction l as [|e0 l IH]; intros ns ty e q lr Hin Hq Hl; [contradiction|]. cbn [scan_eqs].
  destruct Hin as [->|Hin].
  - rewrite Hq. destruct (e_lhs q) as [v|v t o n|]; cbn [lhs_ref] in Hl; [| |discriminate];
      injection Hl as <-; apply scan_eqs_mono; apply has_node_add_eq_self.
  - destruct (nth_error pool e0) as [q0|]; [|apply (IH _ _ e q); assumption].
    destruct (e_lhs q0); apply (IH _ _ e q); assumption.
Qed.

(* linking *)
Lemma add_plain_node_wf ns r t : wf_nodes ns -> wf_nodes (add_plain_node ns r t).
Proof.
  intros [Hnd Ho]. unfold add_plain_node. destruct (has_node ns r) eqn:Hh; [split; assumption|]. split.
  - rewrite map_app. cbn [map n_ref]. apply NoDup_Add with (a := r) (l := map n_ref ns).
    + rewrite <- (app_nil_r (map n_ref ns)) at 1. apply Add_app.
    + split; [exact Hnd|]. intro Hin. apply has_node_spec in Hin. congruence.
  - intros n e Hin He. apply in_app_or in Hin as [Hin|[<-|[]]]; [apply Ho; assumption|discriminate].
Qed.

Lemma has_node_add_plain ns r t x : has_node ns x = true -> has_node (add_plain_node ns r t) x = true.
Proof.
  unfold add_plain_node. destruct (has_node ns r); [auto|]. rewrite !has_node_spec, map_app.
  intros H. apply in_or_app. left. exact H.
Qed.

Lemma add_edge_in es a b ed : In ed (add_edge es a b) <-> In ed es \/ ed = (a, b).
Proof.
  unfold add_edge. destruct (existsb _ es) eqn:Hex.
  - split; [auto|]. intros [H| ->]; [exact H|]. apply existsb_exists in Hex as [[x y] [Hin Hxy]]. cbn in Hxy.
    apply andb_true_iff in Hxy as [H1 H2]. destruct (ref_eqb_spec x a), (ref_eqb_spec y b); try discriminate. subst. exact Hin.
  - rewrite in_app_iff. cbn [In]. split; [intros [H|[<-|[]]]; auto|intros [H| ->]; auto].
Qed.

(* the state of linking: well-formed nodes, every edge target is a node *)
Definition link_ok (st : list gnode * list (ref * ref)) : Prop :=
  wf_nodes (fst st) /\ forall a b, In (a, b) (snd st) -> has_node (fst st) b = true.

Lemma link_ref_ok ty l st r st' : link_ok st -> has_node (fst st) l = true ->
  link_ref ty l (MOk st) r = MOk st' ->
  link_ok st' /\ (forall x, has_node (fst st) x = true -> has_node (fst st') x = true) /\
  (forall ed, In ed (snd st) -> In ed (snd st')) /\ In (r, l) (snd st').
Proof.
  destruct st as [ns es]. intros [Hwf He] Hl. cbn [link_ref fst snd] in *.
  destruct (has_node ns r) eqn:Hr.
  - intros [= <-]. cbn [fst snd]. split; [split; [exact Hwf|]|].
    + intros a b Hin. apply add_edge_in in Hin as [Hin|[= -> ->]]; [apply (He a b Hin)|exact Hl].
    + split; [auto|]. split; [intros ed H; apply add_edge_in; left; exact H|apply add_edge_in; right; reflexivity].
  - destruct r as [v|v t]; [|discriminate].
    destruct (dget Nat.eqb ty v) as [[|[[p|p|]|[p|p|]|]|p]|]; try discriminate;
      intros [= <-]; cbn [fst snd]; (split; [split; [apply add_plain_node_wf; exact Hwf|]|]);
      try (intros a b Hin; apply add_edge_in in Hin as [Hin|[= -> ->]];
           [apply has_node_add_plain; apply (He a b Hin)|apply has_node_add_plain; exact Hl]);
      (split; [intros x Hx; apply has_node_add_plain; exact Hx|]);
      (split; [intros ed H; apply add_edge_in; left; exact H|apply add_edge_in; right; reflexivity]).
Qed.

Lemma fold_link_ref_ok ty l refs : forall st st', link_ok st -> has_node (fst st) l = true ->
  fold_left (link_ref ty l) refs (MOk st) = MOk st' ->
  link_ok st' /\ (forall x, has_node (fst st) x = true -> has_node (fst st') x = true) /\
  (forall ed, In ed (snd st) -> In ed (snd st')) /\ (forall r, In r refs -> In (r, l) (snd st')).
Proof.
  induction refs as [|r refs IH]; intros st st' Hok Hl H; cbn [fold_left] in H.
  - injection H as <-. split; [exact Hok|]. split; [auto|]. split; [auto|]. intros r [].
  - destruct (link_ref ty l (MOk st) r) as [st1|e] eqn:H1.
    + destruct (link_ref_ok ty l st r st1 Hok Hl H1) as [Hok1 [Hm1 [He1 Hin1]]].
      destruct (IH st1 st' Hok1 (Hm1 l Hl) H) as [Hok' [Hm' [He' Hin']]].
      split; [exact Hok'|]. split; [intros x Hx; apply Hm'; apply Hm1; exact Hx|].
      split; [intros ed Hed; apply He'; apply He1; exact Hed|].
      intros r' [<-|Hr']; [apply He'; exact Hin1|apply Hin'; exact Hr'].
    + exfalso. clear -H. induction refs as [|r' refs IH']; cbn [fold_left] in H; [discriminate|]. apply IH'. exact H.
Qed.

Lemma link_eqs_err l ty e : link_eqs pool l ty (MErr e) = MErr e.
Proof. induction l as [|x l IH]; cbn [link_eqs]; reflexivity. Qed.

Lemma link_eqs_ok l ty : forall st st', link_ok st ->
  (forall e q lr, In e l -> nth_error pool e = Some q -> lhs_ref (e_lhs q) = Some lr -> has_node (fst st) lr = true) ->
  link_eqs pool l ty (MOk st) = MOk st' ->
  link_ok st' /\ (forall x, has_node (fst st) x = true -> has_node (fst st') x = true) /\
  (forall ed, In ed (snd st) -> In ed (snd st')) /\
  (forall e q lr r, In e l -> nth_error pool e = Some q -> lhs_ref (e_lhs q) = Some lr -> In r (e_refs q) ->
     In (r, lr) (snd st')).
Proof.
  induction l as [|e l IH]; intros st st' Hok Hlhs H; cbn [link_eqs] in H.
  - injection H as <-. split; [exact Hok|]. split; [auto|]. split; [auto|]. intros e q lr r [].
  - destruct (nth_error pool e) as [q|] eqn:Hq.
    2:{ destruct (IH st st' Hok) as [A [B [C D]]]; [intros e' q' lr' Hin; apply Hlhs; right; exact Hin|exact H|].
        split; [exact A|]. split; [exact B|]. split; [exact C|]. intros e' q' lr r [->|Hin] Hq'; [congruence|apply (D e' q' lr r Hin Hq')]. }
    destruct (lhs_ref (e_lhs q)) as [lr|] eqn:Hl.
    2:{ destruct (IH st st' Hok) as [A [B [C D]]]; [intros e' q' lr' Hin; apply Hlhs; right; exact Hin|exact H|].
        split; [exact A|]. split; [exact B|]. split; [exact C|]. intros e' q' lr r [->|Hin] Hq' Hl'; [congruence|apply (D e' q' lr r Hin Hq' Hl')]. }
    assert (Hlr : has_node (fst st) lr = true) by (apply (Hlhs e q lr); [left; reflexivity|exact Hq|exact Hl]).
    destruct (fold_left (link_ref ty lr) (e_refs q) (MOk st)) as [st1|err] eqn:Hf.
    2:{ destruct (e_lhs q); rewrite link_eqs_err in H; discriminate. }
    destruct (fold_link_ref_ok ty lr (e_refs q) st st1 Hok Hlr Hf) as [Hok1 [Hm1 [He1 Hin1]]].
    (* the optional extra nodes for an ODE *)
    set (st2 := match e_lhs q with
                | LDeriv v t _ _ => (add_plain_node (add_plain_node (fst st1) (RVar t) (dget Nat.eqb ty t)) (RVar v) (dget Nat.eqb ty v), snd st1)
                | _ => st1 end).
    assert (H2 : link_eqs pool l ty (MOk st2) = MOk st').
    { unfold st2. destruct st1 as [ns1 es1]. destruct (e_lhs q); exact H. }
    assert (Hok2 : link_ok st2 /\ (forall x, has_node (fst st1) x = true -> has_node (fst st2) x = true) /\ snd st2 = snd st1).
    { unfold st2. destruct (e_lhs q) as [v|v t o n|]; try (split; [exact Hok1|split; [auto|reflexivity]]).
      cbn [fst snd]. destruct Hok1 as [Hw He]. split; [split|split].
      - apply add_plain_node_wf, add_plain_node_wf. exact Hw.
      - intros a b Hin. apply has_node_add_plain, has_node_add_plain. apply (He a b Hin).
      - intros x Hx. apply has_node_add_plain, has_node_add_plain. exact Hx.
      - reflexivity. }
    destruct Hok2 as [Hok2 [Hm2 Hs2]].
    destruct (IH st2 st' Hok2) as [A [B [C D]]]; [|exact H2|].
    + intros e' q' lr' Hin Hq' Hl'. apply Hm2, Hm1. apply (Hlhs e' q' lr'); [right; exact Hin|exact Hq'|exact Hl'].
    + split; [exact A|]. split; [intros x Hx; apply B, Hm2, Hm1; exact Hx|].
      split; [intros ed Hed; apply C; rewrite Hs2; apply He1; exact Hed|].
      intros e' q' lr' r [->|Hin] Hq' Hl' Hr.
      * rewrite Hq in Hq'. injection Hq' as <-. rewrite Hl in Hl'. injection Hl' as <-.
        apply C. rewrite Hs2. apply Hin1. exact Hr.
      * apply (D e' q' lr' r Hin Hq' Hl' Hr).
Qed.

Lemma finish_types_refs ty ns ns' : finish_types ty ns = MOk ns' ->
  map n_ref ns' = map n_ref ns /\ map n_eq ns' = map n_eq ns.
Proof.
  revert ns'. induction ns as [|n t IH]; intros ns' H; cbn [finish_types fold_right] in H.
  - injection H as <-. split; reflexivity.
  - fold (finish_types ty t) in H. destruct (finish_types ty t) as [l|] eqn:Ht; [|discriminate].
    destruct (IH l eq_refl) as [A B].
    destruct (n_ref n) as [v|v u] eqn:Hr.
    + destruct (dget Nat.eqb ty v); [|discriminate]. injection H as <-. cbn [map n_ref n_eq]. rewrite A, B, Hr. split; reflexivity.
    + injection H as <-. cbn [map]. rewrite A, B. split; reflexivity.
Qed.

Lemma wf_nodes_same ns ns' : map n_ref ns' = map n_ref ns -> map n_eq ns' = map n_eq ns -> wf_nodes ns -> wf_nodes ns'.
Proof.
  intros Hr He [Hnd Ho]. split; [rewrite Hr; exact Hnd|].
  revert ns Hr He Hnd Ho. induction ns' as [|n' t' IH]; intros [|n t] Hr He Hnd Ho m e Hin Hm; cbn [map] in *; try discriminate; [contradiction|].
  injection Hr as Hr0 Hr. injection He as He0 He. destruct Hin as [<-|Hin].
  - rewrite Hr0. apply (Ho n e); [left; reflexivity|congruence].
  - apply (IH t Hr He); [inversion Hnd; assumption| |exact Hin|exact Hm]. intros n0 e0 Hn0. apply Ho. right. exact Hn0.
Qed.

(* ---- the main facts ------------------------------------------------------------------------------------ *)
Theorem build_graph_wf s g : build_graph pool s = MOk g ->
  eq_owner pool g /\ nodes_unique g /\
  (forall a b, In (a, b) (edges g) -> In b (node_refs g)) /\
  (* every reference on the right-hand side of every equation has its dependency edge *)
  (forall e q lr r, In e (eqs s) -> nth_error pool e = Some q -> lhs_ref (e_lhs q) = Some lr -> In r (e_refs q) ->
     In (r, lr) (edges g)).
Proof.
  unfold build_graph. destruct (scan_eqs pool (eqs s) [] []) as [ns ty] eqn:Hs.
  destruct (negb (Nat.eqb (length ns) (length (eqs s)))); [discriminate|].
  destruct (link_eqs pool (eqs s) ty (MOk (ns, []))) as [[ns' es]|] eqn:Hl; [|discriminate].
  destruct (finish_types ty ns') as [ns''|] eqn:Hf; [|discriminate]. intros [= <-].
  assert (Hns : ns = fst (scan_eqs pool (eqs s) [] [])) by (rewrite Hs; reflexivity).
  assert (Hwf0 : wf_nodes ns) by (rewrite Hns; apply scan_eqs_wf; split; [constructor|intros n e []]).
  destruct (link_eqs_ok (eqs s) ty (ns, []) (ns', es)) as [[Hwf He] [_ [_ Hrefs]]]; [split; [exact Hwf0|intros a b []]| |exact Hl|].
  - intros e q lr Hin Hq Hlr. cbn [fst]. rewrite Hns. apply (scan_eqs_has (eqs s) [] [] e q lr Hin Hq Hlr).
  - destruct (finish_types_refs ty ns' ns'' Hf) as [Hr Heq]. cbn [fst snd] in *.
    pose proof (wf_nodes_same ns' ns'' Hr Heq Hwf) as [Hnd Ho].
    split; [intros n e Hin Hn; apply (Ho n e Hin Hn)|]. split; [exact Hnd|].
    split; [|exact Hrefs].
    intros a b Hin. unfold node_refs. cbn [nodes]. rewrite Hr. apply has_node_spec. apply (He a b Hin).
Qed.

Theorem number_graph_wf g : eq_owner pool g -> nodes_unique g ->
  eq_owner pool (number_graph pool g) /\ nodes_unique (number_graph pool g).
Proof.
  intros Ho Hu. destruct (number_graph_same_nodes pool g) as [Hr He]. unfold nodes_unique, node_refs.
  pose proof (wf_nodes_same (nodes g) (nodes (number_graph pool g)) Hr He (conj Hu Ho)) as [A B].
  split; [exact B|exact A].
Qed.

End WithPool.

(* the order theorem stated on the equations themselves: every variable / derivative referenced on the right-hand
   side of a returned equation has no equation of its own (a state or the free variable) or was returned earlier *)
Theorem evaluable_order_refs pool s g req out : build_graph pool s = MOk g ->
  equations_for s g req true = MOk out ->
  forall o1 x o2, out = o1 ++ x :: o2 -> In (fst x) (eqs s) ->
  forall q, nth_error pool (fst x) = Some q ->
  forall r, In r (e_refs q) -> match node_eq g r with Some y => In y o1 | None => True end.
Proof.
  intros Hb H o1 x o2 E Hin q Hq r Hr.
  destruct (build_graph_wf pool s g Hb) as [Ho [Hu [_ Hrefs]]].
  assert (Hx : In x out) by (rewrite E; apply in_or_app; right; left; reflexivity).
  apply (out_exact_set s g req true out Hu H) in Hx as [r0 [Hx _]].
  destruct (node_eq_some g r0 x Hx) as [n [A [B [C _]]]].
  pose proof (Ho n (fst x) A C) as Hl. unfold eq_lhs in Hl. rewrite Hq in Hl. rewrite B in Hl.
  pose proof (Hrefs (fst x) q r0 r Hin Hq Hl Hr) as He.
  apply (out_evaluable_order pool s g req out Ho H o1 x o2 E r0 Hx r He).
Qed.
