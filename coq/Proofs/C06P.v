(* C06: convert_variable never changes what the model computes (Model/ConvertVar.v). *)
From Coq Require Import List ZArith QArith Bool Lia Reals Lra Qreals.
From Verif Require Import Sexp UnitAlg UnitAlgP Expr Eval EvalP ModelSM ConvertVar C06EvalP.
Import ListNotations.
Open Scope R_scope.

Section Sem.
Variable fsem : Z -> list R -> option R.
Variable psem : R -> R -> option R.
Variable csem : Z -> option R.
(* the only law of powers the conversion relies on: x ** -1 is the reciprocal *)
Hypothesis psem_inv : forall x, x <> 0 -> psem x (Q2R (-1 # 1)) = Some (/ x).

Notation ev := (ev fsem psem csem).

Definition sat1 (nu : nat -> R) (dl : nat -> nat -> R) (q : ceq) : Prop :=
  match ev nu dl (q_rhs q) with
  | Some (VR r) => match q_lhs q with CLV v => nu v = r | CLD v t => dl v t = r end
  | _ => False
  end.
Definition Sat (nu : nat -> R) (dl : nat -> nat -> R) (l : list ceq) : Prop := Forall (sat1 nu dl) l.

Lemma sat1_upd n x nu dl q : fresh_var1 n q = true -> (sat1 (upd nu n x) dl q <-> sat1 nu dl q).
Proof.
  unfold fresh_var1, sat1. intros H. apply andb_true_iff in H as [Hl Hr].
  rewrite (ev_vfree fsem psem csem n x nu dl (q_rhs q) Hr).
  destruct (ev nu dl (q_rhs q)) as [[r|b]|]; try tauto.
  destruct (q_lhs q) as [v|v t]; [|tauto]. unfold upd. apply negb_true_iff in Hl. rewrite Hl. tauto.
Qed.

Lemma Sat_upd n x nu dl l : fresh_var n l = true -> (Sat (upd nu n x) dl l <-> Sat nu dl l).
Proof.
  unfold fresh_var, Sat. intros H. rewrite !Forall_forall. rewrite forallb_forall in H.
  split; intros HS q Hq; [apply (sat1_upd n x nu dl q (H q Hq)), HS, Hq|apply (sat1_upd n x nu dl q (H q Hq)), HS, Hq].
Qed.

Lemma sat1_updd y t x nu dl q : fresh_atom1 y t q = true -> (sat1 nu (updd dl y t x) q <-> sat1 nu dl q).
Proof.
  unfold fresh_atom1, sat1. intros H. apply andb_true_iff in H as [Hl Hr].
  rewrite (ev_dfree fsem psem csem y t x nu dl (q_rhs q) Hr).
  destruct (ev nu dl (q_rhs q)) as [[r|b]|]; try tauto.
  destruct (q_lhs q) as [v|v t0]; [tauto|]. unfold updd. apply negb_true_iff in Hl. rewrite Hl. tauto.
Qed.

Lemma Sat_updd y t x nu dl l : fresh_atom y t l = true -> (Sat nu (updd dl y t x) l <-> Sat nu dl l).
Proof.
  unfold fresh_atom, Sat. intros H. rewrite !Forall_forall. rewrite forallb_forall in H.
  split; intros HS q Hq; [apply (sat1_updd y t x nu dl q (H q Hq)), HS, Hq|apply (sat1_updd y t x nu dl q (H q Hq)), HS, Hq].
Qed.

(* values of the expressions the conversion builds *)
Lemma ev_var nu dl i : ev nu dl (var i) = Some (VR (nu i)).
Proof. unfold C06EvalP.ev, var. cbn [eval]. unfold vsem_of. rewrite Nat2Z.id. reflexivity. Qed.

Lemma ev_emul nu dl a id c u r : ev nu dl a = Some (VR r) ->
  ev nu dl (emul a (EQty id c u)) = Some (VR (r * Q2R c)).
Proof.
  intros Ha. unfold C06EvalP.ev, emul in *. rewrite eval_mul. cbn [evals]. rewrite Ha. cbn [eval evals option_map qsemN reals fold_right].
  f_equal. f_equal. ring.
Qed.

Lemma ev_emul_inv nu dl a id c u r : ev nu dl (emul a (EQty id c u)) = Some (VR r) ->
  exists ra, ev nu dl a = Some (VR ra) /\ r = ra * Q2R c.
Proof.
  unfold C06EvalP.ev, emul. rewrite eval_mul. cbn [evals].
  destruct (eval fsem psem csem qsemN (vsem_of nu) (dsem_of dl) a) as [[ra|b]|]; cbn [eval evals option_map qsemN reals fold_right]; try discriminate.
  intros [= <-]. exists ra. split; [reflexivity|ring].
Qed.

Lemma ev_ediv nu dl a id c u r : Q2R c <> 0 -> ev nu dl a = Some (VR r) ->
  ev nu dl (ediv a (EQty id c u)) = Some (VR (r / Q2R c)).
Proof.
  intros Hc Ha. unfold C06EvalP.ev, ediv in *. rewrite eval_mul. cbn [evals]. rewrite Ha.
  cbn [eval option_map qsemN]. rewrite (psem_inv _ Hc). cbn [option_map evals reals fold_right].
  f_equal. f_equal. unfold Rdiv. ring.
Qed.

Lemma ev_ediv_inv nu dl a id c u r : Q2R c <> 0 -> ev nu dl (ediv a (EQty id c u)) = Some (VR r) ->
  exists ra, ev nu dl a = Some (VR ra) /\ r = ra / Q2R c.
Proof.
  intros Hc. unfold C06EvalP.ev, ediv. rewrite eval_mul. cbn [evals].
  destruct (eval fsem psem csem qsemN (vsem_of nu) (dsem_of dl) a) as [[ra|b]|]; cbn [eval option_map qsemN];
    rewrite ?(psem_inv _ Hc); cbn [option_map evals reals fold_right]; try discriminate.
  intros [= <-]. exists ra. split; [reflexivity|unfold Rdiv; ring].
Qed.

(* removing the first equation with a given left-hand side *)
Lemma Sat_remove nu dl l lhs q :
  find (fun q => clhs_eqb (q_lhs q) lhs) l = Some q ->
  (Sat nu dl l <-> sat1 nu dl q /\ Sat nu dl (remove_eq l lhs)).
Proof.
  unfold Sat. induction l as [|x r IH]; cbn [find remove_eq]; [discriminate|].
  destruct (clhs_eqb (q_lhs x) lhs) eqn:E.
  - intros [= <-]. split; [intros H; inversion H; subst; split; assumption|intros [A B]; constructor; assumption].
  - intros Hf. specialize (IH Hf). split.
    + intros H. inversion H as [|? ? Hx Hr]; subst. apply IH in Hr as [A B]. split; [exact A|constructor; assumption].
    + intros [A B]. inversion B as [|? ? Hx Hr]; subst. constructor; [exact Hx|]. apply IH. split; assumption.
Qed.

Lemma remove_eq_sub l lhs q : In q (remove_eq l lhs) -> In q l.
Proof.
  induction l as [|x r IH]; cbn [remove_eq]; [auto|]. destruct (clhs_eqb (q_lhs x) lhs); [intros H; right; exact H|].
  intros [<-|H]; [left; reflexivity|right; apply IH; exact H].
Qed.

Lemma fresh_var_remove n l lhs : fresh_var n l = true -> fresh_var n (remove_eq l lhs) = true.
Proof.
  unfold fresh_var. rewrite !forallb_forall. intros H q Hq. apply H. apply (remove_eq_sub l lhs q Hq).
Qed.

(* ---- OUTPUT: a new variable defined as  original x factor ------------------------------------------------ *)
Theorem output_equiv l v n id c u nu dl :
  fresh_var n l = true -> v <> n ->
  let l' := l ++ [{| q_lhs := CLV n; q_rhs := emul (var v) (EQty id c u) |}] in
  (Sat nu dl l -> Sat (upd nu n (nu v * Q2R c)) dl l') /\
  (Sat nu dl l' -> Sat nu dl l /\ nu n = nu v * Q2R c).
Proof.
  intros Hf Hvn l'. split.
  - intros H. unfold Sat, l'. apply Forall_app. split; [apply (Sat_upd n _ nu dl l Hf); exact H|].
    constructor; [|constructor]. unfold sat1. cbn [q_rhs q_lhs].
    rewrite (ev_emul _ dl (var v) id c u (upd nu n (nu v * Q2R c) v)) by apply ev_var.
    unfold upd. rewrite Nat.eqb_refl. destruct (Nat.eqb_spec v n); [contradiction|reflexivity].
  - intros H. unfold Sat, l' in H. apply Forall_app in H as [H1 H2]. split; [exact H1|].
    inversion H2 as [|? ? Hq _]; subst. unfold sat1 in Hq. cbn [q_rhs q_lhs] in Hq.
    rewrite (ev_emul nu dl (var v) id c u (nu v)) in Hq by apply ev_var. exact Hq.
Qed.

(* ---- INPUT, variable defined by an equation  v = rhs:
        the equation becomes  n = rhs x factor  and  v = n / factor -------------------------------------------- *)
Theorem input_computed_equiv l v n id c u q nu dl :
  fresh_var n l = true -> v <> n -> Q2R c <> 0 ->
  find (fun q => clhs_eqb (q_lhs q) (CLV v)) l = Some q ->
  let l' := (remove_eq l (CLV v) ++ [{| q_lhs := CLV n; q_rhs := emul (q_rhs q) (EQty id c u) |}])
            ++ [{| q_lhs := CLV v; q_rhs := ediv (var n) (EQty id c u) |}] in
  (Sat nu dl l -> Sat (upd nu n (nu v * Q2R c)) dl l') /\
  (Sat nu dl l' -> Sat nu dl l /\ nu n = nu v * Q2R c).
Proof.
  intros Hf Hvn Hc Hq l'.
  assert (Hlhs : q_lhs q = CLV v).
  { apply find_some in Hq as [_ E]. destruct (q_lhs q) as [w|w t]; cbn [clhs_eqb] in E; [|discriminate].
    apply Nat.eqb_eq in E. congruence. }
  assert (Hqin : In q l) by (apply find_some in Hq as [A _]; exact A).
  assert (Hfq : fresh_var1 n q = true) by (unfold fresh_var in Hf; rewrite forallb_forall in Hf; apply Hf; exact Hqin).
  split.
  - intros H. apply (Sat_remove nu dl l (CLV v) q Hq) in H as [Hq1 Hrest].
    unfold Sat, l'. apply Forall_app. split; [apply Forall_app; split|].
    + apply (Sat_upd n _ nu dl _ (fresh_var_remove n l (CLV v) Hf)). exact Hrest.
    + constructor; [|constructor]. unfold sat1 in *. cbn [q_rhs q_lhs]. rewrite Hlhs in Hq1.
      unfold fresh_var1 in Hfq. apply andb_true_iff in Hfq as [_ Hfr].
      destruct (ev nu dl (q_rhs q)) as [[r|b]|] eqn:E; try contradiction.
      rewrite (ev_emul _ dl (q_rhs q) id c u r) by (rewrite (ev_vfree fsem psem csem n _ nu dl _ Hfr); exact E).
      unfold upd. rewrite Nat.eqb_refl. rewrite Hq1. reflexivity.
    + constructor; [|constructor]. unfold sat1. cbn [q_rhs q_lhs].
      rewrite (ev_ediv _ dl (var n) id c u _ Hc (ev_var _ dl n)).
      unfold upd. rewrite Nat.eqb_refl. destruct (Nat.eqb_spec v n); [contradiction|]. field. exact Hc.
  - intros H. unfold Sat, l' in H. apply Forall_app in H as [H12 H3]. apply Forall_app in H12 as [H1 H2].
    inversion H2 as [|? ? Hn _]; subst. inversion H3 as [|? ? Hv _]; subst.
    unfold sat1 in Hn, Hv. cbn [q_rhs q_lhs] in Hn, Hv.
    destruct (ev nu dl (emul (q_rhs q) (EQty id c u))) as [[r|b]|] eqn:E; try contradiction.
    destruct (ev_emul_inv nu dl _ id c u r E) as [ra [Era ->]].
    rewrite (ev_ediv nu dl (var n) id c u _ Hc (ev_var nu dl n)) in Hv.
    assert (Hvr : nu v = ra) by (rewrite Hv, Hn; field; exact Hc).
    split; [|rewrite Hn, Hvr; reflexivity].
    apply (Sat_remove nu dl l (CLV v) q Hq). split; [|exact H1].
    unfold sat1. rewrite Era, Hlhs. exact Hvr.
Qed.

(* ---- INPUT, variable without defining equation (an input constant):  v = n / factor  is added ------------------ *)
Theorem input_constant_equiv l v n id c u nu dl :
  fresh_var n l = true -> v <> n -> Q2R c <> 0 ->
  let l' := l ++ [{| q_lhs := CLV v; q_rhs := ediv (var n) (EQty id c u) |}] in
  (Sat nu dl l -> Sat (upd nu n (nu v * Q2R c)) dl l') /\
  (Sat nu dl l' -> Sat nu dl l /\ nu n = nu v * Q2R c).
Proof.
  intros Hf Hvn Hc l'. split.
  - intros H. unfold Sat, l'. apply Forall_app. split; [apply (Sat_upd n _ nu dl l Hf); exact H|].
    constructor; [|constructor]. unfold sat1. cbn [q_rhs q_lhs].
    rewrite (ev_ediv _ dl (var n) id c u _ Hc (ev_var _ dl n)).
    unfold upd. rewrite Nat.eqb_refl. destruct (Nat.eqb_spec v n); [contradiction|]. field. exact Hc.
  - intros H. unfold Sat, l' in H. apply Forall_app in H as [H1 H2]. split; [exact H1|].
    inversion H2 as [|? ? Hq _]; subst. unfold sat1 in Hq. cbn [q_rhs q_lhs] in Hq.
    rewrite (ev_ediv nu dl (var n) id c u _ Hc (ev_var nu dl n)) in Hq. rewrite Hq. field. exact Hc.
Qed.

End Sem.
