(* C10: variable roles and get_value follow from the equations alone (Model/ModelSM.v, Model/ModelValue.v). *)
From Coq Require Import List ZArith QArith Bool Lia Arith.
From Verif Require Import Sexp Expr ModelSM ModelValue C08P C09P.
Import ListNotations.

(* ---- sorting by order_added ----------------------------------------------------------------------- *)
Section Sorting.
  Variable vs : list varrec.
  Definition ord (v : vid) : Z := match nth_error vs v with Some x => v_order x | None => 0%Z end.

  Inductive sorted : list vid -> Prop :=
  | sorted_nil : sorted []
  | sorted_one v : sorted [v]
  | sorted_cons v w l : (ord v <= ord w)%Z -> sorted (w :: l) -> sorted (v :: w :: l).

  Lemma insert_cons v w l :
    insert_by_order vs v (w :: l) = if (ord v <? ord w)%Z then v :: w :: l else w :: insert_by_order vs v l.
  Proof. reflexivity. Qed.

  Lemma insert_sorted v l : sorted l -> sorted (insert_by_order vs v l).
  Proof.
    induction 1 as [|w|w x l Hwx Hs IH].
    - cbn [insert_by_order]. constructor.
    - rewrite insert_cons. destruct (Z.ltb_spec (ord v) (ord w)); cbn [insert_by_order]; constructor; try constructor; lia.
    - rewrite insert_cons. destruct (Z.ltb_spec (ord v) (ord w)) as [Hlt|Hge].
      + constructor; [lia|]. constructor; assumption.
      + rewrite insert_cons in IH. rewrite insert_cons.
        destruct (Z.ltb_spec (ord v) (ord x)) as [Hlt'|Hge'].
        * constructor; [exact Hge|]. exact IH.
        * constructor; [exact Hwx|]. exact IH.
  Qed.

  Lemma sort_sorted l : sorted (sort_by_order vs l).
  Proof.
    unfold sort_by_order.
    assert (H : forall acc, sorted acc -> sorted (fold_left (fun acc v => insert_by_order vs v acc) l acc)).
    { induction l as [|v l IH]; intros acc Ha; cbn [fold_left]; [exact Ha|]. apply IH. apply insert_sorted. exact Ha. }
    apply H. constructor.
  Qed.
End Sorting.

Section WithPool.
Variable pool : list eqrec.
Variable rhs : list expr.

Lemma in_insert_by_order vs v l x : In x (insert_by_order vs v l) <-> x = v \/ In x l.
Proof.
  induction l as [|w l IH]; cbn [insert_by_order In].
  - split; [intros [E|[]]; left; congruence|intros [E|[]]; left; congruence].
  - destruct (Z.ltb _ _); cbn [In].
    + split; [intros [E|H]; [left; congruence|right; exact H]|intros [E|H]; [left; congruence|right; exact H]].
    + rewrite IH. split.
      * intros [E|[E|H]]; [right; left; exact E|left; exact E|right; right; exact H].
      * intros [E|[E|H]]; [right; left; exact E|left; exact E|right; right; exact H].
Qed.

Lemma in_sort_by_order vs l x : In x (sort_by_order vs l) <-> In x l.
Proof.
  unfold sort_by_order.
  assert (H : forall acc, In x (fold_left (fun acc v => insert_by_order vs v acc) l acc) <-> In x l \/ In x acc).
  { induction l as [|v l IH]; intros acc; cbn [fold_left In].
    - split; [intros H; right; exact H|intros [[]|H]; exact H].
    - rewrite IH, in_insert_by_order. split.
      + intros [H|[E|H]]; [left; right; exact H|left; left; congruence|right; exact H].
      + intros [[E|H]|H]; [right; left; congruence|left; exact H|right; right; exact H]. }
  rewrite H. cbn [In]. split; [intros [H0|[]]; exact H0|intros H0; left; exact H0].
Qed.

(* ---- roles ------------------------------------------------------------------------------------------------ *)
(* the state variables are exactly the variables that some equation of the model defines by an ODE, listed in
   order_added order *)
Theorem states_are_ode_lhs s : Coherent pool s ->
  (forall v, In v (get_state_variables s) <->
             exists e t o n, In e (eqs s) /\ eq_lhs pool e = LDeriv v t o n) /\
  sorted (vars s) (get_state_variables s).
Proof.
  intros Hc. split; [|apply sort_sorted].
  intros v. unfold get_state_variables. rewrite in_sort_by_order, (co_odef pool s Hc).
  unfold ode_index. rewrite in_map_iff. split.
  - intros [[v' e] [E Hin]]. cbn in E. subst v'. apply in_flat_map in Hin as [e' [He' Hk]].
    unfold okey in Hk. destruct (eq_lhs pool e') as [w|w t o n|] eqn:El; try contradiction.
    destruct Hk as [[= -> ->]|[]]. exists e, t, o, n. split; assumption.
  - intros [e [t [o [n [Hin El]]]]]. exists (v, e). split; [reflexivity|].
    apply in_flat_map. exists e. split; [exact Hin|]. unfold okey. rewrite El. left. reflexivity.
Qed.

(* the free variable: an error without ODEs; otherwise the variable the first ODE differentiates by -- hence, when
   all ODEs differentiate by the same variable, that variable *)
Theorem free_variable_spec s : Coherent pool s ->
  (odef s = [] <-> get_free_variable pool s = MErr EValue) /\
  (forall t0, (forall e v t o n, In e (eqs s) -> eq_lhs pool e = LDeriv v t o n -> t = t0) ->
              odef s <> [] -> get_free_variable pool s = MOk t0).
Proof.
  intros Hc. pose proof (co_odef pool s Hc) as Ho. split.
  - unfold get_free_variable. destruct (odef s) as [|[v e] r] eqn:E; [split; reflexivity|].
    split; [discriminate|]. intros H. exfalso.
    assert (Hin : In (v, e) (ode_index pool (eqs s))) by (rewrite <- Ho; left; reflexivity).
    unfold ode_index in Hin. apply in_flat_map in Hin as [e' [_ Hk]]. unfold okey in Hk.
    destruct (eq_lhs pool e') as [w|w t o n|] eqn:El; try contradiction. destruct Hk as [[= -> ->]|[]].
    rewrite El in H. discriminate.
  - intros t0 Hall Hne. unfold get_free_variable. destruct (odef s) as [|[v e] r] eqn:E; [congruence|].
    assert (Hin : In (v, e) (ode_index pool (eqs s))) by (rewrite <- Ho; left; reflexivity).
    unfold ode_index in Hin. apply in_flat_map in Hin as [e' [He' Hk]]. unfold okey in Hk.
    destruct (eq_lhs pool e') as [w|w t o n|] eqn:El; try contradiction. destruct Hk as [[= -> ->]|[]].
    rewrite El. f_equal. apply (Hall e v t o n He' El).
Qed.

(* constants are exactly the variables whose defining equation mentions no variable *)
Theorem constant_iff_no_variable s v : Coherent pool s ->
  (is_constant pool s v = true <->
   exists e q, In e (eqs s) /\ eq_lhs pool e = LVar v /\ nth_error pool e = Some q /\ e_atoms q = []).
Proof.
  intros Hc. pose proof (co_vdef pool s Hc) as Hv. unfold is_constant. split.
  - destruct (dget Nat.eqb (vdef s) v) as [e|] eqn:Hd; [|discriminate].
    destruct (nth_error pool e) as [q|] eqn:Hq; [|discriminate]. destruct (e_atoms q) eqn:Ha; [|discriminate]. intros _.
    apply dget_in in Hd. rewrite Hv in Hd. unfold var_index in Hd. apply in_flat_map in Hd as [e' [He' Hk]].
    unfold vkey in Hk. destruct (eq_lhs pool e') as [w|w t o n|] eqn:El; try contradiction. destruct Hk as [[= -> ->]|[]].
    exists e, q. repeat split; assumption.
  - intros [e [q [Hin [El [Hq Ha]]]]].
    assert (Hd : dget Nat.eqb (vdef s) v = Some e).
    { apply in_dget.
      - rewrite Hv. pose proof (co_keys pool s Hc) as Hk. unfold lhs_keys in Hk. apply NoDup_app_split in Hk as [Hk _]. exact Hk.
      - rewrite Hv. unfold var_index. apply in_flat_map. exists e. split; [exact Hin|]. unfold vkey. rewrite El. left. reflexivity. }
    rewrite Hd, Hq, Ha. reflexivity.
Qed.

(* roles are a function of (variables, equations): two states with the same content answer alike, however reached *)
Theorem roles_history_independent s1 s2 : Coherent pool s1 -> Coherent pool s2 ->
  eqs s1 = eqs s2 -> vars s1 = vars s2 ->
  get_state_variables s1 = get_state_variables s2 /\ get_free_variable pool s1 = get_free_variable pool s2 /\
  (forall v, is_constant pool s1 v = is_constant pool s2 v) /\
  (forall v, get_definition s1 v = get_definition s2 v) /\
  build_graph pool s1 = build_graph pool s2.
Proof.
  intros H1 H2 He Hv.
  assert (Ho : odef s1 = odef s2) by (rewrite (co_odef pool s1 H1), (co_odef pool s2 H2), He; reflexivity).
  assert (Hd : vdef s1 = vdef s2) by (rewrite (co_vdef pool s1 H1), (co_vdef pool s2 H2), He; reflexivity).
  unfold get_state_variables, get_free_variable, is_constant, get_definition. rewrite Ho, Hd, Hv.
  repeat split; try reflexivity. apply build_graph_eqs. exact He.
Qed.

(* ---- get_value ---------------------------------------------------------------------------------------------- *)
(* the specification: evaluate the definition recursively with states at their initial values and time at zero; a
   derivative atom d y/d t has the value of the right-hand side of the ODE of y *)
Inductive ValueSpec (s : mstate) : vid -> Q -> Prop :=
| VS_state v r q : dhas Nat.eqb (odef s) v = true -> nth_error (vars s) v = Some r -> v_init r = Some q ->
                   ValueSpec s v q
| VS_free t : free_of pool s = Some t -> ValueSpec s t 0%Q
| VS_def v e q x r :
    dhas Nat.eqb (odef s) v = false -> dget Nat.eqb (vdef s) v = Some e ->
    nth_error pool e = Some q -> nth_error rhs e = Some x -> RhsSpec s x r -> ValueSpec s v r
with RhsSpec (s : mstate) : expr -> Q -> Prop :=
| RS_eval x (env : vid -> option Q) (denv : vid -> vid -> option Q) r :
    (forall d qd, env d = Some qd -> ValueSpec s d qd) ->
    (forall y t qd, denv y t = Some qd -> DerivSpec s y t qd) ->
    evalQ (fun z => env (Z.to_nat z)) (fun y t => denv (Z.to_nat y) (Z.to_nat t)) x = Some r -> RhsSpec s x r
with DerivSpec (s : mstate) : vid -> vid -> Q -> Prop :=
| DS_ode y t e q x o n r :
    dget Nat.eqb (odef s) y = Some e -> nth_error pool e = Some q -> nth_error rhs e = Some x ->
    e_lhs q = LDeriv y t o n -> RhsSpec s x r -> DerivSpec s y t r.

Definition MemoOk (s : mstate) (m : memo * dmemo) : Prop :=
  (forall d q, mget (fst m) d = Some q -> ValueSpec s d q) /\
  (forall y t q, dmget (snd m) y t = Some q -> DerivSpec s y t q).

Lemma dget_dset_nat {V} (d : list (nat * V)) k v k' :
  dget Nat.eqb (dset Nat.eqb d k v) k' = if Nat.eqb k' k then Some v else dget Nat.eqb d k'.
Proof.
  induction d as [|[k0 v0] d IH]; cbn [dset dget].
  - reflexivity.
  - destruct (Nat.eqb_spec k k0) as [->|Hne]; cbn [dget].
    + destruct (Nat.eqb_spec k' k0); reflexivity.
    + destruct (Nat.eqb_spec k' k0) as [->|Hne'].
      * destruct (Nat.eqb_spec k0 k); [congruence|reflexivity].
      * exact IH.
Qed.

Lemma pair_eqb_spec a b : reflect (a = b) (pair_eqb a b).
Proof.
  destruct a as [a1 a2], b as [b1 b2]. unfold pair_eqb. cbn [fst snd].
  destruct (Nat.eqb_spec a1 b1) as [->|H1]; cbn [andb].
  - destruct (Nat.eqb_spec a2 b2) as [->|H2]; constructor; congruence.
  - constructor. congruence.
Qed.

Lemma dget_dset_pair {V} (d : list ((nat * nat) * V)) k v k' :
  dget pair_eqb (dset pair_eqb d k v) k' = if pair_eqb k' k then Some v else dget pair_eqb d k'.
Proof.
  induction d as [|[k0 v0] d IH]; cbn [dset dget].
  - reflexivity.
  - destruct (pair_eqb_spec k k0) as [->|Hne]; cbn [dget].
    + destruct (pair_eqb_spec k' k0); reflexivity.
    + destruct (pair_eqb_spec k' k0) as [->|Hne'].
      * destruct (pair_eqb_spec k0 k); [congruence|reflexivity].
      * exact IH.
Qed.

Lemma dget_app_nat {V} (a b : list (nat * V)) k :
  dget Nat.eqb (a ++ b) k = match dget Nat.eqb a k with Some v => Some v | None => dget Nat.eqb b k end.
Proof.
  induction a as [|[k0 v0] a IH]; cbn [app dget]; [reflexivity|]. destruct (Nat.eqb k k0); [reflexivity|exact IH].
Qed.

Lemma initial_memo_ok s : MemoOk s (initial_memo pool s, []).
Proof.
  split; [|intros y t q H; discriminate].
  cbn [fst]. intros d q H. unfold initial_memo, mget in H. rewrite dget_app_nat in H.
  destruct (free_of pool s) as [t|] eqn:Hf; cbn [dget] in H.
  - destruct (Nat.eqb_spec d t) as [->|Hne]; [injection H as <-; apply VS_free; exact Hf|].
    apply dget_in in H. apply in_flat_map in H as [[v e] [Hin Hx]]. cbn [fst] in Hx.
    destruct (nth_error (vars s) v) as [r|] eqn:Hr; [|contradiction]. destruct (v_init r) as [q0|] eqn:Hi; [|contradiction].
    destruct Hx as [[= <- <-]|[]]. apply (VS_state s v r q0); [|exact Hr|exact Hi].
    unfold dhas. destruct (dget Nat.eqb (odef s) v) eqn:Hd; [reflexivity|].
    exfalso. clear -Hin Hd. induction (odef s) as [|[k x] l IH]; [contradiction|]. cbn [dget] in Hd.
    destruct (Nat.eqb_spec v k) as [->|Hne]; [discriminate|]. destruct Hin as [[= -> _]|Hin]; [congruence|apply IH; assumption].
  - apply dget_in in H. apply in_flat_map in H as [[v e] [Hin Hx]]. cbn [fst] in Hx.
    destruct (nth_error (vars s) v) as [r|] eqn:Hr; [|contradiction]. destruct (v_init r) as [q0|] eqn:Hi; [|contradiction].
    destruct Hx as [[= <- <-]|[]]. apply (VS_state s v r q0); [|exact Hr|exact Hi].
    unfold dhas. destruct (dget Nat.eqb (odef s) v) eqn:Hd; [reflexivity|].
    exfalso. clear -Hin Hd. induction (odef s) as [|[k x] l IH]; [contradiction|]. cbn [dget] in Hd.
    destruct (Nat.eqb_spec v k) as [->|Hne]; [discriminate|]. destruct Hin as [[= -> _]|Hin]; [congruence|apply IH; assumption].
Qed.

Definition dep_step (f : nat) (s : mstate) (acc : vres (memo * dmemo)) (d : vid) : vres (memo * dmemo) :=
  match acc with
  | VErr e0 => VErr e0
  | VOk m0 => match mget (fst m0) d with
              | Some _ => VOk m0
              | None => if dhas Nat.eqb (odef s) d then VOk m0 else
                        match value_of pool rhs f s m0 d with
                        | VOk (x0, m'') => VOk (dset Nat.eqb (fst m'') d x0, snd m'')
                        | VErr e0 => VErr e0
                        end
              end
  end.

Definition der_step (f : nat) (s : mstate) (acc : vres (memo * dmemo)) (r : ref) : vres (memo * dmemo) :=
  match acc, r with
  | VErr e, _ => VErr e
  | VOk m', RVar _ => VOk m'
  | VOk m', RDer y t =>
      match dmget (snd m') y t with
      | Some _ => VOk m'
      | None =>
          match dget Nat.eqb (odef s) y with
          | None => VErr VValue
          | Some e' =>
              match nth_error pool e', nth_error rhs e' with
              | Some q', Some x' =>
                  match e_lhs q' with
                  | LDeriv y' t' _ _ =>
                      if Nat.eqb y' y && Nat.eqb t' t then
                        match eval_rhs pool rhs f s m' q' x' with
                        | VOk (r0, m'') => VOk (fst m'', dset pair_eqb (snd m'') (y, t) r0)
                        | VErr e => VErr e
                        end
                      else VErr VValue
                  | _ => VErr VValue
                  end
              | _, _ => VErr VOutside
              end
          end
      end
  end.

Lemma value_of_S f s m v : value_of pool rhs (S f) s m v =
  if dhas Nat.eqb (odef s) v then
    match nth_error (vars s) v with
    | Some r => match v_init r with Some q => VOk (q, m) | None => VErr VType end
    | None => VErr VType
    end
  else
    match dget Nat.eqb (vdef s) v with
    | None => match odef s, free_of pool s with
              | _ :: _, Some t => if Nat.eqb t v then VOk (0%Q, m) else VErr VValue
              | _, _ => VErr VValue
              end
    | Some e =>
        match nth_error pool e, nth_error rhs e with
        | Some q, Some x => eval_rhs pool rhs f s m q x
        | _, _ => VErr VOutside
        end
    end.
Proof. reflexivity. Qed.

Lemma eval_rhs_S f s m q x : eval_rhs pool rhs (S f) s m q x =
  match fold_left (der_step f s) (e_refs q) (VOk m) with
  | VErr e => VErr e
  | VOk m1 =>
      match fold_left (dep_step f s) (e_atoms q) (VOk m1) with
      | VErr e => VErr e
      | VOk m2 =>
          if existsb (fun r => match r with
                               | RVar v => dhas Nat.eqb (odef s) v && match mget (fst m2) v with Some _ => false | None => true end
                               | RDer _ _ => false
                               end) (e_refs q) then VErr VType else
          match evalQ (fun z => mget (fst m2) (Z.to_nat z)) (fun y t => dmget (snd m2) (Z.to_nat y) (Z.to_nat t)) x with
          | Some r => VOk (r, m2)
          | None => VErr VOutside
          end
      end
  end.
Proof. reflexivity. Qed.

Lemma dep_step_err f s deps e0 : fold_left (dep_step f s) deps (VErr e0) = VErr e0.
Proof. induction deps as [|d deps IH]; cbn [fold_left dep_step]; [reflexivity|exact IH]. Qed.
Lemma der_step_err f s refs e0 : fold_left (der_step f s) refs (VErr e0) = VErr e0.
Proof. induction refs as [|d refs IH]; cbn [fold_left der_step]; [reflexivity|exact IH]. Qed.

Lemma value_of_sound fuel s :
  (forall m v x m', MemoOk s m -> value_of pool rhs fuel s m v = VOk (x, m') -> ValueSpec s v x /\ MemoOk s m') /\
  (forall m q x r m', MemoOk s m -> eval_rhs pool rhs fuel s m q x = VOk (r, m') -> RhsSpec s x r /\ MemoOk s m').
Proof.
  induction fuel as [|f [IHv IHe]]; [split; intros; discriminate|]. split.
  - intros m v x m' Hm H. rewrite value_of_S in H.
    destruct (dhas Nat.eqb (odef s) v) eqn:Hst.
    + destruct (nth_error (vars s) v) as [r|] eqn:Hr; [|discriminate]. destruct (v_init r) as [q|] eqn:Hi; [|discriminate].
      injection H as <- <-. split; [apply (VS_state s v r q); assumption|exact Hm].
    + destruct (dget Nat.eqb (vdef s) v) as [e|] eqn:Hd.
      * destruct (nth_error pool e) as [q|] eqn:Hq; [|discriminate]. destruct (nth_error rhs e) as [ex|] eqn:Hx; [|discriminate].
        destruct (IHe m q ex x m' Hm H) as [Hs Hm']. split; [|exact Hm'].
        apply (VS_def s v e q ex x); assumption.
      * destruct (odef s) as [|p l] eqn:Ho; [discriminate|]. destruct (free_of pool s) as [t|] eqn:Hf; [|discriminate].
        destruct (Nat.eqb_spec t v) as [->|]; [|discriminate]. injection H as <- <-. split; [apply VS_free; exact Hf|exact Hm].
  - intros m q x r m' Hm H. rewrite eval_rhs_S in H.
    assert (Hders : forall refs m0 m1, MemoOk s m0 -> fold_left (der_step f s) refs (VOk m0) = VOk m1 -> MemoOk s m1).
    { induction refs as [|d refs IHd]; intros m0 m1 H0 Hf; cbn [fold_left] in Hf; [injection Hf as <-; exact H0|].
      destruct d as [v0|y t]; cbn [der_step] in Hf; [apply (IHd m0 m1 H0 Hf)|].
      destruct (dmget (snd m0) y t) as [qd|] eqn:Hg; [apply (IHd m0 m1 H0 Hf)|].
      destruct (dget Nat.eqb (odef s) y) as [e'|] eqn:Ho; [|rewrite der_step_err in Hf; discriminate].
      destruct (nth_error pool e') as [q'|] eqn:Hq'; [|rewrite der_step_err in Hf; discriminate].
      destruct (nth_error rhs e') as [x'|] eqn:Hx'; [|rewrite der_step_err in Hf; discriminate].
      destruct (e_lhs q') as [|y' t' o n|] eqn:Hl; try (rewrite der_step_err in Hf; discriminate).
      destruct (Nat.eqb y' y && Nat.eqb t' t) eqn:Hyt; [|rewrite der_step_err in Hf; discriminate].
      apply andb_true_iff in Hyt as [Hy Ht]. apply Nat.eqb_eq in Hy. apply Nat.eqb_eq in Ht. subst y' t'.
      destruct (eval_rhs pool rhs f s m0 q' x') as [[r0 m'']|e0] eqn:Hv; [|rewrite der_step_err in Hf; discriminate].
      destruct (IHe m0 q' x' r0 m'' H0 Hv) as [Hs [Hm1 Hm2]].
      apply (IHd (fst m'', dset pair_eqb (snd m'') (y, t) r0) m1); [|exact Hf].
      split; cbn [fst snd]; [exact Hm1|].
      intros y0 t0 q0 Hget. unfold dmget in Hget. rewrite dget_dset_pair in Hget.
      destruct (pair_eqb_spec (y0, t0) (y, t)) as [E|Hne].
      - injection E as -> ->. injection Hget as <-. apply (DS_ode s y t e' q' x' o n r0); assumption.
      - apply Hm2. exact Hget. }
    assert (Hdeps : forall deps m0 m1, MemoOk s m0 -> fold_left (dep_step f s) deps (VOk m0) = VOk m1 -> MemoOk s m1).
    { induction deps as [|d deps IHd]; intros m0 m1 H0 Hf; cbn [fold_left] in Hf; [injection Hf as <-; exact H0|].
      unfold dep_step at 2 in Hf.
      destruct (mget (fst m0) d) as [qd|] eqn:Hg; [apply (IHd m0 m1 H0 Hf)|].
      destruct (dhas Nat.eqb (odef s) d) eqn:Hsd; [apply (IHd m0 m1 H0 Hf)|].
      destruct (value_of pool rhs f s m0 d) as [[x0 m'']|e0] eqn:Hv; [|rewrite dep_step_err in Hf; discriminate].
      destruct (IHv m0 d x0 m'' H0 Hv) as [Hs [Hm1 Hm2]].
      apply (IHd (dset Nat.eqb (fst m'') d x0, snd m'') m1); [|exact Hf].
      split; cbn [fst snd]; [|exact Hm2].
      intros d' q' Hget. unfold mget in Hget. rewrite dget_dset_nat in Hget.
      destruct (Nat.eqb_spec d' d) as [->|]; [injection Hget as <-; exact Hs|apply Hm1; exact Hget]. }
    destruct (fold_left (der_step f s) (e_refs q) (VOk m)) as [m1|e1] eqn:Hf1; [|discriminate].
    destruct (fold_left (dep_step f s) (e_atoms q) (VOk m1)) as [m2|e2] eqn:Hf2; [|discriminate].
    destruct (existsb _ (e_refs q)); [discriminate|].
    destruct (evalQ _ _ x) as [r'|] eqn:He; [|discriminate].
    injection H as <- <-.
    pose proof (Hdeps _ _ _ (Hders _ _ _ Hm Hf1) Hf2) as [Hm2a Hm2b]. split; [|split; assumption].
    apply (RS_eval s x (mget (fst m2)) (dmget (snd m2)) r'); assumption.
Qed.

Theorem get_value_sound fuel s v x : get_value pool rhs fuel s v = VOk x -> ValueSpec s v x.
Proof.
  unfold get_value. destruct (value_of pool rhs fuel s (initial_memo pool s, []) v) as [[y m']|] eqn:H; [|discriminate].
  intros [= <-]. destruct (proj1 (value_of_sound fuel s) _ v y m' (initial_memo_ok s) H) as [A _]. exact A.
Qed.

End WithPool.

(* a definition that mentions a derivative: d x/d t = 1 (initial value x = 1), y = d x/d t: get_value y = 1 *)
Example get_value_derivative_example :
  exists pool rhs s v fuel, get_value pool rhs fuel s v = VOk 1%Q /\
    exists e x, dget Nat.eqb (vdef s) v = Some e /\ nth_error rhs e = Some x /\ has_deriv x = true.
Proof.
  pose (pool := [ {| e_lhs := LDeriv 0%nat 1%nat 1%Z 1%Z; e_refs := []; e_isqty := true; e_hasqty := true; e_refs_num := []; e_atoms := [] |};
                  {| e_lhs := LVar 2%nat; e_refs := [RDer 0%nat 1%nat]; e_isqty := false; e_hasqty := false;
                     e_refs_num := [RDer 0%nat 1%nat]; e_atoms := [0%nat; 1%nat] |} ]).
  pose (rhs := [EQty 0 1%Q 0; EDeriv (EVar 0) (EVar 1) 1]).
  pose (s := run pool (init_state None)
                 [OAddVar [120%Z] None (Some 1%Q); OAddVar [116%Z] None None; OAddVar [121%Z] None None; OAddEq 0%nat; OAddEq 1%nat]).
  exists pool, rhs, s, 2%nat, 9%nat. split; [vm_compute; reflexivity|].
  exists 1%nat, (EDeriv (EVar 0) (EVar 1) 1). repeat split.
Qed.
